import GnoVerif.Model.C13
/-! Helper lemmas for C13 (core Lean only). -/
namespace GnoVerif.C13

/-! ### colons -/

theorem hasColon_false_iff {s : Str} : hasColon s = false ↔ ':' ∉ s := by
  unfold hasColon
  rw [List.any_eq_false]
  constructor
  · intro h hm
    exact h ':' hm (by decide)
  · intro h x hx hb
    have : x = ':' := by simpa using hb
    exact h (this ▸ hx)

theorem hasColon_true_iff {s : Str} : hasColon s = true ↔ ':' ∈ s := by
  constructor
  · intro h
    apply Classical.byContradiction
    intro hn
    have := hasColon_false_iff.mpr hn
    simp [h] at this
  · intro h
    cases hc : hasColon s with
    | true => rfl
    | false => exact absurd h (hasColon_false_iff.mp hc)

theorem hasColon_append {a b : Str} : hasColon (a ++ b) = (hasColon a || hasColon b) := by
  simp [hasColon, List.any_append]

theorem hasColon_cons {c : Char} {s : Str} : hasColon (c :: s) = (c == ':' || hasColon s) := by
  simp [hasColon]

/-- the LAST colon determines the split when the tail is colon-free -/
theorem append_colon_inj : ∀ (a a' k k' : Str), hasColon k = false → hasColon k' = false →
    a ++ ':' :: k = a' ++ ':' :: k' → a = a' ∧ k = k' := by
  intro a
  induction a with
  | nil =>
    intro a' k k' hk hk' h
    cases a' with
    | nil => simp at h; exact ⟨rfl, h⟩
    | cons c a'' =>
      simp at h
      obtain ⟨_, h2⟩ := h
      rw [h2, hasColon_append, hasColon_cons] at hk
      simp at hk
  | cons c a ih =>
    intro a' k k' hk hk' h
    cases a' with
    | nil =>
      simp at h
      obtain ⟨_, h2⟩ := h
      rw [← h2, hasColon_append, hasColon_cons] at hk'
      simp at hk'
    | cons c' a'' =>
      simp at h
      obtain ⟨h1, h2⟩ := h
      obtain ⟨e1, e2⟩ := ih a'' k k' hk hk' (by simpa using h2)
      exact ⟨by rw [h1, e1], e2⟩

/-! ### `cut` (first colon) -/

theorem cut_none_of_noColon : ∀ {s : Str}, hasColon s = false → cut s = none := by
  intro s
  induction s with
  | nil => intro _; rfl
  | cons c cs ih =>
    intro h
    rw [hasColon_cons] at h
    simp at h
    obtain ⟨h1, h2⟩ := h
    simp [cut, h1, ih h2]

theorem cut_append_colon : ∀ {a : Str} (b : Str), hasColon a = false → cut (a ++ ':' :: b) = some (a, b) := by
  intro a
  induction a with
  | nil => intro b _; simp [cut]
  | cons c cs ih =>
    intro b h
    rw [hasColon_cons] at h
    simp at h
    obtain ⟨h1, h2⟩ := h
    simp [cut, h1, ih b h2]

theorem cut_some : ∀ {s b a : Str}, cut s = some (b, a) → s = b ++ ':' :: a ∧ hasColon b = false := by
  intro s
  induction s with
  | nil => intro b a h; simp [cut] at h
  | cons c cs ih =>
    intro b a h
    unfold cut at h
    by_cases hc : (c == ':') = true
    · simp [hc] at h
      obtain ⟨rfl, rfl⟩ := h
      have : c = ':' := by simpa using hc
      subst this
      exact ⟨rfl, rfl⟩
    · simp only [hc] at h
      cases hcut : cut cs with
      | none => simp [hcut] at h
      | some p =>
        obtain ⟨b0, a0⟩ := p
        simp [hcut] at h
        obtain ⟨rfl, rfl⟩ := h
        obtain ⟨e1, e2⟩ := ih hcut
        refine ⟨by rw [e1]; rfl, ?_⟩
        rw [hasColon_cons]
        simp [hc, e2]

theorem cut_isNone_iff {s : Str} : cut s = none ↔ hasColon s = false := by
  constructor
  · induction s with
    | nil => intro _; rfl
    | cons c cs ih =>
      intro h
      unfold cut at h
      by_cases hcc : (c == ':') = true
      · simp [hcc] at h
      · simp only [hcc] at h
        cases hcut : cut cs with
        | none =>
          rw [hasColon_cons]
          simp [hcc, ih hcut]
        | some p => simp [hcut] at h
  · exact cut_none_of_noColon

/-! ### `cutLast` (last colon) -/

theorem cutLast_none_of_noColon : ∀ {s : Str}, hasColon s = false → cutLast s = none := by
  intro s
  induction s with
  | nil => intro _; rfl
  | cons c cs ih =>
    intro h
    rw [hasColon_cons] at h
    simp at h
    obtain ⟨h1, h2⟩ := h
    simp [cutLast, ih h2, h1]

theorem cutLast_append_colon : ∀ (a : Str) {k : Str}, hasColon k = false →
    cutLast (a ++ ':' :: k) = some (a, k) := by
  intro a
  induction a with
  | nil => intro k h; simp [cutLast, cutLast_none_of_noColon h]
  | cons c cs ih => intro k h; simp [cutLast, ih h]

/-! ### splitting -/

theorem mem_splitBy (sep : Char) : ∀ {s : Str} {c : Char}, c ∈ s → c ≠ sep →
    ∃ p ∈ splitBy sep s, c ∈ p := by
  intro s
  induction s with
  | nil => intro c h; cases h
  | cons d ds ih =>
    intro c hc hne
    unfold splitBy
    by_cases hd : (d == sep) = true
    · simp only [hd, if_true]
      have hdc : c ≠ d := by
        intro e; subst e; exact hne (by simpa using hd)
      have : c ∈ ds := by
        cases hc with
        | head => exact absurd rfl hdc
        | tail _ h => exact h
      obtain ⟨p, hp, hcp⟩ := ih this hne
      exact ⟨p, List.mem_cons_of_mem _ hp, hcp⟩
    · simp only [hd]
      cases hsp : splitBy sep ds with
      | nil =>
        simp only []
        rcases List.mem_cons.mp hc with rfl | h
        · exact ⟨[c], by simp, by simp⟩
        · obtain ⟨p, hp, _⟩ := ih h hne
          rw [hsp] at hp; cases hp
      | cons h t =>
        simp only []
        rcases List.mem_cons.mp hc with rfl | hmem
        · exact ⟨c :: h, by simp, by simp⟩
        · obtain ⟨p, hp, hcp⟩ := ih hmem hne
          rw [hsp] at hp
          cases hp with
          | head => exact ⟨d :: h, by simp, List.mem_cons_of_mem _ hcp⟩
          | tail _ hpt => exact ⟨p, List.mem_cons_of_mem _ hpt, hcp⟩

theorem splitBy_of_not_mem (sep : Char) : ∀ {s : Str}, sep ∉ s → splitBy sep s = [s] := by
  intro s
  induction s with
  | nil => intro _; rfl
  | cons d ds ih =>
    intro h
    have h1 : d ≠ sep := fun e => h (by simp [e])
    have h2 : sep ∉ ds := fun m => h (List.mem_cons_of_mem _ m)
    unfold splitBy
    have : (d == sep) = false := by simpa using h1
    simp [this, ih h2]

/-! ### the grammar never admits a colon -/

theorem nameTail_noColon : ∀ {s : Str}, nameTail s = true → ':' ∉ s := by
  intro s
  fun_induction nameTail s with
  | case1 => intro _ h; cases h
  | case2 c rest hc ih =>
    intro h hm
    cases hm with
    | head => exact absurd hc (by decide)
    | tail _ hm => exact ih h hm
  | case3 c hc hs d ds ih =>
    intro h hm
    simp at h
    cases hm with
    | head => exact absurd hs (by decide)
    | tail _ hm =>
      cases hm with
      | head => exact absurd h.1 (by decide)
      | tail _ hm => exact ih h.2 hm
  | case4 c hc hs => intro h; cases h
  | case5 c rest hc hs => intro h; cases h

theorem isName_noColon {s : Str} (h : isName s = true) : ':' ∉ s := by
  cases s with
  | nil => simp [isName] at h
  | cons c cs =>
    simp [isName] at h
    intro hm
    cases hm with
    | head => exact absurd h.1 (by decide)
    | tail _ hm => exact nameTail_noColon h.2 hm

theorem all_noColon {p : Char → Bool} (hp : p ':' = false) {s : Str} (h : s.all p = true) : ':' ∉ s := by
  intro hm
  have := (List.all_eq_true.mp h) ':' hm
  simp [hp] at this

theorem isDomain_noColon {d : Str} (h : isDomain d = true) : ':' ∉ d := by
  intro hm
  obtain ⟨p, hp, hcp⟩ := mem_splitBy '.' hm (by decide)
  unfold isDomain at h
  have hp' : p ∈ (splitBy '.' d).reverse := List.mem_reverse.mpr hp
  cases hr : (splitBy '.' d).reverse with
  | nil => rw [hr] at hp'; cases hp'
  | cons tld rest =>
    cases rest with
    | nil => simp [hr] at h
    | cons l ls =>
      rw [hr] at hp' h
      simp only [Bool.and_eq_true] at h
      obtain ⟨⟨⟨_, _⟩, htld⟩, hls⟩ := h
      cases hp' with
      | head => exact all_noColon (by decide) htld hcp
      | tail _ hp'' =>
        have := (List.all_eq_true.mp hls) p hp''
        simp only [Bool.and_eq_true] at this
        exact all_noColon (by decide) this.2 hcp

theorem isUserlib_noColon {p : Str} (h : isUserlib p = true) : ':' ∉ p := by
  intro hm
  obtain ⟨q, hq, hcq⟩ := mem_splitBy '/' hm (by decide)
  unfold isUserlib at h
  cases hs : splitBy '/' p with
  | nil => rw [hs] at hq; cases hq
  | cons dom r1 =>
    cases r1 with
    | nil => simp [hs] at h
    | cons letter r2 =>
      cases r2 with
      | nil => simp [hs] at h
      | cons user repo =>
        rw [hs] at hq h
        simp only [Bool.and_eq_true] at h
        obtain ⟨⟨⟨hdom, hlet⟩, huser⟩, hrepo⟩ := h
        rcases List.mem_cons.mp hq with rfl | hq
        · exact isDomain_noColon hdom hcq
        rcases List.mem_cons.mp hq with rfl | hq
        · cases q with
          | nil => cases hcq
          | cons c cs =>
            cases cs with
            | cons _ _ => simp at hlet
            | nil =>
              have : c = ':' := by
                have := List.mem_singleton.mp hcq
                exact this.symm
              subst this
              exact absurd hlet (by decide)
        rcases List.mem_cons.mp hq with rfl | hq
        · exact isName_noColon huser hcq
        · exact isName_noColon ((List.all_eq_true.mp hrepo) q hq) hcq

theorem isUserlib_hasSlash {p : Str} (h : isUserlib p = true) : '/' ∈ p := by
  apply Classical.byContradiction
  intro hn
  unfold isUserlib at h
  rw [splitBy_of_not_mem '/' hn] at h
  simp at h

theorem isRealmPath_isUserlib {p : Str} (h : isRealmPath p = true) : isUserlib p = true := by
  unfold isRealmPath at h
  simp only [Bool.and_eq_true] at h
  exact h.1

/-! ### the vm module's switch -/

theorem vmField_none_of_not_prefix {raw : Str} (h : (L!"p:").isPrefixOf raw = false) :
    vmField raw = none := by
  have key : ∀ L : Str, (L!"p:").isPrefixOf L = true → ¬ raw = L := by
    intro L hL e
    rw [e, hL] at h
    cases h
  unfold vmField
  simp only [if_neg (key (L!"p:sysnames_pkgpath") (by decide)),
    if_neg (key (L!"p:syscla_pkgpath") (by decide)),
    if_neg (key (L!"p:chain_domain") (by decide)),
    if_neg (key (L!"p:default_deposit") (by decide)),
    if_neg (key (L!"p:storage_price") (by decide)),
    if_neg (key (L!"p:storage_fee_collector") (by decide)),
    if_neg (key (L!"p:min_get_read_depth_100") (by decide)),
    if_neg (key (L!"p:min_set_read_depth_100") (by decide)),
    if_neg (key (L!"p:min_write_depth_100") (by decide)),
    if_neg (key (L!"p:fixed_get_read_depth_100") (by decide)),
    if_neg (key (L!"p:fixed_set_read_depth_100") (by decide)),
    if_neg (key (L!"p:fixed_write_depth_100") (by decide)),
    if_neg (key (L!"p:iter_next_cost_flat") (by decide)),
    if_neg (key (L!"p:preprocess_gas_per_byte") (by decide))]

theorem vmField_prefix {raw : Str} {f : VmField} (h : vmField raw = some f) :
    (L!"p:").isPrefixOf raw = true := by
  cases hp : (L!"p:").isPrefixOf raw with
  | true => rfl
  | false => rw [vmField_none_of_not_prefix hp] at h; cases h

/-- a raw key `r:k` with colon-free `r ≠ "p"` never starts with "p:" -/
theorem not_p_prefix {r k : Str} (hr : hasColon r = false) (hp : r ≠ L!"p") :
    (L!"p:").isPrefixOf (r ++ ':' :: k) = false := by
  cases r with
  | nil =>
    show List.isPrefixOf ['p', ':'] (':' :: k) = false
    simp [List.isPrefixOf]
  | cons c r' =>
    cases r' with
    | nil =>
      have : ¬ 'p' = c := fun e => hp (by subst e; rfl)
      show List.isPrefixOf ['p', ':'] (c :: ':' :: k) = false
      simp [List.isPrefixOf, this]
    | cons d r'' =>
      rw [hasColon_cons, hasColon_cons] at hr
      simp at hr
      have : ¬ ':' = d := fun e => hr.2.1 e.symm
      show List.isPrefixOf ['p', ':'] (c :: d :: (r'' ++ ':' :: k)) = false
      simp [List.isPrefixOf, this]

end GnoVerif.C13
