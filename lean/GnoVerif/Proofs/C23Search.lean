/-
Proofs.C23Search — the two binary searches of search.go find the partition
point of a sorted key list.
-/
import GnoVerif.Spec.C23Inv

namespace GnoVerif.C23

theorem cmp_ne_gt_iff {a b : Bytes} : Lex.cmp a b ≠ .gt ↔ a ≤ b := by
  rw [Ne, Lex.cmp_gt_iff]; exact Lex.not_lt

theorem getD_le_of_pairwise {ks : List Key} (hs : ks.Pairwise (· ≤ ·)) {j m : Nat}
    (hjm : j ≤ m) (hm : m < ks.length) : ks.getD j [] ≤ ks.getD m [] := by
  have hj : j < ks.length := by omega
  simp only [List.getD_eq_getElem?_getD, List.getElem?_eq_getElem hj, List.getElem?_eq_getElem hm,
    Option.getD_some]
  rcases Nat.lt_or_eq_of_le hjm with h | h
  · exact (List.pairwise_iff_getElem.1 hs) j m hj hm h
  · subst h; exact Lex.le_refl _

/-- `searchInner`: the result `i` splits a `≤`-sorted key list into the keys `≤ key`
(positions `< i`) and the keys `> key` (positions `≥ i`). -/
theorem searchInnerGo_spec (ks : List Key) (key : Key) (hs : ks.Pairwise (· ≤ ·)) (lo hi : Nat)
    (hlh : lo ≤ hi) (hhl : hi ≤ ks.length)
    (hL : ∀ j, j < lo → ks.getD j [] ≤ key)
    (hR : ∀ j, hi ≤ j → j < ks.length → key < ks.getD j []) :
    lo ≤ searchInnerGo ks key lo hi ∧ searchInnerGo ks key lo hi ≤ hi ∧
    (∀ j, j < searchInnerGo ks key lo hi → ks.getD j [] ≤ key) ∧
    (∀ j, searchInnerGo ks key lo hi ≤ j → j < ks.length → key < ks.getD j []) := by
  fun_induction searchInnerGo ks key lo hi with
  | case1 lo hi hlt mid hcmp ih =>
    have hmid : mid < ks.length := by have hm : mid = lo + (hi - lo) / 2 := rfl; omega
    have hle : ks.getD mid [] ≤ key := cmp_ne_gt_iff.1 hcmp
    have := ih (by have hm : mid = lo + (hi - lo) / 2 := rfl; omega) hhl
      (fun j hj => Lex.le_trans (getD_le_of_pairwise hs (by omega) hmid) hle) hR
    refine ⟨by have hm : mid = lo + (hi - lo) / 2 := rfl; omega, this.2.1, this.2.2.1, this.2.2.2⟩
  | case2 lo hi hlt mid hcmp ih =>
    have hmid : mid < ks.length := by have hm : mid = lo + (hi - lo) / 2 := rfl; omega
    have hgt : key < ks.getD mid [] := by
      have : ¬ (ks.getD mid [] ≤ key) := fun h => hcmp (cmp_ne_gt_iff.2 h)
      exact Lex.not_le.1 this
    have := ih (by have hm : mid = lo + (hi - lo) / 2 := rfl; omega) (by omega) hL
      (fun j hj hjl => Lex.lt_of_lt_of_le hgt (getD_le_of_pairwise hs hj hjl))
    refine ⟨this.1, by have hm : mid = lo + (hi - lo) / 2 := rfl; omega, this.2.2.1, this.2.2.2⟩
  | case3 lo hi hnlt =>
    have : lo = hi := by omega
    subst this
    exact ⟨Nat.le_refl _, Nat.le_refl _, hL, hR⟩

theorem mem_take_getD {ks : List Key} {i : Nat} {x : Key} (h : x ∈ ks.take i) :
    ∃ j, j < i ∧ j < ks.length ∧ ks.getD j [] = x := by
  obtain ⟨j, hj, rfl⟩ := List.mem_iff_getElem.1 h
  simp only [List.length_take] at hj
  refine ⟨j, by omega, by omega, ?_⟩
  simp [List.getD_eq_getElem?_getD, List.getElem?_eq_getElem (show j < ks.length by omega)]

theorem mem_drop_getD {ks : List Key} {i : Nat} {x : Key} (h : x ∈ ks.drop i) :
    ∃ j, i ≤ j ∧ j < ks.length ∧ ks.getD j [] = x := by
  obtain ⟨j, hj, rfl⟩ := List.mem_iff_getElem.1 h
  simp only [List.length_drop] at hj
  refine ⟨i + j, by omega, by omega, ?_⟩
  simp [List.getD_eq_getElem?_getD, List.getElem?_eq_getElem (show i + j < ks.length by omega)]

/-- `searchInner` in take/drop form. -/
theorem searchInner_spec {ks : List Key} (key : Key) (hs : ks.Pairwise (· ≤ ·)) :
    searchInner ks key ≤ ks.length ∧
    (∀ x ∈ ks.take (searchInner ks key), x ≤ key) ∧
    (∀ x ∈ ks.drop (searchInner ks key), key < x) := by
  have h := searchInnerGo_spec ks key hs 0 ks.length (Nat.zero_le _) (Nat.le_refl _)
    (fun j hj => absurd hj (Nat.not_lt_zero _)) (fun j h1 h2 => absurd h2 (by omega))
  refine ⟨h.2.1, ?_, ?_⟩
  · intro x hx
    obtain ⟨j, h1, _, rfl⟩ := mem_take_getD hx
    exact h.2.2.1 j h1
  · intro x hx
    obtain ⟨j, h1, h2, rfl⟩ := mem_drop_getD hx
    exact h.2.2.2 j h1 h2

theorem getD_lt_of_pairwise {ks : List Key} (hs : ks.Pairwise (· < ·)) {j m : Nat}
    (hjm : j < m) (hm : m < ks.length) : ks.getD j [] < ks.getD m [] := by
  have hj : j < ks.length := by omega
  simp only [List.getD_eq_getElem?_getD, List.getElem?_eq_getElem hj, List.getElem?_eq_getElem hm,
    Option.getD_some]
  exact (List.pairwise_iff_getElem.1 hs) j m hj hm hjm

/-- `searchLeaf` on strictly ascending keys: positions `< pos` hold smaller keys;
if found, position `pos` holds the key; if not, positions `≥ pos` hold greater keys. -/
theorem searchLeafGo_spec (ks : List Key) (key : Key) (hs : ks.Pairwise (· < ·)) (lo hi : Nat)
    (hlh : lo ≤ hi) (hhl : hi ≤ ks.length)
    (hL : ∀ j, j < lo → ks.getD j [] < key)
    (hR : ∀ j, hi ≤ j → j < ks.length → key < ks.getD j []) :
    lo ≤ (searchLeafGo ks key lo hi).1 ∧ (searchLeafGo ks key lo hi).1 ≤ hi ∧
    (∀ j, j < (searchLeafGo ks key lo hi).1 → ks.getD j [] < key) ∧
    ((searchLeafGo ks key lo hi).2 = true →
      (searchLeafGo ks key lo hi).1 < ks.length ∧ ks.getD (searchLeafGo ks key lo hi).1 [] = key) ∧
    ((searchLeafGo ks key lo hi).2 = false →
      ∀ j, (searchLeafGo ks key lo hi).1 ≤ j → j < ks.length → key < ks.getD j []) := by
  fun_induction searchLeafGo ks key lo hi with
  | case1 lo hi hlt mid hcmp =>
    have hmid : mid < ks.length := by have hm : mid = lo + (hi - lo) / 2 := rfl; omega
    have heq : ks.getD mid [] = key := Lex.cmp_eq_iff.1 hcmp
    refine ⟨by have hm : mid = lo + (hi - lo) / 2 := rfl; omega, by have hm : mid = lo + (hi - lo) / 2 := rfl; omega, ?_, fun _ => ⟨hmid, heq⟩, by simp⟩
    intro j hj
    rw [← heq]; exact getD_lt_of_pairwise hs hj hmid
  | case2 lo hi hlt mid hcmp ih =>
    have hmid : mid < ks.length := by have hm : mid = lo + (hi - lo) / 2 := rfl; omega
    have hle : ks.getD mid [] < key := Lex.cmp_lt_iff.1 hcmp
    have := ih (by have hm : mid = lo + (hi - lo) / 2 := rfl; omega) hhl
      (fun j hj => by
        rcases Nat.lt_or_eq_of_le (Nat.le_of_lt_succ hj) with h | h
        · exact Lex.lt_trans (getD_lt_of_pairwise hs h hmid) hle
        · subst h; exact hle) hR
    refine ⟨by have hm : mid = lo + (hi - lo) / 2 := rfl; omega, this.2.1, this.2.2.1, this.2.2.2.1, this.2.2.2.2⟩
  | case3 lo hi hlt mid hcmp ih =>
    have hmid : mid < ks.length := by have hm : mid = lo + (hi - lo) / 2 := rfl; omega
    have hgt : key < ks.getD mid [] := Lex.cmp_gt_iff.1 hcmp
    have := ih (by have hm : mid = lo + (hi - lo) / 2 := rfl; omega) (by omega) hL
      (fun j hj hjl => by
        rcases Nat.lt_or_eq_of_le hj with h | h
        · exact Lex.lt_trans hgt (getD_lt_of_pairwise hs h hjl)
        · subst h; exact hgt)
    refine ⟨this.1, by have hm : mid = lo + (hi - lo) / 2 := rfl; omega, this.2.2.1, this.2.2.2.1, this.2.2.2.2⟩
  | case4 lo hi hnlt =>
    have : lo = hi := by omega
    subst this
    exact ⟨Nat.le_refl _, Nat.le_refl _, hL, by simp, fun _ => hR⟩

end GnoVerif.C23
