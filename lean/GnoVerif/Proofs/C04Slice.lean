import GnoVerif.Model.C04Val
/-!
Helper lemmas for C04: the aliasing rules of `append` on slices with shared
backing arrays (uverse.go `append`, mirrored by `appendVals`).
-/
namespace GnoVerif.C04

theorem readArr_of (s : St) (a : Nat) (es : List Val) (h : s.heap[a]? = some (.arr es)) :
    readArr a s = .ok es s := by
  simp [readArr, readCell, h, bind, M.bind, pure, M.pure]

theorem lt_size_of_get {s : St} {a : Nat} {v : Val} (h : s.heap[a]? = some v) : a < s.heap.size := by
  rcases Nat.lt_or_ge a s.heap.size with hlt | hge
  · exact hlt
  · rw [Array.getElem?_eq_none hge] at h; cases h

/-- `append` that fits the capacity writes into the shared backing array and
returns a longer slice over THE SAME array: other slices over it see the
new elements -/
theorem append_in_place (s : St) (a off len cap : Nat) (xs es : List Val)
    (hne : xs.isEmpty = false) (hfit : len + xs.length ≤ cap)
    (ha : s.heap[a]? = some (.arr es)) :
    appendVals (.slice (some a) off len cap) xs s =
      .ok (.slice (some a) off (len + xs.length) cap)
        { s with heap := s.heap.set! a (.arr (es.take (off + len) ++ xs ++ es.drop (off + len + xs.length))) } := by
  have hlt := lt_size_of_get ha
  have hget : s.heap[a] = Val.arr es := by
    have h := ha
    rw [Array.getElem?_eq_getElem hlt] at h
    exact Option.some.inj h
  simp [appendVals, hne, hfit, writeElems, readArr, readCell, writeCell, hget, hlt, bind, M.bind, pure, M.pure]

/-- `append` beyond the capacity copies the elements into a FRESH array of
exactly `len + k` elements and leaves the old array untouched -/
theorem append_grows (s : St) (a off len cap : Nat) (xs es : List Val)
    (hne : xs.isEmpty = false) (hbig : cap < len + xs.length)
    (ha : s.heap[a]? = some (.arr es)) :
    appendVals (.slice (some a) off len cap) xs s =
      .ok (.slice (some s.heap.size) 0 (len + xs.length) (len + xs.length))
        { s with heap := s.heap.push (.arr ((es.drop off).take len ++ xs)) } := by
  have hnot : ¬ (len + xs.length ≤ cap) := by omega
  simp [appendVals, hne, hnot, sliceElems, readArr, readCell, alloc, ha, bind, M.bind, pure, M.pure]

/-- appending nothing returns the slice itself; appending to the nil slice
allocates (or stays nil) -/
theorem append_nothing (s : St) (v : Val) (a : Option Nat) (off len cap : Nat)
    (hv : v = .slice a off len cap) :
    appendVals v [] s = .ok (match a with | none => .slice none 0 0 0 | some _ => v) s := by
  subst hv
  cases a <;> simp [appendVals, pure, M.pure]

end GnoVerif.C04
