import GnoVerif.Model.C31Sys
import GnoVerif.Proofs.C35Facts
import GnoVerif.Proofs.C31Arith
/-!
The node's vote bookkeeping (`HVS` over the C35 `VoteSet` model) never counts a vote that was
not signed: every vote counted in a vote set of the node is in the global vote log, hence a
`TwoThirdsMajority` reported by a vote set is a quorum of the log.  Core Lean only.
-/
set_option linter.unusedSimpArgs false
set_option linter.unusedVariables false
namespace GnoVerif.C31
open C35 (alGet alSet Tracked at?)

-- ---------------------------------------------------------------- one vote set

structure VSGood (vs : C35.VoteSet) : Prop where
  inv : C35.Inv vs
  peer : C35.PeerInv vs
  ever : C35.EverTracked vs

theorem VSGood.new (h r : Int) (t : Nat) (vals : List (Nat × Nat)) : VSGood (C35.newVoteSet h r t vals) :=
  ⟨C35.inv_new h r t vals, C35.peerInv_new h r t vals, by
    intro j hj; simp [C35.newVoteSet, C35.at?_replicate] at hj⟩

theorem VSGood.step {vs : C35.VoteSet} (h : VSGood vs) (e : C35.Event) : VSGood (C35.step vs e) :=
  let sf := C35.stepFacts h.inv h.peer e
  ⟨sf.inv, sf.peer, C35.everTracked_step h.inv h.peer h.ever e⟩

/-- a vote set of the node for `(H, r, t)`: well-formed, and everything it counts is in `L` -/
structure SetGood (c : SysCfg) (H r : Nat) (t : VType) (vs : C35.VoteSet) (L : List Vote) : Prop where
  good : VSGood vs
  vals : vs.vals = c.vals
  height : vs.height = (H : Int)
  round : vs.round = (r : Int)
  type : vs.type = typeNat t
  view : ∀ k i w, Tracked vs k i w → Vote.mk i H r t (keyBlock k) ∈ L

theorem SetGood.mono {c : SysCfg} {H r : Nat} {t : VType} {vs : C35.VoteSet} {L L' : List Vote}
    (h : SetGood c H r t vs L) (hl : ∀ v, v ∈ L → v ∈ L') : SetGood c H r t vs L' :=
  { h with view := fun k i w hw => hl _ (h.view k i w hw) }

theorem SetGood.new (c : SysCfg) (H r : Nat) (t : VType) (L : List Vote) :
    SetGood c H r t (C35.newVoteSet H r (typeNat t) c.vals) L :=
  { good := VSGood.new _ _ _ _, vals := rfl, height := rfl, round := rfl, type := rfl,
    view := by
      rintro k i w ⟨bv, hb, _⟩
      simp [C35.newVoteSet, alGet] at hb }

theorem keyBlock_blockKey (b : Option Block) : keyBlock (blockKey b) = b := by
  cases b <;> simp [keyBlock, blockKey]

/-- adding a vote that was signed (or does not verify) keeps the set good -/
theorem SetGood.addVote {c : SysCfg} {H r : Nat} {t : VType} {vs : C35.VoteSet} {L : List Vote}
    (h : SetGood c H r t vs L) (v : Vote) (sigOk : Bool) (hv : sigOk = true → v ∈ L)
    (hvH : v.height = H) (hvr : v.round = r) (hvt : v.type = t) :
    SetGood c H r t (C35.addVote vs (some (toC35 v sigOk))).1 L := by
  have sf := C35.stepFacts h.good.inv h.good.peer (.vote (some (toC35 v sigOk)))
  have hg := h.good.step (.vote (some (toC35 v sigOk)))
  obtain ⟨f1, f2, f3, f4⟩ := sf.frame
  simp only [C35.step] at f1 f2 f3 f4 hg
  refine ⟨hg, f1.trans h.vals, f2.trans h.height, f3.trans h.round, f4.trans h.type, ?_⟩
  intro k i w hw
  rcases (sf.tracked k i w).mp hw with h1 | ⟨h1, h2, h3, h4⟩
  · exact h.view k i w h1
  · -- the new vote itself: it was accepted, so its signature verified
    have hw' : w = toC35 v sigOk := by
      have := C35.Event.vote.inj h1; simpa using this.symm
    subst hw'
    have hok : sigOk = true := by
      -- a counted vote has a valid signature
      have := (hg.inv.wfBV _ _ i _ hw.choose_spec.1 hw.choose_spec.2).1.sigOk
      simpa [toC35] using this
    have hi : i = v.sender := by
      simp only [toC35] at h4; omega
    subst hi
    simp only [toC35] at h3
    subst h3
    rw [keyBlock_blockKey]
    have := hv hok
    cases v; simp_all

theorem SetGood.peerMaj {c : SysCfg} {H r : Nat} {t : VType} {vs : C35.VoteSet} {L : List Vote}
    (h : SetGood c H r t vs L) (peer : Nat) (b : C35.BlockID) :
    SetGood c H r t (C35.setPeerMaj23 vs peer b).1 L := by
  have sf := C35.stepFacts h.good.inv h.good.peer (.peerMaj peer b)
  have hg := h.good.step (.peerMaj peer b)
  obtain ⟨f1, f2, f3, f4⟩ := sf.frame
  simp only [C35.step] at f1 f2 f3 f4 hg
  refine ⟨hg, f1.trans h.vals, f2.trans h.height, f3.trans h.round, f4.trans h.type, ?_⟩
  intro k i w hw
  rcases (sf.tracked k i w).mp hw with h1 | ⟨h1, _⟩
  · exact h.view k i w h1
  · cases h1

-- ---------------------------------------------------------------- sums

theorem sumPow_le_sumIf (P : Val → Bool) (ps : List Nat) (i : Nat) (votes : List (Option C35.Vote))
    (h : ∀ j w, at? votes j = some w → P (i + j) = true) :
    C35.sumPow ((List.range' i ps.length).zip ps) votes ≤ sumIf P ps i := by
  induction ps generalizing i votes with
  | nil => simp [C35.sumPow, sumIf]
  | cons p ps ih =>
    cases votes with
    | nil => simp [C35.sumPow]
    | cons o os =>
      simp only [List.length_cons, List.range'_succ, List.zip_cons_cons, C35.sumPow, sumIf]
      have hrec := ih (i + 1) os (by
        intro j w hj
        have := h (j + 1) w (by simpa [at?] using hj)
        rw [show i + 1 + j = i + (j + 1) by omega]; exact this)
      cases o with
      | none => simp; omega
      | some w =>
        have := h 0 w (by simp [at?])
        simp at this
        simp [this]; omega

theorem totalPower_vals (ps : List Nat) (i : Nat) :
    C35.totalPower ((List.range' i ps.length).zip ps) = sumIf (fun _ => true) ps i := by
  induction ps generalizing i with
  | nil => simp [C35.totalPower, sumIf]
  | cons p ps ih =>
    have := ih (i + 1)
    simp only [C35.totalPower] at this ⊢
    simp only [List.length_cons, List.range'_succ, List.zip_cons_cons, List.map_cons, List.sum_cons,
      sumIf, if_true]
    omega

theorem SysCfg.vals_eq (c : SysCfg) : c.vals = (List.range' 0 c.powers.length).zip c.powers := by
  simp [SysCfg.vals, List.range_eq_range']

theorem SysCfg.total_eq (c : SysCfg) : C35.totalPower c.vals = c.abs.total := by
  rw [c.vals_eq, totalPower_vals]; rfl

/-- **The link.**  A `+2/3` majority reported by a good vote set is a quorum of the vote log. -/
theorem SetGood.isQuorum {c : SysCfg} {H r : Nat} {t : VType} {vs : C35.VoteSet} {L : List Vote}
    (h : SetGood c H r t vs L) {b : C35.BlockID} (hm : vs.maj23 = some b) :
    quorum c.abs L H r t (keyBlock b.key) := by
  obtain ⟨bv, hb, hq, _⟩ := h.good.inv.majQuorum b hm
  have hsum := h.good.inv.sumBV _ _ hb
  have hle : C35.sumPow vs.vals bv.votes ≤ c.abs.powerOf (hasVote L H r t (keyBlock b.key)) := by
    rw [h.vals, c.vals_eq]
    apply sumPow_le_sumIf
    intro j w hw
    simp only [hasVote, decide_eq_true_eq, Nat.zero_add]
    exact h.view b.key j w ⟨bv, hb, hw⟩
  have hq' := (C35.quorum_le_iff vs.total bv.sum).mp hq
  have ht : vs.total = c.abs.total := by
    simp only [C35.VoteSet.total, h.vals]; exact c.total_eq
  unfold quorum
  omega

/-- a canonical vote of validator `i` in a good set was signed by `i` -/
theorem SetGood.signed {c : SysCfg} {H r : Nat} {t : VType} {vs : C35.VoteSet} {L : List Vote}
    (h : SetGood c H r t vs L) {i : Nat} {e : C35.Vote} (he : at? vs.votes i = some e) :
    ∃ b, Vote.mk i H r t b ∈ L := by
  obtain ⟨k, w, hw⟩ := h.good.ever i (by rw [he]; rfl)
  exact ⟨_, h.view k i w hw⟩

-- ---------------------------------------------------------------- HeightVoteSet

/-- every vote set of the height vote set is good -/
structure HGood (c : SysCfg) (H : Nat) (h : HVS) (L : List Vote) : Prop where
  height : h.height = H
  vals : h.vals = c.vals
  sets : ∀ r t vs, h.getVoteSet r t = some vs → SetGood c H r t vs L

theorem HGood.mono {c : SysCfg} {H : Nat} {h : HVS} {L L' : List Vote} (hg : HGood c H h L)
    (hl : ∀ v, v ∈ L → v ∈ L') : HGood c H h L' :=
  { hg with sets := fun r t vs hv => (hg.sets r t vs hv).mono hl }

theorem getVoteSet_addRound (h : HVS) (r r' : Nat) (t : VType) :
    (h.addRound r).getVoteSet r' t =
      if r' = r then some (C35.newVoteSet h.height r (typeNat t) h.vals) else h.getVoteSet r' t := by
  simp only [HVS.getVoteSet, HVS.addRound, C35.alGet_alSet]
  by_cases h1 : r' = r
  · subst h1; cases t <;> simp [newRoundVotes, typeNat]
  · simp [h1]

theorem HGood.addRound {c : SysCfg} {H : Nat} {h : HVS} {L : List Vote} (hg : HGood c H h L) (r : Nat) :
    HGood c H (h.addRound r) L := by
  refine ⟨hg.height, hg.vals, ?_⟩
  intro r' t vs hv
  rw [getVoteSet_addRound] at hv
  split at hv
  · cases hv; rename_i he; subst he
    rw [hg.height, hg.vals]; exact SetGood.new c H r' t L
  · exact hg.sets r' t vs hv

theorem HGood.new (c : SysCfg) (H : Nat) (L : List Vote) : HGood c H (HVS.new H c.vals) L := by
  have h0 : HGood c H ({ height := H, vals := c.vals, round := 0, sets := [], peerCatchup := [] } : HVS) L :=
    ⟨rfl, rfl, by intro r t vs hv; simp [HVS.getVoteSet, alGet] at hv⟩
  exact h0.addRound 0

theorem HGood.addRounds {c : SysCfg} {H : Nat} {h : HVS} {L : List Vote} (hg : HGood c H h L)
    (from_ n : Nat) : HGood c H (HVS.addRounds h from_ n) L := by
  induction n generalizing h from_ with
  | zero => exact hg
  | succ n ih =>
    simp only [HVS.addRounds]
    apply ih
    split
    · exact hg
    · exact hg.addRound _

theorem HGood.setRound {c : SysCfg} {H : Nat} {h : HVS} {L : List Vote} (hg : HGood c H h L) (r : Nat) :
    HGood c H (h.setRound r) L := by
  have := hg.addRounds (h.round + 1) (r - h.round)
  exact ⟨this.height, this.vals, this.sets⟩

theorem getVoteSet_putVoteSet (h : HVS) (r : Nat) (t : VType) (vs : C35.VoteSet) (r' : Nat) (t' : VType) :
    (h.putVoteSet r t vs).getVoteSet r' t' =
      if r' = r ∧ t' = t ∧ (h.getVoteSet r t).isSome then some vs else h.getVoteSet r' t' := by
  cases hr : alGet r h.sets with
  | none => simp [HVS.putVoteSet, HVS.getVoteSet, hr]
  | some rv =>
    by_cases h1 : r' = r
    · subst h1
      cases t <;> cases t' <;> simp [HVS.putVoteSet, HVS.getVoteSet, hr, C35.alGet_alSet]
    · simp [HVS.putVoteSet, HVS.getVoteSet, hr, C35.alGet_alSet, h1]

theorem HGood.putVoteSet {c : SysCfg} {H : Nat} {h : HVS} {L : List Vote} (hg : HGood c H h L)
    {r : Nat} {t : VType} {vs : C35.VoteSet} (hs : SetGood c H r t vs L) :
    HGood c H (h.putVoteSet r t vs) L := by
  refine ⟨?_, ?_, ?_⟩
  · simp only [HVS.putVoteSet]; split <;> exact hg.height
  · simp only [HVS.putVoteSet]; split <;> exact hg.vals
  · intro r' t' vs' hv
    rw [getVoteSet_putVoteSet] at hv
    split at hv
    · rename_i hc; cases hv; rw [hc.1, hc.2.1]; exact hs
    · exact hg.sets r' t' vs' hv

theorem HGood.addVoteTo {c : SysCfg} {H : Nat} {h : HVS} {L : List Vote} (hg : HGood c H h L)
    (v : Vote) (sigOk : Bool) (hv : sigOk = true → v ∈ L) (hvH : v.height = H) :
    HGood c H (h.addVoteTo v sigOk).1 L := by
  simp only [HVS.addVoteTo]
  cases hvs : h.getVoteSet v.round v.type with
  | none => exact hg
  | some vs => exact hg.putVoteSet ((hg.sets _ _ vs hvs).addVote v sigOk hv hvH rfl rfl)

theorem HGood.addVote {c : SysCfg} {H : Nat} {h : HVS} {L : List Vote} (hg : HGood c H h L)
    (v : Vote) (peer : Nat) (sigOk : Bool) (hv : sigOk = true → v ∈ L) (hvH : v.height = H) :
    HGood c H (h.addVote v peer sigOk).1 L := by
  simp only [HVS.addVote]
  cases hvs : h.getVoteSet v.round v.type with
  | some vs0 => exact hg.addVoteTo v sigOk hv hvH
  | none =>
    simp only []
    split
    · apply HGood.addVoteTo _ v sigOk hv hvH
      have := hg.addRound v.round
      exact ⟨this.height, this.vals, this.sets⟩
    · exact hg

theorem HGood.setPeerMaj23 {c : SysCfg} {H : Nat} {h : HVS} {L : List Vote} (hg : HGood c H h L)
    (r : Nat) (t : VType) (peer : Nat) (b : Option Block) :
    HGood c H (h.setPeerMaj23 r t peer b) L := by
  simp only [HVS.setPeerMaj23]
  cases hvs : h.getVoteSet r t with
  | none => exact hg
  | some vs => exact hg.putVoteSet ((hg.sets r t vs hvs).peerMaj peer _)

/-- `TwoThirdsMajority` of the node's vote sets is a quorum of the log -/
theorem HGood.maj23_quorum {c : SysCfg} {H : Nat} {h : HVS} {L : List Vote} (hg : HGood c H h L)
    {r : Nat} {t : VType} {bid : Option Block} (hm : h.maj23 r t = some bid) :
    quorum c.abs L H r t bid := by
  simp only [HVS.maj23] at hm
  cases hvs : h.getVoteSet r t with
  | none => simp [hvs] at hm
  | some vs =>
    simp only [hvs, C35.twoThirdsMajority, Option.map_eq_some_iff] at hm
    obtain ⟨b, hb, rfl⟩ := hm
    exact (hg.sets r t vs hvs).isQuorum hb

/-- a vote of validator `i` found in the node's vote sets was signed by `i` -/
theorem HGood.getByIndex_signed {c : SysCfg} {H : Nat} {h : HVS} {L : List Vote} (hg : HGood c H h L)
    {r : Nat} {t : VType} {i : Nat} {e : C35.Vote} (he : h.getByIndex r t i = some e) :
    ∃ b, Vote.mk i H r t b ∈ L := by
  simp only [HVS.getByIndex] at he
  cases hvs : h.getVoteSet r t with
  | none => simp [hvs] at he
  | some vs =>
    simp only [hvs] at he
    exact (hg.sets r t vs hvs).signed he

end GnoVerif.C31
