import GnoVerif.Spec.C30Inv
import GnoVerif.Proofs.C50Avl
import GnoVerif.Proofs.C50Read
import GnoVerif.Proofs.C50Shape
/-!
C30 helper lemmas, part 1: the IAVL node algorithms are the Gno `avl` algorithms
(`Model/C50Avl.lean`, property C50) with node keys attached.

`toC50` forgets the node keys.  Every algorithm commutes with it (`*_sim`), the
invariant and the leaf list are the same, so the refinement lemmas proved for
C50 carry over.  The Gno package was ported from this very code; this file is
the formal statement of that.
-/
namespace GnoVerif.C30
open GnoVerif

/-- forget the node keys -/
def toC50 : Node → C50.Node Bytes
  | .leaf k v _ => .leaf k v
  | .inner k h s _ l r => .inner k h s (toC50 l) (toC50 r)

namespace Node

@[simp] theorem toC50_leaf (k v : Bytes) (n : Option NodeKey) : toC50 (leaf k v n) = .leaf k v := rfl
@[simp] theorem toC50_inner (k : Bytes) (h s : Int) (n : Option NodeKey) (l r : Node) :
    toC50 (inner k h s n l r) = .inner k h s (toC50 l) (toC50 r) := rfl

@[simp] theorem height_leaf (k v : Bytes) (n : Option NodeKey) : (leaf k v n).height = 0 := rfl
@[simp] theorem height_inner (k : Bytes) (h s : Int) (n : Option NodeKey) (l r : Node) :
    (inner k h s n l r).height = h := rfl
@[simp] theorem size_leaf (k v : Bytes) (n : Option NodeKey) : (leaf k v n).size = 1 := rfl
@[simp] theorem size_inner (k : Bytes) (h s : Int) (n : Option NodeKey) (l r : Node) :
    (inner k h s n l r).size = s := rfl
@[simp] theorem toList_leaf (k v : Bytes) (n : Option NodeKey) : (leaf k v n).toList = [(k, v)] := rfl
@[simp] theorem toList_inner (k : Bytes) (h s : Int) (n : Option NodeKey) (l r : Node) :
    (inner k h s n l r).toList = l.toList ++ r.toList := rfl
@[simp] theorem minKey_leaf (k v : Bytes) (n : Option NodeKey) : (leaf k v n).minKey = k := rfl
@[simp] theorem minKey_inner (k : Bytes) (h s : Int) (n : Option NodeKey) (l r : Node) :
    (inner k h s n l r).minKey = l.minKey := rfl

@[simp] theorem height_toC50 (n : Node) : (toC50 n).height = n.height := by cases n <;> rfl
@[simp] theorem size_toC50 (n : Node) : (toC50 n).size = n.size := by cases n <;> rfl
@[simp] theorem toList_toC50 (n : Node) : (toC50 n).toList = n.toList := by
  induction n with
  | leaf => rfl
  | inner k h s nk l r ihl ihr => simp [C50.Node.toList, ihl, ihr]
@[simp] theorem minKey_toC50 (n : Node) : (toC50 n).minKey = n.minKey := by
  induction n with
  | leaf => rfl
  | inner k h s nk l r ihl ihr => simp [C50.Node.minKey, ihl]
@[simp] theorem realHeight_toC50 (n : Node) : (toC50 n).realHeight = n.realHeight := by
  induction n with
  | leaf => rfl
  | inner k h s nk l r ihl ihr => simp [C50.Node.realHeight, realHeight, ihl, ihr]

theorem inv_toC50 (n : Node) : (toC50 n).Inv ↔ n.Inv := by
  induction n with
  | leaf => simp [Inv]
  | inner k h s nk l r ihl ihr =>
    simp only [toC50_inner, C50.Node.inv_inner, Inv, ihl, ihr, height_toC50, size_toC50, minKey_toC50]

theorem balanced_toC50 (n : Node) : (toC50 n).Balanced ↔ n.Balanced := by
  induction n with
  | leaf => simp [Balanced, C50.Node.Balanced]
  | inner k h s nk l r ihl ihr =>
    simp only [toC50_inner, C50.Node.Balanced, Balanced, ihl, ihr, realHeight_toC50]

/-- the two sortedness predicates are the same definition -/
theorem sorted_iff (l : List (Bytes × Bytes)) : C50.OMap.Sorted l ↔ OMap.Sorted l := Iff.rfl

/-! ### the algorithms commute with `toC50` -/

theorem calcHeightAndSize_sim (n : Node) :
    toC50 (calcHeightAndSize n) = C50.Node.calcHeightAndSize (toC50 n) := by
  cases n <;> simp [calcHeightAndSize, C50.Node.calcHeightAndSize]

theorem rotateRight_sim {n : Node} {m' : C50.Node Bytes}
    (h : C50.Node.rotateRight (toC50 n) = .ok m') : ∃ m, rotateRight n = .ok m ∧ toC50 m = m' := by
  match n, h with
  | inner k ht s nk (inner lk lh ls lnk ll lr) r, h =>
    simp only [toC50_inner, C50.Node.rotateRight, Except.ok.injEq] at h
    refine ⟨_, rfl, ?_⟩
    rw [← h, calcHeightAndSize_sim]
    simp only [toC50_inner, calcHeightAndSize_sim]
  | inner k ht s nk (leaf _ _ _) r, h => simp [C50.Node.rotateRight] at h
  | leaf _ _ _, h => simp [C50.Node.rotateRight] at h

theorem rotateLeft_sim {n : Node} {m' : C50.Node Bytes}
    (h : C50.Node.rotateLeft (toC50 n) = .ok m') : ∃ m, rotateLeft n = .ok m ∧ toC50 m = m' := by
  match n, h with
  | inner k ht s nk l (inner rk rh rs rnk rl rr), h =>
    simp only [toC50_inner, C50.Node.rotateLeft, Except.ok.injEq] at h
    refine ⟨_, rfl, ?_⟩
    rw [← h, calcHeightAndSize_sim]
    simp only [toC50_inner, calcHeightAndSize_sim]
  | inner k ht s nk l (leaf _ _ _), h => simp [C50.Node.rotateLeft] at h
  | leaf _ _ _, h => simp [C50.Node.rotateLeft] at h

theorem calcBalance_sim {n : Node} {b : Int}
    (h : C50.Node.calcBalance (toC50 n) = .ok b) : calcBalance n = .ok b := by
  cases n with
  | leaf => simp [C50.Node.calcBalance] at h
  | inner k ht s nk l r =>
    simpa [C50.Node.calcBalance, calcBalance] using h

theorem balance_sim {k : Bytes} {ht s : Int} {l r : Node} {m' : C50.Node Bytes}
    (h : C50.Node.balance (toC50 (inner k ht s none l r)) = .ok m') :
    ∃ m, balance (inner k ht s none l r) = .ok m ∧ toC50 m = m' := by
  simp only [toC50_inner, C50.Node.balance, height_toC50] at h
  simp only [balance]
  split at h
  · -- left heavy
    rename_i hb
    rw [if_pos hb]
    cases hcb : C50.Node.calcBalance (toC50 l) with
    | error e => rw [hcb] at h; simp at h
    | ok lb =>
      rw [hcb] at h
      rw [calcBalance_sim hcb]
      simp only at h ⊢
      split at h
      · rename_i hlb
        rw [if_pos hlb]
        exact rotateRight_sim (n := inner k ht s none l r) h
      · rename_i hlb
        rw [if_neg hlb]
        cases hrl : C50.Node.rotateLeft (toC50 l) with
        | error e => rw [hrl] at h; simp at h
        | ok l' =>
          rw [hrl] at h
          obtain ⟨l2, hl2, hl2'⟩ := rotateLeft_sim hrl
          rw [hl2]
          simp only at h ⊢
          subst hl2'
          exact rotateRight_sim (n := inner k ht s none l2 r) h
  · rename_i hb
    rw [if_neg hb]
    split at h
    · rename_i hb2
      rw [if_pos hb2]
      cases hcb : C50.Node.calcBalance (toC50 r) with
      | error e => rw [hcb] at h; simp at h
      | ok rb =>
        rw [hcb] at h
        rw [calcBalance_sim hcb]
        simp only at h ⊢
        split at h
        · rename_i hrb
          rw [if_pos hrb]
          exact rotateLeft_sim (n := inner k ht s none l r) h
        · rename_i hrb
          rw [if_neg hrb]
          cases hrr : C50.Node.rotateRight (toC50 r) with
          | error e => rw [hrr] at h; simp at h
          | ok r' =>
            rw [hrr] at h
            obtain ⟨r2, hr2, hr2'⟩ := rotateRight_sim hrr
            rw [hr2]
            simp only at h ⊢
            subst hr2'
            exact rotateLeft_sim (n := inner k ht s none l r2) h
    · rename_i hb2
      rw [if_neg hb2]
      simp only [Except.ok.injEq] at h
      exact ⟨_, rfl, h⟩

theorem set_sim (n : Node) (key value : Bytes) {m' : C50.Node Bytes} {u : Bool}
    (h : C50.Node.set (toC50 n) key value = .ok (m', u)) :
    ∃ m, set n key value = .ok (m, u) ∧ toC50 m = m' := by
  induction n generalizing m' u with
  | leaf nk nv nkey =>
    simp only [toC50_leaf, C50.Node.set] at h
    simp only [set, new]
    by_cases h1 : key < nk
    · rw [if_pos h1] at h ⊢
      simp only [Except.ok.injEq, Prod.mk.injEq] at h
      obtain ⟨hm, hu⟩ := h
      subst hu
      exact ⟨_, rfl, by simpa using hm⟩
    · rw [if_neg h1] at h ⊢
      by_cases h2 : key = nk
      · subst h2
        rw [if_pos rfl] at h
        rw [if_neg (Lex.lt_irrefl key)]
        simp only [Except.ok.injEq, Prod.mk.injEq] at h
        obtain ⟨hm, hu⟩ := h
        subst hu
        exact ⟨_, rfl, by simpa using hm⟩
      · rw [if_neg h2] at h
        have h3 : nk < key := by
          rcases Lex.lt_trichotomy key nk with hh | hh | hh
          · exact absurd hh h1
          · exact absurd hh h2
          · exact hh
        rw [if_pos h3]
        simp only [Except.ok.injEq, Prod.mk.injEq] at h
        obtain ⟨hm, hu⟩ := h
        subst hu
        exact ⟨_, rfl, by simpa using hm⟩
  | inner nk ht s nkey l r ihl ihr =>
    simp only [toC50_inner, C50.Node.set] at h
    simp only [set]
    by_cases h1 : key < nk
    · rw [if_pos h1] at h ⊢
      cases hl : C50.Node.set (toC50 l) key value with
      | error e => rw [hl] at h; simp at h
      | ok p =>
        obtain ⟨l', ul⟩ := p
        rw [hl] at h
        obtain ⟨l2, hl2, hl2'⟩ := ihl hl
        rw [hl2]
        simp only at h ⊢
        cases ul with
        | true =>
          simp only [if_true, Except.ok.injEq, Prod.mk.injEq] at h ⊢
          obtain ⟨hm, hu⟩ := h
          subst hu
          exact ⟨_, ⟨rfl, rfl⟩, by rw [← hm, ← hl2']; rfl⟩
        | false =>
          simp only [Bool.false_eq_true, if_false] at h ⊢
          cases hb : C50.Node.balance (C50.Node.calcHeightAndSize (C50.Node.inner nk ht s l' (toC50 r))) with
          | error e => rw [hb] at h; simp at h
          | ok b =>
            rw [hb] at h
            simp only [Except.ok.injEq, Prod.mk.injEq] at h
            obtain ⟨hm, hu⟩ := h
            subst hu
            have hb' : C50.Node.balance (toC50 (inner nk (max l2.height r.height + 1) (l2.size + r.size) none l2 r)) = .ok b := by
              rw [← hb, ← hl2']
              simp [C50.Node.calcHeightAndSize]
            obtain ⟨m, hm1, hm2⟩ := balance_sim hb'
            simp only [calcHeightAndSize]
            rw [hm1]
            exact ⟨m, rfl, by rw [hm2, hm]⟩
    · rw [if_neg h1] at h ⊢
      cases hr : C50.Node.set (toC50 r) key value with
      | error e => rw [hr] at h; simp at h
      | ok p =>
        obtain ⟨r', ur⟩ := p
        rw [hr] at h
        obtain ⟨r2, hr2, hr2'⟩ := ihr hr
        rw [hr2]
        simp only at h ⊢
        cases ur with
        | true =>
          simp only [if_true, Except.ok.injEq, Prod.mk.injEq] at h ⊢
          obtain ⟨hm, hu⟩ := h
          subst hu
          exact ⟨_, ⟨rfl, rfl⟩, by rw [← hm, ← hr2']; rfl⟩
        | false =>
          simp only [Bool.false_eq_true, if_false] at h ⊢
          cases hb : C50.Node.balance (C50.Node.calcHeightAndSize (C50.Node.inner nk ht s (toC50 l) r')) with
          | error e => rw [hb] at h; simp at h
          | ok b =>
            rw [hb] at h
            simp only [Except.ok.injEq, Prod.mk.injEq] at h
            obtain ⟨hm, hu⟩ := h
            subst hu
            have hb' : C50.Node.balance (toC50 (inner nk (max l.height r2.height + 1) (l.size + r2.size) none l r2)) = .ok b := by
              rw [← hb, ← hr2']
              simp [C50.Node.calcHeightAndSize]
            obtain ⟨m, hm1, hm2⟩ := balance_sim hb'
            simp only [calcHeightAndSize]
            rw [hm1]
            exact ⟨m, rfl, by rw [hm2, hm]⟩

/-- `recursiveRemove` commutes with `toC50` on well-formed trees; Go's `newKey != nil`
test and the Gno port's `newKey != ""` test agree because a non-nil `newKey` is never
empty (it is a routing key, which has a smaller key to its left) -/
theorem remove_sim (n : Node) (key : Bytes) (hi : (toC50 n).Inv) (hs : C50.OMap.Sorted (toC50 n).toList) :
    ∃ nn nkey val rem, remove n key = .ok (nn, nkey, val, rem) ∧
      C50.Node.remove (toC50 n) key = .ok (nn.map toC50, nkey.getD [], val, rem) ∧ nkey ≠ some [] := by
  induction n with
  | leaf nk nv nkey =>
    simp only [toC50_leaf, C50.Node.remove, remove]
    by_cases h : key = nk
    · exact ⟨none, none, some nv, true, by simp [h], by simp [h], by simp⟩
    · exact ⟨some (leaf nk nv nkey), none, none, false, by simp [h], by simp [h], by simp⟩
  | inner nk ht s nkey l r ihl ihr =>
    obtain ⟨NN, NK, V, R, hall, -⟩ := C50.Node.remove_spec key hi hs
    simp only [toC50_inner, C50.Node.toList_inner] at hs
    obtain ⟨hsl, hsr, hbl, hbr, hmem⟩ := C50.Node.bounds hi hs
    have hi' := hi
    simp only [toC50_inner, C50.Node.inv_inner] at hi'
    obtain ⟨hil, hir, hk, -⟩ := hi'
    simp only [toC50_inner, C50.Node.remove] at hall ⊢
    simp only [remove]
    by_cases h1 : key < nk
    · rw [if_pos h1] at hall ⊢
      rw [if_pos h1]
      obtain ⟨ln, lk, lv, lrem, hml, hcl, hlk⟩ := ihl hil hsl
      rw [hcl] at hall ⊢
      rw [hml]
      simp only at hall ⊢
      cases lrem with
      | false => exact ⟨some (inner nk ht s nkey l r), none, lv, false, by simp, by simp, by simp⟩
      | true =>
        simp only [Bool.not_true, Bool.false_eq_true, if_false] at hall ⊢
        cases ln with
        | none =>
          simp only [Option.map_none]
          refine ⟨_, _, _, _, rfl, by simp, ?_⟩
          -- nk is above every key of the non-empty left subtree
          have hmin := C50.Node.minKey_mem (toC50 l)
          have := hbl _ hmin
          intro hc
          simp only [Option.some.injEq] at hc
          subst hc
          exact Lex.not_lt_nil _ this
        | some nl =>
          simp only [Option.map_some] at hall ⊢
          cases hb : C50.Node.balance (C50.Node.calcHeightAndSize (C50.Node.inner nk ht s (toC50 nl) (toC50 r))) with
          | error e => rw [hb] at hall; simp at hall
          | ok b =>
            have hb' : C50.Node.balance (toC50 (inner nk (max nl.height r.height + 1) (nl.size + r.size) none nl r)) = .ok b := by
              rw [← hb]; simp [C50.Node.calcHeightAndSize]
            obtain ⟨m, hm1, hm2⟩ := balance_sim hb'
            simp only [calcHeightAndSize]
            rw [hm1]
            exact ⟨_, _, _, _, rfl, by simp [hm2], hlk⟩
    · rw [if_neg h1] at hall ⊢
      rw [if_neg h1]
      obtain ⟨rn, rk, rv, rrem, hmr, hcr, hrk⟩ := ihr hir hsr
      rw [hcr] at hall ⊢
      rw [hmr]
      simp only at hall ⊢
      cases rrem with
      | false => exact ⟨some (inner nk ht s nkey l r), none, rv, false, by simp, by simp, by simp⟩
      | true =>
        simp only [Bool.not_true, Bool.false_eq_true, if_false] at hall ⊢
        cases rn with
        | none => exact ⟨some l, none, rv, true, by simp, by simp, by simp⟩
        | some nr =>
          simp only [Option.map_some] at hall ⊢
          have hkey : (if rk.getD [] ≠ [] then rk.getD [] else nk) = rk.getD nk := by
            cases rk with
            | none => simp
            | some x =>
              have : x ≠ [] := fun hx => hrk (by rw [hx])
              simp [this]
          rw [hkey] at hall ⊢
          generalize rk.getD nk = k' at hall ⊢
          cases hb : C50.Node.balance (C50.Node.calcHeightAndSize (C50.Node.inner k' ht s (toC50 l) (toC50 nr))) with
          | error e => rw [hb] at hall; simp at hall
          | ok b =>
            have hb' : C50.Node.balance (toC50 (inner k' (max l.height nr.height + 1) (l.size + nr.size) none l nr)) = .ok b := by
              rw [← hb]; simp [C50.Node.calcHeightAndSize]
            obtain ⟨m, hm1, hm2⟩ := balance_sim hb'
            simp only [calcHeightAndSize]
            rw [hm1]
            exact ⟨_, _, _, _, rfl, by simp [hm2], by simp⟩

end Node
end GnoVerif.C30
