import GnoVerif.Proofs.C43Wire
/-! C43 helper lemmas: `decodePacket (encAny p) = some (some p)`. -/
namespace GnoVerif.C43

theorem structLoop_nil_bz (fs : List Nat) (last : Nat) (m : MsgF) :
    structLoop fs [] last m = some (m, []) := by
  induction fs with
  | nil => rfl
  | cons f fs ih => simp [structLoop, ih]

/-- the wire holds a later field: field `f` keeps its zero value. -/
theorem structLoop_skip (f : Nat) (fs : List Nat) (b : UInt8) (rest : Bytes) (last : Nat) (m : MsgF)
    (fnum typ : Nat) (hk : key? (b :: rest) = some (fnum, typ, rest)) (hlt : f < fnum) :
    structLoop (f :: fs) (b :: rest) last m = structLoop fs (b :: rest) last m := by
  simp [structLoop, hk, hlt]

/-- the wire holds field `f` itself. -/
theorem structLoop_take (f : Nat) (fs : List Nat) (b : UInt8) (rest : Bytes) (last : Nat) (m m' : MsgF)
    (bz' : Bytes) (hk : key? (b :: rest) = some (f, wantTyp f, rest)) (hlast : last < f)
    (hd : decField f rest m = some (m', bz')) :
    structLoop (f :: fs) (b :: rest) last m = structLoop fs bz' f m' := by
  have h1 : ¬ f < f := by omega
  have h2 : ¬ f ≤ last := by omega
  simp [structLoop, hk, skipLoop, h1, h2, hd]

theorem u8_ofNat_toNat' (c : UInt8) : UInt8.ofNat c.toNat = c := by
  simp

theorem decField_1 (c : UInt8) (rest : Bytes) (m : MsgF) :
    decField 1 (putUvarint c.toNat ++ rest) m = some ({ m with ch := c }, rest) := by
  have hc : c.toNat < 256 := c.toNat_lt
  have h63 : c.toNat < 2 ^ 63 := by omega
  have h255 : ¬ c.toNat > 255 := by omega
  simp [decField, uvarint?_put _ _ h63, h255]

theorem decField_2 (c : UInt8) (rest : Bytes) (m : MsgF) :
    decField 2 (putUvarint c.toNat ++ rest) m = some ({ m with eof := c }, rest) := by
  have hc : c.toNat < 256 := c.toNat_lt
  have h63 : c.toNat < 2 ^ 63 := by omega
  have h255 : ¬ c.toNat > 255 := by omega
  simp [decField, uvarint?_put _ _ h63, h255]

theorem decField_3 (bs rest : Bytes) (m : MsgF) (h : bs.length < 2 ^ 63) :
    decField 3 (putUvarint bs.length ++ (bs ++ rest)) m = some ({ m with bytes := bs }, rest) := by
  have hpos := putUvarint_pos bs.length
  have hne : ¬ (putUvarint bs.length).length + (bs.length + rest.length) = 0 := by omega
  simp [decField, byteSlice?_put _ _ h, hne]


theorem structLoop_f1 (fs : List Nat) (c : UInt8) (rest : Bytes) (m : MsgF) :
    structLoop (1 :: fs) (0x08 :: (putUvarint c.toNat ++ rest)) 0 m = structLoop fs rest 1 { m with ch := c } :=
  structLoop_take 1 fs _ _ 0 m _ _ (key?_08 _) (by omega) (decField_1 c rest m)

theorem structLoop_f2 (fs : List Nat) (c : UInt8) (rest : Bytes) (last : Nat) (m : MsgF) (hl : last < 2) :
    structLoop (2 :: fs) (0x10 :: (putUvarint c.toNat ++ rest)) last m = structLoop fs rest 2 { m with eof := c } :=
  structLoop_take 2 fs _ _ last m _ _ (key?_10 _) hl (decField_2 c rest m)

theorem structLoop_f3 (fs : List Nat) (bs rest : Bytes) (last : Nat) (m : MsgF) (hl : last < 3)
    (h : bs.length < 2 ^ 63) :
    structLoop (3 :: fs) (0x1a :: (putUvarint bs.length ++ (bs ++ rest))) last m
      = structLoop fs rest 3 { m with bytes := bs } :=
  structLoop_take 3 fs _ _ last m _ _ (key?_1a _) hl (decField_3 bs rest m h)

theorem structLoop_s1_10 (fs : List Nat) (rest : Bytes) (last : Nat) (m : MsgF) :
    structLoop (1 :: fs) (0x10 :: rest) last m = structLoop fs (0x10 :: rest) last m :=
  structLoop_skip 1 fs _ _ last m 2 0 (key?_10 _) (by omega)

theorem structLoop_s1_1a (fs : List Nat) (rest : Bytes) (last : Nat) (m : MsgF) :
    structLoop (1 :: fs) (0x1a :: rest) last m = structLoop fs (0x1a :: rest) last m :=
  structLoop_skip 1 fs _ _ last m 3 2 (key?_1a _) (by omega)

theorem structLoop_s2_1a (fs : List Nat) (rest : Bytes) (last : Nat) (m : MsgF) :
    structLoop (2 :: fs) (0x1a :: rest) last m = structLoop fs (0x1a :: rest) last m :=
  structLoop_skip 2 fs _ _ last m 3 2 (key?_1a _) (by omega)

theorem decodeMsgValue_enc (ch eof : UInt8) (bs : Bytes) (h : bs.length < 2 ^ 63) :
    decodeMsgValue (encMsgValue ch eof bs) = some { ch := ch, eof := eof, bytes := bs } := by
  unfold decodeMsgValue encMsgValue
  by_cases h1 : ch = 0 <;> by_cases h2 : eof = 0 <;> by_cases h3 : bs.length = 0
  all_goals
    (try (have hb : bs = [] := List.eq_nil_of_length_eq_zero h3))
    (try subst hb)
    simp only [h1, h2, h3, ne_eq, not_true_eq_false, not_false_eq_true, if_true, if_false,
      List.nil_append, List.append_nil, List.cons_append, List.append_assoc]
  · simp [structLoop_nil_bz]
  · rw [structLoop_s1_1a, structLoop_s2_1a]
    have := structLoop_f3 [] bs [] 0 {} (by omega) h
    simp only [List.append_nil] at this
    rw [this]; simp [structLoop, h1]
  · rw [structLoop_s1_10]
    have := structLoop_f2 [3] eof [] 0 {} (by omega)
    simp only [List.append_nil] at this
    rw [this]; simp [structLoop_nil_bz, h1]
  · rw [structLoop_s1_10, structLoop_f2 _ _ _ _ _ (by omega)]
    have := structLoop_f3 [] bs [] 2 { eof := eof } (by omega) h
    simp only [List.append_nil] at this
    rw [this]; simp [structLoop, h1]
  · have := structLoop_f1 [2, 3] ch [] {}
    simp only [List.append_nil] at this
    rw [this]; simp [structLoop_nil_bz, h2]
  · rw [structLoop_f1, structLoop_s2_1a]
    have := structLoop_f3 [] bs [] 1 { ch := ch } (by omega) h
    simp only [List.append_nil] at this
    rw [this]; simp [structLoop, h2]
  · rw [structLoop_f1]
    have := structLoop_f2 [3] eof [] 1 { ch := ch } (by omega)
    simp only [List.append_nil] at this
    rw [this]; simp [structLoop_nil_bz]
  · rw [structLoop_f1, structLoop_f2 _ _ _ _ _ (by omega)]
    have := structLoop_f3 [] bs [] 2 { ch := ch, eof := eof } (by omega) h
    simp only [List.append_nil] at this
    rw [this]; simp [structLoop]


theorem putUvarintAux_len_le (f n : Nat) : (putUvarintAux f n).length ≤ f + 1 := by
  induction f generalizing n with
  | zero => simp [putUvarintAux]
  | succ f ih =>
    unfold putUvarintAux
    split
    · simp
    · have := ih (n / 128); simp only [List.length_cons]; omega

theorem putUvarint_len_le (n : Nat) : (putUvarint n).length ≤ 10 := putUvarintAux_len_le 9 n

theorem encMsgValue_len_le (ch eof : UInt8) (bs : Bytes) :
    (encMsgValue ch eof bs).length ≤ bs.length + 33 := by
  unfold encMsgValue
  have h1 := putUvarint_len_le ch.toNat
  have h2 := putUvarint_len_le eof.toNat
  have h3 := putUvarint_len_le bs.length
  split <;> split <;> split <;> simp only [List.length_append, List.length_cons, List.length_nil] <;> omega

theorem encMsgValue_len_ne_one (ch eof : UInt8) (bs : Bytes) :
    (encMsgValue ch eof bs).length = 0 ∨ 2 ≤ (encMsgValue ch eof bs).length := by
  unfold encMsgValue
  have h1 := putUvarint_pos ch.toNat
  have h2 := putUvarint_pos eof.toNat
  have h3 := putUvarint_pos bs.length
  by_cases c1 : ch = 0 <;> by_cases c2 : eof = 0 <;> by_cases c3 : bs.length = 0 <;>
    simp only [c1, c2, c3, ne_eq, not_true_eq_false, not_false_eq_true, if_true, if_false,
      List.length_append, List.length_cons, List.length_nil] <;> first | omega | simp

theorem byteSlice?_put_nil (bs : Bytes) (h : bs.length < 2 ^ 63) :
    byteSlice? (putUvarint bs.length ++ bs) = some (bs, []) := by
  have := byteSlice?_put bs [] h
  simpa using this

theorem encMsgValue_nil_iff (ch eof : UInt8) (bs : Bytes) :
    (encMsgValue ch eof bs).length = 0 ↔ ch = 0 ∧ eof = 0 ∧ bs = [] := by
  unfold encMsgValue
  constructor
  · intro h
    by_cases h1 : ch = 0 <;> by_cases h2 : eof = 0 <;> by_cases h3 : bs.length = 0 <;>
      simp [h1, h2, h3] at h ⊢
    exact List.eq_nil_of_length_eq_zero h3
  · rintro ⟨rfl, rfl, rfl⟩; simp

theorem decodeAnyValue_msg (v : Bytes) (hv : v.length ≠ 0) :
    decodeAnyValue urlMsg v = (decodeMsgValue v).map fun m => .msg m.ch m.eof m.bytes := by
  have h1 : isASCIIText urlMsg = true := by decide
  have h2 : fullname? urlMsg = some (urlMsg.drop 1) := by decide
  have h3 : ¬ urlMsg.tail = urlPing.tail := by decide
  have h4 : ¬ urlMsg.tail = urlPong.tail := by decide
  simp [decodeAnyValue, h1, h2, h3, h4, hv]

theorem decodePacket_enc (p : Packet) (h : ∀ ch eof bs, p = .msg ch eof bs → bs.length < 2 ^ 62) :
    decodePacket (encAny p) = some (some p) := by
  cases p with
  | ping => decide
  | pong => decide
  | msg ch eof bs =>
    have hbs : bs.length < 2 ^ 62 := h ch eof bs rfl
    rcases Nat.eq_zero_or_pos (encMsgValue ch eof bs).length with h0 | hpos
    · obtain ⟨rfl, rfl, rfl⟩ := (encMsgValue_nil_iff ch eof bs).mp h0
      decide
    · have h2 : 2 ≤ (encMsgValue ch eof bs).length := by
        rcases encMsgValue_len_ne_one ch eof bs with h | h <;> omega
      have hle := encMsgValue_len_le ch eof bs
      have hv63 : (encMsgValue ch eof bs).length < 2 ^ 63 := by omega
      have hcond : (encMsgValue ch eof bs).length > 1 ∨
          ((encMsgValue ch eof bs).length = 1 ∧ (encMsgValue ch eof bs).head? ≠ some 0) := Or.inl (by omega)
      have hurl : urlMsg.length < 2 ^ 63 := by decide
      have e1 : encAny (.msg ch eof bs) =
          0x0a :: (putUvarint urlMsg.length ++ (urlMsg ++ (0x12 :: (putUvarint (encMsgValue ch eof bs).length
            ++ (encMsgValue ch eof bs ++ []))))) := by
        simp [encAny, Packet.value, Packet.url, hcond]
      rw [e1]
      have hne : ¬ (encMsgValue ch eof bs).length = 0 := by omega
      simp [decodePacket, key?_0a, key?_12, byteSlice?_put _ _ hurl, byteSlice?_put_nil _ hv63,
        decodeAnyValue_msg _ hne, decodeMsgValue_enc ch eof bs (by omega)]

end GnoVerif.C43
