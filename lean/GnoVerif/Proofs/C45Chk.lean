import GnoVerif.Proofs.C45Orbit
/-!
C45 helper lemmas, part 4: the checksum as a fold.
* a created checksum verifies (`polymod_createChecksum`);
* two symbol sequences that differ in exactly one symbol cannot both end in
  an accepted constant (`polymod_single_diff`).
-/
namespace GnoVerif.C45

/-- the fold inside `polymod`, from an arbitrary state. -/
def run (c : BitVec 32) (vs : List (BitVec 32)) : BitVec 32 := vs.foldl polymodStep c

theorem run_nil (c : BitVec 32) : run c [] = c := rfl
theorem run_cons (c v : BitVec 32) (vs : List (BitVec 32)) : run c (v :: vs) = run (polymodStep c v) vs := rfl
theorem run_append (c : BitVec 32) (a b : List (BitVec 32)) : run c (a ++ b) = run (run c a) b := by
  simp [run, List.foldl_append]

theorem polymod_eq (hrp : Bytes) (vs : List Nat) : polymod hrp vs = run (run 1#32 (hrpExpand hrp)) (vs.map sym) := by
  simp [polymod, run, List.foldl_append]

/-- same input symbols from two states: the difference of the states evolves linearly. -/
theorem run_xor_run (a b : BitVec 32) (vs : List (BitVec 32)) :
    run a vs ^^^ run b vs = iter shiftMix vs.length (a ^^^ b) := by
  induction vs generalizing a b with
  | nil => rfl
  | cons v vs ih =>
    rw [run_cons, run_cons, ih, List.length_cons]
    simp only [iter, polymodStep]
    congr 1
    rw [shiftMix_xor]
    -- (A a ⊕ v) ⊕ (A b ⊕ v) = A a ⊕ A b
    rw [show (shiftMix a ^^^ v) ^^^ (shiftMix b ^^^ v) = (shiftMix a ^^^ shiftMix b) ^^^ (v ^^^ v) by ac_rfl]
    simp

theorem run_zeros (c : BitVec 32) (n : Nat) : run c (List.replicate n 0#32) = iter shiftMix n c := by
  induction n generalizing c with
  | zero => rfl
  | succ n ih =>
    rw [List.replicate_succ, run_cons, ih]
    simp [iter, polymodStep]

theorem run_eq_iter_xor (c : BitVec 32) (vs : List (BitVec 32)) :
    run c vs = iter shiftMix vs.length c ^^^ run 0#32 vs := by
  have h := run_xor_run c 0#32 vs
  rw [BitVec.xor_zero] at h
  rw [← h]
  rw [BitVec.xor_assoc, BitVec.xor_self, BitVec.xor_zero]

/-! ### one differing symbol -/

theorem single_diff (c : BitVec 32) (p q : List (BitVec 32)) (x y : BitVec 32)
    (hx : x.toNat < 32) (hy : y.toNat < 32) (hne : x ≠ y)
    (h1 : run c (p ++ x :: q) = const0 ∨ run c (p ++ x :: q) = constM)
    (h2 : run c (p ++ y :: q) = const0 ∨ run c (p ++ y :: q) = constM) : False := by
  rw [run_append, run_cons] at h1 h2
  have hd := run_xor_run (polymodStep (run c p) x) (polymodStep (run c p) y) q
  have he : polymodStep (run c p) x ^^^ polymodStep (run c p) y = x ^^^ y := by
    simp only [polymodStep]
    rw [show (shiftMix (run c p) ^^^ x) ^^^ (shiftMix (run c p) ^^^ y)
        = (shiftMix (run c p) ^^^ shiftMix (run c p)) ^^^ (x ^^^ y) by ac_rfl]
    simp
  rw [he] at hd
  have hlt : (x ^^^ y).toNat < 32 := by
    rw [BitVec.toNat_xor]; exact Nat.xor_lt_two_pow (n := 5) hx hy
  have hnz : x ^^^ y ≠ 0#32 := by
    intro h; exact hne (BitVec.xor_eq_zero_iff.mp h)
  have hsmall : Small (x ^^^ y) := by unfold Small; omega
  rcases h1 with h1 | h1 <;> rcases h2 with h2 | h2 <;> rw [h1, h2] at hd
  · rw [BitVec.xor_self] at hd
    exact iter_ne_zero _ _ hsmall hnz hd.symm
  · exact iter_ne_cross _ _ hlt hd.symm
  · rw [BitVec.xor_comm] at hd
    exact iter_ne_cross _ _ hlt hd.symm
  · rw [BitVec.xor_self] at hd
    exact iter_ne_zero _ _ hsmall hnz hd.symm

/-! ### a created checksum verifies -/

theorem mul32_xor (a v : Nat) (hv : v < 32) : (a * 32) ^^^ v = a * 32 + v := by
  have h5 : a * 32 = a <<< 5 := by rw [Nat.shiftLeft_eq]
  rw [h5, Nat.shiftLeft_add_eq_or_of_lt (i := 5) hv a]
  apply Nat.eq_of_testBit_eq
  intro i
  rw [Nat.testBit_xor, Nat.testBit_or, Nat.testBit_shiftLeft]
  by_cases hi : 5 ≤ i
  · have : v.testBit i = false := by
      apply Nat.testBit_lt_two_pow
      calc v < 32 := hv
        _ = 2 ^ 5 := rfl
        _ ≤ 2 ^ i := Nat.pow_le_pow_right (by decide) hi
    simp [this]
  · simp [hi]

theorem genMixN_zero : genMixN 0 = 0 := by decide

theorem step_small (c v : BitVec 32) (hc : c.toNat < 2 ^ 25) (hv : v.toNat < 32) :
    (polymodStep c v).toNat = c.toNat * 32 + v.toNat := by
  unfold polymodStep
  rw [BitVec.toNat_xor, shiftMix_toNat]
  unfold shiftMixN
  rw [Nat.mod_eq_of_lt hc, Nat.div_eq_of_lt hc, genMixN_zero, Nat.xor_zero]
  exact mul32_xor _ _ hv

theorem sym_toNat (v : Nat) (hv : v < 32) : (sym v).toNat = v := by
  unfold sym
  rw [BitVec.toNat_ofNat]
  omega

theorem chunk_toNat (q : BitVec 32) (k : Nat) : ((q >>> k) &&& 31#32).toNat = q.toNat / 2 ^ k % 32 := by
  rw [BitVec.toNat_and, BitVec.toNat_ushiftRight, Nat.shiftRight_eq_div_pow]
  exact Nat.and_two_pow_sub_one_eq_mod _ 5

theorem digit_step (n k : Nat) : n / 2 ^ (k + 5) * 32 + n / 2 ^ k % 32 = n / 2 ^ k := by
  rw [Nat.pow_add, ← Nat.div_div_eq_div_mul]
  generalize n / 2 ^ k = m
  omega

theorem digits (n s0 s1 s2 s3 s4 s5 : Nat) (hq : n < 2 ^ 30)
   (a0 : s0 = n / 2 ^ 25 % 32) (a1 : s1 = n / 2 ^ 20 % 32) (a2 : s2 = n / 2 ^ 15 % 32)
   (a3 : s3 = n / 2 ^ 10 % 32) (a4 : s4 = n / 2 ^ 5 % 32) (a5 : s5 = n / 2 ^ 0 % 32) :
   s0 < 32 ∧ s0 * 32 + s1 < 2 ^ 10 ∧ (s0 * 32 + s1) * 32 + s2 < 2 ^ 15 ∧
   ((s0 * 32 + s1) * 32 + s2) * 32 + s3 < 2 ^ 20 ∧ (((s0 * 32 + s1) * 32 + s2) * 32 + s3) * 32 + s4 < 2 ^ 25 ∧
   ((((s0 * 32 + s1) * 32 + s2) * 32 + s3) * 32 + s4) * 32 + s5 = n := by
  have e25 := digit_step n 25
  have e20 := digit_step n 20
  have e15 := digit_step n 15
  have e10 := digit_step n 10
  have e5 := digit_step n 5
  have e0 := digit_step n 0
  have z : n / 2 ^ 30 = 0 := Nat.div_eq_of_lt hq
  simp only [Nat.reduceAdd] at e25 e20 e15 e10 e5 e0
  rw [z] at e25
  rw [Nat.pow_zero, Nat.div_one] at e0 a5
  generalize n / 2 ^ 25 = m25 at *
  generalize n / 2 ^ 20 = m20 at *
  generalize n / 2 ^ 15 = m15 at *
  generalize n / 2 ^ 10 = m10 at *
  generalize n / 2 ^ 5 = m5 at *
  subst a0 a1 a2 a3 a4 a5
  have h0 : m25 % 32 = m25 := by omega
  have b0 : m25 % 32 < 32 := Nat.mod_lt _ (by decide)
  have b1 : m20 % 32 < 32 := Nat.mod_lt _ (by decide)
  have b2 : m15 % 32 < 32 := Nat.mod_lt _ (by decide)
  have b3 : m10 % 32 < 32 := Nat.mod_lt _ (by decide)
  have b4 : m5 % 32 < 32 := Nat.mod_lt _ (by decide)
  have b5 : n % 32 < 32 := Nat.mod_lt _ (by decide)
  rw [h0] at *
  rw [e20, e15, e10, e5, e0]
  refine ⟨b0, ?_, ?_, ?_, ?_, rfl⟩ <;> omega

/-- feeding the six 5-bit groups of a 30-bit value into the round function from state 0 rebuilds it. -/
theorem run_checksumSyms (q : BitVec 32) (hq : q.toNat < 2 ^ 30) : run 0#32 ((checksumSyms q).map sym) = q := by
  simp only [checksumSyms, List.map_cons, List.map_nil, run, List.foldl_cons, List.foldl_nil]
  have a0 := chunk_toNat q 25
  have a1 := chunk_toNat q 20
  have a2 := chunk_toNat q 15
  have a3 := chunk_toNat q 10
  have a4 := chunk_toNat q 5
  have a5 := chunk_toNat q 0
  generalize ((q >>> 25) &&& 31#32).toNat = s0 at *
  generalize ((q >>> 20) &&& 31#32).toNat = s1 at *
  generalize ((q >>> 15) &&& 31#32).toNat = s2 at *
  generalize ((q >>> 10) &&& 31#32).toNat = s3 at *
  generalize ((q >>> 5) &&& 31#32).toNat = s4 at *
  generalize ((q >>> 0) &&& 31#32).toNat = s5 at *
  obtain ⟨d0, d1, d2, d3, d4, d5⟩ := digits q.toNat s0 s1 s2 s3 s4 s5 hq a0 a1 a2 a3 a4 a5
  have m := fun (k : Nat) => Nat.mod_lt (q.toNat / 2 ^ k) (show 0 < 32 by decide)
  have v0 := sym_toNat s0 (by rw [a0]; exact m 25)
  have v1 := sym_toNat s1 (by rw [a1]; exact m 20)
  have v2 := sym_toNat s2 (by rw [a2]; exact m 15)
  have v3 := sym_toNat s3 (by rw [a3]; exact m 10)
  have v4 := sym_toNat s4 (by rw [a4]; exact m 5)
  have v5 := sym_toNat s5 (by rw [a5]; exact m 0)
  have l0 : (sym s0).toNat < 32 := by rw [v0, a0]; exact m 25
  have l1 : (sym s1).toNat < 32 := by rw [v1, a1]; exact m 20
  have l2 : (sym s2).toNat < 32 := by rw [v2, a2]; exact m 15
  have l3 : (sym s3).toNat < 32 := by rw [v3, a3]; exact m 10
  have l4 : (sym s4).toNat < 32 := by rw [v4, a4]; exact m 5
  have l5 : (sym s5).toNat < 32 := by rw [v5, a5]; exact m 0
  clear a0 a1 a2 a3 a4 a5 m
  have z : (0#32).toNat = 0 := rfl
  generalize h1 : polymodStep 0#32 (sym s0) = c1
  generalize h2 : polymodStep c1 (sym s1) = c2
  generalize h3 : polymodStep c2 (sym s2) = c3
  generalize h4 : polymodStep c3 (sym s3) = c4
  generalize h5 : polymodStep c4 (sym s4) = c5
  generalize h6 : polymodStep c5 (sym s5) = c6
  have t1 : c1.toNat = s0 := by
    rw [← h1, step_small 0#32 (sym s0) (by rw [z]; decide) l0, v0, z, Nat.zero_mul, Nat.zero_add]
  have t2 : c2.toNat = s0 * 32 + s1 := by
    rw [← h2, step_small c1 (sym s1) (by rw [t1]; omega) l1, v1, t1]
  have t3 : c3.toNat = (s0 * 32 + s1) * 32 + s2 := by
    rw [← h3, step_small c2 (sym s2) (by rw [t2]; omega) l2, v2, t2]
  have t4 : c4.toNat = ((s0 * 32 + s1) * 32 + s2) * 32 + s3 := by
    rw [← h4, step_small c3 (sym s3) (by rw [t3]; omega) l3, v3, t3]
  have t5 : c5.toNat = (((s0 * 32 + s1) * 32 + s2) * 32 + s3) * 32 + s4 := by
    rw [← h5, step_small c4 (sym s4) (by rw [t4]; omega) l4, v4, t4]
  have t6 : c6.toNat = ((((s0 * 32 + s1) * 32 + s2) * 32 + s3) * 32 + s4) * 32 + s5 := by
    rw [← h6, step_small c5 (sym s5) (by rw [t5]; exact d4) l5, v5, t5]
  apply BitVec.eq_of_toNat_eq
  rw [t6]
  exact d5

theorem checksumSyms_lt (q : BitVec 32) : ∀ v ∈ checksumSyms q, v < 32 := by
  intro v hv
  simp only [checksumSyms, List.mem_cons, List.not_mem_nil, or_false] at hv
  rcases hv with rfl | rfl | rfl | rfl | rfl | rfl <;> (rw [chunk_toNat]; omega)

theorem checksumSyms_length (q : BitVec 32) : (checksumSyms q).length = 6 := rfl

theorem run_small (c : BitVec 32) (vs : List (BitVec 32)) (hc : Small c) (hv : ∀ v ∈ vs, v.toNat < 2 ^ 30) :
    Small (run c vs) := by
  induction vs generalizing c with
  | nil => exact hc
  | cons v vs ih =>
    rw [run_cons]
    exact ih _ (polymodStep_lt c v (hv v (by simp))) (fun w hw => hv w (by simp [hw]))

theorem polymod_createChecksum (hrp : Bytes) (data : List Nat) :
    polymod hrp (data ++ createChecksum hrp data) = const0 := by
  unfold createChecksum
  rw [polymod_eq, polymod_eq, List.map_append, List.map_append, run_append, run_append]
  generalize run (run 1#32 (hrpExpand hrp)) (data.map sym) = s
  have hz : ([0, 0, 0, 0, 0, 0] : List Nat).map sym = List.replicate 6 0#32 := by decide
  rw [hz, run_zeros]
  have hsm : Small (iter shiftMix 6 s ^^^ const0) := by
    unfold Small
    rw [BitVec.toNat_xor]
    apply Nat.xor_lt_two_pow
    · have : iter shiftMix 6 s = shiftMix (iter shiftMix 5 s) := iter_succ' shiftMix 5 s
      rw [this]; exact shiftMix_lt _
    · decide
  rw [run_eq_iter_xor, run_checksumSyms _ hsm]
  simp only [List.length_map, checksumSyms_length]
  rw [← BitVec.xor_assoc, BitVec.xor_self, BitVec.zero_xor]

end GnoVerif.C45
