/-
Spec side of C48: boolean vectors (`List Bool`), the abstraction function from
the word-packed model to them, and the representation invariant `WF`.
Core-only.
-/
import GnoVerif.Model.C48
import GnoVerif.Model.C48Compact
namespace GnoVerif.C48

/-! ### Boolean vectors and the statement's operations on them -/

/-- `v[i]`, `false` outside the vector. -/
def bget (v : List Bool) (i : Nat) : Bool := v.getD i false

/-- Or: size = max, the shorter operand padded with `false`. -/
def specOr : List Bool → List Bool → List Bool
  | [], ys => ys
  | x :: xs, [] => x :: xs
  | x :: xs, y :: ys => (x || y) :: specOr xs ys

/-- And: size = min (the longer operand truncated). -/
def specAnd (xs ys : List Bool) : List Bool := List.zipWith (· && ·) xs ys

/-- Sub (`a and not b`): size of the left operand, the right one padded with `false`. -/
def specSub : List Bool → List Bool → List Bool
  | [], _ => []
  | x :: xs, [] => x :: xs
  | x :: xs, y :: ys => (x && !y) :: specSub xs ys

/-- Not: pointwise. -/
def specNot (xs : List Bool) : List Bool := xs.map (!·)

/-- the indices holding `true`, ascending -/
def specTrueIdx (xs : List Bool) : List Nat :=
  (List.range xs.length).filter (fun i => bget xs i)

/-- JSON form of a vector: `"` then `x` for true / `_` for false, then `"`. -/
def specJSON (xs : List Bool) : List Byte :=
  cQuote :: (xs.map (fun b => if b then cX else cUnderscore) ++ [cQuote])

/-! ### Abstraction and invariant for `BitArray` -/

/-- bit `i` of a packed word list (little-endian inside each word), `false` past the end -/
def bitAt (es : List Word) (i : Nat) : Bool := (es.getD (i / 64) 0).getLsbD (i % 64)

/-- the boolean vector a (non-nil) bit array stands for: length `bits` -/
def BA.abs (b : BA) : List Bool := (List.range b.bits).map (bitAt b.elems)

/-- nil stands for the empty vector -/
def abs : BitArray → List Bool
  | none => []
  | some b => b.abs

/-- Representation invariant: the right number of words, and no bit set at any
position `≥ bits` (the padding of the last word is zero). -/
structure BA.WF (b : BA) : Prop where
  len : b.elems.length = numElements b.bits
  pad : ∀ i, b.bits ≤ i → bitAt b.elems i = false

def WF : BitArray → Prop
  | none => True
  | some b => b.WF

/-! ### Abstraction and invariant for `CompactBitArray` -/

/-- bit `i` of a packed byte list, most significant bit of each byte first -/
def cbitAt (es : List Byte) (i : Nat) : Bool := (es.getD (i / 8) 0).getLsbD (7 - i % 8)

/-- consistent fields: `extra < 8`, and a non-zero `extra` needs a byte to live in -/
structure CBA.WF (c : CBA) : Prop where
  extra : c.extra.toNat < 8
  nonempty : c.extra ≠ 0 → c.elems ≠ []

def CBA.abs (c : CBA) : List Bool := (List.range c.size.toNat).map (cbitAt c.elems)

def cabs : Compact → List Bool
  | none => []
  | some c => c.abs

def CWF : Compact → Prop
  | none => True
  | some c => c.WF

/-- additionally, no stray bits after `Size()` in the last byte (what
`NewCompactBitArray` + `SetIndex` and the JSON decoder produce) -/
def CBA.Canon (c : CBA) : Prop := c.WF ∧ ∀ i, c.size.toNat ≤ i → cbitAt c.elems i = false

end GnoVerif.C48
