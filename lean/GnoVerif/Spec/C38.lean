import GnoVerif.Model.C38
import GnoVerif.Model.C38Search
/-
C38 — vocabulary of the statement about `SearchForHeight`: a rotation layout,
the markers in it, and the position the search is supposed to find.  Core-only.
-/
namespace GnoVerif.C38

/-- The text of a data line without its newline: base64( be32(crc32c p) ‖ p ). -/
def msgText (p : Bytes) : Bytes := Base64.encode (be32 (Crc32c.crc32c p) ++ p)

/-- A rotation layout: the files of the group, oldest first, each holding whole
lines (the WAL writes a line with one `Write`, and rotation happens between writes). -/
abbrev Layout := List (List Item)

/-- The group holding `layout` (indices 0 … n-1, nothing pruned). -/
def layoutGroup (layout : Layout) : Group :=
  { files := layout.map encodeAll, minIndex := 0, totalSize := 0, headSize := 0, headLimit := 0, totalLimit := 0 }

/-- the height markers of a list of items, in order -/
def markersOf : List Item → List Int
  | [] => []
  | .mark h :: rest => h :: markersOf rest
  | .msg _ :: rest => markersOf rest

/-- the bytes of a file that follow its first marker `h` -/
def afterMarker (h : Int) : List Item → Option Bytes
  | [] => none
  | .mark m :: rest => if m = h then some (encodeAll rest) else afterMarker h rest
  | .msg _ :: rest => afterMarker h rest

/-- What the search must answer: positioned right after the first marker `h`
(the reader it returns covers the rest of that file), or not found. -/
def expectedSearch (h : Int) (layout : Layout) : SearchRes :=
  match layout.findSome? (afterMarker h) with
  | some rest => .found rest
  | none => .notFound

end GnoVerif.C38
