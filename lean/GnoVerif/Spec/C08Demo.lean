import GnoVerif.Spec.C08
/-! C08 — a tiny concrete chain used by the non-vacuity examples of Props/C08.lean:
two realms `r/a`, `r/b`, two users; `r/a` persisted a RealmSend banker for itself. -/
namespace GnoVerif.C08

def demoRA : Str := S!"r/a"
def demoRB : Str := S!"r/b"

def demoResolve (t : Str) : Option Addr :=
  if t = S!"u1" then some (.user 1) else if t = S!"u2" then some (.user 2)
  else if t = S!"ra" then some (.pkg demoRA) else if t = S!"rb" then some (.pkg demoRB) else none

def demoEnv (osend : Coins) : Env where
  resolve := demoResolve
  target := fun _ n => if n = S!"ra" then some demoRA else if n = S!"rb" then some demoRB else none
  saved := fun p i => if p = demoRA ∧ i = 2 then some 0 else none
  given := fun _ _ => none
  slots := fun _ => some 4
  osend := osend
  ephemeral := fun p => hasPrefix p (S!"e/")

def demoChain : Chain where
  env := demoEnv
  persisted := [⟨2, some (.pkg demoRA), demoRA, .persisted⟩]

def demoWorld : World where
  led := { bal := fun a d => if d = ugnot then (match a with | .pkg _ => 1000 | .user _ => 5000 | .dep _ => 100000 | .col => 0) else 0,
           supply := fun _ => 0 }
  params := []
  rmeta := []
  realms := [(demoRA, ⟨1000, 100000⟩), (demoRB, ⟨1000, 100000⟩)]
  price := 100
  defaultDeposit := 1000000000
  restricted := false
  hasAccount := fun _ => true

def u (n : Int) : Coins := [⟨ugnot, n⟩]

/-- balance of (a, ugnot) after a message, `none` if the message failed -/
def balAfter (m : Msg) (a : Addr) : Option Int :=
  match step demoChain demoWorld m with
  | .ok o => some (o.world.led.bal a ugnot)
  | .error _ => none

def failure (m : Msg) : Option Fail :=
  match step demoChain demoWorld m with
  | .ok _ => none
  | .error f => some f

end GnoVerif.C08
