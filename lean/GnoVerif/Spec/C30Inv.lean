import GnoVerif.Model.C30Tree
import GnoVerif.Spec.OMap
/-!
# C30: abstraction function and invariant of the IAVL model

`abs` maps a (possibly empty) tree to the strictly sorted association list it
represents: its leaves, left to right (`Spec.OMap`).  `Node.Inv` is the
structural invariant the code maintains — routing key = smallest key of the
right subtree, cached `subtreeHeight` and `size` exact, AVL balance on the
cached heights — and `Node.WF` adds strict sortedness of the leaves.
`Balanced` / `realHeight` restate the shape guarantee without the cached
fields.  The node keys (`nodeKey`) play no role in any of this.  Core-only.
-/
namespace GnoVerif.C30
namespace Node

/-- key of the leftmost leaf -/
def minKey : Node → Bytes
  | leaf k _ _ => k
  | inner _ _ _ _ l _ => l.minKey

/-- structural invariant -/
def Inv : Node → Prop
  | leaf _ _ _ => True
  | inner k h s _ l r =>
    l.Inv ∧ r.Inv ∧ k = r.minKey ∧ h = max l.height r.height + 1 ∧ s = l.size + r.size ∧
    l.height ≤ r.height + 1 ∧ r.height ≤ l.height + 1

/-- the invariant of a non-nil node -/
def WF (n : Node) : Prop := n.Inv ∧ OMap.Sorted n.toList

/-- height recomputed from the shape (ignores the cached field) -/
def realHeight : Node → Nat
  | leaf _ _ _ => 0
  | inner _ _ _ _ l r => max l.realHeight r.realHeight + 1

/-- AVL balance on the recomputed heights -/
def Balanced : Node → Prop
  | leaf _ _ _ => True
  | inner _ _ _ _ l r =>
    l.Balanced ∧ r.Balanced ∧ l.realHeight ≤ r.realHeight + 1 ∧ r.realHeight ≤ l.realHeight + 1

/-- no node of the tree is unsaved (`nodeKey != nil` everywhere) -/
def AllSaved : Node → Prop
  | leaf _ _ n => n.isSome
  | inner _ _ _ n l r => n.isSome ∧ l.AllSaved ∧ r.AllSaved

/-- a saved node has only saved descendants (what `saveNewNodes` relies on when it
stops at the first node that already has a key) -/
def SavedClosed : Node → Prop
  | leaf _ _ _ => True
  | inner _ _ _ n l r => (n.isSome → l.AllSaved ∧ r.AllSaved) ∧ l.SavedClosed ∧ r.SavedClosed

end Node

/-- the ordered map a possibly-nil root represents -/
def abs : Option Node → OMap
  | none => []
  | some n => n.toList

/-- well-formedness of a possibly-nil root -/
def WFo : Option Node → Prop
  | none => True
  | some n => n.WF

/-- a concrete non-trivial well-formed tree (non-vacuity witness of the `WF`
hypotheses): keys "", "a", "a\x00"; the left leaf saved at version 1, the rest unsaved -/
def exTree : Node :=
  .inner [97] 2 3 none (.leaf [] [1] (some ⟨1, 2⟩))
    (.inner [97, 0] 1 2 none (.leaf [97] [2] none) (.leaf [97, 0] [3] none))

end GnoVerif.C30
