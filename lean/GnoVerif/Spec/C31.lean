/-
C31 — abstract Tendermint, as tm2/pkg/bft/consensus/state.go realises it.

This file is the ABSTRACT protocol the agreement theorem is about (core Lean only).
It keeps, per honest validator, exactly the state the safety argument needs
(height, round, "has passed the prevote / precommit point of this round",
lockedRound, lockedBlock, decisions) and, as the network, a monotone log of every
vote ever signed.  A network schedule is a sequence of `AStep`s: since every guard
only asks whether some quorum of votes *exists in the log*, delivery order,
delays, duplication and loss of messages are all covered (a node that has not
received a quorum simply does not take the step; receiving twice changes
nothing).  Faulty validators may add ANY vote carrying their own index at any
time (equivocation, votes for blocks nobody proposed, votes for far rounds).

The six actions are the safety-relevant effects of the functions of state.go:

* `advance`        — `enterNewRound / enterPropose / enterPrevoteWait /
                      enterPrecommitWait / enterCommit` and every early return:
                      the round only grows; inside a round the "prevoted" and
                      "precommitted" marks (Step ≥ Prevote, Step ≥ Precommit) are
                      never taken back.  (`enterPrecommitWait` may set them
                      without any vote having been signed; `Step` itself may fall
                      back from Commit to PrecommitWait — both are covered.)
* `prevote w`      — `enterPrevote → defaultDoPrevote`: if a block is locked it
                      is prevoted, whatever the proposal says; otherwise the
                      proposal block or nil (no constraint needed for safety).
                      NOTE there is no check of the proposal's POLRound against
                      LockedRound: unlocking happens eagerly in `addVote`.
* `unlock`         — `addVote` (state.go:1648-1659): +2/3 prevotes for something
                      else than the locked block (nil included) at a round ρ with
                      LockedRound < ρ ≤ Round; and the two unlocking branches of
                      `enterPrecommit` (+2/3 nil, +2/3 for a block we do not
                      have), where ρ = Round.
* `precommitBlock` — `enterPrecommit`, "relock" and "lock" branches: requires
                      +2/3 prevotes for `v` at the CURRENT round; sets
                      LockedRound = Round, LockedBlock = v.
* `precommitNil`   — `enterPrecommit` without polka / after an unlock: the lock
                      is kept as it is.
* `decide v`       — `enterCommit → tryFinalizeCommit → finalizeCommit →
                      updateToState`: +2/3 precommits for `v` at SOME round of
                      the height; next height starts unlocked at round 0.

`signAddVote` may also refuse to sign (existing self vote, privval error): that
is `advance` (the step still moves on).
-/
namespace GnoVerif.C31

abbrev Val := Nat
abbrev Block := Nat

inductive VType | prevote | precommit
deriving DecidableEq, Repr

/-- A signed vote.  `block = none` is the nil vote. -/
structure Vote where
  sender : Val
  height : Nat
  round : Nat
  type : VType
  block : Option Block
deriving DecidableEq, Repr

/-- Validator `i` has voting power `powers[i]`; `byz i` marks the faulty ones. -/
structure Cfg where
  powers : List Nat
  byz : Val → Bool

/-- Σ `ps[j]` over the positions `j` with `P (i + j)`. -/
def sumIf (P : Val → Bool) : List Nat → Val → Nat
  | [], _ => 0
  | p :: ps, i => (if P i then p else 0) + sumIf P ps (i + 1)

def Cfg.n (c : Cfg) : Nat := c.powers.length
/-- voting power of the validators satisfying `P` -/
def Cfg.powerOf (c : Cfg) (P : Val → Bool) : Nat := sumIf P c.powers 0
def Cfg.total (c : Cfg) : Nat := c.powerOf fun _ => true
def Cfg.honest (c : Cfg) (i : Val) : Prop := i < c.n ∧ c.byz i = false
/-- the fault bound the proofs need: faulty power is AT MOST one third of the total.  (The property
statement assumes strictly less, `Cfg.FaultyBelowThird`; quorums are strict `> 2/3`, so equality is
still safe.) -/
def Cfg.FewFaulty (c : Cfg) : Prop := 3 * c.powerOf c.byz ≤ c.total
/-- the statement's assumption: honest validators hold MORE than two thirds of the power -/
def Cfg.FaultyBelowThird (c : Cfg) : Prop := 3 * c.powerOf c.byz < c.total

instance (c : Cfg) (i : Val) : Decidable (c.honest i) := by unfold Cfg.honest; infer_instance
instance (c : Cfg) : Decidable c.FewFaulty := by unfold Cfg.FewFaulty; infer_instance
instance (c : Cfg) : Decidable c.FaultyBelowThird := by unfold Cfg.FaultyBelowThird; infer_instance

/-- validator `a` has signed this vote (it is in the log) -/
def hasVote (L : List Vote) (H r : Nat) (t : VType) (b : Option Block) (a : Val) : Bool :=
  decide (Vote.mk a H r t b ∈ L)

/-- `VoteSet.TwoThirdsMajority`: `sum ≥ total*2/3 + 1`, i.e. `3·sum > 2·total`. -/
def quorum (c : Cfg) (L : List Vote) (H r : Nat) (t : VType) (b : Option Block) : Prop :=
  2 * c.total < 3 * c.powerOf (hasVote L H r t b)

instance (c : Cfg) (L : List Vote) (H r : Nat) (t : VType) (b : Option Block) :
    Decidable (quorum c L H r t b) := by unfold quorum; infer_instance

/-- +2/3 prevotes for `b` (a block or nil) at `(H, r)` -/
def polka (c : Cfg) (L : List Vote) (H r : Nat) (b : Option Block) : Prop :=
  quorum c L H r .prevote b

/-- +2/3 precommits for the block `v` at `(H, r)` -/
def commitQ (c : Cfg) (L : List Vote) (H r : Nat) (v : Block) : Prop :=
  quorum c L H r .precommit (some v)

instance (c : Cfg) (L : List Vote) (H r : Nat) (b : Option Block) : Decidable (polka c L H r b) := by
  unfold polka; infer_instance
instance (c : Cfg) (L : List Vote) (H r : Nat) (v : Block) : Decidable (commitQ c L H r v) := by
  unfold commitQ; infer_instance

/-- the safety-relevant part of `cstypes.RoundState` -/
structure ANode where
  height : Nat
  round : Nat
  pvDone : Bool              -- Step ≥ RoundStepPrevote in this round
  pcDone : Bool              -- Step ≥ RoundStepPrecommit in this round
  lockedRound : Int          -- -1 = not locked
  lockedBlock : Option Block
  decided : List (Nat × Block)   -- (height, block) finalised by this node

def ANode.init : ANode :=
  { height := 1, round := 0, pvDone := false, pcDone := false,
    lockedRound := -1, lockedBlock := none, decided := [] }

/-- One safety-relevant effect of an honest validator `p` in state `a`, given the votes `L`
signed so far; `out` = the votes it signs. -/
inductive AAct (c : Cfg) (L : List Vote) (p : Val) : ANode → ANode → List Vote → Prop
  | advance (a : ANode) (round' : Nat) (pv' pc' : Bool)
      (h : a.round < round' ∨ (round' = a.round ∧ (a.pvDone = true → pv' = true) ∧ (a.pcDone = true → pc' = true))) :
      AAct c L p a { a with round := round', pvDone := pv', pcDone := pc' } []
  | prevote (a : ANode) (w : Option Block)
      (hstep : a.pvDone = false)
      (hlock : ∀ v, a.lockedBlock = some v → w = some v) :
      AAct c L p a { a with pvDone := true } [⟨p, a.height, a.round, .prevote, w⟩]
  | unlock (a : ANode) (v : Block) (ρ : Nat) (w : Option Block)
      (hl : a.lockedBlock = some v)
      (hρ : a.lockedRound < (ρ : Int) ∧ ρ ≤ a.round)
      (hw : w ≠ some v)
      (hp : polka c L a.height ρ w) :
      AAct c L p a { a with lockedRound := -1, lockedBlock := none } []
  | precommitBlock (a : ANode) (v : Block)
      (hstep : a.pcDone = false)
      (hp : polka c L a.height a.round (some v)) :
      AAct c L p a { a with pcDone := true, lockedRound := a.round, lockedBlock := some v }
        [⟨p, a.height, a.round, .precommit, some v⟩]
  | precommitNil (a : ANode)
      (hstep : a.pcDone = false) :
      AAct c L p a { a with pcDone := true } [⟨p, a.height, a.round, .precommit, none⟩]
  | decide (a : ANode) (v : Block) (r : Nat)
      (hq : commitQ c L a.height r v) :
      AAct c L p a
        { height := a.height + 1, round := 0, pvDone := false, pcDone := false,
          lockedRound := -1, lockedBlock := none, decided := (a.height, v) :: a.decided } []

/-- global state: every validator's node (only the honest ones matter) and the vote log -/
structure AState where
  nodes : Val → ANode
  log : List Vote

def AState.init : AState := { nodes := fun _ => ANode.init, log := [] }

def upd (f : Val → ANode) (p : Val) (a : ANode) : Val → ANode := fun q => if q = p then a else f q

inductive AStep (c : Cfg) : AState → AState → Prop
  /-- a faulty validator signs anything it likes with its own key -/
  | byz (σ : AState) (v : Vote) (h : ¬ c.honest v.sender) :
      AStep c σ { σ with log := σ.log ++ [v] }
  /-- an honest validator takes one step allowed by the votes that exist -/
  | act (σ : AState) (p : Val) (a' : ANode) (out : List Vote) (hp : c.honest p)
      (h : AAct c σ.log p (σ.nodes p) a' out) :
      AStep c σ { nodes := upd σ.nodes p a', log := σ.log ++ out }

inductive AReach (c : Cfg) : AState → Prop
  | init : AReach c AState.init
  | step {σ σ' : AState} : AReach c σ → AStep c σ σ' → AReach c σ'

end GnoVerif.C31
