/-
Spec.C23Inv — abstraction function and invariants of the B+ tree model.

* `abs`   : the in-order list of entries of a node (the ordered map it represents).
* `Ord`   : search-order invariant with explicit bounds — leaf keys strictly
            ascending inside `[lo, hi)`, every child of an inner node inside the
            interval cut out by its neighbouring separators, cached `childSizes`
            exact.  Independent of the branching factor.
* `Occ B` : occupancy — every leaf holds `1..B` entries, every inner node
            `1..B-1` separators (array bounds of the Go structs; non-empty
            nodes are what the iterator and the pruning walk rely on).
* `Tree.OrdOk` = `Ord` with no outer bounds, `Tree.OccOk B` = `Occ B`, `Tree.WF B` = both.

Core-only.
-/
import GnoVerif.Model.C23BpTree
import GnoVerif.Spec.OMap

namespace GnoVerif.C23

/-- in-order contents of a node. -/
def abs : (h : Nat) → Node h → List Entry
  | 0, (l : Leaf) => l.es
  | h + 1, (n : Inner (Node h)) => (n.kids.map (abs h)).flatten

/-- the ordered map a tree represents. -/
def Tree.abs : Tree → OMap
  | .empty => []
  | .node h n => C23.abs h n

/-- `lo ≤ k` (no bound when `lo = none`). -/
@[simp] def lbOk : Option Key → Key → Prop
  | none, _ => True
  | some l, k => l ≤ k

/-- `k < hi` (no bound when `hi = none`). -/
@[simp] def ubOk : Option Key → Key → Prop
  | none, _ => True
  | some u, k => k < u

/-- the interval `[lo, hi)` is not inverted. -/
@[simp] def gapOk : Option Key → Option Key → Prop
  | some l, some u => l ≤ u
  | _, _ => True

/-- children `cs` separated by keys `ks` inside `[lo, hi)`: child `j` lies in
`[ks[j-1], ks[j])` (with `lo` / `hi` at the ends). -/
def Chain {α : Type} (P : α → Option Key → Option Key → Prop) :
    List Key → List α → Option Key → Option Key → Prop
  | [], [c], lo, hi => P c lo hi
  | k :: ks, c :: cs, lo, hi => P c lo (some k) ∧ Chain P ks cs (some k) hi
  | _, _, _, _ => False

def LeafOrd (es : List Entry) (lo hi : Option Key) : Prop :=
  OMap.Sorted es ∧ (∀ e ∈ es, lbOk lo e.1 ∧ ubOk hi e.1) ∧ gapOk lo hi

/-- search order with bounds + exact cached sizes. -/
def Ord : (h : Nat) → Node h → Option Key → Option Key → Prop
  | 0, (l : Leaf), lo, hi => LeafOrd l.es lo hi
  | h + 1, (n : Inner (Node h)), lo, hi =>
    Chain (Ord h) n.keys n.kids lo hi ∧ n.sizes = n.kids.map (nodeSize h)

/-- occupancy of the fixed-size arrays. -/
def Occ (B : Nat) : (h : Nat) → Node h → Prop
  | 0, (l : Leaf) => 1 ≤ l.es.length ∧ l.es.length ≤ B
  | h + 1, (n : Inner (Node h)) =>
    1 ≤ n.keys.length ∧ n.keys.length ≤ B - 1 ∧ ∀ c ∈ n.kids, Occ B h c

/-- search order of a whole tree (no outer bounds). -/
def Tree.OrdOk : Tree → Prop
  | .empty => True
  | .node h n => Ord h n none none

/-- occupancy of a whole tree. -/
def Tree.OccOk (B : Nat) : Tree → Prop
  | .empty => True
  | .node h n => Occ B h n

/-- well-formed tree. -/
def Tree.WF (B : Nat) (t : Tree) : Prop := t.OrdOk ∧ t.OccOk B

/-- number of keys smaller than `key` (the index `GetWithIndex` reports). -/
def rank (m : OMap) (key : Key) : Nat := (m.filter (fun e => decide (e.1 < key))).length

end GnoVerif.C23
