/-!
# Spec for C50: the ordered map the avl package has to behave like

A map from Go strings (byte strings, compared byte-wise as Go compares strings)
to values is represented by its **strictly sorted association list**.
Everything here is the *specification*: it never mentions trees.

Core-only (linked into the driver executable's closure is not needed, but the
model's theorems are stated against these definitions).
-/
namespace GnoVerif.C50

/-- A Go `string`: a sequence of bytes.  `<` / `≤` on `List UInt8` is the
lexicographic order on bytes (a proper prefix is smaller) — exactly Go's
string comparison.  The empty string `""` is `[]`, the least key. -/
abbrev Key := List UInt8

namespace OMap

/-- strictly ascending keys (hence no duplicate key) -/
def Sorted {α : Type} (l : List (Key × α)) : Prop :=
  l.Pairwise (fun a b => a.1 < b.1)

def keys {α : Type} (l : List (Key × α)) : List Key := l.map (·.1)

/-- `m[k] = v` -/
def insert {α : Type} (k : Key) (v : α) : List (Key × α) → List (Key × α)
  | [] => [(k, v)]
  | (k', v') :: t =>
    if k < k' then (k, v) :: (k', v') :: t
    else if k = k' then (k, v) :: t
    else (k', v') :: insert k v t

/-- `delete(m, k)` -/
def erase {α : Type} (k : Key) (l : List (Key × α)) : List (Key × α) :=
  l.filter (fun p => p.1 ≠ k)

/-- `m[k]` -/
def lookup {α : Type} (k : Key) : List (Key × α) → Option α
  | [] => none
  | (k', v') :: t => if k = k' then some v' else lookup k t

def contains {α : Type} (k : Key) (l : List (Key × α)) : Bool :=
  (lookup k l).isSome

/-- number of keys strictly below `k` (the rank `Node.Get` reports) -/
def rank {α : Type} (k : Key) (l : List (Key × α)) : Nat :=
  (l.filter (fun p => p.1 < k)).length

/-- Range membership with the package's documented conventions:
an empty `start` / `end` means "unbounded on that side"; `start` is inclusive;
`end` is exclusive when ascending and inclusive when descending
(node.gno, comment on `TraverseInRange`). -/
def inRange (start end_ : Key) (ascending : Bool) (k : Key) : Bool :=
  (start = [] || start ≤ k) &&
  (end_ = [] || (if ascending then k < end_ else k ≤ end_))

/-- the entries an `Iterate` (ascending) / `ReverseIterate` (descending) visits, in visiting order -/
def range {α : Type} (l : List (Key × α)) (start end_ : Key) (ascending : Bool) : List (Key × α) :=
  let f := l.filter (fun p => inRange start end_ ascending p.1)
  if ascending then f else f.reverse

/-- the entries an `IterateByOffset` / `ReverseIterateByOffset` visits:
skip `offset` (negative counts as 0), then at most `count` (≤ 0 means none). -/
def window {α : Type} (l : List (Key × α)) (offset count : Int) (ascending : Bool) : List (Key × α) :=
  let o := if ascending then l else l.reverse
  (o.drop offset.toNat).take count.toNat

/-- Feed a list to a (stateful) callback until it answers `true` (stop).
Result: final callback state and whether it stopped. -/
def runCb {α σ : Type} (cb : σ → Key → α → σ × Bool) : σ → List (Key × α) → σ × Bool
  | s, [] => (s, false)
  | s, (k, v) :: t =>
    match cb s k v with
    | (s', true) => (s', true)
    | (s', false) => runCb cb s' t

end OMap
end GnoVerif.C50
