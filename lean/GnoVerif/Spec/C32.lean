import GnoVerif.Model.C32
import GnoVerif.Spec.C36
/-!
C32 — the property statement, spelled out (no code structure here).

"Every block a node applies passes block validation: correct height, chain id,
previous block id, app/results/validator hashes, monotonic median time, and a last
commit signed by more than two thirds of the previous validator set.  Block
validation rejects every block that violates any of these and never panics."
Core-only.
-/
namespace GnoVerif.C32
open GnoVerif.C36 (ValSet Validator wrap64)

/-- what `ValidateHash` admits: empty or exactly `tmhash.Size` bytes. -/
def HashShape (h : Bytes) : Prop := h.length = 0 ∨ h.length = hashSize

/-- what `BlockID.ValidateBasic` admits. -/
structure LastBlockIDShape (l : LastBlockID) : Prop where
  hash        : l.hashLen = 0 ∨ l.hashLen = hashSize
  totalNonneg : 0 ≤ l.total
  totalMax    : l.total ≤ maxBlockPartsCount
  partsHash   : l.partsHashLen = 0 ∨ l.partsHashLen = hashSize

/-- what `Commit.ValidateBasic` admits: the empty genesis shape, or a commit for a
non-nil block with at least one slot whose non-nil entries are precommits of one
height and one round (those of the first non-nil entry). -/
def CommitShape (c : Commit) : Prop :=
  (c.blockID = 0 ∧ c.toC36.precommits = []) ∨
  (c.blockID ≠ 0 ∧ c.toC36.precommits ≠ [] ∧
    ∀ e, some e ∈ c.toC36.precommits →
      e.type = C36.precommitType ∧ e.height = c.toC36.height ∧ e.round = c.toC36.round)

/-- **internal consistency** (`Block.ValidateBasic`). -/
structure BasicOK (b : Block) : Prop where
  chainIDLen     : b.header.chainID.length ≤ maxChainIDLen
  heightPos      : 0 < b.header.height
  numTxs         : b.header.numTxs = (b.nTxs : Int)
  totalGeNum     : b.header.numTxs ≤ b.header.totalTxs
  lastBlockID    : LastBlockIDShape b.header.lastBlockID
  commit         : ∃ c, b.lastCommit = some c ∧ CommitShape c
  lastCommitHash : b.header.lastCommitHash = b.lastCommitHashC
  dataHash       : b.header.dataHash = b.dataHashC
  shapes         : HashShape b.header.lastCommitHash ∧ HashShape b.header.dataHash ∧
                   HashShape b.header.validatorsHash ∧ HashShape b.header.nextValidatorsHash ∧
                   HashShape b.header.consensusHash ∧ HashShape b.header.lastResultsHash

/-! ### the weighted median -/

/-- (timestamp, power) of the signed slots: slot `i` holds a precommit and validator
`i` exists. -/
def slotTimes : List Validator → List (Option Precommit) → List WT
  | _, [] => []
  | [], _ :: _ => []
  | _ :: vs, none :: ps => slotTimes vs ps
  | v :: vs, some p :: ps => ⟨p.ts, v.power⟩ :: slotTimes vs ps

def totalWeight (wts : List WT) : Int := (wts.map (·.weight)).sum

/-- weight of the timestamps not after `t`. -/
def weightUpTo (wts : List WT) (t : Int) : Int := ((wts.filter (fun w => decide (w.time ≤ t))).map (·.weight)).sum

/-- `t` is the power-weighted median of `wts`: one of the timestamps; the weight
of the timestamps up to `t` reaches half of the total (rounded down); no earlier
timestamp does. -/
structure IsWeightedMedian (wts : List WT) (t : Int) : Prop where
  mem     : ∃ w ∈ wts, w.time = t
  reaches : Int.tdiv (totalWeight wts) 2 ≤ weightUpTo wts t
  least   : ∀ w ∈ wts, w.time < t → weightUpTo wts w.time < Int.tdiv (totalWeight wts) 2

/-! ### the last commit and the block time -/

/-- The LastCommit / time clause of the statement.  First block of the chain: no
precommits and the genesis time.  Otherwise: the commit is well-formed for the
previous height and block (C36's `WellFormed`: one slot per previous validator, for
`state.LastBlockID`, every entry a precommit of that height and one round, every
signature verifies), the validators whose slot holds a verifying precommit for that
block hold MORE THAN TWO THIRDS of the previous set's power, the time is strictly
after the previous block's and equals `MedianTime`. -/
def LastCommitOK (s : State) (b : Block) (c : Commit) : Prop :=
  if b.header.height = s.initialHeight then
    c.precommits = [] ∧ b.header.time = s.lastBlockTime
  else
    C36.WellFormed s.lastValidators s.lastBlockID (wrap64 (b.header.height - 1)) c.toC36 ∧
    3 * C36.signedPower s.lastValidators s.lastBlockID (wrap64 (b.header.height - 1)) c.toC36
        > 2 * C36.sumPowers s.lastValidators ∧
    s.lastBlockTime < b.header.time ∧
    b.header.time = medianTime c s.lastValidators

/-- **the statement's list**: what an accepted block satisfies, and what every
rejected block violates. -/
structure Valid (s : State) (b : Block) : Prop where
  notBelowInitial    : s.initialHeight ≤ b.header.height
  basic              : BasicOK b
  version            : b.header.version = s.blockVersion
  appVersion         : b.header.appVersion = s.appVersion
  chainID            : b.header.chainID = s.chainID
  height             : b.header.height = wrap64 (s.lastBlockHeight + 1)
  lastBlockID        : b.header.lastBlockID.id = s.lastBlockID
  totalTxs           : b.header.totalTxs = wrap64 (s.lastBlockTotalTx + (b.nTxs : Int))
  appHash            : b.header.appHash = s.appHash
  consensusHash      : b.header.consensusHash = s.consensusHashC
  lastResultsHash    : b.header.lastResultsHash = s.lastResultsHash
  validatorsHash     : b.header.validatorsHash = s.validatorsHashC
  nextValidatorsHash : b.header.nextValidatorsHash = s.nextValidatorsHashC
  lastCommit         : ∃ c, b.lastCommit = some c ∧ LastCommitOK s b c
  proposer           : ∃ v ∈ s.validators, v.addr = b.header.proposer

/-- The invariants the real `State` maintains for its validator sets (C36's
`validSet`: positive powers, total ≤ MaxTotalVotingPower, strictly address-sorted). -/
def StateOK (s : State) : Prop :=
  C36.validSet s.validators = true ∧ C36.validSet s.lastValidators = true

/-- an outcome that stands for a Go panic (both live in C36's `VerifyCommit` model). -/
def Err.isPanic : Err → Bool
  | .commit .panicTotalPower => true
  | .commit .panicNilVal => true
  | _ => false

/-! ### histories: what `ApplyBlock` does to the fields `ValidateBlock` reads -/

/-- What the application and `EndBlock` decide (everything `updateState` does not
take from the block or the old state). -/
structure AppOut where
  validators          : ValSet   -- the new `Validators` (= old `NextValidators`)
  appHash             : Bytes
  lastResultsHash     : Bytes
  consensusHashC      : Bytes
  validatorsHashC     : Bytes
  nextValidatorsHashC : Bytes

/-- `updateState` (+ the AppHash written after `Commit`): the block just applied
becomes "the last block"; the validators of this block become `LastValidators`. -/
def advance (s : State) (b : Block) (blockID : Nat) (o : AppOut) : State :=
  { s with
    lastBlockHeight := b.header.height
    lastBlockTotalTx := wrap64 (s.lastBlockTotalTx + b.header.numTxs)
    lastBlockID := blockID
    lastBlockTime := b.header.time
    lastValidators := s.validators
    validators := o.validators
    appHash := o.appHash
    lastResultsHash := o.lastResultsHash
    consensusHashC := o.consensusHashC
    validatorsHashC := o.validatorsHashC
    nextValidatorsHashC := o.nextValidatorsHashC }

/-- `BlockExecutor.ApplyBlock`: validate FIRST (extract/expect/C32.applyblock.txt),
then execute and advance. -/
def applyBlock (s : State) (b : Block) (blockID : Nat) (o : AppOut) : Except Err State :=
  match validateBlock s b with
  | .error e => .error e
  | .ok _ => .ok (advance s b blockID o)

/-- One applied block of a history: the block, the id it is stored under, the
application's outputs. -/
structure Step where
  block   : Block
  blockID : Nat
  out     : AppOut

/-- run a history; `none` as soon as a block is refused (the node stops: consensus
does not commit it, fast sync panics). -/
def applyAll : State → List Step → Option State
  | s, [] => some s
  | s, st :: rest =>
    match applyBlock s st.block st.blockID st.out with
    | .error _ => none
    | .ok s' => applyAll s' rest

/-- every block of the history was valid for the state it met. -/
def Applied : State → List Step → Prop
  | _, [] => True
  | s, st :: rest => Valid s st.block ∧ Applied (advance s st.block st.blockID st.out) rest

def finalState : State → List Step → State
  | s, [] => s
  | s, st :: rest => finalState (advance s st.block st.blockID st.out) rest

end GnoVerif.C32
