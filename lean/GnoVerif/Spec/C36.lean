import GnoVerif.Model.C36
/-!
C36 — the property statement, spelled out (no code structure here).

"commit verification succeeds exactly when the commit is well-formed for that
height and the validators whose precommit signatures for that block id verify
hold more than two thirds of the total voting power; the future-commit check
additionally requires more than two thirds of the old set's power."
Core-only.
-/
namespace GnoVerif.C36

/-- Entry `oe` (at the index of some validator) is a verifying precommit for
`blockID` at `height`. -/
def countsFor (blockID : Nat) (height : Int) : Option Entry → Bool
  | some e => decide (e.type = precommitType) && decide (e.height = height)
                && decide (e.blockID = blockID) && e.sigOK
  | none => false

/-- Σ power of the validators whose entry (same index) is a verifying precommit
for `blockID` — the exact (unbounded) integer. -/
def signedPower (vals : ValSet) (blockID : Nat) (height : Int) (c : Commit) : Int :=
  (((vals.zip c.precommits).filter (fun p => countsFor blockID height p.2)).map (·.1.power)).sum

/-- "well-formed for that height", as the code enforces it.  Note `sigs`: a bad
signature is rejected even on a stray vote for another block, and note what is
absent: an entry's `ValidatorAddress`/`ValidatorIndex` are never looked at. -/
structure WellFormed (vals : ValSet) (blockID : Nat) (height : Int) (c : Commit) : Prop where
  /-- the commit is not for the nil block -/
  notNil    : c.blockID ≠ 0
  /-- one slot per validator -/
  size      : c.precommits.length = vals.length
  /-- it is a commit for the block asked about -/
  block     : c.blockID = blockID
  /-- every non-nil entry is a precommit at the height asked about -/
  kind      : ∀ e, some e ∈ c.precommits → e.type = precommitType ∧ e.height = height
  /-- all non-nil entries are of one round -/
  oneRound  : ∀ e e', some e ∈ c.precommits → some e' ∈ c.precommits → e.round = e'.round
  /-- every non-nil entry's signature verifies (also on votes for other blocks) -/
  sigs      : ∀ e, some e ∈ c.precommits → e.sigOK = true

/-- The first non-nil entry that names address `a` as its `ValidatorAddress`
(later ones are double votes; the code ignores them). -/
def firstNaming (a : Nat) : List (Option Entry) → Option Entry
  | [] => none
  | none :: es => firstNaming a es
  | some e :: es => if e.valAddr = a then some e else firstNaming a es

/-- Old validator `v` counts: the first entry naming its address is a precommit
for `blockID` at `height` whose signature verifies under `v`'s (old) key. -/
def oldCountsFor (blockID : Nat) (height : Int) (es : List (Option Entry)) (v : Validator) : Bool :=
  match firstNaming v.addr es with
  | some e => decide (e.type = precommitType) && decide (e.height = height)
                && decide (e.blockID = blockID) && e.sigOKOld
  | none => false

/-- Σ old power of the old validators that count. -/
def oldSignedPower (old : ValSet) (blockID : Nat) (height : Int) (c : Commit) : Int :=
  ((old.filter (oldCountsFor blockID height c.precommits)).map (·.power)).sum

/-- The extra well-formedness `VerifyFutureCommit` enforces: for every old
validator, the first entry naming its address verifies under its old key
(whatever block that entry is for). -/
def OldWellFormed (old : ValSet) (c : Commit) : Prop :=
  ∀ v ∈ old, ∀ e, firstNaming v.addr c.precommits = some e → e.sigOKOld = true

/-- No two non-nil entries name the same address (true of every commit whose
entry `i` names validator `i` of a set with distinct addresses). -/
def DistinctNames (c : Commit) : Prop :=
  (c.precommits.filterMap id).Pairwise (fun e e' => e.valAddr ≠ e'.valAddr)

/-! ### which error is returned (decision lists, first failing check wins) -/

/-- some non-nil entry's signature does not verify -/
def hasBadSig (es : List (Option Entry)) : Bool :=
  es.any (fun oe => match oe with | some e => !e.sigOK | none => false)

/-- The decision list `VerifyCommit` implements (first failing check wins). -/
def verifyCommitSpec (vals : ValSet) (B : Nat) (H : Int) (c : Commit) : Res :=
  match validateBasic c with
  | .error e => .error e
  | .ok _ =>
    if c.precommits.length ≠ vals.length then .error .size
    else if c.height ≠ H then .error .height
    else if c.blockID ≠ B then .error .blockID
    else if hasBadSig c.precommits then .error .sig
    else if 3 * signedPower vals B H c > 2 * sumPowers vals then .ok () else .error .power

/-- for some old validator, the first entry naming it does not verify under its old key -/
def hasBadOldSig (old : ValSet) (es : List (Option Entry)) : Bool :=
  old.any (fun v => match firstNaming v.addr es with | some e => !e.sigOKOld | none => false)

/-- The decision list `VerifyFutureCommit` implements. -/
def verifyFutureCommitSpec (old new : ValSet) (B : Nat) (H : Int) (c : Commit) : Res :=
  match verifyCommitSpec new B H c with
  | .error e => .error e
  | .ok _ =>
    if hasBadOldSig old c.precommits then .error .fSig
    else if 3 * oldSignedPower old B H c > 2 * sumPowers old then .ok () else .error .fPower

end GnoVerif.C36
