import GnoVerif.Model.C34
/-!
# C34 — the property statement as predicates over the released log

`released` is the list, in order, of every signature the validator handed to a
caller together with a nil error: (H/R/S, body = sign-bytes without the
timestamp, the timestamp RETURNED, the signature).  Core Lean only.
-/
namespace GnoVerif.C34
variable {σ : Type}

/-- (1) No two released signatures for the same H/R/S belong to different
messages; and when the same message is requested again (possibly with another
timestamp) what is returned is the ORIGINAL signature and timestamp.  So all
log entries at one H/R/S agree on body, returned timestamp and signature. -/
def NoConflict (l : List (Released σ)) : Prop :=
  ∀ a ∈ l, ∀ b ∈ l, a.hrs = b.hrs → a.body = b.body ∧ a.ts = b.ts ∧ a.sig = b.sig

/-- (2) No signature is released for an H/R/S lower than that of an earlier release. -/
def Monotone (l : List (Released σ)) : Prop :=
  l.Pairwise (fun a b => a.hrs ≤ b.hrs)

/-- (3) Everything released is covered by the state FILE: its H/R/S is at most
the persisted one … -/
def Persisted (s : State σ) : Prop :=
  ∀ e ∈ s.released, e.hrs ≤ s.disk.hrs

/-- … and what was released at exactly the persisted H/R/S is what the file
holds (so a restart will recognise a repeat and refuse a conflict). -/
def Remembered (s : State σ) : Prop :=
  ∀ e ∈ s.released, e.hrs = s.disk.hrs →
    s.disk.sb = some ⟨e.hrs, e.body, e.ts⟩ ∧ s.disk.sig = some e.sig

/-- Every released signature is the signer's signature of the message that was
returned with it (H/R/S, body, returned timestamp). -/
def SigValid (sign : SignBytes → σ) (l : List (Released σ)) : Prop :=
  ∀ e ∈ l, e.sig = sign ⟨e.hrs, e.body, e.ts⟩

/-- What a call adds to the log, read off its output. -/
def Logged (q : Req) (before after : List (Released σ)) : Out σ → Prop
  | .sig sg ts => ∃ st, q.step = some st ∧ after = before ++ [⟨⟨q.h, q.r, st⟩, q.body, ts, sg⟩]
  | _ => after = before

instance [DecidableEq σ] (l : List (Released σ)) : Decidable (NoConflict l) := by
  unfold NoConflict; exact inferInstance
instance (l : List (Released σ)) : Decidable (Monotone l) := by
  unfold Monotone; exact inferInstance
instance (s : State σ) : Decidable (Persisted s) := by
  unfold Persisted; exact inferInstance

/-- The call reported a failed `save` (I/O or `validate`): an error although a
signature had been produced (and assigned to the request object). -/
def Out.saveFailed : Out σ → Bool
  | .err _ (some _) => true
  | _ => false

end GnoVerif.C34
