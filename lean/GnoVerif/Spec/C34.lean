import GnoVerif.Model.C34
/-!
# C34 — the property statement as predicates over the released log

`released` is the list, in order, of every signature the validator handed to a
caller together with a nil error: (H/R/S, body = sign-bytes without the
timestamp, the timestamp RETURNED, the signature).  Core Lean only.
-/
namespace GnoVerif.C34
variable {σ : Type}

/-- (1) No two released signatures for the same H/R/S belong to different
messages; and when the same message is requested again (possibly with another
timestamp) what is returned is the ORIGINAL signature and timestamp.  So all
log entries at one H/R/S agree on body, returned timestamp and signature. -/
def NoConflict (l : List (Released σ)) : Prop :=
  ∀ a ∈ l, ∀ b ∈ l, a.hrs = b.hrs → a.body = b.body ∧ a.ts = b.ts ∧ a.sig = b.sig

/-- (2) No signature is released for an H/R/S lower than that of an earlier release. -/
def Monotone (l : List (Released σ)) : Prop :=
  l.Pairwise (fun a b => a.hrs ≤ b.hrs)

/-- (3) Everything released is covered by the state FILE: its H/R/S is at most
the persisted one … -/
def Persisted (s : State σ) : Prop :=
  ∀ e ∈ s.released, e.hrs ≤ s.disk.hrs

/-- … and what was released at exactly the persisted H/R/S is what the file
holds (so a restart will recognise a repeat and refuse a conflict). -/
def Remembered (s : State σ) : Prop :=
  ∀ e ∈ s.released, e.hrs = s.disk.hrs →
    s.disk.sb = some ⟨e.hrs, e.body, e.ts⟩ ∧ s.disk.sig = some e.sig

/-- Every released signature is the signer's signature of the message that was
returned with it (H/R/S, body, returned timestamp). -/
def SigValid (sign : SignBytes → σ) (l : List (Released σ)) : Prop :=
  ∀ e ∈ l, e.sig = sign ⟨e.hrs, e.body, e.ts⟩

/-- What a call adds to the log, read off its output. -/
def Logged (q : Req) (before after : List (Released σ)) : Out σ → Prop
  | .sig sg ts => ∃ st, q.step = some st ∧ after = before ++ [⟨⟨q.h, q.r, st⟩, q.body, ts, sg⟩]
  | _ => after = before

/-! ### The guard that separates the safe histories from the finding

`FileState.Update` overwrites the in-memory fields BEFORE `save`; when `save`
fails (I/O error, or `validate` rejecting e.g. a negative round) the error is
returned but memory keeps the new H/R/S, sign-bytes and signature, which the
file does not hold.  A later request for that same H/R/S is then answered from
memory by the same-HRS branch — which persists nothing.  `CleanReuse` says this
does not happen: whenever a request is served by the same-HRS branch, memory is
what the file holds. -/

def CleanReuse (s : State σ) (q : Req) : Prop :=
  ∀ st, q.step = some st → checkHRS s.mem ⟨q.h, q.r, st⟩ = .same → s.mem = s.disk

/-- The request (if any) that the RUNNING process serves for this op (a `cut`
request is served by a freshly started process, whose memory is the file). -/
def servedReq (_s : State σ) : Op → Option Req
  | .sign q => some q
  | _ => none

/-- Along the whole history, the same-HRS branch is only taken from a memory
state equal to the persisted one. -/
def NoDirtyReuse (sign : SignBytes → σ) : State σ → List Op → Prop
  | _, [] => True
  | s, op :: ops =>
    (∀ q, servedReq s op = some q → CleanReuse s q) ∧ NoDirtyReuse sign (step sign s op).1 ops

/-! Two operational conditions that imply the guard (proved in `Proofs/C34`). -/

/-- The call reported a failed `save` (I/O or `validate`): memory ran ahead of the file. -/
def Out.saveFailed : Out σ → Bool
  | .err _ (some _) => true
  | _ => false

/-- The rest of the history is empty or begins with a restart. -/
def restartsFirst : List Op → Bool
  | [] => true
  | .crash :: _ => true
  | _ => false

/-- Fail-stop: after a failed save nothing but a restart follows. -/
def FailStop (sign : SignBytes → σ) : State σ → List Op → Prop
  | _, [] => True
  | s, op :: ops =>
    ((step sign s op).2.saveFailed = true → restartsFirst ops = true) ∧
    FailStop sign (step sign s op).1 ops

def FailStop.dec (sign : SignBytes → σ) : (s : State σ) → (ops : List Op) → Decidable (FailStop sign s ops)
  | _, [] => isTrue trivial
  | s, op :: ops =>
    @instDecidableAnd _ _ inferInstance (FailStop.dec sign (step sign s op).1 ops)

instance (sign : SignBytes → σ) (s : State σ) (ops : List Op) : Decidable (FailStop sign s ops) :=
  FailStop.dec sign s ops

instance [DecidableEq σ] (l : List (Released σ)) : Decidable (NoConflict l) := by
  unfold NoConflict; exact inferInstance
instance (l : List (Released σ)) : Decidable (Monotone l) := by
  unfold Monotone; exact inferInstance
instance (s : State σ) : Decidable (Persisted s) := by
  unfold Persisted; exact inferInstance

/-- A request that `validate` cannot reject: non-negative height and round, step 1..3. -/
def Req.wf (q : Req) : Bool :=
  decide (0 ≤ q.h) && decide (0 ≤ q.r) &&
  (match q.step with | none => true | some st => decide (1 ≤ st) && decide (st ≤ 3))

/-- No environment failure is ever switched on and every request is well-formed. -/
def Op.benign : Op → Bool
  | .sign q => q.wf
  | .cut _ q => q.wf
  | .crash => true
  | .failsave on => !on

end GnoVerif.C34
