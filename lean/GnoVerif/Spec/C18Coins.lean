import GnoVerif.Model.C18Coins
/-!
Spec side of C18: a coin list denotes a finitely supported function
`Denom → Int` (`val`): the sum of the amounts listed under a denomination.
The canonical representative of such a function is the strictly sorted,
zero-free list (`Canonical`); `Proofs/C18Add.lean` shows it is unique.
Core-only.
-/
namespace GnoVerif.C18

/-- the function a coin list denotes: per denomination, the (exact, unbounded) sum of its amounts. -/
def val : Coins → Denom → Int
  | [], _ => 0
  | c :: cs, d => (if c.denom = d then c.amount.toInt else 0) + val cs d

/-- strictly sorted by denomination (Go's bytewise `<`): in particular no duplicate denoms. -/
def Sorted (cs : Coins) : Prop := cs.Pairwise (fun x y => dlt x.denom y.denom = true)

/-- no zero-amount coin. -/
def ZeroFree (cs : Coins) : Prop := ∀ c ∈ cs, c.amount ≠ 0#64

/-- the canonical form: strictly sorted and zero-free. -/
def Canonical (cs : Coins) : Prop := Sorted cs ∧ ZeroFree cs

/-- `k` is a strict lower bound of every denomination in `cs`. -/
def LowerBound (k : Denom) (cs : Coins) : Prop := ∀ c ∈ cs, dlt k c.denom = true

/-- a well-formed denomination (`ValidateDenom(d) == nil`). -/
def DenomOK (d : Denom) : Prop := validateDenom d = true

/-- a valid coin set, as the statement uses the word: strictly sorted, every amount
positive, every denomination well formed. -/
def Valid (cs : Coins) : Prop :=
  Sorted cs ∧ ∀ c ∈ cs, DenomOK c.denom ∧ 0 < c.amount.toInt

instance (cs : Coins) : Decidable (Sorted cs) := by unfold Sorted; infer_instance
instance (cs : Coins) : Decidable (ZeroFree cs) := by unfold ZeroFree; infer_instance
instance (cs : Coins) : Decidable (Canonical cs) := by unfold Canonical; infer_instance
instance (d : Denom) : Decidable (DenomOK d) := by unfold DenomOK; infer_instance
instance (cs : Coins) : Decidable (Valid cs) := by unfold Valid; infer_instance

/-- some per-denomination amount leaves int64. -/
def Overflows (f : Denom → Int) : Prop := ∃ d, ¬ inI64 (f d)

/-- the coin set denoted by `f` is not valid: some non-zero amount is negative or sits under an ill-formed denom. -/
def InvalidFn (f : Denom → Int) : Prop := ∃ d, f d ≠ 0 ∧ ¬ (DenomOK d ∧ 0 < f d)

/-- `R` is THE sorted, zero-free list of the function `f`. -/
def Represents (R : Coins) (f : Denom → Int) : Prop := Canonical R ∧ ∀ d, val R d = f d

/-- `negative` as a function on values: Go's wrapping `-1 * x` on int64. -/
def negWrap (x : Int) : Int := if x = i64Min then i64Min else -x

/-! ### concrete witnesses used by `example`s and counter-example theorems -/

/-- `"aaa"`, `"bbb"`, `"ccc"` -/
def dA : Denom := [97, 97, 97]
def dB : Denom := [98, 98, 98]
def dC : Denom := [99, 99, 99]
/-- MinInt64 / MaxInt64 as int64 -/
def minAmt : BitVec 64 := 0x8000000000000000#64
def maxAmt : BitVec 64 := 0x7fffffffffffffff#64

end GnoVerif.C18
