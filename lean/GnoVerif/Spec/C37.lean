/-
Specification vocabulary for C37 (core-only): well-formed validator sets, the
run of a set under repeated `IncrementProposerPriority(1)`, window counts,
priority spread.
-/
import GnoVerif.Model.C37
namespace GnoVerif.C37

/-- `f` applied `k` times -/
def iter {σ : Type} (f : σ → σ) : Nat → σ → σ
  | 0, s => s
  | k + 1, s => iter f k (f s)

/-- one call `IncrementProposerPriority(1)` (a panic leaves the state; shown impossible on well-formed sets) -/
def incOne (s : VSet) : VSet :=
  match opInc 1 s with
  | .ok s' => s'
  | .error _ => s

/-- the set `h` heights after `s0` -/
def stateAt (s0 : VSet) (h : Nat) : VSet := iter incOne h s0

/-- the proposer of height `h` (height 0 = the set as built by `NewValidatorSet`) -/
def proposerAt (s0 : VSet) (h : Nat) : Option Nat := (stateAt s0 h).proposer

/-- number of `i ∈ [j, j+n)` with `f i = a` -/
def countIn (f : Nat → Option Nat) (a : Option Nat) (j : Nat) : Nat → Nat
  | 0 => 0
  | n + 1 => countIn f a j n + (if f (j + n) = a then 1 else 0)

/-- all priorities within `B` of each other -/
def SpreadLe (vs : List Val) (B : Int) : Prop :=
  ∀ u ∈ vs, ∀ w ∈ vs, u.prio - w.prio ≤ B

instance (vs : List Val) (B : Int) : Decidable (SpreadLe vs B) := by
  unfold SpreadLe; infer_instance

/-- strictly sorted by address (hence duplicate-free) -/
def SortedAddr (vs : List Val) : Prop := vs.Pairwise (fun a b => a.addr < b.addr)

/-- The structural invariant of a validator set: strictly sorted by address, every power
positive, cached total = Σ powers ≤ MaxTotalVotingPower. -/
structure WF (s : VSet) : Prop where
  sorted : SortedAddr s.vals
  pos : ∀ v ∈ s.vals, 1 ≤ v.power
  total_eq : s.total = sumPower s.vals
  total_le : s.total ≤ maxTotal

/-- every priority lies in `[-B, B]` -/
def PrioBound (vs : List Val) (B : Int) : Prop := ∀ v ∈ vs, -B ≤ v.prio ∧ v.prio ≤ B

/-- `UpdateWithChangeSet` as a state transformer: an error leaves the receiver as it was -/
def applyUpdate (s : VSet) (ch : List Val) : VSet :=
  match update s ch with
  | .ok s' => s'
  | .error _ => s

/-- States reachable from `NewValidatorSet` by accepted `UpdateWithChangeSet` calls and by
`IncrementProposerPriority(times)` calls whose `times` satisfies `allowed`. -/
inductive Reach (allowed : Int → Prop) : VSet → Prop
  | new {valz : List Val} {s : VSet} : newSet valz = .ok s → Reach allowed s
  | update {s s' : VSet} {ch : List Val} : Reach allowed s → update s ch = .ok s' → Reach allowed s'
  | inc {s s' : VSet} {times : Int} : Reach allowed s → allowed times → opInc times s = .ok s' →
      Reach allowed s'

/-- observations along `n` iterations, in one pass -/
def trace {σ β : Type} (f : σ → σ) (obs : σ → β) : Nat → σ → List β
  | 0, _ => []
  | n + 1, s => obs s :: trace f obs n (f s)

def cnt (a : Option Nat) : List (Option Nat) → Nat
  | [] => 0
  | x :: xs => (if x = a then 1 else 0) + cnt a xs

end GnoVerif.C37
