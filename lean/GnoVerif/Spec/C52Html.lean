import GnoVerif.Model.C52
/-!
# C52 — what "executable web content" means for a served byte string (browser side)

Independent of gnoweb's code: a byte-level HTML tokenizer following the WHATWG
tokenizer states (§13.2.5: data, tag open, tag name, attribute name / value
(double-, single-, un-quoted), comments, bogus comments, and the raw-text /
RCDATA elements `script style textarea title xmp iframe noembed noframes noscript
plaintext`), the WHATWG URL pre-processing (strip leading / trailing C0-control-or-space,
remove every tab / LF / CR, ASCII-case-insensitive scheme), character-reference
decoding in attribute values, and on top of them the predicate `safeHTML`:

* no element named `script` (nor the other element kinds that load or run foreign
  content: `iframe object embed applet frame frameset base meta link style`),
* no attribute whose name starts with `on`,
* no URL-carrying attribute whose decoded value has a script-capable scheme
  (`javascript:`, `vbscript:`, `data:` other than the five image types
  `data:image/{png,gif,jpeg,webp,svg+xml};`).

The tokenizer is validated on every run against `golang.org/x/net/html` on the HTML
the real renderer produced (driver op `md`); it is a per-byte state machine
(`step`), so "this escaped text cannot open a tag / leave its attribute" is a
statement about `step` (Props/C52.lean).

Not modelled: legacy named references without `;` (none of them yields an ASCII
letter, `:`, tab or newline, so they cannot create or hide a scheme), the
windows-1252 remapping of `&#128;`–`&#159;`, the script-data escaped states.
-/
namespace GnoVerif.C52

/-! ## tokenizer -/

inductive St
  | data | tagOpen | endTagOpen | tagName | beforeAttrName | attrName | afterAttrName
  | beforeAttrValue | attrDQ | attrSQ | attrUQ | afterAttrValueQ | selfClosing
  | bogusComment | markupDecl | markupDeclDash
  | commentStart | commentStartDash | comment | commentEndDash | commentEnd | commentEndBang
  | rawText | rawLt | rawEndOpen
  deriving DecidableEq, Repr, Inhabited

structure Tag where
  name : Bytes
  closing : Bool
  attrs : List (Bytes × Bytes)
  deriving DecidableEq, Repr, Inhabited

/-- Tokenizer state.  Accumulators are kept reversed. -/
structure Tok where
  st : St := .data
  closing : Bool := false
  name : Bytes := []
  attrs : List (Bytes × Bytes) := []
  hasCur : Bool := false
  an : Bytes := []
  av : Bytes := []
  rawName : Bytes := []
  rawBuf : Bytes := []
  out : List Tag := []
  deriving DecidableEq, Repr, Inhabited

def isWs (c : Nat) : Bool := c = 32 || c = 10 || c = 13 || c = 9 || c = 12

def rawTextElems : List Bytes :=
  [B!"script", B!"style", B!"textarea", B!"title", B!"xmp", B!"iframe", B!"noembed", B!"noframes",
   B!"noscript", B!"plaintext"]

/-- close the attribute being read (a repeated name is dropped, as browsers do) -/
def finishAttr (t : Tok) : Tok :=
  if t.hasCur then
    let k := t.an.reverse
    let attrs := if k.isEmpty || t.attrs.any (fun a => a.1 == k) then t.attrs else (k, t.av.reverse) :: t.attrs
    { t with attrs := attrs, hasCur := false, an := [], av := [] }
  else t

/-- emit the tag being read; a start tag of a raw-text element switches to raw text -/
def emitTag (t : Tok) : Tok :=
  let t := finishAttr t
  let nm := t.name.reverse
  let tag : Tag := { name := nm, closing := t.closing, attrs := t.attrs.reverse }
  let raw := !t.closing && rawTextElems.contains nm
  { t with st := if raw then .rawText else .data, out := tag :: t.out,
           rawName := if raw then nm else [], rawBuf := [],
           closing := false, name := [], attrs := [] }

def startAttr (t : Tok) (c : Nat) : Tok :=
  let t := finishAttr t
  { t with st := .attrName, hasCur := true, an := [lowerB c], av := [] }

/-- after-attribute-name state -/
def stepAfterAttrName (t : Tok) (c : Nat) : Tok :=
  if isWs c then { t with st := .afterAttrName }
  else if c = 47 then { t with st := .selfClosing }
  else if c = 61 then { t with st := .beforeAttrValue }
  else if c = 62 then emitTag t
  else startAttr t c

/-- before-attribute-name state -/
def stepBeforeAttrName (t : Tok) (c : Nat) : Tok :=
  if isWs c then { t with st := .beforeAttrName }
  else if c = 47 ∨ c = 62 then stepAfterAttrName (finishAttr t) c
  else startAttr t c

def stepData (t : Tok) (c : Nat) : Tok :=
  if c = 60 then { t with st := .tagOpen } else { t with st := .data }

def stepBogus (t : Tok) (c : Nat) : Tok :=
  if c = 62 then { t with st := .data } else { t with st := .bogusComment }

def stepComment (t : Tok) (c : Nat) : Tok :=
  if c = 45 then { t with st := .commentEndDash } else { t with st := .comment }

def stepRawText (t : Tok) (c : Nat) : Tok :=
  if c = 60 ∧ t.rawName ≠ B!"plaintext" then { t with st := .rawLt, rawBuf := [] }
  else { t with st := .rawText, rawBuf := [] }

/-- one input byte -/
def step (t : Tok) (c : Nat) : Tok :=
  match t.st with
  | .data => stepData t c
  | .tagOpen =>
    if c = 33 then { t with st := .markupDecl }
    else if c = 47 then { t with st := .endTagOpen }
    else if isAlpha c then { t with st := .tagName, closing := false, name := [lowerB c], attrs := [], hasCur := false, an := [], av := [] }
    else if c = 63 then { t with st := .bogusComment }
    else stepData t c
  | .endTagOpen =>
    if isAlpha c then { t with st := .tagName, closing := true, name := [lowerB c], attrs := [], hasCur := false, an := [], av := [] }
    else if c = 62 then { t with st := .data }
    else { t with st := .bogusComment }
  | .tagName =>
    if isWs c then { t with st := .beforeAttrName }
    else if c = 47 then { t with st := .selfClosing }
    else if c = 62 then emitTag t
    else { t with name := lowerB c :: t.name }
  | .beforeAttrName => stepBeforeAttrName t c
  | .attrName =>
    if isWs c ∨ c = 47 ∨ c = 62 then stepAfterAttrName t c
    else if c = 61 then { t with st := .beforeAttrValue }
    else { t with an := lowerB c :: t.an }
  | .afterAttrName => stepAfterAttrName t c
  | .beforeAttrValue =>
    if isWs c then t
    else if c = 34 then { t with st := .attrDQ }
    else if c = 39 then { t with st := .attrSQ }
    else if c = 62 then emitTag t
    else { t with st := .attrUQ, av := c :: t.av }
  | .attrDQ => if c = 34 then { t with st := .afterAttrValueQ } else { t with av := c :: t.av }
  | .attrSQ => if c = 39 then { t with st := .afterAttrValueQ } else { t with av := c :: t.av }
  | .attrUQ =>
    if isWs c then { t with st := .beforeAttrName }
    else if c = 62 then emitTag t
    else { t with av := c :: t.av }
  | .afterAttrValueQ =>
    if isWs c then { t with st := .beforeAttrName }
    else if c = 47 then { t with st := .selfClosing }
    else if c = 62 then emitTag t
    else stepBeforeAttrName t c
  | .selfClosing =>
    if c = 62 then emitTag t else stepBeforeAttrName t c
  | .bogusComment => stepBogus t c
  | .markupDecl =>
    if c = 45 then { t with st := .markupDeclDash } else stepBogus t c
  | .markupDeclDash =>
    if c = 45 then { t with st := .commentStart } else stepBogus t c
  | .commentStart =>
    if c = 45 then { t with st := .commentStartDash }
    else if c = 62 then { t with st := .data }
    else stepComment t c
  | .commentStartDash =>
    if c = 45 then { t with st := .commentEnd }
    else if c = 62 then { t with st := .data }
    else { t with st := .comment }
  | .comment => stepComment t c
  | .commentEndDash =>
    if c = 45 then { t with st := .commentEnd } else { t with st := .comment }
  | .commentEnd =>
    if c = 62 then { t with st := .data }
    else if c = 33 then { t with st := .commentEndBang }
    else if c = 45 then t
    else { t with st := .comment }
  | .commentEndBang =>
    if c = 45 then { t with st := .commentEndDash }
    else if c = 62 then { t with st := .data }
    else { t with st := .comment }
  | .rawText => stepRawText t c
  | .rawLt =>
    if c = 47 then { t with st := .rawEndOpen, rawBuf := [] } else stepRawText t c
  | .rawEndOpen =>
    if isAlpha c then { t with rawBuf := lowerB c :: t.rawBuf }
    else if (isWs c ∨ c = 47 ∨ c = 62) ∧ t.rawBuf.reverse = t.rawName then
      let t' := { t with closing := true, name := t.rawBuf, attrs := [], hasCur := false, an := [], av := [],
                         rawBuf := [] }
      if c = 62 then emitTag t'
      else if c = 47 then { t' with st := .selfClosing }
      else { t' with st := .beforeAttrName }
    else stepRawText t c

def run (t : Tok) (bs : Bytes) : Tok := bs.foldl step t

/-- the tags of a document, in order -/
def tokenize (bs : Bytes) : List Tag := (run {} bs).out.reverse

/-- the tokenizer is inside a `<!-- … -->` comment -/
def inComment (s : St) : Prop :=
  s = .commentStart ∨ s = .commentStartDash ∨ s = .comment ∨ s = .commentEndDash ∨ s = .commentEnd ∨
  s = .commentEndBang

/-! ## character references in attribute values -/

/-- numeric references with or without `;`, named references with `;` (via `lk`). -/
def decodeRefsAux (lk : Lookup) : Nat → Bytes → Bytes
  | 0, s => s
  | _ + 1, [] => []
  | f + 1, c :: rest =>
    if c = 38 then
      match rest with
      | 35 :: nc :: rest2 =>
        if nc = 120 ∨ nc = 88 then
          match spanP isHex rest2 with
          | (d :: ds, after) =>
            encodeRune (toValidRune (parseHex32 (d :: ds))) ++
              decodeRefsAux lk f (match after with | 59 :: a => a | a => a)
          | _ => c :: decodeRefsAux lk f rest
        else if isDigit nc = true then
          match spanP isDigit (nc :: rest2) with
          | (ds, after) =>
            let v := ds.foldl (fun a d => if a > 1114111 then a else a * 10 + (d - 48)) 0
            encodeRune (toValidRune v) ++ decodeRefsAux lk f (match after with | 59 :: a => a | a => a)
        else c :: decodeRefsAux lk f rest
      | 35 :: _ => c :: decodeRefsAux lk f rest
      | _ =>
        match spanP isAlnum rest with
        | (n :: ns, 59 :: after) =>
          match lk (n :: ns) with
          | some chars => chars ++ decodeRefsAux lk f after
          | none => c :: decodeRefsAux lk f rest
        | _ => c :: decodeRefsAux lk f rest
    else c :: decodeRefsAux lk f rest

def decodeRefs (lk : Lookup) (s : Bytes) : Bytes := decodeRefsAux lk (s.length + 1) s

/-! ## URLs as a browser reads them -/

def isC0Space (c : Nat) : Bool := decide (c ≤ 32)
def isTabNl (c : Nat) : Bool := c = 9 || c = 10 || c = 13

/-- remove the trailing C0-control-or-space bytes -/
def dropTrailingC0 : Bytes → Bytes
  | [] => []
  | c :: r =>
    let r' := dropTrailingC0 r
    if r'.isEmpty && isC0Space c then [] else c :: r'

/-- WHATWG URL parser pre-processing: strip leading and trailing C0-control-or-space, then
    remove every ASCII tab or newline -/
def stripURL (u : Bytes) : Bytes :=
  (dropTrailingC0 (u.dropWhile isC0Space)).filter (fun c => !isTabNl c)

def schemeChar (c : Nat) : Bool := isAlnum c || c = 43 || c = 45 || c = 46

/-- the scheme characters up to the first `:` (none if something else comes first) -/
def schemeTail : Bytes → Option Bytes
  | [] => none
  | c :: r =>
    if c = 58 then some []
    else if schemeChar c then (schemeTail r).map (c :: ·)
    else none

/-- the (lower-cased) scheme of an already pre-processed URL: `alpha (alnum | + | - | .)* ':'` -/
def urlScheme (u : Bytes) : Option Bytes :=
  match u with
  | [] => none
  | c :: rest =>
    if isAlpha c then (schemeTail rest).map (fun s => (c :: s).map lowerB) else none

/-- the `data:` URL prefixes that are NOT counted as script-capable: the five image types -/
def dataImagePrefixes : List Bytes :=
  [B!"data:image/png;", B!"data:image/gif;", B!"data:image/jpeg;", B!"data:image/webp;",
   B!"data:image/svg+xml;"]

def allowedDataImage (u : Bytes) : Bool :=
  dataImagePrefixes.any (fun w => w.isPrefixOf (u.map lowerB))

/-- verdict on an already pre-processed URL -/
def schemeVerdict (n : Bytes) : Bool :=
  match urlScheme n with
  | some s => s == B!"javascript" || s == B!"vbscript" || (s == B!"data" && !allowedDataImage n)
  | none => false

/-- the URL, as the browser reads it, runs script (or arbitrary content) when followed / loaded -/
def scriptCapable (u : Bytes) : Bool := schemeVerdict (stripURL u)

/-! ## what an escaped text looks like -/

/-- every `&` of `s` is immediately followed by one of `tails` -/
def ampOK (tails : List Bytes) : Bytes → Bool
  | [] => true
  | c :: rest => (c != 38 || tails.any (fun t => t.isPrefixOf rest)) && ampOK tails rest

/-- the entity bodies the two Go escapers (`template.HTMLEscapeString`, `html.EscapeString`) produce -/
def goTails : List Bytes := [B!"amp;", B!"lt;", B!"gt;", B!"#34;", B!"#39;"]
/-- the entity bodies goldmark's `util.EscapeHTML` produces -/
def gmTails : List Bytes := [B!"amp;", B!"lt;", B!"gt;", B!"quot;"]

/-- what a browser shows for a NUL byte the escapers replaced: U+FFFD -/
def nulFix (s : Bytes) : Bytes := s.flatMap fun c => if c = 0 then [239, 191, 189] else [c]

/-- an entity lookup that knows at least the four names the escapers emit -/
def KnowsBasic (lk : Lookup) : Prop :=
  lk (B!"amp") = some [38] ∧ lk (B!"lt") = some [60] ∧ lk (B!"gt") = some [62] ∧ lk (B!"quot") = some [34]

/-! ## the safety predicate -/

def forbiddenTags : List Bytes :=
  [B!"script", B!"iframe", B!"object", B!"embed", B!"applet", B!"frame", B!"frameset", B!"base",
   B!"meta", B!"link", B!"style"]

def urlAttrs : List Bytes :=
  [B!"href", B!"src", B!"action", B!"formaction", B!"xlink:href", B!"data", B!"poster", B!"background",
   B!"cite", B!"longdesc", B!"codebase", B!"manifest", B!"ping"]

def isEventAttr (k : Bytes) : Bool :=
  match k with
  | 111 :: 110 :: _ :: _ => true
  | _ => false

/-- first problem of one attribute: 2 = event handler, 3 = script-capable URL, 0 = none -/
def attrProblem (lk : Lookup) (a : Bytes × Bytes) : Nat :=
  if isEventAttr a.1 then 2
  else if urlAttrs.contains a.1 && scriptCapable (decodeRefs lk a.2) then 3
  else 0

/-- first problem of one tag: 1 = forbidden element, else the first attribute problem -/
def tagProblem (lk : Lookup) (t : Tag) : Nat :=
  if !t.closing && forbiddenTags.contains t.name then 1
  else if t.closing then 0
  else (t.attrs.map (attrProblem lk)).foldr (fun p acc => if p ≠ 0 then p else acc) 0

def firstProblem (lk : Lookup) (ts : List Tag) : Nat :=
  (ts.map (tagProblem lk)).foldr (fun p acc => if p ≠ 0 then p else acc) 0

/-- the served bytes contain no script element, no event-handler attribute and no
    script-capable URL -/
def safeHTML (lk : Lookup) (bs : Bytes) : Bool := firstProblem lk (tokenize bs) == 0

end GnoVerif.C52
