import GnoVerif.Spec.C52Html
import GnoVerif.Gen.C52Flow
/-!
# C52 — every dynamic piece gnoweb's renderers write sits in a context it cannot leave

`Gen/C52Flow.lean` (regenerated from gnoweb/markdown/*.go by `gvx c52flow`) holds every
renderer function that writes HTML as an abstract program: its output writes — constant
text with holes (`escT`, `escG`: escaped data, `num`: an integer, `sub`: a nested renderer) —
in their control-flow structure with the conditions abstracted away.

`flowOK` interprets these programs over SETS of tokenizer states: each root (goldmark node
renderer) starts in the data state; every write is run on the tokenizer; each hole must be
reached in a context `clean_text_stays_in_context` covers — text, a double-quoted (for
`escT`/`num` also single-quoted) attribute value, a comment, `<textarea>` — a nested renderer
must start in the data state, and every root must return to the data state (which is what
justifies the assumption for the next renderer).  Only the control-relevant part of a
tokenizer state is kept (`norm`): accumulated attribute names / values and emitted tags
never influence a transition (`step_app` proves this for the emitted tags).
-/
namespace GnoVerif.C52
open GnoVerif.Gen.C52Flow (Piece Prog)

/-- the part of a tokenizer state that decides what it does next -/
def norm (t : Tok) : Tok :=
  { st := t.st, closing := t.closing, name := t.name, rawName := t.rawName, rawBuf := t.rawBuf }

def commentStates : List St :=
  [.commentStart, .commentStartDash, .comment, .commentEndDash, .commentEnd, .commentEndBang]

/-- a context that text without `<`, `>`, `"` (and without `'` unless `mayHaveSingleQuote`) cannot leave -/
def stableFor (mayHaveSingleQuote : Bool) (t : Tok) : Bool :=
  t.st == .data || t.st == .attrDQ || (!mayHaveSingleQuote && t.st == .attrSQ) ||
  commentStates.contains t.st || (t.st == .rawText && t.rawBuf.isEmpty)

/-- the states possible after such a text (inside a comment the dash-counting sub-state may differ) -/
def afterHole (t : Tok) : List Tok :=
  if commentStates.contains t.st then commentStates.map (fun s => { t with st := s }) else [t]

def addNew (acc : List Tok) (ts : List Tok) : List Tok :=
  ts.foldl (fun a t => if a.contains t then a else a ++ [t]) acc

/-- run the pieces of one write from a set of states; `none` = a hole in a context it could leave -/
def runPieces : List Tok → List Piece → Option (List Tok)
  | ts, [] => some ts
  | ts, .lit b :: ps => runPieces (addNew [] (ts.map (fun t => norm (run t b)))) ps
  | ts, .escT :: ps => if ts.all (stableFor false) then runPieces (addNew [] (ts.flatMap afterHole)) ps else none
  | ts, .num :: ps => if ts.all (stableFor false) then runPieces (addNew [] (ts.flatMap afterHole)) ps else none
  | ts, .escG :: ps => if ts.all (stableFor true) then runPieces (addNew [] (ts.flatMap afterHole)) ps else none
  | ts, .sub :: ps => if ts.all (fun t => t.st == .data) then runPieces ts ps else none

/-- result of interpreting a program fragment from a set of states -/
structure Res where
  ok : Bool := true
  norm : List Tok := []   -- falls through
  ret : List Tok := []    -- left by `return`
  cont : List Tok := []   -- left by `continue`
  brk : List Tok := []    -- left by `break`

def Res.fail : Res := { ok := false }

def Res.merge (a b : Res) : Res :=
  { ok := a.ok && b.ok, norm := addNew a.norm b.norm, ret := addNew a.ret b.ret,
    cont := addNew a.cont b.cont, brk := addNew a.brk b.brk }

/-- iterate a loop body until no new state shows up -/
def iterLoop (body : List Tok → Res) : Nat → List Tok → List Tok → Res → Res
  | 0, seen, frontier, acc => { acc with ok := acc.ok && frontier.isEmpty, norm := seen }
  | _ + 1, seen, [], acc => { acc with norm := seen }
  | k + 1, seen, frontier, acc =>
    let r := body frontier
    let back := addNew r.norm r.cont
    let new := back.filter (fun t => !seen.contains t)
    iterLoop body k (seen ++ new) new
      { ok := acc.ok && r.ok, ret := addNew acc.ret r.ret, brk := addNew acc.brk r.brk }

def lookupFn (funcs : List (String × Prog)) (n : String) : Option Prog :=
  (funcs.find? (fun p => p.1 == n)).map (·.2)

def eval (funcs : List (String × Prog)) : Nat → Prog → List Tok → Res
  | 0, _, _ => Res.fail
  | _ + 1, .write alts, S =>
    alts.foldl (fun acc alt =>
      match runPieces S alt with
      | some r => { acc with norm := addNew acc.norm r }
      | none => { acc with ok := false }) {}
  | _ + 1, .seq [], S => { norm := S }
  | f + 1, .seq (p :: ps), S =>
    let r1 := eval funcs f p S
    if !r1.ok then Res.fail else
    let r2 := eval funcs f (.seq ps) r1.norm
    { ok := r2.ok, norm := r2.norm, ret := addNew r1.ret r2.ret, cont := addNew r1.cont r2.cont,
      brk := addNew r1.brk r2.brk }
  | f + 1, .choice ps, S => ps.foldl (fun acc p => acc.merge (eval funcs f p S)) {}
  | f + 1, .loop body, S =>
    let r := iterLoop (fun X => eval funcs f body X) 32 S S {}
    { ok := r.ok, norm := addNew r.norm r.brk, ret := r.ret }
  | f + 1, .call n, S =>
    match lookupFn funcs n with
    | some body =>
      let r := eval funcs f body S
      { ok := r.ok && r.cont.isEmpty && r.brk.isEmpty, norm := addNew r.norm r.ret }
    | none => Res.fail
  | _ + 1, .ret, S => { ret := S }
  | _ + 1, .cont, S => { cont := S }
  | _ + 1, .brk, S => { brk := S }

/-- every root, entered in the data state, writes every hole in a stable context and returns to
    the data state -/
def flowOK (funcs : List (String × Prog)) (roots : List String) : Bool :=
  roots.all fun r =>
    match lookupFn funcs r with
    | some body =>
      let res := eval funcs 64 body [norm {}]
      res.ok && res.cont.isEmpty && res.brk.isEmpty && (addNew res.norm res.ret).all (fun t => t == norm {})
    | none => false

end GnoVerif.C52
