/-
Spec.OMap — the reference ordered map (DESIGN.md §6).

An ordered map from byte-string keys to values is a *strictly sorted
association list* `List (Bytes × α)` (keys ascending in Go's `bytes.Compare`
order).  `OMap = OMapOf Bytes` is the key/value store spec; other value types
are used for auxiliary maps (e.g. a cache's entry table).

Operations: `get`, `set`, `del`, `range` (ascending | descending, optional
inclusive start / exclusive end, as `db.IsKeyInDomain`).  Every operation is
the simplest possible definition (plain lookup, sorted insert, filter), so the
spec can be read at a glance; the lemmas below are what refinements use:
get-after-set / get-after-del, sortedness preserved, extensionality of sorted
maps, `range` = filter of the sorted list (by definition) and its membership /
sortedness facts.

Core-only (links into `lean_exe` drivers).  Property-neutral.
-/
import GnoVerif.Base.Lex

namespace GnoVerif

abbrev OMapOf (α : Type) := List (Bytes × α)
abbrev OMap := OMapOf Bytes

namespace OMap
variable {α : Type}

/-- strictly ascending keys. -/
def Sorted (m : OMapOf α) : Prop := m.Pairwise (fun a b => a.1 < b.1)

/-- plain lookup. -/
def get : OMapOf α → Bytes → Option α
  | [], _ => none
  | (k', v) :: m, k => if k' = k then some v else get m k

/-- sorted insert / replace. -/
def set : OMapOf α → Bytes → α → OMapOf α
  | [], k, v => [(k, v)]
  | (k', v') :: m, k, v =>
    if k < k' then (k, v) :: (k', v') :: m
    else if k = k' then (k, v) :: m
    else (k', v') :: set m k v

/-- remove a key. -/
def del (m : OMapOf α) (k : Bytes) : OMapOf α := m.filter (fun p => p.1 ≠ k)

def keys (m : OMapOf α) : List Bytes := m.map (·.1)

/-- the entries whose key lies in `[s, e)` (nil start = from the beginning,
nil end = unbounded), ascending or descending. -/
def range (m : OMapOf α) (s e : Option Bytes) (asc : Bool) : List (Bytes × α) :=
  let r := m.filter (fun p => Lex.inDomain p.1 s e)
  if asc then r else r.reverse

/-! ### get -/

@[simp] theorem get_nil (k : Bytes) : get ([] : OMapOf α) k = none := rfl

theorem get_cons (k' : Bytes) (v : α) (m : OMapOf α) (k : Bytes) :
    get ((k', v) :: m) k = if k' = k then some v else get m k := rfl

theorem get_eq_none_iff {m : OMapOf α} {k : Bytes} : get m k = none ↔ ∀ p ∈ m, p.1 ≠ k := by
  induction m with
  | nil => simp
  | cons p m ih =>
    obtain ⟨k', v⟩ := p
    rw [get_cons]
    by_cases h : k' = k <;> simp [h, ih]

theorem mem_of_get {m : OMapOf α} {k : Bytes} {v : α} (h : get m k = some v) : (k, v) ∈ m := by
  induction m with
  | nil => simp at h
  | cons p m ih =>
    obtain ⟨k', v'⟩ := p
    rw [get_cons] at h
    by_cases hk : k' = k
    · simp [hk] at h; subst hk; subst h; simp
    · simp [hk] at h; exact List.mem_cons_of_mem _ (ih h)

theorem get_of_mem {m : OMapOf α} (hs : Sorted m) {k : Bytes} {v : α} (h : (k, v) ∈ m) :
    get m k = some v := by
  induction m with
  | nil => simp at h
  | cons p m ih =>
    obtain ⟨k', v'⟩ := p
    rw [get_cons]
    have hs' := List.pairwise_cons.1 hs
    rcases List.mem_cons.1 h with h | h
    · cases h; simp
    · have : k' < k := hs'.1 _ h
      have : k' ≠ k := Lex.ne_of_lt this
      simp [this, ih hs'.2 h]

theorem mem_iff_get {m : OMapOf α} (hs : Sorted m) {k : Bytes} {v : α} :
    (k, v) ∈ m ↔ get m k = some v := ⟨get_of_mem hs, mem_of_get⟩

theorem get_eq_none_of_lt {m : OMapOf α} {k : Bytes} (h : ∀ p ∈ m, k < p.1) : get m k = none := by
  rw [get_eq_none_iff]; intro p hp heq; exact Lex.lt_irrefl k (heq ▸ h p hp)

/-! ### set -/

theorem get_set (m : OMapOf α) (k : Bytes) (v : α) (k' : Bytes) :
    get (set m k v) k' = if k = k' then some v else get m k' := by
  induction m with
  | nil => simp [set, get_cons]
  | cons p m ih =>
    obtain ⟨k0, v0⟩ := p
    simp only [set]
    split
    · simp [get_cons]
    · split
      · rename_i h; subst h; by_cases hk : k = k' <;> simp [get_cons, hk]
      · rename_i h1 h2
        rw [get_cons, ih, get_cons]
        by_cases hk : k = k'
        · subst hk
          have : k0 ≠ k := fun h => h2 h.symm
          simp [this]
        · simp [hk]

theorem mem_set {m : OMapOf α} {k : Bytes} {v : α} {p : Bytes × α} (h : p ∈ set m k v) :
    p = (k, v) ∨ p ∈ m := by
  induction m with
  | nil => simp [set] at h; exact Or.inl h
  | cons q m ih =>
    obtain ⟨k0, v0⟩ := q
    simp only [set] at h
    split at h
    · simpa using h
    · split at h
      · rcases List.mem_cons.1 h with h | h
        · exact Or.inl h
        · exact Or.inr (List.mem_cons_of_mem _ h)
      · rcases List.mem_cons.1 h with h | h
        · exact Or.inr (by simp [h])
        · rcases ih h with h | h
          · exact Or.inl h
          · exact Or.inr (List.mem_cons_of_mem _ h)

theorem sorted_set {m : OMapOf α} (hs : Sorted m) (k : Bytes) (v : α) : Sorted (set m k v) := by
  induction m with
  | nil => simp [set, Sorted]
  | cons q m ih =>
    obtain ⟨k0, v0⟩ := q
    have hs' := List.pairwise_cons.1 hs
    simp only [set]
    split
    · rename_i h
      apply List.pairwise_cons.2
      refine ⟨?_, hs⟩
      intro p hp
      rcases List.mem_cons.1 hp with hp | hp
      · subst hp; exact h
      · exact Lex.lt_trans h (hs'.1 p hp)
    · split
      · rename_i h1 h2; subst h2
        exact List.pairwise_cons.2 ⟨hs'.1, hs'.2⟩
      · rename_i h1 h2
        apply List.pairwise_cons.2
        refine ⟨?_, ih hs'.2⟩
        intro p hp
        rcases mem_set hp with hp | hp
        · subst hp
          rcases Lex.lt_trichotomy k k0 with h | h | h
          · exact absurd h h1
          · exact absurd h h2
          · exact h
        · exact hs'.1 p hp

/-! ### del -/

theorem get_del (m : OMapOf α) (k k' : Bytes) :
    get (del m k) k' = if k = k' then none else get m k' := by
  induction m with
  | nil => simp [del]
  | cons p m ih =>
    obtain ⟨k0, v0⟩ := p
    simp only [del] at ih ⊢
    rw [List.filter_cons]
    by_cases h0 : k0 = k
    · subst h0
      simp only [ne_eq, not_true_eq_false, decide_false, Bool.false_eq_true, if_false]
      rw [ih, get_cons]
      by_cases hk : k0 = k' <;> simp [hk]
    · simp only [ne_eq, h0, not_false_eq_true, decide_true, if_true]
      rw [get_cons, ih, get_cons]
      by_cases hk : k = k'
      · subst hk; simp [h0]
      · simp [hk]

theorem sorted_del {m : OMapOf α} (hs : Sorted m) (k : Bytes) : Sorted (del m k) :=
  List.Pairwise.filter _ hs

theorem mem_del {m : OMapOf α} {k : Bytes} {p : Bytes × α} : p ∈ del m k ↔ p ∈ m ∧ p.1 ≠ k := by
  simp [del]

/-! ### extensionality -/

/-- two lists that are both pairwise-ordered by the same strict order on keys and
have the same elements are equal (used for ascending and descending listings). -/
theorem eq_of_pairwise_of_mem_iff {β : Type} {r : β → β → Prop}
    (irrefl : ∀ a, ¬ r a a) (asymm : ∀ a b, r a b → ¬ r b a)
    {l₁ l₂ : List β} (h₁ : l₁.Pairwise r) (h₂ : l₂.Pairwise r)
    (h : ∀ x, x ∈ l₁ ↔ x ∈ l₂) : l₁ = l₂ := by
  induction l₁ generalizing l₂ with
  | nil =>
    cases l₂ with
    | nil => rfl
    | cons b l₂ => exact absurd ((h b).2 (by simp)) (by simp)
  | cons a l₁ ih =>
    cases l₂ with
    | nil => exact absurd ((h a).1 (by simp)) (by simp)
    | cons b l₂ =>
      have p₁ := List.pairwise_cons.1 h₁
      have p₂ := List.pairwise_cons.1 h₂
      have hab : a = b := by
        have ha : a ∈ b :: l₂ := (h a).1 (by simp)
        have hb : b ∈ a :: l₁ := (h b).2 (by simp)
        rcases List.mem_cons.1 ha with ha | ha
        · exact ha
        · rcases List.mem_cons.1 hb with hb | hb
          · exact hb.symm
          · exact absurd (p₁.1 b hb) (asymm _ _ (p₂.1 a ha))
      subst hab
      congr 1
      apply ih p₁.2 p₂.2
      intro x
      constructor
      · intro hx
        have : x ∈ a :: l₂ := (h x).1 (List.mem_cons_of_mem _ hx)
        rcases List.mem_cons.1 this with e | e
        · subst e; exact absurd (p₁.1 x hx) (irrefl x)
        · exact e
      · intro hx
        have : x ∈ a :: l₁ := (h x).2 (List.mem_cons_of_mem _ hx)
        rcases List.mem_cons.1 this with e | e
        · subst e; exact absurd (p₂.1 x hx) (irrefl x)
        · exact e

/-- sorted maps are determined by their lookups. -/
theorem ext {a b : OMapOf α} (ha : Sorted a) (hb : Sorted b)
    (h : ∀ k, get a k = get b k) : a = b := by
  apply eq_of_pairwise_of_mem_iff (r := fun x y : Bytes × α => x.1 < y.1)
    (fun x => Lex.lt_irrefl x.1) (fun x y => Lex.lt_asymm) ha hb
  intro ⟨k, v⟩
  rw [mem_iff_get ha, mem_iff_get hb, h]

/-! ### filter / range -/

theorem sorted_filter {m : OMapOf α} (hs : Sorted m) (f : Bytes × α → Bool) : Sorted (m.filter f) :=
  List.Pairwise.filter _ hs

theorem get_filter_key {m : OMapOf α} (f : Bytes → Bool) (k : Bytes) :
    get (m.filter (fun p => f p.1)) k = if f k then get m k else none := by
  induction m with
  | nil => simp
  | cons p m ih =>
    obtain ⟨k0, v0⟩ := p
    rw [List.filter_cons]
    by_cases h0 : f k0 = true
    · simp only [h0, if_true]
      rw [get_cons, ih, get_cons]
      by_cases hk : k0 = k
      · subst hk; simp [h0]
      · simp [hk]
    · simp only [h0, Bool.false_eq_true, if_false]
      rw [ih, get_cons]
      by_cases hk : k0 = k
      · subst hk; simp [h0]
      · simp [hk]

/-- `range` is the filter of the sorted list (ascending), reversed for descending. -/
theorem range_asc (m : OMapOf α) (s e : Option Bytes) :
    range m s e true = m.filter (fun p => Lex.inDomain p.1 s e) := rfl

theorem range_desc (m : OMapOf α) (s e : Option Bytes) :
    range m s e false = (range m s e true).reverse := rfl

theorem mem_range {m : OMapOf α} {s e : Option Bytes} {asc : Bool} {p : Bytes × α} :
    p ∈ range m s e asc ↔ p ∈ m ∧ Lex.inDomain p.1 s e = true := by
  cases asc <;> simp [range]

theorem sorted_range_asc {m : OMapOf α} (hs : Sorted m) (s e : Option Bytes) :
    Sorted (range m s e true) := sorted_filter hs _

theorem range_desc_pairwise {m : OMapOf α} (hs : Sorted m) (s e : Option Bytes) :
    (range m s e false).Pairwise (fun a b => b.1 < a.1) := by
  rw [range_desc, List.pairwise_reverse]
  exact sorted_range_asc hs s e

theorem get_range_asc (m : OMapOf α) (s e : Option Bytes) (k : Bytes) :
    get (range m s e true) k = if Lex.inDomain k s e then get m k else none :=
  get_filter_key (fun k => Lex.inDomain k s e) k

/-- a nil start and an empty start give the same range. -/
theorem range_none_start (m : OMapOf α) (e : Option Bytes) (asc : Bool) :
    range m none e asc = range m (some []) e asc := by
  simp only [range, Lex.inDomain_none_start]

end OMap
end GnoVerif
