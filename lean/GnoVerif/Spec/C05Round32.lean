import GnoVerif.Spec.C05
/-! Spec vocabulary for C05, binary32 rounding on integers (twin of `packSpecL` / `roundInt64`). Core-only. -/
namespace GnoVerif.C05

/-- `fpack32` specification on a mantissa of bit length `L ≥ 24`, value `(m + ε)·2^(e−23)`:
round to nearest-even to 24 bits (overflow to Inf) or at the fixed quantum 2^−149. See `packSpecL`. -/
def packSpecL32 (L : Nat) (m : Nat) (e : Int) (st : Bool) : Nat :=
  let Eu : Int := e + ((L : Int) - 24)
  if -126 ≤ Eu then min ((Eu + 126).toNat * 2^23 + rneShift m (L - 24) st) (255 * 2^23)
  else rneShift m (-126 - e).toNat st

def packSpec32 (m : Nat) (e : Int) (st : Bool) : Nat := packSpecL32 (Nat.log2 m + 1) m e st

/-- correctly rounded binary32 magnitude bits of the exact value `N·2^(E−23)` -/
def roundInt32 (N : Nat) (E : Int) : Nat := packSpecL32 (Nat.log2 N + 24) (N * 2^23) (E - 23) false


end GnoVerif.C05
