/-
Spec vocabulary for C05 (IEEE-754 binary64 / binary32 bit patterns).  Core-only.
Everything is stated on the raw bit pattern `f : BitVec 64` (resp. `BitVec 32`)
through `f.toNat`, independently of the generated softfloat code.
-/
namespace GnoVerif.C05

/-! ## binary64 -/

/-- biased exponent field (bits 52‥62) -/
def expF64 (f : BitVec 64) : Nat := f.toNat / 2^52 % 2^11
/-- fraction field (bits 0‥51) -/
def mantF64 (f : BitVec 64) : Nat := f.toNat % 2^52
/-- sign bit set -/
def neg64 (f : BitVec 64) : Prop := 2^63 ≤ f.toNat
/-- magnitude bits (everything but the sign) -/
def mag64 (f : BitVec 64) : Nat := f.toNat % 2^63

def isNaN64 (f : BitVec 64) : Prop := expF64 f = 2047 ∧ mantF64 f ≠ 0
def isInf64 (f : BitVec 64) : Prop := expF64 f = 2047 ∧ mantF64 f = 0
def isZero64 (f : BitVec 64) : Prop := mag64 f = 0
def isFinite64 (f : BitVec 64) : Prop := expF64 f ≠ 2047

instance (f : BitVec 64) : Decidable (neg64 f) := by unfold neg64; infer_instance
instance (f : BitVec 64) : Decidable (isNaN64 f) := by unfold isNaN64; infer_instance
instance (f : BitVec 64) : Decidable (isInf64 f) := by unfold isInf64; infer_instance
instance (f : BitVec 64) : Decidable (isZero64 f) := by unfold isZero64; infer_instance
instance (f : BitVec 64) : Decidable (isFinite64 f) := by unfold isFinite64; infer_instance

/-- The sign-magnitude integer of a bit pattern: `+m ↦ m`, `-m ↦ -m` (so `±0 ↦ 0`).
On non-NaN patterns the IEEE-754 order is exactly the order of these integers
(the exponent field sits above the fraction field, so magnitudes compare like
their encodings; infinities are the largest magnitudes). -/
def key64 (f : BitVec 64) : Int := if 2^63 ≤ f.toNat then -((f.toNat % 2^63 : Nat) : Int) else (f.toNat : Int)

/-- three-way comparison as Go's `int32` −1 / 0 / +1 -/
def cmp3 (a b : Int) : BitVec 32 := if a < b then BitVec.ofInt 32 (-1) else if b < a then 1#32 else 0#32

def signBit64 : BitVec 64 := 9223372036854775808#64   -- 0x8000000000000000
def inf64 : BitVec 64 := 9218868437227405312#64       -- 0x7ff0000000000000
def nan64 : BitVec 64 := 9221120237041090560#64       -- 0x7ff8000000000000, the one NaN softfloat produces

/-- ±Inf / ±0 with a given sign -/
def mkInf64 (neg : Bool) : BitVec 64 := if neg then 18442240474082181120#64 else 9218868437227405312#64
def mkZero64 (neg : Bool) : BitVec 64 := if neg then 9223372036854775808#64 else 0#64
/-- sign of a product / quotient: negative iff exactly one operand is negative -/
def xorNeg64 (f g : BitVec 64) : Bool := decide (neg64 f) != decide (neg64 g)

/-! ## binary32 -/

def expF32 (f : BitVec 32) : Nat := f.toNat / 2^23 % 2^8
def mantF32 (f : BitVec 32) : Nat := f.toNat % 2^23
def neg32 (f : BitVec 32) : Prop := 2^31 ≤ f.toNat
def mag32 (f : BitVec 32) : Nat := f.toNat % 2^31
def isNaN32 (f : BitVec 32) : Prop := expF32 f = 255 ∧ mantF32 f ≠ 0
def isInf32 (f : BitVec 32) : Prop := expF32 f = 255 ∧ mantF32 f = 0
def isZero32 (f : BitVec 32) : Prop := mag32 f = 0
def isFinite32 (f : BitVec 32) : Prop := expF32 f ≠ 255

instance (f : BitVec 32) : Decidable (neg32 f) := by unfold neg32; infer_instance
instance (f : BitVec 32) : Decidable (isNaN32 f) := by unfold isNaN32; infer_instance
instance (f : BitVec 32) : Decidable (isInf32 f) := by unfold isInf32; infer_instance
instance (f : BitVec 32) : Decidable (isZero32 f) := by unfold isZero32; infer_instance
instance (f : BitVec 32) : Decidable (isFinite32 f) := by unfold isFinite32; infer_instance

def key32 (f : BitVec 32) : Int := if 2^31 ≤ f.toNat then -((f.toNat % 2^31 : Nat) : Int) else (f.toNat : Int)

def signBit32 : BitVec 32 := 2147483648#32
def inf32 : BitVec 32 := 2139095040#32
def nan32 : BitVec 32 := 2143289344#32

end GnoVerif.C05
