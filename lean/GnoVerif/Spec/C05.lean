/-
Spec vocabulary for C05 (IEEE-754 binary64 / binary32 bit patterns).  Core-only.
Everything is stated on the raw bit pattern `f : BitVec 64` (resp. `BitVec 32`)
through `f.toNat`, independently of the generated softfloat code.
-/
namespace GnoVerif.C05

/-! ## binary64 -/

/-- biased exponent field (bits 52‥62) -/
def expF64 (f : BitVec 64) : Nat := f.toNat / 2^52 % 2^11
/-- fraction field (bits 0‥51) -/
def mantF64 (f : BitVec 64) : Nat := f.toNat % 2^52
/-- sign bit set -/
def neg64 (f : BitVec 64) : Prop := 2^63 ≤ f.toNat
/-- magnitude bits (everything but the sign) -/
def mag64 (f : BitVec 64) : Nat := f.toNat % 2^63

def isNaN64 (f : BitVec 64) : Prop := expF64 f = 2047 ∧ mantF64 f ≠ 0
def isInf64 (f : BitVec 64) : Prop := expF64 f = 2047 ∧ mantF64 f = 0
def isZero64 (f : BitVec 64) : Prop := mag64 f = 0
def isFinite64 (f : BitVec 64) : Prop := expF64 f ≠ 2047

instance (f : BitVec 64) : Decidable (neg64 f) := by unfold neg64; infer_instance
instance (f : BitVec 64) : Decidable (isNaN64 f) := by unfold isNaN64; infer_instance
instance (f : BitVec 64) : Decidable (isInf64 f) := by unfold isInf64; infer_instance
instance (f : BitVec 64) : Decidable (isZero64 f) := by unfold isZero64; infer_instance
instance (f : BitVec 64) : Decidable (isFinite64 f) := by unfold isFinite64; infer_instance

/-- The sign-magnitude integer of a bit pattern: `+m ↦ m`, `-m ↦ -m` (so `±0 ↦ 0`).
On non-NaN patterns the IEEE-754 order is exactly the order of these integers
(the exponent field sits above the fraction field, so magnitudes compare like
their encodings; infinities are the largest magnitudes). -/
def key64 (f : BitVec 64) : Int := if 2^63 ≤ f.toNat then -((f.toNat % 2^63 : Nat) : Int) else (f.toNat : Int)

/-- three-way comparison as Go's `int32` −1 / 0 / +1 -/
def cmp3 (a b : Int) : BitVec 32 := if a < b then BitVec.ofInt 32 (-1) else if b < a then 1#32 else 0#32

def signBit64 : BitVec 64 := 9223372036854775808#64   -- 0x8000000000000000
def inf64 : BitVec 64 := 9218868437227405312#64       -- 0x7ff0000000000000
def nan64 : BitVec 64 := 9221120237041090560#64       -- 0x7ff8000000000000, the one NaN softfloat produces

/-- ±Inf / ±0 with a given sign -/
def mkInf64 (neg : Bool) : BitVec 64 := if neg then 18442240474082181120#64 else 9218868437227405312#64
def mkZero64 (neg : Bool) : BitVec 64 := if neg then 9223372036854775808#64 else 0#64
/-- sign of a product / quotient: negative iff exactly one operand is negative -/
def xorNeg64 (f g : BitVec 64) : Bool := decide (neg64 f) != decide (neg64 g)

/-! ## binary32 -/

def expF32 (f : BitVec 32) : Nat := f.toNat / 2^23 % 2^8
def mantF32 (f : BitVec 32) : Nat := f.toNat % 2^23
def neg32 (f : BitVec 32) : Prop := 2^31 ≤ f.toNat
def mag32 (f : BitVec 32) : Nat := f.toNat % 2^31
def isNaN32 (f : BitVec 32) : Prop := expF32 f = 255 ∧ mantF32 f ≠ 0
def isInf32 (f : BitVec 32) : Prop := expF32 f = 255 ∧ mantF32 f = 0
def isZero32 (f : BitVec 32) : Prop := mag32 f = 0
def isFinite32 (f : BitVec 32) : Prop := expF32 f ≠ 255

instance (f : BitVec 32) : Decidable (neg32 f) := by unfold neg32; infer_instance
instance (f : BitVec 32) : Decidable (isNaN32 f) := by unfold isNaN32; infer_instance
instance (f : BitVec 32) : Decidable (isInf32 f) := by unfold isInf32; infer_instance
instance (f : BitVec 32) : Decidable (isZero32 f) := by unfold isZero32; infer_instance
instance (f : BitVec 32) : Decidable (isFinite32 f) := by unfold isFinite32; infer_instance

def key32 (f : BitVec 32) : Int := if 2^31 ≤ f.toNat then -((f.toNat % 2^31 : Nat) : Int) else (f.toNat : Int)

def signBit32 : BitVec 32 := 2147483648#32
def inf32 : BitVec 32 := 2139095040#32
def nan32 : BitVec 32 := 2143289344#32


/-! ## Round-to-nearest-even on integers (the level at which `fpack64` is PROVED correct) -/

/-- round `(n + ε) / 2^k` to the nearest integer, ties to even; `ε ∈ (0,1)` iff `sticky`, else `ε = 0`.
For `k = 0` the value is taken to be `n` (callers never pass `sticky` with `k = 0`). -/
def rneShift (n k : Nat) (sticky : Bool) : Nat :=
  if k = 0 then n else
  if 2^(k-1) < n % 2^k ∨ (n % 2^k = 2^(k-1) ∧ (sticky = true ∨ n / 2^k % 2 = 1)) then n / 2^k + 1 else n / 2^k

/-- `fpack64` specification on a mantissa of bit length `L ≥ 53` (`2^(L-1) ≤ m < 2^L`), value
`(m + ε)·2^(e-52)`: round to nearest-even to 53 bits (normal range, overflow to Inf) or at the fixed
quantum 2^-1074 (subnormal range).  The result is the magnitude bit pattern. -/
def packSpecL (L : Nat) (m : Nat) (e : Int) (st : Bool) : Nat :=
  let Eu : Int := e + ((L : Int) - 53)
  if -1022 ≤ Eu then min ((Eu + 1022).toNat * 2^52 + rneShift m (L - 53) st) (2047 * 2^52)
  else rneShift m (-1022 - e).toNat st

def packSpec64 (m : Nat) (e : Int) (st : Bool) : Nat := packSpecL (Nat.log2 m + 1) m e st

/-- The correctly rounded (nearest-even) binary64 magnitude bits of the exact value `N·2^(E−52)`,
for ANY integer `N > 0`: scale `N` up by 2^52 (exact) so that it has at least 53 bits, then round. -/
def roundInt64 (N : Nat) (E : Int) : Nat := packSpecL (Nat.log2 N + 53) (N * 2^52) (E - 52) false


/-- The correctly rounded sum of two finite non-zero binary64 values given by their unpacked
(sign, 53-bit mantissa, exponent) triples, the first one being the larger in magnitude
(`(ge, gm) ≤ (fe, fm)`): the exact sum is `±N·2^(ge−2−52)` with the integer `N` below;
an exact zero is `+0`, otherwise the sign is that of the larger operand. -/
def sumSpec64 (fs fm fe gs gm ge : BitVec 64) : BitVec 64 :=
  let sh := (fe.toInt - ge.toInt).toNat
  let N := if fs = gs then 4 * fm.toNat * 2^sh + 4 * gm.toNat else 4 * fm.toNat * 2^sh - 4 * gm.toNat
  if N = 0 then 0#64 else fs ||| BitVec.ofNat 64 (roundInt64 N (ge.toInt - 2))

/-- The correctly rounded product of two finite non-zero binary64 values given unpacked:
`(±fm·2^(fe−52))·(±gm·2^(ge−52)) = ±(fm·gm)·2^((fe+ge−52)−52)`, sign = xor of the signs. -/
def prodSpec64 (fs fm fe gs gm ge : BitVec 64) : BitVec 64 :=
  (fs ^^^ gs) ||| BitVec.ofNat 64 (roundInt64 (fm.toNat * gm.toNat) (fe.toInt + ge.toInt - 52))

/-- `⌊m·2^(e−52)⌋`: the integer part of the magnitude of an unpacked value -/
def truncMag64 (m : Nat) (e : Int) : Nat :=
  if 52 ≤ e then m * 2^(e - 52).toNat else m / 2^(52 - e).toNat

/-! ## The reference semantics: IEEE-754 values as rationals and round-to-nearest-even

Used only to STATE the full property (`ieee754_statement` in Props/C05.lean) and in
kernel-evaluated examples; the theorems proved so far do not depend on it. -/

/-- `2^k` for an integer `k` -/
def pow2 (k : Int) : Rat := (2 : Rat) ^ k

/-- an IEEE-754 binary interchange format: fraction bits, exponent bits -/
structure Fmt where
  mb : Nat
  eb : Nat

def binary64 : Fmt := ⟨52, 11⟩
def binary32 : Fmt := ⟨23, 8⟩

namespace Fmt
def bias (F : Fmt) : Int := 2^(F.eb - 1) - 1
def expOnes (F : Fmt) : Nat := 2^F.eb - 1
def signWeight (F : Fmt) : Nat := 2^(F.mb + F.eb)
def infBits (F : Fmt) : Nat := F.expOnes * 2^F.mb

def expField (F : Fmt) (bits : Nat) : Nat := bits / 2^F.mb % 2^F.eb
def fracField (F : Fmt) (bits : Nat) : Nat := bits % 2^F.mb
def isFinite (F : Fmt) (bits : Nat) : Prop := F.expField bits ≠ F.expOnes

/-- the real number denoted by a finite bit pattern -/
def val (F : Fmt) (bits : Nat) : Rat :=
  let m := F.fracField bits
  let e := F.expField bits
  let mag : Rat :=
    if e = 0 then (m : Rat) * pow2 (1 - F.bias - F.mb)
    else ((2^F.mb + m : Nat) : Rat) * pow2 ((e : Int) - F.bias - F.mb)
  if bits / F.signWeight % 2 = 1 then -mag else mag

/-- round-to-nearest, ties-to-even, of a non-negative rational: the magnitude bits
(gradual underflow; overflow gives the Inf pattern) -/
def rndMag (F : Fmt) (a : Rat) : Nat :=
  if a = 0 then 0 else
  let k : Int := (Nat.log2 a.num.toNat : Int) - (Nat.log2 a.den : Int)
  let e : Int := if pow2 k ≤ a then k else k - 1          -- 2^e ≤ a < 2^(e+1)
  let E : Int := max e (1 - F.bias)                        -- binade whose spacing applies
  let n : Rat := a / pow2 (E - F.mb)                       -- in units of that spacing
  let q0 : Nat := n.floor.toNat
  let r : Rat := n - (q0 : Rat)
  let q1 : Nat := if r > 1/2 ∨ (r = 1/2 ∧ q0 % 2 = 1) then q0 + 1 else q0
  min ((E + F.bias - 1).toNat * 2^F.mb + q1) F.infBits

/-- round-to-nearest-even of a non-zero rational, sign included -/
def rnd (F : Fmt) (x : Rat) : Nat :=
  (if x < 0 then F.signWeight else 0) + F.rndMag (if x < 0 then -x else x)
end Fmt

def val64 (f : BitVec 64) : Rat := binary64.val f.toNat
def val32 (f : BitVec 32) : Rat := binary32.val f.toNat
def rnd64 (x : Rat) : BitVec 64 := BitVec.ofNat 64 (binary64.rnd x)
def rnd32 (x : Rat) : BitVec 32 := BitVec.ofNat 32 (binary32.rnd x)

/-- truncation toward zero of a rational, as an integer -/
def truncRat (x : Rat) : Int := if x < 0 then -((-x).floor) else x.floor

end GnoVerif.C05
