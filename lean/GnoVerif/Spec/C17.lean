import GnoVerif.Model.C17
/-!
Spec vocabulary for C17 (core-only): the property's quantifier as a decidable
predicate, the two step sizes, the "idle" and "overflow" situations, and the
property statement as a relation between the price before and after a block.
-/
namespace GnoVerif.C17

/-- The quantifier of the property as a decidable predicate: validated auth
params (`Params.Validate`), every number an int64, and a last price / gas
reading that can exist (a stored price is non-negative — `LastGasPrice` cannot
even read a negative one back; `UpdateGasPrice` ignores a negative reading). -/
def ValidInputs (last : GasPrice) (used maxGas : Int) (p : Params) : Prop :=
  p.Valid ∧ 0 ≤ last.amount ∧ InRange last.amount ∧ 0 ≤ used ∧ InRange used ∧ InRange maxGas ∧
  InRange p.ratio ∧ InRange p.compressor ∧ InRange p.initial.amount

instance (last : GasPrice) (used maxGas : Int) (p : Params) : Decidable (ValidInputs last used maxGas p) := by
  unfold ValidInputs; infer_instance

/-- The step the increase branch adds: `max(((used−target)·last / target) / c, 1)`. -/
def upStep (last : GasPrice) (used maxGas : Int) (p : Params) : Int :=
  stepSize (used - targetGas maxGas p.ratio) last.amount (targetGas maxGas p.ratio) p.compressor

/-- The step the decrease branch subtracts: `max(((target−used)·last / target) / c, 1)`. -/
def downStep (last : GasPrice) (used maxGas : Int) (p : Params) : Int :=
  stepSize (targetGas maxGas p.ratio - used) last.amount (targetGas maxGas p.ratio) p.compressor

/-- Dynamic pricing is off, or the block is exactly on target. -/
def Idle (last : GasPrice) (used maxGas : Int) (p : Params) : Prop :=
  last.amount = 0 ∨ p.ratio = 0 ∨ targetGas maxGas p.ratio ≤ 0 ∨ used = targetGas maxGas p.ratio

instance (last : GasPrice) (used maxGas : Int) (p : Params) : Decidable (Idle last used maxGas p) := by
  unfold Idle; infer_instance

/-- The one situation in which `calcBlockGasPrice` panics on valid inputs. -/
def Overflows (last : GasPrice) (used maxGas : Int) (p : Params) : Prop :=
  last.amount ≠ 0 ∧ p.ratio ≠ 0 ∧ 0 < targetGas maxGas p.ratio ∧ targetGas maxGas p.ratio < used ∧
  int64Max < last.amount + upStep last used maxGas p

instance (last : GasPrice) (used maxGas : Int) (p : Params) : Decidable (Overflows last used maxGas p) := by
  unfold Overflows; infer_instance

/-- The property statement as a relation between the price amount before and after
one block (`target` = target gas, `init` = configured initial price).  The last
conjunct of the third clause records what happens when the stored price is below
the floor (see `below_floor_jumps_to_initial`). -/
def PriceRule (before after used target ratio init : Int) : Prop :=
  ((before = 0 ∨ ratio = 0 ∨ target ≤ 0 ∨ used = target) → after = before) ∧
  (before ≠ 0 → ratio ≠ 0 → 0 < target → target < used → before + 1 ≤ after) ∧
  (before ≠ 0 → ratio ≠ 0 → 0 < target → used < target →
    init ≤ after ∧ (init < before → after ≤ before - 1) ∧ (before = init → after = before) ∧
    (before < init → after = init))

/-- `calcBlockGasPrice` applied block after block (gas used per block in `us`), same params. -/
def runBlocks (maxGas : Int) (p : Params) : GasPrice → List Int → Except Panic GasPrice
  | g, [] => .ok g
  | g, u :: us =>
    match calcPrice g u maxGas p with
    | .ok g' => runBlocks maxGas p g' us
    | .error e => .error e

end GnoVerif.C17
