import GnoVerif.Model.C50Avl
/-!
# C50: abstraction function and invariant of the avl model

`toList` maps a tree to the association list it represents (its leaves, left
to right).  `WF` is the invariant: the structural part `Inv` (routing key =
smallest key of the right subtree, cached height and size exact, AVL balance on
the cached heights) plus strict sortedness of the leaves.  `Balanced` /
`SearchTree` / `realHeight` restate the shape guarantees without reference to
the cached fields.  Core-only.
-/
namespace GnoVerif.C50
namespace Node
variable {α : Type}

/-- the leaves, left to right -/
def toList : Node α → List (Key × α)
  | leaf k v => [(k, v)]
  | inner _ _ _ l r => l.toList ++ r.toList

/-- key of the leftmost leaf -/
def minKey : Node α → Key
  | leaf k _ => k
  | inner _ _ _ l _ => l.minKey

/-- structural invariant -/
def Inv : Node α → Prop
  | leaf _ _ => True
  | inner k h s l r =>
    l.Inv ∧ r.Inv ∧ k = r.minKey ∧ h = max l.height r.height + 1 ∧ s = l.size + r.size ∧
    l.height ≤ r.height + 1 ∧ r.height ≤ l.height + 1

/-- the invariant of a non-nil node -/
def WF (n : Node α) : Prop := n.Inv ∧ OMap.Sorted n.toList

/-- height recomputed from the shape (ignores the cached field) -/
def realHeight : Node α → Nat
  | leaf _ _ => 0
  | inner _ _ _ l r => max l.realHeight r.realHeight + 1

/-- AVL balance on the recomputed heights -/
def Balanced : Node α → Prop
  | leaf _ _ => True
  | inner _ _ _ l r =>
    l.Balanced ∧ r.Balanced ∧ l.realHeight ≤ r.realHeight + 1 ∧ r.realHeight ≤ l.realHeight + 1

/-- search-tree routing: every key on the left is below the node key, every key
on the right is at or above it, and the node key is a key of the right subtree -/
def SearchTree : Node α → Prop
  | leaf _ _ => True
  | inner k _ _ l r =>
    l.SearchTree ∧ r.SearchTree ∧ (∀ x ∈ OMap.keys l.toList, x < k) ∧
    (∀ y ∈ OMap.keys r.toList, k ≤ y) ∧ k ∈ OMap.keys r.toList

/-- `P` holds at every node of the tree (root, inner nodes, leaves) -/
def Forall (P : Node α → Prop) : Node α → Prop
  | leaf k v => P (leaf k v)
  | inner k h s l r => P (inner k h s l r) ∧ l.Forall P ∧ r.Forall P

end Node

namespace Tree
variable {α : Type}

def toList (t : Tree α) : List (Key × α) :=
  match t.node with
  | none => []
  | some n => n.toList

def WF (t : Tree α) : Prop :=
  match t.node with
  | none => True
  | some n => n.WF

def Balanced (t : Tree α) : Prop :=
  match t.node with
  | none => True
  | some n => n.Balanced

def realHeight (t : Tree α) : Nat :=
  match t.node with
  | none => 0
  | some n => n.realHeight

end Tree

/-- a concrete non-trivial well-formed tree (used as the non-vacuity witness of
every `t.WF` hypothesis in Props/C50.lean): keys "" , "a", "a\x00" -/
def exTree : Tree Nat :=
  ⟨some (.inner [97] 2 3 (.leaf [] 1) (.inner [97, 0] 1 2 (.leaf [97] 2) (.leaf [97, 0] 3)))⟩

/-! ## Histories -/

/-- a mutating operation of the package -/
inductive Op (α : Type) where
  | set (k : Key) (v : α)
  | remove (k : Key)

namespace OMap
/-- the ordered map after one operation -/
def apply {α : Type} (m : List (Key × α)) : Op α → List (Key × α)
  | .set k v => insert k v m
  | .remove k => erase k m

/-- the ordered map after a history -/
def run {α : Type} (m : List (Key × α)) (ops : List (Op α)) : List (Key × α) :=
  ops.foldl apply m
end OMap

namespace Tree
variable {α : Type}

/-- the tree after one operation (a Go panic aborts) -/
def apply (t : Tree α) : Op α → Except Pan (Tree α)
  | .set k v => match t.set k v with
    | .ok (t', _) => .ok t'
    | .error e => .error e
  | .remove k => match t.remove k with
    | .ok (t', _, _) => .ok t'
    | .error e => .error e

/-- the tree after a history -/
def run (t : Tree α) : List (Op α) → Except Pan (Tree α)
  | [] => .ok t
  | op :: ops => match t.apply op with
    | .ok t' => t'.run ops
    | .error e => .error e

end Tree
end GnoVerif.C50
