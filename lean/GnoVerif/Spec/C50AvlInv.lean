import GnoVerif.Model.C50Avl
/-!
# C50: abstraction function and invariant of the avl model

`toList` maps a tree to the association list it represents (its leaves, left
to right).  `WF` is the invariant: the structural part `Inv` (routing key =
smallest key of the right subtree, cached height and size exact, AVL balance on
the cached heights) plus strict sortedness of the leaves.  `Balanced` /
`SearchTree` / `realHeight` restate the shape guarantees without reference to
the cached fields.  Core-only.
-/
namespace GnoVerif.C50
namespace Node
variable {α : Type}

/-- the leaves, left to right -/
def toList : Node α → List (Key × α)
  | leaf k v => [(k, v)]
  | inner _ _ _ l r => l.toList ++ r.toList

/-- key of the leftmost leaf -/
def minKey : Node α → Key
  | leaf k _ => k
  | inner _ _ _ l _ => l.minKey

/-- structural invariant -/
def Inv : Node α → Prop
  | leaf _ _ => True
  | inner k h s l r =>
    l.Inv ∧ r.Inv ∧ k = r.minKey ∧ h = max l.height r.height + 1 ∧ s = l.size + r.size ∧
    l.height ≤ r.height + 1 ∧ r.height ≤ l.height + 1

/-- the invariant of a non-nil node -/
def WF (n : Node α) : Prop := n.Inv ∧ OMap.Sorted n.toList

/-- height recomputed from the shape (ignores the cached field) -/
def realHeight : Node α → Nat
  | leaf _ _ => 0
  | inner _ _ _ l r => max l.realHeight r.realHeight + 1

/-- AVL balance on the recomputed heights -/
def Balanced : Node α → Prop
  | leaf _ _ => True
  | inner _ _ _ l r =>
    l.Balanced ∧ r.Balanced ∧ l.realHeight ≤ r.realHeight + 1 ∧ r.realHeight ≤ l.realHeight + 1

/-- search-tree routing: every key on the left is below the node key, every key
on the right is at or above it, and the node key is a key of the right subtree -/
def SearchTree : Node α → Prop
  | leaf _ _ => True
  | inner k _ _ l r =>
    l.SearchTree ∧ r.SearchTree ∧ (∀ x ∈ OMap.keys l.toList, x < k) ∧
    (∀ y ∈ OMap.keys r.toList, k ≤ y) ∧ k ∈ OMap.keys r.toList

end Node

namespace Tree
variable {α : Type}

def toList (t : Tree α) : List (Key × α) :=
  match t.node with
  | none => []
  | some n => n.toList

def WF (t : Tree α) : Prop :=
  match t.node with
  | none => True
  | some n => n.WF

def Balanced (t : Tree α) : Prop :=
  match t.node with
  | none => True
  | some n => n.Balanced

def realHeight (t : Tree α) : Nat :=
  match t.node with
  | none => 0
  | some n => n.realHeight

end Tree
end GnoVerif.C50
