import GnoVerif.Model.C08
/-!
C08 — what the property theorems talk about: provenance of realm values and bankers,
what makes a debit authorised, and the atomic state changes a script can cause.
Core Lean only (definitions; the proofs are in Proofs/C08*.lean).
-/
namespace GnoVerif.C08

/-! ## provenance -/

/-- realm value #t was the live cur, or a sub token of the live cur, while `top` was the
    topmost crossing frame's cur. -/
def CurrentAt (ti : TokInfo) (t top : Nat) : Prop :=
  (ti.kind = .cur ∧ t = top) ∨ (∃ name, ti.kind = .sub top name)

/-- where a realm value of the registry `toks` comes from -/
def TokOk (env : Env) (toks : List TokInfo) (ti : TokInfo) : Prop :=
  match ti.kind with
  | .origin => ti.prev = none
  | .cur =>
    -- the VM minted it for a crossing frame of the package `path` (address = the package's), or
    -- it is the cur of a MsgRun main (address = the signer's)
    ti.addr = .pkg ti.path ∨ (∃ i, ti.addr = .user i ∧ ti.path = runPath i)
  | .sub parent name =>
    -- `parent.Sub(name)`: parent is a primary cur, of a non-ephemeral package `host`; the value
    -- was minted by code OF host while parent was the live cur
    ∃ pi, toks[parent]? = some pi ∧ pi.kind = .cur ∧ ti.path = pi.path ++ '#' :: name ∧
      ti.addr = .pkg ti.path ∧ ti.owner = pi.path ∧ ti.under = some parent ∧
      env.ephemeral pi.path = false ∧ hasHash pi.path = false ∧ ti.prev = pi.prev

/-- where a banker of the registry comes from (`nP` = number of persisted bankers the
    message started with) -/
def BankerOk (nP : Nat) (toks : List TokInfo) (bid : Nat) (bi : BankerInfo) : Prop :=
  match bi.src with
  | .persisted => bid < nP
  | .readonly => bi.bt = 0 ∧ bi.addr = none
  | .minted t top =>
    ∃ ti, toks[t]? = some ti ∧ bi.addr = some ti.addr ∧ bi.path = ti.path ∧
      1 ≤ bi.bt ∧ bi.bt ≤ 3 ∧ CurrentAt ti t top ∧
      (bi.bt ≠ 2 → hasHash ti.path = false) ∧
      (bi.bt = 1 → ∃ p pi, ti.prev = some p ∧ toks[p]? = some pi ∧ pi.path = [])

/-- what a balance movement caused through a banker must satisfy -/
def MoveOk (bankers : List BankerInfo) (a : Addr) (d : Str) (x : Int) : Cause → Prop
  | .bankerSend bid => ∃ bi : BankerInfo, bankers[bid]? = some bi ∧ bi.bt ≠ 0 ∧ (x < 0 → bi.addr = some a)
  | .mint bid => 0 < x ∧ ∃ bi : BankerInfo, bankers[bid]? = some bi ∧ bi.bt = 3 ∧ issuable bi.path d = true
  | .burn bid => ∃ bi : BankerInfo, bankers[bid]? = some bi ∧ bi.bt = 3 ∧ issuable bi.path d = true
  | _ => False

def SupplyOk (bankers : List BankerInfo) (d : Str) : Prop :=
  ∃ (bid : Nat) (bi : BankerInfo), bankers[bid]? = some bi ∧ bi.bt = 3 ∧ issuable bi.path d = true

/-! ## atomic state changes of a running script -/

/-- a new realm value: a crossing frame's cur, or a sub token (with its guards' facts) -/
def TokNew (env : Env) (st : St) (ti : TokInfo) : Prop :=
  (ti.kind = .cur ∧ ti.addr = .pkg ti.path) ∨
  (∃ parent name pi, ti.kind = .sub parent name ∧ st.toks[parent]? = some pi ∧ pi.kind = .cur ∧
      ti.path = pi.path ++ '#' :: name ∧ ti.addr = .pkg ti.path ∧ ti.owner = pi.path ∧
      ti.under = some parent ∧ env.ephemeral pi.path = false ∧ hasHash pi.path = false ∧ ti.prev = pi.prev)

/-- a new banker: the readonly one, or one NewBanker accepted -/
def BankerNew (st : St) (bi : BankerInfo) : Prop :=
  (bi.src = .readonly ∧ bi.bt = 0 ∧ bi.addr = none) ∨
  (∃ t top ti, bi.src = .minted t top ∧ st.toks[t]? = some ti ∧ bi.addr = some ti.addr ∧ bi.path = ti.path ∧
      1 ≤ bi.bt ∧ bi.bt ≤ 3 ∧ CurrentAt ti t top ∧ (bi.bt ≠ 2 → hasHash ti.path = false) ∧
      (bi.bt = 1 → ∃ p pi, ti.prev = some p ∧ st.toks[p]? = some pi ∧ pi.path = []))

/-- `sends = false` restricts to the changes that involve no banker SEND (no movement caused
    by `SendCoins`, no change of the origin-send running total): what every instruction other
    than `sd` is limited to. -/
inductive Atom (env : Env) (sends : Bool) : St → St → Prop
  | tok (st : St) (ti : TokInfo) (h : TokNew env st ti) : Atom env sends st { st with toks := st.toks ++ [ti] }
  | banker (st : St) (bi : BankerInfo) (h : BankerNew st bi) : Atom env sends st { st with bankers := st.bankers ++ [bi] }
  | move (st : St) (a : Addr) (d : Str) (x : Int) (c : Cause) (h : MoveOk st.bankers a d x c)
      (hs : sends = true ∨ ∀ bid, c ≠ .bankerSend bid) :
      Atom env sends st { st with bank := st.bank.move a d x c }
  | supply (st : St) (d : Str) (x : Int) (h : SupplyOk st.bankers d) :
      Atom env sends st { st with bank := { st.bank with led := st.bank.led.setSupply d x } }
  | spent (st : St) (s : Coins) (h : s = st.spent ∨ isAllGTE env.osend s = true) (hs : sends = true) :
      Atom env sends st { st with spent := s }
  | params (st : St) (p : List ((Str × Str) × Nat)) (ac : List (Str × Accum)) :
      Atom env sends st { st with params := p, accum := ac }

/-- finitely many atomic changes -/
inductive Steps (env : Env) (sends : Bool) : St → St → Prop
  | refl (st : St) : Steps env sends st st
  | tail {a b c : St} : Steps env sends a b → Atom env sends b c → Steps env sends a c

/-! ## authorisation of a debit (the statement's first sentence, on the event log) -/

/-- a banker of the final registry with its provenance spelled out -/
def BankerProv (env : Env) (persisted : List BankerInfo) (toks : List TokInfo) (bid : Nat) (bi : BankerInfo) : Prop :=
  -- persisted by an earlier transaction (own, or handed over then) …
  (bid < persisted.length ∧ persisted[bid]? = some bi) ∨
  -- … or created in this message by NewBanker from a realm value that was the live cur (or a
  -- sub token of it) at that moment, whose address and path the banker carries
  (∃ t top ti, bi.src = .minted t top ∧ toks[t]? = some ti ∧ bi.addr = some ti.addr ∧ bi.path = ti.path ∧
      CurrentAt ti t top ∧ TokOk env toks ti)

/-- why the debit `e` of the event log is allowed -/
def Authorised (env : Env) (persisted : List BankerInfo) (signer : Nat) (diffs : List (Str × Int))
    (toks : List TokInfo) (bankers : List BankerInfo) (e : Ev) : Prop :=
  match e.cause with
  | .msgSend => e.addr = .user signer            -- the coins the signer sends along
  | .bankSend => e.addr = .user signer           -- the signer's bank send
  | .depositLock _ => e.addr = .user signer      -- storage deposit the signer pays
  | .depositRefund r =>                          -- a realm's deposit address, storage of that realm released
    e.addr = .dep r ∧ ∃ diff, (r, diff) ∈ diffs ∧ diff < 0
  | .bankerSend bid =>                           -- a banker bound to exactly this address
    ∃ bi : BankerInfo, bankers[bid]? = some bi ∧ bi.bt ≠ 0 ∧ bi.addr = some e.addr ∧ BankerProv env persisted toks bid bi
  | .burn bid =>                                 -- the issuing realm removes its own denomination
    ∃ bi : BankerInfo, bankers[bid]? = some bi ∧ bi.bt = 3 ∧ issuable bi.path e.denom = true ∧ BankerProv env persisted toks bid bi
  | .mint _ => False

/-- who signed a message -/
def Msg.signer : Msg → Nat
  | .call s _ _ _ _ => s
  | .run s _ _ _ => s
  | .bankSend s _ _ => s

/-- the coins a message sends along (`OriginSend`) -/
def Msg.send : Msg → Coins
  | .call _ _ c _ _ => c
  | .run _ c _ _ => c
  | .bankSend _ _ _ => []

/-- net movement of (a, d) recorded in a log -/
def logSum (log : List Ev) (a : Addr) (d : Str) : Int :=
  (log.filter (fun e => decide (e.addr = a) && decide (e.denom = d))).foldr (fun e acc => e.amt + acc) 0

end GnoVerif.C08
