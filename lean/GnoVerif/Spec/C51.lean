import GnoVerif.Model.C51
/-! Specification vocabulary for C51 (no proofs): the ledger invariant, what it
    means for an operation to be well-typed (its amount is an `int64`), and the
    exact effect each successful call is required to have.  Core only. -/
namespace GnoVerif.C51

/-- The amount of the call is a Go `int64` (every real call satisfies this by typing). -/
def Op.wf (op : Op) : Prop := isI64 op.amount

instance (op : Op) : Decidable op.wf := by unfold Op.wf; infer_instance

/-- The ledger invariant: what every ledger reachable from `NewToken` satisfies. -/
structure Inv (L : Ledger) : Prop where
  /-- each account / each (owner, spender) pair is stored at most once (avl keys are unique) -/
  balKeys : (keys L.balances).Nodup
  alwKeys : (keys L.allowances).Nodup
  /-- no negative balance, and only valid addresses hold one -/
  balNonneg : ∀ e ∈ L.balances, 0 ≤ e.2
  balValid : ∀ e ∈ L.balances, e.1.valid = true
  /-- allowances are int64 amounts ≥ 0 between valid addresses -/
  alwRange : ∀ e ∈ L.allowances, 0 ≤ e.2 ∧ e.2 ≤ maxInt64
  alwValid : ∀ e ∈ L.allowances, e.1.1.valid = true ∧ e.1.2.valid = true
  /-- the total supply is the sum of all balances … -/
  supplySum : L.totalSupply = sumBalances L
  /-- … and fits an int64 -/
  supplyMax : L.totalSupply ≤ maxInt64

/-- all balances other than those of `a` and `b` are the same in `L` and `L'` -/
def balancesSameExcept (L L' : Ledger) (a b : Addr) : Prop :=
  ∀ c, c ≠ a → c ≠ b → balanceOf L' c = balanceOf L c

/-- all allowances other than `(o, s)` are the same in `L` and `L'` -/
def allowancesSameExcept (L L' : Ledger) (o s : Addr) : Prop :=
  ∀ o' s', (o', s') ≠ (o, s) → allowance L' o' s' = allowance L o' s'

def sameBalances (L L' : Ledger) : Prop :=
  L'.totalSupply = L.totalSupply ∧ ∀ c, balanceOf L' c = balanceOf L c

def sameAllowances (L L' : Ledger) : Prop := ∀ o s, allowance L' o s = allowance L o s

/-- `n` tokens move from `f` to `t`; nothing else about balances or supply changes. -/
def Moves (L L' : Ledger) (f t : Addr) (n : Int) : Prop :=
  f ≠ t ∧ 0 ≤ n ∧ n ≤ balanceOf L f ∧
  L'.totalSupply = L.totalSupply ∧ sumBalances L' = sumBalances L ∧
  balanceOf L' f = balanceOf L f - n ∧ balanceOf L' t = balanceOf L t + n ∧
  balancesSameExcept L L' f t

/-- What a call that returned `nil` must have done (the success clauses of the statement). -/
def Effect (L : Ledger) : Op → Ledger → Prop
  | .mint a n, L' =>
      0 ≤ n ∧ L'.totalSupply = L.totalSupply + n ∧ balanceOf L' a = balanceOf L a + n ∧
      balancesSameExcept L L' a a ∧ sameAllowances L L'
  | .burn a n, L' =>
      0 ≤ n ∧ n ≤ balanceOf L a ∧ L'.totalSupply = L.totalSupply - n ∧
      balanceOf L' a = balanceOf L a - n ∧ balancesSameExcept L L' a a ∧ sameAllowances L L'
  | .transfer f t n, L' => Moves L L' f t n ∧ sameAllowances L L'
  | .approve o s n, L' =>
      0 ≤ n ∧ sameBalances L L' ∧ allowance L' o s = n ∧ allowancesSameExcept L L' o s
  | .transferFrom o s t n, L' =>
      Moves L L' o t n ∧
      -- never more than the approved allowance, which decreases accordingly
      n ≤ allowance L o s ∧ allowance L' o s = allowance L o s - n ∧
      allowancesSameExcept L L' o s
  | .spendAllowance o s n, L' =>
      0 ≤ n ∧ n ≤ allowance L o s ∧ sameBalances L L' ∧
      allowance L' o s = allowance L o s - n ∧ allowancesSameExcept L L' o s

/-- The statement of C51 for one call on one ledger: the invariant (supply = Σ
balances ≤ MaxInt64, …) is kept, the call does not panic, a call that fails
changes NOTHING, and a call that succeeds has exactly its specified effect. -/
def StepOk (L : Ledger) (op : Op) : Prop :=
  let r := step L op
  Inv r.1 ∧ r.2 ≠ .panic ∧ (r.2 ≠ .ok → r.1 = L) ∧ (r.2 = .ok → Effect L op r.1)

/-- The full statement: along EVERY history of well-typed calls from the fresh
ledger, every single call satisfies `StepOk` (and so every reached ledger
satisfies `Inv`). -/
def statement : Prop :=
  ∀ (pre : List Op) (op : Op), (∀ o ∈ pre, o.wf) → op.wf →
    Inv (run init pre) ∧ StepOk (run init pre) op

/- The concrete ledger of the recorded (and since fixed) defect. -/
namespace Witness
def v0 : Addr := ⟨0, true⟩
def v1 : Addr := ⟨1, true⟩
def v2 : Addr := ⟨2, true⟩
/-- `Mint(v0, 100); Approve(v0, v1, 50)` -/
def L0 : Ledger := run init [.mint v0 100, .approve v0 v1 50]
end Witness

end GnoVerif.C51
