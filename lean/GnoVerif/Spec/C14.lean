import GnoVerif.Model.C14
/-! C14 — the invariant of the property statement, as predicates over the model state. Core only. -/
namespace GnoVerif.C14

/-- "All balance and account records stay well-formed": every account object is
stored under its own address, account numbers are unique and below the counter,
account-tier coins validate (positive, valid denoms, strictly sorted) and belong to
the account tier; every split-tier record is positive, has a valid denom outside
the account tier and an owner that has an account object; supply records are
positive; no keyspace holds a key twice. -/
structure WF (tier : Denom → Bool) (s : State) : Prop where
  acct_key : ∀ e ∈ s.accts, e.2.addr = e.1
  acct_nodup : (s.accts.map Prod.fst).Nodup
  acct_num : ∀ e ∈ s.accts, e.2.num < s.nextNum
  acct_num_inj : ∀ e₁ ∈ s.accts, ∀ e₂ ∈ s.accts, e₁.2.num = e₂.2.num → e₁.1 = e₂.1
  acct_coins : ∀ e ∈ s.accts, coinsValid e.2.coins = true ∧ ∀ c ∈ e.2.coins, tier c.denom = true
  split_pos : ∀ e ∈ s.split, 0 < e.2
  split_key : ∀ e ∈ s.split, validDenom e.1.2 = true ∧ tier e.1.2 = false ∧ (getAcct s e.1.1).isSome = true
  split_nodup : (s.split.map Prod.fst).Nodup
  supply_pos : ∀ e ∈ s.supply, 0 < e.2 ∧ validDenom e.1 = true
  supply_nodup : (s.supply.map Prod.fst).Nodup

/-- The invariant of C14: well-formed records, and for every denomination the
recorded supply equals the sum of all balances (both tiers) and fits int64. -/
def Inv (tier : Denom → Bool) (s : State) : Prop :=
  WF tier s ∧ (∀ d, getSupply s d = total s d) ∧ (∀ d, getSupply s d ≤ maxInt64)

/-- the balance of one (address, denom), read from whichever tier holds it. -/
def balance (tier : Denom → Bool) (s : State) (a : Addr) (d : Denom) : Int :=
  if tier d then (match getAcct s a with | some x => sumOf x.coins d | none => 0) else getSplit s a d

def Op.isMintBurn : Op → Bool
  | .mint .. => true
  | .burn .. => true
  | _ => false

def Op.isTransfer : Op → Bool
  | .send .. => true
  | .sendU .. => true
  | .fee .. => true
  | .multi .. => true
  | _ => false

end GnoVerif.C14
