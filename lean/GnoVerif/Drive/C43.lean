import GnoVerif.Base.Kit
import GnoVerif.Model.C43
/-! Driver for C43 (line protocol: see harness/cmd/c43/main.go).

    cfg <Ps> <Pr> <K> <S> <R>     payload sizes, pair read pattern, sender / receiver channels
    batch <msg>…                  Send every message (one goroutine per channel), wait
    gbatch <primer> <msg>…        TrySend primer, park sendRoutine, TrySend the rest, release, wait
    raw <K> <hex>                 feed bytes (reads split by K, 0 = zero-length read) + EOF to a fresh receiver
-/
namespace GnoVerif.Drive.C43
open GnoVerif GnoVerif.Kit GnoVerif.C43

structure St where
  ps : Nat := 8
  pr : Nat := 8
  sd : List SDesc := [{ id := 1, prio := 1, qcap := 1 }]
  rd : List RDesc := [{ id := 1, cap := 64 }]
  snd : Sender := mkSender 8 [{ id := 1, prio := 1, qcap := 1 }]
  rcv : Recv := mkRecv 8 [{ id := 1, cap := 64 }]

def pNat (s : String) (max : Nat) : Option Nat :=
  let cs := s.toList
  if cs.isEmpty ∨ cs.length > 9 ∨ ¬ cs.all Char.isDigit then none else
  let v := cs.foldl (fun a c => a * 10 + (c.toNat - '0'.toNat)) 0
  if v > max then none else some v

def lowerHexDigit (c : Char) : Option Nat :=
  if '0' ≤ c ∧ c ≤ '9' then some (c.toNat - '0'.toNat)
  else if 'a' ≤ c ∧ c ≤ 'f' then some (c.toNat - 'a'.toNat + 10)
  else none

def pHex (s : String) : Option Bytes :=
  if s == "e" then some [] else
  if s.isEmpty then none else
  let rec go : List Char → List UInt8 → Option (List UInt8)
    | [], acc => some acc.reverse
    | [_], _ => none
    | a :: b :: rest, acc =>
      match lowerHexDigit a, lowerHexDigit b with
      | some x, some y => go rest (UInt8.ofNat (x*16+y) :: acc)
      | _, _ => none
  go s.toList []

/-- pattern message `#len.seed`: byte i = (seed + 131*i + i/256) mod 256. -/
def patMsg (len seed : Nat) : Bytes :=
  (List.range len).map fun i => UInt8.ofNat ((seed + 131 * i + i / 256) % 256)

def pMsgBody (s : String) : Option Bytes :=
  if s.startsWith "#" then
    match ((s.drop 1).toString).splitOn "." with
    | [a, b] => do
      let len ← pNat a 70000
      let seed ← pNat b 255
      pure (patMsg len seed)
    | _ => none
  else pHex s

def pMsg (s : String) : Option (UInt8 × Bytes) :=
  match s.splitOn ":" with
  | [a, b] => do
    let ch ← pNat a 255
    let m ← pMsgBody b
    pure (UInt8.ofNat ch, m)
  | _ => none

def pPattern (s : String) (allowZero : Bool) : Option (List Nat) :=
  if s == "-" then some [] else
  (s.splitOn ",").mapM fun t => do
    let k ← pNat t 100000
    if k = 0 ∧ ¬ allowZero then none else pure k

def pSDescs (s : String) : Option (List SDesc) :=
  (s.splitOn ",").mapM fun t =>
    match t.splitOn "." with
    | [a, b, c] => do
      let id ← pNat a 255
      let prio ← pNat b 1000000
      let q ← pNat c 64
      pure { id := UInt8.ofNat id, prio := prio, qcap := q }
    | _ => none

def pRDescs (s : String) : Option (List RDesc) :=
  (s.splitOn ",").mapM fun t =>
    match t.splitOn "." with
    | [a, b] => do
      let id ← pNat a 255
      let cap ← pNat b 100000000
      pure { id := UInt8.ofNat id, cap := cap }
    | _ => none

def distinctIds (ids : List UInt8) : Bool :=
  match ids with
  | [] => true
  | a :: r => !r.contains a && distinctIds r

def fnv32 (bs : Bytes) : Nat :=
  bs.foldl (fun h b => ((h ^^^ b.toNat) * 16777619) % 4294967296) 2166136261

def hex8 (n : Nat) : String :=
  String.ofList ((List.range 8).reverse.map fun i => nibble ((n / 16 ^ i) % 16))

def msgStr (m : Bytes) : String :=
  if m.length ≤ 6 then bytesToHex m else s!"L{m.length}h{hex8 (fnv32 m)}"

def errStr : Err → String
  | .eof => "eof" | .ueof => "ueof" | .malformed => "malformed"
  | .unknownChannel => "unknown-channel" | .overCapacity => "over-capacity"

def stStr (r : Recv) : String :=
  match r.err with
  | none => "run"
  | some e => "err:" ++ errStr e

/-- deliveries grouped per channel, ascending channel id. -/
def delivStr (d : List (UInt8 × Bytes)) : String :=
  let ids := (List.range 256).filter fun i => d.any (·.1.toNat = i)
  if ids.isEmpty then "-" else
  ";".intercalate (ids.map fun i =>
    s!"{i}:" ++ ",".intercalate ((d.filter (·.1.toNat = i)).map fun x => msgStr x.2))

def bitsStr (bs : List Bool) : String := String.ofList (bs.map fun b => if b then '1' else '0')

/-- chunk the stream by the cyclic pattern; `0` = a zero-length read. -/
def chunkEvents : Nat → List Nat → List Nat → Bytes → List Ev → List Ev
  | 0, _, _, bs, acc => acc.reverse ++ bs.map .byte
  | fuel+1, pat, cur, bs, acc =>
    if bs.isEmpty then acc.reverse else
    match cur with
    | [] => if pat.all (· == 0) then acc.reverse ++ bs.map .byte else chunkEvents fuel pat pat bs acc
    | 0 :: rest => chunkEvents fuel pat rest bs (.zero :: acc)
    | k :: rest => chunkEvents fuel pat rest (bs.drop k) ((bs.take k).map .byte |>.reverse |>.append acc)

def feedPackets (r : Recv) (ps : List Packet) : Recv :=
  ps.foldl (fun r p => r.feed (encFrame p)) r

def packetsOf (m : Bytes) (maxP : Nat) : Nat := if maxP = 0 then 0 else m.length / maxP + 1

def step (s : St) (t : List String) : St × String :=
  let bad := (s, "err:badop")
  match t with
  | ["cfg", a, b, k, sd, rd] =>
    match pNat a 4096, pNat b 4096, pPattern k false, pSDescs sd, pRDescs rd with
    | some ps, some pr, some _, some sd, some rd =>
      if ps = 0 ∨ pr = 0 ∨ ¬ distinctIds (sd.map (·.id)) ∨ ¬ distinctIds (rd.map (·.id)) then bad
      else if sd.any (·.prio = 0) then (s, "panic:priority")
      else ({ ps := ps, pr := pr, sd := sd, rd := rd, snd := mkSender ps sd, rcv := mkRecv pr rd }, "ok")
    | _, _, _, _, _ => bad
  | "batch" :: ms =>
    match ms.mapM pMsg with
    | none => bad
    | some ms =>
      if ms.isEmpty ∨ ms.length > 10 then bad else
      if s.rcv.err.isSome then
        (s, s!"s={bitsStr (ms.map fun _ => false)} st={stStr s.rcv} d=-")
      else
        let (snd, bits) := ms.foldl (fun (acc : Sender × List Bool) m =>
          let (s', ok) := acc.1.send m.1 m.2
          (s', acc.2 ++ [ok])) (s.snd, [])
        let (snd, pkts) := snd.drain snd.fuel []
        let n0 := s.rcv.delivered.length
        let rcv := feedPackets s.rcv pkts
        ({ s with snd := snd, rcv := rcv }, s!"s={bitsStr bits} st={stStr rcv} d={delivStr (rcv.delivered.drop n0)}")
  | "gbatch" :: pm :: ms =>
    match pMsg pm, ms.mapM pMsg with
    | some p, some ms =>
      if ms.length > 9 then bad else
      -- the primer must be accepted and fit one sendSomePacketMsgs sweep
      if (s.snd.chans.find? (·.id = p.1)).isNone ∨ p.2.isEmpty ∨ packetsOf p.2 s.ps > 9 then bad else
      if s.rcv.err.isSome then
        (s, s!"s={bitsStr ((p :: ms).map fun _ => false)} st={stStr s.rcv} d=-")
      else
        let (snd, ok0) := s.snd.trySend p.1 p.2
        let (snd, pk1) := snd.drain snd.fuel []
        let (snd, bits) := ms.foldl (fun (acc : Sender × List Bool) m =>
          let (s', ok) := acc.1.trySend m.1 m.2
          (s', acc.2 ++ [ok])) (snd, [ok0])
        let (snd, pk2) := snd.drain snd.fuel []
        let n0 := s.rcv.delivered.length
        let rcv := (feedPackets s.rcv (pk1 ++ pk2)).onEv .eof     -- FlushStop closes the transport
        ({ s with snd := snd, rcv := rcv }, s!"s={bitsStr bits} st={stStr rcv} d={delivStr (rcv.delivered.drop n0)}")
    | _, _ => bad
  | ["raw", k, h] =>
    match pPattern k true, pHex h with
    | some pat, some bs =>
      let evs := if pat.all (· == 0) then bs.map Ev.byte
                 else chunkEvents ((bs.length + 1) * (pat.length + 2)) pat pat bs []
      let r := (mkRecv s.pr s.rd).run (evs ++ [.eof])
      (s, s!"st={stStr r} d={delivStr r.delivered}")
    | _, _ => bad
  | _ => bad

end GnoVerif.Drive.C43

def main : IO Unit := GnoVerif.Kit.loop ({} : GnoVerif.Drive.C43.St) GnoVerif.Drive.C43.step
