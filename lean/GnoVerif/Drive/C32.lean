import GnoVerif.Base.Kit
import GnoVerif.Spec.C32
/-!
Driver for C32 (block validation).  One (state, block) pair per line:

  vb  S1 … S15  B1 … B19  COMMIT p1 … pN  | go-only tokens …     ValidateBasic + ValidateBlock
  ap  (same tokens)                                               BlockExecutor.ApplyBlock
  und HEX                                  bytes that do not amino-decode into a Block

  S1 blockVersion S2 appVersion S3 chainID (hex strings)   S4 initialHeight S5 lastBlockHeight
  S6 lastBlockTotalTx S7 lastBlockID (id) S8 lastBlockTime (ns) S9 validators S10 lastValidators
  (`-` or `addr:power,…` in set order, addr = big-endian number of the 20 address bytes)
  S11 appHash S12 lastResultsHash S13 ConsensusParams.Hash() S14 Validators.Hash() S15 NextValidators.Hash()
  B1 version B2 chainID B3 height B4 time (ns) B5 numTxs B6 totalTxs B7 appVersion
  B8 lastBlockID `id:hashLen:total:partsHashLen` B9 lastCommitHash B10 dataHash B11 validatorsHash
  B12 nextValidatorsHash B13 consensusHash B14 appHash B15 lastResultsHash B16 proposer (number)
  B17 len(Data.Txs) B18 Data.Hash() B19 LastCommit.Hash()
  COMMIT `nil` | `C<id>`     precommit `-` | `type:height:round:bid:ts:vidx:sigbit`
  Everything after the token `|` is for the Go side only (how to rebuild the real objects).

Answer (vb): `<Block.ValidateBasic>,<State.ValidateBlock>` each `ok` | `err:<class>` | `panic:<class>`;
(ap): `err:<class>` (ValidateBlock's) or `ok h=… tot=… time=… lastvals=… lbid=1`, the block-derived fields of the new State;
`err:undecodable` for `und`; `err:badop` for a line that does not parse.
-/
namespace GnoVerif.Drive.C32
open GnoVerif GnoVerif.Kit GnoVerif.C32

def parseVals (s : String) : Option C36.ValSet :=
  if s == "-" then some [] else
  (s.splitOn ",").mapM fun t =>
    match t.splitOn ":" with
    | [a, p] => do
      let a ← parseNat a
      let p ← parseInt p
      pure { addr := a, power := p }
    | _ => none

def parseBit (s : String) : Option Bool :=
  if s == "1" then some true else if s == "0" then some false else none

def parsePrecommit (s : String) : Option (Option Precommit) :=
  if s == "-" then some none else
  match s.splitOn ":" with
  | [ty, h, r, bid, ts, vidx, n] => do
    let ty ← parseNat ty
    let h ← parseInt h
    let r ← parseInt r
    let bid ← parseNat bid
    let ts ← parseInt ts
    let vidx ← parseInt vidx
    let n ← parseBit n
    pure (some { e := { type := ty, height := h, round := r, blockID := bid, valIndex := vidx,
                        valAddr := 0, sigOK := n, sigOKOld := false }, ts := ts })
  | _ => none

def parseLBID (s : String) : Option LastBlockID :=
  match s.splitOn ":" with
  | [id, hl, t, pl] => do
    let id ← parseNat id
    let hl ← parseNat hl
    let t ← parseInt t
    let pl ← parseNat pl
    pure { id := id, hashLen := hl, total := t, partsHashLen := pl }
  | _ => none

def parseCommit (c : String) (ps : List String) : Option (Option Commit) :=
  if c == "nil" then (if ps.isEmpty then some none else none)
  else if c.startsWith "C" then do
    let id ← parseNat (c.drop 1).toString
    let ps ← ps.mapM parsePrecommit
    pure (some { blockID := id, precommits := ps })
  else none

def parseState : List String → Option State
  | [s1, s2, s3, s4, s5, s6, s7, s8, s9, s10, s11, s12, s13, s14, s15] => do
    pure { blockVersion := ← hexToBytes s1, appVersion := ← hexToBytes s2, chainID := ← hexToBytes s3,
           initialHeight := ← parseInt s4, lastBlockHeight := ← parseInt s5,
           lastBlockTotalTx := ← parseInt s6, lastBlockID := ← parseNat s7, lastBlockTime := ← parseInt s8,
           validators := ← parseVals s9, lastValidators := ← parseVals s10,
           appHash := ← hexToBytes s11, lastResultsHash := ← hexToBytes s12,
           consensusHashC := ← hexToBytes s13, validatorsHashC := ← hexToBytes s14,
           nextValidatorsHashC := ← hexToBytes s15 }
  | _ => none

def parseBlock (bs : List String) (commit : Option Commit) : Option Block :=
  match bs with
  | [b1, b2, b3, b4, b5, b6, b7, b8, b9, b10, b11, b12, b13, b14, b15, b16, b17, b18, b19] => do
    let h : Header :=
      { version := ← hexToBytes b1, chainID := ← hexToBytes b2, height := ← parseInt b3,
        time := ← parseInt b4, numTxs := ← parseInt b5, totalTxs := ← parseInt b6,
        appVersion := ← hexToBytes b7, lastBlockID := ← parseLBID b8,
        lastCommitHash := ← hexToBytes b9, dataHash := ← hexToBytes b10,
        validatorsHash := ← hexToBytes b11, nextValidatorsHash := ← hexToBytes b12,
        consensusHash := ← hexToBytes b13, appHash := ← hexToBytes b14,
        lastResultsHash := ← hexToBytes b15, proposer := ← parseNat b16 }
    pure { header := h, nTxs := ← parseNat b17, dataHashC := ← hexToBytes b18,
           lastCommit := commit, lastCommitHashC := ← hexToBytes b19 }
  | _ => none

/-- a short digest of a validator list: count / Σ power / Σ (i+1)·addr mod 1000000007
(the kit truncates output lines at 300 characters). -/
def valsStr (vs : C36.ValSet) : String :=
  let rec go : List C36.Validator → Nat → Nat → Nat
    | [], _, acc => acc
    | v :: rest, i, acc => go rest (i + 1) ((acc + i * (v.addr % 1000000007)) % 1000000007)
  s!"{vs.length}/{C36.sumPowers vs}/{go vs 1 0}"

/-- `ap`: the model's `applyBlock`; the block-derived fields of the new state. -/
def applyStr (s : State) (b : Block) : String :=
  match applyBlock s b 1 ⟨[], [], [], [], [], []⟩ with
  | .error e => e.toString
  | .ok s' => s!"ok h={s'.lastBlockHeight} tot={s'.lastBlockTotalTx} time={s'.lastBlockTime} lastvals={valsStr s'.lastValidators} lbid={if s'.lastBlockID = 1 then "1" else "0"}"

def run (t : List String) : String :=
  match t with
  | ["und", _] => "err:undecodable"
  | op :: rest =>
    if op ≠ "vb" ∧ op ≠ "ap" then "err:badop" else
    let main := rest.takeWhile (· ≠ "|")
    if main.length < 35 then "err:badop" else
    match parseState (main.take 15), main.drop 34 with
    | some s, c :: ps =>
      match parseCommit c ps with
      | some commit =>
        match parseBlock ((main.drop 15).take 19) commit with
        | some b =>
          if !C36.validSet s.validators || !C36.validSet s.lastValidators then "err:badset"
          else if op == "ap" then applyStr s b
          else Res.toString (validateBasic b) ++ "," ++ Res.toString (validateBlock s b)
        | none => "err:badop"
      | none => "err:badop"
    | _, _ => "err:badop"
  | _ => "err:badop"

def step (_ : Unit) (t : List String) : Unit × String := ((), run t)

end GnoVerif.Drive.C32

def main : IO Unit := GnoVerif.Kit.loop () GnoVerif.Drive.C32.step
