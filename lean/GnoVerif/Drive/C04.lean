import GnoVerif.Base.Kit
import GnoVerif.Model.C04Eval
import GnoVerif.Model.C04Known
import GnoVerif.Model.C04Line
/-!
Driver for C04: parses one MiniGo program per op line (S-expression tokens
written by harness/minigo), runs the model evaluator and prints the canonical
outcome line `<status> <output>` (see harness/cmd/c04/main.go).
-/
namespace GnoVerif.Drive.C04
open GnoVerif GnoVerif.Kit GnoVerif.C04

inductive SExp
  | atom (s : String)
  | list (xs : List SExp)
  deriving Inhabited

/-- parse one S-expression from a token list (`(` and `)` are own tokens) -/
partial def parseSExp : List String → Option (SExp × List String)
  | [] => none
  | "(" :: rest => parseList rest []
  | ")" :: _ => none
  | t :: rest => some (.atom t, rest)
where
  parseList : List String → List SExp → Option (SExp × List String)
  | [], _ => none
  | ")" :: rest, acc => some (.list acc.reverse, rest)
  | toks, acc =>
    match parseSExp toks with
    | some (x, rest) => parseList rest (x :: acc)
    | none => none

partial def parseAll (toks : List String) (acc : List SExp) : Option (List SExp) :=
  match toks with
  | [] => some acc.reverse
  | _ => match parseSExp toks with
    | some (x, rest) => parseAll rest (x :: acc)
    | none => none

abbrev P := Except String

def fail {α} (msg : String) : P α := .error msg

def atomOf : SExp → P String
  | .atom s => pure s
  | _ => fail "atom expected"

def optAtom : SExp → P (Option String)
  | .atom "_" => pure none
  | .atom s => pure (some s)
  | _ => fail "atom expected"

def natOf (x : SExp) : P Nat := do
  match (← atomOf x).toNat? with
  | some n => pure n
  | none => fail "nat expected"

def intOf (x : SExp) : P Int := do
  match (← atomOf x).toInt? with
  | some n => pure n
  | none => fail "int expected"

def ityOf (x : SExp) : P ITy := do
  match ITy.ofName (← atomOf x) with
  | some t => pure t
  | none => fail "integer type expected"

partial def tyOf : SExp → P Ty
  | .atom "bool" => pure .bool
  | .atom "str" => pure .str
  | .atom "any" => pure .any
  | .atom "fn" => pure .fn
  | .atom "rterr" => pure .rterr
  | .atom s => match ITy.ofName s with
    | some t => pure (.int t)
    | none => fail ("type " ++ s)
  | .list [.atom "arr", n, e] => do pure (.arr (← natOf n) (← tyOf e))
  | .list [.atom "sl", e] => do pure (.slice (← tyOf e))
  | .list [.atom "map", k, v] => do pure (.map (← tyOf k) (← tyOf v))
  | .list [.atom "ptr", e] => do pure (.ptr (← tyOf e))
  | .list [.atom "st", .atom n] => pure (.named n)
  | .list (.atom "fn" :: _) => pure .fn
  | _ => fail "type"

def arOpOf : String → Option ArOp
  | "add" => some .add | "sub" => some .sub | "mul" => some .mul | "quo" => some .quo | "rem" => some .rem
  | "and" => some .and | "or" => some .or | "xor" => some .xor | "andnot" => some .andnot
  | _ => none

def cmpOpOf : String → Option CmpOp
  | "eq" => some .eq | "ne" => some .ne | "lt" => some .lt | "le" => some .le | "gt" => some .gt | "ge" => some .ge
  | _ => none

def binOpOf (s : String) : Option BinOp :=
  match arOpOf s with
  | some o => some (.ar o)
  | none => match cmpOpOf s with
    | some o => some (.cmp o)
    | none => match s with
      | "shl" => some .shl | "shr" => some .shr | "cat" => some .concat
      | _ => none

def unOpOf : String → Option UnOp
  | "neg" => some .neg | "compl" => some .compl | "pos" => some .pos | "not" => some .not
  | _ => none

def ckindOf : SExp → P CKind
  | .atom "arr" => pure .arr | .atom "sl" => pure .slice | .atom "str" => pure .str
  | .atom "map" => pure .map | .atom "parr" => pure .ptrArr
  | _ => fail "container kind"

partial def cexprOf : SExp → P CExpr
  | .list [.atom "n", v] => do pure (.lit (← intOf v))
  | .list [.atom "shl", a, n] => do pure (.shl (← cexprOf a) (← natOf n))
  | .list [.atom "shr", a, n] => do pure (.shr (← cexprOf a) (← natOf n))
  | .list [.atom "neg", a] => do pure (.neg (← cexprOf a))
  | .list [.atom "compl", a] => do pure (.compl (← cexprOf a))
  | .list [.atom op, a, b] => match arOpOf op with
    | some o => do pure (.bin o (← cexprOf a) (← cexprOf b))
    | none => fail ("cexpr op " ++ op)
  | _ => fail "cexpr"

def bytesOf (x : SExp) : P (List UInt8) := do
  match hexToBytes (← atomOf x) with
  | some b => pure b
  | none => fail "hex expected"

mutual
partial def exprOf : SExp → P Expr
  | .list (.atom hd :: args) =>
    match hd, args with
    | "i", [t, v] => do pure (.lit (.int (← ityOf t) (← intOf v)))
    | "ib", [t, v] => do pure (.lit (.int (← ityOf t) (← intOf v)))
    | "b", [.atom v] => pure (.lit (.bool (v == "true")))
    | "s", [h] => do pure (.lit (.str (← bytesOf h)))
    | "c", [t, c] => do pure (.cexpr (← ityOf t) (← cexprOf c))
    | "v", [.atom x] => pure (.var x)
    | "land", [a, b] => do pure (.land (← exprOf a) (← exprOf b))
    | "lor", [a, b] => do pure (.lor (← exprOf a) (← exprOf b))
    | "conv", [t, a] => do pure (.conv (← tyOf t) (← exprOf a))
    | "box", [t, a] => do pure (.box (← tyOf t) (← exprOf a))
    | "boxi", [t, a] => do pure (.box (← tyOf t) (← exprOf a))
    | "call", f :: as => do pure (.call (← exprOf f) (← as.mapM exprOf))
    | "idx", [k, a, i] => do pure (.index (← ckindOf k) (← exprOf a) (← exprOf i))
    | "idxok", [a, i] => do pure (.indexOk (← exprOf a) (← exprOf i))
    | "slc", [k, a, lo, hi, mx] => do
      pure (.sliceE (← ckindOf k) (← exprOf a) (← optExpr lo) (← optExpr hi) (← optExpr mx))
    | "fld", [a, i] => do pure (.field false (← exprOf a) (← natOf i))
    | "pfld", [a, i] => do pure (.field true (← exprOf a) (← natOf i))
    | "deref", [a] => do pure (.deref (← exprOf a))
    | "addr", [a] => do pure (.addr (← exprOf a))
    | "new", [t] => do pure (.newE (← tyOf t))
    | "nil", [t] => do pure (.nilE (← tyOf t))
    | "slit", t :: es => do pure (.structLit (← tyOf t) (← es.mapM exprOf))
    | "alit", t :: n :: es => do pure (.arrLit (← tyOf t) (← natOf n) (← es.mapM exprOf))
    | "sllit", t :: es => do pure (.sliceLit (← tyOf t) (← es.mapM exprOf))
    | "mlit", k :: v :: kvs => do
      let ps ← kvs.mapM fun kv => match kv with
        | .list [a, b] => do pure ((← exprOf a), (← exprOf b))
        | _ => fail "map literal entry"
      pure (.mapLit (← tyOf k) (← tyOf v) ps)
    | "addrlit", [a] => do pure (.addrLit (← exprOf a))
    | "len", [a] => do pure (.len (← exprOf a))
    | "cap", [a] => do pure (.cap (← exprOf a))
    | "append", s :: xs => do pure (.append (← exprOf s) (← xs.mapM exprOf))
    | "appendsl", [s, t] => do pure (.appendSl (← exprOf s) (← exprOf t))
    | "copy", [d, s] => do pure (.copy (← exprOf d) (← exprOf s))
    | "mksl", [t, n, c] => do pure (.makeSlice (← tyOf t) (← exprOf n) (← optExpr c))
    | "mkmap", [k, v] => do pure (.makeMap (← tyOf k) (← tyOf v))
    | "flit", [i] => do pure (.funcLit (← natOf i))
    | "recover", [] => pure .recover
    | "assert", [a, t] => do pure (.assert (← exprOf a) (← tyOf t))
    | "assertok", [a, t] => do pure (.assertOk (← exprOf a) (← tyOf t))
    | op, [a] => match unOpOf op with
      | some o => do pure (.un o (← exprOf a))
      | none => fail ("expr " ++ op)
    | op, [a, b] => match binOpOf op with
      | some o => do pure (.bin o (← exprOf a) (← exprOf b))
      | none => fail ("expr " ++ op)
    | op, _ => fail ("expr " ++ op)
  | _ => fail "expr"

partial def optExpr : SExp → P (Option Expr)
  | .atom "_" => pure none
  | x => do pure (some (← exprOf x))
end

def listOf : SExp → P (List SExp)
  | .list xs => pure xs
  | _ => fail "list expected"

mutual
partial def stmtOf : SExp → P Stmt
  | .list (.atom hd :: args) =>
    match hd, args with
    | "var", [.atom x, t, e] => do pure (.varDecl x (← tyOf t) (← optExpr e))
    | "def", [xs, e] => do pure (.define (← (← listOf xs).mapM atomOf) (← exprOf e))
    | "set", [lvs, es] => do pure (.assign (← (← listOf lvs).mapM exprOf) (← (← listOf es).mapM exprOf))
    | "opset", [.atom op, lv, e] => match binOpOf op with
      | some o => do pure (.opAssign o (← exprOf lv) (← exprOf e))
      | none => fail "opset op"
    | "inc", [lv] => do pure (.incDec true (← exprOf lv))
    | "dec", [lv] => do pure (.incDec false (← exprOf lv))
    | "expr", [e] => do pure (.exprS (← exprOf e))
    | "print", es => do pure (.print (← es.mapM exprOf))
    | "delete", [m, k] => do pure (.deleteS (← exprOf m) (← exprOf k))
    | "if", [init, c, th, el] => do
      pure (.ifS (← optStmt init) (← exprOf c) (← stmtsOf th) (← stmtsOf el))
    | "for", [l, init, c, post, body] => do
      pure (.forS (← optAtom l) (← optStmt init) (← optExpr c) (← optStmt post) (← stmtsOf body))
    | "range", [l, kind, k, v, e, body] => do
      let kd ← match kind with
        | .atom "sl" => pure RangeKind.slice
        | .atom "arr" => pure RangeKind.arr
        | .atom "str" => pure RangeKind.str
        | _ => fail "range kind"
      pure (.rangeS (← optAtom l) kd (← optAtom k) (← optAtom v) (← exprOf e) (← stmtsOf body))
    | "switch", [l, init, tag, cls] => do
      let cs ← (← listOf cls).mapM fun c => match c with
        | .list [.atom "case", es, body] => do
          pure (some (← (← listOf es).mapM exprOf), (← stmtsOf body))
        | .list [.atom "default", body] => do
          pure ((none : Option (List Expr)), (← stmtsOf body))
        | _ => fail "switch clause"
      pure (.switchS (← optAtom l) (← optStmt init) (← optExpr tag) cs)
    | "tswitch", [l, bind, x, cls] => do
      let cs ← (← listOf cls).mapM fun c => match c with
        | .list [.atom "case", ts, body] => do
          let tys ← (← listOf ts).mapM fun t => match t with
            | .atom "nil" => pure (none : Option Ty)
            | t => do pure (some (← tyOf t))
          pure (some tys, (← stmtsOf body))
        | .list [.atom "default", body] => do
          pure ((none : Option (List (Option Ty))), (← stmtsOf body))
        | _ => fail "type switch clause"
      pure (.typeSwitch (← optAtom l) (← optAtom bind) (← exprOf x) cs)
    | "block", ss => do pure (.block (← ss.mapM stmtOf))
    | "label", [.atom l, s] => do pure (.labeled l (← stmtOf s))
    | "break", [l] => do pure (.breakS (← optAtom l))
    | "continue", [l] => do pure (.continueS (← optAtom l))
    | "goto", [.atom l] => pure (.gotoS l)
    | "fallthrough", [] => pure .fallthroughS
    | "ret", es => do pure (.ret (← es.mapM exprOf))
    | "defer", f :: as => do pure (.deferS (← exprOf f) (← as.mapM exprOf))
    | "panic", [e] => do pure (.panicS (← exprOf e))
    | op, _ => fail ("stmt " ++ op)
  | _ => fail "stmt"

partial def optStmt : SExp → P (Option Stmt)
  | .atom "_" => pure none
  | x => do pure (some (← stmtOf x))

partial def stmtsOf : SExp → P (List Stmt)
  | .list xs => xs.mapM stmtOf
  | _ => fail "statement list expected"
end

def bindingOf : SExp → P (String × Ty)
  | .list [.atom x, t] => do pure (x, (← tyOf t))
  | _ => fail "binding"

def funcOf : SExp → P FuncDecl
  | .list [.atom hd, .atom name, .list (.atom "params" :: ps), .list (.atom rhd :: rs), body] => do
    if (hd == "fn" || hd == "lit") && (rhd == "results" || rhd == "nresults") then
      pure { name := name, params := (← ps.mapM bindingOf), results := (← rs.mapM bindingOf), body := (← stmtsOf body) }
    else fail "func"
  | _ => fail "func"

def progOf : List SExp → P Program
  | [.list (.atom "types" :: ts), .list (.atom "funcs" :: fs), .list (.atom "globals" :: gs), mainIdx] => do
    let types ← ts.mapM fun t => match t with
      | .list (.atom n :: fts) => do
        pure ({ name := n, fields := (← fts.mapM tyOf) } : StructDecl)
      | _ => fail "type decl"
    let funcs ← fs.mapM funcOf
    let globals ← gs.mapM fun g => match g with
      | .list [.atom x, t, e] => do pure (x, (← tyOf t), (← optExpr e))
      | _ => fail "global"
    pure { types := types, funcs := funcs.toArray, globals := globals, entry := (← natOf mainIdx) }
  | _ => fail "program shape"

/-! ### canonical outcome line -/

def fuelDefault : Nat := 2000000

def runLine (toks : List String) : String :=
  match parseAll toks [] with
  | none => "err:parse"
  | some sx =>
    match progOf sx with
    | .error _ => "err:parse"
    | .ok p =>
      outcomeLine (runProgram p fuelDefault)

/-- a pinned known-finding witness: the model must give the recorded Go answer;
the line is answered with the recorded (observed) GnoVM answer -/
def runKnown (key : String) (toks : List String) : String :=
  match Known.recorded key with
  | none => "err:badop"
  | some (goAns, gnoAns) =>
    if runLine toks == goAns then gnoAns else "err:kf-model-drift " ++ runLine toks

def step (_ : Unit) (t : List String) : Unit × String :=
  match t with
  | "prog" :: rest => ((), runLine rest)
  | "kf" :: key :: "prog" :: rest => ((), runKnown key rest)
  -- extended program (source text outside the model's fragment): no prediction,
  -- the harness compares the GnoVM with native Go only
  | ["xprog", src] => ((), if (hexToBytes src).isSome && src != "e" then "ext" else "err:badop")
  | _ => ((), "err:badop")

end GnoVerif.Drive.C04

def main : IO Unit := GnoVerif.Kit.loop () GnoVerif.Drive.C04.step
