import GnoVerif.Base.Kit
import GnoVerif.Model.C20
/-! Driver for C20: parses the type environment / value tokens written by the
harness (harness/cmd/c20/mv.go) and runs the amino model on them.

op lines
  rtx  <type> <seed> <depth>              → `n`
  decx <type> <hex>                       → `n`
  rt   <type> <seed> <depth> <env> <mv>   → `<hex> rt=ok|bad|skip` | `err:enc`
  rtv  <type> <env> <mv>                  → as rt (explicit value)
  dec  <type> <hex> <env>                 → `ok <mv>` | `err`
-/
namespace GnoVerif.Drive.C20
open GnoVerif GnoVerif.Kit GnoVerif.C20

abbrev P (α : Type) := List Char → Option (α × List Char)

def isNameChar (c : Char) : Bool :=
  c.isAlphanum || c == '.' || c == '_' || c == '#'

def pName : P String := fun cs =>
  let n := cs.takeWhile isNameChar
  if n.isEmpty then none else some (String.ofList n, cs.drop n.length)

def pNat : P Nat := fun cs =>
  let d := cs.takeWhile Char.isDigit
  if d.isEmpty then none else (String.ofList d).toNat?.map fun n => (n, cs.drop d.length)

def pInt : P Int := fun cs =>
  match cs with
  | '-' :: rest => (pNat rest).map fun (n, r) => (-(n : Int), r)
  | _ => (pNat cs).map fun (n, r) => ((n : Int), r)

def expect (c : Char) : List Char → Option (List Char)
  | d :: rest => if c == d then some rest else none
  | [] => none

/-- TD parser (grammar in mv.go). -/
partial def pTD : P TD := fun cs =>
  match cs with
  | 'u' :: rest => (pNat rest).map fun (b, r) => (.uvar b, r)
  | 'i' :: rest => (pNat rest).map fun (b, r) => (.svar b, r)
  | 'p' :: rest => (pNat rest).map fun (b, r) => (.pvar b, r)
  | 'x' :: '3' :: '2' :: s :: rest => some (.fix32 (s == 'i'), rest)
  | 'x' :: '6' :: '4' :: s :: rest => some (.fix64 (s == 'i'), rest)
  | 'X' :: '3' :: '2' :: _ :: rest => some (.unsupported, rest)
  | 'b' :: rest => some (.bool, rest)
  | 's' :: rest => some (.str, rest)
  | 'y' :: rest => some (.bytes, rest)
  | 'a' :: rest => (pNat rest).map fun (n, r) => (.barr n, r)
  | 'T' :: rest => some (.time, rest)
  | 'D' :: rest => some (.dur, rest)
  | 'I' :: '(' :: rest =>
    match pName rest with
    | some (n, r) => (expect ')' r).map fun r' => (.iface n.toUTF8.toList, r')
    | none => none
  | '$' :: rest => (pName rest).map fun (n, r) => (.ref n.toUTF8.toList, r)
  | 'M' :: rest =>
    let (gs, rest) := match rest with | 's' :: r => (true, r) | r => (false, r)
    match expect '(' rest with
    | none => none
    | some r =>
      match pTD r with
      | none => none
      | some (t, r') => (expect ')' r').map fun r'' => (.marsh gs t, r'')
  | 'L' :: rest =>
    let (ptr, rest) := match rest with | '*' :: r => (true, r) | r => (false, r)
    let (ne, rest) := match rest with | 'n' :: r => (true, r) | r => (false, r)
    match expect '(' rest with
    | none => none
    | some r =>
      match pTD r with
      | none => none
      | some (t, r') => (expect ')' r').map fun r'' => (.list ptr ne t, r'')
  | 'A' :: rest =>
    -- arrays of non-bytes: not modelled; skip to the matching ')'
    let rec skip (depth : Nat) : List Char → Option (List Char)
      | [] => none
      | '(' :: r => skip (depth + 1) r
      | ')' :: r => if depth ≤ 1 then some r else skip (depth - 1) r
      | _ :: r => skip depth r
    (skip 0 rest).map fun r => (.unsupported, r)
  | _ => none

partial def pFields : List Char → List FieldD → Option (List FieldD × List Char)
  | '}' :: rest, acc => some (acc.reverse, rest)
  | cs, acc =>
    let cs := match cs with | ';' :: r => r | r => r
    match pNat cs with
    | none => none
    | some (num, r) =>
      let (ptr, r) := match r with | '*' :: r' => (true, r') | r' => (false, r')
      let (we, r) := match r with | 'w' :: r' => (true, r') | r' => (false, r')
      match expect ':' r with
      | none => none
      | some r =>
        match pTD r with
        | none => none
        | some (td, r') => pFields r' (⟨num, ptr, we, td⟩ :: acc)

partial def pReserved : List Char → List Nat → List Nat
  | 'r' :: rest, acc => match pNat rest with
    | some (n, r) => pReserved (match r with | ',' :: r' => r' | r' => r') (n :: acc)
    | none => acc.reverse
  | _, acc => acc.reverse

def pDef (cs : List Char) : Option Def :=
  match cs with
  | '{' :: rest =>
    match pFields rest [] with
    | none => none
    | some (fs, r) =>
      match r with
      | [] => some (.struct fs [])
      | '|' :: r' => some (.struct fs (pReserved r' []))
      | _ => none
  | _ => match pTD cs with
    | some (td, []) => some (.alias td)
    | _ => none

/-- env entry: `name[@if1,if2]=def`. Struct definitions contain `|` only as the
reserved separator `}|r`, entries are separated by `&`. -/
def pEntry (s : String) : Option Entry :=
  match s.splitOn "=" with
  | [lhs, rhs] =>
    let (name, ifs) := match lhs.splitOn "@" with
      | [n, l] => (n, l.splitOn ",")
      | _ => (lhs, [])
    (pDef rhs.toList).map fun d => ⟨name.toUTF8.toList, ifs.map (·.toUTF8.toList), d⟩
  | _ => none

def pEnv (s : String) : Option Env :=
  if s == "-" then some [] else (s.splitOn "&").mapM pEntry

/-- hex run -/
def pHex (cs : List Char) : Option (Bytes × List Char) :=
  let h := cs.takeWhile fun c => hexDigit c |>.isSome
  if h.length % 2 ≠ 0 then none
  else
    let rec go : List Char → Bytes → Bytes
      | a :: b :: r, acc => go r (UInt8.ofNat (((hexDigit a).getD 0) * 16 + (hexDigit b).getD 0) :: acc)
      | _, acc => acc.reverse
    some (go h [], cs.drop h.length)

partial def pVal : P Val := fun cs =>
  match cs with
  | 'u' :: rest => (pNat rest).map fun (n, r) => (.u n, r)
  | 'i' :: rest => (pInt rest).map fun (z, r) => (.i z, r)
  | 't' :: rest => some (.b true, rest)
  | 'f' :: rest => some (.b false, rest)
  | 'x' :: rest => (pHex rest).map fun (bs, r) => (.x bs, r)
  | 'T' :: rest =>
    match pInt rest with
    | some (s, ',' :: r) => (pInt r).map fun (ns, r') => (.t s ns, r')
    | _ => none
  | 'D' :: rest => (pInt rest).map fun (z, r) => (.d z, r)
  | '~' :: rest => some (.nil, rest)
  | '[' :: rest => (pVals ']' ',' rest []).map fun (vs, r) => (.list vs, r)
  | '{' :: rest => (pVals '}' ';' rest []).map fun (vs, r) => (.struct vs, r)
  | '<' :: rest =>
    match pName rest with
    | some (n, ':' :: r) =>
      match pVal r with
      | some (v, '>' :: r') => some (.any n.toUTF8.toList v, r')
      | _ => none
    | _ => none
  | 'm' :: g :: '(' :: rest =>
    match pVal rest with
    | some (v, ')' :: r) => some (.m (g == '1') v, r)
    | _ => none
  | _ => none
where
  pVals (close sep : Char) : List Char → List Val → Option (List Val × List Char)
    | c :: rest, acc =>
      if c == close then some (acc.reverse, rest)
      else
        let cs := if c == sep then rest else c :: rest
        match pVal cs with
        | none => none
        | some (v, r) => pVals close sep r (v :: acc)
    | [], _ => none

def hexOf (bs : Bytes) : String :=
  String.ofList (bs.flatMap fun b => [nibble (b.toNat / 16), nibble (b.toNat % 16)])

def nameStr (bs : Bytes) : String := String.ofList (bs.map fun b => Char.ofNat b.toNat)

partial def showVal : Val → String
  | .u n => s!"u{n}"
  | .i z => s!"i{z}"
  | .b true => "t"
  | .b false => "f"
  | .x bs => "x" ++ hexOf bs
  | .t s ns => s!"T{s},{ns}"
  | .d z => s!"D{z}"
  | .nil => "~"
  | .list vs => "[" ++ ",".intercalate (vs.map showVal) ++ "]"
  | .struct vs => "{" ++ ";".intercalate (vs.map showVal) ++ "}"
  | .any n v => "<" ++ nameStr n ++ ":" ++ showVal v ++ ">"
  | .m gz v => (if gz then "m1(" else "m0(") ++ showVal v ++ ")"

/-- same rendering with the goZero bit of marshaler nodes erased (the model
cannot recompute it after UnmarshalAmino). -/
partial def showValNoGZ : Val → String
  | .list vs => "[" ++ ",".intercalate (vs.map showValNoGZ) ++ "]"
  | .struct vs => "{" ++ ";".intercalate (vs.map showValNoGZ) ++ "}"
  | .any n v => "<" ++ nameStr n ++ ":" ++ showValNoGZ v ++ ">"
  | .m _ v => "m(" ++ showValNoGZ v ++ ")"
  | v => showVal v

def tdHasMarsh : TD → Bool
  | .marsh _ _ => true
  | .list _ _ e => tdHasMarsh e
  | _ => false

def envHasMarsh (env : Env) : Bool :=
  env.any fun e => match e.defn with
    | .alias td => tdHasMarsh td
    | .struct fs _ => fs.any fun f => tdHasMarsh f.td

def hexE (bs : Bytes) : String := if bs.isEmpty then "e" else hexOf bs

def runRT (name envS mvS : String) : String :=
  match pEnv envS, pVal mvS.toList with
  | some env, some (v, []) =>
    match marshal env name.toUTF8.toList v with
    | .error .badValue => "err:badop"
    | .error .unsupported => "err:badop"
    | .error _ => "err:enc"
    | .ok bz =>
      let rt :=
        if envHasMarsh env then "skip"
        else match unmarshal env name.toUTF8.toList bz with
          | some v' => if showVal v' == showVal v then "ok" else "bad"
          | none => "bad"
      hexE bz ++ " rt=" ++ rt
  | _, _ => "err:badop"

def runDec (name hexS envS : String) : String :=
  match pEnv envS, hexOpt hexS with
  | some env, some obz =>
    match unmarshal env name.toUTF8.toList (obz.getD []) with
    | some v => "ok " ++ showVal v
    | none => "err"
  | _, _ => "err:badop"

def hex16 (n : Nat) : String :=
  String.ofList ((List.range 16).reverse.map fun k => nibble ((n / 16 ^ k) % 16))

/-- head, total length and FNV-1a/64 of a long output (same as the harness). -/
def compact (s : String) : String :=
  let bs := s.toUTF8
  if bs.size ≤ 200 then s
  else
    let h := bs.foldl (fun (h : UInt64) b => (h ^^^ b.toUInt64) * 1099511628211) 14695981039346656037
    String.ofList (s.toList.take 96) ++ s!"~{bs.size}~" ++ hex16 h.toNat

def step (_ : Unit) (t : List String) : Unit × String :=
  match t with
  | "rtx" :: _ => ((), "n")
  | "decx" :: _ => ((), "n")
  | ["rt", name, _, _, env, mv] => ((), compact (runRT name env mv))
  | ["rtv", name, env, mv] => ((), compact (runRT name env mv))
  | ["dec", name, hex, env] => ((), compact (runDec name hex env))
  | _ => ((), "err:badop")

end GnoVerif.Drive.C20

def main : IO Unit := GnoVerif.Kit.loop () GnoVerif.Drive.C20.step
