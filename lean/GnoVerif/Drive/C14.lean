import GnoVerif.Base.Kit
import GnoVerif.Model.C14
/-! Driver for C14: runs the bank-ledger model on op lines (see harness/cmd/c14/main.go
for the line format) and prints `<result> <canonical state>` after every op. -/
namespace GnoVerif.Drive.C14
open GnoVerif GnoVerif.Kit GnoVerif.C14

/-- the account tier of the harness: gno.land's allowlist `{"ugnot"}`. -/
def tier (d : Denom) : Bool := d == "ugnot"

def nAddr : Nat := 6

def parseAddr (t : String) : Option Addr :=
  match t.toList with
  | ['a', c] => if '0' ≤ c ∧ c.toNat < '0'.toNat + nAddr then some (c.toNat - '0'.toNat) else none
  | _ => none

def splitAtLast (p : Char) (cs : List Char) : Option (List Char × List Char) :=
  let r := cs.reverse
  if r.contains p then
    let post := (r.takeWhile (· != p)).reverse
    let pre := ((r.dropWhile (· != p)).drop 1).reverse
    some (pre, post)
  else none

def splitAtFirst (p : Char) (cs : List Char) : Option (List Char × List Char) :=
  if cs.contains p then some (cs.takeWhile (· != p), (cs.dropWhile (· != p)).drop 1) else none

def parseI64 (cs : List Char) : Option Int :=
  let t := String.ofList cs
  match t.toInt? with
  | some n => if inI64 n && toString n == t then some n else none
  | none => none

def parseCoin (t : String) : Option Coin :=
  match splitAtLast '=' t.toList with
  | some (d, a) => (parseI64 a).map (fun n => ⟨String.ofList d, n⟩)
  | none => none

def parseCoins (t : String) : Option Coins :=
  if t == "-" then some [] else (t.splitOn ",").mapM parseCoin

def parseIOPart (t : String) : Option (Addr × Coins) :=
  match splitAtFirst '@' t.toList with
  | some (a, c) =>
    match parseAddr (String.ofList a), parseCoins (String.ofList c) with
    | some a, some c => some (a, c)
    | _, _ => none
  | none => none

def parseIO (t : String) : Option (List (Addr × Coins)) :=
  if t == "-" then some [] else (t.splitOn ";").mapM parseIOPart

/-! canonical state -/

def strLe (a b : String) : Bool := !(decide (b < a))

def showCoins (cs : Coins) : String :=
  ",".intercalate (cs.map fun c => s!"{c.denom}={c.amount}")

def showAcct (e : Addr × Account) : String :=
  let flag := match e.2.kind with | .vesting _ => "v" | .gno true => "w" | _ => ""
  let bang := if e.2.addr ≠ e.1 then "!" else ""
  s!"a{e.1}#{e.2.num}{flag}{bang}:{showCoins e.2.coins}"

def canon (s : State) : String :=
  let sup := s.supply.mergeSort (fun x y => strLe x.1 y.1)
  let acs := s.accts.mergeSort (fun x y => decide (x.1 ≤ y.1))
  let bal := s.split.mergeSort (fun x y => decide (x.1.1 < y.1.1) || (x.1.1 == y.1.1 && strLe x.1.2 y.1.2))
  "n=" ++ toString s.nextNum ++ "|S:" ++ ",".intercalate (sup.map fun e => s!"{e.1}={e.2}") ++
  "|A:" ++ ";".intercalate (acs.map showAcct) ++
  "|B:" ++ ",".intercalate (bal.map fun e => s!"a{e.1.1}/{e.1.2}={e.2}")

def fnv64 (s : String) : UInt64 :=
  s.toList.foldl (fun h c => (h ^^^ c.toNat.toUInt64) * 1099511628211) 14695981039346656037

def hex16 (x : UInt64) : String :=
  String.ofList ((List.range 16).map fun i => nibble ((x.toNat >>> (4 * (15 - i))) % 16))

def compress (s : String) : String :=
  if s.length ≤ 290 then s else String.ofList (s.toList.take 250) ++ "~" ++ hex16 (fnv64 s)

def showFail : Option Fail → String
  | none => "ok"
  | some (.err c) => "err:" ++ c
  | some (.panic c) => "panic:" ++ c

def finish (s : State) (raw : Bool) (r : State × Option Fail) : State × String :=
  let s' := if r.2.isNone || raw then r.1 else s
  (s', compress (showFail r.2 ++ " " ++ canon s'))

def bad (s : State) : State × String := (s, "err:badop")

def stripRaw (op : String) : String × Bool :=
  let cs := op.toList
  let suf := ".raw".toList
  if cs.length > 4 ∧ cs.drop (cs.length - 4) == suf then (String.ofList (cs.take (cs.length - 4)), true) else (op, false)

def step (s : State) (t : List String) : State × String :=
  match t with
  | [] => bad s
  | op0 :: args =>
    let (op, raw) := stripRaw op0
    if raw ∧ !(["send", "sendu", "fee", "multi", "mint", "burn", "add", "sub"].contains op) then bad s else
    match op, args with
    | "send", [f, t, c] =>
      match parseAddr f, parseAddr t, parseCoins c with
      | some f, some t, some c => finish s raw (rawStep tier s (.send f t c))
      | _, _, _ => bad s
    | "sendu", [f, t, c] =>
      match parseAddr f, parseAddr t, parseCoins c with
      | some f, some t, some c => finish s raw (rawStep tier s (.sendU f t c))
      | _, _, _ => bad s
    | "fee", [f, t, c] =>
      match parseAddr f, parseAddr t, parseCoins c with
      | some f, some t, some c => finish s raw (rawStep tier s (.fee f t c))
      | _, _, _ => bad s
    | "multi", [i, o] =>
      match parseIO i, parseIO o with
      | some i, some o => finish s raw (rawStep tier s (.multi i o))
      | _, _ => bad s
    | "mint", [a, c] =>
      match parseAddr a, parseCoins c with
      | some a, some c => finish s raw (rawStep tier s (.mint a c))
      | _, _ => bad s
    | "burn", [a, c] =>
      match parseAddr a, parseCoins c with
      | some a, some c => finish s raw (rawStep tier s (.burn a c))
      | _, _ => bad s
    | "add", [a, c] =>
      match parseAddr a, parseCoins c with
      | some a, some c => finish s raw (addCoins tier s a c)
      | _, _ => bad s
    | "sub", [a, c] =>
      match parseAddr a, parseCoins c with
      | some a, some c => finish s raw (subtractCoins tier s a c true)
      | _, _ => bad s
    | "setcoins", [a, c] =>
      match parseAddr a, parseCoins c with
      | some a, some c => finish s false (setCoins tier s a c)
      | _, _ => bad s
    | "recompute", [] => finish s false (recomputeSupply s)
    | "vest", [a, c] =>
      match parseAddr a, parseCoins c with
      | some a, some c => if coinsValid c then finish s false (rawStep tier s (.vest a c)) else bad s
      | _, _ => bad s
    | "unlock", [] => finish s false (rawStep tier s .unlock)
    | "restrict", [d] =>
      finish s false (rawStep tier s (.restrict (if d == "-" then [] else d.splitOn ",")))
    | "whitelist", [a] =>
      match parseAddr a with
      | some a => finish s false (rawStep tier s (.whitelist a))
      | none => bad s
    | _, _ => bad s

end GnoVerif.Drive.C14

def main : IO Unit := GnoVerif.Kit.loop GnoVerif.C14.init GnoVerif.Drive.C14.step
