import GnoVerif.Base.Kit
import GnoVerif.Model.C38
import GnoVerif.Model.C38Search
/-! Driver for C38: runs the WAL model (writer, reader, group, search) and the
two shared libraries (CRC-32C, base64) on op lines. See harness/cmd/c38/main.go
for the op grammar; outputs must be byte-identical to the harness'. -/
namespace GnoVerif.Drive.C38
open GnoVerif GnoVerif.Kit GnoVerif.C38

def fnv64 (s : String) : UInt64 :=
  s.toUTF8.foldl (fun h c => (h ^^^ c.toUInt64) * 0x100000001b3) 0xcbf29ce484222325

def hex16 (v : UInt64) : String :=
  String.ofList ((List.range 16).map fun i => nibble ((v.toNat / 16 ^ (15 - i)) % 16))

def hex8 (v : Nat) : String :=
  String.ofList ((List.range 8).map fun i => nibble ((v / 16 ^ (7 - i)) % 16))

def capOut (s : String) : String :=
  if s.length ≤ 280 then s else s!"{(s.take 200).toString}~{s.length}~{hex16 (fnv64 s)}"

def cfgOf (maxSize : Int) : Cfg := { maxSize, bodyOK := sizedOK }

def inI64 (v : Int) : Bool := -9223372036854775808 ≤ v && v ≤ 9223372036854775807

def parseI64 (s : String) : Option Int :=
  match parseInt s with
  | some v => if inI64 v then some v else none
  | none => none

def parseItem (t : String) : Option WOp :=
  if t == "r" then some .rotate
  else if t.startsWith "m:" then (hexToBytes (t.drop 2).toString).map fun b => .item (.msg b)
  else if t.startsWith "x:" then (hexToBytes (t.drop 2).toString).map .raw
  else if t.startsWith "h:" then (parseI64 (t.drop 2).toString).map fun h => .item (.mark h)
  else none

def parseItems (ts : List String) : Option (List WOp) := ts.mapM parseItem

/-- only m/h items are allowed when writing into a plain buffer -/
def plainItems (ops : List WOp) : Option (List Item) :=
  ops.mapM fun | .item i => some i | _ => none

def showItem : Item → String
  | .msg p => "m:" ++ bytesToHex p
  | .mark h => "h:" ++ toString h

def showEnd : End → String
  | .eof => "eof" | .corrupt => "corrupt" | .metaerr => "metaerr"

def showRead (r : List Item × End) : String :=
  String.join (r.1.map fun i => showItem i ++ " ") ++ showEnd r.2

def showEvent : Event → String
  | .item i => showItem i
  | .skipped => "c"

def showReadSkip (r : List Event × End) : String :=
  String.join (r.1.map fun e => showEvent e ++ " ") ++ showEnd r.2

def replaceAt (bs : Bytes) (pos : Nat) (v : UInt8) : Bytes := bs.set pos v

def groupArgs (a b c d : String) : Option (Int × Nat × Nat × Bool) :=
  match parseI64 a, parseI64 b, parseI64 c with
  | some m, some l, some t =>
    if l < 0 || t < 0 then none
    else if d == "0" then some (m, l.toNat, t.toNat, false)
    else if d == "1" then some (m, l.toNat, t.toNat, true)
    else none
  | _, _, _ => none

def showGroup (g : Group) : String :=
  let idxs := (List.range (g.maxIndex + 1)).filter (fun i => g.minIndex ≤ i)
  s!"min={g.minIndex} max={g.maxIndex}" ++ String.join (idxs.map fun i => s!" f{i}={bytesToHex (g.file i)}")

def showSearch : SearchRes → String
  | .found rest => "found " ++ bytesToHex rest
  | .notFound => "notfound"
  | .errCorrupt => "err:corrupt"
  | .errMeta => "err:meta"
  | .panicked => "panic:should-not-happen"
  | .fuelOut => "err:fuel"

def run (t : List String) : String :=
  match t with
  | ["crc", h] =>
    match hexToBytes h with
    | some b => hex8 (Crc32c.crc32c b).toNat
    | none => "err:badop"
  | ["b64", h] =>
    match hexToBytes h with
    | some b => capOut ("s:" ++ String.ofList ((Base64.encode b).map fun c => Char.ofNat c.toNat))
    | none => "err:badop"
  | ["unb64", h] =>
    match hexToBytes h with
    | some b =>
      match Base64.decode b with
      | some d => capOut (bytesToHex d)
      | none => "err:b64"
    | none => "err:badop"
  | ["read", m, h] =>
    match parseI64 m, hexToBytes h with
    | some m, some b => capOut (showRead (readAll (cfgOf m) b))
    | _, _ => "err:badop"
  | ["reads", m, h] =>
    match parseI64 m, hexToBytes h with
    | some m, some b => capOut (showReadSkip (readAllSkip (cfgOf m) b))
    | _, _ => "err:badop"
  | "trunc" :: m :: k :: its =>
    match parseI64 m, parseNat k, parseItems its with
    | some m, some k, some ops =>
      match plainItems ops with
      | none => "err:badpayload"
      | some items =>
        let log := encodeAll (written m items)
        capOut (showRead (readAll (cfgOf m) (log.take k)))
    | _, _, _ => "err:badop"
  | "flip" :: m :: pos :: v :: its =>
    match parseI64 m, parseNat pos, parseNat v, parseItems its with
    | some m, some pos, some v, some ops =>
      if v > 255 then "err:badop" else
      match plainItems ops with
      | none => "err:badpayload"
      | some items =>
        let log := encodeAll (written m items)
        if pos ≥ log.length then "err:badop"
        else capOut (showReadSkip (readAllSkip (cfgOf m) (replaceAt log pos (UInt8.ofNat v))))
    | _, _, _, _ => "err:badop"
  | "write" :: a :: b :: c :: d :: its =>
    match groupArgs a b c d, parseItems its with
    | some (m, l, tl, st), some ops => capOut (showGroup (buildGroup m l tl st ops))
    | _, _ => "err:badop"
  | "search" :: a :: b :: c :: d :: mode :: ign :: h :: its =>
    match groupArgs a b c d, parseNat mode, parseI64 h, parseItems its with
    | some (m, l, tl, st), some mode, some h, some ops =>
      if mode > 2 || (ign != "0" && ign != "1") then "err:badop" else
      let g := buildGroup m l tl st ops
      capOut (showSearch (search (cfgOf m) g mode (ign == "1") h))
    | _, _, _, _ => "err:badop"
  | _ => "err:badop"

def step (_ : Unit) (t : List String) : Unit × String := ((), run t)

end GnoVerif.Drive.C38

def main : IO Unit := GnoVerif.Kit.loop () GnoVerif.Drive.C38.step
