import GnoVerif.Base.Kit
import GnoVerif.Model.C17
/-!
Driver for C17: the gas price keeper model on op lines.

  price token:  `-` = std.GasPrice{} | `<amount>` = {Gas 1, "ugnot", amount} | `<amount>:<gas>:<denom>`
  upd    <last> <used> <maxGas> <ratio> <compressor> <initial>   fresh store, SetGasPrice(last), Validate, UpdateGasPrice, LastGasPrice
  updraw <last> <used> <maxGas> <ratio> <compressor> <initial>   same without Params.Validate
  set    <price>                                                 SetGasPrice on the current store, LastGasPrice
  blk    <used> <maxGas> <ratio> <compressor> <initial>          Validate, UpdateGasPrice on the current store, LastGasPrice
  output: price token | panic:range | panic:divzero | panic:decode | panic:store | err:params | err:badop
  (a zero amount reads back with an empty denom: `0:<gas>:`)
-/
namespace GnoVerif.Drive.C17
open GnoVerif GnoVerif.Kit GnoVerif.C17

/-- Strict canonical decimal: `-?(0|[1-9][0-9]*)`, not `-0`, within int64. -/
def parseI64 (s : String) : Option Int :=
  let cs := s.toList
  let (neg, ds) := match cs with
    | '-' :: r => (true, r)
    | r => (false, r)
  if ds.isEmpty ∨ ¬ ds.all Char.isDigit then none
  else if ds.head? = some '0' ∧ (ds.length > 1 ∨ neg) then none
  else
    let n : Nat := ds.foldl (fun acc c => acc * 10 + (c.toNat - '0'.toNat)) 0
    let v : Int := if neg then - (n : Int) else n
    if isInt64 v then some v else none

/-- the harness only lets through denominations `[a-z]{3,16}` (a subset of `std.ValidateDenom`). -/
def validDenom (d : String) : Bool :=
  3 ≤ d.length ∧ d.length ≤ 16 ∧ d.toList.all (fun c => 'a' ≤ c ∧ c ≤ 'z')

def parseGP (s : String) : Option GasPrice :=
  if s == "-" then some GasPrice.zero else
  match s.splitOn ":" with
  | [a] => (parseI64 a).map fun a => ⟨1, "ugnot", a⟩
  | [a, g, d] =>
    match parseI64 a, parseI64 g with
    | some a, some g => if validDenom d then some ⟨g, d, a⟩ else none
    | _, _ => none
  | _ => none

def showGP (g : GasPrice) : String :=
  if g = GasPrice.zero then "-"
  else if g.gas = 1 ∧ g.denom = "ugnot" then toString g.amount
  else s!"{g.amount}:{g.gas}:{g.denom}"

def showPanic : Panic → String
  | .range => "panic:range"
  | .divzero => "panic:divzero"
  | .decode => "panic:decode"
  | .store => "panic:store"

def showLast (s : Store) : String :=
  match lastGasPrice s with
  | .ok g => showGP g
  | .error e => showPanic e

def runUpdate (s : Store) (validate : Bool) (used maxGas : Int) (p : Params) : Store × String :=
  if validate ∧ ¬ p.Valid then (s, "err:params") else
  match update s used maxGas p with
  | .error e => (s, showPanic e)
  | .ok s' => (s', showLast s')

def parse5 (used maxGas ratio c init : String) : Option (Int × Int × Params) :=
  match parseI64 used, parseI64 maxGas, parseI64 ratio, parseI64 c, parseGP init with
  | some u, some m, some r, some c, some i => some (u, m, ⟨c, r, i⟩)
  | _, _, _, _, _ => none

def step (s : Store) (t : List String) : Store × String :=
  match t with
  | [op, last, used, maxGas, ratio, c, init] =>
    if op ≠ "upd" ∧ op ≠ "updraw" then (s, "err:badop") else
    match parseGP last, parse5 used maxGas ratio c init with
    | some l, some (u, m, p) =>
      match setGasPrice none l with
      | .ok s0 => runUpdate s0 (op == "upd") u m p
      | .error e => (none, showPanic e)
    | _, _ => (s, "err:badop")
  | ["set", gp] =>
    match parseGP gp with
    | some g =>
      match setGasPrice s g with
      | .ok s' => (s', showLast s')
      | .error e => (s, showPanic e)
    | none => (s, "err:badop")
  | ["blk", used, maxGas, ratio, c, init] =>
    match parse5 used maxGas ratio c init with
    | some (u, m, p) => runUpdate s true u m p
    | none => (s, "err:badop")
  | _ => (s, "err:badop")

end GnoVerif.Drive.C17

def main : IO Unit := GnoVerif.Kit.loop (none : GnoVerif.C17.Store) GnoVerif.Drive.C17.step
