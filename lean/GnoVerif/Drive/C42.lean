import GnoVerif.Base.Kit
import GnoVerif.Base.Sha256
import GnoVerif.Model.C42
import GnoVerif.Model.C47Cipher
/-! Driver for C42: the SecretConnection model on op lines.  The abstract AEAD is
instantiated with the executable ChaCha20-Poly1305 model (nil associated data), the
handshake primitives with the tables given on the `hs` / `hsx` line (computed by
golang.org/x/crypto in the generator and re-derived by the harness).
See harness/cmd/c42/main.go for the op grammar. -/
namespace GnoVerif.Drive.C42
open GnoVerif GnoVerif.Kit GnoVerif.C42

def aead : AEAD :=
  ⟨fun k n m => C47.chachaPolySeal k n m [], fun k n c => C47.chachaPolyOpen k n c []⟩

def summ (bs : Bytes) : String :=
  if bs.length ≤ 40 then s!"{bs.length}:{bytesToHex bs}"
  else s!"{bs.length}:#{bytesToHex ((Sha256.sha256 bs).take 16)}"

structure St where
  a : Option SC := none
  b : Option SC := none
  qab : Bytes := []
  qba : Bytes := []
  logab : List Bytes := []
  logba : List Bytes := []

def errName : ReadErr → String
  | .eof => "eof" | .short => "short" | .decrypt => "decrypt" | .tooLong => "toolong"
  | .panicNonce => "panicnonce"

def sizedName : SizedErr → String
  | .read e => errName e
  | .overflow => "overflow"

def hsErrName : HsErr → String
  | .ephRead e => sizedName e
  | .ephDecode => "decode"
  | .smallOrder => "smallorder"
  | .dh => "dh"
  | .authRead e => sizedName e
  | .authDecode => "decode"
  | .challenge => "challenge"
  | .panicNonce => "panicnonce"

/-- split into 1044-byte frames (a shorter tail is dropped) -/
def framesOf (w : Bytes) : Nat → List Bytes
  | 0 => []
  | fuel+1 => if w.length < sealedFrameSize then [] else
      w.take sealedFrameSize :: framesOf (w.drop sealedFrameSize) fuel

/-- digest material of the frames of `wire` sealed under `key` from counter `ctr` on:
    for each frame le64(counter) ‖ le32(chunk length) ‖ chunk; `none` when a frame does
    not open under its counter or declares an impossible length -/
def frameMaterial (key : Bytes) : List Bytes → Nat → Option Bytes
  | [], _ => some []
  | f :: fs, ctr =>
    match aead.doOpen key (nonceOf ctr) f with
    | none => none
    | some frame =>
      let len := leNat (frame.take 4)
      if len > dataMaxSize then none else
      match frameMaterial key fs (ctr+1) with
      | none => none
      | some rest => some (leBytes 8 ctr ++ frame.take 4 ++ (frame.drop 4).take len ++ rest)

def digest8 (bs : Bytes) : String := bytesToHex ((Sha256.sha256 bs).take 8)

/-- summary of one direction's handshake bytes (eph message then sealed frames): number of
    frames and a digest of the RAW bytes; the frames must open under `key` from counter 0 -/
def wsum (key : Bytes) (wire : Bytes) : String :=
  let fs := framesOf (wire.drop 35) (wire.length / sealedFrameSize + 1)
  match frameMaterial key fs 0 with
  | none => "undecryptable"
  | some _ => s!"{fs.length}:{digest8 wire}"

def hexOrNone (s : String) : Option (Option Bytes) :=
  if s == "-" then some none else (hexToBytes s).map some

/-- table-driven primitives for two honest parties -/
def primsHs (ephA ephPubA ephB ephPubB : Bytes) (dh : Option Bytes) (okm : Bytes)
    (seedA pubA sigA seedB pubB sigB : Bytes) : Prims where
  ephPub := fun e => if e = ephA then ephPubA else if e = ephB then ephPubB else []
  dh := fun _ _ => dh
  kdf := fun _ => okm
  pubKey := fun s => if s = seedA then pubA else if s = seedB then pubB else []
  sign := fun s _ => if s = seedA then sigA else if s = seedB then sigB else []
  verify := fun k m s =>
    let ch := (okm.drop 64).take 32
    m = ch ∧ ((k = pubA ∧ s = sigA) ∨ (k = pubB ∧ s = sigB))

def runHs (t : List String) : Option (St × String) := do
  match t with
  | ["hs", ephA, seedA, ephB, seedB, "|", ephPubA, ephPubB, dh, okm, pubA, pubB, sigA, sigB] =>
    let ephA ← hexToBytes ephA; let seedA ← hexToBytes seedA
    let ephB ← hexToBytes ephB; let seedB ← hexToBytes seedB
    let ephPubA ← hexToBytes ephPubA; let ephPubB ← hexToBytes ephPubB
    let dh ← hexOrNone dh; let okm ← hexToBytes okm
    let pubA ← hexToBytes pubA; let pubB ← hexToBytes pubB
    let sigA ← hexToBytes sigA; let sigB ← hexToBytes sigB
    let P := primsHs ephA ephPubA ephB ephPubB dh okm seedA pubA sigA seedB pubB sigB
    -- what B writes does not depend on A's auth message: run B on A's eph message alone first
    let b0 := makeSecretConnection P aead seedB ephB (encEph ephPubA)
    let ra := makeSecretConnection P aead seedA ephA b0.written
    let rb := makeSecretConnection P aead seedB ephB ra.written
    match ra.result, rb.result with
    | .ok sa, .ok sb =>
      let st : St := { a := some sa, b := some sb, qab := rb.rest, qba := ra.rest,
                       logab := framesOf (ra.written.drop 35) 4, logba := framesOf (rb.written.drop 35) 4 }
      pure (st, s!"ok remA={bytesToHex sa.remPubKey} remB={bytesToHex sb.remPubKey} ab={wsum sa.sendKey ra.written} ba={wsum sb.sendKey rb.written}")
    | ea, eb =>
      let f : Except HsErr SC → String := fun r => match r with
        | .ok _ => "ok" | .error e => hsErrName e
      pure ({}, s!"err:A={f ea},B={f eb}")
  | ["hsx", ephA, seedA, incoming, "|", ephPubA, dh, okm, pubA, sigA, v] =>
    let ephA ← hexToBytes ephA; let seedA ← hexToBytes seedA
    let incoming ← hexToBytes incoming
    let ephPubA ← hexToBytes ephPubA
    let dh ← hexOrNone dh; let okm ← hexToBytes okm
    let pubA ← hexToBytes pubA; let sigA ← hexToBytes sigA
    let P : Prims := { ephPub := fun _ => ephPubA, dh := fun _ _ => dh, kdf := fun _ => okm,
                       pubKey := fun _ => pubA, sign := fun _ _ => sigA, verify := fun _ _ _ => v == "1" }
    let ra := makeSecretConnection P aead seedA ephA incoming
    match ra.result with
    | .ok sa => pure ({}, s!"ok rem={bytesToHex sa.remPubKey} w={ra.written.length} rest={ra.rest.length}")
    | .error e => pure ({}, s!"err:{hsErrName e}")
  | _ => none

/-- queue editing shared by the man-in-the-middle ops -/
def frameAt (q : Bytes) (i : Nat) : Option Bytes :=
  if (i + 1) * sealedFrameSize ≤ q.length then some ((q.drop (i * sealedFrameSize)).take sealedFrameSize) else none

def setFrame (q : Bytes) (i : Nat) (f : Bytes) : Bytes :=
  q.take (i * sealedFrameSize) ++ f ++ q.drop ((i + 1) * sealedFrameSize)

def mitm (q : Bytes) (log other : List Bytes) (t : List String) : Option (Option Bytes) := do
  match t with
  | ["flip", off, bit] =>
    let off ← parseNat off; let bit ← parseNat bit
    if off < q.length ∧ bit < 8 then
      pure (some (q.set off (q.getD off 0 ^^^ UInt8.ofNat (1 <<< bit))))
    else pure none
  | ["swap", i, j] =>
    let i ← parseNat i; let j ← parseNat j
    match frameAt q i, frameAt q j with
    | some fi, some fj => pure (some (setFrame (setFrame q i fj) j fi))
    | _, _ => pure none
  | ["dup", i] =>
    let i ← parseNat i
    match frameAt q i with
    | some f => pure (some (q.take ((i + 1) * sealedFrameSize) ++ f ++ q.drop ((i + 1) * sealedFrameSize)))
    | none => pure none
  | ["drop", i] =>
    let i ← parseNat i
    match frameAt q i with
    | some _ => pure (some (q.take (i * sealedFrameSize) ++ q.drop ((i + 1) * sealedFrameSize)))
    | none => pure none
  | ["trunc", n] =>
    let n ← parseNat n
    if n ≤ q.length then pure (some (q.take n)) else pure none
  | ["replay", k] =>
    let k ← parseNat k
    match log[k]? with
    | some f => pure (some (q ++ f))
    | none => pure none
  | ["cross", k] =>
    let k ← parseNat k
    match other[k]? with
    | some f => pure (some (q ++ f))
    | none => pure none
  | ["inject", bs] =>
    let bs ← hexToBytes bs
    pure (some (q ++ bs))
  | _ => none

def step (st : St) (t : List String) : St × String :=
  match t with
  | "hs" :: _ | "hsx" :: _ => (runHs t).getD ({}, "err:badop")
  | [op, dir, arg] =>
    if dir ≠ "ab" ∧ dir ≠ "ba" then (st, "err:badop") else
    let ab := dir == "ab"
    match st.a, st.b with
    | some sa, some sb =>
      let snd := if ab then sa else sb
      let rcv := if ab then sb else sa
      let q := if ab then st.qab else st.qba
      let log := if ab then st.logab else st.logba
      let other := if ab then st.logba else st.logab
      let put (snd rcv : SC) (q : Bytes) (log : List Bytes) : St :=
        if ab then { st with a := some snd, b := some rcv, qab := q, logab := log }
        else { st with b := some snd, a := some rcv, qba := q, logba := log }
      match op with
      | "w" =>
        match hexToBytes arg with
        | none => (st, "err:badop")
        | some data =>
          let w := write aead snd data
          let fs := framesOf w.wire (w.wire.length / sealedFrameSize + 1)
          let st' := put w.sc rcv (q ++ w.wire) (log ++ fs)
          if w.panicked then (st', "panic:nonce") else
          match frameMaterial snd.sendKey fs (leNat ((snd.sendNonce.drop 4).take 8)) with
          | none => (st', "err:wire")
          | some _ => (st', s!"ok n={w.n} fr={fs.length} d={digest8 w.wire}")
      | "r" =>
        match parseNat arg with
        | none => (st, "err:badop")
        | some size =>
          let r := read aead rcv q size
          let st' := put snd r.sc r.conn log
          match r.err with
          | some e => (st', s!"err:{errName e}")
          | none => (st', s!"ok {summ r.data}")
      | _ =>
        match mitm q log other [op, arg] with
        | some (some q') => (put snd rcv q' log, s!"ok q={q'.length}")
        | some none => (st, "err:range")
        | none => (st, "err:badop")
    | _, _ => (st, "err:nohs")
  | [op, dir, x, y] =>
    if dir ≠ "ab" ∧ dir ≠ "ba" then (st, "err:badop") else
    let ab := dir == "ab"
    match st.a, st.b with
    | some _, some _ =>
      let q := if ab then st.qab else st.qba
      match mitm q [] [] [op, x, y] with
      | some (some q') => ((if ab then { st with qab := q' } else { st with qba := q' }), s!"ok q={q'.length}")
      | some none => (st, "err:range")
      | none => (st, "err:badop")
    | _, _ => (st, "err:nohs")
  | _ => (st, "err:badop")

end GnoVerif.Drive.C42

def main : IO Unit := GnoVerif.Kit.loop ({} : GnoVerif.Drive.C42.St) GnoVerif.Drive.C42.step
