import GnoVerif.Base.Kit
import GnoVerif.Model.C49
/-! Driver for C49: runs the clist model on op lines (protocol: harness/cmd/c49/main.go).

After every op the driver lets every traverser with a pending blocking call run
as far as it can (`settle`: the real goroutines do the same before the harness
looks at them) — that is ONE particular schedule; the theorems in Props/C49.lean
are about all schedules (`Op.tstep` anywhere). -/
namespace GnoVerif.Drive.C49
open GnoVerif GnoVerif.Kit GnoVerif.C49

def maxTrav : Nat := 4

/-- 1..6 decimal digits, no sign. -/
def pNat (s : String) : Option Nat :=
  let cs := s.toList
  if cs.isEmpty ∨ cs.length > 6 ∨ ¬ cs.all Char.isDigit then none
  else some (cs.foldl (fun a c => a * 10 + (c.toNat - '0'.toNat)) 0)

def optStr : Option Nat → String
  | none => "-"
  | some n => toString n

def b01 (b : Bool) : String := if b then "1" else "0"

def openCount (l : List Bool) : Nat := (l.filter (· == false)).length

def flag (b : Bool) (c : String) : String := if b then c else ""

/-- `<prev>.<next>` + flags r(emoved) n(extWaitCh closed) p(revWaitCh closed) [+ g<#next gens>.<#prev gens>] [+ o<#stale open>] -/
def elemStr (s : State) (i : Nat) : String :=
  let e := s.elems i
  let so := openCount e.nextStale + openCount e.prevStale
  let g := if e.nextStale.length + e.prevStale.length > 0 then s!"g{e.nextStale.length}.{e.prevStale.length}" else ""
  let o := if so > 0 then s!"o{so}" else ""
  s!"{optStr e.prev}.{optStr e.next}{flag e.removed "r"}{flag e.nextClosed "n"}{flag e.prevClosed "p"}{g}{o}"

def travStr (s : State) (t : Nat) : Option String :=
  let tr := s.travs t
  let lg := "[" ++ ",".intercalate (tr.log.map toString) ++ "]"
  match tr.st with
  | .idle => none
  | .wantFront _ => some s!"T{t}=wf{lg}"
  | .at e => some s!"T{t}=@{e}{lg}"
  | .wantNext e _ => some s!"T{t}=wn{e}{lg}"
  | .fin => some s!"T{t}=fin{lg}"

def dump (s : State) : String :=
  let es := (List.range s.size).map (elemStr s)
  let ts := (List.range maxTrav).filterMap (travStr s)
  let j (l : List String) := if l.isEmpty then "-" else ";".intercalate l
  s!"L{s.len},{optStr s.head},{optStr s.tail},{b01 s.closed},g{s.stale.length},o{openCount s.stale} | {j es} | {j ts}"

/-- every pending traverser runs until it returns or blocks (≤ 3 atomic steps each:
    Wait() returns, read, and — not needed here — block again). -/
def settle (s : State) : State :=
  (List.range maxTrav).foldl (fun s t => tstep (tstep (tstep s t) t) t) s

def resStr : Res → String
  | .ok => "ok"
  | .pushed id => s!"ok:{id}"
  | .panicEmpty => "panic:empty"
  | .panicFalseHead => "panic:falsehead"
  | .panicFalseTail => "panic:falsetail"
  | .panicNotRemoved => "panic:notremoved"
  | .panicWg => "panic:wg"
  | .next r => s!"next:{optStr r}"
  | .busy => "err:busy"
  | .notAt => "err:notat"
  | .badop => "err:badop"
  | .poisoned => "err:poisoned"

def apply (s : State) (op : Op) : State × String :=
  let (s', r) := stepR s op
  match r with
  | .poisoned => (s', "err:poisoned")
  | .panicWg => (s', "panic:wg")
  | .badop => (s', "err:badop")
  | r =>
    let s'' := settle s'
    (s'', ((resStr r ++ " | " ++ dump s'').take 300).toString)

/-- `pushrm`: PushBack immediately followed by Remove of the new element, with no traverser
    step in between (two consecutive atomic steps of the schedule); traversers run afterwards. -/
def applyPushRm (s : State) : State × String :=
  let (s1, r1) := stepR s .push
  match r1 with
  | .pushed id =>
    let (s2, r2) := stepR s1 (.remove id)
    match r2 with
    | .panicWg => (s2, "panic:wg")
    | r2 =>
      let s3 := settle s2
      (s3, ((s!"ok:{id}/" ++ resStr r2 ++ " | " ++ dump s3).take 300).toString)
  | .poisoned => (s1, "err:poisoned")
  | _ => (s1, "panic:wg")

def pTrav (x : String) : Option Nat :=
  match pNat x with
  | some t => if t < maxTrav then some t else none
  | none => none

def step (s : State) (t : List String) : State × String :=
  let bad := (s, "err:badop")
  match t with
  | ["push"] => apply s .push
  | ["pushrm"] => applyPushRm s
  | ["remove", x] => match pNat x with | some e => apply s (.remove e) | none => bad
  | ["detachprev", x] => match pNat x with | some e => apply s (.detachPrev e) | none => bad
  | ["detachnext", x] => match pNat x with | some e => apply s (.detachNext e) | none => bad
  | ["tfront", x] => match pTrav x with | some t => apply s (.tfront t) | none => bad
  | ["tnext", x] => match pTrav x with | some t => apply s (.tnext t) | none => bad
  | ["tnextnow", x] => match pTrav x with | some t => apply s (.tnextNow t) | none => bad
  | ["stress", a, b, c] =>
    match pNat a, pNat b, pNat c with
    | some _, some n, some k => if n = 0 ∨ n > 5000 ∨ k = 0 ∨ k > 8 then bad else (s, "stress")
    | _, _, _ => bad
  | _ => bad

end GnoVerif.Drive.C49

def main : IO Unit := GnoVerif.Kit.loop GnoVerif.C49.init GnoVerif.Drive.C49.step
