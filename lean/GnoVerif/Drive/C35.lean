import GnoVerif.Base.Kit
import GnoVerif.Model.C35
/-! Driver for C35: runs the VoteSet model on the op lines of harness/cmd/c35. -/
namespace GnoVerif.Drive.C35
open GnoVerif GnoVerif.Kit GnoVerif.C35

def tokens : List (String × BlockID) :=
  [("nil", ⟨0, 0⟩), ("A", ⟨1, 0⟩), ("B", ⟨2, 0⟩), ("C", ⟨3, 0⟩), ("D", ⟨4, 0⟩), ("E", ⟨5, 0⟩), ("F", ⟨6, 0⟩),
   ("X", ⟨7, 0⟩), ("Y", ⟨7, 1⟩)]

def blockOf (t : String) : Option BlockID := (tokens.find? (·.1 == t)).map (·.2)
def tokOf (b : BlockID) : String :=
  match tokens.find? (fun p => decide (p.2 = b)) with
  | some p => p.1
  | none => "?"

/-- canonical small decimal integer: at most 9 characters, round-trips -/
def pInt (s : String) : Option Int :=
  if s.length > 9 then none else
  match s.toInt? with
  | some n => if toString n == s then some n else none
  | none => none

def pPower (s : String) : Option Nat :=
  match s.toNat? with
  | some n => if toString n == s ∧ 0 < n ∧ n ≤ 2^63 - 1 then some n else none
  | none => none

structure Flags where
  badsig : Bool := false
  wh : Bool := false
  wr : Bool := false
  wt : Bool := false
  waddr : Bool := false
  dup : Bool := false
  as : Option Nat := none

def parseFlags (s : String) : Option Flags :=
  if s.isEmpty then none else
  (s.splitOn ",").foldl (fun acc p =>
    match acc with
    | none => none
    | some f =>
      if p == "ok" then some f
      else if p == "badsig" then some { f with badsig := true }
      else if p == "wrongheight" then some { f with wh := true }
      else if p == "wronground" then some { f with wr := true }
      else if p == "wrongtype" then some { f with wt := true }
      else if p == "wrongaddr" then some { f with waddr := true }
      else if p == "dupsig2" then some { f with dup := true }
      else if p.startsWith "as" then
        match pInt (p.drop 2).toString with
        | some j => if j < 0 then none else some { f with as := some j.toNat }
        | none => none
      else none) (some {})

def tf (b : Bool) : String := if b then "t" else "f"

def voteStr : Option Vote → String
  | none => "-"
  | some v => s!"{tokOf v.block}.{v.sig % 4}"

def observe (s : VoteSet) : String :=
  let maj := match twoThirdsMajority s with | some b => tokOf b | none => "-"
  let votes := ",".intercalate (s.votes.map voteStr)
  let by_ := ";".intercalate (tokens.map fun (t, b) =>
    t ++ ":" ++ (match bitArrayByBlockID s b with
      | none => "-"
      | some bits => String.join (bits.map fun x => if x then "1" else "0")))
  let commit := match makeCommit s with
    | .error .commitType => "panic:commit-type"
    | .error .commitNoMaj => "panic:commit-nomaj"
    | .error _ => "panic:other"
    | .ok (b, es) => tokOf b ++ "[" ++ ",".intercalate (es.map voteStr) ++ "]"
  s!"maj={maj} any={tf (hasTwoThirdsAny s)} all={tf (hasAll s)} votes={votes} by={by_} commit={commit}"

def errStr : Err → String
  | .nilVote => "nil" | .index => "index" | .addr => "addr" | .step => "step"
  | .nondet => "nondet" | .sig => "sig" | .conflict => "conflict"

def outcomeStr : Outcome → String
  | .ret true none => "ok:added"
  | .ret false none => "ok:dup"
  | .ret a (some e) => s!"err:{errStr e}:{if a then 1 else 0}"
  | .panic .dupInVerified => "panic:dup-in-verified"
  | .panic _ => "panic:not-added"

def H : Int := 5
def R : Int := 2

def doNew (t : List String) : Option VoteSet × String :=
  match t with
  | ty :: ps =>
    if ps.isEmpty ∨ ps.length > 8 then (none, "err:badop") else
    let typ? : Option Nat := if ty == "prevote" then some prevoteType else if ty == "precommit" then some precommitType else none
    match typ?, ps.mapM pPower with
    | some typ, some powers =>
      let vals := (List.range powers.length).zip powers
      if totalPower vals > maxTotalVotingPower then (none, s!"err:badnew maxtvp={maxTotalVotingPower}") else
      let s := newVoteSet H R typ vals
      (some s, s!"ok n={vals.length} total={s.total} maxtvp={maxTotalVotingPower} {observe s}")
    | _, _ => (none, "err:badop")
  | [] => (none, "err:badop")

def doVote (s : VoteSet) (t : List String) : VoteSet × String :=
  match t with
  | [i, b, fl] =>
    match pInt i, blockOf b, parseFlags fl with
    | some idx, some bid, some f =>
      let n := s.vals.length
      if (match f.as with | some j => decide (j ≥ n) | none => false) then (s, "err:badop") else
      let signer : Nat := match f.as with
        | some j => j
        | none => if 0 ≤ idx ∧ idx < n then idx.toNat else 0
      let v : Vote := {
        idx := idx
        addr := if f.waddr then 1000000 else signer
        height := if f.wh then H + 1 else H
        round := if f.wr then R + 1 else R
        type := if f.wt then 3 - s.type else s.type
        block := bid
        sig := bid.tag * 4 + (if f.dup then 1 else 0) + (if f.badsig then 2 else 0)
        sigOk := !f.badsig && decide ((signer : Int) = idx) }
      let (s', o) := addVote s (some v)
      (s', outcomeStr o ++ " " ++ observe s')
    | _, _, _ => (s, "err:badop")
  | _ => (s, "err:badop")

def stepLine (st : Option VoteSet) (t : List String) : Option VoteSet × String :=
  match t with
  | [] => (st, "err:badop")
  | "new" :: rest =>
    match doNew rest with
    | (some s, out) => (some s, out)
    | (none, out) => (st, out)
  | op :: rest =>
    match st with
    | none => (st, if op == "vote" ∨ op == "nilvote" ∨ op == "peermaj" then "err:nostate" else "err:badop")
    | some s =>
      if op == "vote" then
        let (s', out) := doVote s rest
        (some s', out)
      else if op == "nilvote" then
        if rest.isEmpty then
          let (s', o) := addVote s none
          (some s', outcomeStr o ++ " " ++ observe s')
        else (st, "err:badop")
      else if op == "peermaj" then
        match rest with
        | [p, b] =>
          match pInt p, blockOf b with
          | some peer, some bid =>
            if peer < 0 then (st, "err:badop") else
            let (s', e) := setPeerMaj23 s peer.toNat bid
            (some s', (if e then "err:peerconflict" else "ok") ++ " " ++ observe s')
          | _, _ => (st, "err:badop")
        | _ => (st, "err:badop")
      else (st, "err:badop")

end GnoVerif.Drive.C35

def main : IO Unit := GnoVerif.Kit.loop (none : Option GnoVerif.C35.VoteSet) GnoVerif.Drive.C35.stepLine
