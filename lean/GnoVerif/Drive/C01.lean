import GnoVerif.Base.Kit
import GnoVerif.Model.C01
/-! Driver for C01: parses the op lines of harness/cmd/c01/parse.go (same grammar,
anything else is `err:badop`) and runs the model instance that restarts at every
`restart` op of the history. -/
namespace GnoVerif.Drive.C01
open GnoVerif GnoVerif.Kit GnoVerif.C01

/-- decimal, at most `maxDigits` digits, no leading zero (except `0` itself). -/
def pNat (s : String) (maxDigits : Nat) : Option Nat :=
  let cs := s.toList
  if cs.isEmpty || cs.length > maxDigits || (cs.length > 1 && cs.head? == some '0') then none
  else if cs.all Char.isDigit then some (cs.foldl (fun n c => n * 10 + (c.toNat - '0'.toNat)) 0)
  else none

def pSmallInt (s : String) : Option Int :=
  if s.startsWith "-" then
    match pNat ((s.drop 1).toString) 3 with
    | some 0 => none
    | some n => some (-(n : Int))
    | none => none
  else (pNat s 3).map fun n => (n : Int)

def pWho : String → Option Nat
  | "u0" => some 0 | "u1" => some 1 | "u2" => some 2 | "x0" => some 3 | _ => none

def pCfg (s : String) : Bool :=
  match s.toList with
  | [b, r, p, q] => "mlpb".toList.contains b && "nse".toList.contains r && "16".toList.contains p && "yen".toList.contains q
  | _ => false

def pSlot : String → Option Slot
  | "a" => some .a | "b" => some .b | "c" => some .c | "h" => some .h | "p" => some .p | _ => none

def pFn (s : Slot) (f : String) : Option Fn :=
  if s == .h then
    match f with | "both" => some .both | "half" => some .half | "grab" => some .grab | _ => none
  else
    match f with
    | "set" => some .set | "del" => some .del | "inc" => some .inc | "fail" => some .fail | "sum" => some .sum
    | _ => none

def pKey (s : String) : Option Nat :=
  match pNat s 1 with
  | some k => if k ≤ 7 then some k else none
  | none => none

def pMsg (s : String) : Option Msg :=
  match s.splitOn ";" with
  | ["send", to, amt, den] =>
    match pWho to, pNat amt 7 with
    | some t, some a =>
      if t == 3 || a < 1 || a > 1000000 then none
      else if den == "u" then some (.send false) else if den == "f" then some (.send true) else none
    | _, _ => none
  | ["add", sl] => (pSlot sl).map .add
  | ["call", sl, f, k, v, d] =>
    match pSlot sl with
    | none => none
    | some s =>
      match pFn s f, pKey k, pSmallInt v with
      | some fn, some k, some v =>
        if d == "-" then some (.call s fn k v false)
        else if d == "d" then (if fn == .set && s == .b then some (.call s fn k v true) else none)
        else none
      | _, _, _ => none
  | ["run", sc, k, v] =>
    let script : Option Script :=
      match sc with
      | "ab" => some .ab | "fail" => some .fail | "noop" => some .noop | "read" => some .read | _ => none
    match script, pKey k, pSmallInt v with
    | some sc, some k, some v => some (.run sc k v)
    | _, _, _ => none
  | _ => none

def pMsgs : List String → Option (List Msg)
  | [] => some []
  | t :: ts => match pMsg t, pMsgs ts with
    | some m, some ms => some (m :: ms)
    | _, _ => none

def parseOp : List String → Op
  | ["commit"] => .commit
  | ["restart"] => .restart
  | "open" :: cfgs => if 1 ≤ cfgs.length && cfgs.length ≤ 8 && cfgs.all pCfg then .openCfgs cfgs.length else .bad
  | "probe" :: who :: gas :: msgs =>
    if msgs.length < 1 || msgs.length > 3 then .bad else
    match pWho who, pNat gas 9, pMsgs msgs with
    | some _, some g, some _ => if 1000000 ≤ g && g ≤ 299999999 then .probe else .bad
    | _, _, _ => .bad
  | "tx" :: who :: gas :: msgs =>
    if msgs.length < 1 || msgs.length > 4 then .bad else
    match pWho who, pMsgs msgs with
    | some w, some ms => if gas == "hi" then .tx w false ms else if gas == "lo" then .tx w true ms else .bad
    | _, _ => .bad
  | _ => .bad

def follower : Pattern := { follow := true, after := fun _ => false }

def stepLine (w : World) (t : List String) : World × String :=
  let r := step follower w (parseOp t)
  (r.1, r.2.str)

end GnoVerif.Drive.C01

def main : IO Unit := GnoVerif.Kit.loop ({} : GnoVerif.C01.World) GnoVerif.Drive.C01.stepLine
