import GnoVerif.Base.Kit
import GnoVerif.Base.Sha256
import GnoVerif.Gen.C46Words
import GnoVerif.Model.C46Keys
/-! Driver for C46: BIP-39 model over the GENERATED word list with the real SHA-256,
armor framing model, armor.go decision logic over a per-line TABLE instance of the
abstract primitives (the op line carries the graph of the cipher / key decoder on the
points that matter; everything else fails to open — the authenticity idealisation),
hd path syntax. -/
namespace GnoVerif.Drive.C46
open GnoVerif GnoVerif.Kit GnoVerif.C46

def sha : Bytes → Bytes := GnoVerif.Sha256.sha256
def wl : List Bytes := GnoVerif.Gen.C46.wordList

def sha16 (b : Bytes) : String := bytesToHex ((sha b).take 16)

def errStr : Err → String
  | .entropy => "err:entropy" | .invalid => "err:invalid" | .size => "err:size"
  | .word => "err:word" | .checksum => "err:checksum" | .panicIndex => "panic:index"

def armorErrStr : ArmorErr → String
  | .eof => "eof" | .corrupt => "corrupt" | .b64 => "b64" | .ueof => "ueof"

def keyErrStr : KeyErr → String
  | .armor e => "err:armor:" ++ armorErrStr e
  | .type => "err:type" | .header => "err:header" | .version => "err:version"
  | .kdf => "err:kdf" | .nosalt => "err:nosalt" | .salthex => "err:salthex"
  | .exitBcrypt => "exit:bcrypt" | .panicSecret => "panic:secret" | .short => "err:short"
  | .wrongpass => "err:wrongpass" | .amino => "err:amino"

def paramsErrStr : ParamsErr → String
  | .length => "err:length" | .atoi => "err:atoi" | .negative => "err:negative"
  | .purpose => "err:purpose" | .hardened => "err:hardened" | .notHardened => "err:nothardened"
  | .change => "err:change"

def bytesToText (b : Bytes) : String := String.ofList (b.map fun c => Char.ofNat c.toNat)

/-! lexicographic order on byte strings (Go's `bytes.Compare` / `sort.Strings`) -/
def bytesLt : Bytes → Bytes → Bool
  | [], [] => false
  | [], _ :: _ => true
  | _ :: _, [] => false
  | a :: r, b :: s => if a < b then true else if b < a then false else bytesLt r s

def insertBy {α} (lt : α → α → Bool) (x : α) : List α → List α
  | [] => [x]
  | y :: r => if lt x y then x :: y :: r else y :: insertBy lt x r

def sortBy {α} (lt : α → α → Bool) (l : List α) : List α := l.foldl (fun acc x => insertBy lt x acc) []

def be4 (n : Nat) : Bytes := toBE 4 n

/-- canonical serialisation of a decoded block: type, headers sorted by key, data -/
def serBlock (ty : Bytes) (hdrs : List (Bytes × Bytes)) (data : Bytes) : Bytes :=
  let hs := sortBy (fun a b => bytesLt a.1 b.1) hdrs
  be4 ty.length ++ ty ++ be4 hs.length ++
  (hs.map fun kv => be4 kv.1.length ++ kv.1 ++ be4 kv.2.length ++ kv.2).flatten ++
  be4 data.length ++ data

/-- `k:v,k:v` (hex), `-` = none -/
def parseHdrs (s : String) : Option (List (Bytes × Bytes)) :=
  if s == "-" then some [] else
  (s.splitOn ",").mapM fun kv =>
    match kv.splitOn ":" with
    | [k, v] => do
      let k ← hexToBytes k
      let v ← hexToBytes v
      pure (k, v)
    | _ => none

/-- `in>out,in>out` (hex), `-` = none : the graph of `keyFromBytes` -/
def parseKTable (s : String) : Option (List (Bytes × Bytes)) :=
  if s == "-" then some [] else
  (s.splitOn ",").mapM fun kv =>
    match kv.splitOn ">" with
    | [k, v] => do
      let k ← hexToBytes k
      let v ← hexToBytes v
      pure (k, v)
    | _ => none

/-- `salt:pass:enc:plain` (hex), `-` = none : the one sealed box of this line -/
def parseCTable (s : String) : Option (Option (Bytes × Bytes × Bytes × Bytes)) :=
  if s == "-" then some none else
  match s.splitOn ":" with
  | [a, b, c, d] => do
    let a ← hexToBytes a
    let b ← hexToBytes b
    let c ← hexToBytes c
    let d ← hexToBytes d
    pure (some (a, b, c, d))
  | _ => none

def toyKdfCore (salt stream : Bytes) : Bytes := sha (salt ++ stream)

/-- the table instance of the abstract primitives -/
def tableCrypto (ct : Option (Bytes × Bytes × Bytes × Bytes)) (kt : List (Bytes × Bytes)) : Crypto where
  kdfCore := toyKdfCore
  sealBox := fun _ _ pt => pt ++ List.replicate boxOverhead 0
  openBox := fun key nonce box =>
    match ct with
    | some (salt0, pass0, enc0, plain0) =>
      if key == toyKdfCore salt0 (keyStream pass0) && nonce ++ box == enc0 then some plain0 else none
    | none => none
  keyFromBytes := fun bz => (kt.find? (·.1 == bz)).map (·.2)

def okKey : Except KeyErr Bytes → String
  | .ok k => "ok " ++ bytesToHex k
  | .error e => keyErrStr e

def badText (t : Bytes) : Bool := !isAscii t || t.length > maxArmorLen

def hasDupKeys (h : List (Bytes × Bytes)) : Bool :=
  match h with
  | [] => false
  | kv :: r => r.any (·.1 == kv.1) || hasDupKeys r

def noNL (b : Bytes) : Bool := !b.any (· == 10)

/-- headers ordered by their rendered line (the harness sorts the header lines of the real
    output, which come out in map iteration order) -/
def sortHdrLines (h : List (Bytes × Bytes)) : List (Bytes × Bytes) :=
  sortBy (fun a b => bytesLt (a.1 ++ [58, 32] ++ a.2) (b.1 ++ [58, 32] ++ b.2)) h

def step (_ : Unit) (t : List String) : Unit × String := ((),
  match t with
  | ["ent2mn", e] =>
    match hexToBytes e with
    | some e =>
      match newMnemonic sha wl e with
      | .ok m => "ok " ++ bytesToText (m.map fun c => if c == 32 then 95 else c)
      | .error x => errStr x
    | none => "err:badop"
  | ["mn2ba", m] =>
    match hexToBytes m with
    | some m =>
      if !isAscii m then "err:badop" else
      match mnemonicToByteArray sha wl m with
      | .ok b => "ok " ++ bytesToHex b
      | .error x => errStr x
    | none => "err:badop"
  | ["valid", m] =>
    match hexToBytes m with
    | some m => if !isAscii m then "err:badop" else boolStr (isMnemonicValid wl m)
    | none => "err:badop"
  | ["seed", m, _] =>
    match hexToBytes m with
    | some m =>
      if !isAscii m then "err:badop" else
      match seedCheck sha wl m with
      | .ok _ => "ok"
      | .error x => errStr x
    | none => "err:badop"
  | ["enc", ty, hs, d] =>
    match hexToBytes ty, parseHdrs hs, hexToBytes d with
    | some ty, some hs, some d =>
      if hasDupKeys hs || (hs.length > 1 && !(hs.all fun kv => noNL kv.1 && noNL kv.2) ) then "err:badop" else
      let text := encodeArmor ty (sortHdrLines hs) d
      s!"ok {text.length} {sha16 text}"
    | _, _, _ => "err:badop"
  | ["dec", x] =>
    match hexToBytes x with
    | some x =>
      if badText x then "err:badop" else
      match decodeArmor x with
      | .ok (ty, hs, d) => s!"ok ty={bytesToHex (ty.take 12)} nh={hs.length} dl={d.length} {sha16 (serBlock ty hs d)}"
      | .error e => "err:" ++ armorErrStr e
    | none => "err:badop"
  | ["unarm", x, kt] =>
    match hexToBytes x, parseKTable kt with
    | some x, some kt =>
      if badText x then "err:badop" else okKey (unarmorPrivateKey (tableCrypto none kt) x)
    | _, _ => "err:badop"
  | ["undec", x, p, ct, kt] =>
    match hexToBytes x, hexToBytes p, parseCTable ct, parseKTable kt with
    | some x, some p, some ct, some kt =>
      if badText x then "err:badop" else okKey (unarmorDecryptPrivKey (tableCrypto ct kt) x p)
    | _, _, _, _ => "err:badop"
  | ["encarm", k, p, _] =>
    match hexToBytes k, hexToBytes p with
    | some k, some p =>
      -- salt / nonce are random in the real code: only the shape of the result is predicted
      let C := tableCrypto none [(k, k)]
      match encryptArmorPrivKey C k p (List.replicate 16 0) (List.replicate 24 0) false with
      | .ok text =>
        match decodeArmor text with
        | .ok (_, hs, d) => s!"ok nh={hs.length} enclen={d.length}"
        | .error e => "err:armor:" ++ armorErrStr e
      | .error e => keyErrStr e
    | _, _ => "err:badop"
  | ["info", which, d] =>
    match hexToBytes d with
    | some d =>
      let bt := if which == "pub" then blockTypePubKey else blockTypeKeyInfo
      let text := armorBytes d bt true   -- "type: Info" < "version: 0.0.0"
      s!"ok {text.length} {sha16 text}"
    | none => "err:badop"
  | ["uninfo", which, x] =>
    match hexToBytes x with
    | some x =>
      if badText x then "err:badop" else
      let bt := if which == "pub" then blockTypePubKey else blockTypeKeyInfo
      match unarmorBytes x bt with
      | .ok d => s!"ok {d.length} {sha16 d}"
      | .error e => keyErrStr e
    | none => "err:badop"
  | ["kdfeq", s, p1, p2] =>
    match hexToBytes s, hexToBytes p1, hexToBytes p2 with
    | some s, some p1, some p2 =>
      if s.length ≠ 16 then "err:salt" else boolStr (keyStream p1 == keyStream p2)
    | _, _, _ => "err:badop"
  | ["hd", _, path] =>
    match hexToBytes path with
    | some path =>
      match parsePath path with
      | .ok _ => "ok"
      | .error .syntax => "err:path"
      | .error .panicEmpty => "panic:path"
    | none => "err:badop"
  | ["bip44", path] =>
    match hexToBytes path with
    | some path =>
      match newParamsFromPath path with
      | .ok p => s!"ok {p.purpose} {p.coinType} {p.account} {if p.change then 1 else 0} {p.addressIndex} {bytesToText p.str}"
      | .error e => paramsErrStr e
    | none => "err:badop"
  | ["kb", m, _, _, _, _, _] =>
    match hexToBytes m with
    | some m =>
      if !isAscii m then "err:badop" else
      match seedCheck sha wl m with
      | .ok _ => "ok"
      | .error x => errStr x
    | none => "err:badop"
  | _ => "err:badop")

end GnoVerif.Drive.C46

def main : IO Unit := GnoVerif.Kit.loop () GnoVerif.Drive.C46.step
