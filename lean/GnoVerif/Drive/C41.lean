import GnoVerif.Base.Kit
import GnoVerif.Model.C41Block
import GnoVerif.Model.C37
/-! Driver for C41: runs the block-store and state-store models on op lines (protocol in
harness/cmd/c41/main.go).  The abstract `inc1` of the state-store model is instantiated with
C37's model of `IncrementProposerPriority(1)`.  Parsing is strict and mirrors the harness. -/
namespace GnoVerif.Drive.C41
open GnoVerif GnoVerif.Kit GnoVerif.C41

abbrev VS := GnoVerif.C37.VSet

/-- `IncrementProposerPriority(1)` (C37's model), panics as canonical tokens -/
def inc1 (s : VS) : Except String VS :=
  match GnoVerif.C37.opInc 1 s with
  | .ok s' => .ok s'
  | .error e => .error e.token

/-! ### parsing -/

def lim : Nat := 2 ^ 62

/-- optional `-`, then 1..19 decimal digits, |v| ≤ 2^62 -/
def pInt (s : String) : Option Int :=
  let cs := s.toList
  let (neg, ds) := match cs with
    | '-' :: r => (true, r)
    | r => (false, r)
  if ds.isEmpty ∨ ds.length > 19 ∨ ¬ ds.all Char.isDigit then none else
  let v := ds.foldl (fun a c => a * 10 + (c.toNat - '0'.toNat)) 0
  if v > lim then none else some (if neg then - (v : Int) else (v : Int))

def pNatLe (s : String) (hi : Nat) : Option Nat :=
  match pInt s with
  | some v => if 0 ≤ v ∧ v ≤ (hi : Int) then some v.toNat else none
  | none => none

def maxPower : Nat := 2 ^ 40
def maxPrio : Nat := 2 ^ 60

def pVal (s : String) : Option GnoVerif.C37.Val :=
  match s.splitOn ":" with
  | [a, b, c] =>
    match pNatLe a 7, pNatLe b maxPower, pInt c with
    | some id, some pw, some pr =>
      if pr.natAbs ≤ maxPrio then some { addr := id, power := pw, prio := pr } else none
    | _, _, _ => none
  | _ => none

def strictlyIncreasing : List Nat → Bool
  | a :: b :: r => decide (a < b) && strictlyIncreasing (b :: r)
  | _ => true

/-- `-` (nil pointer) | `<vals>;<proposer>` with vals = `e` | `id:power:prio,…`, proposer = `-` | id -/
def pSet (s : String) : Option (Option VS) :=
  if s == "-" then some none else
  match s.splitOn ";" with
  | [vs, p] =>
    let vals : Option (List GnoVerif.C37.Val) :=
      if vs == "e" then some [] else (vs.splitOn ",").mapM pVal
    match vals with
    | none => none
    | some vals =>
      if ¬ strictlyIncreasing (vals.map (·.addr)) then none else
      if p == "-" then some (some { vals := vals, total := 0, proposer := none }) else
      match pNatLe p 7 with
      | some id => if vals.any (·.addr == id) then some (some { vals := vals, total := 0, proposer := some id }) else none
      | none => none
  | _ => none

def isName (s : String) : Bool :=
  !s.isEmpty && s.length ≤ 8 && s.all fun c => ('a' ≤ c ∧ c ≤ 'z') ∨ ('0' ≤ c ∧ c ≤ '9')

/-- `<block>/<validator>`: block = `-` | five ints joined by `.`; validator = `-` | `e` | names joined by `.` -/
def pParams (s : String) : Option Params :=
  match s.splitOn "/" with
  | [b, v] =>
    let blk : Option (Option BlockParams) :=
      if b == "-" then some none else
      match (b.splitOn ".").mapM pInt with
      | some [x1, x2, x3, x4, x5] => some (some ⟨x1, x2, x3, x4, x5⟩)
      | _ => none
    let vp : Option (Option (List String)) :=
      if v == "-" then some none else
      if v == "e" then some (some []) else
      let ns := v.splitOn "."
      if ns.length ≤ 4 ∧ ns.all isName then some (some ns) else none
    match blk, vp with
    | some blk, some vp => some ⟨blk, vp⟩
    | _, _ => none
  | _ => none

def pCommit (s : String) : Option CommitD :=
  if s == "-" then some .nil else
  match pNatLe s (2 ^ 31) with
  | some 0 => some .empty
  | some k => some (.tok k)
  | none => none

/-! ### printing -/

def setStr : Option VS → String
  | none => "-"
  | some s =>
    let vs := if s.vals.isEmpty then "e" else
      ",".intercalate (s.vals.map fun v => s!"{v.addr}:{v.power}:{v.prio}")
    let p := match s.proposer with | none => "-" | some a => toString a
    vs ++ ";" ++ p

def paramsStr (p : Params) : String :=
  let b := match p.block with
    | none => "-"
    | some b => s!"{b.maxTxBytes}.{b.maxDataBytes}.{b.maxBlockBytes}.{b.maxGas}.{b.timeIotaMS}"
  let v := match p.validator with
    | none => "-"
    | some [] => "e"
    | some ns => ".".intercalate ns
  b ++ "/" ++ v

def commitStr : CommitD → String
  | .nil => "-" | .empty => "0" | .tok k => toString k

def blockName (b : Block) : String := s!"{b.height}.{b.data}.{commitStr b.lastCommit}"

def optCommit : Option Nat → String
  | none => "nil" | some k => s!"C{k}"

/-! ### state -/

structure DS where
  bs : BS := BS.empty
  db : DB VS := DB.empty

def hj (s : BS) : String := s!"H={s.height} J={s.json.getD 0}"

def saveBStr : SaveB → String
  | .ok => "ok" | .panicNilBlock => "panic:nil-block" | .panicNonContiguous => "panic:noncontiguous"
  | .panicIncomplete => "panic:incomplete" | .panicNilCommit => "panic:nil-commit"

def zeroSt : St VS := ⟨0, 0, none, none, 0, Params.empty, 0⟩

def step (s : DS) (t : List String) : DS × String :=
  let bad := (s, "err:badop")
  match t with
  -- block store
  | ["bsave", h, d, lc, sc, total, miss] =>
    match pInt h, pNatLe d 65535, pCommit lc, pCommit sc, pNatLe total 6 with
    | some h, some d, some lc, some sc, some total =>
      if total = 0 then bad else
      let miss : Option (Option Nat) :=
        if miss == "-" then some none else
        match pNatLe miss 5 with
        | some m => if m < total then some (some m) else none
        | none => none
      match miss with
      | none => bad
      | some miss =>
        let (bs', r) := saveBlock s.bs (some ⟨h, d, lc⟩) total miss sc
        ({ s with bs := bs' }, saveBStr r ++ " " ++ hj bs')
    | _, _, _, _, _ => bad
  | ["bsavenil"] =>
    let (bs', r) := saveBlock s.bs none 1 none .empty
    ({ s with bs := bs' }, saveBStr r ++ " " ++ hj bs')
  | ["bload", h] =>
    match pInt h with
    | some h =>
      (s, match loadBlock s.bs h with
          | .nil => "nil" | .ok b => "B" ++ blockName b | .panicDecode => "panic:decode")
    | none => bad
  | ["bmeta", h] =>
    match pInt h with
    | some h =>
      (s, match loadMeta s.bs h with
          | none => "nil" | some m => s!"M{blockName m.src}/{m.total}")
    | none => bad
  | ["bpart", h, i] =>
    match pInt h, pInt i with
    | some h, some i =>
      if i.natAbs > 2 ^ 31 then bad else
      (s, match loadPart s.bs h i with
          | none => "nil" | some p => s!"P{blockName p.src}/{p.total}#{p.index}")
    | _, _ => bad
  | ["bcommit", h] =>
    match pInt h with
    | some h => (s, optCommit (loadCommit s.bs h))
    | none => bad
  | ["bseen", h] =>
    match pInt h with
    | some h => (s, optCommit (loadSeen s.bs h))
    | none => bad
  | ["bheight"] => (s, hj s.bs)
  | ["breopen"] =>
    let bs' := reopen s.bs
    ({ s with bs := bs' }, hj bs')
  | ["bdelpart", h, i] =>
    match pInt h, pInt i with
    | some h, some i => if i.natAbs > 2 ^ 31 then bad else ({ s with bs := delPart s.bs h i }, "ok")
    | _, _ => bad
  | ["bdelmeta", h] =>
    match pInt h with
    | some h => ({ s with bs := delMeta s.bs h }, "ok")
    | none => bad
  -- state store
  | ["ssave", lbh, ih, vals, nvals, lhvc, params, lhpc] =>
    match pInt lbh, pInt ih, pSet vals, pSet nvals, pInt lhvc, pParams params, pInt lhpc with
    | some lbh, some ih, some vals, some nvals, some lhvc, some params, some lhpc =>
      let (db', r) := saveState s.db ⟨lbh, ih, vals, nvals, lhvc, params, lhpc⟩
      ({ s with db := db' }, match r with
        | .ok => "ok" | .panicInvalidHeight => "panic:invalid-height" | .panicLhcGtHeight => "panic:lhc-gt-height")
    | _, _, _, _, _, _, _ => bad
  | ["vload", h] =>
    match pInt h with
    | some h =>
      (s, match loadValidators inc1 s.db h with
          | .ok vs => "V " ++ setStr (some vs)
          | .errNoValSet => "err:novalset"
          | .panicNotFound => "panic:novals"
          | .panicInc e => e)
    | none => bad
  | ["pload", h] =>
    match pInt h with
    | some h =>
      (s, match loadConsensusParams s.db h with
          | .ok p => "CP " ++ paramsStr p
          | .errNoParams => "err:noparams"
          | .panicNotFound => "panic:noparams")
    | none => bad
  | ["sload"] =>
    let st := (loadState s.db).getD zeroSt
    (s, s!"S {st.lbh} {st.ih} {setStr st.vals} {setStr st.nvals} {st.lhvc} {paramsStr st.params} {st.lhpc}")
  | ["vinfo", h] =>
    match pInt h with
    | some h =>
      (s, match loadValidatorsInfo s.db h with
          | none => "nil" | some i => s!"I {setStr i.set} {i.lhc}")
    | none => bad
  | ["pinfo", h] =>
    match pInt h with
    | some h =>
      (s, match loadConsensusParamsInfo s.db h with
          | none => "nil" | some i => s!"I {paramsStr i.params} {i.lhc}")
    | none => bad
  | _ => bad

end GnoVerif.Drive.C41

def main : IO Unit := GnoVerif.Kit.loop ({} : GnoVerif.Drive.C41.DS) GnoVerif.Drive.C41.step
