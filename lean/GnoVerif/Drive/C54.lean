import GnoVerif.Base.Kit
import GnoVerif.Model.C54
/-! Driver for C54: the import-block rewriting of the model on the summary tokens of one
    op line (grammar: harness/cmd/c54/main.go).  The source itself is never looked at. -/
namespace GnoVerif.Drive.C54
open GnoVerif GnoVerif.Kit GnoVerif.C54

def value (tok key : String) : Option String :=
  if tok.startsWith key ∧ tok.length > key.length then some ((tok.drop key.length).toString) else none

def pAlias (s : String) : Alias String :=
  if s == "-" then .none else if s == "_" then .blank else if s == "." then .dot else .named s

def pSpecs (s : String) : Option (List (Imp String)) :=
  if s == "-" then some [] else
  (s.splitOn ",").mapM fun e =>
    match e.splitOn "~" with
    | [a, p, n] => if a.isEmpty ∨ p.isEmpty ∨ n.isEmpty then none else some ⟨pAlias a, p, n⟩
    | _ => none

def pNames (s : String) : List String := if s == "-" then [] else s.splitOn ","

def pResolve (s : String) : List (String × String) :=
  if s == "-" then [] else
  (s.splitOn ",").filterMap fun e =>
    match e.splitOn ">" with
    | [n, p] => some (n, p)
    | _ => none

def isHex (s : String) : Bool :=
  s.length % 2 == 0 ∧ s.toList.all fun c => (hexDigit c).isSome

def srcOK (s : String) : Bool :=
  if s.startsWith "h:" then isHex ((s.drop 2).toString)
  else if s.startsWith "x:" then
    let rel := (s.drop 2).toString
    rel.endsWith ".gno" ∧ (rel.splitOn "..").length == 1
  else false

def aliasStr : Alias String → String
  | .none => "-" | .blank => "_" | .dot => "." | .named n => n

def insertSorted (a : String) : List String → List String
  | [] => [a]
  | b :: r => if a < b then a :: b :: r else if a == b then b :: r else b :: insertSorted a r

/-- FNV-1a, 32 bit (the harness shortens long output lines the same way) -/
def fnv32 (s : String) : UInt32 :=
  s.toUTF8.foldl (fun h b => (h ^^^ b.toUInt32) * 16777619) 2166136261

def run (t : List String) : String :=
  match t with
  | ["fmt", src, layout, p, i, u, k, r] =>
    if ¬ srcOK src then "err:badop" else
    if ¬ (layout == "o" ∨ layout == "g" ∨ layout == "s" ∨ layout == "2" ∨ layout == "b") then "err:badop" else
    match value p "P=", (value i "I=").bind pSpecs, value u "U=", value k "K=", value r "R=" with
    | some pv, some imps, some uv, some kv, some rv =>
      if pv == "0" then "err:parse" else
      let rs := pResolve rv
      let env : Env String := { used := pNames uv, known := pNames kv,
                                resolve := fun n => (rs.find? (·.1 == n)).map (·.2) }
      let out := rewrite env imps
      let keys := out.foldl (fun acc s => insertSorted (aliasStr s.alias ++ "~" ++ s.path) acc) []
      let line := if keys.isEmpty then "ok -" else "ok " ++ ",".intercalate keys
      if line.utf8ByteSize > 250 then s!"ok #{keys.length}:{fnv32 line}" else line
    | _, _, _, _, _ => "err:badop"
  | _ => "err:badop"

def step (_ : Unit) (t : List String) : Unit × String := ((), run t)

end GnoVerif.Drive.C54

def main : IO Unit := GnoVerif.Kit.loop () GnoVerif.Drive.C54.step
