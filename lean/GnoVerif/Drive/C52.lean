import Std.Data.HashMap
import GnoVerif.Base.Kit
import GnoVerif.Spec.C52Html
/-!
Driver for C52.  Bytes as lowercase hex (`e` = empty, `-` = absent).

  tesc <b>      markdown.HTMLEscapeString (= template.HTMLEscapeString)   -> <short>
  hesc <b>      html.EscapeString                                         -> <short>
  gesc <b>      goldmark util.EscapeHTML                                  -> <short>
  unp  <b>      util.UnescapePunctuations                                 -> <short>
  rnum <b>      util.ResolveNumericReferences                             -> <short>
  rent <b>      util.ResolveEntityNames                                   -> <short>
  uesc0 <b>     util.URLEscape(b, false)                                  -> <short>
  uesc <b>      util.URLEscape(b, true)                                   -> <short>
  dang <b>      html.IsDangerousURL                                       -> true|false
  link <ty> <untrusted> <help> <dest> <title|->   gnoweb renderGnoLink around the text `x`  -> <short>
  img  <dest>   `![a](<dest>)` through the real default renderer, the src attribute      -> <short> | err:badop
  url  <b>      browser-side reading of a URL: script-capable?            -> true|false
  dec  <b>      character references of an attribute value                -> <short>
  page <markdown>   GET /r/demo/foo through the real HTTP handler (oracle-only)            -> status=200
  md|doc <markdown> <html|->   tokenizer + safety predicate on the HTML the renderer produced
                                                                          -> t=<tags> h=<fnv> v=<0..3> | nohtml

`<short>` = hex when at most 100 bytes, else `#<len>.<fnv1a-64>.<hex of the first 40 bytes>`.
-/
namespace GnoVerif.Drive.C52
open GnoVerif GnoVerif.Kit GnoVerif.C52

def toNats (b : List UInt8) : Bytes := b.map (·.toNat)

def hexN (b : Bytes) : String :=
  if b.isEmpty then "e" else String.ofList (b.flatMap fun c => [nibble (c / 16 % 16), nibble (c % 16)])

def hex16 (n : UInt64) : String :=
  String.ofList ((List.range 16).map fun i => nibble ((n >>> (UInt64.ofNat (4 * (15 - i)))).toNat % 16))

def fnv (b : Bytes) : UInt64 :=
  b.foldl (fun (h : UInt64) c => (h ^^^ UInt64.ofNat c) * 0x100000001b3) 0xcbf29ce484222325

def short (b : Bytes) : String :=
  if b.length ≤ 100 then hexN b else s!"#{b.length}.{hex16 (fnv b)}.{hexN (b.take 40)}"

/-! the HTML5 entity table generated from goldmark (`name hex` per line) -/

def parseEntities (s : String) : Std.HashMap Bytes Bytes :=
  (s.splitOn "\n").foldl (fun m line =>
    match line.splitOn " " with
    | [n, h] =>
      match hexToBytes h with
      | some b => m.insert (toNats n.toUTF8.toList) (toNats b)
      | none => m
    | _ => m) {}

def entMap : Std.HashMap Bytes Bytes := parseEntities Gen.C52.entityTable

def lk : Lookup := fun n => entMap.get? n

def bytesArg (s : String) : Option Bytes := (hexToBytes s).map toNats

def un (f : Bytes → Bytes) (s : String) : String :=
  match bytesArg s with
  | some b => short (f b)
  | none => "err:badop"

/-- bytes that would change how goldmark reads `![a](<dest>)` -/
def imgStructural (c : Nat) : Bool := c = 60 || c = 62 || c = 10 || c = 13 || c = 92 || c = 0

def canon (ts : List Tag) : Bytes :=
  ts.flatMap fun t =>
    (if t.closing then [47] else [60]) ++ t.name ++
    (if t.closing then [] else
      t.attrs.flatMap fun a =>
        [32] ++ a.1 ++ (if urlAttrs.contains a.1 then [61] ++ decodeRefs lk a.2 else [])) ++ [10]

def run : List String → String
  | ["tesc", b] => un tesc b
  | ["hesc", b] => un hesc b
  | ["gesc", b] => un gesc b
  | ["unp", b] => un unescapePunct b
  | ["rnum", b] => un resolveNum b
  | ["rent", b] => un (resolveEnt lk) b
  | ["uesc0", b] => un escLoop b
  | ["uesc", b] => un (urlEscape lk) b
  | ["dang", b] =>
    match bytesArg b with
    | some b => boolStr (isDangerousURL b)
    | none => "err:badop"
  | ["link", ty, un_, help, dest, title] =>
    match ty.toNat?, bytesArg dest, hexOpt title with
    | some ty, some dest, some title =>
      if ty > 4 ∨ (un_ ≠ "0" ∧ un_ ≠ "1") ∨ (help ≠ "0" ∧ help ≠ "1") then "err:badop" else
      let n : LinkIn := { ty := ty, untrusted := un_ == "1", help := help == "1", dest := dest,
                          title := title.map toNats }
      short (renderGnoLink lk n [120])
    | _, _, _ => "err:badop"
  | ["img", dest] =>
    match bytesArg dest with
    | some d => if d.any imgStructural then "err:badop" else short (imgSrc lk d)
    | none => "err:badop"
  | ["url", b] =>
    match bytesArg b with
    | some b => boolStr (scriptCapable b)
    | none => "err:badop"
  | ["dec", b] => un (decodeRefs lk) b
  | ["page", m] =>
    -- the served page (layout + rendered realm): oracle-only stream; a realm always renders with 200
    match bytesArg m with
    | some _ => "status=200"
    | none => "err:badop"
  | [op, m, h] =>
    if op ≠ "md" ∧ op ≠ "doc" then "err:badop" else
    match bytesArg m with
    | none => "err:badop"
    | some _ =>
      if h == "-" then "nohtml" else
      match bytesArg h with
      | some html =>
        let ts := tokenize html
        s!"t={ts.length} h={hex16 (fnv (canon ts))} v={firstProblem lk ts}"
      | none => "err:badop"
  | _ => "err:badop"

def step (_ : Unit) (t : List String) : Unit × String := ((), run t)

end GnoVerif.Drive.C52

def main : IO Unit := GnoVerif.Kit.loop () GnoVerif.Drive.C52.step
