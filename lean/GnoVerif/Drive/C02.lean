import GnoVerif.Base.Kit
import GnoVerif.Model.C02RunTxProto
/-! Driver for C02: the runTx model on protocol lines (see Model/C02RunTxProto.lean). -/

def main : IO Unit := GnoVerif.Kit.loop ({} : GnoVerif.C02.Proto.PState) GnoVerif.C02.Proto.step
