import GnoVerif.Base.Kit
import GnoVerif.Model.C02RunTxProto
import GnoVerif.Model.C02Vm
/-!
Driver for C02.  Two streams share the line protocol:

* the runTx model on protocol lines (see Model/C02RunTxProto.lean);
* lines starting with `vtx`, `vsim`, `vq`, `vrestart`: the summary model of a
  history of real gno.land transactions (see Model/C02Vm.lean).
-/
namespace GnoVerif.Drive.C02
open GnoVerif

structure St where
  runtx : C02.Proto.PState := {}
  vm : C02.Vm.VState := {}

def step (s : St) (t : List String) : St × String :=
  match t with
  | op :: _ =>
    if C02.Vm.isVmOp op then
      let r := C02.Vm.step s.vm t
      ({ s with vm := r.1 }, r.2)
    else
      let r := C02.Proto.step s.runtx t
      ({ s with runtx := r.1 }, r.2)
  | [] =>
    let r := C02.Proto.step s.runtx t
    ({ s with runtx := r.1 }, r.2)

end GnoVerif.Drive.C02

def main : IO Unit := GnoVerif.Kit.loop ({} : GnoVerif.Drive.C02.St) GnoVerif.Drive.C02.step
