import GnoVerif.Base.Kit
import GnoVerif.Model.C12
/-! Driver for C12: runs the AddPackage / query model on op lines (protocol: see
    harness/cmd/c12/main.go).  Parsing is strict and mirrors the harness, including the
    syntactic `err:unmodelled` guard. -/
namespace GnoVerif.Drive.C12
open GnoVerif GnoVerif.Kit GnoVerif.C12

def lowerHexDigit (c : Char) : Option Nat :=
  if '0' ≤ c ∧ c ≤ '9' then some (c.toNat - '0'.toNat)
  else if 'a' ≤ c ∧ c ≤ 'f' then some (c.toNat - 'a'.toNat + 10)
  else none

/-- `e` = empty; otherwise non-empty, even length, lowercase hex. -/
def unhex (s : String) : Option Bytes :=
  if s == "e" then some [] else
  if s.isEmpty then none else
  let rec go : List Char → List UInt8 → Option (List UInt8)
    | [], acc => some acc.reverse
    | [_], _ => none
    | a :: b :: rest, acc =>
      match lowerHexDigit a, lowerHexDigit b with
      | some x, some y => go rest (UInt8.ofNat (x*16+y) :: acc)
      | _, _ => none
  go s.toList []

/-- decimal, 1..10 digits, ≤ 2^31 -/
def pNat (s : String) : Option Nat :=
  let cs := s.toList
  if cs.isEmpty ∨ cs.length > 10 ∨ ¬ cs.all Char.isDigit then none else
  let v := cs.foldl (fun a c => a * 10 + (c.toNat - '0'.toNat)) 0
  if v > 2^31 then none else some v

def pDigit (s : String) (max : Nat) : Option Nat :=
  match s.toList with
  | [c] => if '0' ≤ c ∧ c.toNat - '0'.toNat ≤ max ∧ c ≤ '9' then some (c.toNat - '0'.toNat) else none
  | _ => none

def noGm : GMod :=
  { present := false, broken := false, mod := .self, gno := .latest, priv := false,
    draft := false, ignore := false, replace := false, addpkg := false, noise := false }

def pGm (s : String) : Option GMod :=
  if s == "-" then some noGm
  else if s == "b" then some { noGm with present := true, broken := true }
  else match s.toList with
    | a :: b :: rest =>
      let mod? : Option ModKind := match a with
        | 's' => some .self | 'o' => some .other | 'e' => some .empty | 'x' => some .invalid | _ => none
      let gno? : Option GnoKind := match b with
        | 'l' => some .latest | 'e' => some .empty | 'v' => some .old | _ => none
      match mod?, gno? with
      | some md, some g =>
        let eat (c : Char) (r : List Char) : Bool × List Char :=
          match r with
          | x :: r' => if x == c then (true, r') else (false, r)
          | [] => (false, [])
        let (p, r) := eat 'p' rest
        let (d, r) := eat 'd' r
        let (i, r) := eat 'i' r
        let (rp, r) := eat 'r' r
        let (ad, r) := eat 'a' r
        let (no, r) := eat 'c' r
        if r.isEmpty then
          some { noGm with present := true, mod := md, gno := g, priv := p, draft := d, ignore := i, replace := rp, addpkg := ad, noise := no }
        else none
      | _, _ => none
    | _ => none

def pVerdict (s : String) : Option Verdict :=
  if s == "o" then some .ok else if s == "t" then some .typecheck else if s == "i" then some .initPanic else none

def pFile (s : String) : Option MFile :=
  let cs := s.toList
  let nm := cs.takeWhile (· != ':')
  match cs.dropWhile (· != ':') with
  | _ :: rest =>
    match unhex (String.ofList nm) with
    | none => none
    | some name =>
      if rest == ['@'] then some ⟨name, none⟩
      else match unhex (String.ofList rest) with
        | some b => some ⟨name, some b⟩
        | none => none
  | [] => none

/-- inputs outside the modelled fragment (mirrors `addUnmodelled` of the harness). -/
def addUnmodelled (path : Bytes) (g : GMod) (files : List MFile) : Bool :=
  path == L_namesPath || path == L_claPath ||
  files.any (fun f => match f.body with
    | none => f.name != L_gnomodToml
    | some b => f.name == L_gnomodToml || (hasSuffix L_dotGno f.name && !clauseDomain b)) ||
  (let nGm := (files.filter (·.body.isNone)).length
   nGm > 1 || (nGm == 1) != g.present) ||
  (files.any (·.name == L_gnoMod) && !g.present)

def firstSegment (fp : Bytes) : Bytes := fp.takeWhile (· != cSlash)

def qfileUnmodelled (fp : Bytes) : Bool := !(firstSegment fp).contains cDot

def qpathsUnmodelled (t : Bytes) : Bool :=
  match t with
  | [] => true
  | 95 :: _ => true
  | 64 :: rest =>
    let name := rest.takeWhile (· != cSlash)
    let sub := (rest.dropWhile (· != cSlash)).drop 1
    name == L_stdlibs || name == L_std ||
      !sub.all (fun c => isLower c || isDigit c || c == cUnder || c == cDash || c == cSlash)
  | _ => t.getLast? == some 255

def resStr : Res → String
  | .ok => "ok"
  | .basicInvalidAddr => "basic-err:invalidaddr"
  | .basicPkgPath => "basic-err:pkgpath"
  | .basicFile => "basic-err:file"
  | .unknownAddr => "err:unknownaddr"
  | .pkgPath => "err:pkgpath"
  | .exists_ => "err:exists"
  | .package => "err:package"
  | .typecheck => "err:typecheck"
  | .unauthorized => "err:unauthorized"
  | .other => "err:other"
  | .panicMptype => "panic:mptype"
  | .panicNogmod => "panic:nogmod"
  | .panicGnover => "panic:gnover"
  | .panicNopkg => "panic:nopkg"

def fnvByte (h : UInt32) (b : UInt8) : UInt32 := (h ^^^ b.toUInt32) * 16777619

def fnvStr (h : UInt32) (s : Bytes) : UInt32 := fnvByte (s.foldl fnvByte h) 0

def hex8 (h : UInt32) : String :=
  String.ofList ((List.range 8).map fun i => nibble ((h.toNat >>> (4 * (7 - i))) % 16))

def digest (s : State) : String :=
  let w := walk s
  let h := w.foldl (fun h (p : Bytes × List File) =>
    let h := fnvStr h p.1
    let h := p.2.foldl (fun h f => fnvStr (fnvStr h f.name) f.body) h
    fnvByte h 1) (2166136261 : UInt32)
  s!"n={w.length} h={hex8 h}"

def fin (r : State × Res) : State × String := (r.1, resStr r.2 ++ " | " ++ digest r.1)

def asciiStr (b : Bytes) : String := String.ofList (b.map fun c => Char.ofNat c.toNat)

def step (s : State) (t : List String) : State × String :=
  let bad := (s, "err:badop")
  match t with
  | "add" :: h :: a :: p :: n :: g :: v :: fts =>
    match pNat h, pDigit a 4, unhex p, unhex n, pGm g, pVerdict v, fts.mapM pFile with
    | some h, some a, some p, some n, some g, some v, some fs =>
      if addUnmodelled p g fs then (s, "err:unmodelled")
      else fin (GnoVerif.C12.step s (Op.add { height := h, acct := a, path := p, name := n, gm := g, verdict := v, files := fs }))
    | _, _, _, _, _, _, _ => bad
  | ["names", a] =>
    match pDigit a 4 with
    | some a => fin (GnoVerif.C12.step s (Op.names a))
    | none => bad
  | ["param", b] =>
    if b == "0" then fin (GnoVerif.C12.step s (Op.param false))
    else if b == "1" then fin (GnoVerif.C12.step s (Op.param true))
    else bad
  | ["reg", a, ns] =>
    match pDigit a 2, unhex ns with
    | some a, some ns => fin (GnoVerif.C12.step s (Op.reg a ns))
    | _, _ => bad
  | ["qfile", fp] =>
    match unhex fp with
    | some fp =>
      if qfileUnmodelled fp then (s, "err:unmodelled") else
      (s, match queryFile s fp with
        | .file b => "f=" ++ bytesToHex b
        | .listing b => "l=" ++ bytesToHex b
        | .errFile => "err:file"
        | .errPackage => "err:package"
        | .panicBadPath => "panic:badpath")
    | none => bad
  | ["qpaths", tg, lim] =>
    match unhex tg, pNat lim with
    | some tg, some lim =>
      if qpathsUnmodelled tg then (s, "err:unmodelled") else
      (s, match queryPaths s tg lim with
        | some ps => "p=" ++ ",".intercalate (ps.map asciiStr)
        | none => "err:query")
    | _, _ => bad
  | ["pmut", v] =>
    match pNat v with
    | some v =>
      match pmutExpect v with
      | some (true, _) => (s, "ok v=111112 r=111112")
      | some (false, true) => (s, "rejected:call v=111112")
      | some (false, false) => (s, "rejected:deploy v=111112")
      | none => bad
    | none => bad
  | _ => bad

end GnoVerif.Drive.C12

/-- the harness kit cuts every output line at 300 bytes (`oneLine`); outputs are ASCII. -/
def cut300 (r : GnoVerif.C12.State × String) : GnoVerif.C12.State × String :=
  (r.1, if r.2.length > 300 then String.ofList (r.2.toList.take 300) else r.2)

def main : IO Unit :=
  GnoVerif.Kit.loop GnoVerif.C12.State.init (fun s t => cut300 (GnoVerif.Drive.C12.step s t))
