import GnoVerif.Base.Kit
import GnoVerif.Model.C11Alloc
/-!
Driver for C11 (see harness/cmd/c11/main.go for the ops).

* allocator scripts (`anew`, `aalloc`, `astr`, `asurv`, `areset`, `arecount`):
  the model of `gnovm/pkg/gnolang/alloc.go`, answering the tracked bytes or the
  panic class after every operation;
* crash probes (`prog`, `src`, `raw`): the statement's predicate — the handling
  of every submitted source ends in an allowed way — so the model's answer is
  the constant `allowed`; the harness prints `allowed` or the excluded class;
* `kf fallthrough-block-shrink …`: the pinned witness of the recorded internal
  fault, answered with the observed class.
-/
namespace GnoVerif.Drive.C11
open GnoVerif GnoVerif.Kit GnoVerif.C11

structure S where
  a : Option Alloc := none
  /-- the allocator panicked: the script is over -/
  dead : Bool := false
  deriving Inhabited

/-- alloc.go: allocString = _allocHeap + 16, allocStringByte = 1 -/
def allocString : Int := 48

def show1 (s : S) : String :=
  match s.a with
  | some a => s!"b={a.bytes}"
  | none => "err:noalloc"

def doAlloc (s : S) (size : Int) : S × String :=
  match s.a with
  | none => (s, "err:noalloc")
  | some a =>
    if s.dead then (s, "err:dead")
    else match allocate a size with
      | .ok a' => ({ s with a := some a' }, s!"b={a'.bytes}")
      | .error e => ({ s with dead := true }, "panic:" ++ e.name)

def step (s : S) (t : List String) : S × String :=
  match t with
  | ["anew", mx, gc] =>
    match parseInt mx with
    | some m => if m ≤ 0 then (s, "err:badop")
                else ({ a := some { maxBytes := m, bytes := 0, hasGC := gc == "1", survivors := 0 }, dead := false }, "b=0")
    | none => (s, "err:badop")
  | ["aalloc", n] =>
    match parseInt n with
    | some k => doAlloc s k
    | none => (s, "err:badop")
  | ["astr", n] =>
    match parseInt n with
    | some k =>
      -- AllocateString: overflow.Addp(allocString, overflow.Mulp(1, n)) then Allocate
      if allocString + k > maxInt64 then
        match s.a with
        | none => (s, "err:noalloc")
        | some _ => if s.dead then (s, "err:dead") else ({ s with dead := true }, "panic:overflow")
      else doAlloc s (allocString + k)
    | none => (s, "err:badop")
  | ["asurv", n] =>
    match parseInt n, s.a with
    | some k, some a => if s.dead then (s, "err:dead") else ({ s with a := some { a with survivors := k } }, s!"b={a.bytes}")
    | _, _ => (s, "err:noalloc")
  | ["areset"] =>
    match s.a with
    | some a => if s.dead then (s, "err:dead") else ({ s with a := some { a with bytes := 0 } }, "b=0")
    | none => (s, "err:noalloc")
  | ["arecount", n] =>
    match parseInt n, s.a with
    | some k, some a =>
      if s.dead then (s, "err:dead")
      else ({ s with a := some { a with bytes := a.bytes + k } }, s!"b={a.bytes + k}")
    | _, _ => (s, "err:noalloc")
  | "prog" :: _ => (s, "allowed")
  | "src" :: _ => (s, "allowed")
  | "raw" :: _ => (s, "allowed")
  | "kf" :: "fallthrough-block-shrink" :: _ =>
    (s, if fallShrinkObserved.allowed then "allowed" else "crash:vm-panic")
  | "kf" :: "defer-panic-recursion-memory" :: _ =>
    (s, if deferPanicRecursionObserved.allowed then "allowed" else "crash:resource")
  | "kf" :: _ => (s, "allowed")
  | _ => (s, "err:badop")

end GnoVerif.Drive.C11

def main : IO Unit := GnoVerif.Kit.loop ({} : GnoVerif.Drive.C11.S) GnoVerif.Drive.C11.step
