import GnoVerif.Base.Kit
import GnoVerif.Base.C39Sha256
import GnoVerif.Model.C30Tree
import GnoVerif.Model.C30Proof
/-!
Driver for C30: runs the Lean model of tm2/pkg/iavl (`MutableTree` over the
node database) on op lines.  `H := sha256`.

  new CACHE IV FLUSH      -> ok      fresh database and tree (CACHE, FLUSH: ignored by the model;
                                     IV: InitialVersion option, 0 = none)
  set K V                 -> true|false (updated) | err:nilvalue        (V = `-`: nil value)
  rm K                    -> <V|-> true|false
  get K | has K           -> <V|->  |  true|false
  gwi K                   -> <index> <V|->                                GetWithIndex
  gbi I                   -> <K|-> <V|->                                  GetByIndex
  size | height | ver     -> n
  it A S E INC            -> k=v,k=v,… | -     A = a|d; S, E = hex | `-` (nil); INC 0|1 (end inclusive);
                             INC 1 on a working tree with an unsaved leaf in range -> panic:nilderef
  save                    -> <hash> <version> | err:…
  hash | whash            -> <hash>            Hash() (last saved) | WorkingHash()
  rollback                -> ok
  load VER                -> <latest version> | err:…                     LoadVersion
  lvo VER                 -> ok | err:…   (VER ≥ 1)                       LoadVersionForOverwriting
  delto VER               -> ok | err:… | err:guard                       DeleteVersionsTo behind the protocol guard
                             (`St.deleteVersionsToGuarded`: refused at/above the working tree's base version)
  reopen                  -> <version> | err:…                            NewMutableTree on the same db + Load()
  vex VER | avail         -> true|false | v,v,… | -
  vget VER K              -> <V|->                                        GetVersioned
  iget|ihas|igwi|igbi|isize|iheight|ihash|iit|ishape VER …               the same reads on GetImmutable(VER),
                                     gated by VersionExists as store.GetImmutable does (err:noversion)
  ishape VER              -> post-order export: L<key>:<ver> / I<key>:<height>:<ver>, `-` for the empty tree
  prove VER K             -> exist <K> <V> <#inner ops> <digest> <root> | nonexist <LK|-> <RK|-> <digest> <root> | err:…
                             (store.Query's flow: VersionExists, GetVersioned, GetImmutable, Get(Non)MembershipProof)
K, V: lowercase hex, `e` = empty.  VER, I: int64 decimal.  Anything else: err:badop (state unchanged).
Outputs longer than 240 chars are clipped (`clip`).
-/
namespace GnoVerif.Drive.C30
open GnoVerif GnoVerif.Kit GnoVerif.C30

def H : Bytes → Bytes := GnoVerif.C39Sha.sha256

/-- strict int64 decimal: `-?[0-9]{1,19}` within range -/
def parseI64 (s : String) : Option Int :=
  let cs := s.toList
  let (neg, ds) := match cs with
    | '-' :: r => (true, r)
    | r => (false, r)
  if ds.isEmpty ∨ ds.length > 19 ∨ !(ds.all Char.isDigit) then none else
  let n : Nat := ds.foldl (fun a c => a * 10 + (c.toNat - '0'.toNat)) 0
  let v : Int := if neg then -(n : Int) else n
  if v < -9223372036854775808 ∨ v > 9223372036854775807 then none else some v

def parseNatMax (s : String) (max : Int) : Option Int :=
  match parseI64 s with
  | some v => if s.startsWith "-" ∨ v < 0 ∨ v > max then none else some v
  | none => none

/-- strict lowercase hex of even length, or `e` -/
def parseHex (s : String) : Option Bytes :=
  if s == "e" then some [] else
  if s.isEmpty ∨ s.length % 2 ≠ 0 then none else
  if s.toList.all (fun c => ('0' ≤ c ∧ c ≤ '9') ∨ ('a' ≤ c ∧ c ≤ 'f')) then hexToBytes s else none

/-- `-` = nil -/
def parseHexOpt (s : String) : Option (Option Bytes) :=
  if s == "-" then some none else (parseHex s).map some

def parseDir (s : String) : Option Bool :=
  if s == "a" then some true else if s == "d" then some false else none

def parseInc (s : String) : Option Bool :=
  if s == "0" then some false else if s == "1" then some true else none

def optHex : Option Bytes → String
  | none => "-"
  | some v => bytesToHex v

def fnv64 (s : String) : UInt64 :=
  s.toList.foldl (fun h c => (h ^^^ (UInt64.ofNat c.toNat)) * 1099511628211) 14695981039346656037

def clip (s : String) : String :=
  if s.length ≤ 240 then s else
  s!"#{s.length}:{fnv64 s}:{String.ofList (s.toList.take 160)}"

def joinOrDash (xs : List String) : String :=
  if xs.isEmpty then "-" else String.intercalate "," xs

def res (r : Except Err String) : String :=
  match r with
  | .ok s => s
  | .error e => e.token

/-! reads of an immutable tree (`root`, `version`) -/

def iterate (root : Option Node) (asc : Bool) (s e : Option Bytes) (inc : Bool) : String :=
  match root with
  | none => "-"
  | some n =>
    let t : Trav := ⟨s, e, asc, inc, false, [(n, true)]⟩
    let leaves := t.run.filterMap fun
      | .leaf k v _ => some (bytesToHex k ++ "=" ++ bytesToHex v)
      | .inner .. => none
    joinOrDash leaves

def shape (root : Option Node) : String :=
  match root with
  | none => "-"
  | some n =>
    let t : Trav := ⟨none, none, true, false, true, [(n, true)]⟩
    let ver (k : Option NodeKey) : Int := match k with | some x => x.version | none => 0
    String.intercalate " " (t.run.map fun
      | .leaf k _ nk => s!"L{bytesToHex k}:{ver nk}"
      | .inner k h _ nk _ _ => s!"I{bytesToHex k}:{h}:{ver nk}")

/-- does `IterateRangeInclusive` meet a leaf without node key? -/
def inclusivePanics (root : Option Node) (args : List String) : Bool :=
  match root, args with
  | some n, [a, s, e, _] =>
    match parseDir a, parseHexOpt s, parseHexOpt e with
    | some a, some s, some e =>
      let t : Trav := ⟨s, e, a, true, false, [(n, true)]⟩
      t.run.any fun
        | .leaf _ _ none => true
        | _ => false
    | _, _, _ => false
  | _, _ => false

/-- the read ops shared by the working tree and `GetImmutable` trees; `none` = malformed -/
def readOp (root : Option Node) (op : String) (args : List String) : Option String :=
  match op, args with
  | "get", [k] => (parseHex k).map fun k =>
      match root with
      | none => "-"
      | some n => optHex (n.get k).2
  | "has", [k] => (parseHex k).map fun k =>
      match root with
      | none => "false"
      | some n => boolStr (n.has k)
  | "gwi", [k] => (parseHex k).map fun k =>
      match root with
      | none => "0 -"
      | some n => let (i, v) := n.get k; s!"{i} {optHex v}"
  | "gbi", [i] => (parseI64 i).map fun i =>
      match root with
      | none => "- -"
      | some n =>
        match n.getByIndex i with
        | some (k, v) => bytesToHex k ++ " " ++ bytesToHex v
        | none => "- -"
  | "size", [] => some (match root with | none => "0" | some n => toString n.size)
  | "height", [] => some (match root with | none => "0" | some n => toString n.height)
  | "it", [a, s, e, i] =>
      match parseDir a, parseHexOpt s, parseHexOpt e, parseInc i with
      | some a, some s, some e, some i => some (iterate root a s e i)
      | _, _, _, _ => none
  | _, _ => none

/-! proofs: canonical digest -/

def u64le (n : Nat) : Bytes := (List.range 8).map fun i => UInt8.ofNat ((n >>> (8 * i)) % 256)

def frame (b : Bytes) : Bytes := u64le b.length ++ b

def existBytes : Option ExistProof → Bytes
  | none => [0]
  | some p =>
    [1] ++ frame p.key ++ frame p.value ++ frame p.leafPrefix ++ u64le p.path.length ++
      p.path.flatMap (fun op => frame op.pfx ++ frame op.sfx)

def digest (b : Bytes) : String :=
  let h := (H b).take 8
  String.ofList (h.flatMap fun x => [nibble (x.toNat / 16), nibble (x.toNat % 16)])

def prove (s : St) (v : Int) (k : Bytes) : String × St :=
  let (ex, s) := s.versionExists v
  if !ex then (Err.noVersion.token, s) else
  let (value, s) := s.getVersioned k v
  match s.getImmutable v with
  | .error e => (e.token, s)
  | .ok root =>
    let rh := bytesToHex (St.rootHash H (v + 1) root)
    match value, root with
    | some _, some r =>
      match membershipProof H v r k with
      | .error e => (e.token, s)
      | .ok p =>
        (s!"exist {bytesToHex p.key} {bytesToHex p.value} {p.path.length} {digest (existBytes (some p))} {rh}", s)
    | _, _ =>
      match nonMembershipProof H v root k with
      | .error e => (e.token, s)
      | .ok p =>
        let l := match p.left with | some x => bytesToHex x.key | none => "-"
        let r := match p.right with | some x => bytesToHex x.key | none => "-"
        (s!"nonexist {l} {r} {digest (existBytes p.left ++ existBytes p.right)} {rh}", s)

def step1 (s : St) (toks : List String) : St × String :=
  let bad := (s, "err:badop")
  match toks with
  | ["new", c, iv, fl] =>
    match parseNatMax c 1000000, parseNatMax iv 1000000, parseNatMax fl 10000000 with
    | some _, some iv, some _ => (St.init iv, "ok")
    | _, _, _ => bad
  | ["set", k, v] =>
    match parseHex k, parseHexOpt v with
    | some k, some v =>
      match s.set k v with
      | .ok (upd, s') => (s', boolStr upd)
      | .error e => (s, e.token)
    | _, _ => bad
  | ["rm", k] =>
    match parseHex k with
    | some k =>
      match s.remove k with
      | .ok ((v, removed), s') => (s', optHex v ++ " " ++ boolStr removed)
      | .error e => (s, e.token)
    | none => bad
  | ["ver"] => (s, toString s.version)
  | ["hash"] => (s, bytesToHex (s.savedHash H))
  | ["whash"] => (s, bytesToHex (s.workingHash H))
  | ["save"] =>
    match s.saveVersion H with
    | (.ok (h, v), s') => (s', s!"{bytesToHex h} {v}")
    | (.error e, s') => (s', e.token)
  | ["rollback"] => (s.rollback, "ok")
  | ["load", v] =>
    match parseI64 v with
    | some v =>
      match s.loadVersion v with
      | (.ok l, s') => (s', toString l)
      | (.error e, s') => (s', e.token)
    | none => bad
  | ["lvo", v] =>
    match parseI64 v with
    | some v =>
      if v < 1 then bad else
      match s.loadVersionForOverwriting v with
      | (.ok _, s') => (s', "ok")
      | (.error e, s') => (s', e.token)
    | none => bad
  | ["delto", v] =>
    match parseI64 v with
    | some v =>
      -- protocol guard: never delete the version the working tree was loaded from (or a
      -- newer one) while still newer versions exist
      match s.deleteVersionsToGuarded v with
      | (none, s') => (s', "err:guard")
      | (some (.ok _), s') => (s', "ok")
      | (some (.error e), s') => (s', e.token)
    | none => bad
  | ["reopen"] =>
    match s.reopen with
    | (.ok v, s') => (s', toString v)
    | (.error e, s') => (s', e.token)
  | ["vex", v] =>
    match parseI64 v with
    | some v => let (b, s') := s.versionExists v; (s', boolStr b)
    | none => bad
  | ["avail"] =>
    let (vs, s') := s.availableVersions
    (s', joinOrDash (vs.map toString))
  | ["vget", v, k] =>
    match parseI64 v, parseHex k with
    | some v, some k => let (r, s') := s.getVersioned k v; (s', optHex r)
    | _, _ => bad
  | ["prove", v, k] =>
    match parseI64 v, parseHex k with
    | some v, some k => let (out, s') := prove s v k; (s', out)
    | _, _ => bad
  | op :: args =>
    if op == "get" ∨ op == "has" ∨ op == "gwi" ∨ op == "gbi" ∨ op == "size" ∨ op == "height" ∨ op == "it" then
      match readOp s.root op args with
      | some out =>
        -- IterateRangeInclusive hands `node.nodeKey.version` to its callback: a nil
        -- dereference on a leaf that was never saved (working tree only)
        if op == "it" ∧ args.getLast? == some "1" ∧ inclusivePanics s.root args then (s, "panic:nilderef")
        else (s, out)
      | none => bad
    else if op == "iget" ∨ op == "ihas" ∨ op == "igwi" ∨ op == "igbi" ∨ op == "isize" ∨ op == "iheight" ∨
        op == "iit" ∨ op == "ihash" ∨ op == "ishape" then
      match args with
      | v :: rest =>
        match parseI64 v with
        | none => bad
        | some v =>
          -- validate the remaining tokens before touching the tree
          let rop := (op.drop 1).toString
          let valid : Bool :=
            if rop == "hash" ∨ rop == "shape" then rest.isEmpty
            else (readOp none rop rest).isSome
          if !valid then bad else
          let (ex, s) := s.versionExists v
          if !ex then (s, Err.noVersion.token) else
          match s.getImmutable v with
          | .error e => (s, e.token)
          | .ok root =>
            if rop == "hash" then (s, bytesToHex (St.rootHash H (v + 1) root))
            else if rop == "shape" then (s, shape root)
            else
              match readOp root rop rest with
              | some out => (s, out)
              | none => (s, "err:badop")
      | [] => bad
    else bad
  | [] => bad

def step (s : St) (toks : List String) : St × String :=
  let (s', out) := step1 s toks
  (s', clip out)

end GnoVerif.Drive.C30

def main : IO Unit :=
  GnoVerif.Kit.loop (GnoVerif.C30.St.init 0) GnoVerif.Drive.C30.step
