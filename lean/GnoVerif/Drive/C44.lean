import GnoVerif.Base.Kit
import GnoVerif.Model.C44
/-! Driver for C44: runs the multisig model on the op lines of harness/cmd/c44 (see its header
for the line format).  The verify matrix on the line stands in for real cryptography. -/
namespace GnoVerif.Drive.C44
open GnoVerif GnoVerif.Kit GnoVerif.C44

def parseBits (s : String) : Option BA :=
  if s == "nil" then some none else
  match s.splitOn ":" with
  | [a, b] =>
    match a.toNat?, hexToBytes b with
    | some e, some bs => if e < 256 then some (some { extra := UInt8.ofNat e, elems := bs }) else none
    | _, _ => none
  | _ => none

def showBits : BA → String
  | none => "nil"
  | some b => s!"{b.extra.toNat}:{bytesToHex b.elems}"

def parseMatrix (s : String) : List (List Bool) :=
  if s == "-" then [] else (s.splitOn "/").map fun row => row.toList.map (· == '1')

def specChars (spec : String) : List Char := if spec == "-" then [] else spec.toList

/-- key `i` = nil for `n`, else row `i` of the matrix. -/
def keysOf (spec : String) (m : List (List Bool)) : List (Key Nat) :=
  (specChars spec).zipIdx.map fun (c, i) =>
    if c == 'n' then none else some (fun j => (m.getD i []).getD j false)

def listOf (s : String) : List String := if s == "-" then [] else s.splitOn ","

def showRes : R Bool → String
  | .ok b => boolStr b
  | .error .index => "panic:index"
  | .error .decode => "panic:decode"

def showNat : R Nat → String
  | .ok n => toString n
  | .error _ => "P"

def parseK (s : String) : Option UInt64 :=
  match s.toNat? with
  | some n => if n < 2 ^ 64 then some (UInt64.ofNat n) else none
  | none => none

def tail (ba : BA) (n : Nat) : String :=
  s!" sz={ba.size} nt={showNat (ba.numTrueBitsBeforeE (n : Int))}"

def runMs (k spec bits sigs matrix : String) : String :=
  match parseK k, parseBits bits with
  | some k, some ba =>
    let keys := keysOf spec (parseMatrix matrix)
    let m : MSig Nat := { ba := ba, sigs := List.range (listOf sigs).length }
    showRes (verifyBytesE k keys (some m)) ++ tail ba keys.length
  | _, _ => "err:badop"

def runRaw (k spec dec matrix : String) : String :=
  match parseK k with
  | none => "err:badop"
  | some k =>
    let keys := keysOf spec (parseMatrix matrix)
    if dec == "fail" then showRes (verifyBytesE k keys (none : Option (MSig Nat))) ++ " sz=- nt=-" else
    match dec.splitOn "/" with
    | [bits, ns] =>
      match parseBits bits, ns.toNat? with
      | some ba, some ns =>
        let m : MSig Nat := { ba := ba, sigs := List.range ns }
        showRes (verifyBytesE k keys (some m)) ++ tail ba keys.length
      | _, _ => "err:badop"
    | _ => "err:badop"

/-- an add of the `build` op: signature token, then `@index` | `~pos` | `~f`. -/
inductive AddKind where
  | direct (index : Int)
  | fromKey (id : Nat)

def parseAdd (spec : List Char) (a : String) : Option (String × AddKind) :=
  match a.splitOn "@" with
  | [t, i] => i.toInt?.map fun i => (t, .direct i)
  | _ =>
    match a.splitOn "~" with
    | [t, "f"] => some (t, .fromKey 1000000)
    | [t, p] => p.toNat?.map fun p => (t, .fromKey (if spec.getD p 'e' == 'd' then 0 else p))
    | _ => none

/-- canonical name of a signature token: positions holding the duplicate key `d` name key 0. -/
def normTok (spec : List Char) (t : String) : String :=
  match t.toList with
  | c :: rest =>
    if c == 'k' || c == 'w' || c == 'm' then
      match (String.ofList rest).toNat? with
      | some p => if p > 0 && spec.getD p 'e' == 'd' then String.ofList [c] ++ "0" else t
      | none => t
    else t
  | [] => t

def runBuild (k spec adds matrix : String) : String :=
  match parseK k with
  | none => "err:badop"
  | some k =>
    let sc := specChars spec
    let keys := keysOf spec (parseMatrix matrix)
    let keyIds : List Nat := sc.zipIdx.map fun (c, i) => if c == 'd' then 0 else i
    match (listOf adds).mapM (parseAdd sc) with
    | none => "err:badop"
    | some as =>
      let n : Int := sc.length
      let step (st : R (MSig Nat × Nat)) (x : (String × AddKind) × Nat) : R (MSig Nat × Nat) := do
        let (m, errs) ← st
        match x.1.2 with
        | .direct idx => do let m' ← addSignatureE m x.2 idx; pure (m', errs)
        | .fromKey id => do
          match ← addSignatureFromPubKeyE m x.2 id keyIds with
          | some m' => pure (m', errs)
          | none => pure (m, errs + 1)
      match as.zipIdx.foldl step (.ok (newMultisig n, 0)) with
      | .error _ => "panic:index"
      | .ok (m, errs) =>
        let names := m.sigs.map fun j => normTok sc ((as.getD j ("?", .direct 0)).1)
        let sl := if names.isEmpty then "-" else ",".intercalate names
        s!"{showRes (verifyBytesE k keys (some m))} bits={showBits m.ba} sigs={sl} errs={errs}"

def runBa (bits i : String) : String :=
  match parseBits bits, i.toInt? with
  | some ba, some i =>
    match ba.getIndexE i, ba.numTrueBitsBeforeE i with
    | .ok g, .ok c => s!"sz={ba.size} get={boolStr g} ntb={c}"
    | _, _ => "panic:index"
  | _, _ => "err:badop"

def runBaSet (bits i v : String) : String :=
  match parseBits bits, i.toInt? with
  | some ba, some i =>
    match ba.setIndexE i (v == "1") with
    | .ok (ba', ok) => s!"ok={boolStr ok} bits={showBits ba'}"
    | .error _ => "panic:index"
  | _, _ => "err:badop"

/-- gas per key type: auth.DefaultParams().SigVerifyCostED25519 / …Secp256k1 -/
def costOf (c : Char) : Option Nat :=
  if c == 'e' then some 590 else if c == 's' then some 1000 else none

def showGas : R Nat → String
  | .ok g => s!"gas={g}"
  | .error .index => "panic:index"
  | .error .decode => "panic:decode"

def runGas (spec bits nsigs : String) : String :=
  match parseBits bits, nsigs.toNat? with
  | some ba, some ns =>
    let m : MSig Nat := { ba := ba, sigs := List.range ns }
    showGas (multisigGasE ((specChars spec).map costOf) (some m))
  | _, _ => "err:badop"

def runGasRaw (spec dec : String) : String :=
  let costs := (specChars spec).map costOf
  if dec == "fail" then showGas (multisigGasE costs (none : Option (MSig Nat))) else
  match dec.splitOn "/" with
  | [bits, ns] => runGas spec bits ns
  | _ => "err:badop"

/-- single-key operations: no model of the curves — the line answers what the STATEMENT says
    (a signature verifies iff nothing was changed). -/
def step (_ : Unit) (t : List String) : Unit × String :=
  ((), match t with
  | ["ms", k, spec, _msg, bits, sigs, matrix] => runMs k spec bits sigs matrix
  | ["raw", k, spec, _msg, _bytes, dec, matrix] => runRaw k spec dec matrix
  | ["build", k, spec, _msg, adds, matrix] => runBuild k spec adds matrix
  | ["ba", bits, i] => runBa bits i
  | ["baset", bits, i, v] => runBaSet bits i v
  | ["single", _ty, _idx, _msg, mu] => boolStr (mu == "none")
  | ["rawsig", _ty, _idx, _msg, _sig] => "false"
  | ["rawkey", _ty, _pub, _msg, _sig] => "nopanic"
  | ["gas", spec, bits, nsigs] => runGas spec bits nsigs
  | ["gasraw", spec, _bytes, dec] => runGasRaw spec dec
  | _ => "err:badop")

end GnoVerif.Drive.C44

def main : IO Unit := GnoVerif.Kit.loop () GnoVerif.Drive.C44.step
