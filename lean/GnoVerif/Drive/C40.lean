import GnoVerif.Base.Kit
import GnoVerif.Model.C40
/-! Driver for C40: runs the mempool model on op lines (see harness/cmd/c40/main.go
    for the line protocol).  Parsing is strict and mirrors the harness. -/
namespace GnoVerif.Drive.C40
open GnoVerif GnoVerif.Kit GnoVerif.C40

def lim : Nat := 2 ^ 62

/-- optional `-`, then 1..19 decimal digits, |v| ≤ 2^62. -/
def pInt (s : String) : Option Int :=
  let cs := s.toList
  let (neg, ds) := match cs with
    | '-' :: r => (true, r)
    | r => (false, r)
  if ds.isEmpty ∨ ds.length > 19 ∨ ¬ ds.all Char.isDigit then none else
  let v := ds.foldl (fun a c => a * 10 + (c.toNat - '0'.toNat)) 0
  if v > lim then none else some (if neg then - (v : Int) else (v : Int))

def lowerHexDigit (c : Char) : Option Nat :=
  if '0' ≤ c ∧ c ≤ '9' then some (c.toNat - '0'.toNat)
  else if 'a' ≤ c ∧ c ≤ 'f' then some (c.toNat - 'a'.toNat + 10)
  else none

def pTx (s : String) : Option Tx :=
  if s == "e" then some [] else
  if s.isEmpty then none else
  let rec go : List Char → List UInt8 → Option (List UInt8)
    | [], acc => some acc.reverse
    | [_], _ => none
    | a :: b :: rest, acc =>
      match lowerHexDigit a, lowerHexDigit b with
      | some x, some y => go rest (UInt8.ofNat (x*16+y) :: acc)
      | _, _ => none
  go s.toList []

def pFlag (s : String) : Option Bool :=
  if s == "o" then some true else if s == "x" then some false else none

def pCommits (s : String) : Option (List (Tx × Bool)) :=
  if s == "-" then some [] else
  (s.splitOn ",").mapM fun part =>
    match part.splitOn ":" with
    | [a, b] => do
      let tx ← pTx a
      let fl ← pFlag b
      pure (tx, fl)
    | _ => none

def pAnswers (s : String) : Option (List Bool) :=
  if s == "-" then some [] else
  s.toList.mapM fun c => pFlag (String.singleton c)

def txsStr (l : List Tx) : String :=
  if l.isEmpty then "-" else ",".intercalate (l.map bytesToHex)

def dump (s : State) : String :=
  let body := if s.txs.isEmpty then "-" else
    ",".intercalate (s.txs.map fun t => s!"{bytesToHex t.tx}@{t.height}")
  s!"{body} b={s.txsBytes} n={s.txs.length}"

def fin (res : String) (s : State) : State × String := (s, res ++ " | " ++ dump s)

def defaultConf : Config := { size := 4, maxPending := 12, cacheSize := 3, maxTxBytes := 5, recheck := true }

def inRange32 (a : Int) : Bool := decide (-(2^31 : Int) ≤ a ∧ a ≤ 2^31)

def step (s : State) (t : List String) : State × String :=
  let bad := (s, "err:badop")
  match t with
  | ["cfg", a, b, c, d, r] =>
    match pInt a, pInt b, pInt c, pInt d with
    | some a, some b, some c, some d =>
      if (r ≠ "0" ∧ r ≠ "1") ∨ ¬ inRange32 a ∨ ¬ inRange32 c then bad
      else if d ≤ 0 then fin "panic:maxtxbytes" s
      else fin "ok" (init { size := a, maxPending := b, cacheSize := c, maxTxBytes := d, recheck := r == "1" })
    | _, _, _, _ => bad
  | ["check", x, f, g] =>
    match pTx x, pFlag f, pInt g with
    | some x, some f, some g =>
      if g < 0 ∨ g ≥ 2^60 then bad else
      let (s', r) := checkTx s x f g
      let rs := match r with
        | .full => "err:full" | .tooLarge => "err:toolarge" | .inCache => "err:incache"
        | .present => "present" | .added => "added" | .rejected => "rejected"
      fin rs s'
    | _, _, _ => bad
  | ["update", h, c, a] =>
    match pInt h, pCommits c, pAnswers a with
    | some h, some c, some a => fin "ok" (update s h c a)
    | _, _, _ => bad
  | ["reapbg", mb, mg] =>
    match pInt mb, pInt mg with
    | some mb, some mg =>
      match reapBG s mb mg with
      | none => fin "panic:maxbytes0" s
      | some r => fin ("reap=" ++ txsStr r) s
    | _, _ => bad
  | ["reapn", n] =>
    match pInt n with
    | some n => if ¬ inRange32 n then bad else fin ("reap=" ++ txsStr (reapN s n)) s
    | none => bad
  | ["flush"] => fin "ok" (flush s)
  | ["stress", a, b] =>
    match pInt a, pInt b with
    | some a, some b => if a < 0 ∨ b < 0 ∨ b > 100000 then bad else (s, "stress")
    | _, _ => bad
  | _ => bad

end GnoVerif.Drive.C40

def main : IO Unit := GnoVerif.Kit.loop (GnoVerif.C40.init GnoVerif.Drive.C40.defaultConf) GnoVerif.Drive.C40.step
