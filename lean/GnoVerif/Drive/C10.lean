import GnoVerif.Base.Kit
import GnoVerif.Model.C02RunTxProto
/-!
Driver for C10: the runTx model (same protocol as C02) plus direct gas-meter ops

  m new b <limit> | m new i | m new p <limit>     (p wraps the current meter)
  m c <n> | m r <n>

and the expectation table for the Gno-program runs of the thorough tier

  gno <program> <gasLimit>      → stop=oog   (every listed program does unbounded work)
-/
namespace GnoVerif.Drive.C10
open GnoVerif GnoVerif.Kit GnoVerif.C10 GnoVerif.C02

def showPanic : GasPanic → String
  | .negative => "negative" | .overflow => "overflow" | .oog => "oog" | .subOverflow => "suboverflow"

def flag (b : Bool) (c : String) : String := if b then c else "-"

/-- `<kind>[consumed/limit t=<toLimit> r=<remaining> <P|-><O|->]` -/
def showLevel (kind : String) (m : Meter) : String :=
  let rem := match m.remaining with
    | .ok r => toString r
    | .error p => "panic:" ++ showPanic p
  s!"{kind}[{m.gasConsumed}/{m.limit} t={m.consumedToLimit} r={rem} {flag m.isPastLimit "P"}{flag m.isOutOfGas "O"}]"

def showMeter : Meter → String
  | .basic b => showLevel "b" (.basic b)
  | .infinite c => showLevel "i" (.infinite c)
  | .pass base h => showLevel "p" (.pass base h) ++ "<" ++ showMeter base

def unboundedPrograms : List String :=
  ["loop", "recurse", "alloc", "strcat", "mapgrow", "closure", "strconv", "nested", "append", "defer"]

structure St where
  app : Proto.PState := {}
  meter : Option Meter := none

def stepMeter (s : St) (t : List String) : St × String :=
  match t with
  | ["new", "i"] => let m := Meter.infinite 0; ({ s with meter := some m }, "ok " ++ showMeter m)
  | ["new", "b", l] =>
    match Proto.parseI64 l with
    | none => (s, "err:badop")
    | some lim =>
      match Basic.new lim with
      | .error p => (s, "panic:" ++ showPanic p)
      | .ok b => let m := Meter.basic b; ({ s with meter := some m }, "ok " ++ showMeter m)
  | ["new", "p", l] =>
    match Proto.parseI64 l, s.meter with
    | none, _ => (s, "err:badop")
    | some _, none => (s, "err:nometer")
    | some lim, some base =>
      match Basic.new lim with
      | .error p => (s, "panic:" ++ showPanic p)
      | .ok b => let m := Meter.pass base b; ({ s with meter := some m }, "ok " ++ showMeter m)
  | [op, n] =>
    if op != "c" && op != "r" then (s, "err:badop") else
    match Proto.parseI64 n, s.meter with
    | none, _ => (s, "err:badop")
    | some _, none => (s, "err:nometer")
    | some v, some m =>
      let r := if op == "c" then m.consume v else m.refund v
      let tag := match r.2 with
        | none => "ok"
        | some p => "panic:" ++ showPanic p
      ({ s with meter := some r.1 }, tag ++ " " ++ showMeter r.1)
  | _ => (s, "err:badop")

def step (s : St) (t : List String) : St × String :=
  match t with
  | "m" :: rest => stepMeter s rest
  | ["gno", prog, lim] =>
    match Proto.parseI64 lim with
    | some l => if unboundedPrograms.contains prog && l ≥ 0 then (s, "stop=oog") else (s, "err:badop")
    | none => (s, "err:badop")
  | _ => let r := Proto.step s.app t; ({ s with app := r.1 }, r.2)

end GnoVerif.Drive.C10

def main : IO Unit := GnoVerif.Kit.loop ({} : GnoVerif.Drive.C10.St) GnoVerif.Drive.C10.step
