import GnoVerif.Base.Kit
import GnoVerif.Model.C33
/-! Driver for C33: runs the crash/restart model on the harness's op lines
(`run`, `events`, `crash`, `mix`; see harness/cmd/c33/main.go). -/
namespace GnoVerif.Drive.C33
open GnoVerif GnoVerif.Kit GnoVerif.C33

structure Boot where
  start : Disk
  evs : List LEv
  dead : Bool
  resumedH : Nat    -- 0 = none
deriving Inhabited

structure DState where
  script : List Tx
  rounds : List (Nat × Nat)
  ref : Option Disk      -- final world of the reference run
  refBoot : Option Boot
  cur : Option Boot
deriving Inhabited

def DState.init : DState := ⟨[], [], none, none, none⟩

def evName : Ev → String
  | .pvP _ _ => "pvP" | .pvV _ _ _ => "pvV" | .pvC _ _ _ => "pvC"
  | .wP _ _ => "wP" | .wB _ _ => "wB" | .wV _ _ _ => "wV" | .wC _ _ _ => "wC" | .wE _ => "wE"
  | .bsH => "bsH" | .bsP => "bsP" | .bsC => "bsC" | .bsS => "bsS" | .bsJ _ => "bsJ" | .bsF => "bsF"
  | .stG => "stG" | .stR _ => "stR" | .stT => "stT" | .stP => "stP" | .stV => "stV" | .stS _ _ _ => "stS"
  | .apC => "apC" | .apK => "apK" | .apS _ _ => "apS"

def errName : HsErr → String
  | .appAhead => "err:app-ahead"
  | .stateAhead => "panic:state-ahead"
  | .storeAhead => "panic:store-ahead"
  | .appHash => "panic:apphash"
  | .noResp => "err:no-abci-responses"
  | .noBlock => "err:no-block"
  | .invalidBlock => "err:invalid-block"
  | .uncovered => "panic:uncovered"
  | .noSeenCommit => "panic:no-seen-commit"

def triple (d : Core) : String := s!"{d.store}/{d.st}/{d.app}"

def splitOnce (s : String) (c : Char) : Option (String × String) :=
  match s.splitOn (String.singleton c) with
  | [a, b] => some (a, b)
  | _ => none

def parseTx (t : String) : Option Tx :=
  match splitOnce t ':' with
  | some (a, b) =>
    match parseNat a, parseNat b with
    | some v, some s => if v < 4294967296 ∧ 8 ≤ s ∧ s ≤ 200000 then some ⟨v, s⟩ else none
    | _, _ => none
  | none => none

def parseRound (t : String) : Option (Nat × Nat) :=
  if t.startsWith "r" then
    match splitOnce (t.drop 1).toString '=' with
    | some (a, b) =>
      match parseNat a, parseNat b with
      | some h, some k => if 1 ≤ h ∧ h ≤ 64 ∧ k ≤ 3 then some (h, k) else none
      | _, _ => none
    | none => none
  else none

def parseRun : List String → Option (List Tx × List (Nat × Nat))
  | [] => some ([], [])
  | t :: rest =>
    match parseRun rest with
    | none => none
    | some (txs, rs) =>
      if t.startsWith "r" then
        match parseRound t with
        | some r => some (txs, r :: rs)
        | none => none
      else
        match parseTx t with
        | some tx => some (tx :: txs, rs)
        | none => none

/-- the last `r<h>=` of a height wins in the harness (map assignment): keep the last -/
def normRounds (rs : List (Nat × Nat)) : List (Nat × Nat) := rs.reverse

def endWorld (b : Boot) : Disk := applyAll b.start (b.evs.map (·.ev))

def countCommits (evs : List Ev) : Nat := (evs.filter (fun e => match e with | .apS _ _ => true | _ => false)).length

def mkBoot (s : DState) (rounds : List (Nat × Nat)) (d : Disk) : Except HsErr (Boot × List Ev × Disk) :=
  match bootEvs s.script rounds d with
  | .error e => .error e
  | .ok (evs, d1) =>
    let hsEvs := (evs.filter (·.hs)).map (·.ev)
    .ok (⟨d, evs, !live d1, if freshHeight d1 then 0 else d1.st + 1⟩, hsEvs, d1)

def opRun (s : DState) (toks : List String) : DState × String :=
  if s.cur.isSome ∨ s.ref.isSome then (s, "err:badop") else
  match parseRun toks with
  | none => (s, "err:badop")
  | some (txs, rs) =>
    if txs.length > 6 then (s, "err:badop") else
    let s1 : DState := { s with script := txs, rounds := normRounds rs }
    match mkBoot s1 s1.rounds Disk.empty with
    | .error _ => (s1, "stuck")
    | .ok (b, _, _) =>
      let fin := endWorld b
      ({ s1 with ref := some fin, refBoot := some b, cur := some b }, s!"ok H={fin.store} hash={fin.appHash}")

def parseAddr : List String → Option (Bool × Nat × String × Nat)
  | [ph, h, nm] =>
    if ph != "hs" && ph != "cs" then none else
    match parseNat h with
    | none => none
    | some h =>
      match nm.splitOn "." with
      | [n] => some (ph == "hs", h, n, 0)
      | [n, i] => match parseNat i with
        | some i => some (ph == "hs", h, n, i)
        | none => none
      | _ => none
  | _ => none

def supported (b : Boot) (hs : Bool) (h : Nat) : Bool := !( !hs && b.resumedH != 0 && h == b.resumedH)

def opEvents (s : DState) (toks : List String) : DState × String :=
  match s.cur, toks with
  | some b, [ph, h] =>
    if ph != "hs" && ph != "cs" then (s, "err:badop") else
    match parseNat h with
    | none => (s, "err:badop")
    | some h =>
      if b.dead then (s, "err:dead") else
      if !supported b (ph == "hs") h then (s, "err:unsupported") else
      let names := (b.evs.filter (fun e => e.hs == (ph == "hs") && e.h == h)).map (fun e => evName e.ev)
      if names.isEmpty then (s, "none") else (s, " ".intercalate names)
  | _, _ => (s, "err:badop")

/-- index of the `idx`-th step named `nm` at (phase, h) -/
def findEv (evs : List LEv) (hs : Bool) (h : Nat) (nm : String) (idx : Nat) : Option Nat :=
  let rec go : List LEv → Nat → Nat → Option Nat
    | [], _, _ => none
    | e :: rest, pos, seen =>
      if e.hs == hs && e.h == h && evName e.ev == nm then
        if seen == idx then some pos else go rest (pos + 1) (seen + 1)
      else go rest (pos + 1) seen
  go evs 0 0

def opCrash (s : DState) (toks : List String) : DState × String :=
  match s.cur, parseAddr toks with
  | some b, some (hs, h, nm, idx) =>
    if b.dead then (s, "err:dead") else
    if !supported b hs h then (s, "err:unsupported") else
    match findEv b.evs hs h nm idx with
    | none => (s, "err:noevent")
    | some j =>
      let p := applyAll b.start ((b.evs.take j).map (·.ev))
      let pre := s!"pre={triple p.toCore}"
      match mkBoot s [] p with
      | .error e => ({ s with cur := some ⟨p, [], true, 0⟩ }, s!"{pre} hs={errName e}")
      | .ok (nb, hsEvs, d1) =>
        let m := if hasMark p.wal (d1.st + 1) then 1 else 0
        let inits := if p.app == 0 then 1 else 0
        let head := s!"{pre} m={m} pv={p.pv.h}/{p.pv.r}/{p.pv.s} hs={countCommits hsEvs}/{inits} post={triple d1.toCore} hash={d1.stHash}"
        if nb.dead then
          ({ s with cur := some nb }, s!"{head} live=stuck end=-")
        else
          let fin := endWorld nb
          ({ s with cur := some nb }, s!"{head} live=ok end={s.script.length}/{fin.appHash}")
  | _, _ => (s, "err:badop")

/-- `tear h w`: kill #1 in the middle of writing the WAL record `w` of height `h`; restart; kill #2
right before that height's `SaveBlock`; restart -/
def opTear (s : DState) (toks : List String) : DState × String :=
  match s.cur, toks with
  | some b, [h, nm] =>
    match parseAddr ["cs", h, nm] with
    | none => (s, "err:badop")
    | some (_, h, nm, idx) =>
      if nm != "wP" && nm != "wB" && nm != "wV" && nm != "wC" then (s, "err:badop") else
      if b.dead then (s, "err:dead") else
      if !supported b false h then (s, "err:unsupported") else
      match findEv b.evs false h nm idx with
      | none => (s, "err:noevent")
      | some j =>
        let dead : DState := { s with cur := some ⟨b.start, [], true, 0⟩ }
        let p1 := tornKill (applyAll b.start ((b.evs.take j).map (·.ev)))
        match mkBoot s [] p1 with
        | .error e => (dead, s!"r1={errName e} r2=-")
        | .ok (nb, _, d1) =>
          if nb.dead then (dead, "r1=stuck r2=-") else
          match findEv nb.evs false (d1.st + 1) "bsH" 0 with
          | none => (dead, "r1=ok r2=-")
          | some j2 =>
            let p2 := applyAll p1 ((nb.evs.take j2).map (·.ev))
            match mkBoot s [] p2 with
            | .error e => (dead, s!"r1=ok r2={errName e}")
            | .ok (nb2, _, d2) =>
              if !startOK d2 then (dead, "r1=ok r2=err:wal-corrupt")
              else if nb2.dead then (dead, "r1=ok r2=stuck")
              else (dead, "r1=ok r2=ok")
  | _, _ => (s, "err:badop")

def hashAfter (r : Disk) (k : Nat) : Nat := chainHash (r.blocks.take k)

def opMix (s : DState) (toks : List String) : DState × String :=
  match s.ref, toks with
  | some r, [b, st, a] =>
    match parseNat b, parseNat st, parseNat a with
    | some b, some st, some a =>
      if b > r.store ∨ st > r.store ∨ a > r.store then (s, "err:badop") else
      let d : Core := { r.toCore with blocks := r.blocks.take b, st := st, stHash := hashAfter r st,
                                      resp := (List.range (st + 1)).reverse, app := a, appHash := hashAfter r a }
      match newNode d with
      | .error e => (s, s!"hs={errName e}")
      | .ok (evs, d1) =>
        let inits := if a == 0 then 1 else 0
        (s, s!"hs={countCommits evs}/{inits} post={triple d1} hash={d1.stHash}")
    | _, _, _ => (s, "err:badop")
  | _, _ => (s, "err:badop")

def step (s : DState) (t : List String) : DState × String :=
  match t with
  | "run" :: rest => opRun s rest
  | "events" :: rest => opEvents s rest
  | "crash" :: rest => opCrash s rest
  | "mix" :: rest => opMix s rest
  | "tear" :: rest => opTear s rest
  | ["back"] => match s.refBoot with
    | some b => ({ s with cur := some b }, "ok")
    | none => (s, "err:badop")
  | _ => (s, "err:badop")

end GnoVerif.Drive.C33

def main : IO Unit := GnoVerif.Kit.loop GnoVerif.Drive.C33.DState.init GnoVerif.Drive.C33.step
