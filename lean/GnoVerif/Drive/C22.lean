import GnoVerif.Base.Kit
import GnoVerif.Model.C22
/-!
Driver for C22 (cache / prefix store stacks).  Line protocol:

```
new L<i> cache L<i-1>            push a cache store on the current top (i = current height)
new L<i> prefix <hex> L<i-1>     push a prefix store
get|has|del L<i> <key>           key: hex | e (empty) | - (nil)
set L<i> <key> <value>
it  L<i> asc|desc <start> <end>  full listing  [k=v,k=v,…]
ito L<i> asc|desc <start> <end>  open an iterator and keep it (ids 0,1,2,… per case)
itr <id>                         drain a kept iterator: its listing, or `stale` when an op
                                 physically reached the base (memdb) store meanwhile
write|cp|wcp|hascp L<i>
dump                             it L<i> asc - - for every layer, bottom to top
cmp <a> <b> | pend <p> | indom <k> <s> <e>     Base.Lex against bytes.Compare /
                                 PrefixEndBytes / IsKeyInDomain
```
L0 is the base (dbadapter over memdb); the state is reset at every `#case`.
-/
namespace GnoVerif.Drive.C22
open GnoVerif GnoVerif.Kit GnoVerif.C22

structure Held where
  id : Nat
  layer : Nat
  tainted : Bool
  items : List Item

structure St where
  l : Layer
  held : List Held
  nextId : Nat

def St.init : St := ⟨.base [], [], 0⟩

/-- FNV-1a (64 bit) of an ASCII string. -/
def fnv64 (s : String) : UInt64 :=
  s.foldl (fun h c => (h ^^^ c.toNat.toUInt64) * 1099511628211) 14695981039346656037

def hex64 (x : UInt64) : String :=
  String.ofList ((List.range 16).map fun i => nibble ((x >>> (60 - 4 * i).toUInt64).toNat % 16))

/-- the harness kit cuts output lines at 300 characters: long listings are
printed as a 200-character head plus length and FNV-1a digest of the whole. -/
def compact (s : String) : String :=
  if s.length ≤ 250 then s else (s.take 200).toString ++ "~" ++ toString s.length ++ "~" ++ hex64 (fnv64 s)

def showItems (l : List Item) : String :=
  "[" ++ ",".intercalate (l.map fun it => bytesToHex it.1 ++ "=" ++ optBytesToHex it.2) ++ "]"

def showOut : Out → String
  | .ok => "ok"
  | .val v => optBytesToHex v
  | .bool b => boolStr b
  | .items l => showItems l
  | .panic c => "panic:" ++ c
  | .err c => "err:" ++ c

/-- a decimal token: 1–9 digits, nothing else. -/
def natTok (s : String) : Option Nat :=
  if s.length ≥ 1 ∧ s.length ≤ 9 ∧ s.all Char.isDigit then s.toNat? else none

def layerIdx (s : String) : Option Nat :=
  if s.startsWith "L" then natTok (s.drop 1).toString else none

def dirOf : String → Option Bool
  | "asc" => some true
  | "desc" => some false
  | _ => none

/-- `true` per layer (bottom first) when the layer is a cache store. -/
def cacheFlags : Layer → List Bool
  | .base _ => [false]
  | .cache _ p => cacheFlags p ++ [true]
  | .pfx _ p => cacheFlags p ++ [false]

/-- A kept iterator has copied the dirty items of every cache store it runs
through; only the memdb iterator at the bottom reads its *values* lazily.  So a
kept iterator is disturbed exactly by an op that physically reaches the base:
`set`/`del` on a layer with no cache store at or below it, or `write`/`wcp` of a
cache store with no cache store below it.  Such an op taints every kept
iterator (reading a tainted iterator answers `stale`). -/
def reachesBase (l : Layer) (op : String) (j : Nat) : Bool :=
  let fl := cacheFlags l
  match op with
  | "set" | "del" => (fl.take (j + 1)).all (· == false)
  | "write" | "wcp" => (fl.take j).all (· == false)
  | _ => false

def taint (l : Layer) (held : List Held) (op : String) (j : Nat) : List Held :=
  if reachesBase l op j then held.map fun h => { h with tainted := true } else held

def withLayer (st : St) (tok : String) (f : Nat → Nat → St × String) : St × String :=
  match layerIdx tok with
  | none => (st, "err:badop")
  | some i =>
    let h := st.l.height
    if i < h then f i (h - 1 - i) else (st, "err:badlayer")

def runOp (st : St) (name : String) (i : Nat) (op : Op) : St × String :=
  let r := step st.l op
  ({ st with l := r.2, held := taint st.l st.held name i }, compact (showOut r.1))

def dump (st : St) : St × String :=
  let h := st.l.height
  let rec go (n : Nat) (i : Nat) (l : Layer) (acc : List String) : Layer × List String :=
    match n with
    | 0 => (l, acc.reverse)
    | n + 1 =>
      let r := step l (.iter (h - 1 - i) true none none)
      go n (i + 1) r.2 (s!"L{i}={showOut r.1}" :: acc)
  let r := go h 0 st.l []
  ({ st with l := r.1 }, compact (" ".intercalate r.2))

def ordStr : Ordering → String
  | .lt => "-1" | .eq => "0" | .gt => "1"

def stepLine (st : St) (t : List String) : St × String :=
  match t with
  | ["new", a, "cache", b] =>
    match layerIdx a, layerIdx b with
    | some i, some j =>
      if i = st.l.height ∧ j + 1 = i then runOp st "new" i .newCache else (st, "err:badop")
    | _, _ => (st, "err:badop")
  | ["new", a, "prefix", q, b] =>
    match layerIdx a, layerIdx b, hexOpt q with
    | some i, some j, some q =>
      if i = st.l.height ∧ j + 1 = i then runOp st "new" i (.newPfx (q.getD [])) else (st, "err:badop")
    | _, _, _ => (st, "err:badop")
  | ["get", a, k] =>
    match hexOpt k with
    | some k => withLayer st a fun i d => runOp st "get" i (.get d k)
    | none => (st, "err:badop")
  | ["has", a, k] =>
    match hexOpt k with
    | some k => withLayer st a fun i d => runOp st "has" i (.has d k)
    | none => (st, "err:badop")
  | ["del", a, k] =>
    match hexOpt k with
    | some k => withLayer st a fun i d => runOp st "del" i (.del d k)
    | none => (st, "err:badop")
  | ["set", a, k, v] =>
    match hexOpt k, hexOpt v with
    | some k, some v => withLayer st a fun i d => runOp st "set" i (.set d k v)
    | _, _ => (st, "err:badop")
  | ["it", a, dir, s, e] =>
    match dirOf dir, hexOpt s, hexOpt e with
    | some asc, some s, some e => withLayer st a fun i d => runOp st "it" i (.iter d asc s e)
    | _, _, _ => (st, "err:badop")
  | ["ito", a, dir, s, e] =>
    match dirOf dir, hexOpt s, hexOpt e with
    | some asc, some s, some e =>
      withLayer st a fun i d =>
        let r := step st.l (.iter d asc s e)
        match r.1 with
        | .items l =>
          ({ st with l := r.2, held := ⟨st.nextId, i, false, l⟩ :: st.held, nextId := st.nextId + 1 }, "ok")
        | o => ({ st with l := r.2 }, showOut o)
    | _, _, _ => (st, "err:badop")
  | ["itr", n] =>
    match natTok n with
    | none => (st, "err:badop")
    | some n =>
      match st.held.find? (·.id = n) with
      | none => (st, "err:badop")
      | some h =>
        ({ st with held := st.held.filter (·.id ≠ n) }, if h.tainted then "stale" else compact (showItems h.items))
  | ["write", a] => withLayer st a fun i d => runOp st "write" i (.write d)
  | ["cp", a] => withLayer st a fun i d => runOp st "cp" i (.cp d)
  | ["wcp", a] => withLayer st a fun i d => runOp st "wcp" i (.wcp d)
  | ["hascp", a] => withLayer st a fun i d => runOp st "hascp" i (.hascp d)
  | ["dump"] => dump st
  | ["cmp", a, b] =>
    match hexOpt a, hexOpt b with
    | some a, some b => (st, ordStr (Lex.cmp (a.getD []) (b.getD [])))
    | _, _ => (st, "err:badop")
  | ["pend", p] =>
    match hexOpt p with
    | some p => (st, optBytesToHex (Lex.prefixEnd (p.getD [])))
    | none => (st, "err:badop")
  | ["indom", k, s, e] =>
    match hexOpt k, hexOpt s, hexOpt e with
    | some k, some s, some e => (st, boolStr (Lex.inDomain (k.getD []) s e))
    | _, _, _ => (st, "err:badop")
  | _ => (st, "err:badop")

end GnoVerif.Drive.C22

def main : IO Unit := GnoVerif.Kit.loop GnoVerif.Drive.C22.St.init GnoVerif.Drive.C22.stepLine
