import GnoVerif.Base.Kit
import GnoVerif.Model.C34
/-! Driver for C34: runs the privval sign/persist/restart model on op lines.
The abstract signer is instantiated by the identity on sign-bytes (injective,
deterministic, like ed25519 on the inputs that occur); signatures are printed
as the index of their first appearance in the case. -/
namespace GnoVerif.Drive.C34
open GnoVerif GnoVerif.Kit GnoVerif.C34

abbrev Sig := SignBytes

structure DState where
  st : State Sig
  seen : List Sig

def DState.init : DState := ⟨State.init, []⟩

def sigId (seen : List Sig) (s : Sig) : List Sig × Nat :=
  match seen.idxOf? s with
  | some i => (seen, i)
  | none => (seen ++ [s], seen.length)

def showDisk (s : State Sig) : String :=
  s!"disk:{s.disk.hrs.h}/{s.disk.hrs.r}/{s.disk.hrs.s}"

def errName : Err → String
  | .height => "height" | .round => "round" | .step => "step" | .nosignbytes => "nosignbytes"
  | .conflict => "conflict" | .validate => "validate" | .save => "save"

def inRange (lo hi : Int) (x : Int) : Bool := decide (lo ≤ x) && decide (x ≤ hi)

def i64min : Int := -9223372036854775808
def i64max : Int := 9223372036854775807

/-- `vote h r step body ts` / `prop h r body ts` -/
def parseReq (t : List String) : Option Req :=
  match t with
  | ["vote", h, r, st, b, ts] =>
    match parseInt h, parseInt r, parseNat st, parseNat b, parseNat ts with
    | some h, some r, some st, some b, some ts =>
      if inRange i64min i64max h && inRange i64min i64max r && decide (st ≤ 255) && decide (b < 4294967296) && decide (ts < 2147483648) then
        some ⟨h, r, if st = 2 ∨ st = 3 then some st else none, b, ts⟩
      else none
    | _, _, _, _, _ => none
  | ["prop", h, r, b, ts] =>
    match parseInt h, parseInt r, parseNat b, parseNat ts with
    | some h, some r, some b, some ts =>
      if inRange i64min i64max h && inRange i64min i64max r && decide (b < 4294967296) && decide (ts < 2147483648) then
        some ⟨h, r, some 1, b, ts⟩
      else none
    | _, _, _, _ => none
  | _ => none

def render (d : DState) (r : State Sig × Out Sig) : DState × String :=
  match r.2 with
  | .sig sg ts =>
    let (seen, i) := sigId d.seen sg
    (⟨r.1, seen⟩, s!"sig:{i} ts:{ts} {showDisk r.1}")
  | .err e none => (⟨r.1, d.seen⟩, s!"err:{errName e}")
  | .err e (some sg) =>
    let (seen, i) := sigId d.seen sg
    (⟨r.1, seen⟩, s!"err:{errName e} sig:{i}")
  | .panicVoteType => (⟨r.1, d.seen⟩, "panic:votetype")
  | .panicNoSig => (⟨r.1, d.seen⟩, "panic:nosig")
  | .killed => (⟨r.1, d.seen⟩, "killed")
  | .ok => (⟨r.1, d.seen⟩, "ok")
  | .unsupported => (⟨r.1, d.seen⟩, "err:unsupported")

def cutOf : String → Option Cut
  | "open" => some .old | "write" => some .old | "rename" => some .old
  | "after" => some .new
  | _ => none

def stepLine (d : DState) (t : List String) : DState × String :=
  match t with
  | "vote" :: _ | "prop" :: _ =>
    match parseReq t with
    | some q => render d (step id d.st (.sign q))
    | none => (d, "err:badop")
  | ["crash"] =>
    let r := step id d.st .crash
    (⟨r.1, d.seen⟩, s!"ok {showDisk r.1}")
  | ["failsave", m] =>
    if m = "on" ∨ m = "open" then render d (step id d.st (.failsave true))
    else if m = "off" then render d (step id d.st (.failsave false))
    else (d, "err:badop")
  | "cut" :: wh :: rest =>
    match cutOf wh with
    | none => (d, "err:badop")
    | some c =>
      if rest.isEmpty then (d, "err:badop") else
      match parseReq rest with
      | none => (d, "err:badop")
      | some q => render d (step id d.st (.cut c q))
  | _ => (d, "err:badop")

end GnoVerif.Drive.C34

def main : IO Unit := GnoVerif.Kit.loop GnoVerif.Drive.C34.DState.init GnoVerif.Drive.C34.stepLine
