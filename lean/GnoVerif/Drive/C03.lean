import GnoVerif.Base.Kit
import GnoVerif.Model.C03Heap
/-! Driver for C03: runs the heap semantics of Model/C03Heap (with the
struct-copy quirk of the transaction-per-call world, `lazy = true`) on the call
sequence; `#` lines reset the heap.  Long results are printed as an FNV-1a
digest, like the harness does. -/
namespace GnoVerif.Drive.C03
open GnoVerif GnoVerif.Kit GnoVerif.C03

def sigOf : String → Option String
  | "NewNode" => some "i" | "SetV" => some "ii" | "GetV" => some "i" | "Link" => some "ii"
  | "Unlink" => some "i" | "Walk" => some "ii" | "Drop" => some "i" | "AddKid" => some "ii"
  | "KidSum" => some "i" | "Tag" => some "isi" | "Untag" => some "is" | "TagGet" => some "is"
  | "RegPut" => some "si" | "RegDel" => some "s" | "RegGet" => some "s" | "CopyNode" => some "i"
  | "SetArr" => some "iii" | "GetArr" => some "i" | "MkSlice" => some "i" | "Sub" => some "iii"
  | "SetElem" => some "iii" | "App" => some "ii" | "GetSlice" => some "i" | "PtrV" => some "i"
  | "PtrArr" => some "ii" | "PtrElem" => some "ii" | "SetPtr" => some "ii" | "GetPtr" => some "i"
  | "MkCounter" => some "i" | "MkPair" => some "i" | "MkAdder" => some "i" | "CallFn" => some "ii"
  | "MkSq" => some "i" | "MkRc" => some "ii" | "DupShape" => some "i" | "Area" => some "i"
  | "Grow" => some "ii" | "SetAny" => some "ii" | "AnyStr" => some "i" | "Render" => some "i"
  | "MkPairs" => some "i" | "ClonePairs" => some "i" | "DupPairs" => some "i"
  | "AppPair" => some "iii" | "SetPair" => some "iiii" | "GetPairs" => some "i"
  | _ => none

/-- strconv.Atoi-compatible: optional sign, decimal digits only -/
def atoi (s : String) : Option Int :=
  let cs := s.toList
  let (neg, ds) := match cs with
    | '-' :: r => (true, r)
    | '+' :: r => (false, r)
    | r => (false, r)
  if ds.isEmpty || !ds.all Char.isDigit then none else
  let n : Nat := ds.foldl (fun acc c => acc * 10 + (c.toNat - '0'.toNat)) 0
  some (if neg then -(n : Int) else n)

def okKey (s : String) : Bool :=
  let cs := s.toList
  !cs.isEmpty && cs.length ≤ 4 && cs.all (fun c => 'a' ≤ c && c ≤ 'z')

def parseArgs : List Char → List String → Option (List Arg)
  | [], [] => some []
  | 'i' :: ks, a :: as =>
    match atoi a with
    | some n => if n < -100000 || n > 100000 then none else (parseArgs ks as).map (Arg.i n :: ·)
    | none => none
  | 's' :: ks, a :: as => if okKey a then (parseArgs ks as).map (Arg.s a :: ·) else none
  | _, _ => none

def fnv1a (s : String) : Nat :=
  s.toUTF8.foldl (fun h b => ((h ^^^ b.toNat) * 16777619) % 4294967296) 2166136261

def hex8 (n : Nat) : String :=
  String.ofList ((List.range 8).reverse.map fun i => nibble ((n / 16^i) % 16))

def shorten (s : String) : String :=
  if s.length > 100 then "h:" ++ hex8 (fnv1a s) ++ ":" ++ toString s.length else s

def step (h : Heap) (t : List String) : Heap × String :=
  match t with
  | fn :: args =>
    match sigOf fn with
    | some sig =>
      match parseArgs sig.toList args, Fn.ofString fn with
      | some as, some f =>
        let (h', out) := GnoVerif.C03.step true h f as
        (h', shorten out)
      | _, _ => (h, "err:badop")
    | none => (h, "err:badop")
  | [] => (h, "err:badop")

end GnoVerif.Drive.C03

def main : IO Unit := GnoVerif.Kit.loop ({} : GnoVerif.C03.Heap) GnoVerif.Drive.C03.step
