import GnoVerif.Base.Kit
import GnoVerif.Model.C36
/-!
Driver for C36 (commit verification).  One commit per line:

  vc  H B CB VALS            e1 … eN     VerifyCommit(chain, B, H, commit{CB, [e1…eN]}) on VALS
  vfc H B CB OLDVALS NEWVALS e1 … eN     OLDVALS.VerifyFutureCommit(NEWVALS, chain, B, H, commit)

  VALS   `-` (empty) or `addr:power,addr:power,…` in set (index) order
  entry  `-` (nil) or `type:height:round:bid:ts:vidx:vaddr:sigrecipe:n:o`
         (`ts`, `sigrecipe` are for the Go side only; `n`/`o` are the two
          signature bits computed by the harness with real ed25519 verification)
Answer: `ok` | `err:<class>` | `err:badset` (a set the real type cannot hold) | `err:badop`.
-/
namespace GnoVerif.Drive.C36
open GnoVerif GnoVerif.Kit GnoVerif.C36

def parseVals (s : String) : Option ValSet :=
  if s == "-" then some [] else
  (s.splitOn ",").mapM fun t =>
    match t.splitOn ":" with
    | [a, p] => do
      let a ← parseNat a
      let p ← parseInt p
      pure { addr := a, power := p }
    | _ => none

def parseBit (s : String) : Option Bool :=
  if s == "1" then some true else if s == "0" then some false else none

def parseEntry (s : String) : Option (Option Entry) :=
  if s == "-" then some none else
  match s.splitOn ":" with
  | [ty, h, r, bid, _ts, vidx, vaddr, _sig, n, o] => do
    let ty ← parseNat ty
    let h ← parseInt h
    let r ← parseInt r
    let bid ← parseNat bid
    let vidx ← parseInt vidx
    let vaddr ← parseNat vaddr
    let n ← parseBit n
    let o ← parseBit o
    pure (some { type := ty, height := h, round := r, blockID := bid, valIndex := vidx,
                 valAddr := vaddr, sigOK := n, sigOKOld := o })
  | _ => none

def run (t : List String) : String :=
  match t with
  | "vc" :: h :: b :: cb :: vals :: es =>
    match parseInt h, parseNat b, parseNat cb, parseVals vals, es.mapM parseEntry with
    | some h, some b, some cb, some vals, some es =>
      if !validSet vals then "err:badset"
      else Res.toString (verifyCommit vals b h { blockID := cb, precommits := es })
    | _, _, _, _, _ => "err:badop"
  | "vfc" :: h :: b :: cb :: old :: new :: es =>
    match parseInt h, parseNat b, parseNat cb, parseVals old, parseVals new, es.mapM parseEntry with
    | some h, some b, some cb, some old, some new, some es =>
      if !validSet old || !validSet new then "err:badset"
      else Res.toString (verifyFutureCommit old new b h { blockID := cb, precommits := es })
    | _, _, _, _, _, _ => "err:badop"
  | _ => "err:badop"

def step (_ : Unit) (t : List String) : Unit × String := ((), run t)

end GnoVerif.Drive.C36

def main : IO Unit := GnoVerif.Kit.loop () GnoVerif.Drive.C36.step
