import GnoVerif.Base.Kit
import GnoVerif.Model.C09Deposit
/-! Driver for C09: replays the deposit ledger on the measured per-realm byte
deltas (see harness/cmd/c09/main.go for the op lines). -/
namespace GnoVerif.Drive.C09
open GnoVerif GnoVerif.Kit GnoVerif.C09

def digits (t : String) (maxLen : Nat) : Option Nat :=
  if 1 ≤ t.length && t.length ≤ maxLen && t.toList.all (fun c => '0' ≤ c && c ≤ '9') then t.toNat? else none

def showRealm (r : Realm) : String := s!"{r.name}={r.storage}/{r.deposit}/{r.backing}"

def showCallers (l : Ledger) : String := s!"c0={l.balOf 0} c1={l.balOf 1}"

def parseRealm (t : String) : Option Realm :=
  match t.splitOn "=" with
  | [n, v] =>
    match v.splitOn "/" with
    | [s, d, b] =>
      match s.toNat?, d.toNat?, b.toNat? with
      | some s, some d, some b => if n.isEmpty then none else some { name := n, storage := s, deposit := d, backing := b }
      | _, _, _ => none
    | _ => none
  | _ => none

def field (pfx t : String) : Option Nat :=
  if t.startsWith pfx then (t.drop pfx.length).toString.toNat? else none

/-- Go's strconv.ParseInt(v, 10, 64) on the delta values -/
def parseDelta (kv : String) : Option (String × Int) :=
  match kv.splitOn "=" with
  | [k, v] =>
    if k.isEmpty || v.isEmpty then none else
    match v.toInt? with
    | some i => if -(2:Int)^63 ≤ i ∧ i < (2:Int)^63 then some (k, i) else none
    | none => none
  | _ => none

def parseDeltas (t : String) : Option (List (String × Int)) :=
  if t == "-" then some [] else (t.splitOn ";").mapM parseDelta

def isHex (t : String) : Bool :=
  t.length % 2 == 0 && t.toList.all fun c => ('0' ≤ c && c ≤ '9') || ('a' ≤ c && c ≤ 'f') || ('A' ≤ c && c ≤ 'F')

/-- the price a `sys/params.SetPrice(<n>ugnot, k)` call installs -/
def priceArg (realm fn args : String) : Option Nat :=
  if realm == "sys/params" && fn == "SetPrice" then
    match args.splitOn "," with
    | p :: _ => if p.endsWith "ugnot" then (p.dropEnd 5).toString.toNat? else none
    | _ => none
  else none

def answer (l : Ledger) (o : Outcome) (l' : Ledger) (deltas : List (String × Int)) : Ledger × String :=
  let l2 := if o = .ok then l' else l
  (l2, " ".intercalate (o.str :: deltas.map (fun d => showRealm (l2.find d.1)) ++ [showCallers l2]))

def msg (l : Ledger) (c maxDep x deltas : String) (newPrice : Option Nat) : Option (Ledger × String) :=
  match (if c == "0" then some 0 else if c == "1" then some 1 else none), digits maxDep 18,
        (if x == "run" then some true else if x == "fail" then some false else none), parseDeltas deltas with
  | some c, some md, some runs, some ds =>
    let (o, l') := message l c md runs ds newPrice
    some (answer l o l' ds)
  | _, _, _, _ => none

def step (l : Ledger) (t : List String) : Ledger × String :=
  let bad := (l, "err:badop")
  match t with
  | ["init", realms, c0, c1, price, deflt] =>
    match (realms.splitOn ";").mapM parseRealm, field "c0=" c0, field "c1=" c1, field "price=" price, field "default=" deflt with
    | some rs, some b0, some b1, some p, some d =>
      let l' : Ledger := { realms := rs, bal := [b0, b1], price := p, deflt := d }
      (l', ";".intercalate (rs.map showRealm) ++ " " ++ showCallers l' ++ s!" price={p} default={d}")
    | _, _, _, _, _ => bad
  | ["price", p] =>
    match digits p 18 with
    | some p => let (ok, l') := setPrice l p; (l', if ok then "ok" else "err:param")
    | none => bad
  | ["call", c, md, realm, fn, args, x, ds] => (msg l c md x ds (priceArg realm fn args)).getD bad
  | ["deploy", c, md, seed, x, ds] => if (digits seed 9).isSome then (msg l c md x ds none).getD bad else bad
  | ["run", c, md, src, x, ds] => if isHex src then (msg l c md x ds none).getD bad else bad
  | _ => bad

end GnoVerif.Drive.C09

def main : IO Unit := GnoVerif.Kit.loop ({} : GnoVerif.C09.Ledger) GnoVerif.Drive.C09.step
