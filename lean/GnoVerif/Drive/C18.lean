import GnoVerif.Base.Kit
import GnoVerif.Model.C18Coins
import GnoVerif.Model.C18Slices
/-!
Driver for C18 (coin-set arithmetic).  Op lines (coin sets are written
`denom:amt,denom:amt`, `-` for the empty set; the denom is everything before
the LAST `:` of an item):

  add|sub|addu|subu A B      -> res=<coins> A=<coins> B=<coins>   |  panic:<class> A=… B=…
  cmp <helper> A B           -> true|false|panic:<class> A=… B=…
  un <helper> A              -> true|false
  amountof A <denom-hex>     -> <int> | panic:denom
  str A                      -> <hex>
  parse <hex>                -> ok <coins> | err:<class>
  rt A                       -> ok <coins> | err:<class>       (ParseCoins(A.String()))
  valid A                    -> true|false
-/
namespace GnoVerif.Drive.C18
open GnoVerif GnoVerif.Kit GnoVerif.C18

def bytesOf (s : String) : List UInt8 := s.toUTF8.toList

def strOf (b : List UInt8) : String := String.ofList (b.map fun c => Char.ofNat c.toNat)

/-- split a list at the last element satisfying `p` (excluded). -/
def splitLast (p : Char → Bool) (cs : List Char) : Option (List Char × List Char) :=
  let r := cs.reverse
  let after := r.takeWhile (fun c => !p c)
  match r.dropWhile (fun c => !p c) with
  | [] => none
  | _ :: before => some (before.reverse, after.reverse)

def parseItem (s : String) : Option Coin :=
  match splitLast (· == ':') s.toList with
  | none => none
  | some (d, a) =>
    match (String.ofList a).toInt? with
    | none => none
    | some v =>
      if v < i64Min ∨ v > i64Max then none
      else some ⟨bytesOf (String.ofList d), BitVec.ofInt 64 v⟩

def parseSet (s : String) : Option Coins :=
  if s == "-" then some [] else
  (s.splitOn ",").mapM parseItem

def showCoin (c : Coin) : String := s!"{strOf c.denom}:{c.amount.toInt}"

def showSet (cs : Coins) : String :=
  if cs.isEmpty then "-" else ",".intercalate (cs.map showCoin)

def showE {α} (f : α → String) (pre : String) : Except Err α → String
  | .ok v => f v
  | .error e => pre ++ e.token

def arith (op : String) (A B : Coins) : Option (Except Err Coins) :=
  match op with
  | "add" => some (add A B)
  | "sub" => some (sub A B)
  | "addu" => some (addUnsafe A B)
  | "subu" => some (subUnsafe A B)
  | _ => none

/-- the slice (heap) model of the same op: operands laid out like the harness does (two
sentinel-filled spare slots); returns the outcome and both operands as read back afterwards. -/
def arithH (op : String) (A B : Coins) : Option (Except Err Coins × Coins × Coins) :=
  let a := Mem.mkOperand [] A 2
  let b := Mem.mkOperand a.1 B 2
  let run : Option (Mem.Heap × Except Err Mem.Slice) :=
    match op with
    | "add" => some (Mem.addH b.1 a.2 b.2)
    | "sub" => some (Mem.subH b.1 a.2 b.2)
    | "addu" => some (Mem.addUnsafeH b.1 a.2 b.2)
    | "subu" => some (Mem.subUnsafeH b.1 a.2 b.2)
    | _ => none
  run.map fun r =>
    (match r.2 with
      | .ok s => .ok (Mem.read r.1 s)
      | .error e => .error e,
     Mem.read r.1 a.2, Mem.read r.1 b.2)

def cmpOp (h : String) (A B : Coins) : Option (Except Err Bool × Coins × Coins) :=
  match h with
  | "IsAllGT" => some (isAllGT A B, A, B)
  | "IsAllGTE" => some (isAllGTE A B, A, B)
  | "IsAllLT" => some (isAllLT A B, A, B)
  | "IsAllLTE" => some (isAllLTE A B, A, B)
  | "IsAnyGT" => some (isAnyGT A B, A, B)
  | "IsAnyGTE" => some (isAnyGTE A B, A, B)
  | "IsEqual" => some (isEqualFull A B)
  | "DenomsSubsetOf" => some (denomsSubsetOf A B, A, B)
  | _ => none

def unOp (h : String) (A : Coins) : Option Bool :=
  match h with
  | "IsZero" => some (isZero A)
  | "IsAllPositive" => some (isAllPositive A)
  | "IsAnyNegative" => some (isAnyNegative A)
  | "Empty" => some A.isEmpty
  | _ => none

def bad : String := "err:badop"

def hex16 (h : UInt64) : String :=
  String.ofList ((List.range 16).map fun i => nibble ((h.toNat >>> (4 * (15 - i))) % 16))

/-- keep a line under the Go kit's 300-byte cut: first 230 bytes + FNV-1a/64 of the whole line
(outputs are ASCII, so bytes = characters). -/
def squash (s : String) : String :=
  let bs := s.toUTF8
  if bs.size ≤ 280 then s else
  let h := bs.foldl (fun (h : UInt64) b => (h ^^^ b.toUInt64) * 1099511628211) 14695981039346656037
  (s.take 230).toString ++ "...#" ++ hex16 h

def step (_ : Unit) (t : List String) : Unit × String :=
  ((), squash <| match t with
  | ["un", h, a] =>
    match parseSet a with
    | some A => match unOp h A with
      | some r => boolStr r
      | none => bad
    | none => bad
  | [op, a, b] =>
    if op == "amountof" then
      match parseSet a, hexToBytes b with
      | some A, some d => showE (fun v => toString v.toInt) "panic:" (amountOf A d)
      | _, _ => bad
    else
      match parseSet a, parseSet b with
      | some A, some B =>
        match arith op A B, arithH op A B with
        | some r, some (rh, A', B') =>
          let lm := showE (fun v => "res=" ++ showSet v) "panic:" r
          let hm := showE (fun v => "res=" ++ showSet v) "panic:" rh
          -- the list model and the slice model must agree on the outcome
          (if lm == hm then lm else s!"MODELS-DISAGREE[{lm}|{hm}]") ++ s!" A={showSet A'} B={showSet B'}"
        | _, _ => bad
      | _, _ => bad
  | ["cmp", h, a, b] =>
    match parseSet a, parseSet b with
    | some A, some B =>
      match cmpOp h A B with
      | some (r, A', B') => showE boolStr "panic:" r ++ s!" A={showSet A'} B={showSet B'}"
      | none => bad
    | _, _ => bad
  | ["str", a] =>
    match parseSet a with
    | some A => bytesToHex (str A)
    | none => bad
  | ["valid", a] =>
    match parseSet a with
    | some A => boolStr (validate A)
    | none => bad
  | ["rt", a] =>
    match parseSet a with
    | some A => showE (fun v => "ok " ++ showSet v) "err:" (parseCoins (str A))
    | none => bad
  | ["parse", h] =>
    match hexToBytes h with
    | some s => showE (fun v => "ok " ++ showSet v) "err:" (parseCoins s)
    | none => bad
  | _ => bad)

end GnoVerif.Drive.C18

def main : IO Unit := GnoVerif.Kit.loop () GnoVerif.Drive.C18.step
