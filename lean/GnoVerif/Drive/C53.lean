import GnoVerif.Base.Kit
import GnoVerif.Model.C53
/-! Driver for C53: evaluates both genesis-application paths of the model on one op
    line (grammar: harness/cmd/c53/main.go).  Parsing is strict and mirrors the harness;
    `rep`, `prm`, `@t`, `@c` are parsed (range-checked) and have no effect on the model. -/
namespace GnoVerif.Drive.C53
open GnoVerif GnoVerif.Kit GnoVerif.C53

def nDump : Nat := 32
def nPkgs : Nat := 4
def maxBalance : Nat := 40000

/-- decimal, no sign, no leading zero (except "0"), at most 18 digits, within [lo, hi] -/
def pNat (s : String) (lo hi : Nat) : Option Nat :=
  let cs := s.toList
  if cs.isEmpty ∨ cs.length > 18 ∨ (cs.length > 1 ∧ cs.head? = some '0') ∨ ¬ cs.all Char.isDigit then none else
  let v := cs.foldl (fun a c => a * 10 + (c.toNat - '0'.toNat)) 0
  if v < lo ∨ v > hi then none else some v

def kv (tok key : String) : Option String :=
  if tok.startsWith (key ++ "=") then some ((tok.drop (key.length + 1)).toString) else none

def denomOf (s : String) : Option (Nat × Denom) :=
  if s == "atom" then some (0, .atom) else if s == "ugnot" then some (1, .ugnot)
  else if s == "zed" then some (2, .zed) else none

def denomStr : Denom → String
  | .atom => "atom" | .ugnot => "ugnot" | .zed => "zed"

def pCoins (s : String) : Option Coins :=
  if s == "-" then some [] else
  let rec go : List String → Option Nat → List (Denom × Nat) → Option Coins
    | [], _, acc => some acc.reverse
    | p :: rest, last, acc =>
      let ds := p.toList.takeWhile Char.isDigit
      let dn := String.ofList (p.toList.dropWhile Char.isDigit)
      match pNat (String.ofList ds) 1 (2 ^ 60), denomOf dn with
      | some amt, some (i, d) =>
        if (match last with | some l => decide (i ≤ l) | none => false) then none
        else go rest (some i) ((d, amt) :: acc)
      | _, _ => none
  go (s.splitOn "+") none []

/-- `F` = 0, `a<i>` = i+1 -/
def pAddr (s : String) : Option Addr :=
  if s == "F" then some 0 else
  match s.toList with
  | 'a' :: r => if r.isEmpty then none else (pNat (String.ofList r) 0 (2 ^ 20)).map (· + 1)
  | _ => none

structure BalEnt where
  addr : Addr
  count : Nat
  coins : Coins

def pBal (s : String) : Option (List BalEnt) :=
  if s == "-" then some [] else
  let rec go : List String → Nat → List BalEnt → Option (List BalEnt)
    | [], _, acc => some acc.reverse
    | e :: rest, total, acc =>
      let (e, cnt) : String × Option Nat := match e.splitOn "*" with
        | [a] => (a, some 1)
        | a :: more => (a, pNat ("*".intercalate more) 1 maxBalance)
        | [] => (e, none)
      match cnt with
      | none => none
      | some cnt =>
        -- `^c` / `^d`: vesting schedule (no effect on the modelled observables)
        let vest := e.endsWith "^c" ∨ e.endsWith "^d"
        let e := if vest then (e.dropEnd 2).toString else e
        match e.splitOn ":" with
        | a :: c :: more =>
          match pAddr a, pCoins (":".intercalate (c :: more)) with
          | some ad, some cs =>
            if ad = 0 then none else
            if vest ∧ cs.isEmpty then none else
            if total + cnt > maxBalance then none else go rest (total + cnt) (⟨ad, cnt, cs⟩ :: acc)
          | _, _ => none
        | _ => none
  go (s.splitOn ",") 0 []

def pKind (s : String) : Option Kind :=
  match s.splitOn "." with
  | ["v3ok"] => some .v3ok
  | ["v3bad"] => some .v3bad
  | [k, p] =>
    match p.toList with
    | ['p', d] =>
      match pNat (String.singleton d) 0 (nPkgs - 1) with
      | some j =>
        if k == "add" then some (.add j) else if k == "inc" then some (.inc j)
        else if k == "fail" then some (.fail j) else none
      | none => none
    | _ => none
  | _ => none

def pMeta (tx : Tx) (m : String) : Option Tx :=
  match m.toList with
  | [] => none
  | c :: argc =>
    let arg := String.ofList argc
    let tx := { tx with hasMeta := true }
    if c == 'm' then (if arg.isEmpty then some tx else none)
    else if c == 'F' then (if arg.isEmpty then some { tx with failed := true } else none)
    else if c == 't' then (pNat arg 1 (2 ^ 40)).map fun _ => tx
    else if c == 'h' then (pNat arg 1 (2 ^ 40)).map fun h => { tx with height := h }
    else if c == 'c' then (pNat arg 0 2).map fun _ => tx
    else if c == 's' then
      match arg.splitOn ":" with
      | [w, n, q] =>
        match pAddr w, pNat n 0 (2 ^ 40), pNat q 0 (2 ^ 40) with
        | some a, some n, some q => some { tx with sinfo := tx.sinfo ++ [⟨a, n, q⟩] }
        | _, _, _ => none
      | _ => none
    else none

def pTx (e : String) : Option Tx :=
  match e.splitOn "@" with
  | [] => none
  | h :: ms =>
    match pKind h with
    | none => none
    | some k => ms.foldlM pMeta { kind := k }

def pTxs (s : String) : Option (List Tx) :=
  if s == "-" then some [] else (s.splitOn ",").mapM pTx

def pGrm (s : String) : Option Grm :=
  if s == "-" then some .none else if s == "strict" then some .strict
  else if s == "source" then some .source else if s == "bogus" then some .bogus else none

def fBalance : Bal := ⟨0, [(.ugnot, 2 ^ 50)]⟩

structure Parsed where
  g : Genesis
  dump : List Addr     -- addresses (model numbering) whose accounts are printed, ascending

def expand (bs : List BalEnt) : List Bal :=
  bs.flatMap fun b => (List.range b.count).map fun k => ⟨b.addr + k, b.coins⟩

def insertSorted (a : Nat) : List Nat → List Nat
  | [] => [a]
  | b :: r => if a < b then a :: b :: r else if a = b then b :: r else b :: insertSorted a r

def dumpAddrs (bs : List BalEnt) (txs : List Tx) : List Addr :=
  let fromBal := bs.foldl (fun acc b =>
    (List.range (min b.count nDump)).foldl (fun acc k =>
      if b.addr + k ≤ nDump then insertSorted (b.addr + k) acc else acc) acc) []
  txs.foldl (fun acc t => t.sinfo.foldl (fun acc si =>
    if 1 ≤ si.addr ∧ si.addr ≤ nDump then insertSorted si.addr acc else acc) acc) fromBal

def parse (t : List String) : Option Parsed := do
  if t.length < 9 ∨ t.length > 10 then none
  if t[0]! != "g" then none
  let _ ← (kv t[1]! "rep").bind (pNat · 0 63)
  let _ ← (kv t[2]! "prm").bind (pNat · 0 3)
  let ih ← kv t[3]! "ih"
  let (top, app) ← match ih.splitOn "/" with
    | [a, b] => do pure (← pNat a 0 (2 ^ 40), ← pNat b 0 (2 ^ 40))
    | _ => none
  let grm ← (kv t[4]! "grm").bind pGrm
  let pc ← (kv t[5]! "pc").bind (pNat · 0 2)
  let val ← (kv t[6]! "val").bind (pNat · 0 1)
  let bs ← (kv t[7]! "bal").bind pBal
  let txs ← (kv t[8]! "tx").bind pTxs
  let om ← if t.length == 10 then (kv t[9]! "omit").bind fun v =>
      if v == "bank" ∨ v == "auth" then some v else none
    else some ""
  pure { g := { topIH := top, appIH := app, grm := grm, pastChains := pc, validators := val,
                balances := fBalance :: expand bs, txs := txs,
                omitBank := om == "bank", omitAuth := om == "auth" },
         dump := dumpAddrs bs txs }

def coinsStr (cs : Coins) : String :=
  if cs.isEmpty then "-" else "+".intercalate (cs.map fun (d, a) => s!"{a}{denomStr d}")

def resStr : Res → String
  | .ok => "ok" | .fail => "fail" | .skip => "skip"

/-- FNV-1a, 32 bit (the harness shortens long dumps the same way) -/
def fnv32 (s : String) : UInt32 :=
  s.toUTF8.foldl (fun h b => (h ^^^ b.toUInt32) * 16777619) 2166136261

def showOutcome (dump : List Addr) : Outcome → String
  | .refuse .initialHeight => "refuse:initial-height"
  | .refuse .gasReplayMode => "refuse:gas-replay-mode"
  | .refuse .signerInfo => "refuse:signer-info"
  | .refuse .missingBank => "refuse:missing-bank"
  | .refuse .missingAuth => "refuse:missing-auth"
  | .panic .valoper => "panic:valoper"
  | .panic .authGenesis => "panic:auth-genesis"
  | .ok ver st =>
    let tx := if st.results.isEmpty then "-" else ",".intercalate (st.results.map resStr)
    let fc := match st.fc with | some n => toString n | none => "-"
    let parts := dump.filterMap fun a =>
      (st.lookup a).map fun ac => s!"a{a - 1}#{ac.num}/{ac.seq}:{coinsStr ac.coins}"
    let acc := if parts.isEmpty then "-" else ";".intercalate parts
    let acc := if acc.utf8ByteSize > 90 then s!"#{parts.length}:{fnv32 acc}" else acc
    s!"ok v{ver} tx={tx} fc={fc} acc={acc}"

def step (_ : Unit) (t : List String) : Unit × String :=
  match parse t with
  | none => ((), "err:badop")
  | some p =>
    let m := showOutcome p.dump (outcomeMem p.g)
    let s := showOutcome p.dump (outcomeStream p.g (Streamed.whole p.g))
    ((), if m == s then s!"mem={m} str==" else s!"mem={m} str={s}")

end GnoVerif.Drive.C53

def main : IO Unit := GnoVerif.Kit.loop () GnoVerif.Drive.C53.step
