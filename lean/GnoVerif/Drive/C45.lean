import GnoVerif.Base.Kit
import GnoVerif.Model.C45
/-!
Driver for C45 (bech32).  Op lines (all strings as hex, `e` = empty):

  enc  <hrp> <payload>          ConvertAndEncode            -> ok <string> | err:<class>
  dec  <string>                 DecodeAndConvert            -> ok <hrp> <payload> | err:<class>
  addr <string>                 crypto.AddressFromBech32    -> ok <20 bytes> | err:<class>
  sub  <string> <idx> <byte>    decode the string and the string with byte idx replaced
                                                            -> <dec result> | <dec result>
  cvt  <from> <to> <0|1> <data> btcutil ConvertBits         -> ok <bytes> | err:<class>

`enc` on a prefix containing a byte ≥ 0x80 answers `err:domain` on both sides
(Go's `strings.ToLower` leaves ASCII there; not modelled, never a valid prefix).
-/
namespace GnoVerif.Drive.C45
open GnoVerif GnoVerif.Kit GnoVerif.C45

def hex16 (n : UInt64) : String :=
  String.ofList ((List.range 16).map fun i => nibble ((n >>> (UInt64.ofNat (4 * (15 - i)))).toNat % 16))

/-- hex, or `#<len>.<fnv1a-64>` when longer than 48 bytes (the Go kit truncates long lines). -/
def short (b : Bytes) : String :=
  if b.length ≤ 48 then bytesToHex b
  else
    let h := b.foldl (fun (h : UInt64) c => (h ^^^ c.toUInt64) * 0x100000001b3) 0xcbf29ce484222325
    s!"#{b.length}.{hex16 h}"

def showDec : Except Err (Bytes × Bytes) → String
  | .ok (h, d) => s!"ok {short h} {short d}"
  | .error e => e.token

def showBytes : Except Err Bytes → String
  | .ok b => s!"ok {short b}"
  | .error e => e.token

def showNats : Except Err (List Nat) → String
  | .ok b => s!"ok {short (b.map UInt8.ofNat)}"
  | .error e => e.token

def natsEq : Except Err (List Nat) → Except Err (List Nat) → Bool
  | .ok a, .ok b => a == b
  | .error a, .error b => a == b
  | _, _ => false

def run : List String → String
  | ["enc", h, p] =>
    match hexToBytes h, hexToBytes p with
    | some h, some p =>
      if h.any (· ≥ 128) then "err:domain" else showBytes (encode h p)
    | _, _ => "err:badop"
  | ["dec", s] =>
    match hexToBytes s with
    | some s => showDec (decode s)
    | none => "err:badop"
  | ["addr", s] =>
    match hexToBytes s with
    | some s => showBytes (addressFromBech32 s)
    | none => "err:badop"
  | ["sub", s, i, c] =>
    match hexToBytes s, parseNat i, hexToBytes c with
    | some s, some i, some [c] =>
      if i < s.length then s!"{showDec (decode s)} | {showDec (decode (s.set i c))}" else "err:badop"
    | _, _, _ => "err:badop"
  | ["cvt", f, t, pad, d] =>
    match parseNat f, parseNat t, hexToBytes d with
    | some f, some t, some d =>
      if f > 255 ∨ t > 255 ∨ (pad ≠ "0" ∧ pad ≠ "1") then "err:badop" else
      let dn := d.map UInt8.toNat
      let a := convertBits f t (pad == "1") dn
      let b := convertBitsGo f t (pad == "1") dn
      if natsEq a b then showNats a else s!"MODEL-MISMATCH {showNats a} vs {showNats b}"
    | _, _, _ => "err:badop"
  | _ => "err:badop"

def step (_ : Unit) (t : List String) : Unit × String := ((), run t)

end GnoVerif.Drive.C45

def main : IO Unit := GnoVerif.Kit.loop () GnoVerif.Drive.C45.step
