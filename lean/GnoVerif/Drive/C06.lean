import GnoVerif.Base.Kit
import GnoVerif.Model.C06Inv
/-! Driver for C06: replays heap-machine scripts on the finalizer model and
prints the abstract heap dump (see harness/cmd/c06/dump.go for the format). -/
namespace GnoVerif.Drive.C06
open GnoVerif GnoVerif.Kit GnoVerif.C06 GnoVerif.C06.State

def letter (r : Nat) : String := if r = 0 then "a" else "b"

def nameOf (s : State) (a : Nat) : String :=
  let o := s.get a
  let l := letter o.pkg
  if o.time = 1 then l ++ ".b"
  else if o.time ≤ baseTime then l ++ ".r" ++ toString (o.time - 2)
  else l ++ toString (o.time - baseTime)

def kindChar : Kind → String
  | .block => "B" | .hiv => "H" | .struct => "S"

def entry (s : State) (a : Nat) : String :=
  let o := s.get a
  nameOf s a ++ "=" ++ kindChar o.kind ++ toString o.rc ++ (if o.escaped then "e" else "n") ++ "@" ++
    (match o.owner with | none => "-" | some p => nameOf s p) ++ ">" ++
    ",".intercalate ((s.children a).map (nameOf s))

def resting (s : State) (r i : Nat) : Bool :=
  let o := s.get (rootAddr r i)
  (s.children (rootAddr r i)).isEmpty && o.rc == 1 && !o.escaped && o.owner == some (blockAddr r)

def dumpRealm (s : State) (r : Nat) : List String :=
  let roots := (List.range nRoots).filterMap fun i =>
    if resting s r i then none else some (entry s (rootAddr r i))
  let minted := (List.range s.heap.length).filter fun a =>
    let o := s.get a
    !o.dead && o.pkg == r && o.time > baseTime
  let sorted := minted.mergeSort fun a b => (s.get a).time ≤ (s.get b).time
  roots ++ sorted.map (entry s)

def dump (s : State) : String := " ".intercalate (dumpRealm s 0 ++ dumpRealm s 1)

def fnv64 (str : String) : UInt64 :=
  str.toUTF8.foldl (fun h b => (h ^^^ b.toUInt64) * 1099511628211) 14695981039346656037

def hex16 (v : UInt64) : String :=
  String.ofList ((List.range 16).map fun i => nibble ((v.toNat >>> (4 * (15 - i))) % 16))

def clip (full : String) : String :=
  if full.length ≤ 230 then full
  else (full.take 180).toString ++ "~" ++ hex16 (fnv64 full) ++ "~" ++ toString full.length

def validScript (cs : List Char) : Bool :=
  1 ≤ cs.length && cs.length ≤ 600 && cs.all fun c => '!' ≤ c && c ≤ '~'

def validSeed (t : String) : Bool :=
  1 ≤ t.length && t.length ≤ 18 && t.toList.all fun c => '0' ≤ c && c ≤ '9'

structure DState where
  s : State := initState
  progs : List String := []

def step (d : DState) (t : List String) : DState × String :=
  match t with
  | ["tx", rl, script] =>
    let cs := script.toList
    if (rl == "a" || rl == "b") && validScript cs then
      let (s', ok) := execTx d.s (if rl == "a" then 0 else 1) cs
      let inv := match verdict s' with | none => "ok" | some v => v.str
      ({ d with s := s' }, if ok then "ok " ++ clip (dump s') ++ " inv=" ++ inv else "err")
    else (d, "err:badop")
  | ["prog", seed, expect] =>
    if (expect == "ok" || expect == "err") && validSeed seed && !d.progs.contains seed then
      (if expect == "ok" then { d with progs := seed :: d.progs } else d, expect)
    else (d, "err:badop")
  | ["call", seed, fn, expect] =>
    if (expect == "ok" || expect == "err") && d.progs.contains seed &&
        (fn == "0" || fn == "1" || fn == "2" || fn == "3" || fn == "4" || fn == "5") then
      (d, expect)
    else (d, "err:badop")
  | ["run", seed, script, expect] =>
    if (expect == "ok" || expect == "err") && validSeed script && d.progs.contains seed then (d, expect)
    else (d, "err:badop")
  | _ => (d, "err:badop")

end GnoVerif.Drive.C06

def main : IO Unit := GnoVerif.Kit.loop ({} : GnoVerif.Drive.C06.DState) GnoVerif.Drive.C06.step
