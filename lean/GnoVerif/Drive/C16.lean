import GnoVerif.Base.Kit
import GnoVerif.Model.C16
/-! Driver for C16: runs the session model on op lines (grammar: harness/cmd/c16/parse.go).
    Parsing is strict and mirrors the harness; anything else is `err:badop`. -/
namespace GnoVerif.Drive.C16
open GnoVerif GnoVerif.Kit GnoVerif.C16

def nMasters : Nat := 3
def nRcpts : Nat := 2
def nKeys : Nat := 18
def nRealms : Nat := 4

/-- optional `-`, 1..19 digits, |v| ≤ 2^63-1 -/
def pInt (s : String) : Option Int :=
  let cs := s.toList
  let (neg, ds) := match cs with
    | '-' :: r => (true, r)
    | r => (false, r)
  if ds.isEmpty ∨ ds.length > 19 ∨ ¬ ds.all Char.isDigit then none else
  let v : Nat := ds.foldl (fun a c => a * 10 + (c.toNat - '0'.toNat)) 0
  if v > 9223372036854775807 then none else some (if neg then - (v : Int) else (v : Int))

/-- index: 1..2 digits without leading zero, < n -/
def pIdx (s : String) (n : Nat) : Option Nat :=
  let cs := s.toList
  if cs.isEmpty ∨ cs.length > 2 ∨ ¬ cs.all Char.isDigit then none
  else if cs.length == 2 ∧ cs.head? == some '0' then none
  else
    let v : Nat := cs.foldl (fun a c => a * 10 + (c.toNat - '0'.toNat)) 0
    if v < n then some v else none

def pAcct (s : String) : Option Acct :=
  match s.toList with
  | 'm' :: r => (pIdx (String.ofList r) nMasters).map Acct.m
  | 'a' :: r => (pIdx (String.ofList r) nRcpts).map Acct.a
  | 'k' :: r => (pIdx (String.ofList r) nKeys).map Acct.k
  | _ => none

def pMaster (s : String) : Option Nat :=
  match pAcct s with | some (.m i) => some i | _ => none
def pKey (s : String) : Option Nat :=
  match pAcct s with | some (.k i) => some i | _ => none

def denomChar (c : Char) : Bool :=
  c.isAlphanum || c == '_' || c == '.' || c == ':' || c == '/' || c == '-'

def denomOK (s : String) : Bool :=
  let cs := s.toList
  match cs with
  | [] => false
  | c :: _ => cs.length ≤ 20 && (c.isAlpha || c == '/') && cs.all denomChar

def pCoin (s : String) : Option Coin :=
  match s.splitOn "=" with
  | [d, a] => if denomOK d then (pInt a).map fun v => (d, v) else none
  | _ => none

def pCoins (s : String) : Option Coins :=
  if s == "-" then some [] else
  let parts := s.splitOn "+"
  if parts.length > 4 then none else parts.mapM pCoin

def lowerHexDigit (c : Char) : Option Nat :=
  if '0' ≤ c ∧ c ≤ '9' then some (c.toNat - '0'.toNat)
  else if 'a' ≤ c ∧ c ≤ 'f' then some (c.toNat - 'a'.toNat + 10)
  else none

/-- lowercase hex of a printable-ASCII string of at most 64 bytes; `e` = empty -/
def pHexStr (s : String) : Option String :=
  if s == "e" then some "" else
  if s.isEmpty then none else
  let rec go : List Char → List Char → Option (List Char)
    | [], acc => some acc.reverse
    | [_], _ => none
    | a :: b :: rest, acc =>
      match lowerHexDigit a, lowerHexDigit b with
      | some x, some y =>
        let v := x * 16 + y
        if v < 0x20 ∨ v > 0x7e then none else go rest (Char.ofNat v :: acc)
      | _, _ => none
  match go s.toList [] with
  | some cs => if cs.length > 64 then none else some (String.ofList cs)
  | none => none

def pPaths (s : String) : Option (List String) :=
  if s == "-" then some [] else
  let items := s.splitOn ","
  if items.length > 10 then none else items.mapM pHexStr

def pAuth (s : String) : Option (List (Nat × Nat)) :=
  if s == "-" then some [] else
  let go (acc : Option (List (Nat × Nat))) (it : String) : Option (List (Nat × Nat)) := do
    let l ← acc
    match it.splitOn ":" with
    | [a, b] =>
      let m ← pMaster a
      let k ← pKey b
      if (l.lookup m).isSome then none else some (l ++ [(m, k)])
    | _ => none
  (s.splitOn ",").foldl go (some [])

def pMsg (auth : List (Nat × Nat)) (s : String) : Option Msg :=
  match s.splitOn ";" with
  | ["send", f, t, c] => do
    let f ← pMaster f; let t ← pAcct t; let c ← pCoins c
    pure (.send f t c)
  | ["exec", f, r, fn, c] => do
    let f ← pMaster f
    let r ← match r.toList with
      | ['r', d] => pIdx (String.singleton d) nRealms
      | _ => none
    let c ← pCoins c
    let fn ← if fn == "noop" then some ExecFn.noop
      else if fn == "fail" then some ExecFn.fail
      else if fn.startsWith "grow" then
        match pInt (fn.drop 4).toString with
        | some n => if n < 200 ∨ n > 5000 then none else some (ExecFn.grow n)
        | none => none
      else none
    pure (.exec f r fn c)
  | ["run", f, fn, c] => do
    let f ← pMaster f
    let c ← pCoins c
    let fn ← if fn == "noop" then some RunFn.noop
      else if fn == "fail" then some RunFn.fail
      else match fn.splitOn "@" with
        | ["pay", t, pc] => do
          let t ← pAcct t; let pc ← pCoins pc
          pure (RunFn.pay t pc)
        | _ => none
    pure (.run f fn c)
  | ["addpkg", f, c] => do
    let f ← pMaster f; let c ← pCoins c
    if (auth.lookup f).isNone then none else pure (.addpkg f c)
  | ["create", f, k, e, p, c, ps] => do
    let f ← pMaster f; let k ← pKey k; let e ← pInt e; let p ← pInt p
    let c ← pCoins c; let ps ← pPaths ps
    pure (.create f k e p c ps)
  | ["revoke", f, k] => do
    let f ← pMaster f; let k ← pKey k
    pure (.revoke f k)
  | ["revokeall", f] => do
    let f ← pMaster f
    pure (.revokeall f)
  | _ => none

def pOp (t : List String) : Option Op :=
  match t with
  | ["time", v] =>
    match pInt v with
    | some v => if v < 0 ∨ v ≥ 2^40 then none else some (.time v)
    | none => none
  | ["fund", a, c] => do
    let a ← pAcct a
    let c ← pCoins c
    if c.isEmpty ∨ ¬ validCoins c ∨ c.any (fun x => x.2 > 2^50) then none else pure (.fund a c)
  | "tx" :: au :: fee :: msgs =>
    if msgs.length > 6 then none else do
    let au ← pAuth au
    let fee ← pCoin fee
    let ms ← msgs.mapM (pMsg au)
    pure (.tx { auth := au, fee := fee, msgs := ms })
  | _ => none

def coinsStr (cs : Coins) : String :=
  if cs.isEmpty then "-" else "+".intercalate (cs.map fun c => s!"{c.1}={c.2}")

def balStr (w : World) (a : Acct) : String :=
  coinsStr ((w.denoms.map fun d => (d, w.bal a d)).filter fun c => c.2 != 0)

def insertSess (p : SessKey × Session) : List (SessKey × Session) → List (SessKey × Session)
  | [] => [p]
  | x :: r => if p.1.1 < x.1.1 ∨ (p.1.1 == x.1.1 ∧ p.1.2 < x.1.2) then p :: x :: r else x :: insertSess p r

def sessStr (p : SessKey × Session) : String :=
  -- resets are printed relative to t0; an untouched session is abbreviated
  if p.2.used.isEmpty ∧ p.2.seq == 0 then s!"s{p.1.1}.{p.1.2}@{p.2.reset - t0}"
  else s!"s{p.1.1}.{p.1.2}[u={coinsStr p.2.used} r={p.2.reset - t0} q={p.2.seq}]"

def dump (w : World) : String :=
  let ms := (List.range nMasters).map fun i => s!"m{i}[{balStr w (.m i)}]"
  let as := (List.range nRcpts).map fun i => s!"a{i}[{balStr w (.a i)}]"
  let ss := (w.sess.foldr insertSess []).map sessStr
  String.join ms ++ String.join as ++ "|" ++ " ".intercalate ss ++
    s!"|n={w.sink 0},{w.sink 1},{w.sink 2},{w.sink 3}"

/-- the harness kit cuts every output line at 300 bytes (all output is ASCII) -/
def clip (s : String) : String := if s.length > 300 then String.ofList (s.toList.take 300) else s

def step (w : World) (t : List String) : World × String :=
  match t with
  | ["realms"] => (w, ",".intercalate realmPaths)
  | _ =>
  match pOp t with
  | none => (w, "err:badop")
  | some (.time v) => (_root_.GnoVerif.C16.step w (.time v), "ok")
  | some (.fund a c) => let w' := _root_.GnoVerif.C16.step w (.fund a c); (w', clip ("ok | " ++ dump w'))
  | some (.tx x) =>
    let (w', r) := runTx w x
    let rs := match r with | .ok () => "ok" | .error e => e.token
    (w', clip (rs ++ " | " ++ dump w'))

end GnoVerif.Drive.C16

def main : IO Unit := GnoVerif.Kit.loop GnoVerif.C16.World.init GnoVerif.Drive.C16.step
