import GnoVerif.Base.Kit
import GnoVerif.Model.C27
/-!
Driver for C27 (crash during commit).  Line protocol (see harness/cmd/c27/main.go):

```
cfg <backend> <wiring> <aux> <fast> <keepRecent> <keepEvery> <initialHeight>
init <steps>
blk <tx> ...            tx = ok:<steps> | fail:<steps>
rec <k>                 reopen the database as it was after k physical writes
all                     rec for every k
```
The backend and the wiring (shared / keyed key prefixes) do not exist at the
model's level of abstraction; the tokens are validated and ignored.
-/
namespace GnoVerif.Drive.C27
open GnoVerif GnoVerif.Kit GnoVerif.C27

/-- what the uncrashed run looked like after each committed block. -/
structure Rec where
  ver : Nat
  info : List StoreInfo
  obs : Obs

structure St where
  cfg : Option Cfg := none
  auxIavl : Bool := false
  inited : Bool := false
  app : Option App := none
  genesis : List Step := []
  blocks : List (List Tx) := []
  recs : List Rec := []

/-- FNV-1a (64 bit) of an ASCII string. -/
def fnv64 (s : String) : UInt64 :=
  s.foldl (fun h c => (h ^^^ c.toNat.toUInt64) * 1099511628211) 14695981039346656037

def hex64 (x : UInt64) : String :=
  String.ofList ((List.range 16).map fun i => nibble ((x >>> (60 - 4 * i).toUInt64).toNat % 16))

/-- the kit cuts output lines at 300 characters (same rule as in the harness). -/
def compact (s : String) : String :=
  if s.length ≤ 250 then s else (s.take 200).toString ++ "~" ++ toString s.length ++ "~" ++ hex64 (fnv64 s)

/-- 1–9 decimal digits. -/
def natTok (s : String) : Option Nat :=
  if s.length ≥ 1 ∧ s.length ≤ 9 ∧ s.all Char.isDigit then s.toNat? else none

/-- strict lowercase hex, 1–64 bytes. -/
def lowerHex (s : String) : Option Bytes :=
  if s.length = 0 ∨ s.length % 2 ≠ 0 ∨ s.length > 128 then none
  else if s.all (fun c => ('0' ≤ c ∧ c ≤ '9') ∨ ('a' ≤ c ∧ c ≤ 'f')) then hexToBytes s else none

def isTreePrefix (b : UInt8) : Bool :=
  b == 66 || b == 86 || b == 82 || b == 77 || b == 79 || b == 70   -- B V R M O F

def parseStore (s : String) (aux : Bool) : Option SName :=
  match s with
  | "m" => some .main
  | "b" => some .base
  | "a" => if aux then some .aux else none
  | _ => none

def parseStep (t : String) (aux : Bool) : Option Step :=
  match t.splitOn "." with
  | [op, st, k] =>
    if op ≠ "d" then none else
    (parseStore st aux).bind fun s => (lowerHex k).bind fun kb =>
      if kb = cpKey ∨ kb = hdrKey then none
      else if s = .base ∧ isTreePrefix (kb.headD 0) then none
      else some ⟨true, s, kb, []⟩
  | [op, st, k, v] =>
    if op ≠ "w" then none else
    (parseStore st aux).bind fun s => (lowerHex k).bind fun kb => (lowerHex v).bind fun vb =>
      if kb = cpKey ∨ kb = hdrKey then none
      else if s = .base ∧ isTreePrefix (kb.headD 0) then none
      else some ⟨false, s, kb, vb⟩
  | _ => none

def parseSteps (s : String) (aux : Bool) : Option (List Step) :=
  if s = "-" then some [] else (s.splitOn ",").mapM (parseStep · aux)

def parseTx (t : String) (aux : Bool) : Option Tx :=
  if t.startsWith "ok:" then (parseSteps (t.drop 3).toString aux).map (⟨true, ·⟩)
  else if t.startsWith "fail:" then (parseSteps (t.drop 5).toString aux).map (⟨false, ·⟩)
  else none

def showKV (m : KV) : String :=
  "[" ++ ",".intercalate (m.map fun e => bytesToHex e.1 ++ "=" ++ bytesToHex e.2) ++ "]"

def showNats (l : List Nat) : String := "[" ++ ",".intercalate (l.map toString) ++ "]"

def b2s (b : Bool) : String := if b then "1" else "0"

def insertSorted (x : Nat) : List Nat → List Nat
  | [] => [x]
  | y :: r => if x ≤ y then x :: y :: r else y :: insertSorted x r

def sortNats (l : List Nat) : List Nat := l.foldl (fun acc x => insertSorted x acc) []

/-- the version probe of the harness: `lo .. upto+1`. -/
def versionsShown (cfg : Cfg) (d : PDB) (s : SName) (upto : Nat) : String :=
  let lo := if cfg.initialHeight > 1 then max 1 (cfg.initialHeight - 2) else 1
  showNats ((sortNats (rootVersions d s)).filter fun v => lo ≤ v ∧ v ≤ upto + 1)

/-- census of write units by key family, in the harness's (ASCII) order. -/
def census (auxIavl : Bool) (units : List (List WOp)) : String :=
  let ops := units.flatten
  let fam (op : WOp) : Option String :=
    let sign := match op with | .set _ _ => "+" | .del _ => "-"
    let tag (s : SName) : String := match s with | .main => "m" | .aux => "a" | .base => "b"
    match op.key with
    | .latest => some ("L" ++ sign)
    | .cinfo _ => some ("C" ++ sign)
    | .root s _ => if s = .aux ∧ auxIavl then none else some (tag s ++ "R" ++ sign)
    | .fast s _ => if s = .aux ∧ auxIavl then none else some (tag s ++ "F" ++ sign)
    | .stamp s => if s = .aux ∧ auxIavl then none else some (tag s ++ "S" ++ sign)
    | .flat _ => some ("b" ++ sign)
  let fams := ops.filterMap fam
  let order := ["C+", "C-", "L+", "L-", "aF+", "aF-", "aR+", "aR-", "aS+", "aS-", "b+", "b-",
                "mF+", "mF-", "mR+", "mR-", "mS+", "mS-"]
  ",".intercalate (order.filterMap fun f =>
    let n := (fams.filter (· == f)).length
    if n = 0 then none else some (f ++ toString n))

def heightOf (a : App) : Nat := a.nextHeight

/-- index of the block that produced version `v` (`none` = unknown; version 0 handled by the caller). -/
def idxOf (recs : List Rec) (v : Nat) : Option Nat :=
  (recs.zipIdx.find? fun p => p.1.ver = v).map (·.2)

structure Recovered where
  ver : Nat
  obs : Obs
  db : PDB
  h : Bool
  c : Bool
  cont : Bool

def emptyObs (cfg : Cfg) : Obs :=
  { ver := 0, hash := [], main := [], aux := cfg.aux.map fun _ => [], base := [] }

def sameContents (a b : Obs) : Bool := a.main == b.main && a.aux == b.aux && a.base == b.base

/-- continue the chain from the recovered app and compare with the recorded run. -/
def continueFrom (st : St) (a : App) (from_ : Nat) : Bool :=
  let rest := st.blocks.drop from_
  let want := (st.recs.drop from_).map fun r => (r.ver, r.info)
  match runBlocks a rest with
  | .error _ => false
  | .ok (a', ids) =>
    ids == want &&
      (match st.recs.getLast? with
       | some r => if from_ < st.recs.length then sameContents a'.obs r.obs else true
       | none => true)

def recoverAt (st : St) (cfg : Cfg) (app : App) (k : Nat) : Except Err Recovered :=
  let d := replay (app.log.take k)
  match recover cfg d with
  | .error e => .error e
  | .ok r =>
    let o := r.obs
    if r.lastVer = 0 then
      let h := r.lastInfo.isEmpty
      let c := sameContents o (emptyObs cfg)
      let cont := if st.inited then continueFrom st (r.initChain st.genesis) 0 else true
      .ok ⟨0, o, d, h, c, cont⟩
    else
      match idxOf st.recs r.lastVer with
      | none => .ok ⟨r.lastVer, o, d, false, false, false⟩
      | some i =>
        match st.recs[i]? with
        | none => .ok ⟨r.lastVer, o, d, false, false, false⟩
        | some rc =>
          .ok ⟨r.lastVer, o, d, r.lastInfo == rc.info, sameContents o rc.obs, continueFrom st r (i + 1)⟩

def stepLine (st : St) (t : List String) : St × String :=
  match t with
  | "cfg" :: args =>
    match args with
    | [be, wi, aux, fast, kr, ke, ih] =>
      if be ≠ "mem" ∧ be ≠ "level" then (st, "err:badop") else
      if wi ≠ "shared" ∧ wi ≠ "keyed" then (st, "err:badop") else
      let auxO : Option (Option Bool) := match aux with
        | "none" => some none | "bp" => some (some false) | "bpf" => some (some true) | "iavl" => some (some false)
        | _ => none
      match auxO with
      | none => (st, "err:badop")
      | some ax =>
        if wi = "shared" ∧ ax.isSome then (st, "err:badop") else
        let fastO : Option Bool := match fast with | "0" => some false | "1" => some true | _ => none
        match fastO, natTok kr, natTok ke, natTok ih with
        | some f, some kr, some ke, some ih =>
          if st.cfg.isSome then (st, "err:state") else
          let cfg : Cfg := { fastMain := f, aux := ax, keepRecent := kr, keepEvery := ke, initialHeight := ih }
          ({ st with cfg := some cfg, auxIavl := aux == "iavl", app := some (App.fresh cfg []) }, "ok")
        | _, _, _, _ => (st, "err:badop")
    | _ => (st, "err:badop")
  | ["init", s] =>
    match st.cfg, st.app with
    | some cfg, some app =>
      match parseSteps s cfg.aux.isSome with
      | none => (st, "err:badop")
      | some steps =>
        if st.inited then (st, "err:state") else
        let app := app.initChain steps
        ({ st with inited := true, genesis := steps, app := some app }, s!"ok w={app.log.length}")
    | _, _ => (st, "err:state")
  | "init" :: _ => (st, "err:badop")
  | "blk" :: toks =>
    match st.cfg, st.app with
    | some cfg, some app =>
      match toks.mapM (parseTx · cfg.aux.isSome) with
      | none => (st, "err:badop")
      | some txs =>
        if !st.inited then (st, "err:state") else
        match app.block txs with
        | .error e => (st, "panic:" ++ e.cls)
        | .ok app' =>
          let units := app'.log.drop app.log.length
          let kinds := String.join (units.map fun _ => "B")
          let out := s!"v={app'.lastVer} w=0 wc={units.length} wk={kinds} {census st.auxIavl units}"
          ({ st with app := some app', blocks := st.blocks ++ [txs],
                     recs := st.recs ++ [⟨app'.lastVer, app'.lastInfo, app'.obs⟩] }, compact out)
    | _, _ => (st, "err:state")
  | ["rec", ks] =>
    match natTok ks with
    | none => (st, "err:badop")
    | some k =>
      match st.cfg, st.app with
      | some cfg, some app =>
        if k > app.log.length then (st, "err:range") else
        match recoverAt st cfg app k with
        | .error e => (st, "err:" ++ e.cls)
        | .ok r =>
          let a := match r.obs.aux with | some m => showKV m | none => "-"
          let av := if st.auxIavl then "?" else if cfg.aux.isSome then versionsShown cfg r.db .aux r.ver else "-"
          let out := s!"v={r.ver} m={showKV r.obs.main} a={a} b={showKV r.obs.base} mv={versionsShown cfg r.db .main r.ver} av={av} h={b2s r.h} c={b2s r.c} cont={b2s r.cont}"
          (st, compact out)
      | _, _ => (st, "err:state")
  | "rec" :: _ => (st, "err:badop")
  | ["all"] =>
    match st.cfg, st.app with
    | some cfg, some app =>
      let parts := (List.range (app.log.length + 1)).map fun k =>
        match recoverAt st cfg app k with
        | .error e => s!"{k}:err:{e.cls}"
        | .ok r => s!"{k}:{r.ver}:{b2s r.h}{b2s r.c}{b2s r.cont}"
      (st, compact (" ".intercalate parts))
    | _, _ => (st, "err:state")
  | _ => (st, "err:badop")

end GnoVerif.Drive.C27

def main : IO Unit := GnoVerif.Kit.loop ({} : GnoVerif.Drive.C27.St) GnoVerif.Drive.C27.stepLine
