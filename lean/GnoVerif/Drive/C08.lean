import GnoVerif.Base.Kit
import GnoVerif.Model.C08
/-! Driver for C08: parses the op lines of harness/cmd/c08 (transactions whose
behaviour is a script of the interpreter realms), runs the model and prints the
canonical outcome: `<status> <balance deltas> <realm storage/deposit deltas>`. -/
namespace GnoVerif.Drive.C08
open GnoVerif GnoVerif.Kit GnoVerif.C08

/-! ### the harness environment (constants of harness/cmd/c08/main.go) -/

def realmPrefix : Str := S!"gno.land/r/c08/"
def realmNames : List Str := [S!"ra", S!"rb", S!"rc"]
def realmPath (n : Str) : Str := realmPrefix ++ n
def subNames : List Str := [S!"x", S!"y/z"]

def importsOf (n : Str) : List Str :=
  if n = S!"ra" then [S!"rb", S!"rc"] else if n = S!"rb" then [S!"rc"] else []

def nameOfPath (p : Str) : Option Str := realmNames.find? (fun n => realmPath n = p)

def isRunPath (p : Str) : Bool := hasPrefix p (S!"gno.land/e/")

def natOf (s : Str) : Option Nat :=
  if s.isEmpty || !s.all isDigit then none else some (s.foldl (fun n c => n * 10 + (c.toNat - '0'.toNat)) 0)

def intOf (s : Str) : Option Int :=
  match s with
  | '-' :: rest => (natOf rest).map (fun n => -(n : Int))
  | _ => (natOf s).map (fun n => (n : Int))

/-- symbolic address token → address -/
def resolve (tok : Str) : Option Addr :=
  match tok with
  | ['u', d] => if isDigit d && d.toNat - '0'.toNat < 4 then some (.user (d.toNat - '0'.toNat)) else none
  | _ =>
    if tok = S!"col" then some .col
    else match realmNames.find? (fun n => tok = n) with
      | some n => some (.pkg (realmPath n))
      | none =>
        match realmNames.find? (fun n => tok = 'd' :: n) with
        | some n => some (.dep (realmPath n))
        | none =>
          (realmNames.flatMap (fun n => subNames.map (fun s => (n, s)))).findSome? (fun (n, s) =>
            if tok = n ++ '#' :: s then some (Addr.pkg (realmPath n ++ '#' :: s)) else none)

/-- address → symbolic name (for printing) -/
def addrName : Addr → Str
  | .user i => 'u' :: (toString i).toList
  | .col => S!"col"
  | .dep p => match nameOfPath p with
    | some n => 'd' :: n
    | none => S!"?dep:" ++ p
  | .pkg p =>
    match nameOfPath p with
    | some n => n
    | none =>
      match (realmNames.flatMap (fun n => subNames.map (fun s => (n, s)))).find? (fun (n, s) => p = realmPath n ++ '#' :: s) with
      | some (n, s) => n ++ '#' :: s
      | none => S!"?pkg:" ++ p

/-- persisted bankers: for realm #i, ids 3i, 3i+1, 3i+2 = its OriginSend, RealmSend, RealmIssue -/
def persisted : List BankerInfo :=
  realmNames.flatMap fun n =>
    [1, 2, 3].map fun bt => { bt := bt, addr := some (.pkg (realmPath n)), path := realmPath n, src := .persisted }

def realmIndex (n : Str) : Option Nat := realmNames.findIdx? (· = n)

def savedOf (path : Str) (slot : Nat) : Option Nat :=
  match nameOfPath path with
  | some n => match realmIndex n with
    | some i => if 1 ≤ slot ∧ slot ≤ 3 then some (3 * i + slot - 1) else none
    | none => none
  | none => none

/-- setup: ra gave its RealmSend banker to rb (slot 0) and rc (slot 0); rb gave to rc (slot 1) -/
def givenOf (path : Str) (slot : Nat) : Option Nat :=
  if path = realmPath (S!"rb") then (if slot = 0 then some 1 else none)
  else if path = realmPath (S!"rc") then (if slot = 0 then some 1 else if slot = 1 then some 4 else none)
  else none

def mkEnv (osend : Coins) : Env where
  resolve := resolve
  target := fun owner n =>
    if isRunPath owner then (if realmNames.contains n then some (realmPath n) else none)
    else match nameOfPath owner with
      | some o => if (importsOf o).contains n then some (realmPath n) else none
      | none => none
  saved := savedOf
  given := givenOf
  slots := fun owner => if isRunPath owner then none else some 4
  osend := osend
  ephemeral := isRunPath

def chain : Chain where
  env := mkEnv
  persisted := persisted

def initStorage : Int := 100000
def initPrice : Int := 100
def userFunds : Int := 1000000000
def poorFunds : Int := 5000
def realmFunds : Int := 1000000

def initWorld : World where
  led := {
    bal := fun a d =>
      if d != ugnot then 0 else
      match a with
      | .user 0 => userFunds | .user 1 => userFunds | .user 2 => poorFunds
      | .pkg p => if (nameOfPath p).isSome then realmFunds else 0
      | .dep p => if (nameOfPath p).isSome then initStorage * initPrice else 0
      | _ => 0
    supply := fun _ => 0 }
  params := []
  rmeta := []
  realms := realmNames.map (fun n => (realmPath n, ⟨initStorage, initStorage * initPrice⟩))
  price := initPrice
  defaultDeposit := 600000000
  restricted := false
  hasAccount := fun i => i < 3

/-! ### script parser (same grammar as the Go and Gno sides) -/

/-- split at top-level `sep` (braces nest) -/
def splitTop (sep : Char) (s : Str) : List Str :=
  let rec go : Str → Nat → Str → List Str → List Str
    | [], _, cur, acc => (cur.reverse :: acc).reverse
    | c :: rest, depth, cur, acc =>
      if c == '{' then go rest (depth + 1) (c :: cur) acc
      else if c == '}' then go rest (depth - 1) (c :: cur) acc
      else if c == sep && depth == 0 then go rest depth [] (cur.reverse :: acc)
      else go rest depth (c :: cur) acc
  go s 0 [] []

def unbrace (s : Str) : Option Str :=
  match s with
  | '{' :: rest => match rest.getLast? with
    | some '}' => some rest.dropLast
    | _ => none
  | _ => none

def cutAt (c : Char) : Str → Option (Str × Str)
  | [] => none
  | x :: rest => if x == c then some ([], rest) else (cutAt c rest).map (fun (a, b) => (x :: a, b))

def inI64 (x : Int) : Bool := decide (-maxInt64 - 1 ≤ x) && decide (x ≤ maxInt64)

def parseCoin (s : Str) : Option Coin := do
  let (a, d) ← cutAt ':' s
  let n ← intOf a
  if !inI64 n then none
  if d.isEmpty then none
  pure ⟨d, n⟩

def parseCoins (s : Str) : Option Coins :=
  if s = S!"-" then some [] else (splitTop '+' s).mapM parseCoin

def okToken (s : Str) : Bool := !s.isEmpty && s.all (fun c => c != '{' && c != '}' && c != ',' && c != ';')

def parseRV (s : Str) : Option RV :=
  match s with
  | ['c'] => some .c | ['a'] => some .a | ['p'] => some .p | ['q'] => some .q
  | 's' :: ':' :: n => some (.s n)
  | 't' :: ':' :: n => some (.t n)
  | _ => none

def balanced (s : Str) : Bool :=
  let r := s.foldl (fun (acc : Option Nat) c =>
    match acc with
    | none => none
    | some d => if c == '{' then some (d + 1) else if c == '}' then (if d == 0 then none else some (d - 1)) else some d) (some 0)
  r == some 0

def smallNat (s : Str) (digits : Nat) : Option Nat := if s.length ≤ digits then natOf s else none

def knownOps : List Str := [S!"nb", S!"ld", S!"lg", S!"sd", S!"is", S!"rm", S!"ps", S!"x", S!"keep"]

mutual
partial def parseProg (s : Str) : Option (List Ins) :=
  if s.isEmpty then some [] else (splitTop ';' s).mapM parseIns

partial def parseIns (s : Str) : Option Ins :=
  match splitTop ',' s with
  | [op] =>
    if !okToken op || knownOps.contains op then none
    else if op = S!"ro" then some .ro else if op = S!"ub" then some .ub else if op = S!"cb" then some .cb
    else some .bad
  | [op, a] =>
    if op = S!"ld" then (smallNat a 9).map .ld
    else if op = S!"lg" then (smallNat a 9).map .lg
    else none
  | [op, a, b] =>
    if op = S!"nb" then do
      let bt ← smallNat a 9
      if !okToken b then none
      let rv ← parseRV b
      pure (.nb bt rv)
    else if op = S!"ps" then do
      let n ← smallNat b 4
      if !okToken a then none
      pure (.ps a n)
    else none
  | [op, a, b, c] =>
    if op = S!"sd" then do
      if !okToken a || !okToken b || !okToken c then none
      let cs ← parseCoins c
      pure (.sd a b cs)
    else if op = S!"is" || op = S!"rm" then do
      let n ← intOf c
      if !inI64 n || !okToken a || !okToken b then none
      pure (if op = S!"is" then .is a b n else .rm a b n)
    else if op = S!"x" then parseX a b c none
    else none
  | [op, a, b, c, d] =>
    if op = S!"x" then parseX a b c (some d) else none
  | _ => none

partial def parseX (mode tgt prog : Str) (extra : Option Str) : Option Ins := do
  let body ← unbrace prog
  if !okToken tgt || !okToken mode then none
  let p ← parseProg body
  let t : Tgt := if tgt = S!"self" then .self else .realm tgt
  match extra with
  | none =>
    let m : Mode :=
      if mode = S!"c" then .c else if mode = S!"ca" then .ca else if mode = S!"cg" then .cg
      else if mode = S!"cp" then .cp else if mode = S!"n" then .n else if mode = S!"ng" then .ng
      else .bad
    if mode = S!"cs" || mode = S!"k" then none
    pure (.x m t p)
  | some e =>
    if mode = S!"cs" then
      if okToken e then pure (.x (.cs e) t p) else none
    else if mode = S!"k" then do
      let kb ← unbrace e
      let kp ← parseProg kb
      pure (.x (.k kp) t p)
    else none
end

def parseScript (tok : String) : Option (List Ins) :=
  let s := tok.toList
  if s = S!"-" then some [] else if !balanced s then none else parseProg s

/-! ### printing -/

def strLe (a b : Str) : Bool := !strLt b a

def insertBy {α : Type} (le : α → α → Bool) (x : α) : List α → List α
  | [] => [x]
  | y :: ys => if le x y then x :: y :: ys else y :: insertBy le x ys

def showInt (x : Int) : String := if x ≥ 0 then s!"+{x}" else s!"{x}"

/-- aggregate the event log into net deltas per (name, denom), sorted -/
def deltas (log : List Ev) : String :=
  let agg : List ((Str × Str) × Int) := log.foldr (fun e acc =>
    let k := (addrName e.addr, e.denom)
    match alGet acc k with
    | some v => alSet acc k (v + e.amt)
    | none => acc ++ [(k, e.amt)]) []
  let nz := agg.filter (fun x => x.2 != 0)
  let sorted := nz.foldr (insertBy (fun a b => if a.1.1 = b.1.1 then strLe a.1.2 b.1.2 else strLe a.1.1 b.1.1)) []
  if sorted.isEmpty then "-"
  else ",".intercalate (sorted.map fun ((n, d), v) => s!"{String.ofList n}:{String.ofList d}:{showInt v}")

def metaDeltas (w w' : World) : String :=
  let parts := realmNames.filterMap fun n =>
    match alGet w.realms (realmPath n), alGet w'.realms (realmPath n) with
    | some a, some b =>
      if a = b then none else some s!"{String.ofList n}:{showInt (b.storage - a.storage)}:{showInt (b.deposit - a.deposit)}"
    | _, _ => none
  if parts.isEmpty then "-" else ",".intercalate parts

def report (w : World) (r : Except Fail Outcome) : World × String :=
  match r with
  | .error f => (w, s!"{f.token} - -")
  | .ok o => (o.world, s!"ok {deltas o.log} {metaDeltas w o.world}")

def userOf (tok : String) : Option Nat :=
  match tok.toList with
  | ['u', d] => if isDigit d && d.toNat - '0'.toNat < 4 then some (d.toNat - '0'.toNat) else none
  | _ => none

def depositOf (tok : String) : Option Int :=
  match natOf tok.toList with
  | some n => if inI64 (n : Int) then some (n : Int) else none
  | none => none

/-- a coins token of an op line (`send`, `amount` fields) -/
def coinsTok (tok : String) : Option Coins :=
  let s := tok.toList
  if s = S!"-" then some [] else if okToken s then parseCoins s else none

def stepLine (w : World) (toks : List String) : World × String :=
  let bad := (w, "err:badop")
  match toks with
  | ["call", signer, realm, send, maxDep, prog] =>
    match userOf signer, realmNames.find? (· = realm.toList), coinsTok send, depositOf maxDep, parseScript prog with
    | some u, some r, some sc, some md, some p => report w (step chain w (.call u (realmPath r) sc md p))
    | _, _, _, _, _ => bad
  | ["run", signer, send, maxDep, prog] =>
    match userOf signer, coinsTok send, depositOf maxDep, parseScript prog with
    | some u, some sc, some md, some p => report w (step chain w (.run u sc md p))
    | _, _, _, _ => bad
  | ["send", signer, dst, amt] =>
    match userOf signer, coinsTok amt, resolve dst.toList with
    | some u, some cs, some _ => report w (step chain w (.bankSend u dst.toList cs))
    | _, _, _ => bad
  | ["deploy", signer, kind, send] =>
    -- MsgAddPackage of an attack package that names the banker's unexported natives, its
    -- unexported concrete type or fields, or a home-made `realm`: rejected by the type checker
    -- before the keeper moves anything (a fact about the package's export surface, checked on
    -- the real code by the harness; the model has nothing to run)
    match userOf signer, coinsTok send with
    | some _, some sc =>
      if ["native", "xnative", "forge", "forgeconv", "fieldset", "realmforge"].contains kind then
        (w, if !coinsValid sc then "err:basic - -"
            else if kind == "realmforge" then "err:seal - -"   -- passes go/types, stopped by the `.seal` marker at preprocess
            else "err:typecheck - -")
      else bad
    | _, _ => bad
  | ["restrict", b] =>
    if b == "1" then ({ w with restricted := true }, "ok")
    else if b == "0" then ({ w with restricted := false }, "ok") else bad
  | ["price", n] =>
    match depositOf n with
    | some p => if 0 < p then ({ w with price := p }, "ok") else bad
    | none => bad
  | _ => bad

end GnoVerif.Drive.C08

def main : IO Unit :=
  GnoVerif.Kit.loop GnoVerif.Drive.C08.initWorld GnoVerif.Drive.C08.stepLine
