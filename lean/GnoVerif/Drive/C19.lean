import GnoVerif.Base.Kit
import GnoVerif.Gen.C19
/-! Driver for C19: runs the GENERATED model of tm2/pkg/overflow on op lines. -/
namespace GnoVerif.Drive.C19
open GnoVerif GnoVerif.Kit GnoVerif.GoInt

def tyOf : String → Option (Nat × Bool)
  | "i8" => some (8, true) | "i16" => some (16, true) | "i32" => some (32, true)
  | "i64" => some (64, true) | "int" => some (64, true)
  | "u8" => some (8, false) | "u16" => some (16, false) | "u32" => some (32, false)
  | "u64" => some (64, false) | "uint" => some (64, false)
  | _ => none

def showPair {w : Nat} (sg : Bool) (r : BitVec w × Bool) : String :=
  s!"{toInt sg r.1}:{boolStr r.2}"

def showE {α} (f : α → String) : Except String α → String
  | .ok v => f v
  | .error _ => "panic:overflow"

def run (fn : String) (w : Nat) (sg : Bool) (a b : Int) : String :=
  if ¬ (minVal w sg ≤ a ∧ a ≤ maxVal w sg ∧ minVal w sg ≤ b ∧ b ≤ maxVal w sg) then "err:badop" else
  let x := BitVec.ofInt w a
  let y := BitVec.ofInt w b
  match fn with
  | "add" => showPair sg (Gen.C19.Add sg x y)
  | "sub" => showPair sg (Gen.C19.Sub sg x y)
  | "mul" => showE (showPair sg) (Gen.C19.Mul sg x y)
  | "div" => showE (showPair sg) (Gen.C19.Div sg x y)
  | "addp" => showE (fun v => toString (toInt sg v)) (Gen.C19.Addp sg x y)
  | "subp" => showE (fun v => toString (toInt sg v)) (Gen.C19.Subp sg x y)
  | "mulp" => showE (fun v => toString (toInt sg v)) (Gen.C19.Mulp sg x y)
  | "divp" => showE (fun v => toString (toInt sg v)) (Gen.C19.Divp sg x y)
  | _ => "err:badop"

def step (_ : Unit) (t : List String) : Unit × String :=
  match t with
  | [fn, ty, a, b] =>
    match tyOf ty, parseInt a, parseInt b with
    | some (w, sg), some a, some b => ((), run fn w sg a b)
    | _, _, _ => ((), "err:badop")
  | _ => ((), "err:badop")

end GnoVerif.Drive.C19

def main : IO Unit := GnoVerif.Kit.loop () GnoVerif.Drive.C19.step
