import GnoVerif.Base.Kit
import GnoVerif.Model.C21
/-!
Driver for C21.  Ops (see harness/cmd/c21/main.go):

* `file <mode> <src>` / `expr <mode> <src>` — the model's whole prediction is the theorem
  `parseFile2_eq_parseFile`: a callback that returns changes neither the tree nor the errors,
  so the answer is `same` for every well-formed op line (the model does not parse Go).
* `scan <mode> <src> <stream>` / `cb0 …` — the token-advance layer on go/scanner's token
  stream of a source that parses completely: number and checksum of the callback
  invocations of `ParseFile2`, and the comment groups under the fork's line function
  (`g=`) and under go1.25.9's (`s=`).  `<src>` is not looked at.
-/
namespace GnoVerif.Drive.C21
open GnoVerif GnoVerif.Kit GnoVerif.C21

def parseTok (w : String) : Option Tok :=
  match (w.splitOn ".").map String.toNat? with
  | [some k, some l, some r] => some ⟨k, l, r, false, 0⟩
  | [some k, some l, some r, some b, some n] => if b ≤ 1 then some ⟨k, l, r, b == 1, n⟩ else none
  | _ => none

def parseStream (w : String) : Option (Array Tok) :=
  (w.splitOn ",").foldl (fun acc t => match acc, parseTok t with
    | some a, some x => some (a.push x)
    | _, _ => none) (some #[])

/-- explicit when short, else `<groups>/<comments>/<rolling hash>` (the harness kit cuts lines at 300 bytes) -/
def showGroups (gs : List (List Nat)) : String :=
  let full := "|".intercalate (gs.map fun g => ".".intercalate (g.map toString))
  if full.utf8ByteSize ≤ 100 then full else
  let h := gs.foldl (fun h g => g.foldl (fun h i => (h * 31 + i + 1) % 4294967291) ((h * 31) % 4294967291)) 0
  s!"{gs.length}/{(gs.map List.length).sum}/{h}"

/-- count and position-weighted checksum of the callback's token arguments -/
def sumCb : Nat → Nat → Nat × Nat → Nat × Nat :=
  fun tok _ p => (p.1 + 1, (p.2 + tok * (p.1 + 1)) % 4294967296)

def scan (mode : Nat) (s : Array Tok) : String :=
  let pc := mode / 4 % 2 == 1
  let prog := drain (s.size + 1)
  let f := parse2 (forkCfg s pc) sumCb prog (0, 0)
  let g := parse1 (stdCfg s pc) prog
  s!"n={f.cbState.1} k={f.cbState.2} g={showGroups f.final.comments} s={showGroups g.final.comments}"

def validSrc (w : String) : Bool :=
  match hexOpt w with
  | some (some _) => true
  | _ => false

def step (_ : Unit) (t : List String) : Unit × String :=
  match t with
  | [op, m, src] =>
    match parseNat m with
    | some mode =>
      if mode ≤ 127 ∧ validSrc src ∧ (op == "file" ∨ op == "expr") then ((), "same") else ((), "err:badop")
    | none => ((), "err:badop")
  | [op, m, src, stream] =>
    match parseNat m, parseStream stream with
    | some mode, some s =>
      if mode ≤ 127 ∧ validSrc src ∧ (op == "scan" ∨ op == "cb0") then ((), scan mode s) else ((), "err:badop")
    | some mode, none =>
      if mode ≤ 127 ∧ validSrc src ∧ (op == "scan" ∨ op == "cb0") then ((), "err:badstream") else ((), "err:badop")
    | _, _ => ((), "err:badop")
  | _ => ((), "err:badop")

end GnoVerif.Drive.C21

def main : IO Unit := GnoVerif.Kit.loop () GnoVerif.Drive.C21.step
