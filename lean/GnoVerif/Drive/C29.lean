import GnoVerif.Base.Kit
import GnoVerif.Model.C29
/-!
Driver for C29 (tm2/pkg/db backends and wrappers).  One backend per case.
Bytes are hex, `e` = empty non-nil, `-` = nil.  Handles: d<i> databases
(d0 = the backend), b<i> batches, s<i> snapshots, c<i> collectors.

```
open <backend> [reg]            first op of a case; backend ∈ mem ldb peb blt lmdb mdbx
wrap d<i> prefix <p> d<j> | wrap d<i> immut d<j> | wrap d<i> snapdb s<j> | wrap d<i> collect c<k> d<j>
drain c<k> d<j>                 b := d<j>.NewBatch(); c<k>.Drain(b); b.WriteSync(); b.Close()
set|sets|setmut d<i> <k> <v>    (setmut: flip the caller's buffers after Set)
del|dels d<i> <k>
get|has|getmut <r> <k>          r = d<i> | s<i>   (getmut: flip the returned slice, Get again)
it|itmut <r> asc|desc <s> <e>   full listing [k=v,…]  (itmut: flip every Key()/Value(), list again)
bnew d<i> b<j> | bnews d<i> b<j> <n>
bset|bsetmut b<j> <k> <v> | bdel b<j> <k> | bwrite|bwrites b<j> | bclose b<j>
snap d<i> s<j> | sclose s<j>
fill d<i> <n> <a> <c>           n Sets of key u16be((i*a+c) mod 65536) ++ (i mod 7)×0xaa, value = key
```
-/
namespace GnoVerif.Drive.C29
open GnoVerif GnoVerif.Kit GnoVerif.C29

/-- FNV-1a (64 bit) of an ASCII string. -/
def fnv64 (s : String) : UInt64 :=
  s.foldl (fun h c => (h ^^^ c.toNat.toUInt64) * 1099511628211) 14695981039346656037

def hex64 (x : UInt64) : String :=
  String.ofList ((List.range 16).map fun i => nibble ((x >>> (60 - 4 * i).toUInt64).toNat % 16))

/-- the harness kit cuts output lines at 300 characters: long listings are
printed as a 200-character head plus length and FNV-1a digest of the whole. -/
def compact (s : String) : String :=
  if s.length ≤ 250 then s else (s.take 200).toString ++ "~" ++ toString s.length ++ "~" ++ hex64 (fnv64 s)

def showOut : Out → String
  | .ok => "ok"
  | .val v => optBytesToHex v
  | .bool b => boolStr b
  | .items l => compact ("[" ++ ",".intercalate (l.map fun it => bytesToHex it.1 ++ "=" ++ bytesToHex it.2) ++ "]")
  | .err c => "err:" ++ c
  | .panic c => "panic:" ++ c

def lowerHexDigit (c : Char) : Option Nat :=
  if '0' ≤ c ∧ c ≤ '9' then some (c.toNat - '0'.toNat)
  else if 'a' ≤ c ∧ c ≤ 'f' then some (c.toNat - 'a'.toNat + 10)
  else none

/-- strict byte token: `-` nil, `e` empty, else non-empty even-length lowercase hex. -/
def hx (s : String) : Option (Option Bytes) :=
  if s == "-" then some none
  else if s == "e" then some (some [])
  else
    let rec go : List Char → List UInt8 → Option (List UInt8)
      | [], acc => some acc.reverse
      | [_], _ => none
      | a :: b :: rest, acc =>
        match lowerHexDigit a, lowerHexDigit b with
        | some x, some y => go rest (UInt8.ofNat (x * 16 + y) :: acc)
        | _, _ => none
    if s.isEmpty then none else (go s.toList []).map some

/-- handle token: prefix letter, 1–6 digits, no leading zero (except `0` itself). -/
def handle (pfx : Char) (s : String) : Option Nat :=
  match s.toList with
  | c :: ds =>
    if c == pfx ∧ 1 ≤ ds.length ∧ ds.length ≤ 6 ∧ ds.all Char.isDigit ∧ ¬ (ds.length > 1 ∧ ds.head? == some '0')
    then (String.ofList ds).toNat? else none
  | [] => none

def natTok (s : String) : Option Nat :=
  if 1 ≤ s.length ∧ s.length ≤ 6 ∧ s.all Char.isDigit then s.toNat? else none

def dirOf : String → Option Bool
  | "asc" => some true
  | "desc" => some false
  | _ => none

def backendOf : String → Option Backend
  | "mem" => some .mem
  | "ldb" => some .ldb
  | "peb" => some .peb
  | "blt" => some .blt
  | "lmdb" => some .lmdb
  | "mdbx" => some .mdbx
  | _ => none

/-- reader handle: (isSnapshot, index). -/
def rdr (s : String) : Option (Bool × Nat) :=
  match handle 'd' s with
  | some i => some (false, i)
  | none => (handle 's' s).map (fun i => (true, i))

def parse (t : List String) : Option Op :=
  match t with
  | ["wrap", d, "prefix", p, par] =>
    match handle 'd' d, handle 'd' par with
    | some d, some par => (hx p).map (fun p => .wrapPfx d (p.getD []) par)
    | _, _ => none
  | ["wrap", d, "immut", par] =>
    match handle 'd' d, handle 'd' par with
    | some d, some par => some (.wrapImmut d par)
    | _, _ => none
  | ["wrap", d, "snapdb", s] =>
    match handle 'd' d, handle 's' s with
    | some d, some s => some (.wrapSnap d s)
    | _, _ => none
  | ["wrap", d, "collect", c, par] =>
    match handle 'd' d, handle 'c' c, handle 'd' par with
    | some d, some c, some par => some (.wrapColl d c par)
    | _, _, _ => none
  | ["drain", c, d] =>
    match handle 'c' c, handle 'd' d with
    | some c, some d => some (.drain c d)
    | _, _ => none
  | [op, d, k, v] =>
    if op == "set" ∨ op == "sets" ∨ op == "setmut" then
      match handle 'd' d, hx k, hx v with
      | some d, some k, some v => some (.set d k v (op == "setmut"))
      | _, _, _ => none
    else if op == "bset" ∨ op == "bsetmut" then
      match handle 'b' d, hx k, hx v with
      | some b, some k, some v => some (.bset b k v (op == "bsetmut"))
      | _, _, _ => none
    else if op == "bnews" then
      match handle 'd' d, handle 'b' k, natTok v with
      | some d, some b, some _ => some (.bnew d b)
      | _, _, _ => none
    else none
  | [op, h, k] =>
    if op == "del" ∨ op == "dels" then
      match handle 'd' h, hx k with
      | some d, some k => some (.del d k)
      | _, _ => none
    else if op == "get" ∨ op == "getmut" then
      match rdr h, hx k with
      | some (sn, i), some k => some (.get sn i k (op == "getmut"))
      | _, _ => none
    else if op == "has" then
      match rdr h, hx k with
      | some (sn, i), some k => some (.has sn i k)
      | _, _ => none
    else if op == "bdel" then
      match handle 'b' h, hx k with
      | some b, some k => some (.bdel b k)
      | _, _ => none
    else if op == "bnew" then
      match handle 'd' h, handle 'b' k with
      | some d, some b => some (.bnew d b)
      | _, _ => none
    else if op == "snap" then
      match handle 'd' h, handle 's' k with
      | some d, some s => some (.snap d s)
      | _, _ => none
    else none
  | [op, h, dir, s, e] =>
    if op == "it" ∨ op == "itmut" then
      match rdr h, dirOf dir, hx s, hx e with
      | some (sn, i), some asc, some s, some e => some (.iter sn i asc s e (op == "itmut"))
      | _, _, _, _ => none
    else if op == "fill" then
      match handle 'd' h, natTok dir, natTok s, natTok e with
      | some d, some n, some a, some c => if n ≤ 20000 then some (.fill d n a c) else none
      | _, _, _, _ => none
    else none
  | [op, b] =>
    if op == "bwrite" ∨ op == "bwrites" then (handle 'b' b).map .bwrite
    else if op == "bclose" then (handle 'b' b).map .bclose
    else if op == "sclose" then (handle 's' b).map .sclose
    else none
  | _ => none

def stepLine (st : Option State) (t : List String) : Option State × String :=
  match t with
  | "open" :: rest =>
    let wellFormed := match rest with
      | [_] => true
      | [_, "reg"] => true
      | _ => false
    if !wellFormed then (st, "err:badop")
    else if st.isSome then (st, "err:dupopen")
    else
      match backendOf (rest.headD "") with
      | some b => (some (State.init b), "ok")
      | none => (st, "err:nobackend")
  | [] => (st, "err:badop")
  | _ =>
    match st with
    | none => (st, "err:noopen")
    | some s =>
      match parse t with
      | none => (st, "err:badop")
      | some op =>
        let r := step s op
        (some r.1, showOut r.2)

end GnoVerif.Drive.C29

def main : IO Unit := GnoVerif.Kit.loop (none : Option GnoVerif.C29.State) GnoVerif.Drive.C29.stepLine
