import GnoVerif.Base.Kit
import GnoVerif.Model.C31
/-! Driver for C31: runs the node model (`Model/C31.lean`) on the op lines of harness/cmd/c31.

Block names: `b<k>` (1 ≤ k < 500000) = valid scripted block `k`; `x<k>` = scripted block that
fails `ValidateBlock` (id 500000+k); `o<h>` = the node's own proposal block of height `h`;
`nil`.  -/
namespace GnoVerif.Drive.C31
open GnoVerif GnoVerif.Kit GnoVerif.C31

def pNat (s : String) : Option Nat :=
  if s.length > 7 then none else
  match s.toNat? with
  | some n => if toString n == s then some n else none
  | none => none

def pInt (s : String) : Option Int :=
  if s.startsWith "-" then (pNat (s.drop 1).toString).bind fun n => if n = 0 then none else some (-(n : Int))
  else (pNat s).map fun n => (n : Int)

def blkName (id : Nat) : String :=
  if id ≥ 1000000 then s!"o{id - 1000000}" else if id > 500000 then s!"x{id - 500000}" else s!"b{id}"

def optName : Option Nat → String
  | none => "nil"
  | some id => blkName id

def parseBlk (s : String) : Option Nat :=
  let rest := (s.drop 1).toString
  match pNat rest with
  | none => none
  | some k =>
    if k = 0 ∨ k ≥ 500000 then none
    else if s.startsWith "b" then some k
    else if s.startsWith "x" then some (500000 + k)
    else if s.startsWith "o" then some (1000000 + k)
    else none

def parseOptBlk (s : String) : Option (Option Nat) :=
  if s == "nil" then some none else (parseBlk s).map some

def blkOf (id : Nat) : Blk := ⟨id, !(decide (500000 < id ∧ id < 1000000))⟩

def parseType (s : String) : Option VType :=
  if s == "pv" then some .prevote else if s == "pc" then some .precommit else none

def typeStr : VType → String
  | .prevote => "pv"
  | .precommit => "pc"

def parseOk (s : String) : Option Bool :=
  if s == "ok" then some true else if s == "badsig" then some false else none

/-- proposer table: heights separated by `;` (first = height 1), one digit per round -/
def parseTable (s : String) : Option (List (List Nat)) :=
  (s.splitOn ";").mapM fun row =>
    row.toList.mapM fun c => if '0' ≤ c ∧ c ≤ '9' then some (c.toNat - '0'.toNat) else none

def tableProposer (tab : List (List Nat)) (h r : Nat) : Nat :=
  match tab[h - 1]? with
  | some row => row.getD r 0
  | none => 0

structure St where
  k : NodeCfg
  s : Node

def optBlk : Option Blk → String
  | none => "-"
  | some b => blkName b.id

def msgStr : Msg → String
  | .proposal p => s!"prop({p.height}/{p.round}/{p.polRound}/{blkName p.block})"
  | .blockPart h r b => s!"part({h}/{r}/{blkName b.id})"
  | .vote v => s!"{typeStr v.type}({v.height}/{v.round}/{optName v.block})"

def bits (l : List (Option C35.Vote)) : String :=
  String.join (l.map fun o => if o.isSome then "1" else "_")

def vsStr (vs : C35.VoteSet) : String :=
  let maj := match C35.twoThirdsMajority vs with
    | none => "-"
    | some b => optName (keyBlock b.key)
  s!"{maj}|{bits vs.votes}"

def insertSorted (x : Nat × RoundVotes) : List (Nat × RoundVotes) → List (Nat × RoundVotes)
  | [] => [x]
  | y :: ys => if x.1 ≤ y.1 then x :: y :: ys else y :: insertSorted x ys

def votesStr (h : HVS) : String :=
  let sorted := h.sets.foldl (fun acc x => insertSorted x acc) []
  s!"R{h.round}[" ++ " ".intercalate (sorted.map fun (r, rv) =>
    s!"{r}:{vsStr rv.prevotes},{vsStr rv.precommits}") ++ "]"

/-- FNV-1a, 32 bit, over the (ASCII) characters -/
def fnv32 (s : String) : UInt32 :=
  s.toList.foldl (fun h ch => (h ^^^ ch.toNat.toUInt32) * 16777619) 2166136261

/-- The harness kit cuts implementation outputs at 300 characters: a line that would be longer
carries a digest of the vote sets instead of their text. -/
def observe (s : Node) : String :=
  let prop := match s.proposal with
    | none => "-"
    | some p => s!"{p.polRound}:{blkName p.block}"
  let pbp := match s.proposalBlockParts with
    | none => "-"
    | some id => blkName id
  let tick := s!"{s.tickLast.height}/{s.tickLast.round}/{s.tickLast.step}{if s.tickArmed then "+" else "-"}"
  let dec := ",".intercalate (s.decided.reverse.map fun (h, b) => s!"{h}:{blkName b}")
  let head := s!"{s.height}/{s.round}/{s.step.toNat} lr={s.lockedRound} lb={optBlk s.lockedBlock} " ++
    s!"vr={s.validRound} vb={optBlk s.validBlock} p={prop} pb={optBlk s.proposalBlock} pbp={pbp} " ++
    s!"cr={s.commitRound} ttp={if s.triggeredTimeoutPrecommit then 1 else 0} tick={tick} " ++
    s!"q=[{",".intercalate (s.queue.map msgStr)}] dec=[{dec}] sent={s.sent.length} v="
  let vs := votesStr s.votes
  if head.length + vs.length ≤ 290 then head ++ vs
  else head ++ s!"#{(fnv32 vs).toNat}:{vs.length}"

def runInput (st : St) (i : Input) : Option St × String :=
  if st.s.halted then (some st, "halted") else
  let s' := handle st.k st.s i
  if s'.halted then (some { st with s := s' }, "panic:invalid-block")
  else (some { st with s := s' }, observe s')

def step (st? : Option St) (t : List String) : Option St × String :=
  match st?, t with
  | _, ["init", me, powers, tab] =>
    match pNat me, (powers.splitOn ",").mapM pNat, parseTable tab with
    | some me, some ps, some tab =>
      if ps.isEmpty ∨ ps.length > 9 ∨ me ≥ ps.length ∨ ps.any (· == 0) then (st?, "err:badop") else
      let k : NodeCfg := { me, vals := (List.range ps.length).zip ps, proposer := tableProposer tab }
      let s := Node.init k
      (some ⟨k, s⟩, observe s)
    | _, _, _ => (st?, "err:badop")
  | none, _ => (none, "err:noinit")
  | some st, ["start"] => runInput st .start
  | some st, ["timeout"] => runInput st .timeout
  | some st, ["internal"] => runInput st .internal
  | some st, ["proposal", h, r, pol, b, signer, ok] =>
    match pNat h, pNat r, pInt pol, parseBlk b, pNat signer, parseOk ok with
    | some h, some r, some pol, some b, some sg, some ok =>
      runInput st (.peer (.proposal ⟨h, r, pol, b, sg⟩) 1 ok)
    | _, _, _, _, _, _ => (some st, "err:badop")
  | some st, ["block", h, r, b] =>
    match pNat h, pNat r, parseBlk b with
    | some h, some r, some b => runInput st (.peer (.blockPart h r (blkOf b)) 1 true)
    | _, _, _ => (some st, "err:badop")
  | some st, ["vote", val, h, r, ty, b, peer, ok] =>
    match pNat val, pNat h, pNat r, parseType ty, parseOptBlk b, pNat peer, parseOk ok with
    | some val, some h, some r, some ty, some b, some peer, some ok =>
      if peer = 0 then (some st, "err:badop") else
      -- nobody else holds the node's key: a vote carrying the node's index verifies only if it
      -- is an echo of a vote the node really signed
      let v : Vote := ⟨val, h, r, ty, b⟩
      let ok := ok && (val != st.k.me || st.s.sent.contains v)
      runInput st (.peer (.vote v) peer ok)
    | _, _, _, _, _, _, _ => (some st, "err:badop")
  | some st, ["maj23", peer, h, r, ty, b] =>
    match pNat peer, pNat h, pNat r, parseType ty, parseOptBlk b with
    | some peer, some h, some r, some ty, some b =>
      if peer = 0 then (some st, "err:badop") else
      -- the reactor drops the claim when `height != msg.Height`
      if h ≠ st.s.height then (some st, if st.s.halted then "halted" else observe st.s)
      else runInput st (.maj23 peer r ty b)
    | _, _, _, _, _ => (some st, "err:badop")
  | some st, _ => (some st, "err:badop")

end GnoVerif.Drive.C31

def main : IO Unit := GnoVerif.Kit.loop (none : Option GnoVerif.Drive.C31.St) GnoVerif.Drive.C31.step
