import GnoVerif.Model.C23Step
import GnoVerif.Gen.C23Consts
/-! Driver for C23: the B+ tree model (Model.C23BpTree / C23Versions / C24Hash)
on op lines; protocol in Model/C23Step.lean.  The branching factor is the
constant `B` of tm2/pkg/bptree/const.go, regenerated into Gen/C23Consts.lean by
`gvx consts-bptree` on every run. -/

namespace GnoVerif.Drive.C23
open GnoVerif.Gen.C23

/-! the values the hand-written model hard-codes, pinned against the generated constants -/
example : MinKeys = GnoVerif.C23.minKeys B := by decide
example : 2 ^ miniMerkleDepth = B := by decide
example : (DomainLeaf, DomainInner, DomainEmpty) = (0, 1, 2) := by decide
example : 4 ≤ B := by decide

end GnoVerif.Drive.C23

def main : IO Unit :=
  GnoVerif.Kit.loop ({} : GnoVerif.C23.Step.St) (GnoVerif.C23.Step.step GnoVerif.Gen.C23.B false)
