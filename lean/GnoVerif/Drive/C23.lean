import GnoVerif.Model.C23Step
/-! Driver for C23: the B+ tree model (Model.C23BpTree / C23Versions / C24Hash)
on op lines; protocol in Model/C23Step.lean.  `B = 32` (tm2/pkg/bptree/const.go). -/

def main : IO Unit :=
  GnoVerif.Kit.loop ({} : GnoVerif.C23.Step.St) (GnoVerif.C23.Step.step 32 false)
