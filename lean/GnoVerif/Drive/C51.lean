import GnoVerif.Base.Kit
import GnoVerif.Model.C51
/-! Driver for C51: runs the grc20 ledger model on op lines (see
    harness/cmd/c51/main.go for the line protocol).  Parsing is strict and
    mirrors the harness.

    address tokens: `v0 … v4` (IsValid() = true; v4 is v0 in upper case — a
    different string, hence a different account) and `x0 … x2` (IsValid() =
    false).  amounts: optional `-`, 1..19 digits, inside int64.

    ops:  mint A N | burn A N | xfer F T N | appr O S N | xfrom O S T N |
          spend O S N |
          txfer C T N | tappr C S N | txfrom C O T N     (ImpersonateTeller(C))
          rxfer T N | rappr S N | rxfrom O T N           (ReadonlyTeller)

    output: `<res> ts=<totalSupply> n=<KnownAccounts> b=<non-zero balances>
    a=<non-zero allowances>` over the whole address table, in table order. -/
namespace GnoVerif.Drive.C51
open GnoVerif GnoVerif.Kit GnoVerif.C51

def nValid : Nat := 5
def nInvalid : Nat := 3

/-- optional `-`, then 1..19 decimal digits, inside int64. -/
def pI64 (s : String) : Option Int :=
  let cs := s.toList
  let (neg, ds) := match cs with
    | '-' :: r => (true, r)
    | r => (false, r)
  if ds.isEmpty ∨ ds.length > 19 ∨ ¬ ds.all Char.isDigit then none else
  let v : Nat := ds.foldl (fun a c => a * 10 + (c.toNat - '0'.toNat)) 0
  let x : Int := if neg then - (v : Int) else (v : Int)
  if minInt64 ≤ x ∧ x ≤ maxInt64 then some x else none

def pAddr (s : String) : Option Addr :=
  match s.toList with
  | ['v', d] =>
    if d.isDigit ∧ d.toNat - '0'.toNat < nValid then some ⟨d.toNat - '0'.toNat, true⟩ else none
  | ['x', d] =>
    if d.isDigit ∧ d.toNat - '0'.toNat < nInvalid then some ⟨100 + (d.toNat - '0'.toNat), false⟩ else none
  | _ => none

def table : List (String × Addr) :=
  (List.range nValid).map (fun i => (s!"v{i}", ⟨i, true⟩)) ++
  (List.range nInvalid).map (fun i => (s!"x{i}", ⟨100 + i, false⟩))

def joinOr (l : List String) : String := if l.isEmpty then "-" else ",".intercalate l

def dump (L : Ledger) : String :=
  let bs := table.filterMap fun (nm, a) =>
    let v := balanceOf L a
    if v == 0 then none else some s!"{nm}:{v}"
  let als := table.flatMap fun (no, o) => table.filterMap fun (ns, s) =>
    let v := allowance L o s
    if v == 0 then none else some s!"{no}>{ns}:{v}"
  s!"ts={L.totalSupply} n={knownAccounts L} b={joinOr bs} a={joinOr als}"

def resStr : Res → String
  | .ok => "ok"
  | .err .invalidAddress => "err:addr"
  | .err .invalidAmount => "err:amount"
  | .err .cannotTransferToSelf => "err:self"
  | .err .insufficientBalance => "err:balance"
  | .err .insufficientAllowance => "err:allowance"
  | .err .mintOverflow => "err:mintoverflow"
  | .panic => "panic:overflow"

def fnv64 (s : String) : UInt64 :=
  s.toList.foldl (fun h c => (h ^^^ (UInt64.ofNat c.toNat)) * 1099511628211) 14695981039346656037

/-- the kit cuts lines at 300 bytes: long outputs become length + FNV-1a 64 + prefix
(all output is ASCII, so chars = bytes). -/
def clip (s : String) : String :=
  if s.length ≤ 240 then s else
  s!"#{s.length}:{fnv64 s}:{String.ofList (s.toList.take 160)}"

def fin (r : Ledger × Res) : Ledger × String := (r.1, resStr r.2 ++ " " ++ dump r.1)

def stepLine (L : Ledger) (t : List String) : Ledger × String :=
  let bad := (L, "err:badop")
  let ro := (L, "err:readonly " ++ dump L)
  match t with
  | ["mint", a, n] =>
    match pAddr a, pI64 n with
    | some a, some n => fin (step L (.mint a n))
    | _, _ => bad
  | ["burn", a, n] =>
    match pAddr a, pI64 n with
    | some a, some n => fin (step L (.burn a n))
    | _, _ => bad
  | ["xfer", f, t, n] =>
    match pAddr f, pAddr t, pI64 n with
    | some f, some t, some n => fin (step L (.transfer f t n))
    | _, _, _ => bad
  | ["appr", o, s, n] =>
    match pAddr o, pAddr s, pI64 n with
    | some o, some s, some n => fin (step L (.approve o s n))
    | _, _, _ => bad
  | ["xfrom", o, s, t, n] =>
    match pAddr o, pAddr s, pAddr t, pI64 n with
    | some o, some s, some t, some n => fin (step L (.transferFrom o s t n))
    | _, _, _, _ => bad
  | ["spend", o, s, n] =>
    match pAddr o, pAddr s, pI64 n with
    | some o, some s, some n => fin (step L (.spendAllowance o s n))
    | _, _, _ => bad
  -- fnTeller methods with accountFn = the impersonated address: plain delegation
  | ["txfer", c, t, n] =>
    match pAddr c, pAddr t, pI64 n with
    | some c, some t, some n => fin (step L (.transfer c t n))
    | _, _, _ => bad
  | ["tappr", c, s, n] =>
    match pAddr c, pAddr s, pI64 n with
    | some c, some s, some n => fin (step L (.approve c s n))
    | _, _, _ => bad
  | ["txfrom", c, o, t, n] =>
    match pAddr c, pAddr o, pAddr t, pI64 n with
    | some c, some o, some t, some n => fin (step L (.transferFrom o c t n))
    | _, _, _, _ => bad
  -- ReadonlyTeller: accountFn == nil ⇒ ErrReadonly before anything else
  | ["rxfer", t, n] =>
    match pAddr t, pI64 n with
    | some _, some _ => ro
    | _, _ => bad
  | ["rappr", s, n] =>
    match pAddr s, pI64 n with
    | some _, some _ => ro
    | _, _ => bad
  | ["rxfrom", o, t, n] =>
    match pAddr o, pAddr t, pI64 n with
    | some _, some _, some _ => ro
    | _, _, _ => bad
  | _ => bad

end GnoVerif.Drive.C51

def main : IO Unit :=
  GnoVerif.Kit.loop GnoVerif.C51.init fun L t =>
    let r := GnoVerif.Drive.C51.stepLine L t
    (r.1, GnoVerif.Drive.C51.clip r.2)
