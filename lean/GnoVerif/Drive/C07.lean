import GnoVerif.Base.Kit
import GnoVerif.Model.C07Authority
/-! Driver for C07: compiles an attacker-program op line (`atk <entry> <chain> <act>`,
see harness/cmd/c07/prog.go) into an event tree of the abstract machine and runs it.
The tables below ARE the model of the Gno snippets the harness renders (which
callee is declared where, which receiver / pointer base a getter hands out);
the semantics (`pushFrameCall`, the gates, `didUpdate`, …) is Model/C07Authority. -/
namespace GnoVerif.Drive.C07
open GnoVerif GnoVerif.Kit GnoVerif.C07

/-! packages of the harness cast -/
def pV : Nat := 1   -- gno.land/r/c07/victim
def pO : Nat := 2   -- gno.land/r/c07/other
def pL : Nat := 3   -- gno.land/p/c07/lib
def pA : Nat := 4   -- the attacker package (/e/<caller>/run or a fresh /r/ realm)

def world (atkIsRealm : Bool) : World where
  kind := fun p => if p == pL then .pure else if p == pA then (if atkIsRealm then .realm else .eph) else .realm
  hasRealm := fun _ => true

/-- a persisted victim object / an unreal victim-stamped one / a persisted attacker object -/
def vR : OidRef := .fixed ⟨some pV, 7⟩
def vU : OidRef := .fixed ⟨some pV, 0⟩
def aR : OidRef := .fixed ⟨some pA, 7⟩

/-- non-crossing call of a victim getter: body empty -/
def getter (next : Ev) : Ev := .call pV false none false .undef .done next

/-- pointer to a victim heap item holding a victim struct (GetPt / GetPBx results) -/
def ptrStruct : TVRef := .ptrHIV vR (.obj vR)
/-- pointer to the victim's package-level int (GetPX result, &victim.X) -/
def ptrInt : TVRef := .ptrHIV vR .prim

/-- `who:what` → events of the innermost body (the attacker package is `pA`). -/
def actEv (act : String) : Option Ev :=
  let wr (tv : TVRef) : Ev := .ro tv (.upd vR 1 .done)
  match act with
  -- attacker statement through a getter alias
  | "s:px" => some (getter (wr ptrInt))
  | "s:pn" | "s:pa" | "s:pi" | "s:bn" | "s:ia" => some (getter (wr ptrStruct))
  | "s:df" => some (.lit 104 (.call pA false (some (.slot 104)) false .undef (getter (wr ptrStruct)) .done))
  | "s:pq" => some (getter (wr (.ptrBase vR)))
  | "s:s0" | "s:si" | "s:ap" | "s:mk" | "s:mn" | "s:md" => some (getter (wr (.obj vR)))
  | "s:cp" => some (getter (.alloc none (wr (.obj vR))))
  -- attacker statement on exported variables
  | "s:vx" | "s:vf" => some (.static .done)
  -- (`victim.X++`: by the time IsReadonly runs, getPointerToFromTV has replaced the
  --  RefValue{PkgPath} operand by the loaded *PackageValue, so the gate is the object one)
  | "s:vi" | "s:vs" | "s:vl" | "s:vm" | "s:va" => some (wr (.obj vR))
  | "s:vp" => some (wr ptrStruct)
  | "s:vr" => some (wr ptrInt)
  -- not victim state
  | "s:cs" => some (getter (.ro (.obj vU) (.upd vU 0 .done)))
  | "s:nt" => some (.call pV false none false .undef (.alloc (some pV) .done)
                (.ro (.ptrHIV vU (.obj vU)) (.upd vU 0 .done)))
  | "s:ow" => some (.alloc (some pA) (.ro (.ptrHIV (.fresh none) (.obj (.fresh (some pA)))) (.upd (.fresh (some pA)) 0 .done)))
  -- construction
  | "s:kl" | "s:kp" | "s:kn" | "s:ku" | "s:ke" => some (.alloc (getDeclaredPkgID (.declared pV)) .done)
  -- composite literals / make / new of the victim's DECLARED map, slice and array types:
  -- the check sees the *DeclaredType (not its anonymous base), so all of them are gated
  | "s:qm" | "s:qn" | "s:qk" => some (.alloc (getDeclaredPkgID (.named pV (.mapOf .anon))) .done)
  | "s:ql" | "s:qe" | "s:qi" | "s:qs" => some (.alloc (getDeclaredPkgID (.named pV (.sliceOf .anon))) .done)
  | "s:qa" | "s:qb" | "s:qj" => some (.alloc (getDeclaredPkgID (.named pV (.arrayOf .anon))) .done)
  | "s:qp" | "s:qo" => some (.alloc (getDeclaredPkgID (.ptrTo (.named pV (.mapOf .anon)))) .done)
  -- nested: the inner literal is built (and checked) first, then the enclosing one
  | "s:qw" => some (.alloc (getDeclaredPkgID (.named pV (.mapOf .anon))) (.alloc (some pA) .done))
  | "s:qx" => some (.alloc (getDeclaredPkgID (.declared pV)) (.alloc (some pA) .done))
  | "s:qt" => some (.alloc (getDeclaredPkgID (.declared pV)) (.alloc (getDeclaredPkgID (.sliceOf (.declared pV))) .done))
  | "s:qu" => some (.alloc (getDeclaredPkgID (.declared pV)) (.alloc (getDeclaredPkgID (.mapOf (.declared pV))) .done))
  | "s:qv" => some (.alloc (getDeclaredPkgID (.named pV (.mapOf .anon))) (.alloc none .done))
  | "s:qg" => some (.alloc (getDeclaredPkgID (.named pV (.sliceOf .anon))) (.alloc none .done))
  -- built as an argument, then handed to a victim function
  | "s:qr" => some (.alloc (getDeclaredPkgID (.named pV (.mapOf .anon))) (getter .done))
  | "s:qz" => some (.alloc (getDeclaredPkgID (.named pV (.sliceOf .anon))) (getter .done))
  | "s:qf" => some (.alloc (getDeclaredPkgID (.named pV (.arrayOf .anon))) (getter .done))
  | "s:qy" => some (.alloc (getDeclaredPkgID (.declared pV)) (getter .done))
  -- conversions to the victim's declared types (explicit, or implicit at the call)
  | "s:qc" | "s:qd" => some (.alloc none (.convTo pV false .done))
  | "s:qh" => some (.alloc none (.convTo pV false (getter .done)))
  -- zero values: no construction site is reached
  | "s:zv" | "s:zt" | "s:zi" => some (getter .done)
  | "s:zw" => some (.alloc (some pA) (getter .done))
  | "s:km" => some (.alloc (getDeclaredPkgID (.sliceOf (.declared pV))) .done)
  | "s:ka" => some (.alloc (getDeclaredPkgID (.arrayOf (.declared pV))) .done)
  | "s:kz" => some .done
  | "s:kc" => some (getter (.conv ptrStruct false (wr ptrStruct)))
  -- /p/ top-level functions chosen by the attacker
  | "k:px" => some (getter (.call pL false none false .undef (wr ptrInt) .done))
  | "k:bn" | "k:bx" => some (getter (.call pL false none false .undef (wr ptrStruct) .done))
  | "k:s0" | "k:mk" => some (getter (.call pL false none false .undef (wr (.obj vR)) .done))
  -- victim code
  | "v:sx" => some (.call pV true none true .undef (.roName true vR (.upd vR 1 .done)) .done)
  | "v:sp" => some (.call pV false none false .undef (.roName true vR (.upd vR 1 .done)) .done)
  | "v:me" | "v:mv" => some (getter (.call pV false none false (.obj vR) (wr ptrStruct) .done))
  | "v:mx" => some (getter (.call pV false none false .undef (wr ptrStruct) .done))
  | "v:bs" | "v:bv" => some (getter (.call pL false none false (.obj vR) (wr ptrStruct) .done))
  | "v:fs" => some (.call pV false none false .undef (.lit 100 .done)
                (.call pV false (some (.slot 100)) false .undef (.roName true vR (.upd vR 1 .done)) .done))
  | "v:ls" => some (.call pV false none false .undef (.call pL false none false .undef (.lit 101 .done) .done)
                (.call pL false (some (.slot 101)) false .undef (wr ptrInt) .done))
  | "v:fn" => some (.call pV false (some (.fixed (some pV))) false .undef (.roName true vR (.upd vR 1 .done)) .done)
  | "v:wt" => some (getter (.call pV true none true .undef (wr ptrInt) .done))
  | "v:db" => some (getter (.call pL false none false (.obj vR) (.call pL false none false .undef (wr ptrStruct) .done) .done))
  | "v:vl" => some (.call pV true none true .undef (.call pL false none false .undef (wr ptrInt) .done) .done)
  -- the victim hands its pointer to an attacker callback
  | "a:vf" => some (.lit 102 (.call pV true none true .undef
                (.call pA false (some (.slot 102)) false .undef (wr ptrInt) .done) .done))
  | "a:vn" => some (.call pV true none true .undef (.call pA false none false .undef (wr ptrInt) .done) .done)
  -- realm values
  | "r:kc" => some (.call pV true none true .undef (.roName false vR (.upd vR 1 (.persistRealm false .done))) .done)
  | "r:kp" => some (.call pV true none true .undef
                (.roName false vR (.attach vR (.fixed ⟨none, 0⟩) (.persistRealm true .done))) .done)
  | "r:ic" | "r:ip" => some (.call pV true none true .undef (.roName false vR (.upd vR 1 (.persistRealm false .done))) .done)
  | "r:sc" | "r:sm" | "r:ss" => some (.roName false aR (.upd aR 0 (.persistRealm false .done)))
  | "r:sf" => some (.alloc (some pA) (.roName false aR (.upd aR 0 (.persistRealm false .done))))
  | "r:cl" => some (.lit 103 (.roName false aR (.upd aR 0 (.persistRealm false .done))))
  | "r:sp" => some (.roName false aR (.attach aR (.fixed ⟨none, 0⟩) (.persistRealm true .done)))
  -- attacker realm keeps references to victim objects
  | "h:pt" | "h:sl" => some (getter (.roName false aR (.attach aR vR .done)))
  | "h:nt" => some (.call pV false none false .undef (.alloc (some pV) .done) (.roName false aR (.attach aR vU .done)))
  | "h:mz" => some (.alloc none (.roName false aR (.attach aR (.fresh none) (.adopt vU .done))))
  | _ => none

def needCur (act : String) : Bool :=
  ["v:sx", "v:wt", "v:vl", "a:vf", "a:vn", "r:kc", "r:kp", "r:ic", "r:ip",
   "r:sc", "r:sp", "r:sf", "r:sm", "r:ss", "r:cl", "h:pt", "h:nt", "h:mz", "h:sl"].contains act
def callOnly (act : String) : Bool :=
  ["r:sc", "r:sp", "r:sf", "r:sm", "r:ss", "r:cl", "h:pt", "h:nt", "h:mz", "h:sl"].contains act

/-- callback creation (evaluated as an argument in the enclosing body) + invocation -/
def cbCreate (cb : Char) (k : Nat) (next : Ev) : Option Ev :=
  match cb with
  | 'f' => some (.lit (2*k) next)
  | 'n' => some next
  | 'w' => some (.lit (2*k) (.call pL false none false .undef (.lit (2*k+1) .done) next))
  | 't' => some (.alloc (some pA) next)
  | _ => none

def cbInvoke (cb : Char) (k : Nat) (body : Ev) : Option Ev :=
  match cb with
  | 'f' => some (.call pA false (some (.slot (2*k))) false .undef body .done)
  | 'n' => some (.call pA false none false .undef body .done)
  | 'w' => some (.call pL false (some (.slot (2*k+1))) false .undef
             (.call pA false (some (.slot (2*k))) false .undef body .done) .done)
  | 't' => some (.call pA false none false (.obj (.fresh (some pA))) body .done)
  | _ => none

/-- one link: `hop(cb)` where the callback's body is `body` -/
def linkEv (hop cb : Char) (k : Nat) (body : Ev) : Option Ev := do
  let inv ← cbInvoke cb k body
  match hop with
  | 'd' => cbCreate cb k inv
  | 'p' => cbCreate cb k (.call pV false none false .undef inv .done)
  | 'x' => cbCreate cb k (.call pV true none true .undef inv .done)
  | 'm' => (cbCreate cb k (.call pV false none false (.obj vR) inv .done)).map getter
  | 'b' => (cbCreate cb k (.call pL false none false (.obj vR) inv .done)).map getter
  | 'l' => cbCreate cb k (.call pL false none false .undef inv .done)
  | 'u' => (cbCreate cb k (.call pL false none false (.obj (.fresh none)) inv .done)).map (Ev.alloc (some pL))
  | 'o' => cbCreate cb k (.call pO false none false .undef inv .done)
  | 'y' => cbCreate cb k (.call pO true none true .undef inv .done)
  | _ => none

def parseChain (s : String) : Option (List (Char × Char)) :=
  if s == "-" then some [] else
  (s.splitOn ".").mapM fun l => match l.toList with
    | [h, c] => if "dpxmbluoy".toList.contains h && "fnwt".toList.contains c then some (h, c) else none
    | _ => none

def chainOk : List (Char × Char) → Nat → Bool
  | [], _ => true
  | (h, _) :: rest, i => (!(h == 'x' || h == 'y') || i == 0) && chainOk rest (i+1)

def compile (chain : List (Char × Char)) (act : Ev) : Option Ev :=
  let rec go : List (Char × Char) → Nat → Option Ev
    | [], _ => some act
    | (h, c) :: rest, k => do
      let inner ← go rest (k+1)
      linkEv h c (k+1) inner
  go chain 0

/-- does the preprocessor reject the program (the check is static: reached or not) -/
def hasStatic : Ev → Bool
  | .done => false
  | .static _ => true
  | .call _ _ _ _ _ body next => hasStatic body || hasStatic next
  | .lit _ n | .alloc _ n | .ro _ n | .roName _ _ n | .conv _ _ n | .convTo _ _ n | .upd _ _ n
  | .attach _ _ n | .adopt _ n | .persistRealm _ n => hasStatic n

def b01 (b : Bool) : String := if b then "1" else "0"

def runProg (entry : String) (chain : List (Char × Char)) (act : String) : String :=
  match actEv act with
  | none => "err:badop"
  | some a =>
    if (needCur act && !chain.isEmpty) || (callOnly act && entry != "call") || chain.length > 6 || !chainOk chain 0 then "err:badop" else
    match compile chain a with
    | none => "err:badop"
    | some ev =>
      let W := world (entry == "call")
      let c0 : Ctx := { st := { realm := some pA, pkg := pA, stageRun := true }, env := [],
                        frames := [{ fn := { pkg := pA, crossing := true, closure := none }, recv := .undef, realm := some pA }],
                        writes := [], metas := [], news := [], rv := false }
      if hasStatic ev then "panic:static chg=0 meta=0 new=0 rv=0" else
      match run W ev c0 with
      | .error e => s!"{e.token} chg=0 meta=0 new=0 rv=0"
      | .ok c =>
        let chg := c.writes.any (fun w => w.po.pkg == some pV && w.po.isReal)
        let met := !chg && c.metas.any (fun m => m.2.pkg == some pV && m.1 != some pV)
        let new := c.news.any (fun n => n.2 == some pV)
        s!"ok chg={b01 chg} meta={b01 met} new={b01 new} rv={b01 c.rv}"

def step (_ : Unit) (t : List String) : Unit × String :=
  match t with
  | ["atk", entry, chain, act] =>
    if entry != "run" && entry != "call" then ((), "err:badop") else
    match parseChain chain with
    | some ch => ((), runProg entry ch act)
    | none => ((), "err:badop")
  | _ => ((), "err:badop")

end GnoVerif.Drive.C07

def main : IO Unit := GnoVerif.Kit.loop () GnoVerif.Drive.C07.step
