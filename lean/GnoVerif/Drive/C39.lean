import GnoVerif.Base.Kit
import GnoVerif.Base.C39Sha256
import GnoVerif.Model.C39
/-!
Driver for C39: runs the part-set model with `H := SHA-256` on op lines.

  make <data-hex> <partSize>      source block: NewPartSetFromData  → total= hash= parts#=
  part <i>                        source part i (digest form)
  fromheader                      cur := NewPartSetFromHeader(src.Header())
  rawheader <total> <hash-hex>    cur := NewPartSetFromHeader({total, hash})
  full                            cur := the source set itself (complete)
  nilset                          cur := (*PartSet)(nil)
  add <i> [mod…]                  cur.AddPart(copy of source part i with mods) → class n=<count>
  vb <i> [mod…]                   Part.ValidateBasic of the same mutated part
  state | header | getpart <i> | read <chunk>
  race …                          (harness-only concurrency stress; constant answer `raced`)

mods (applied left to right): idx=<int> pidx=<int> ptot=<int> bytes=<hex> leaf=<hex>
  flipb=<pos>:<mask> flipl=<pos>:<mask> flipa=<k>:<pos>:<mask> dropa adda=<hex>
  proof=<j> data=<j> releaf (leafHash := leafHash(bytes)) nil
-/
namespace GnoVerif.Drive.C39
open GnoVerif GnoVerif.Kit GnoVerif.C39

def H : Bytes → Bytes := C39Sha.sha256

structure St where
  src : Option PartSet := none          -- the full set from `make`
  cur : Option (Option PartSet) := none -- none: no set yet; some none: nil *PartSet
deriving Inhabited

def u32be (n : Nat) : Bytes :=
  [UInt8.ofNat (n / 16777216 % 256), UInt8.ofNat (n / 65536 % 256), UInt8.ofNat (n / 256 % 256), UInt8.ofNat (n % 256)]

def short (b : Bytes) : String := bytesToHex ((H b).take 8)

def serPart (p : Part) : Bytes :=
  u32be p.index.toNat ++ u32be p.bytes.length ++ p.bytes ++ u32be p.proof.total.toNat ++
  u32be p.proof.index.toNat ++ u32be p.proof.leafHash.length ++ p.proof.leafHash ++
  u32be p.proof.aunts.length ++ p.proof.aunts.flatMap (fun a => u32be a.length ++ a)

def srcParts (s : PartSet) : List Part := s.parts.filterMap id

def showPart (p : Part) : String :=
  s!"idx={p.index} blen={p.bytes.length} bsha={short p.bytes} ptot={p.proof.total} pidx={p.proof.index} " ++
  s!"leaf={bytesToHex p.proof.leafHash} na={p.proof.aunts.length} aunts#={short (p.proof.aunts.flatMap (fun a => u32be a.length ++ a))}"

def flipAt (b : Bytes) (pos : Nat) (mask : UInt8) : Bytes :=
  if b.isEmpty then [mask] else
  let i := pos % b.length
  b.set i ((b.getD i 0) ^^^ mask)

def splitOnce (s : String) (sep : String) : String × String :=
  match s.splitOn sep with
  | [] => ("", "")
  | [a] => (a, "")
  | a :: rest => (a, sep.intercalate rest)

def nats (s : String) : Option (List Nat) := (s.splitOn ":").mapM parseNat

/-- apply one mutation; `none` = malformed op; inner `none` = nil part -/
def applyMod (src : List Part) (p : Option Part) (m : String) : Option (Option Part) :=
  match p with
  | none => some none
  | some p =>
    let (k, v) := splitOnce m "="
    match k with
    | "nil" => some none
    | "idx" => (parseInt v).map fun x => some { p with index := x }
    | "pidx" => (parseInt v).map fun x => some { p with proof := { p.proof with index := x } }
    | "ptot" => (parseInt v).map fun x => some { p with proof := { p.proof with total := x } }
    | "bytes" => (hexToBytes v).map fun b => some { p with bytes := b }
    | "leaf" => (hexToBytes v).map fun b => some { p with proof := { p.proof with leafHash := b } }
    | "flipb" => match nats v with
      | some [pos, mask] => some (some { p with bytes := flipAt p.bytes pos (UInt8.ofNat mask) })
      | _ => none
    | "flipl" => match nats v with
      | some [pos, mask] => some (some { p with proof := { p.proof with leafHash := flipAt p.proof.leafHash pos (UInt8.ofNat mask) } })
      | _ => none
    | "flipa" => match nats v with
      | some [k, pos, mask] =>
        let au := p.proof.aunts
        let au' := if au.isEmpty then [List.replicate 32 (UInt8.ofNat mask)]
                   else let i := k % au.length; au.set i (flipAt (au.getD i []) pos (UInt8.ofNat mask))
        some (some { p with proof := { p.proof with aunts := au' } })
      | _ => none
    | "releaf" => some (some { p with proof := { p.proof with leafHash := leafHash H p.bytes } })
    | "dropa" => some (some { p with proof := { p.proof with aunts := p.proof.aunts.dropLast } })
    | "adda" => (hexToBytes v).map fun b => some { p with proof := { p.proof with aunts := p.proof.aunts ++ [b] } }
    | "proof" => match parseNat v with
      | some j => (src[j]?).map fun q => some { p with proof := q.proof }
      | none => none
    | "data" => match parseNat v with
      | some j => (src[j]?).map fun q => some { p with bytes := q.bytes }
      | none => none
    | _ => none

def mutated (src : List Part) (i : String) (mods : List String) : Option (Option Part) :=
  match parseNat i with
  | none => none
  | some i =>
    match src[i]? with
    | none => none
    | some p => mods.foldlM (applyMod src) (some p)

def showAdd : AddRes → String
  | .added true => "added:true"
  | .added false => "added:false"
  | .errIndex => "err:index"
  | .errProof => "err:proof"
  | .panicRange => "panic:range"
  | .panicNil => "panic:nil"

def showPanic : Panic → String
  | .nilDeref => "panic:nil"
  | .range => "panic:range"
  | .incomplete => "panic:incomplete"

def bitsStr (bits : List Bool) : String :=
  let s := String.ofList (bits.map fun b => if b then '1' else '0')
  if bits.length ≤ 64 then "bits=" ++ s else "bits#=" ++ short s.toUTF8.toList

def hashStr (b : Bytes) : String := bytesToHex b

def step (st : St) (t : List String) : St × String :=
  match t with
  | ["make", d, ps] =>
    match hexOpt d, parseNat ps with
    | some d, some ps =>
      if ps = 0 then (st, "err:badop") else
      let data := d.getD []
      match fromData H data ps with
      | .error e => ({ src := none, cur := none }, showPanic e)
      | .ok s =>
        let parts := srcParts s
        ({ src := some s, cur := none },
          s!"total={s.total} hash={hashStr s.hash} parts#={short (parts.flatMap serPart)}")
    | _, _ => (st, "err:badop")
  | ["part", i] =>
    match st.src, parseNat i with
    | some s, some i => match (srcParts s)[i]? with
      | some p => (st, showPart p)
      | none => (st, "err:badop")
    | none, some _ => (st, "err:nosrc")
    | _, _ => (st, "err:badop")
  | ["fromheader"] =>
    match st.src with
    | some s => ({ st with cur := some (some (fromHeader s.header)) }, "ok")
    | none => (st, "err:nosrc")
  | ["rawheader", tot, h] =>
    match parseNat tot, hexOpt h with
    | some tot, some h =>
      if tot > 10000 then (st, "err:badop") else
      ({ st with cur := some (some (fromHeader { total := tot, hash := h.getD [] })) }, "ok")
    | _, _ => (st, "err:badop")
  | ["full"] =>
    match st.src with
    | some s => ({ st with cur := some (some s) }, "ok")
    | none => (st, "err:nosrc")
  | ["nilset"] => ({ st with cur := some none }, "ok")
  | "add" :: i :: mods =>
    match st.src, st.cur with
    | some s, some cur =>
      match mutated (srcParts s) i mods with
      | none => (st, "err:badop")
      | some p =>
        let r := addPartNilSet H cur p
        let n := match r.2 with | some c => c.count | none => 0
        ({ st with cur := some r.2 }, s!"{showAdd r.1} n={n}")
    | _, _ => (st, "err:nosrc")
  | "vb" :: i :: mods =>
    match st.src with
    | some s =>
      match mutated (srcParts s) i mods with
      | none => (st, "err:badop")
      | some none => (st, "panic:nil")
      | some (some p) =>
        (st, match p.validateBasic with
          | .ok => "ok" | .negIndex => "err:negindex" | .tooBig => "err:toobig" | .badProof => "err:proof")
    | none => (st, "err:nosrc")
  | ["state"] =>
    match st.cur with
    | none => (st, "err:nosrc")
    | some none => (st, "nil")
    | some (some c) =>
      (st, s!"n={c.count} total={c.total} complete={boolStr c.isComplete} hash={hashStr c.hash} {bitsStr c.bits}")
  | ["header"] =>
    match st.cur with
    | none => (st, "err:nosrc")
    | some none => (st, "total=0 hash=e")
    | some (some c) => (st, s!"total={c.header.total} hash={hashStr c.header.hash}")
  | ["getpart", i] =>
    match st.cur, parseInt i with
    | some (some c), some i =>
      match c.getPart i with
      | none => (st, "panic:range")
      | some none => (st, "-")
      | some (some p) => (st, s!"idx={p.index} blen={p.bytes.length} bsha={short p.bytes}")
    | some none, some _ => (st, "panic:nil")
    | none, some _ => (st, "err:nosrc")
    | _, _ => (st, "err:badop")
  | ["read", chunk] =>
    match st.cur, parseNat chunk with
    | some (some c), some _ =>
      match c.reader with
      | .error e => (st, showPanic e)
      | .ok b => (st, s!"len={b.length} sha={bytesToHex (H b)}")
    | some none, some _ => (st, "panic:nil")
    | none, some _ => (st, "err:nosrc")
    | _, _ => (st, "err:badop")
  -- search support: the concurrency stress only feeds the harness's oracle; the model is sequential
  | "race" :: _ => (st, "raced")
  | _ => (st, "err:badop")

end GnoVerif.Drive.C39

def main : IO Unit := GnoVerif.Kit.loop ({} : GnoVerif.Drive.C39.St) GnoVerif.Drive.C39.step
