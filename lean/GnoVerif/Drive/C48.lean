import GnoVerif.Base.Kit
import GnoVerif.Model.C48
import GnoVerif.Model.C48Compact
/-! Driver for C48: runs the model of `BitArray` / `CompactBitArray` on op lines
over named registers (see harness/cmd/c48/main.go for the op grammar). -/
namespace GnoVerif.Drive.C48
open GnoVerif GnoVerif.Kit GnoVerif.C48

structure St where
  regs : List (String × BitArray) := []
  cregs : List (String × Compact) := []

def St.get (s : St) (r : String) : BitArray := (s.regs.lookup r).getD none
def St.put (s : St) (r : String) (v : BitArray) : St :=
  { s with regs := (r, v) :: s.regs.filter (·.1 ≠ r) }
def St.cget (s : St) (r : String) : Compact := (s.cregs.lookup r).getD none
def St.cput (s : St) (r : String) (v : Compact) : St :=
  { s with cregs := (r, v) :: s.cregs.filter (·.1 ≠ r) }

def hexN (digits n : Nat) : String :=
  String.ofList ((List.range digits).reverse.map fun k => nibble ((n >>> (4 * k)) % 16))

def wordHex (w : Word) : String := hexN 16 w.toNat

def dump : BitArray → String
  | none => "nil"
  | some b => s!"{b.bits}:" ++ ",".intercalate (b.elems.map wordHex)

def toU8 (bs : List Byte) : List UInt8 := bs.map (fun b => UInt8.ofNat b.toNat)
def ofU8 (bs : List UInt8) : List Byte := bs.map (fun b => BitVec.ofNat 8 b.toNat)

def cdump : Compact → String
  | none => "nil"
  | some c => s!"{c.extra.toNat}:" ++ bytesToHex (toU8 c.elems)

def panicStr : Panic → String
  | .nilDeref => "panic:nil"
  | .index => "panic:index"
  | .slice => "panic:slice"

def parseWord (s : String) : Option Word :=
  if s.length ≠ 16 then none else
  s.toList.foldlM (fun (acc : Nat) c => (hexDigit c).map (acc * 16 + ·)) 0 |>.map (BitVec.ofNat 64)

def parseWords (s : String) : Option (List Word) :=
  if s == "e" then some [] else (s.splitOn ",").mapM parseWord

def parseBool (s : String) : Option Bool :=
  if s == "1" then some true else if s == "0" then some false else none

def idxStr (l : List Nat) : String := "[" ++ ",".intercalate (l.map toString) ++ "]"

def binop (s : St) (d : String) (r : Except Panic BitArray) : St × String :=
  match r with
  | .ok v => (s.put d v, dump v)
  | .error p => (s, panicStr p)

def asText (bs : List Byte) : String := String.ofList (bs.map fun b => Char.ofNat b.toNat)

/-- Long outputs are replaced by a prefix, their length and their FNV-1a hash
(the kit cuts lines at 300 characters; same function in the Go harness). -/
def clip (s : String) : String :=
  let bs := s.toUTF8
  if bs.size ≤ 240 then s else
  let h : UInt64 := bs.foldl (fun h b => (h ^^^ b.toUInt64) * 1099511628211) 14695981039346656037
  String.ofList (s.toList.take 48) ++ s!"..#{bs.size}:" ++ hexN 16 h.toNat

def bad (s : St) : St × String := (s, "err:badop")

def step (s : St) (t : List String) : St × String :=
  match t with
  | ["new", r, n] =>
    match parseInt n with
    | some n => let v := newBitArray n; (s.put r v, dump v)
    | none => bad s
  | ["nil", r] => (s.put r none, "nil")
  | ["raw", r, bits, ws] =>
    match parseNat bits, parseWords ws with
    | some bits, some ws => let v : BitArray := some ⟨bits, ws⟩; (s.put r v, dump v)
    | _, _ => bad s
  | ["set", r, i, v] =>
    match parseNat i, parseBool v with
    | some i, some v =>
      let (a, ok) := setIndex (s.get r) i v
      (s.put r a, boolStr ok ++ " " ++ dump a)
    | _, _ => bad s
  | ["get", r, i] =>
    match parseNat i with
    | some i => (s, boolStr (getIndex (s.get r) i))
    | none => bad s
  | ["size", r] => (s, toString (size (s.get r)))
  | ["or", d, a, b] => binop s d (or (s.get a) (s.get b))
  | ["and", d, a, b] => binop s d (and (s.get a) (s.get b))
  | ["sub", d, a, b] => binop s d (sub (s.get a) (s.get b))
  | ["not", d, a] => let v := not (s.get a); (s.put d v, dump v)
  | ["copy", d, a] => let v := copy (s.get a); (s.put d v, dump v)
  | ["update", a, b] => let v := update (s.get a) (s.get b); (s.put a v, dump v)
  | ["isempty", a] => (s, boolStr (isEmpty (s.get a)))
  | ["isfull", a] => (s, boolStr (isFull (s.get a)))
  | ["trueidx", a] => (s, idxStr (trueIndices (s.get a)))
  | ["bytes", a] =>
    match bytes (s.get a) with
    | .ok bs => (s, bytesToHex (toU8 bs))
    | .error p => (s, panicStr p)
  | ["json", a] => (s, asText (marshalJSON (s.get a)))
  | ["unjson", d, h] =>
    match hexToBytes h with
    | some bz =>
      match unmarshalJSON (ofU8 bz) with
      | some b => (s.put d (some b), dump (some b))
      | none => (s, "err:json")
    | none => bad s
  | ["str", a] => (s, toStr (s.get a))
  | ["valid", a] => (s, boolStr (validateBasic (s.get a)))
  | ["dump", a] => (s, dump (s.get a))
  -- CompactBitArray
  | ["cnew", r, n] =>
    match parseInt n with
    | some n => let v := newCompact n; (s.cput r v, cdump v)
    | none => bad s
  | ["cnil", r] => (s.cput r none, "nil")
  | ["craw", r, extra, h] =>
    match parseNat extra, hexToBytes h with
    | some e, some bz =>
      if e < 256 then let v : Compact := some ⟨BitVec.ofNat 8 e, ofU8 bz⟩; (s.cput r v, cdump v) else bad s
    | _, _ => bad s
  | ["cset", r, i, v] =>
    match parseInt i, parseBool v with
    | some i, some v =>
      let (a, ok) := csetIndex (s.cget r) i v
      (s.cput r a, boolStr ok ++ " " ++ cdump a)
    | _, _ => bad s
  | ["cget", r, i] =>
    match parseInt i with
    | some i => (s, boolStr (cgetIndex (s.cget r) i))
    | none => bad s
  | ["csize", r] => (s, toString (csize (s.cget r)))
  | ["cntb", r, i] =>
    match parseInt i with
    | some i => (s, toString (numTrueBitsBefore (s.cget r) i))
    | none => bad s
  | ["ccopy", d, a] => let v := ccopy (s.cget a); (s.cput d v, cdump v)
  | ["cjson", a] => (s, asText (cmarshalJSON (s.cget a)))
  | ["cunjson", d, h] =>
    match hexToBytes h with
    | some bz =>
      match cunmarshalJSON (ofU8 bz) with
      | .ok c => (s.cput d (some c), cdump (some c))
      | .err => (s, "err:json")
      | .panic p => (s, panicStr p)
    | none => bad s
  | ["cmarshal", a] => (s, bytesToHex (toU8 (compactMarshal (s.cget a))))
  | ["cunmarshal", d, h] =>
    match hexToBytes h with
    | some bz =>
      match compactUnmarshal (ofU8 bz) with
      | .ok c => (s.cput d c, cdump c)
      | .err => (s, "err:size")
      | .panic p => (s, panicStr p)
    | none => bad s
  | ["cstr", a] => (s, ctoStr (s.cget a))
  | ["cdump", a] => (s, cdump (s.cget a))
  | _ => bad s

end GnoVerif.Drive.C48

def main : IO Unit :=
  GnoVerif.Kit.loop ({} : GnoVerif.Drive.C48.St)
    (fun s t => let r := GnoVerif.Drive.C48.step s t; (r.1, GnoVerif.Drive.C48.clip r.2))
