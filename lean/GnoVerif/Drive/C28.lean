import GnoVerif.Base.Kit
import GnoVerif.Model.C28
/-!
Driver for C28.  Each op line of the forced-schedule protocol (see
harness/cmd/c28/main.go) is translated into the sequence of MODEL EVENTS it
stands for, and the events are fed to the model's `step` — the acceptor: an
event that `step` refuses makes the line answer `err:model`, which the real
run never prints.  The answer is what the model says the real run observes
(version, pinned snapshot, header height, read values, closes, the next yield
point of the commit goroutine), so equality with the harness line means the
logged real trace is a trace of the model.
-/
namespace GnoVerif.Drive.C28
open GnoVerif GnoVerif.Kit GnoVerif.C28

inductive SOp
  | r (k : Key) | w (k : Key) (v : Nat) | p | f

/-- `^(0|[1-9][0-9]{0,5})$` -/
def num (s : String) : Option Nat :=
  let cs := s.toList
  if cs.isEmpty ∨ cs.length > 6 then none
  else if ¬ cs.all Char.isDigit then none
  else if cs.length > 1 ∧ cs.head? = some '0' then none
  else s.toNat?

def nStores := 3
def nKeys := 8

def parseStep (tx : Bool) (p : String) : Option SOp :=
  match p.splitOn "." with
  | ["r", s, k] =>
    match num s, num k with
    | some s, some k => if s < nStores ∧ k < nKeys then some (.r (s, k)) else none
    | _, _ => none
  | ["w", s, k, v] =>
    match num s, num k, num v with
    | some s, some k, some v => if s < nStores ∧ k < nKeys then some (.w (s, k) v) else none
    | _, _, _ => none
  | ["p"] => if tx then none else some .p
  | ["f"] => if tx then some .f else none
  | _ => none

def parseScript (tx : Bool) (s : String) : Option (List SOp) :=
  if s == "-" then some [] else (s.splitOn ",").mapM (parseStep tx)

def usesStore (ns : Nat) : List SOp → Bool
  | [] => false
  | .r k :: r => ns ≤ k.1 || usesStore ns r
  | .w k _ :: r => ns ≤ k.1 || usesStore ns r
  | _ :: r => usesStore ns r

def toTxOps : List SOp → List TxOp
  | [] => []
  | .r k :: r => .r k :: toTxOps r
  | .w k v :: r => .w k v :: toTxOps r
  | .f :: r => .f :: toTxOps r
  | .p :: r => toTxOps r

structure D where
  st : State
  ns : Nat
  paused : List (Nat × List SOp)     -- queries parked at a `p`, with the rest of their script
  blocked : List (Nat × List SOp)    -- queries started by qblk, waiting on snapshotMu

def showVal : Option Nat → String
  | none => "-"
  | some v => toString v

def showVals (vs : List (Option Nat)) : String :=
  if vs.isEmpty then "-" else ",".intercalate (vs.map showVal)

def snapTag (s : State) (i : Nat) : Nat := match s.qs.snaps[i]? with
  | some sn => sn.content.latest
  | none => 0

def isClosed (s : State) (i : Nat) : Bool := match s.qs.snaps[i]? with
  | some sn => sn.closed
  | none => false

/-- apply events; none = the model refuses one of them. -/
def feed (s : State) (es : List Ev) : Option State := run s es

/-- run a query script up to the next `p` / its end (then release). -/
def runScript (s : State) (id : Nat) : List SOp → Option (State × Option (List SOp))
  | [] => (step s (.q (.release id))).map (fun s' => (s', none))
  | .p :: r => some (s, some r)
  | .r k :: r => (step s (.q (.read id k))).bind (fun s' => runScript s' id r)
  | .w k v :: r => (step s (.q (.write id k v))).bind (fun s' => runScript s' id r)
  | .f :: r => runScript s id r

/-- the snapshot was observed (it served at least one Get) iff the load read it (version >= 1,
or an iavl store is mounted) or a base-store read missed the query's own cache. -/
def snapSeen (c : Cons) (q : Query) : Bool :=
  decide (1 ≤ q.ver) || c.hasIavl || q.reads.any (fun r => !r.own && !isVersioned r.key)

def progress (before after : State) (id : Nat) (nPrinted : Nat) (status : String) : String :=
  match findQ after.qs.queries id with
  | none => "err:model"
  | some q =>
    let snap := match q.snap with
      | some i => if snapSeen after.cons q then toString (snapTag after i) else "-"
      | none => "-"
    let close := match q.snap with
      | some i => if isClosed after i && !isClosed before i then s!" close={snapTag after i}" else ""
      | none => ""
    if q.status = .failed then s!"err:load s={snap}{close}"
    else s!"v={q.ver} s={snap} h={q.hdr} r={showVals ((q.reads.drop nPrinted).map (·.val))} {status}{close}"

def nReads (s : State) (id : Nat) : Nat := match findQ s.qs.queries id with
  | some q => q.reads.length
  | none => 0

/-- continue a query: `start` = it still has to acquire (and, custom query, read the header);
then its script up to the next `p` / its end.  Returns the new D and the progress text. -/
def advance (d : D) (id : Nat) (start : Bool) (script : List SOp) : D × String :=
  let before := d.st
  let n := nReads before id
  let s1? : Option State := if start then step before (.q (.acquire id)) else some before
  match s1? with
  | none => (d, "err:model")
  | some s1 =>
    match findQ s1.qs.queries id with
    | none => (d, "err:model")
    | some q =>
      if q.status = .failed then ({ d with st := s1 }, progress before s1 id n "")
      else
        let s2? : Option State := if start && !q.sim then step s1 (.q (.hdr id)) else some s1
        match s2? with
        | none => (d, "err:model")
        | some s2 =>
          match runScript s2 id script with
          | none => (d, "err:model")
          | some (s3, none) => ({ d with st := s3 }, progress before s3 id n "done")
          | some (s3, some rest) => ({ d with st := s3, paused := (id, rest) :: d.paused }, progress before s3 id n "paused")

def atName : Phase → String
  | .flushed => "W0" | .drained => "W1" | .snapped => "S1" | .swapped => "X" | .published => "L"
  | _ => ""

def committing (p : Phase) : Bool := atName p != ""

def validK (s : String) : Bool := s == "all" || (match num s with | some k => k ≤ 1000 | none => false)

def insertSorted (x : Nat × List SOp) : List (Nat × List SOp) → List (Nat × List SOp)
  | [] => [x]
  | y :: r => if x.1 < y.1 then x :: y :: r else y :: insertSorted x r

def doInit (k ns : String) : Option D :=
  let keepAll := k == "all"
  let keep := (num k).getD 0
  some { st := State.init keepAll keep (ns == "3"), ns := if ns == "3" then 3 else 2, paused := [], blocked := [] }

def stepOp (od : Option D) (t : List String) : Option D × String :=
  match t with
  | ["init", k, ns] =>
    if (ns == "2" || ns == "3") && validK k then (doInit k ns, "ok") else (od, "err:badop")
  | ["hammer", seed, blocks, nq, procs, mode, k] =>
    match num seed, num blocks, num nq, num procs with
    | some _, some b, some q, some p =>
      if (mode == "conn" || mode == "direct") && validK k && 1 ≤ b && b ≤ 100000 && 1 ≤ q && q ≤ 64 && 1 ≤ p && p ≤ 64
      then (od, s!"hammered blocks={b}") else (od, "err:badop")
    | _, _, _, _ => (od, "err:badop")
  | [op] =>
    if op ∉ ["begin", "end", "commit", "cstart", "cstep"] then (od, "err:badop") else
    match od with
    | none => (od, "err:noapp")
    | some d =>
      let s := d.st
      let ph := s.cons.phase
      match op with
      | "begin" =>
        match feed s [.c .begin] with
        | some s' => (some { d with st := s' }, s!"ok h={s'.cons.height}")
        | none => (od, "err:order")
      | "end" =>
        match feed s [.c .endBlock] with
        | some s' => (some { d with st := s' }, "ok")
        | none => (od, "err:order")
      | "commit" =>
        if ph ≠ .ended then (od, "err:order") else
        match feed s [.c .flush, .c .drain, .c .snap, .c .swap, .c .publishCid, .c .publishHdr] with
        | some s' => (some { d with st := s' }, s!"v={s'.cons.cid} same")
        | none => (od, "err:model")
      | "cstart" =>
        if ph ≠ .ended then (od, "err:order") else
        match feed s [.c .flush] with
        | some s' => (some { d with st := s' }, "at=W0")
        | none => (od, "err:model")
      | _ => -- cstep
        if !committing ph then (od, "err:order") else
        match ph with
        | .flushed => match feed s [.c .drain] with
          | some s' => (some { d with st := s' }, "at=W1")
          | none => (od, "err:model")
        | .drained => match feed s [.c .snap] with
          | some s' => (some { d with st := s' }, "at=S1")
          | none => (od, "err:model")
        | .snapped =>
          match feed s [.c .swap] with
          | none => (od, "err:model")
          | some s1 =>
            -- the old snapshot is closed inside the critical section iff the store's own reference was the last
            let oldClosed := match s.qs.cur with
              | some i => isClosed s1 i && !isClosed s i
              | none => false
            if oldClosed then (some { d with st := s1 }, "at=X")
            else match feed s1 [.c .publishCid] with
              | some s2 => (some { d with st := s2 }, "at=L")
              | none => (od, "err:model")
        | .swapped =>
          match feed s [.c .publishCid] with
          | none => (od, "err:model")
          | some s1 =>
            -- the queries blocked on snapshotMu go on, in id order
            let (d', out) := d.blocked.foldl (fun (acc : D × String) (b : Nat × List SOp) =>
                let (dd, o) := acc
                let (dd', txt) := advance dd b.1 true b.2
                (dd', o ++ s!" | q{b.1} {txt}"))
              ({ d with st := s1, blocked := [] }, "at=L")
            (some d', out)
        | _ => -- published
          match feed s [.c .publishHdr] with
          | some s' => (some { d with st := s' }, s!"done v={s'.cons.cid} same")
          | none => (od, "err:model")
  | ["tx", sc] =>
    match parseScript true sc with
    | none => (od, "err:badop")
    | some ops =>
      match od with
      | none => (od, "err:noapp")
      | some d =>
        if usesStore d.ns ops then (od, "err:nostore") else
        match feed d.st [.c (.tx (toTxOps ops))] with
        | none => (od, "err:order")
        | some s' =>
          match s'.cons.results.getLast? with
          | some (.tx ok rs) => (some { d with st := s' }, (if ok then "ok:" else "err:") ++ showVals rs)
          | _ => (od, "err:model")
  | ["qstep", ids] =>
    match num ids with
    | none => (od, "err:badop")
    | some id =>
      if id ≥ 100 then (od, "err:badop") else
      match od with
      | none => (od, "err:noapp")
      | some d =>
        if (findQ d.st.qs.queries id).isNone then (od, "err:noq") else
        match d.paused.find? (fun p => p.1 == id) with
        | none => (od, "err:notpaused")
        | some (_, rest) =>
          let d1 := { d with paused := d.paused.filter (fun p => p.1 != id) }
          let (d2, txt) := advance d1 id false rest
          (some d2, txt)
  | [op, ids, kind, hs, sc] =>
    if op ≠ "q" ∧ op ≠ "qblk" then (od, "err:badop") else
    if kind ≠ "c" ∧ kind ≠ "s" then (od, "err:badop") else
    match num ids, num hs, parseScript false sc with
    | some id, some h, some script =>
      let sim := kind == "s"
      if id ≥ 100 || (sim && h != 0) then (od, "err:badop") else
      match od with
      | none => (od, "err:noapp")
      | some d =>
        if usesStore d.ns script then (od, "err:nostore") else
        let s := d.st
        if (findQ s.qs.queries id).isSome then (od, "err:dup") else
        -- parked at X = inside refreshQuerySnapshot's critical section
        let atX := s.cons.phase = .swapped
        if op == "qblk" && !atX then (od, "err:order") else
        if op == "q" && atX then (od, "err:order") else
        if sim && s.cons.hdr < 1 then (od, "err:early") else
        match feed s [.q (.height id sim h)] with
        | none => (od, "err:model")
        | some s1 =>
          if op == "qblk" then (some { d with st := s1, blocked := insertSorted (id, script) d.blocked }, "blocked")
          else
            let (d2, txt) := advance { d with st := s1 } id true script
            (some d2, txt)
    | _, _, _ => (od, "err:badop")
  | _ => (od, "err:badop")

end GnoVerif.Drive.C28

/-- the harness kit cuts every answer at 300 bytes (all output is ASCII). -/
def GnoVerif.Drive.C28.stepCut (od : Option GnoVerif.Drive.C28.D) (t : List String) :
    Option GnoVerif.Drive.C28.D × String :=
  let (d, out) := GnoVerif.Drive.C28.stepOp od t
  (d, if out.length > 300 then String.ofList (out.toList.take 300) else out)

def main : IO Unit := GnoVerif.Kit.loop (none : Option GnoVerif.Drive.C28.D) GnoVerif.Drive.C28.stepCut
