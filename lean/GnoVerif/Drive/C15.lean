import GnoVerif.Base.Kit
import GnoVerif.Model.C15Sym
/-! Driver for C15: runs the ante/deliver model with the symbolic signature
    scheme on op lines (grammar: harness/cmd/c15/main.go).  Parsing is strict
    and mirrors the harness; `@` references are resolved against the current
    model state exactly as the harness resolves them against the real store. -/
namespace GnoVerif.Drive.C15
open GnoVerif GnoVerif.Kit GnoVerif.C15 GnoVerif.C15.Sym

def t0 : Int := 1700000000

structure DState where
  cfg : Config
  st : State Nat
  txs : Array (Tx Nat SSig)

def mkCfg (verifyGenesis : Bool) (maxGas : Int) : Config :=
  { chain := 0, collector := 90, maxGas := maxGas, sigLimit := 7, maxMemo := 65536,
    verifyGenesis := verifyGenesis, smallGas := 500 }

def fresh (verifyGenesis : Bool) (maxGas : Int) : DState :=
  { cfg := mkCfg verifyGenesis maxGas, st := init t0, txs := #[] }

def initD : DState := fresh true 1000000000000000

/-! ### tokens -/

def splitC (c : Char) (s : String) : List String := s.splitOn (String.singleton c)

def pNat (s : String) : Option Nat :=
  let cs := s.toList
  if cs.isEmpty ∨ cs.length > 18 ∨ ¬ cs.all Char.isDigit then none
  else some (cs.foldl (fun a c => a * 10 + (c.toNat - '0'.toNat)) 0)

def pInt (s : String) : Option Int :=
  match s.toList with
  | '-' :: r => (pNat (String.ofList r)).map fun n => - (n : Int)
  | _ => (pNat s).map Int.ofNat

def pBool (s : String) : Option Bool :=
  if s == "1" then some true else if s == "0" then some false else none

def validAddr (a : Nat) : Bool := a < ringSize || (90 ≤ a && a ≤ 93)

def pAddr (s : String) : Option Nat := do
  let a ← pNat s
  if validAddr a then some a else none

def pKey (s : String) : Option Nat := do
  let a ← pNat s
  if a < ringSize then some a else none

def pOpt {α : Type} (p : String → Option α) (s : String) : Option (Option α) :=
  if s == "-" then some none else (p s).map some

def pList {α : Type} (sep : Char) (p : String → Option α) (s : String) : Option (List α) :=
  if s == "-" then some [] else (splitC sep s).mapM p

def addrUniverse : List Nat := (List.range ringSize) ++ [90, 91, 92, 93]

/-- `@`, `@+k`, `@-k` (floored at 0) or a literal. -/
def pRef (s : String) : Option (Nat → Nat) :=
  match s.toList with
  | ['@'] => some id
  | '@' :: '+' :: r => (pNat (String.ofList r)).map fun k => fun c => c + k
  | '@' :: '-' :: r => (pNat (String.ofList r)).map fun k => fun c => c - k
  | _ => (pNat s).map fun n => fun _ => n

def isLeafKey (k : Nat) : Bool :=
  match ring k with
  | .ed | .secp | .mock => true
  | _ => false

/-! ### messages, fee -/

def pTime (now : Int) (s : String) : Option Int :=
  match s.toList with
  | 't' :: r => (pInt (String.ofList r)).map fun k => now + k
  | _ => pInt s

def pMsg (now : Int) (s : String) : Option (Msg Nat) :=
  match splitC ':' s with
  | ["n", ss, tag, fl] => do
    let ss ← pList ',' pAddr ss
    let tag ← pNat tag
    let fl ← pBool fl
    if tag > 7 then none else some (.note ss tag fl)
  | ["c", c, k, exp, lim, per] => do
    let c ← pAddr c
    let k ← pKey k
    let exp ← pTime now exp
    let lim ← pOpt pNat lim
    let per ← pInt per
    if lim == some 0 then none else some (.createSession c k exp lim per)
  | ["r", c, k] => do
    let c ← pAddr c
    let k ← pKey k
    some (.revokeSession c k)
  | ["R", c] => do
    let c ← pAddr c
    some (.revokeAll c)
  | _ => none

def pFee (s : String) : Option Fee :=
  match s.toList with
  | ['-'] => some .empty
  | 'u' :: r => (pNat (String.ofList r)).map fun a => .coin true a
  | 'o' :: r => (pNat (String.ofList r)).map fun a => .coin false a
  | _ => none

def pGas (s : String) : Option Int := do
  let g ← pInt s
  if g < 500 ∨ g ≥ 10000000000 then some g else none

def digits (n : Nat) : Nat := (Nat.toDigits 10 n).length

def pMemo (s : String) : Option ((Nat × Nat) × Nat) :=
  match splitC ':' s with
  | [a, b] => do
    let id ← pNat a
    let pad ← pNat b
    if pad > 70000 then none else some ((id, pad), 1 + digits id + pad)
  | _ => none

/-! ### signatures -/

structure SigCtx where
  chain : Nat
  body : Body Nat
  accNum : Nat
  seq : Nat

def pBodyVar (b : Body Nat) (s : String) : Option (Body Nat) :=
  match s.toList with
  | ['='] => some b
  | 'v' :: r => (pNat (String.ofList r)).map fun id => { b with memo := (id, b.memo.2) }
  | _ => none

def pBits (s : String) : Option (List Bool) :=
  s.toList.mapM fun c => if c == '1' then some true else if c == '0' then some false else none

def pMany (p : List String → Option (SSig × List String)) :
    Nat → List String → List SSig → Option (List SSig × List String)
  | 0, ts, acc => some (acc.reverse, ts)
  | m + 1, ts, acc =>
    match p ts with
    | none => none
    | some (s, ts') => pMany p m ts' (s :: acc)

/-- Polish notation over `,`-separated tokens; `fuel` bounds the nesting. -/
def pSigSpec (c : SigCtx) : Nat → List String → Option (SSig × List String)
  | 0, _ => none
  | _, [] => none
  | f + 1, t :: rest =>
    match t.toList with
    | ['J'] => some (.junk, rest)
    | 'L' :: r =>
      match splitC '.' (String.ofList r) with
      | [k, ch, an, sq, bd, ok] => do
        let k ← pKey k
        let ch ← pNat ch
        let an ← pRef an
        let sq ← pRef sq
        let bd ← pBodyVar c.body bd
        let ok ← pBool ok
        if ¬ isLeafKey k ∨ ch > 1 then none
        else some (.leaf k { chain := if ch = 0 then c.chain else 1, accNum := an c.accNum, seq := sq c.seq, body := bd } ok, rest)
      | _ => none
    | 'M' :: r =>
      match splitC ':' (String.ofList r) with
      | [bits, n] => do
        let bits ← pBits bits
        let n ← pNat n
        if n > 8 ∨ bits.length > 8 then none else
        let (sigs, rest') ← pMany (pSigSpec c f) n rest []
        some (.multi bits sigs, rest')
      | _ => none
    | _ => none

/-- the account (or session) whose number and sequence `@` refers to -/
def curNums (st : State Nat) (a : Option Nat) (sess : Option Nat) : Nat × Nat :=
  if st.height = 0 then (0, 0) else
  match a with
  | none => (0, 0)
  | some a =>
    match sess with
    | some k =>
      match st.sessions a k with
      | some ss => (ss.accNum, ss.seq)
      | none => (0, 0)
    | none =>
      match st.accounts a with
      | some acc => (acc.accNum, acc.seq)
      | none => (0, 0)

def pSig (d : DState) (body : Body Nat) (signer : Option Nat) (s : String) : Option (Sig Nat SSig) :=
  match splitC '/' s with
  | [pk, sess, spec] => do
    let pk ← pOpt pKey pk
    let sess ← pOpt pKey sess
    let (an, sq) := curNums d.st signer sess
    let toks := splitC ',' spec
    let (sg, rest) ← pSigSpec { chain := d.cfg.chain, body := body, accNum := an, seq := sq } 4 toks
    if rest.isEmpty then some { pubKey := pk, sig := sg, session := sess } else none
  | _ => none

def pSigs (d : DState) (body : Body Nat) (signers : List Nat) : Nat → List String → Option (List (Sig Nat SSig))
  | _, [] => some []
  | i, s :: rest => do
    let g ← pSig d body signers[i]? s
    let gs ← pSigs d body signers (i + 1) rest
    some (g :: gs)

def pTx (d : DState) (g f m ms ss : String) : Option (Tx Nat SSig) := do
  let g ← pGas g
  let f ← pFee f
  let (memo, memoLen) ← pMemo m
  let msgs ← pList ';' (pMsg d.st.time) ms
  if msgs.length > 8 then none else
  let tx0 : Tx Nat SSig := { msgs := msgs, gasWanted := g, fee := f, sigs := [], memo := memo, memoLen := memoLen }
  let sigToks := if ss == "-" then [] else splitC ';' ss
  if sigToks.length > 10 then none else
  let sigs ← pSigs d tx0.body (signersOf msgs) 0 sigToks
  some { tx0 with sigs := sigs }

/-! ### output -/

def errStr : Err → String
  | .unknownRequest => "unknownrequest" | .invalidGasWanted => "invalidgaswanted"
  | .tooManySigs => "toomanysigs" | .gasOverflow => "gasoverflow"
  | .insufficientFee => "insufficientfee" | .noSignatures => "nosignatures"
  | .unauthorized => "unauthorized" | .outOfGas => "outofgas" | .memoTooLarge => "memotoolarge"
  | .unknownAddress => "unknownaddress" | .sessionExpired => "sessionexpired"
  | .sessionNotAllowed => "sessionnotallowed" | .insufficientFunds => "insufficientfunds"
  | .invalidPubKey => "invalidpubkey" | .internal => "internal" | .sessionNotFound => "sessionnotfound"

def resStr : Res → String
  | .ok => "ok"
  | .rejected e => "err:" ++ errStr e
  | .failed e => "err:" ++ errStr e

def optNat : Option Nat → String
  | none => "-"
  | some n => toString n

def dump (s : State Nat) : String :=
  let accs := addrUniverse.filterMap fun a =>
    (s.accounts a).map fun acc => s!"A{a}={acc.accNum}.{acc.seq}.{optNat acc.pubKey}.{acc.coins}"
  let sess := addrUniverse.flatMap fun a => (List.range ringSize).filterMap fun k =>
    (s.sessions a k).map fun ss =>
      s!"S{a}.{k}={ss.accNum}.{ss.seq}.{optNat ss.pubKey}.{ss.expiresAt}.{optNat ss.limit}.{ss.period}.{ss.used}.{ss.reset}"
  let notes := (List.range 8).filterMap fun t =>
    if s.notes t = 0 then none else some s!"N{t}={s.notes t}"
  " ".intercalate ([s!"h={s.height} t={s.time} n={s.nextAccNum}"] ++ accs ++ sess ++ notes)

/-- FNV-1a, 64 bit, over the UTF-8 bytes (the lines are ASCII). -/
def fnv64 (s : String) : UInt64 :=
  s.toUTF8.foldl (fun h b => (h ^^^ b.toUInt64) * 1099511628211) 14695981039346656037

def hex64 (x : UInt64) : String :=
  String.ofList ((List.range 16).map fun i => nibble ((x >>> (UInt64.ofNat (60 - 4 * i))).toNat % 16))

/-- the kit cuts output lines at 300 characters: long lines keep their first
    200 characters and end in a checksum of the whole line. -/
def clip (s : String) : String :=
  if s.length ≤ 250 then s else String.ofList (s.toList.take 200) ++ " #" ++ hex64 (fnv64 s)

def fin (r : String) (d : DState) : DState × String := (d, clip (r ++ " | " ++ dump d.st))

def doTx (d : DState) (tx : Tx Nat SSig) : DState × String :=
  let (st', r) := deliver crypto d.cfg d.st tx
  fin (resStr r) { d with st := st' }

def validMaxGas (g : Int) : Bool := g == -1 || (0 ≤ g && g < 500) || g ≥ 1000000000000

def step (d : DState) (t : List String) : DState × String :=
  let bad := (d, "err:badop")
  match t with
  | ["cfg", v, g] =>
    match pBool v, pInt g with
    | some v, some g => if validMaxGas g then fin "ok" (fresh v g) else bad
    | _, _ => bad
  | ["fund", a, amt] =>
    match pAddr a, pNat amt with
    | some a, some amt => if amt = 0 then bad else fin "ok" { d with st := credit d.st a amt }
    | _, _ => bad
  | ["block", dt] =>
    match pNat dt with
    | some dt => if dt > 1000000000 then bad else fin "ok" { d with st := beginBlock d.st dt }
    | none => bad
  | ["tx", g, f, m, ms, ss] =>
    match pTx d g f m ms ss with
    | some tx => doTx { d with txs := d.txs.push tx } tx
    | none => bad
  | ["replay", k] =>
    match pNat k with
    | some k =>
      match d.txs[k]? with
      | some tx => doTx d tx
      | none => bad
    | none => bad
  | ["raw", k, pos, x] =>
    match pNat k, pNat pos, pNat x with
    | some k, some _, some x => if k < d.txs.size ∧ 1 ≤ x ∧ x ≤ 255 then (d, "raw") else bad
    | _, _, _ => bad
  | _ => bad

end GnoVerif.Drive.C15

def main : IO Unit := GnoVerif.Kit.loop GnoVerif.Drive.C15.initD GnoVerif.Drive.C15.step
