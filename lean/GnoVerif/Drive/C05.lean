import GnoVerif.Base.Kit
import GnoVerif.Gen.C05
import GnoVerif.Spec.C05
/-! Driver for C05: runs the GENERATED model of gnovm's softfloat package on op lines.

Protocol (see harness/cmd/c05/main.go): `<GoFunctionName> <hex> …` — every argument
is the bit pattern of the Go argument as fixed-width lowercase hex (16 digits for
64-bit types and `int`, 8 digits for 32-bit types).  Results: hex bit patterns,
`true`/`false`, tuples joined by `:`; a Go run-time panic is `panic:divzero`.

Besides printing the model's result, the driver evaluates the REFERENCE semantics of
Spec/C05.lean (`rnd (val a ∘ val b)`, exact rational arithmetic, round-to-nearest-even)
for every arithmetic / conversion line whose operands are finite, and prints
`specdiff:<model>:<reference>` instead of the result if the two differ — so the
correspondence run also ties the rational-arithmetic statement `ieee754_statement`
to the model and, through the model, to the real code.

`sweep <fn> <start> <count> <stride>` and `exh32 <fn> <shard> <nshards> <stride>`
print the FNV-style checksum of the unary function `fn` over the arguments
`start + i*stride` (32-bit wrap-around), so that millions of evaluations cost one line.
-/
namespace GnoVerif.Drive.C05
open GnoVerif GnoVerif.Kit GnoVerif.Gen.C05 GnoVerif.C05

/-! ### reference semantics (Spec/C05.lean) next to the model -/

def fin64 (f : BitVec 64) : Bool := decide (isFinite64 f)
def fin32 (f : BitVec 32) : Bool := decide (isFinite32 f)
def zero64 (f : BitVec 64) : Bool := decide (isZero64 f)
def zero32 (f : BitVec 32) : Bool := decide (isZero32 f)

/-- `none` = the reference semantics has nothing to say for these operands -/
def refArith64 (op : String) (a b : BitVec 64) : Option (BitVec 64) :=
  if !(fin64 a && fin64 b) then none else
  match op with
  | "add" | "sub" =>
    let x := if op == "add" then val64 a + val64 b else val64 a - val64 b
    if x != 0 then some (rnd64 x) else if zero64 a && zero64 b then none else some 0#64
  | "mul" => if zero64 a || zero64 b then none else some (rnd64 (val64 a * val64 b))
  | "div" => if zero64 a || zero64 b then none else some (rnd64 (val64 a / val64 b))
  | _ => none

def refArith32 (op : String) (a b : BitVec 32) : Option (BitVec 32) :=
  if !(fin32 a && fin32 b) then none else
  match op with
  | "add" | "sub" =>
    let x := if op == "add" then val32 a + val32 b else val32 a - val32 b
    if x != 0 then some (rnd32 x) else if zero32 a && zero32 b then none else some 0#32
  | "mul" => if zero32 a || zero32 b then none else some (rnd32 (val32 a * val32 b))
  | "div" => if zero32 a || zero32 b then none else some (rnd32 (val32 a / val32 b))
  | _ => none

def withRef {w : Nat} (h : BitVec w → String) (model : BitVec w) (ref : Option (BitVec w)) : String :=
  match ref with
  | some r => if r == model then h model else s!"specdiff:{h model}:{h r}"
  | none => h model

/-- float → integer reference: truncation, when it fits `lo ≤ t < hi` -/
def refTrunc (w : Nat) (x : Rat) (lo hi : Int) : Option (BitVec w) :=
  let t := truncRat x
  if lo ≤ t && t < hi then some (BitVec.ofInt w t) else none

def p63 : Int := 9223372036854775808
def p31 : Int := 2147483648
def p64 : Int := 18446744073709551616

def parseHex (s : String) : Option Nat :=
  if s.isEmpty then none else
  s.toList.foldl (fun acc c => match acc, hexDigit c with
    | some a, some d => some (a * 16 + d)
    | _, _ => none) (some 0)

/-- exactly `w/4` hex digits → BitVec w -/
def bv (w : Nat) (s : String) : Option (BitVec w) :=
  if s.length != w / 4 then none else (parseHex s).map (BitVec.ofNat w)

def hexN (digits n : Nat) : String :=
  String.ofList ((List.range digits).reverse.map fun i => nibble ((n >>> (4 * i)) % 16))

def h64 (x : BitVec 64) : String := hexN 16 x.toNat
def h32 (x : BitVec 32) : String := hexN 8 x.toNat

def showE {α} (f : α → String) : Except String α → String
  | .ok v => f v
  | .error _ => "panic:divzero"

def un32 (f : BitVec 32 → String) : List String → String
  | [a] => match bv 32 a with | some x => f x | none => "err:badop"
  | _ => "err:badop"
def un64 (f : BitVec 64 → String) : List String → String
  | [a] => match bv 64 a with | some x => f x | none => "err:badop"
  | _ => "err:badop"
def bin32 (f : BitVec 32 → BitVec 32 → String) : List String → String
  | [a, b] => match bv 32 a, bv 32 b with | some x, some y => f x y | _, _ => "err:badop"
  | _ => "err:badop"
def bin64 (f : BitVec 64 → BitVec 64 → String) : List String → String
  | [a, b] => match bv 64 a, bv 64 b with | some x, some y => f x y | _, _ => "err:badop"
  | _ => "err:badop"

def showUnpack64 (r : BitVec 64 × BitVec 64 × BitVec 64 × Bool × Bool) : String :=
  s!"{h64 r.1}:{h64 r.2.1}:{h64 r.2.2.1}:{boolStr r.2.2.2.1}:{boolStr r.2.2.2.2}"
def showUnpack32 (r : BitVec 32 × BitVec 32 × BitVec 64 × Bool × Bool) : String :=
  s!"{h32 r.1}:{h32 r.2.1}:{h64 r.2.2.1}:{boolStr r.2.2.2.1}:{boolStr r.2.2.2.2}"

/-- unary functions on 32-bit arguments usable in `sweep` / `exh32`; result as a Nat -/
def unary32 : String → Option (BitVec 32 → Nat)
  | "Fneg32" => some fun x => (Fneg32 x).toNat
  | "F32to64" => some fun x => (F32to64 x).toNat
  | "F32toint32" => some fun x => (F32toint32 x).toNat
  | "F32toint64" => some fun x => (F32toint64 x).toNat
  | "F32touint64" => some fun x => (F32touint64 x).toNat
  | "Fint32to32" => some fun x => (Fint32to32 x).toNat
  | "Fint32to64" => some fun x => (Fint32to64 x).toNat
  | "F32to64to32" => some fun x => (F64to32 (F32to64 x)).toNat
  | _ => none

def fnvStep (h v : Nat) : Nat := ((h ^^^ v) * 1099511628211) % 18446744073709551616

def sweep32 (f : BitVec 32 → Nat) (start count stride : Nat) : Nat := Id.run do
  let mut h := 14695981039346656037
  let mut x := start % 4294967296
  for _ in [0:count] do
    h := fnvStep h (f (BitVec.ofNat 32 x))
    x := (x + stride) % 4294967296
  return h

def maxSweep : Nat := 1 <<< 24

/-- operations the harness can also route through the GnoVM (`vm <fn> …`) -/
def vmOps : List String :=
  ["Fadd64", "Fsub64", "Fmul64", "Fdiv64", "Fneg64", "Feq64", "Fgt64", "Fge64", "Flt64", "Fle64",
   "Fadd32", "Fsub32", "Fmul32", "Fdiv32", "Fneg32", "Feq32", "Fgt32", "Fge32", "Flt32", "Fle32",
   "F64to32", "F32to64", "Fintto64", "Fintto32", "Fint64to64", "Fint64to32", "Fint32to64", "Fint32to32", "Fuint64to64", "Fuint64to32",
   "F64toint64", "F64toint32", "F64touint64", "F32toint64", "F32toint32", "F32touint64"]

def run (fn : String) (args : List String) : String :=
  match fn with
  | "Fadd64" => bin64 (fun a b => withRef h64 (Fadd64 a b) (refArith64 "add" a b)) args
  | "Fsub64" => bin64 (fun a b => withRef h64 (Fsub64 a b) (refArith64 "sub" a b)) args
  | "Fmul64" => bin64 (fun a b => withRef h64 (Fmul64 a b) (refArith64 "mul" a b)) args
  | "Fdiv64" => bin64 (fun a b => showE (fun r => withRef h64 r (refArith64 "div" a b)) (Fdiv64 a b)) args
  | "Fneg64" => un64 (fun a => h64 (Fneg64 a)) args
  | "Feq64" => bin64 (fun a b => boolStr (Feq64 a b)) args
  | "Fgt64" => bin64 (fun a b => boolStr (Fgt64 a b)) args
  | "Fge64" => bin64 (fun a b => boolStr (Fge64 a b)) args
  | "Flt64" => bin64 (fun a b => boolStr (Flt64 a b)) args
  | "Fle64" => bin64 (fun a b => boolStr (Fle64 a b)) args
  | "Fcmp64" => bin64 (fun a b => let r := Fcmp64 a b; s!"{h32 r.1}:{boolStr r.2}") args
  | "Fadd32" => bin32 (fun a b => withRef h32 (Fadd32 a b) (refArith32 "add" a b)) args
  | "Fsub32" => bin32 (fun a b => withRef h32 (Fsub32 a b) (refArith32 "sub" a b)) args
  | "Fmul32" => bin32 (fun a b => withRef h32 (Fmul32 a b) (refArith32 "mul" a b)) args
  | "Fdiv32" => bin32 (fun a b => showE (fun r => withRef h32 r (refArith32 "div" a b)) (Fdiv32 a b)) args
  | "Fneg32" => un32 (fun a => h32 (Fneg32 a)) args
  | "Feq32" => bin32 (fun a b => boolStr (Feq32 a b)) args
  | "Fgt32" => bin32 (fun a b => boolStr (Fgt32 a b)) args
  | "Fge32" => bin32 (fun a b => boolStr (Fge32 a b)) args
  | "Flt32" => bin32 (fun a b => boolStr (Flt32 a b)) args
  | "Fle32" => bin32 (fun a b => boolStr (Fle32 a b)) args
  | "Fintto64" => un64 (fun a => withRef h64 (Fintto64 a) (if a == 0#64 then none else some (rnd64 (a.toInt : Rat)))) args
  | "Fintto32" => un64 (fun a => withRef h32 (Fintto32 a) (if a == 0#64 then none else some (rnd32 (a.toInt : Rat)))) args
  | "F32to64" => un32 (fun a => withRef h64 (F32to64 a) (if fin32 a && !zero32 a then some (rnd64 (val32 a)) else none)) args
  | "F64to32" => un64 (fun a => withRef h32 (F64to32 a) (if fin64 a && !zero64 a then some (rnd32 (val64 a)) else none)) args
  | "F32toint32" => un32 (fun a => withRef h32 (F32toint32 a) (if fin32 a then refTrunc 32 (val32 a) (-p31) p31 else none)) args
  | "F32toint64" => un32 (fun a => withRef h64 (F32toint64 a) (if fin32 a then refTrunc 64 (val32 a) (-p63) p63 else none)) args
  | "F32touint64" => un32 (fun a => withRef h64 (F32touint64 a) (if fin32 a then refTrunc 64 (val32 a) 0 p64 else none)) args
  | "F64toint" => un64 (fun a => let r := F64toint a; s!"{h64 r.1}:{boolStr r.2}") args
  | "F64toint32" => un64 (fun a => withRef h32 (F64toint32 a) (if fin64 a then refTrunc 32 (val64 a) (-p31) p31 else none)) args
  | "F64toint64" => un64 (fun a => withRef h64 (F64toint64 a) (if fin64 a then refTrunc 64 (val64 a) (-p63) p63 else none)) args
  | "F64touint64" => un64 (fun a => withRef h64 (F64touint64 a) (if fin64 a then refTrunc 64 (val64 a) 0 p64 else none)) args
  | "Fint32to32" => un32 (fun a => withRef h32 (Fint32to32 a) (if a == 0#32 then none else some (rnd32 (a.toInt : Rat)))) args
  | "Fint32to64" => un32 (fun a => withRef h64 (Fint32to64 a) (if a == 0#32 then none else some (rnd64 (a.toInt : Rat)))) args
  | "Fint64to32" => un64 (fun a => withRef h32 (Fint64to32 a) (if a == 0#64 then none else some (rnd32 (a.toInt : Rat)))) args
  | "Fint64to64" => un64 (fun a => withRef h64 (Fint64to64 a) (if a == 0#64 then none else some (rnd64 (a.toInt : Rat)))) args
  | "Fuint64to32" => un64 (fun a => withRef h32 (Fuint64to32 a) (if a == 0#64 then none else some (rnd32 (a.toNat : Rat)))) args
  | "Fuint64to64" => un64 (fun a => withRef h64 (Fuint64to64 a) (if a == 0#64 then none else some (rnd64 (a.toNat : Rat)))) args
  | "Funpack64" => un64 (fun a => showUnpack64 (Funpack64 a)) args
  | "Funpack32" => un32 (fun a => showUnpack32 (Funpack32 a)) args
  -- unexported helpers, reached on the Go side through the committed shim in sfcopy
  | "fpack64" =>
    (match args with
     | [s, m, e, t] => (match bv 64 s, bv 64 m, bv 64 e, bv 64 t with
        | some s, some m, some e, some t => h64 (fpack64 s m e t)
        | _, _, _, _ => "err:badop")
     | _ => "err:badop")
  | "fpack32" =>
    (match args with
     | [s, m, e, t] => (match bv 32 s, bv 32 m, bv 64 e, bv 32 t with
        | some s, some m, some e, some t => h32 (fpack32 s m e t)
        | _, _, _, _ => "err:badop")
     | _ => "err:badop")
  | "mullu" => bin64 (fun a b => let r := mullu a b; s!"{h64 r.1}:{h64 r.2}") args
  | "divlu" =>
    (match args with
     | [a, b, c] => (match bv 64 a, bv 64 b, bv 64 c with
        | some a, some b, some c => showE (fun r : BitVec 64 × BitVec 64 => s!"{h64 r.1}:{h64 r.2}") (divlu a b c)
        | _, _, _ => "err:badop")
     | _ => "err:badop")
  | "sweep" =>
    (match args with
     | [f, a, n, st] => (match unary32 f, bv 32 a, parseNat n, parseNat st with
        | some f, some a, some n, some st =>
          if n > maxSweep then "err:badop" else hexN 16 (sweep32 f a.toNat n st)
        | _, _, _, _ => "err:badop")
     | _ => "err:badop")
  | "exh32" =>
    -- exhaustive shard on the Go side (real code vs hardware, oracle column); the model
    -- side evaluates the strided subsample of the same shard.
    (match args with
     | [f, sh, nsh, st] => (match unary32 f, parseNat sh, parseNat nsh, parseNat st with
        | some f, some sh, some nsh, some st =>
          if nsh == 0 || sh ≥ nsh || st == 0 || 4294967296 % nsh != 0 then "err:badop" else
          let size := 4294967296 / nsh
          let n := (size + st - 1) / st
          if n > maxSweep then "err:badop" else hexN 16 (sweep32 f (sh * size) n st)
        | _, _, _, _ => "err:badop")
     | _ => "err:badop")
  | _ => "err:badop"

def step (_ : Unit) (t : List String) : Unit × String :=
  match t with
  | "vm" :: fn :: args => ((), if vmOps.contains fn then run fn args else "err:badop")
  | fn :: args => ((), run fn args)
  | [] => ((), "err:badop")

end GnoVerif.Drive.C05

def main : IO Unit := GnoVerif.Kit.loop () GnoVerif.Drive.C05.step
