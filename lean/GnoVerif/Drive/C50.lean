import GnoVerif.Base.Kit
import GnoVerif.Model.C50Avl
/-!
Driver for C50: runs the Lean port of gno.land/p/nt/avl/v0 on op lines.

  set K V            -> true|false                     (updated)
  rm K               -> <V|-> true|false               (value removed)
  get K              -> <V|->
  nget K             -> <index> <V|-> true|false       (Node.Get on the root)
  has K              -> true|false
  size               -> n
  idx I              -> K V | panic:neg | panic:idx | panic:nilderef
  it S E N           -> k=v,k=v,…;ret     Iterate(S,E); callback answers true at its N-th call (0 = never)
  rit S E N          -> …                 ReverseIterate
  ito OFF CNT N      -> …                 IterateByOffset
  rito OFF CNT N     -> …                 ReverseIterateByOffset
  shape              -> pre-order of ALL nodes via TraverseInRange("", "", true, leavesOnly=false):
                        I<key>:<size> for inner nodes, L<key> for leaves, `-` for the empty tree
K, V, S, E: lowercase hex, `e` = empty string.  I, OFF, CNT: int64 decimal.  N: 0..9999.
Anything else: err:badop (state unchanged).  Outputs longer than 240 chars are clipped (`clip`).
-/
namespace GnoVerif.Drive.C50
open GnoVerif GnoVerif.Kit GnoVerif.C50

abbrev V := List UInt8
abbrev St := Tree V

/-- strict int64 decimal: `-?[0-9]{1,19}` within range -/
def parseI64 (s : String) : Option Int :=
  let cs := s.toList
  let (neg, ds) := match cs with
    | '-' :: r => (true, r)
    | r => (false, r)
  if ds.isEmpty ∨ ds.length > 19 ∨ !(ds.all Char.isDigit) then none else
  let n : Nat := ds.foldl (fun a c => a * 10 + (c.toNat - '0'.toNat)) 0
  let v : Int := if neg then -(n : Int) else n
  if v < -9223372036854775808 ∨ v > 9223372036854775807 then none else some v

def parseStop (s : String) : Option Nat :=
  let cs := s.toList
  if cs.isEmpty ∨ cs.length > 4 ∨ !(cs.all Char.isDigit) then none else
  some (cs.foldl (fun a c => a * 10 + (c.toNat - '0'.toNat)) 0)

/-- strict lowercase hex (kit accepts upper case; the protocol does not) -/
def parseHex (s : String) : Option (List UInt8) :=
  if s.toList.any (fun c => 'A' ≤ c ∧ c ≤ 'F') then none else hexToBytes s

def optHex : Option V → String
  | none => "-"
  | some v => bytesToHex v

/-- callback state: number of calls so far, visited entries (reversed) -/
abbrev CbSt := Nat × List (Key × Option V)

def cbStopAt (n : Nat) : CbSt → Key → Option V → CbSt × Bool :=
  fun (cnt, acc) k v => ((cnt + 1, (k, v) :: acc), cnt + 1 == n)

def showIter (r : CbSt × Bool) : String :=
  let items := r.1.2.reverse.map fun (k, v) => bytesToHex k ++ "=" ++ optHex v
  String.intercalate "," items ++ ";" ++ boolStr r.2

def shapeCb : List String → Node V → List String × Bool :=
  fun acc n =>
    match n with
    | .leaf k _ => (("L" ++ bytesToHex k) :: acc, false)
    | .inner k _ sz _ _ => (("I" ++ bytesToHex k ++ ":" ++ toString sz) :: acc, false)

/-- FNV-1a 64 over the (ASCII) output; long outputs are printed as
`#<length>:<fnv64>:<first 160 chars>` because the Go kit cuts lines at 300 bytes. -/
def fnv64 (s : String) : UInt64 :=
  s.toList.foldl (fun h c => (h ^^^ (UInt64.ofNat c.toNat)) * 1099511628211) 14695981039346656037

def clip (s : String) : String :=
  if s.length ≤ 240 then s else
  s!"#{s.length}:{fnv64 s}:{String.ofList (s.toList.take 160)}"

def step1 (t : St) (toks : List String) : St × String :=
  let bad := (t, "err:badop")
  match toks with
  | ["set", k, v] =>
    match parseHex k, parseHex v with
    | some k, some v =>
      match t.set k v with
      | .ok (t', upd) => (t', boolStr upd)
      | .error e => (t, e.token)
    | _, _ => bad
  | ["rm", k] =>
    match parseHex k with
    | some k =>
      match t.remove k with
      | .ok (t', v, removed) => (t', optHex v ++ " " ++ boolStr removed)
      | .error e => (t, e.token)
    | none => bad
  | ["get", k] =>
    match parseHex k with
    | some k => (t, optHex (t.get k))
    | none => bad
  | ["nget", k] =>
    match parseHex k with
    | some k =>
      let (i, v, ex) := t.nodeGet k
      (t, s!"{i} {optHex v} {boolStr ex}")
    | none => bad
  | ["has", k] =>
    match parseHex k with
    | some k => (t, boolStr (t.has k))
    | none => bad
  | ["size"] => (t, toString t.size)
  | ["idx", i] =>
    match parseI64 i with
    | some i =>
      match t.getByIndex i with
      | .ok (k, v) => (t, bytesToHex k ++ " " ++ bytesToHex v)
      | .error e => (t, e.token)
    | none => bad
  | [op, a, b, n] =>
    if op == "it" ∨ op == "rit" then
      match parseHex a, parseHex b, parseStop n with
      | some a, some b, some n =>
        let r := if op == "it" then t.iterate a b (cbStopAt n) (0, []) else t.reverseIterate a b (cbStopAt n) (0, [])
        (t, showIter r)
      | _, _, _ => bad
    else if op == "ito" ∨ op == "rito" then
      match parseI64 a, parseI64 b, parseStop n with
      | some a, some b, some n =>
        let r := if op == "ito" then t.iterateByOffset a b (cbStopAt n) (0, []) else t.reverseIterateByOffset a b (cbStopAt n) (0, [])
        (t, showIter r)
      | _, _, _ => bad
    else bad
  | ["shape"] =>
    let r := t.nodeTraverseInRange [] [] true false shapeCb []
    (t, if r.1.isEmpty then "-" else String.intercalate " " r.1.reverse)
  | _ => bad

def step (t : St) (toks : List String) : St × String :=
  let (t', out) := step1 t toks
  (t', clip out)

end GnoVerif.Drive.C50

def main : IO Unit := GnoVerif.Kit.loop (GnoVerif.C50.Tree.empty) GnoVerif.Drive.C50.step
