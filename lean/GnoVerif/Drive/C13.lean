import GnoVerif.Base.Kit
import GnoVerif.Model.C13
/-! Driver for C13: runs the hand-written model of the parameter-key algebra
and the keeper dispatch on op lines (see harness/cmd/c13/main.go for the ops). -/
namespace GnoVerif.Drive.C13
open GnoVerif GnoVerif.Kit GnoVerif.C13

/-- one `Char` per byte -/
def ofBytes (bs : List UInt8) : Str := bs.map (fun b => Char.ofNat b.toNat)
def toBytes (s : Str) : List UInt8 := s.map (fun c => UInt8.ofNat c.toNat)
def hx (s : Str) : String := bytesToHex (toBytes s)
def unhx (t : String) : Option Str := (hexToBytes t).map ofBytes

/-- lowercase hex of a string, as a string (the proxy realm's name) -/
def hexStr (s : Str) : Str := (toBytes s).flatMap fun b => [nibble (b.toNat / 16), nibble (b.toNat % 16)]

/-! ### value tokens -/

def parseList (rest : String) : Option (List Str) :=
  if rest == "e" then some [] else (rest.splitOn ",").mapM unhx

def parseValue (tok : String) : Option Value :=
  match tok.toList with
  | k :: ':' :: rest =>
    let r := String.ofList rest
    match k with
    | 's' => (unhx r).map Value.str
    | 'i' => match r.toInt? with
      | some i => if -(2:Int)^63 ≤ i ∧ i < (2:Int)^63 then some (.int i) else none
      | none => none
    | 'u' => match r.toNat? with
      | some n => if n < 2^64 then some (.uint n) else none
      | none => none
    | 'b' => if r == "true" then some (.bool true) else if r == "false" then some (.bool false) else none
    | 'y' => if r == "-" then some (.bytes none) else (unhx r).map (fun b => Value.bytes (some b))
    | 'l' => (parseList r).map Value.strs
    | _ => none
  | _ => none

/-! ### the registry of the harness environment (gnoland/app.go's, plus two fakes) -/

def authKnown : List Str := [
  "p:max_memo_bytes", "p:tx_sig_limit", "p:tx_size_cost_per_byte", "p:sig_verify_cost_ed25519",
  "p:sig_verify_cost_secp256k1", "p:gas_price_change_compressor", "p:target_gas_ratio",
  "p:fee_collector", "p:initial_gasprice", "p:unrestricted_addrs"].map lit

def bankKnown : List Str := ["p:restricted_denoms"].map lit

/-- keys whose VALUE validation is outside this model (coin/address/gas-price
    syntax, auth/bank structs); both sides print `unmodelled` once the write
    reaches that module's WillSetParam. -/
def unmodelled (module rawKey : Str) : Bool :=
  if module = L!"vm" then vmField rawKey == some .ext
  else if module = L!"auth" then authKnown.contains rawKey
  else if module = L!"bank" then bankKnown.contains rawKey
  else false

def registry : Registry := fun m =>
  if m = L!"vm" then some (vmWillSet (fun _ _ => true))
  else if m = L!"auth" then some (fun _ _ => .error .unknownParam)   -- known keys are short-circuited as unmodelled
  else if m = L!"bank" then some (fun _ _ => .error .unknownParam)
  else if m = L!"node" then some (fun _ _ => .ok ())
  else if m = L!"fake" then some (fun _ v => if v = .str (L!"bad") then .error .invalid else .ok ())
  else none

/-! ### deployability of the harness's generated realm package (protocol helper, not part of the model) -/

def isVersionSuffix : Str → Bool
  | 'v' :: ['0'] => true
  | 'v' :: d :: ds => d != '0' && isDigit d && ds.all isDigit
  | _ => false

def pkgNameOk : Str → Bool
  | c :: d :: ds => isLower c && (d :: ds).all (fun x => isLowerNum x || x == '_')
  | _ => false

def deployable (p : Str) : Bool :=
  isRealmPath p && (L!"gno.land/").isPrefixOf p &&
  !endsWith p (L!"_test") && !endsWith p (L!"_filetest") &&
  match (splitBy '/' p).getLast? with
  | some last => pkgNameOk last && !isVersionSuffix last
  | none => false

def runRealm : Str := L!"gno.land/e/g1qmz5w76sluld9ald6yjxyhtarpdlg3flfu75e2/run"

def proxyPath (target : Str) : Str := L!"gno.land/r/proxy/x" ++ hexStr target

/-- committed expectations for the code-shape facts the theorems rely on
    (harness/cmd/c13/facts.go extracts them from /repo's source on every run):
    only chain/params and sys/params natives write through ExecContext.Params;
    all five ExecContext literals of the vm keeper hand out NewSDKParams(vm.prmk, ctx);
    the tm2 params handler accepts no message; every sys/params write native
    runs assertSysParamsRealm, then prmkey. -/
def factExpect : String → String
  | "param-writers" => "writers=chain/params,sys/params"
  | "exec-params" => "sdkparams=5 other=0"
  | "params-handler" => "process=rejects-all"
  | "gate-order" => "gated=7 ungated=0"
  | _ => "err:badop"

/-! ### state and ops -/

structure St where
  store : Store := Store.empty
  deployed : List Str := []

def showRes (r : Except Err (Store × Option Will)) : String :=
  match r with
  | .error e => e.token
  | .ok (_, none) => "ok -"
  | .ok (_, some (m, raw)) => s!"ok {hx m} {hx raw}"

/-- commit on success; the `unmodelled` short-circuit applies exactly when the
    write reaches an unmodelled module key's WillSetParam. -/
def finish (s : St) (fullKey : Except Err Str) (r : Except Err (Store × Option Will))
    (needDeposit : Bool) : St × String :=
  match fullKey with
  | .error e => (s, e.token)
  | .ok pk =>
    match mustHaveModuleKeeper registry pk with
    | .error e => (s, e.token)
    | .ok () =>
      let (m, raw) := parsePrefix pk
      if unmodelled m raw then (s, "unmodelled") else
      match r with
      | .error e => (s, e.token)
      | .ok (st', w) =>
        -- processStorageDeposit: a realm-attributed key of a realm that has no realm object
        match (if needDeposit then realmFromKey pk else none) with
        | some rlm =>
          if s.deployed.contains rlm then ({ s with store := st' }, showRes (.ok (st', w)))
          else (s, Err.depositUnknownRealm.token)
        | none => ({ s with store := st' }, showRes (.ok (st', w)))

def doWrite (s : St) (fullKey : Except Err Str) (v : Value) (upd : String) (needDeposit : Bool) : St × String :=
  match fullKey with
  | .error e => (s, e.token)
  | .ok pk =>
    let r := match upd, v with
      | "add", .strs l => sdkUpdate registry s.store pk l true
      | "del", .strs l => sdkUpdate registry s.store pk l false
      | _, _ => sdkSet registry s.store pk v
    finish s fullKey r needDeposit

def markDeployed (s : St) (p : Str) : St :=
  if s.deployed.contains p then s else { s with deployed := p :: s.deployed }

def updOf (op : String) : String :=
  if op.endsWith "add" then "add" else if op.endsWith "del" then "del" else ""

def step (s : St) (t : List String) : St × String :=
  let bad := (s, "err:badop")
  match t with
  | ["fact", name] => (s, factExpect name)
  | ["realm", p] =>
    match unhx p with
    | some p => (s, s!"userlib={boolStr (isUserlib p)} realm={boolStr (isRealmPath p)}")
    | none => bad
  | ["pkey", r, k] =>
    match unhx r, unhx k with
    | some r, some k => (s, match pkey r k with | .ok x => s!"k {hx x}" | .error e => e.token)
    | _, _ => bad
  | ["prmkey", c, m, sb, n] =>
    match unhx c, unhx m, unhx sb, unhx n with
    | some c, some m, some sb, some n =>
      (s, match sysKey c m sb n with | .ok x => s!"k {hx x}" | .error e => e.token)
    | _, _, _, _ => bad
  | [op, k, v] =>
    if op == "set" || op == "add" || op == "del" then
      match unhx k, parseValue v with
      | some k, some v =>
        (match op, v with
         | "set", _ => doWrite s (.ok k) v "" false
         | _, .strs _ => doWrite s (.ok k) v op false
         | _, _ => bad)
      | _, _ => bad
    else if op == "rawset" then
      match unhx k, unhx v with
      | some k, some v =>
        (match keeperSet registry s.store k (.str v) with
         | .error e => (s, e.token)
         | .ok (st', w) => ({ s with store := st' }, showRes (.ok (st', w))))
      | _, _ => bad
    else bad
  | [op, r, k, v] =>
    if op == "vmset" || op == "vmadd" || op == "vmdel" then
      match unhx r, unhx k, parseValue v with
      | some r, some k, some v =>
        (match op, v with
         | "vmset", _ | _, .strs _ =>
           if !deployable r then (s, "err:deploy") else
           let s := markDeployed s r
           doWrite s (pkey r k) v (updOf op) true
         | _, _ => bad)
      | _, _, _ => bad
    else if op == "vmrun" then
      match unhx r, unhx k, unhx v with
      | some r, some k, some v =>
        if r ≠ runRealm then bad else doWrite s (pkey r k) (.str v) "" true
      | _, _, _ => bad
    else bad
  | ["vmproxy", mode, tg, k, v] =>
    match unhx tg, unhx k, unhx v with
    | some tg, some k, some v =>
      if !deployable tg then (s, "err:deploy") else
      let s := markDeployed s tg
      let pp := proxyPath tg
      if !deployable pp then (s, "err:deploy-proxy") else
      let s := markDeployed s pp
      if mode == "cross" then doWrite s (pkey tg k) (.str v) "" true
      else if mode == "plain" then doWrite s (pkey pp k) (.str v) "" true
      else (s, "err:badop")
    | _, _, _ => bad
  | ["vmsys", c, m, sb, n, v] =>
    match unhx c, unhx m, unhx sb, unhx n, parseValue v with
    | some c, some m, some sb, some n, some v =>
      if !deployable c then (s, "err:deploy") else
      let s := markDeployed s c
      (match v with
       | .str _ | .int _ | .bool _ => doWrite s (sysKey c m sb n) v "" true
       | _ => (s, "err:badop"))
    | _, _, _, _, _ => bad
  | _ => bad

end GnoVerif.Drive.C13

def main : IO Unit := GnoVerif.Kit.loop ({} : GnoVerif.Drive.C13.St) GnoVerif.Drive.C13.step
