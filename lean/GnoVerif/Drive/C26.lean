import GnoVerif.Base.Kit
import GnoVerif.Model.C26
/-!
Driver for C26 (B+ tree fast index).  Line protocol (slots 0..2; slot 0 is the
single live writer, other slots are query-style handles; view slots 0..2):

```
open <slot> <fast 0|1> <load|ro|lv|loadlv> <v> <skew> <cache>
                                   new MutableTree over the shared DB (cache size is not modelled);
                                   load = Load(), ro = LoadReadonly(), lv = bare LoadVersion(v),
                                   loadlv = Load() then LoadVersion(v) (store.LoadVersion);
                                   skew = the newest <skew> root records are invisible to discoverVersions
set <slot> <key> <value|->         key/value: hex | e (empty) | - (nil)
rm <slot> <key>
save|failsave|rollback <slot>
prune <slot> <to>
get <slot> <key>                   MutableTree.Get (fast path) and GetWithIndex (tree walk)
getv <slot> <key> <v>              GetVersioned (gated fast path) and the walk on GetImmutable(v)
imm <slot> <vslot> <v>             keep GetImmutableUnregistered(v) in a view slot
vget <vslot> <key>                 ImmutableTree.Get and GetWithIndex on the kept view
crashsave | crashprune <to> | crashopen <fast> <n> | crashimport <n>
delstamp                           node down, the stamp record deleted by hand (ADR remediation)
dump                               the persisted fast index, stamp and retained versions
stress <seed> <rounds>             (thorough) concurrent stress, oracle only
```
-/
namespace GnoVerif.Drive.C26
open GnoVerif GnoVerif.Kit GnoVerif.C26

/-- 1..7 decimal digits. -/
def pNat (s : String) : Option Nat :=
  let cs := s.toList
  if cs.isEmpty ∨ cs.length > 7 ∨ ¬ cs.all Char.isDigit then none
  else some (cs.foldl (fun a c => a * 10 + (c.toNat - '0'.toNat)) 0)

def lowerHexDigit (c : Char) : Option Nat :=
  if '0' ≤ c ∧ c ≤ '9' then some (c.toNat - '0'.toNat)
  else if 'a' ≤ c ∧ c ≤ 'f' then some (c.toNat - 'a'.toNat + 10)
  else none

def pHex (s : String) : Option Bytes :=
  if s == "e" then some [] else
  if s.isEmpty then none else
  let rec go : List Char → List UInt8 → Option (List UInt8)
    | [], acc => some acc.reverse
    | [_], _ => none
    | a :: b :: rest, acc =>
      match lowerHexDigit a, lowerHexDigit b with
      | some x, some y => go rest (UInt8.ofNat (x*16+y) :: acc)
      | _, _ => none
  go s.toList []

/-- hex | e | - ; nil is `none`. -/
def pOptHex (s : String) : Option (Option Bytes) :=
  if s == "-" then some none else (pHex s).map some

/-- a key: nil and empty are the same key. -/
def pKey (s : String) : Option Bytes := (pOptHex s).map (·.getD [])

def pSlot (s : String) : Option Nat :=
  match pNat s with
  | some n => if n < 3 then some n else none
  | none => none

def pBool (s : String) : Option Bool :=
  if s == "1" then some true else if s == "0" then some false else none

def pMode (m : String) (v : Nat) : Option Mode :=
  if m == "load" then some .load
  else if m == "ro" then some .ro
  else if m == "lv" then some (.lv v)
  else if m == "loadlv" then (if v = 0 then none else some (.loadlv v))
  else none

def parse (t : List String) : Option Op :=
  match t with
  | ["open", s, f, m, v, sk, c] => do
    let s ← pSlot s; let f ← pBool f; let v ← pNat v; let sk ← pNat sk; let _ ← pNat c
    let m ← pMode m v
    pure (.open_ s f m sk)
  | ["set", s, k, v] => do
    let s ← pSlot s; let k ← pKey k; let v ← pOptHex v
    pure (.set s k v)
  | ["rm", s, k] => do let s ← pSlot s; let k ← pKey k; pure (.remove s k)
  | ["save", s] => do let s ← pSlot s; pure (.save s)
  | ["failsave", s] => do let s ← pSlot s; pure (.failsave s)
  | ["rollback", s] => do let s ← pSlot s; pure (.rollback s)
  | ["prune", s, v] => do let s ← pSlot s; let v ← pNat v; pure (.prune s v)
  | ["get", s, k] => do let s ← pSlot s; let k ← pKey k; pure (.get s k)
  | ["getv", s, k, v] => do let s ← pSlot s; let k ← pKey k; let v ← pNat v; pure (.getv s k v)
  | ["imm", s, vs, v] => do let s ← pSlot s; let vs ← pSlot vs; let v ← pNat v; pure (.imm s vs v)
  | ["vget", vs, k] => do let vs ← pSlot vs; let k ← pKey k; pure (.vget vs k)
  | ["crashsave"] => some .crashsave
  | ["crashprune", v] => do let v ← pNat v; pure (.crashprune v)
  | ["crashopen", f, n] => do let f ← pBool f; let n ← pNat n; pure (.crashopen f n)
  | ["delstamp"] => some .delstamp
  | ["crashimport", n] => do let n ← pNat n; pure (.crashimport n)
  | ["dump"] => some .dump
  | ["stress", a, b] => do let _ ← pNat a; let _ ← pNat b; pure .stress
  | _ => none

def insertAsc (v : Nat) : List Nat → List Nat
  | [] => [v]
  | x :: xs => if v ≤ x then v :: x :: xs else x :: insertAsc v xs

def sortAsc (l : List Nat) : List Nat := l.foldr insertAsc []

/-- FNV-1a (64 bit) of an ASCII string. -/
def fnv64 (s : String) : UInt64 :=
  s.foldl (fun h c => (h ^^^ c.toNat.toUInt64) * 1099511628211) 14695981039346656037

def hex64 (x : UInt64) : String :=
  String.ofList ((List.range 16).map fun i => nibble ((x >>> (60 - 4 * i).toUInt64).toNat % 16))

/-- the harness kit cuts output lines at 300 characters: long listings are
printed as a 200-character head plus length and FNV-1a digest of the whole. -/
def compact (s : String) : String :=
  if s.length ≤ 250 then s else (s.take 200).toString ++ "~" ++ toString s.length ++ "~" ++ hex64 (fnv64 s)

def showDB (db : DB) : String :=
  let f := ",".intercalate (db.fast.map fun p => s!"{bytesToHex p.1}:{p.2.1}:{bytesToHex p.2.2}")
  let s := match db.stamp with | some s => toString s | none => "-"
  let v := ",".intercalate ((sortAsc db.versions).map toString)
  compact s!"F=[{f}] S={s} V=[{v}]"

def showOut : Out → String
  | .ok => "ok"
  | .okN n => s!"ok {n}"
  | .okB b => s!"ok {boolStr b}"
  | .adopt n => s!"adopt {n}"
  | .removed v f => s!"rm {optBytesToHex v} {boolStr f}"
  | .read a b => s!"v={optBytesToHex a} w={optBytesToHex b}"
  | .err e => "err:" ++ e
  | .stampAhead v => s!"err:stampahead {v}"
  | .crashed => "crashed"
  | .dumped db => showDB db
  | .stress => "stress"

def stepLine (st : State) (t : List String) : State × String :=
  match parse t with
  | none => (st, "err:badop")
  | some op =>
    let (st', o) := step st op
    (st', showOut o)

end GnoVerif.Drive.C26

def main : IO Unit := GnoVerif.Kit.loop GnoVerif.C26.State.init GnoVerif.Drive.C26.stepLine
