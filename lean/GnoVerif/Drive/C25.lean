import GnoVerif.Base.Kit
import GnoVerif.Base.Sha256
import GnoVerif.Model.C25
/-!
Driver for C25 (simple Merkle trees of tm2/pkg/crypto/merkle), `H := sha256`.

ops (state = current item list + current map, reset at `#case`):
  sha <hex>                                        → digest
  items <n> <item>…                                → <root|-> <iterative-root|->        (sets the items)
  prove <i>                                        → <total> <index> <leafhash> <n> <aunt>… <validateBasic> <verify>
  verify <total> <index> <leafhash> <root> <leaf> <n> <aunt>…   → ok | err:total | err:index | err:leafhash | err:root
  crh <total> <index> <leafhash> <n> <aunt>…       → ComputeRootHash: <hex|->
  vb <total> <index> <leafhash> <n> <aunt>…        → ValidateBasic: ok | err:…
  txp <datahash> <roothash> <tx> <total> <index> <leafhash> <n> <aunt>…   → TxProof.Validate
  map <n> <key> <value>…                           → <root|-> <n> <sorted key>…          (sets the map)
  mprove <key>                                     → proof fields as in `prove`, verified through SimpleValueOp
  mverify <key> <value> <root> <total> <index> <leafhash> <n> <aunt>…     → SimpleValueOp.Run + root compare
-/
namespace GnoVerif.Drive.C25
open GnoVerif GnoVerif.Kit GnoVerif.C25

def H : Bytes → Bytes := Sha256.sha256

structure St where
  items : List Bytes := []
  entries : List (Bytes × Bytes) := []

def hexList (ts : List String) : Option (List Bytes) := ts.mapM hexToBytes

/-- bytes argument where nil and empty are both allowed but not distinguished -/
def hexAny (s : String) : Option Bytes := if s == "-" then some [] else hexToBytes s

def i64? (s : String) : Option Int :=
  match parseInt s with
  | some v => if -(2^63 : Int) ≤ v ∧ v < 2^63 then some v else none
  | none => none

/-- parse `<n> <hex>…` consuming exactly n tokens; returns the rest -/
def takeN (ts : List String) : Option (List Bytes × List String) :=
  match ts with
  | n :: rest =>
    match parseNat n with
    | some k => if k ≤ rest.length then (rest.take k).mapM hexAny |>.map (·, rest.drop k) else none
    | none => none
  | [] => none

def parseProof (ts : List String) : Option (SimpleProof × List String) :=
  match ts with
  | t :: i :: lh :: rest =>
    match i64? t, i64? i, hexOpt lh, takeN rest with
    | some t, some i, some lh, some (aunts, rest') => some ({ total := t, index := i, leafHash := lh, aunts := aunts }, rest')
    | _, _, _, _ => none
  | _ => none

def showVerify : Except VerifyErr Unit → String
  | .ok _ => "ok"
  | .error .total => "err:total"
  | .error .index => "err:index"
  | .error .leafHash => "err:leafhash"
  | .error .root => "err:root"

def showBasic : Except BasicErr Unit → String
  | .ok _ => "ok"
  | .error .total => "err:total"
  | .error .index => "err:index"
  | .error .leafSize => "err:leafsize"
  | .error .tooManyAunts => "err:naunts"
  | .error .auntSize => "err:auntsize"

/-- `total index leafhash n sha256(aunts concatenated) <tail> aunt…` (the harness kit
truncates output lines at 300 bytes, so does `clip`; the digest keeps the comparison complete) -/
def showProof (p : SimpleProof) (tail : String) : String :=
  " ".intercalate ([toString p.total, toString p.index, optBytesToHex p.leafHash, toString p.aunts.length,
    bytesToHex (H p.aunts.flatten), tail] ++ p.aunts.map bytesToHex)

def clip (s : String) : String := if s.length > 300 then (s.take 300).toString else s

/-- `TxProof.Validate(dataHash)`: tm2/pkg/bft/types/tx.go (Leaf = tmhash(tx)) -/
def txpValidate (dataHash rootHash : Option Bytes) (tx : Bytes) (p : SimpleProof) : String :=
  if ¬ bytesEqual dataHash rootHash then "err:datahash"
  else if p.index < 0 then "err:index"
  else if p.total ≤ 0 then "err:total"
  else match p.verify H rootHash (H tx) with
    | .ok _ => "ok"
    | .error _ => "err:inconsistent"

def mapVerify (key value : Bytes) (root : Option Bytes) (p : SimpleProof) : String :=
  match valueOpVerify H key value root p with
  | .ok _ => "ok"
  | .error .leafHash => "err:leafhash"
  | .error .invalidProof => "err:invalid"
  | .error .root => "err:root"

def pairs : List Bytes → Option (List (Bytes × Bytes))
  | [] => some []
  | k :: v :: rest => (pairs rest).map ((k, v) :: ·)
  | [_] => none

def hasDup : List Bytes → Bool
  | [] => false
  | k :: rest => rest.contains k || hasDup rest

def step (s : St) (t : List String) : St × String :=
  -- stage 2 (bptree / ics23) is correspondence-with-oracle only: no model, constant answer
  if (t.head?.getD "").startsWith "bp" then (s, "bp") else
  match t with
  | ["sha", x] =>
    match hexAny x with
    | some b => (s, bytesToHex (H b))
    | none => (s, "err:badop")
  | "items" :: rest =>
    match takeN rest with
    | some (items, []) =>
      ({ s with items := items },
        optBytesToHex (simpleHashFromByteSlices H items) ++ " " ++ optBytesToHex (simpleHashFromByteSlicesIterative H items)
        ++ " " ++ (
          -- the model builds all n proofs (n·O(n) hashes); beyond 64 items only its length is reported
          -- (`prove` exercises individual proofs of large trees)
          if items.length ≤ 64 then
            match simpleProofsFromByteSlices H items with
            | none => "panic:nilderef"
            | some (_, ps) => toString ps.length
          else toString items.length))
    | _ => (s, "err:badop")
  | ["prove", i] =>
    match parseNat i with
    | some i =>
      if i < s.items.length then
        let (root, _) := (simpleHashFromByteSlices H s.items, ())
        let p := proofFor H s.items i
        (s, clip (showProof p (showBasic p.validateBasic ++ " " ++ showVerify (p.verify H root (s.items.getD i [])))))
      else (s, "err:range")
    | none => (s, "err:badop")
  | "verify" :: t :: i :: lh :: root :: leaf :: rest =>
    match parseProof (t :: i :: lh :: rest), hexOpt root, hexAny leaf with
    | some (p, []), some root, some leaf => (s, showVerify (p.verify H root leaf))
    | _, _, _ => (s, "err:badop")
  | "crh" :: rest =>
    match parseProof rest with
    | some (p, []) => (s, optBytesToHex (p.computeRootHash H))
    | _ => (s, "err:badop")
  | "vb" :: rest =>
    match parseProof rest with
    | some (p, []) => (s, showBasic p.validateBasic)
    | _ => (s, "err:badop")
  | "txp" :: dh :: rh :: tx :: rest =>
    match hexOpt dh, hexOpt rh, hexAny tx, parseProof rest with
    | some dh, some rh, some tx, some (p, []) => (s, txpValidate dh rh tx p)
    | _, _, _, _ => (s, "err:badop")
  | "map" :: n :: rest =>
    match parseNat n with
    | some n =>
      if rest.length ≠ 2 * n then (s, "err:badop") else
      match (rest.mapM hexAny).bind pairs with
      | some es =>
        if hasDup (es.map (·.1)) then (s, "err:dupkey") else
        let root2 := simpleHashFromMap H es
        match simpleProofsFromMap H es with
        | none => ({ s with entries := es }, optBytesToHex root2 ++ " panic:nilderef")
        | some (root, _, keys) =>
        ({ s with entries := es },
          clip (" ".intercalate ([optBytesToHex root2, optBytesToHex root, toString keys.length,
            bytesToHex (H (keys.flatMap encodeByteSlice))] ++ keys.map bytesToHex)))
      | none => (s, "err:badop")
    | none => (s, "err:badop")
  | ["mprove", key] =>
    match hexAny key with
    | some key =>
      match simpleProofsFromMap H s.entries with
      | none => (s, "err:nokey")
      | some (root, proofs, keys) =>
      match keys.idxOf? key with
      | some j =>
        match proofs[j]?, s.entries.find? (·.1 == key) with
        | some p, some (_, v) =>
          (s, clip (showProof p (showBasic p.validateBasic ++ " " ++ mapVerify key v root p)))
        | _, _ => (s, "err:nokey")
      | none => (s, "err:nokey")
    | none => (s, "err:badop")
  | "mverify" :: key :: value :: root :: rest =>
    match hexAny key, hexAny value, hexOpt root, parseProof rest with
    | some key, some value, some root, some (p, []) => (s, mapVerify key value root p)
    | _, _, _, _ => (s, "err:badop")
  | _ => (s, "err:badop")

end GnoVerif.Drive.C25

def main : IO Unit := GnoVerif.Kit.loop ({} : GnoVerif.Drive.C25.St) GnoVerif.Drive.C25.step
