import GnoVerif.Model.C23Step
/-! Driver for C24: the same model as C23, C24 protocol (`export N`, no explicit
prune/reopen: those are per-configuration schedules of the harness).
`B = 32` (tm2/pkg/bptree/const.go). -/

def main : IO Unit :=
  GnoVerif.Kit.loop ({} : GnoVerif.C23.Step.St) (GnoVerif.C23.Step.step 32 true)
