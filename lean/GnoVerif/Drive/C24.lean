import GnoVerif.Model.C23Step
import GnoVerif.Gen.C24Consts
/-! Driver for C24: the same model as C23, C24 protocol (`export N`, `use N`; no
explicit prune/reopen: those are per-configuration schedules of the harness).
The branching factor is the constant `B` of tm2/pkg/bptree/const.go, regenerated
into Gen/C24Consts.lean by `gvx consts-bptree` on every run. -/

namespace GnoVerif.Drive.C24
open GnoVerif.Gen.C24

/-! the values the hand-written hash model hard-codes, pinned against the generated constants -/
example : MinKeys = GnoVerif.C23.minKeys B := by decide
example : 2 ^ miniMerkleDepth = B := by decide
example : (DomainLeaf, DomainInner, DomainEmpty) = (0, 1, 2) := by decide
example : 4 ≤ B := by decide

end GnoVerif.Drive.C24

def main : IO Unit :=
  GnoVerif.Kit.loop ({} : GnoVerif.C23.Step.St) (GnoVerif.C23.Step.step GnoVerif.Gen.C24.B true)
