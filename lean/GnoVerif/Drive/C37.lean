import GnoVerif.Base.Kit
import GnoVerif.Model.C37
/-! Driver for C37: runs the model of validator_set.go on op lines (see harness/cmd/c37/main.go
for the protocol). -/
namespace GnoVerif.Drive.C37
open GnoVerif GnoVerif.Kit GnoVerif.C37

structure DState where
  set : Option VSet := none
  log : Array Nat := #[]
  stable : Bool := false
deriving Inhabited

def maxSlots : Nat := 60000
def fairCapT : Int := 6000

def canonInt? (s : String) : Option Int :=
  let body := if s.startsWith "-" then (s.drop 1).toString else s
  if body.isEmpty || !body.all Char.isDigit then none
  else
    match body.toNat? with
    | none => none
    | some n => some (if s.startsWith "-" then -(n : Int) else (n : Int))

def inInt64 (x : Int) : Bool := decide (minInt64 ≤ x) && decide (x ≤ maxInt64)

/-- tokens `slot:power`, or bare `power` (slot = position) -/
def parseToks (ts : List String) : Option (List Val) :=
  let rec go (i : Nat) : List String → Option (List Val)
    | [] => some []
    | t :: rest =>
      let parts := t.splitOn ":"
      let sp : Option (String × String) :=
        match parts with
        | [p] => some (toString i, p)
        | s :: p :: more => some (s, String.intercalate ":" (p :: more))
        | [] => none
      match sp with
      | none => none
      | some (s, p) =>
        match canonInt? s, canonInt? p with
        | some sl, some pw =>
          if sl < 0 || sl ≥ (maxSlots : Int) || !inInt64 pw then none
          else (go (i + 1) rest).map fun vs => { addr := sl.toNat, power := pw, prio := 0 } :: vs
        | _, _ => none
  go 0 ts

def hash2 (s : String) : String :=
  let (h1, h2) := s.toUTF8.foldl (fun (h : Nat × Nat) b =>
    ((h.1 * 65599 + b.toNat) % 4294967291, (h.2 * 31337 + b.toNat) % 4294967279)) (0, 0)
  s!"H{h1}.{h2}"

def short (s : String) (lim : Nat) : String :=
  if s.utf8ByteSize ≤ lim then s else hash2 s

def dump (s : VSet) : String :=
  let p := match s.proposer with | none => "-" | some a => toString a
  let body := short (String.intercalate " " (s.vals.map fun v => s!"{v.addr}:{v.power}:{v.prio}")) 200
  let total : Int := if s.vals.isEmpty then 0 else totalVP s
  if body.isEmpty then s!"P={p} T={total} n={s.vals.length}"
  else s!"P={p} T={total} n={s.vals.length} {body}"

def seqString (xs : List Nat) : String :=
  short (String.intercalate "," (xs.map toString)) 60

def logProposer (d : DState) (s : VSet) : DState :=
  match s.proposer with
  | some a => { d with set := some s, log := d.log.push a }
  | none => { d with set := some s }

/-- k calls of IncrementProposerPriority(1) -/
def runK : Nat → DState → VSet → (DState × VSet × Option Err)
  | 0, d, s => (d, s, none)
  | k + 1, d, s =>
    match opInc 1 s with
    | .error e => (d, s, some e)
    | .ok s' => runK k (logProposer d s') s'

/-- sliding-window summary of the proposer log -/
def windowSummary (d : DState) (s : VSet) : String := Id.run do
  let n := s.vals.length
  let L := d.log.size
  let T : Int := if n = 0 then 0 else totalVP s
  if n = 0 || T > fairCapT || (L : Int) < T then
    return s!"ok L={L} T={T} bad=- c=-"
  let w := T.toNat
  let vals := s.vals.toArray
  let mut idx : Array (Option Nat) := Array.replicate (maxSlots + 1) none
  for i in [0:n] do
    idx := idx.set! vals[i]!.addr (some i)
  let pw := vals.map (·.power)
  let mut cnt : Array Int := Array.replicate n 0
  let mut mism : Nat := 0
  for i in [0:n] do
    if cnt[i]! != pw[i]! then mism := mism + 1
  let mut bad : Option Nat := none
  let mut firstC := ""
  for e in [0:L] do
    match idx[d.log[e]!]! with
    | some i =>
      let was := cnt[i]! != pw[i]!
      cnt := cnt.set! i (cnt[i]! + 1)
      let now := cnt[i]! != pw[i]!
      if was && !now then mism := mism - 1
      else if !was && now then mism := mism + 1
    | none => pure ()
    if e ≥ w then
      match idx[d.log[e - w]!]! with
      | some i =>
        let was := cnt[i]! != pw[i]!
        cnt := cnt.set! i (cnt[i]! - 1)
        let now := cnt[i]! != pw[i]!
        if was && !now then mism := mism - 1
        else if !was && now then mism := mism + 1
      | none => pure ()
    if e + 1 = w then
      firstC := short (String.intercalate "," (cnt.toList.map toString)) 80
    if e + 1 ≥ w && mism != 0 && bad.isNone then
      bad := some (e + 1 - w)
  let bs := match bad with | none => "-" | some b => toString b
  return s!"ok L={L} T={T} bad={bs} c={firstC}"

def step (d : DState) (t : List String) : DState × String :=
  match t with
  | "new" :: rest =>
    match parseToks rest with
    | none => (d, "err:badop")
    | some vs =>
      match newSet vs with
      | .error e => ({}, e.token)
      | .ok s =>
        let d' : DState := { set := some s, log := #[], stable := true }
        (logProposer d' s, "ok " ++ dump s)
  | "update" :: rest =>
    match parseToks rest with
    | none => (d, "err:badop")
    | some ch =>
      match d.set with
      | none => (d, "err:noset")
      | some s =>
        match update s ch with
        | .error e => (d, e.token ++ " " ++ dump s)
        | .ok s' =>
          if ch.isEmpty then ({ d with set := some s' }, "ok " ++ dump s')
          else ({ set := some s', log := #[], stable := false }, "ok " ++ dump s')
  | [op, ks] =>
    if op != "inc" && op != "run" then (d, "err:badop") else
    match canonInt? ks with
    | none => (d, "err:badop")
    | some k =>
      if k > 2147483648 || k < -2147483648 then (d, "err:badop") else
      match d.set with
      | none => (d, "err:noset")
      | some s =>
        if op == "inc" then
          match opInc k s with
          | .error e => (d, e.token)
          | .ok s' =>
            let d1 := if k != 1 then { d with log := #[] } else d
            (logProposer d1 s', "ok " ++ dump s')
        else
          if k ≤ 0 then (d, "err:badop") else
          let start := d.log.size
          match runK k.toNat d s with
          | (_, _, some e) => (d, e.token)
          | (d', s', none) =>
            ({ d' with set := some s' }, "ok " ++ dump s' ++ " seq=" ++ seqString (d'.log.toList.drop start))
  | ["window"] =>
    match d.set with
    | none => (d, "err:noset")
    | some s => (d, windowSummary d s)
  | _ => (d, "err:badop")

end GnoVerif.Drive.C37

def main : IO Unit := GnoVerif.Kit.loop ({} : GnoVerif.Drive.C37.DState) GnoVerif.Drive.C37.step
