import GnoVerif.Base.Kit
import GnoVerif.Base.Sha256
import GnoVerif.Model.C47
/-! Driver for C47: the authenticated-cipher wrappers (and the primitives under
them) on op lines.  Stateless.  See harness/cmd/c47/main.go for the op grammar. -/
namespace GnoVerif.Drive.C47
open GnoVerif GnoVerif.Kit GnoVerif.C47

/-- `<len>:<hex>` for short strings, `<len>:<first 16 bytes of SHA-256>` otherwise -/
def summ (bs : Bytes) : String :=
  if bs.length ≤ 40 then s!"{bs.length}:{bytesToHex bs}"
  else s!"{bs.length}:#{bytesToHex ((Sha256.sha256 bs).take 16)}"

def showRes : Res Bytes → String
  | .ok v => s!"ok {summ v}"
  | .err c => s!"err:{c}"
  | .panic c => s!"panic:{c}"

/-- flip bit `idx mod (8·len)` (bit 0 = least significant bit of byte 0); identity on `[]` -/
def flipBit (bs : Bytes) (idx : Nat) : Bytes :=
  if bs.isEmpty then bs else
  let i := idx % (8 * bs.length)
  bs.set (i / 8) ((bs.getD (i / 8) 0) ^^^ (UInt8.ofNat (1 <<< (i % 8))))

def xSealK (key nonce pt ad : Bytes) : Res Bytes :=
  match xNew key with
  | .ok k => xSeal chachaPoly k nonce pt ad
  | .err c => .err c
  | .panic c => .panic c

def xOpenK (key nonce ct ad : Bytes) : Res Bytes :=
  match xNew key with
  | .ok k => xOpen chachaPoly k nonce ct ad
  | .err c => .err c
  | .panic c => .panic c

def run (t : List String) : Option String := do
  match t with
  | ["hch", key, nonce] =>
    let key ← hexToBytes key; let nonce ← hexToBytes nonce
    if key.length ≠ 32 ∨ nonce.length ≠ 16 then none else
    pure (bytesToHex (hChaCha20 key nonce))
  | ["cps", key, nonce, pt, ad] =>
    let key ← hexToBytes key; let nonce ← hexToBytes nonce
    let pt ← hexToBytes pt; let ad ← hexToBytes ad
    if key.length ≠ 32 ∨ nonce.length ≠ 12 then none else
    pure s!"ok {summ (chachaPolySeal key nonce pt ad)}"
  | ["cpo", key, nonce, ct, ad] =>
    let key ← hexToBytes key; let nonce ← hexToBytes nonce
    let ct ← hexToBytes ct; let ad ← hexToBytes ad
    if key.length ≠ 32 ∨ nonce.length ≠ 12 then none else
    pure (match chachaPolyOpen key nonce ct ad with
      | some p => s!"ok {summ p}"
      | none => "err:auth")
  | ["xnew", key] =>
    let key ← hexToBytes key
    pure (match xNew key with | .ok _ => "ok" | .err c => s!"err:{c}" | .panic c => s!"panic:{c}")
  | ["xseal", key, nonce, pt, ad] =>
    let key ← hexToBytes key; let nonce ← hexToBytes nonce
    let pt ← hexToBytes pt; let ad ← hexToBytes ad
    pure (showRes (xSealK key nonce pt ad))
  | ["xopen", key, nonce, ct, ad] =>
    let key ← hexToBytes key; let nonce ← hexToBytes nonce
    let ct ← hexToBytes ct; let ad ← hexToBytes ad
    pure (showRes (xOpenK key nonce ct ad))
  | ["xmut", key, nonce, pt, ad, which, idx] =>
    let key ← hexToBytes key; let nonce ← hexToBytes nonce
    let pt ← hexToBytes pt; let ad ← hexToBytes ad
    let idx ← parseNat idx
    match xSealK key nonce pt ad with
    | .ok ct =>
      match which with
      | "ct" => pure (showRes (xOpenK key nonce (flipBit ct idx) ad))
      | "nonce" => pure (showRes (xOpenK key (flipBit nonce idx) ct ad))
      | "key" => pure (showRes (xOpenK (flipBit key idx) nonce ct ad))
      | "ad" => pure (showRes (xOpenK key nonce ct (flipBit ad idx)))
      | _ => none
    | r => pure (showRes r)
  | ["box", msg, nonce, key] =>
    let msg ← hexToBytes msg; let nonce ← hexToBytes nonce; let key ← hexToBytes key
    if key.length ≠ 32 ∨ nonce.length ≠ 24 then none else
    pure s!"ok {summ (secretboxSeal msg nonce key)}"
  | ["unbox", box, nonce, key] =>
    let box ← hexToBytes box; let nonce ← hexToBytes nonce; let key ← hexToBytes key
    if key.length ≠ 32 ∨ nonce.length ≠ 24 then none else
    pure (match secretboxOpen box nonce key with
      | some p => s!"ok {summ p}"
      | none => "err:auth")
  | ["senc", nonce, secret, pt] =>
    let nonce ← hexToBytes nonce; let secret ← hexToBytes secret; let pt ← hexToBytes pt
    if nonce.length ≠ 24 then none else
    pure (showRes (encryptSymmetric secretbox nonce pt secret))
  | ["sdec", secret, ct] =>
    let secret ← hexToBytes secret; let ct ← hexToBytes ct
    pure (showRes (decryptSymmetric secretbox ct secret))
  | ["srt", nonce, secret, pt] =>
    let nonce ← hexToBytes nonce; let secret ← hexToBytes secret; let pt ← hexToBytes pt
    if nonce.length ≠ 24 then none else
    match encryptSymmetric secretbox nonce pt secret with
    | .ok ct => pure (showRes (decryptSymmetric secretbox ct secret))
    | r => pure (showRes r)
  | ["smut", nonce, secret, pt, which, idx] =>
    let nonce ← hexToBytes nonce; let secret ← hexToBytes secret; let pt ← hexToBytes pt
    let idx ← parseNat idx
    if nonce.length ≠ 24 then none else
    match encryptSymmetric secretbox nonce pt secret with
    | .ok ct =>
      match which with
      | "ct" => pure (showRes (decryptSymmetric secretbox (flipBit ct idx) secret))
      | "secret" => pure (showRes (decryptSymmetric secretbox ct (flipBit secret idx)))
      | _ => none
    | r => pure (showRes r)
  | _ => none

def step (_ : Unit) (t : List String) : Unit × String :=
  ((), (run t).getD "err:badop")

end GnoVerif.Drive.C47

def main : IO Unit := GnoVerif.Kit.loop () GnoVerif.Drive.C47.step
