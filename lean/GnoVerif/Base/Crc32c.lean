/-
CRC-32C (Castagnoli), bit-serial, reflected form — the function Go computes as
`crc32.Checksum(p, crc32.MakeTable(crc32.Castagnoli))`.

State is a `BitVec 32`; the reflected polynomial is 0x82F63B78; bytes are fed
least-significant bit first; initial value and final xor are 0xFFFFFFFF.
Validated against `hash/crc32` by the `crc <hex>` op of the C38
correspondence run.  Core-only.
-/
namespace GnoVerif.Crc32c

abbrev poly : BitVec 32 := 0x82F63B78#32

/-- One shift of the reflected LFSR: `c>>1`, xor the polynomial if bit 0 was set. -/
def stepBit (c : BitVec 32) : BitVec 32 :=
  (c >>> 1) ^^^ (if c.getLsbD 0 then poly else 0#32)

/-- Eight shifts. -/
def step8 (c : BitVec 32) : BitVec 32 :=
  stepBit (stepBit (stepBit (stepBit (stepBit (stepBit (stepBit (stepBit c)))))))

/-- Absorb one byte: xor it into the low byte of the state, then eight shifts. -/
def stepByte (c : BitVec 32) (b : UInt8) : BitVec 32 :=
  step8 (c ^^^ (b.toBitVec.setWidth 32))

/-- Raw register update over a byte string (no initial/final inversion). -/
def update (c : BitVec 32) (bs : List UInt8) : BitVec 32 := bs.foldl stepByte c

/-- Go's `crc32.Checksum(bs, castagnoliTable)`. -/
def crc32c (bs : List UInt8) : BitVec 32 := ~~~ (update 0xFFFFFFFF#32 bs)

end GnoVerif.Crc32c
