/-
Base.Lex — byte strings ordered as Go's `bytes.Compare` (DESIGN.md §6).

`Bytes = List UInt8` with core Lean's lexicographic `<` / `≤` on lists
(`a ≤ b` is `¬ b < a`).  This file provides

* `cmp`            — `bytes.Compare` as a structural recursion, and its agreement with `<`;
* the total-order lemmas restated for `Bytes` (so users need no instance hunting);
* prefix lemmas (`hasPrefix` = `bytes.HasPrefix`, order is preserved under a common prefix);
* `prefixEnd`      — `types.PrefixEndBytes` (tm2/pkg/store/types/utils.go) with its
                     all-0xFF → nil case, and `prefix_iff_range`;
* `inDomain`       — `db.IsKeyInDomain` (tm2/pkg/db/util.go).

Core-only (links into `lean_exe` drivers).  Property-neutral.
-/
namespace GnoVerif

abbrev Bytes := List UInt8

namespace Lex

/-! ## bytes.Compare -/

/-- Go's `bytes.Compare` (`.lt` = -1, `.eq` = 0, `.gt` = +1). A nil slice and an
empty slice compare equal in Go; both are `[]` here. -/
def cmp : Bytes → Bytes → Ordering
  | [], [] => .eq
  | [], _ :: _ => .lt
  | _ :: _, [] => .gt
  | a :: as, b :: bs => if a < b then .lt else if b < a then .gt else cmp as bs

theorem cmp_lt_iff {a b : Bytes} : cmp a b = .lt ↔ a < b := by
  induction a generalizing b with
  | nil => cases b <;> simp [cmp]
  | cons x xs ih =>
    cases b with
    | nil => simp [cmp]
    | cons y ys =>
      simp only [cmp, List.cons_lt_cons_iff]
      split
      · simp_all
      · split
        · have : ¬ x < y := by assumption
          have : x ≠ y := by intro h; subst h; simp_all
          simp_all
        · have : x = y := by
            apply UInt8.le_antisymm <;> simp_all [UInt8.not_lt]
          subst this
          simp [ih]

theorem cmp_gt_iff {a b : Bytes} : cmp a b = .gt ↔ b < a := by
  induction a generalizing b with
  | nil => cases b <;> simp [cmp]
  | cons x xs ih =>
    cases b with
    | nil => simp [cmp]
    | cons y ys =>
      simp only [cmp, List.cons_lt_cons_iff]
      split
      · have h : x < y := by assumption
        have : ¬ y < x := UInt8.lt_asymm h
        have : y ≠ x := by intro h'; subst h'; simp_all
        simp_all
      · split
        · simp_all
        · have : x = y := by
            apply UInt8.le_antisymm <;> simp_all [UInt8.not_lt]
          subst this
          simp [ih]

theorem cmp_eq_iff {a b : Bytes} : cmp a b = .eq ↔ a = b := by
  induction a generalizing b with
  | nil => cases b <;> simp [cmp]
  | cons x xs ih =>
    cases b with
    | nil => simp [cmp]
    | cons y ys =>
      simp only [cmp]
      split
      · have h : x < y := by assumption
        have : x ≠ y := by intro h'; subst h'; simp_all
        simp_all
      · split
        · have h : y < x := by assumption
          have : x ≠ y := by intro h'; subst h'; simp_all
          simp_all
        · have : x = y := by
            apply UInt8.le_antisymm <;> simp_all [UInt8.not_lt]
          subst this
          simp [ih]

theorem cmp_self (a : Bytes) : cmp a a = .eq := cmp_eq_iff.2 rfl

theorem cmp_swap (a b : Bytes) : (cmp a b).swap = cmp b a := by
  cases h : cmp a b
  · have := cmp_lt_iff.1 h; simp [(cmp_gt_iff (a := b) (b := a)).2 this]
  · have := cmp_eq_iff.1 h; subst this; simp [cmp_self]
  · have := cmp_gt_iff.1 h; simp [(cmp_lt_iff (a := b) (b := a)).2 this]

/-! ## the total order, restated -/

theorem lt_irrefl (a : Bytes) : ¬ a < a := by grind
theorem lt_trans {a b c : Bytes} : a < b → b < c → a < c := by grind
theorem lt_asymm {a b : Bytes} : a < b → ¬ b < a := by grind
theorem le_refl (a : Bytes) : a ≤ a := by grind
theorem le_trans {a b c : Bytes} : a ≤ b → b ≤ c → a ≤ c := by grind
theorem le_antisymm {a b : Bytes} : a ≤ b → b ≤ a → a = b := by grind
theorem le_total (a b : Bytes) : a ≤ b ∨ b ≤ a := by grind
theorem lt_trichotomy (a b : Bytes) : a < b ∨ a = b ∨ b < a := by grind
theorem lt_of_le_of_lt {a b c : Bytes} : a ≤ b → b < c → a < c := by grind
theorem lt_of_lt_of_le {a b c : Bytes} : a < b → b ≤ c → a < c := by grind
theorem not_lt {a b : Bytes} : ¬ a < b ↔ b ≤ a := by grind
theorem not_le {a b : Bytes} : ¬ a ≤ b ↔ b < a := by grind
theorem le_iff_lt_or_eq {a b : Bytes} : a ≤ b ↔ a < b ∨ a = b := by grind
theorem le_of_lt {a b : Bytes} : a < b → a ≤ b := by grind
theorem ne_of_lt {a b : Bytes} : a < b → a ≠ b := by grind
theorem nil_le (a : Bytes) : ([] : Bytes) ≤ a := List.nil_le a
theorem not_lt_nil (a : Bytes) : ¬ a < ([] : Bytes) := List.not_lt_nil a

/-! ## prefixes -/

/-- Go's `bytes.HasPrefix(k, p)`. -/
def hasPrefix (p k : Bytes) : Bool := p.isPrefixOf k

theorem hasPrefix_iff {p k : Bytes} : hasPrefix p k = true ↔ p <+: k := by
  simp [hasPrefix]

/-- a prefix is ≤ every extension. -/
theorem prefix_le {p k : Bytes} (h : p <+: k) : p ≤ k := List.IsPrefix.le h

theorem le_append (p s : Bytes) : p ≤ p ++ s := prefix_le (List.prefix_append p s)

/-- order is preserved (and reflected) under a common prefix. -/
theorem append_lt_append_iff (p a b : Bytes) : p ++ a < p ++ b ↔ a < b := by
  induction p with
  | nil => simp
  | cons x xs ih => simp [ih]

theorem append_le_append_iff (p a b : Bytes) : p ++ a ≤ p ++ b ↔ a ≤ b := by
  rw [← not_lt, ← not_lt, append_lt_append_iff]

/-- every key between two keys with a common prefix carries that prefix. -/
theorem prefix_of_between {p a b k : Bytes} (h1 : p ++ a ≤ k) (h2 : k < p ++ b) : p <+: k := by
  induction p generalizing k with
  | nil => simp
  | cons x xs ih =>
    cases k with
    | nil => simp at h1
    | cons y ys =>
      simp only [List.cons_append, List.cons_lt_cons_iff] at h2
      have h1' : ¬ (y :: ys < x :: (xs ++ a)) := h1
      simp only [List.cons_lt_cons_iff] at h1'
      have hxy : x = y := by
        apply UInt8.le_antisymm
        · rcases h2 with h | ⟨h, _⟩
          · exfalso; grind
          · simp [h]
        · grind
      subst hxy
      have h3 : ys < xs ++ b := by grind
      have h4 : xs ++ a ≤ ys := by
        rw [← not_lt]; intro h; exact h1' (Or.inr ⟨rfl, h⟩)
      have := ih h4 h3
      simpa using this

theorem strip_append (p s : Bytes) : (p ++ s).drop p.length = s := by simp

theorem prefix_eq_append {p k : Bytes} (h : p <+: k) : k = p ++ k.drop p.length := by
  obtain ⟨t, rfl⟩ := h
  simp

/-! ## PrefixEndBytes -/

/-- Go's `types.PrefixEndBytes`: the smallest byte string greater than every
string with prefix `p`, or `none` (Go `nil`, "unbounded") when `p` is empty or
all `0xFF`.  Go's loop strips trailing `0xFF` bytes and increments the last
remaining byte; this is the same function by recursion from the front: the
tail is handled first, and only when the tail is exhausted (all `0xFF`) is the
head byte incremented and the tail dropped. -/
def prefixEnd : Bytes → Option Bytes
  | [] => none
  | b :: rest =>
    match prefixEnd rest with
    | some r => some (b :: r)
    | none => if b = 255 then none else some [b + 1]

theorem prefixEnd_eq_none_iff {p : Bytes} : prefixEnd p = none ↔ ∀ b ∈ p, b = 255 := by
  induction p with
  | nil => simp [prefixEnd]
  | cons b rest ih =>
    simp only [prefixEnd]
    cases h : prefixEnd rest with
    | some r =>
      have : ¬ ∀ b ∈ rest, b = 255 := by rw [← ih]; simp [h]
      simp_all
    | none =>
      have := ih.1 h
      by_cases hb : b = 255
      · simp [hb]; exact this
      · simp [hb]

private theorem u8_lt_succ_iff {b c : UInt8} (hb : b ≠ 255) : c < b + 1 ↔ c ≤ b := by
  have h1 : b.toNat ≠ 255 := by
    intro h; apply hb; apply UInt8.toNat_inj.1; simpa using h
  have h2 : b.toNat < 256 := UInt8.toNat_lt b
  rw [UInt8.lt_iff_toNat_lt, UInt8.le_iff_toNat_le, UInt8.toNat_add]
  simp
  omega

/-- **PrefixEndBytes characterises the keys with prefix `p`**: `k` has prefix
`p` iff `p ≤ k` and `k` is below `prefixEnd p` (no upper bound when it is nil). -/
theorem prefix_iff_range (p k : Bytes) :
    p <+: k ↔ p ≤ k ∧ (∀ e, prefixEnd p = some e → k < e) := by
  induction p generalizing k with
  | nil => simp [prefixEnd]
  | cons b rest ih =>
    cases k with
    | nil => simp
    | cons c ks =>
      have hle : (b :: rest ≤ c :: ks) ↔ (b < c ∨ (b = c ∧ rest ≤ ks)) := by
        rw [← not_lt, List.cons_lt_cons_iff, ← not_lt]
        constructor
        · intro h
          by_cases hbc : b = c
          · subst hbc; right; exact ⟨rfl, fun h' => h (Or.inr ⟨rfl, h'⟩)⟩
          · left
            apply UInt8.lt_of_le_of_ne _ hbc
            rw [← UInt8.not_lt]; intro h'; exact h (Or.inl h')
        · rintro (h | ⟨h, h'⟩) (g | ⟨g, g'⟩)
          · exact UInt8.lt_asymm h g
          · subst g; exact UInt8.lt_irrefl _ h
          · subst h; exact UInt8.lt_irrefl _ g
          · exact h' g'
      rw [List.cons_prefix_cons, hle, ih ks]
      simp only [prefixEnd]
      cases hr : prefixEnd rest with
      | some r =>
        simp only [Option.some.injEq, forall_eq', List.cons_lt_cons_iff]
        constructor
        · rintro ⟨rfl, h1, h2⟩
          exact ⟨Or.inr ⟨rfl, h1⟩, Or.inr ⟨rfl, h2⟩⟩
        · rintro ⟨h1 | ⟨rfl, h1⟩, h2 | ⟨h2, h3⟩⟩
          · exact absurd h2 (UInt8.lt_asymm h1)
          · subst h2; exact absurd h1 (UInt8.lt_irrefl _)
          · exact absurd h2 (UInt8.lt_irrefl _)
          · exact ⟨rfl, h1, h3⟩
      | none =>
        by_cases hb : b = 255
        · subst hb
          simp only [if_true, reduceCtorEq, false_imp_iff, implies_true, and_true]
          constructor
          · rintro ⟨rfl, h1⟩; exact Or.inr ⟨rfl, h1⟩
          · rintro (h | ⟨rfl, h1⟩)
            · exfalso
              have := UInt8.toNat_lt c
              rw [UInt8.lt_iff_toNat_lt] at h
              simp at h; omega
            · exact ⟨rfl, h1⟩
        · simp only [hb, if_false, Option.some.injEq, forall_eq', List.cons_lt_cons_iff,
            List.not_lt_nil, and_false, or_false, reduceCtorEq, false_imp_iff, implies_true, and_true]
          rw [u8_lt_succ_iff hb]
          constructor
          · rintro ⟨rfl, h1⟩; exact ⟨Or.inr ⟨rfl, h1⟩, UInt8.le_refl _⟩
          · rintro ⟨h1 | ⟨rfl, h1⟩, h2⟩
            · exact absurd h1 (by rw [UInt8.not_lt]; exact h2)
            · exact ⟨rfl, h1⟩

/-- the form used by range queries: `p ≤ k ∧ (prefixEnd p = none ∨ k < prefixEnd p) ↔ p <+: k`. -/
theorem range_iff_prefix (p k : Bytes) :
    (p ≤ k ∧ (prefixEnd p = none ∨ ∃ e, prefixEnd p = some e ∧ k < e)) ↔ p <+: k := by
  rw [prefix_iff_range]
  cases prefixEnd p <;> simp

theorem lt_prefixEnd {p e : Bytes} (h : prefixEnd p = some e) : p < e :=
  ((prefix_iff_range p p).1 (List.prefix_refl p)).2 e h

/-! ## IsKeyInDomain -/

/-- Go's `db.IsKeyInDomain(key, start, end)`: `start ≤ key` (a nil start is the
empty string, which is ≤ everything) and, unless `end` is nil, `key < end`. -/
def inDomain (k : Bytes) (s e : Option Bytes) : Bool :=
  (match s with | none => true | some s => decide (s ≤ k)) &&
  (match e with | none => true | some e => decide (k < e))

theorem inDomain_iff {k : Bytes} {s e : Option Bytes} :
    inDomain k s e = true ↔ (∀ a, s = some a → a ≤ k) ∧ (∀ b, e = some b → k < b) := by
  cases s <;> cases e <;> simp [inDomain]

/-- a nil start and an empty start are the same domain. -/
theorem inDomain_none_start (k : Bytes) (e : Option Bytes) :
    inDomain k none e = inDomain k (some []) e := by
  cases e <;> simp [inDomain]

end Lex
end GnoVerif
