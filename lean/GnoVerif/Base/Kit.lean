/-
Driver kit: the line protocol shared by every model driver (DESIGN.md App. A).
One operation per input line, exactly one output line per input line.
A line starting with `#` is a case boundary: the driver resets its state and
answers `#`.  Core-only (no Mathlib) so that drivers link as `lean_exe`.
-/
namespace GnoVerif.Kit

def words (s : String) : List String :=
  (s.splitOn " ").filter (· ≠ "")

def trimLine (s : String) : String :=
  let s := if s.endsWith "\n" then (s.dropEnd 1).toString else s
  if s.endsWith "\r" then (s.dropEnd 1).toString else s

/-- Run `step` over stdin; `init` is restored at every `#` line. -/
partial def loop {σ : Type} (init : σ) (step : σ → List String → σ × String) : IO Unit := do
  let stdin ← IO.getStdin
  let stdout ← IO.getStdout
  let rec go (s : σ) (n : Nat) : IO Unit := do
    let line ← stdin.getLine
    if line.isEmpty then
      stdout.flush
      return ()
    let l := trimLine line
    if l.startsWith "#" then
      stdout.putStrLn "#"
      go init (n+1)
    else
      let (s', out) := step s (words l)
      stdout.putStrLn out
      if n % 256 == 0 then stdout.flush
      go s' (n+1)
  go init 0

def hexDigit (c : Char) : Option Nat :=
  if '0' ≤ c ∧ c ≤ '9' then some (c.toNat - '0'.toNat)
  else if 'a' ≤ c ∧ c ≤ 'f' then some (c.toNat - 'a'.toNat + 10)
  else if 'A' ≤ c ∧ c ≤ 'F' then some (c.toNat - 'A'.toNat + 10)
  else none

/-- bytes: lowercase hex; `e` = empty; `-` = nil (returned as `none` by `hexOpt`). -/
def hexToBytes (s : String) : Option (List UInt8) :=
  if s == "e" then some [] else
  let rec go : List Char → List UInt8 → Option (List UInt8)
    | [], acc => some acc.reverse
    | [_], _ => none
    | a :: b :: rest, acc =>
      match hexDigit a, hexDigit b with
      | some x, some y => go rest (UInt8.ofNat (x*16+y) :: acc)
      | _, _ => none
  go s.toList []

def hexOpt (s : String) : Option (Option (List UInt8)) :=
  if s == "-" then some none else (hexToBytes s).map some

def nibble (n : Nat) : Char :=
  if n < 10 then Char.ofNat (n + '0'.toNat) else Char.ofNat (n - 10 + 'a'.toNat)

def bytesToHex (bs : List UInt8) : String :=
  if bs.isEmpty then "e" else
  String.ofList (bs.flatMap fun b => [nibble (b.toNat / 16), nibble (b.toNat % 16)])

def optBytesToHex : Option (List UInt8) → String
  | none => "-"
  | some bs => bytesToHex bs

def parseInt (s : String) : Option Int := s.toInt?
def parseNat (s : String) : Option Nat := s.toNat?

def boolStr (b : Bool) : String := if b then "true" else "false"

end GnoVerif.Kit
