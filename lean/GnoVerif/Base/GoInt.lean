/-
Go fixed-width integer semantics over `BitVec w`, used by the T-int
translator's output (Gen/*.lean).  `sg = true` means a signed Go type.
Core-only.
-/
namespace GnoVerif.GoInt

/-- An integer constant of a `w`-bit Go type (the Go type checker guarantees it fits). -/
abbrev lit (w : Nat) (v : Int) : BitVec w := BitVec.ofInt w v

def lt {w : Nat} (sg : Bool) (a b : BitVec w) : Bool := if sg then a.slt b else a.ult b
def le {w : Nat} (sg : Bool) (a b : BitVec w) : Bool := if sg then a.sle b else a.ule b
def gt {w : Nat} (sg : Bool) (a b : BitVec w) : Bool := lt sg b a
def ge {w : Nat} (sg : Bool) (a b : BitVec w) : Bool := le sg b a

/-- Go `/`: truncated quotient; run-time panic on a zero divisor. `MinInt / -1` wraps. -/
def div {w : Nat} (sg : Bool) (a b : BitVec w) : Except String (BitVec w) :=
  if b == 0#w then throw "integer divide by zero"
  else pure (if sg then a.sdiv b else a.udiv b)

/-- Go `%`: remainder with the sign of the dividend; panic on a zero divisor. -/
def rem {w : Nat} (sg : Bool) (a b : BitVec w) : Except String (BitVec w) :=
  if b == 0#w then throw "integer divide by zero"
  else pure (if sg then a.srem b else a.umod b)

/-- Go `x << n` (n of an unsigned type, or a non-negative signed value — a
negative signed count panics in Go; the translator's clients never shift by a
signed variable, and `shl` treats the count as unsigned). -/
def shl {w v : Nat} (_sgx _sgn : Bool) (x : BitVec w) (n : BitVec v) : BitVec w := x <<< n.toNat

/-- Go `x >> n`: logical for unsigned `x`, arithmetic for signed `x`. -/
def shr {w v : Nat} (sgx _sgn : Bool) (x : BitVec w) (n : BitVec v) : BitVec w :=
  if sgx then x.sshiftRight n.toNat else x >>> n.toNat

/-- Go integer conversion `T(x)`: sign- or zero-extend (by the *source* signedness), or truncate. -/
def conv {w : Nat} (sgFrom : Bool) (v : Nat) (x : BitVec w) : BitVec v :=
  if sgFrom then x.signExtend v else x.setWidth v

/-- The mathematical integer a Go value denotes. -/
def toInt {w : Nat} (sg : Bool) (a : BitVec w) : Int := if sg then a.toInt else (a.toNat : Int)

/-- Smallest / largest value of the type. -/
def minVal (w : Nat) (sg : Bool) : Int := if sg then -(2 ^ (w - 1) : Int) else 0
def maxVal (w : Nat) (sg : Bool) : Int := if sg then (2 ^ (w - 1) : Int) - 1 else (2 ^ w : Int) - 1

def inRange (w : Nat) (sg : Bool) (x : Int) : Prop := minVal w sg ≤ x ∧ x ≤ maxVal w sg

instance (w : Nat) (sg : Bool) (x : Int) : Decidable (inRange w sg x) := by
  unfold inRange; infer_instance

end GnoVerif.GoInt
