/-
Base.Sha256 — an executable SHA-256 (FIPS 180-4) over `List UInt8`, written
with `UInt32` arithmetic.  Core-only (links into `lean_exe` drivers).

It is a *shared library*: drivers instantiate the hash parameter `H` of the
Merkle models with `sha256`.  It is validated against Go's `crypto/sha256` by
the correspondence run of C25 (op `sha <hex>`: lengths around the 55/56/63/64/
119/120 padding boundaries + random).

NO theorem about Merkle trees depends on the internals of this file: every
such theorem is parametric in `H : List UInt8 → List UInt8`.  The only fact
proved here is the output length (`sha256_length`), which lets a parametric
theorem with the hypothesis "H has fixed output size" be instantiated.
-/
namespace GnoVerif.Sha256

def K : Array UInt32 := #[
  0x428a2f98, 0x71374491, 0xb5c0fbcf, 0xe9b5dba5, 0x3956c25b, 0x59f111f1, 0x923f82a4, 0xab1c5ed5,
  0xd807aa98, 0x12835b01, 0x243185be, 0x550c7dc3, 0x72be5d74, 0x80deb1fe, 0x9bdc06a7, 0xc19bf174,
  0xe49b69c1, 0xefbe4786, 0x0fc19dc6, 0x240ca1cc, 0x2de92c6f, 0x4a7484aa, 0x5cb0a9dc, 0x76f988da,
  0x983e5152, 0xa831c66d, 0xb00327c8, 0xbf597fc7, 0xc6e00bf3, 0xd5a79147, 0x06ca6351, 0x14292967,
  0x27b70a85, 0x2e1b2138, 0x4d2c6dfc, 0x53380d13, 0x650a7354, 0x766a0abb, 0x81c2c92e, 0x92722c85,
  0xa2bfe8a1, 0xa81a664b, 0xc24b8b70, 0xc76c51a3, 0xd192e819, 0xd6990624, 0xf40e3585, 0x106aa070,
  0x19a4c116, 0x1e376c08, 0x2748774c, 0x34b0bcb5, 0x391c0cb3, 0x4ed8aa4a, 0x5b9cca4f, 0x682e6ff3,
  0x748f82ee, 0x78a5636f, 0x84c87814, 0x8cc70208, 0x90befffa, 0xa4506ceb, 0xbef9a3f7, 0xc67178f2]

@[inline] def rotr (x : UInt32) (n : UInt32) : UInt32 := (x >>> n) ||| (x <<< (32 - n))

structure State where
  a : UInt32
  b : UInt32
  c : UInt32
  d : UInt32
  e : UInt32
  f : UInt32
  g : UInt32
  h : UInt32

def init : State :=
  ⟨0x6a09e667, 0xbb67ae85, 0x3c6ef372, 0xa54ff53a, 0x510e527f, 0x9b05688c, 0x1f83d9ab, 0x5be0cd19⟩

/-- big-endian bytes of a 32-bit word -/
def be32 (x : UInt32) : List UInt8 :=
  [(x >>> 24).toUInt8, (x >>> 16).toUInt8, (x >>> 8).toUInt8, x.toUInt8]

/-- the 64-bit big-endian bit length of an `n`-byte message -/
def lenBytes (n : Nat) : List UInt8 :=
  let bits := (n * 8) % 2 ^ 64
  (List.range 8).map fun i => UInt8.ofNat ((bits >>> (8 * (7 - i))) % 256)

/-- message ‖ 0x80 ‖ 0…0 ‖ bitlen64, a multiple of 64 bytes -/
def pad (msg : List UInt8) : Array UInt8 :=
  let n := msg.length
  let z := (64 - (n + 9) % 64) % 64
  (msg ++ 0x80 :: (List.replicate z 0 ++ lenBytes n)).toArray

@[inline] def word (bs : Array UInt8) (off : Nat) : UInt32 :=
  (bs[off]!.toUInt32 <<< 24) ||| (bs[off+1]!.toUInt32 <<< 16) |||
  (bs[off+2]!.toUInt32 <<< 8) ||| bs[off+3]!.toUInt32

/-- the 64-word message schedule of the block starting at byte `off` -/
def schedule (bs : Array UInt8) (off : Nat) : Array UInt32 := Id.run do
  let mut w : Array UInt32 := Array.mkEmpty 64
  for i in [0:16] do
    w := w.push (word bs (off + 4 * i))
  for i in [16:64] do
    let w15 := w[i-15]!
    let w2 := w[i-2]!
    let s0 := rotr w15 7 ^^^ rotr w15 18 ^^^ (w15 >>> 3)
    let s1 := rotr w2 17 ^^^ rotr w2 19 ^^^ (w2 >>> 10)
    w := w.push (w[i-16]! + s0 + w[i-7]! + s1)
  return w

def compress (s : State) (w : Array UInt32) : State := Id.run do
  let mut a := s.a
  let mut b := s.b
  let mut c := s.c
  let mut d := s.d
  let mut e := s.e
  let mut f := s.f
  let mut g := s.g
  let mut h := s.h
  for i in [0:64] do
    let S1 := rotr e 6 ^^^ rotr e 11 ^^^ rotr e 25
    let ch := (e &&& f) ^^^ ((~~~ e) &&& g)
    let t1 := h + S1 + ch + K[i]! + w[i]!
    let S0 := rotr a 2 ^^^ rotr a 13 ^^^ rotr a 22
    let maj := (a &&& b) ^^^ (a &&& c) ^^^ (b &&& c)
    let t2 := S0 + maj
    h := g
    g := f
    f := e
    e := d + t1
    d := c
    c := b
    b := a
    a := t1 + t2
  return ⟨s.a + a, s.b + b, s.c + c, s.d + d, s.e + e, s.f + f, s.g + g, s.h + h⟩

def digest (s : State) : List UInt8 :=
  be32 s.a ++ be32 s.b ++ be32 s.c ++ be32 s.d ++ be32 s.e ++ be32 s.f ++ be32 s.g ++ be32 s.h

def finalState (msg : List UInt8) : State := Id.run do
  let bs := pad msg
  let mut s := init
  for blk in [0:bs.size / 64] do
    s := compress s (schedule bs (blk * 64))
  return s

/-- SHA-256 of a byte string; always 32 bytes. -/
def sha256 (msg : List UInt8) : List UInt8 := digest (finalState msg)

theorem digest_length (s : State) : (digest s).length = 32 := by
  simp [digest, be32]

/-- The only fact about SHA-256 any other file may use: the output size. -/
theorem sha256_length (msg : List UInt8) : (sha256 msg).length = 32 :=
  digest_length _

end GnoVerif.Sha256
