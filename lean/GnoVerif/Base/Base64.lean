/-
base64, standard alphabet, NO padding — Go's
`base64.StdEncoding.WithPadding(base64.NoPadding)` as used by
tm2/pkg/bft/wal (`base64stdnp`).

`encode` = `EncodeToString`.  `decode` = `DecodeString` in its default
(non-strict) mode, mirrored quirk by quirk:
  * the bytes '\r' (13) and '\n' (10) are skipped wherever they occur;
  * any other byte outside the alphabet — including '=' , since there is no
    padding character — is a CorruptInputError;
  * a final group of 2 characters yields 1 byte, of 3 characters 2 bytes, and
    the unused low bits of the last character are IGNORED (not required to be
    zero); a final group of 1 character is an error.
Arithmetic is on `Nat` (div/mod) so that `omega` can reason about it.
Validated against encoding/base64 by the `b64`/`unb64` ops of the C38
correspondence run.  Core-only.
-/
namespace GnoVerif.Base64

abbrev Bytes := List UInt8

/-- The character for a 6-bit value (`n < 64`). -/
def encChar (n : Nat) : UInt8 :=
  if n < 26 then UInt8.ofNat (65 + n)
  else if n < 52 then UInt8.ofNat (71 + n)        -- 'a' = 97 = 71 + 26
  else if n < 62 then UInt8.ofNat (n - 4)         -- '0' = 48 = 52 - 4
  else if n = 62 then 43                          -- '+'
  else 47                                         -- '/'

/-- The 6-bit value of an alphabet character. -/
def decChar (c : UInt8) : Option Nat :=
  let v := c.toNat
  if 65 ≤ v ∧ v ≤ 90 then some (v - 65)
  else if 97 ≤ v ∧ v ≤ 122 then some (v - 71)
  else if 48 ≤ v ∧ v ≤ 57 then some (v + 4)
  else if v = 43 then some 62
  else if v = 47 then some 63
  else none

def encode : Bytes → Bytes
  | a :: b :: c :: rest =>
      encChar (a.toNat / 4)
      :: encChar (a.toNat % 4 * 16 + b.toNat / 16)
      :: encChar (b.toNat % 16 * 4 + c.toNat / 64)
      :: encChar (c.toNat % 64)
      :: encode rest
  | [a, b] =>
      [encChar (a.toNat / 4), encChar (a.toNat % 4 * 16 + b.toNat / 16), encChar (b.toNat % 16 * 4)]
  | [a] => [encChar (a.toNat / 4), encChar (a.toNat % 4 * 16)]
  | [] => []

/-- Decode a text from which '\r' and '\n' have already been removed. -/
def decodeGroups : Bytes → Option Bytes
  | c0 :: c1 :: c2 :: c3 :: rest =>
      match decChar c0, decChar c1, decChar c2, decChar c3 with
      | some v0, some v1, some v2, some v3 =>
          match decodeGroups rest with
          | some out =>
              some (UInt8.ofNat (v0 * 4 + v1 / 16) :: UInt8.ofNat (v1 % 16 * 16 + v2 / 4)
                    :: UInt8.ofNat (v2 % 4 * 64 + v3) :: out)
          | none => none
      | _, _, _, _ => none
  | [c0, c1, c2] =>
      match decChar c0, decChar c1, decChar c2 with
      | some v0, some v1, some v2 =>
          some [UInt8.ofNat (v0 * 4 + v1 / 16), UInt8.ofNat (v1 % 16 * 16 + v2 / 4)]
      | _, _, _ => none
  | [c0, c1] =>
      match decChar c0, decChar c1 with
      | some v0, some v1 => some [UInt8.ofNat (v0 * 4 + v1 / 16)]
      | _, _ => none
  | [_] => none
  | [] => some []

/-- Go's decoder drops CR and LF before looking at a character. -/
def isSkipped (c : UInt8) : Bool := c == 13 || c == 10

def decode (s : Bytes) : Option Bytes :=
  decodeGroups (s.filter (fun c => !isSkipped c))

end GnoVerif.Base64
