/-
Executable SHA-256 (FIPS 180-4) on byte lists, used ONLY by the C23/C24 drivers
to instantiate the hash parameter of the B+ tree hash model (Model.C24Hash)
with the function the real code uses (`crypto/sha256`).

No theorem depends on this file: every C24 theorem is parametric in the hash
function.  The implementation is validated on every run by the C23/C24
correspondence checks (the model's root hashes are compared byte-for-byte with
those of the real tree after every save).

Copy of Base/C39Sha256.lean under a property-specific name (AGENT_BRIEF: shared
files of other builders are not to be depended on); can be replaced by a
common `Base/Sha256.lean` once one exists.
Core-only.
-/
namespace GnoVerif.C24Sha

def K : Array UInt32 := #[
  0x428a2f98, 0x71374491, 0xb5c0fbcf, 0xe9b5dba5, 0x3956c25b, 0x59f111f1, 0x923f82a4, 0xab1c5ed5,
  0xd807aa98, 0x12835b01, 0x243185be, 0x550c7dc3, 0x72be5d74, 0x80deb1fe, 0x9bdc06a7, 0xc19bf174,
  0xe49b69c1, 0xefbe4786, 0x0fc19dc6, 0x240ca1cc, 0x2de92c6f, 0x4a7484aa, 0x5cb0a9dc, 0x76f988da,
  0x983e5152, 0xa831c66d, 0xb00327c8, 0xbf597fc7, 0xc6e00bf3, 0xd5a79147, 0x06ca6351, 0x14292967,
  0x27b70a85, 0x2e1b2138, 0x4d2c6dfc, 0x53380d13, 0x650a7354, 0x766a0abb, 0x81c2c92e, 0x92722c85,
  0xa2bfe8a1, 0xa81a664b, 0xc24b8b70, 0xc76c51a3, 0xd192e819, 0xd6990624, 0xf40e3585, 0x106aa070,
  0x19a4c116, 0x1e376c08, 0x2748774c, 0x34b0bcb5, 0x391c0cb3, 0x4ed8aa4a, 0x5b9cca4f, 0x682e6ff3,
  0x748f82ee, 0x78a5636f, 0x84c87814, 0x8cc70208, 0x90befffa, 0xa4506ceb, 0xbef9a3f7, 0xc67178f2]

def H0 : Array UInt32 := #[
  0x6a09e667, 0xbb67ae85, 0x3c6ef372, 0xa54ff53a, 0x510e527f, 0x9b05688c, 0x1f83d9ab, 0x5be0cd19]

@[inline] def rotr (x : UInt32) (n : UInt32) : UInt32 := (x >>> n) ||| (x <<< (32 - n))

/-- message ‖ 0x80 ‖ 0…0 ‖ 64-bit big-endian bit length; size ≡ 0 (mod 64). -/
def pad (msg : ByteArray) : ByteArray := Id.run do
  let bitLen : Nat := msg.size * 8
  let mut m := msg.push 0x80
  let zeros := (120 - (m.size % 64)) % 64
  for _ in [0:zeros] do
    m := m.push 0
  for i in [0:8] do
    m := m.push (UInt8.ofNat ((bitLen >>> (8 * (7 - i))) % 256))
  return m

@[inline] def be32 (b : ByteArray) (off : Nat) : UInt32 :=
  ((b.get! off).toUInt32 <<< 24) ||| ((b.get! (off+1)).toUInt32 <<< 16) |||
  ((b.get! (off+2)).toUInt32 <<< 8) ||| (b.get! (off+3)).toUInt32

def compress (h : Array UInt32) (blk : ByteArray) (off : Nat) : Array UInt32 := Id.run do
  let mut w : Array UInt32 := Array.mkEmpty 64
  for t in [0:16] do
    w := w.push (be32 blk (off + 4*t))
  for t in [16:64] do
    let w15 := w[t-15]!
    let w2 := w[t-2]!
    let s0 := rotr w15 7 ^^^ rotr w15 18 ^^^ (w15 >>> 3)
    let s1 := rotr w2 17 ^^^ rotr w2 19 ^^^ (w2 >>> 10)
    w := w.push (w[t-16]! + s0 + w[t-7]! + s1)
  let mut a := h[0]!
  let mut b := h[1]!
  let mut c := h[2]!
  let mut d := h[3]!
  let mut e := h[4]!
  let mut f := h[5]!
  let mut g := h[6]!
  let mut hh := h[7]!
  for t in [0:64] do
    let S1 := rotr e 6 ^^^ rotr e 11 ^^^ rotr e 25
    let ch := (e &&& f) ^^^ ((~~~ e) &&& g)
    let t1 := hh + S1 + ch + K[t]! + w[t]!
    let S0 := rotr a 2 ^^^ rotr a 13 ^^^ rotr a 22
    let maj := (a &&& b) ^^^ (a &&& c) ^^^ (b &&& c)
    let t2 := S0 + maj
    hh := g
    g := f
    f := e
    e := d + t1
    d := c
    c := b
    b := a
    a := t1 + t2
  return #[h[0]! + a, h[1]! + b, h[2]! + c, h[3]! + d, h[4]! + e, h[5]! + f, h[6]! + g, h[7]! + hh]

def sha256Bytes (msg : ByteArray) : ByteArray := Id.run do
  let m := pad msg
  let mut h := H0
  for i in [0:m.size / 64] do
    h := compress h m (64 * i)
  let mut out := ByteArray.emptyWithCapacity 32
  for x in h do
    out := out.push (x >>> 24).toUInt8
    out := out.push (x >>> 16).toUInt8
    out := out.push (x >>> 8).toUInt8
    out := out.push x.toUInt8
  return out

/-- SHA-256 on byte lists (the representation the models use). -/
def sha256 (msg : List UInt8) : List UInt8 :=
  (sha256Bytes (ByteArray.mk msg.toArray)).toList

end GnoVerif.C24Sha
