import GnoVerif.Model.C02RunTx
import GnoVerif.Model.C02Vm
import GnoVerif.Proofs.C02RunTx
/-!
# C02 — transactions are atomic

Theorems about `runTx` of `Model/C02RunTx.lean` (the model of
`BaseApp.runTx`, tm2/pkg/sdk/baseapp.go).  Stores are write logs (most recent
first): `ws ++ s` is "`s` with the writes `ws` applied", so the equations below
are exactly "state = old state ⊕ these writes".

* `anteW tx`  = the store effects of the ante script (fee payment, sequence increment);
* `msgW tx`   = the store effects of ALL messages of the tx;
* `out.vm`    = the persistent side cache that `endTxHook` commits (the analogue of
                the gno transaction store wired in gno.land/pkg/gnoland/app.go).

Every theorem quantifies over every tx script (any number of messages, any
failure at any step: error, panic, out-of-gas panic, gas consumption past the tx
limit, gas overflow, negative gas, failed requirement, unroutable or invalid
message, ante abort / panic / contract violation, undecodable bytes), every store,
every block-meter state and every context meter.

NOT proved here (residual, see props/C02.json): that the real gno.land message
handlers keep all their mutable state inside the multistore and the gno
transaction store.  The statement's clause about the VM's in-memory caches, Gno
panics, out-of-gas inside Gno code and storage-deposit failures in the real VM
keeper are covered by the SECOND correspondence stream only (differential
replay through the real gno.land application, harness/cmd/c02/vm.go), whose
verdict is an oracle on real store dumps.  The `vm_summary_*` theorems at the
end of this file are about the thin summary model that stream is also compared
with (Model/C02Vm.lean): they say that the summary the real application must
reproduce line by line is itself "failed ⇒ only the ante effect".
-/
namespace GnoVerif.C02
open GnoVerif.C10

/-- The full statement on the model: a delivered tx either succeeds with all its
effects, or fails with the ante effects only (none if the ante did not complete),
and a failed tx never commits the tx-scoped side cache. -/
def atomic_statement : Prop :=
  ∀ (tx : Tx) (parent : Store) (block ctxMeter : Meter) (vm : Store),
    (runTx .deliver tx parent block ctxMeter vm).crash = false →
    ((runTx .deliver tx parent block ctxMeter vm).res = .ok ∧
      (runTx .deliver tx parent block ctxMeter vm).store = msgW tx ++ (anteW tx ++ parent) ∧
      (runTx .deliver tx parent block ctxMeter vm).vm = msgW tx ++ vm) ∨
    ((runTx .deliver tx parent block ctxMeter vm).res ≠ .ok ∧
      (runTx .deliver tx parent block ctxMeter vm).store =
        (if (runTx .deliver tx parent block ctxMeter vm).anteDone = true then anteW tx ++ parent else parent) ∧
      (runTx .deliver tx parent block ctxMeter vm).vm = vm)

/-- A DeliverTx reported as failed — whatever the cause — leaves the deliver state
equal to the old state with only the ante writes applied (unchanged if the ante
handler did not complete), does not touch the side cache, and `endTxHook` never
saw an OK result. -/
theorem deliver_failed_only_ante_effects (tx : Tx) (parent : Store) (block ctxMeter : Meter) (vm : Store)
    (h : (runTx .deliver tx parent block ctxMeter vm).res ≠ .ok) :
    (runTx .deliver tx parent block ctxMeter vm).store =
      (if (runTx .deliver tx parent block ctxMeter vm).anteDone = true then anteW tx ++ parent else parent) ∧
    (runTx .deliver tx parent block ctxMeter vm).vm = vm ∧
    (runTx .deliver tx parent block ctxMeter vm).hook ≠ .ok := by
  unfold runTx at h ⊢
  rcases runTx_deliver_cases finishDeliver tx parent block ctxMeter vm with e | ⟨head, _, _, _, e⟩ | ⟨head, _, _, _, e⟩
  · rw [e] at h; exact absurd rfl h
  · rw [e]; exact ⟨rfl, rfl, by simp [Frame.out, Frame.init]⟩
  · rw [e] at h ⊢
    exact (runFrame_spec tx _ (fresh_init parent block (Meter.pass ctxMeter head) vm block.gasConsumed)).2 h

/-- A DeliverTx reported as OK has applied the ante writes and the writes of all
its messages, and committed the side cache with exactly the message writes. -/
theorem deliver_ok_all_effects (tx : Tx) (parent : Store) (block ctxMeter : Meter) (vm : Store)
    (hc : (runTx .deliver tx parent block ctxMeter vm).crash = false)
    (h : (runTx .deliver tx parent block ctxMeter vm).res = .ok) :
    (runTx .deliver tx parent block ctxMeter vm).anteDone = true ∧
    (runTx .deliver tx parent block ctxMeter vm).store = msgW tx ++ (anteW tx ++ parent) ∧
    (runTx .deliver tx parent block ctxMeter vm).vm = msgW tx ++ vm ∧
    (runTx .deliver tx parent block ctxMeter vm).hook = .ok := by
  unfold runTx at h hc ⊢
  rcases runTx_deliver_cases finishDeliver tx parent block ctxMeter vm with e | ⟨head, _, _, _, e⟩ | ⟨head, _, _, _, e⟩
  · rw [e] at hc; cases hc
  · rw [e] at h; cases h
  · rw [e] at h ⊢
    exact (runFrame_spec tx _ (fresh_init parent block (Meter.pass ctxMeter head) vm block.gasConsumed)).1 h

/-- the `crash = false` hypothesis above always holds for a block meter installed by
BeginBlock (in any state charging can bring it to): runTx's prelude cannot panic -/
theorem no_crash (tx : Tx) (parent : Store) (block ctxMeter : Meter) (vm : Store) (hwf : BlockWF block) :
    (runTx .deliver tx parent block ctxMeter vm).crash = false :=
  runTx_no_crash finishDeliver tx parent block ctxMeter vm hwf

/-- the statement holds on the model as it is now (after the fix f77314a29b) -/
theorem atomic : atomic_statement := by
  intro tx parent block ctxMeter vm hc
  by_cases hr : (runTx .deliver tx parent block ctxMeter vm).res = .ok
  · have := deliver_ok_all_effects tx parent block ctxMeter vm hc hr
    exact .inl ⟨hr, this.2.1, this.2.2.1⟩
  · have := deliver_failed_only_ante_effects tx parent block ctxMeter vm hr
    exact .inr ⟨hr, this.1, this.2.1⟩

/-- CheckTx runs no message; it flushes the ante writes into the check state iff
the ante completed, and touches neither the side cache nor the block meter. -/
theorem check_writes_ante_only (tx : Tx) (parent : Store) (block ctxMeter : Meter) (vm : Store) :
    ((runTx .check tx parent block ctxMeter vm).res = .ok →
        (runTx .check tx parent block ctxMeter vm).store = anteW tx ++ parent) ∧
    ((runTx .check tx parent block ctxMeter vm).res ≠ .ok →
        (runTx .check tx parent block ctxMeter vm).store = parent) ∧
    (runTx .check tx parent block ctxMeter vm).vm = vm ∧
    (runTx .check tx parent block ctxMeter vm).hook = .none ∧
    (runTx .check tx parent block ctxMeter vm).block = block ∧
    (runTx .check tx parent block ctxMeter vm).msgsRan = 0 := by
  have := runFrame_check finishDeliver tx (Frame.init .check parent block ctxMeter vm) rfl rfl rfl rfl rfl rfl
  exact ⟨fun h => (this.1 h).2, this.2.1, this.2.2.1, this.2.2.2.1, this.2.2.2.2.1, this.2.2.2.2.2⟩

/-- Simulate writes nothing: not to the store it ran on, not to the side cache,
not to the block meter; `endTxHook` is never called. -/
theorem simulate_writes_nothing (tx : Tx) (parent : Store) (block ctxMeter : Meter) (vm : Store) :
    (runTx .simulate tx parent block ctxMeter vm).store = parent ∧
    (runTx .simulate tx parent block ctxMeter vm).vm = vm ∧
    (runTx .simulate tx parent block ctxMeter vm).hook = .none ∧
    (runTx .simulate tx parent block ctxMeter vm).block = block :=
  runFrame_simulate finishDeliver tx (Frame.init .simulate parent block ctxMeter vm) rfl rfl

/-! ## the application level: which state each ABCI call can touch -/

/-- DeliverTx never touches the check state or the committed state. -/
theorem app_deliver_isolated (a : App) (tx : Tx) (a' : App) (o : TxOut) (h : a.deliverTx tx = some (a', o)) :
    a'.check = a.check ∧ a'.committed = a.committed ∧ a'.checkMeter = a.checkMeter := by
  unfold App.deliverTx at h
  cases hd : a.deliver with
  | none => simp [hd] at h
  | some b =>
    simp only [hd] at h
    by_cases hb : b.begun = true
    · simp only [hb, if_true, Option.some.injEq, Prod.mk.injEq] at h
      rw [← h.1]; exact ⟨rfl, rfl, rfl⟩
    · simp [hb] at h

/-- CheckTx never touches the deliver state, the committed state or the side
cache; the check state gets the ante writes iff the tx passed. -/
theorem app_check_isolated (a : App) (tx : Tx) :
    (a.checkTx tx).1.deliver = a.deliver ∧ (a.checkTx tx).1.committed = a.committed ∧
    (a.checkTx tx).1.vm = a.vm ∧
    ((a.checkTx tx).2.res = .ok → (a.checkTx tx).1.check = anteW tx ++ a.check) ∧
    ((a.checkTx tx).2.res ≠ .ok → (a.checkTx tx).1.check = a.check) := by
  have h := check_writes_ante_only tx a.check (.infinite 0) a.checkMeter a.vm
  refine ⟨rfl, rfl, ?_, ?_, ?_⟩
  · exact h.2.2.1
  · exact h.1
  · exact h.2.1

/-- Simulate changes no store of the application at all. -/
theorem app_simulate_isolated (a : App) (tx : Tx) :
    (a.simulate tx).1.deliver = a.deliver ∧ (a.simulate tx).1.committed = a.committed ∧
    (a.simulate tx).1.check = a.check ∧ (a.simulate tx).1.vm = a.vm := by
  unfold App.simulate
  split <;> exact ⟨rfl, rfl, rfl, rfl⟩

/-! ## the ordering before the fix: the model can express the defect

MaxGas = 100, 60 already charged; the tx pays its fee (`x/66`), writes `x/62` and
uses 61 gas: the block limit is crossed. -/

def witnessTx : Tx :=
  { decodable := true, gasWanted := 200,
    ante := { kind := .basic, recovers := false, pre := [], steps := [.write "x/66" "02"] },
    msgs := [{ valid := true, routable := true, steps := [.write "x/62" "02", .consume 61] }] }

def witnessBlock : Meter := .basic { limit := 100, consumed := 60 }

/-- BEFORE the fix (`MultiWrite` ahead of the deferred block-gas charge) the tx is
reported out-of-gas while its message write is in the deliver state, the side
cache is committed and `endTxHook` saw OK: the statement fails for `runTxOld`. -/
theorem old_ordering_counterexample :
    (runTxOld .deliver witnessTx [] witnessBlock (.infinite 0) []).res = .oog ∧
    (runTxOld .deliver witnessTx [] witnessBlock (.infinite 0) []).store
      = [("x/62", some "02"), ("x/66", some "02")] ∧
    (runTxOld .deliver witnessTx [] witnessBlock (.infinite 0) []).vm = [("x/62", some "02")] ∧
    (runTxOld .deliver witnessTx [] witnessBlock (.infinite 0) []).hook = .ok := by
  decide

/-- the same witness on the code as it is now: failed, ante write only, nothing committed -/
theorem block_limit_witness_now :
    (runTx .deliver witnessTx [] witnessBlock (.infinite 0) []).res = .oog ∧
    (runTx .deliver witnessTx [] witnessBlock (.infinite 0) []).store = [("x/66", some "02")] ∧
    (runTx .deliver witnessTx [] witnessBlock (.infinite 0) []).vm = [] ∧
    (runTx .deliver witnessTx [] witnessBlock (.infinite 0) []).hook = .none := by
  decide

/-! ## non-vacuity: the hypotheses of the theorems are met by concrete transactions -/

/-- a failing tx (second message panics after a write): hypothesis of `deliver_failed_only_ante_effects` -/
example : (runTx .deliver
    { witnessTx with msgs := [{ valid := true, routable := true, steps := [.write "x/61" "01"] },
                              { valid := true, routable := true, steps := [.write "x/62" "02", .panic] }] }
    [("x/61", some "00")] (.infinite 0) (.infinite 0) []).res ≠ .ok := by decide

/-- a succeeding tx: hypotheses of `deliver_ok_all_effects` -/
example : (runTx .deliver witnessTx [] (.infinite 0) (.infinite 0) []).res = .ok ∧
    (runTx .deliver witnessTx [] (.infinite 0) (.infinite 0) []).crash = false := by decide

/-! ## second stream: the summary model of real gno.land histories

`Model/C02Vm.lean` is what the real application's ABCI-visible state (counters of
two realms, deployed packages and their version, token balances, sequence
numbers) is compared with after every line of a history.  These theorems state
that this reference is the property statement: for EVERY summary state and every
message list, a failed delivery leaves everything but the signers' sequence
numbers untouched, a successful one applies every message, a simulation nothing. -/

/-- summary model: a failed tx moves nothing but the signers' sequence numbers -/
theorem vm_summary_failed_only_sequence (s : Vm.VState) (msgs : List Vm.VMsg) (e : Vm.VErr)
    (h : (Vm.deliver s msgs).1 = some e) :
    Vm.runMsgs s msgs = .error e ∧ (Vm.deliver s msgs).2 = Vm.bumpSeq s msgs := by
  unfold Vm.deliver at h ⊢
  cases hr : Vm.runMsgs s msgs with
  | ok s' => rw [hr] at h; cases h
  | error e' => rw [hr] at h; cases h; exact ⟨rfl, rfl⟩

/-- summary model: a successful tx applies the effects of all its messages -/
theorem vm_summary_ok_all_effects (s : Vm.VState) (msgs : List Vm.VMsg)
    (h : (Vm.deliver s msgs).1 = none) :
    ∃ s', Vm.runMsgs s msgs = .ok s' ∧ (Vm.deliver s msgs).2 = Vm.bumpSeq s' msgs := by
  unfold Vm.deliver at h ⊢
  cases hr : Vm.runMsgs s msgs with
  | ok s' => exact ⟨s', rfl, rfl⟩
  | error e' => rw [hr] at h; cases h

/-- summary model: a simulated tx has no effect, whatever its outcome -/
theorem vm_summary_simulate_no_effect (s : Vm.VState) (msgs : List Vm.VMsg) :
    (Vm.simulate s msgs).2 = s := by
  unfold Vm.simulate
  cases Vm.runMsgs s msgs <;> rfl

/-- the hypothesis of `vm_summary_failed_only_sequence` is met: a tx that deploys
a package and an importer of it and then calls a panicking function of a deployed
realm fails with `panic`; the same without the last message succeeds. -/
example : (Vm.deliver { ca := some 5 }
    [.dep 0 .lib 1 false, .dep 0 .use 1 false, .call 0 .ca .incpanic 1 false]).1 = some .panic := by decide

example : (Vm.deliver { ca := some 5 } [.dep 0 .lib 1 false, .dep 0 .use 1 false]).1 = none := by decide

end GnoVerif.C02
