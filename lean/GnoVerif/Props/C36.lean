import GnoVerif.Model.C36
namespace GnoVerif.C36

theorem placeholder : wrap64 5 = 5 := by decide

end GnoVerif.C36
