import GnoVerif.Proofs.C36
/-!
C36 — commit verification accepts exactly the commits with +2/3 valid signatures.

Model: `Model/C36.lean` (the code, check by check); statement vocabulary:
`Spec/C36.lean` (`WellFormed`, `signedPower`, `OldWellFormed`, `oldSignedPower`);
helper lemmas: `Proofs/C36.lean`.  All theorems are for EVERY validator set that
satisfies the invariants `ValidatorSet` maintains (`validSet`, a decidable
predicate: positive powers, total ≤ MaxTotalVotingPower, addresses strictly
sorted), every block id, height and commit (any length, any entries).
-/
namespace GnoVerif.C36

/-- The invariant predicate is inhabited by ordinary sets, including one whose
total is exactly `MaxTotalVotingPower`. -/
example : validSet [⟨2, 1⟩, ⟨5, 10⟩, ⟨7, 3⟩] = true := by decide
example : validSet [⟨0, 1152921504606846974⟩, ⟨9, 1⟩] = true := by decide
example : validSet [⟨0, 1152921504606846975⟩, ⟨9, 1⟩] = false := by decide

/-- Go's `tallied > total*2/3` (int64 multiplication, truncated division) decides
`3·tallied > 2·total` whenever `0 ≤ total ≤ MaxTotalVotingPower = MaxInt64/8`:
the product cannot wrap and truncation does not change the comparison. -/
theorem twoThirds_int64_exact (tallied total : Int) (h0 : 0 ≤ total)
    (h1 : total ≤ maxTotalVotingPower) :
    tallied > twoThirds total ↔ 3 * tallied > 2 * total :=
  gt_twoThirds_iff h0 h1

/-- `TotalVotingPower()` (clipped running sum with the panic above the cap) is the
exact sum for every set the type can hold. -/
theorem totalVotingPower_exact (vals : ValSet) (hv : validSet vals = true) :
    totalVotingPower vals = .ok (sumPowers vals) :=
  totalVotingPower_ok ((validSet_iff vals).1 hv)

/-- **VerifyCommit.**  It returns nil exactly when the commit is well-formed for
the height and block asked about and the validators whose slot holds a verifying
precommit for that block hold more than 2/3 of the total power (exact integers,
no rounding, no overflow). -/
theorem verifyCommit_ok_iff (vals : ValSet) (hv : validSet vals = true)
    (blockID : Nat) (height : Int) (c : Commit) :
    verifyCommit vals blockID height c = .ok () ↔
      WellFormed vals blockID height c ∧
      3 * signedPower vals blockID height c > 2 * sumPowers vals :=
  verifyCommit_ok_iff_aux ((validSet_iff vals).1 hv) blockID height c

/-- **VerifyFutureCommit.**  It returns nil exactly when the commit passes
`VerifyCommit` for the new set and, additionally, the old validators named by the
commit's entries (first naming entry each) all verify under their old keys and
those of them that precommitted the block hold more than 2/3 of the OLD total. -/
theorem verifyFutureCommit_ok_iff (old new : ValSet) (ho : validSet old = true)
    (hn : validSet new = true) (blockID : Nat) (height : Int) (c : Commit) :
    verifyFutureCommit old new blockID height c = .ok () ↔
      (WellFormed new blockID height c ∧
        3 * signedPower new blockID height c > 2 * sumPowers new) ∧
      OldWellFormed old c ∧
      3 * oldSignedPower old blockID height c > 2 * sumPowers old :=
  verifyFutureCommit_ok_iff_aux ((validSet_iff old).1 ho) ((validSet_iff new).1 hn) blockID height c

end GnoVerif.C36
