import GnoVerif.Proofs.C36
/-!
C36 — commit verification accepts exactly the commits with +2/3 valid signatures.

Model: `Model/C36.lean` (the code, check by check); statement vocabulary:
`Spec/C36.lean` (`WellFormed`, `signedPower`, `OldWellFormed`, `oldSignedPower`,
the decision lists `verifyCommitSpec`/`verifyFutureCommitSpec`); helper lemmas:
`Proofs/C36.lean`.  All theorems are for EVERY validator set that satisfies the
invariants `ValidatorSet` maintains (`validSet`, a decidable predicate: positive
powers, total ≤ MaxTotalVotingPower, addresses strictly sorted), every block id,
height and commit (any length, any entries, any signature bits).
-/
namespace GnoVerif.C36

/-! ### the invariant predicate is inhabited -/

example : validSet [⟨2, 1⟩, ⟨5, 10⟩, ⟨7, 3⟩] = true := by decide
/-- a set whose total is exactly `MaxTotalVotingPower` … -/
example : validSet [⟨0, 1152921504606846974⟩, ⟨9, 1⟩] = true := by decide
/-- … and one unit more is refused (as `NewValidatorSet` does). -/
example : validSet [⟨0, 1152921504606846975⟩, ⟨9, 1⟩] = false := by decide
example : validSet [⟨5, 1⟩, ⟨2, 1⟩] = false := by decide   -- not in address order
example : validSet [⟨2, 0⟩] = false := by decide            -- zero power

/-! ### arithmetic -/

/-- Go's `tallied > total*2/3` (int64 multiplication, truncated division) decides
`3·tallied > 2·total` whenever `0 ≤ total ≤ MaxTotalVotingPower = MaxInt64/8`:
the product cannot wrap and truncation does not change the comparison. -/
theorem twoThirds_int64_exact (tallied total : Int) (h0 : 0 ≤ total)
    (h1 : total ≤ maxTotalVotingPower) :
    tallied > twoThirds total ↔ 3 * tallied > 2 * total :=
  gt_twoThirds_iff h0 h1

example : (0 : Int) ≤ 1152921504606846975 ∧ (1152921504606846975 : Int) ≤ maxTotalVotingPower := by decide

/-- `TotalVotingPower()` (clipped running sum with the panic above the cap) is the
exact sum for every set the type can hold. -/
theorem totalVotingPower_exact (vals : ValSet) (hv : validSet vals = true) :
    totalVotingPower vals = .ok (sumPowers vals) :=
  totalVotingPower_ok ((validSet_iff vals).1 hv)

/-- `GetByAddress` (the `sort.Search` binary search) finds exactly the validator with
that address, with its index. -/
theorem getByAddress_exact (vals : ValSet) (hv : validSet vals = true) (a i : Nat) (v : Validator) :
    getByAddress vals a = some (i, v) ↔ vals[i]? = some v ∧ v.addr = a :=
  getByAddress_some_iff (sortedAddrs_pairwise ((validSet_iff vals).1 hv).sorted) a i v

/-! ### VerifyCommit -/

/-- **VerifyCommit.**  It returns nil exactly when the commit is well-formed for
the height and block asked about and the validators whose slot holds a verifying
precommit for that block hold more than 2/3 of the total power (exact integers,
no rounding, no overflow). -/
theorem verifyCommit_ok_iff (vals : ValSet) (hv : validSet vals = true)
    (blockID : Nat) (height : Int) (c : Commit) :
    verifyCommit vals blockID height c = .ok () ↔
      WellFormed vals blockID height c ∧
      3 * signedPower vals blockID height c > 2 * sumPowers vals :=
  verifyCommit_ok_iff_aux ((validSet_iff vals).1 hv) blockID height c

/-- Which error: `VerifyCommit` is the decision list `verifyCommitSpec` —
`ValidateBasic`'s error, else size, height, block id, any bad signature, power. -/
theorem verifyCommit_eq_spec (vals : ValSet) (hv : validSet vals = true)
    (blockID : Nat) (height : Int) (c : Commit) :
    verifyCommit vals blockID height c = verifyCommitSpec vals blockID height c :=
  verifyCommit_eq_spec_aux ((validSet_iff vals).1 hv) blockID height c

/-- A signature that does not verify — on ANY non-nil entry, also one for another
block — makes an otherwise structurally fine commit fail with the signature
error, however much power signed the block. -/
theorem verifyCommit_bad_signature (vals : ValSet) (hv : validSet vals = true)
    (blockID : Nat) (height : Int) (c : Commit)
    (hvb : validateBasic c = .ok ()) (hsize : c.precommits.length = vals.length)
    (hh : c.height = height) (hb : c.blockID = blockID)
    (hbad : ∃ e, some e ∈ c.precommits ∧ e.sigOK = false) :
    verifyCommit vals blockID height c = .error .sig := by
  rw [verifyCommit_eq_spec vals hv]
  unfold verifyCommitSpec
  rw [hvb]
  simp [hsize, hh, hb, (hasBadSig_iff _).2 hbad]

/-- `VerifyCommit` never panics on a set the type can hold (no nil validator, no
total-power panic), and returns only its ten documented error classes. -/
theorem verifyCommit_error_classes (vals : ValSet) (hv : validSet vals = true)
    (blockID : Nat) (height : Int) (c : Commit) (e : Err)
    (h : verifyCommit vals blockID height c = .error e) :
    e ∈ [Err.nilBlock, .noPrecommits, .vType, .vHeight, .vRound, .size, .height, .blockID, .sig, .power] := by
  rw [verifyCommit_eq_spec vals hv] at h
  exact spec_not_internal h

/-! ### VerifyFutureCommit -/

/-- **VerifyFutureCommit.**  It returns nil exactly when the commit passes
`VerifyCommit` for the new set and, additionally, the old validators named by the
commit's entries (first naming entry each) all verify under their old keys and
those of them that precommitted the block hold more than 2/3 of the OLD total. -/
theorem verifyFutureCommit_ok_iff (old new : ValSet) (ho : validSet old = true)
    (hn : validSet new = true) (blockID : Nat) (height : Int) (c : Commit) :
    verifyFutureCommit old new blockID height c = .ok () ↔
      (WellFormed new blockID height c ∧
        3 * signedPower new blockID height c > 2 * sumPowers new) ∧
      OldWellFormed old c ∧
      3 * oldSignedPower old blockID height c > 2 * sumPowers old :=
  verifyFutureCommit_ok_iff_aux ((validSet_iff old).1 ho) ((validSet_iff new).1 hn) blockID height c

/-- Which error: `VerifyFutureCommit` is the decision list `verifyFutureCommitSpec`. -/
theorem verifyFutureCommit_eq_spec (old new : ValSet) (ho : validSet old = true)
    (hn : validSet new = true) (blockID : Nat) (height : Int) (c : Commit) :
    verifyFutureCommit old new blockID height c = verifyFutureCommitSpec old new blockID height c :=
  verifyFutureCommit_eq_spec_aux ((validSet_iff old).1 ho) ((validSet_iff new).1 hn) blockID height c

/-- The height / round / type re-checks inside `VerifyFutureCommit`'s loop can never
fire (the new-set `VerifyCommit` already enforced them), and nothing panics. -/
theorem verifyFutureCommit_error_classes (old new : ValSet) (ho : validSet old = true)
    (hn : validSet new = true) (blockID : Nat) (height : Int) (c : Commit) (e : Err)
    (h : verifyFutureCommit old new blockID height c = .error e) :
    e ∈ [Err.nilBlock, .noPrecommits, .vType, .vHeight, .vRound, .size, .height, .blockID, .sig, .power,
         .fSig, .fPower] := by
  rw [verifyFutureCommit_eq_spec old new ho hn] at h
  exact fspec_not_internal h

/-- When no two entries name the same address (every honestly built commit), "the
first entry naming `a`" is simply "the entry naming `a`". -/
theorem firstNaming_iff_of_distinct (c : Commit) (hd : DistinctNames c) (a : Nat) (e : Entry) :
    firstNaming a c.precommits = some e ↔ some e ∈ c.precommits ∧ e.valAddr = a :=
  firstNaming_iff_of_distinct_aux a c.precommits hd e

/-! ### non-vacuity: concrete sets and commits on both sides of every theorem -/

def exNew : ValSet := [⟨1, 1⟩, ⟨4, 1⟩, ⟨6, 1⟩, ⟨9, 1⟩]
def exOld : ValSet := [⟨1, 5⟩, ⟨4, 3⟩, ⟨7, 2⟩]
def exEntry (i : Int) (a : Nat) (b : Nat) (ok : Bool := true) : Entry := ⟨2, 7, 0, b, i, a, ok, ok⟩
/-- three of four sign block 3 -/
def exCommit : Commit := ⟨3, [some (exEntry 0 1 3), some (exEntry 1 4 3), none, some (exEntry 3 9 3)]⟩
/-- two of four sign block 3, one strays to block 8 -/
def exCommitStray : Commit := ⟨3, [some (exEntry 0 1 3), some (exEntry 1 4 3), none, some (exEntry 3 9 8)]⟩
/-- all four sign, but the stray one carries a bad signature -/
def exCommitBadStray : Commit :=
  ⟨3, [some (exEntry 0 1 3), some (exEntry 1 4 3), some (exEntry 2 6 3), some (exEntry 3 9 8 false)]⟩

example : validSet exNew = true ∧ validSet exOld = true := by decide
example : verifyCommit exNew 3 7 exCommit = .ok () := by rfl
example : verifyCommit exNew 3 7 exCommitStray = .error .power := by rfl          -- exactly 2/4
example : verifyCommit exNew 3 7 exCommitBadStray = .error .sig := by rfl          -- 3/4 signed, still rejected
example : verifyCommit exNew 3 8 exCommit = .error .height := by rfl
example : verifyCommit exNew 4 7 exCommit = .error .blockID := by rfl
example : DistinctNames exCommit := by simp [DistinctNames, exCommit, exEntry]

/-- the right-hand side of `verifyFutureCommit_ok_iff` is satisfiable: old validators
1 and 4 (power 8 of 10) signed. -/
example : verifyFutureCommit exOld exNew 3 7 exCommit = .ok () := by
  rw [verifyFutureCommit_ok_iff _ _ (by decide) (by decide)]
  refine ⟨⟨⟨by decide, by decide, by decide, ?_, ?_, ?_⟩, by decide⟩, ?_, by decide⟩
  · simp [exCommit, exEntry, precommitType]
  · simp only [exCommit, exEntry]
    intro e e' h h'
    simp at h h'
    rcases h with rfl | rfl | rfl <;> rcases h' with rfl | rfl | rfl <;> rfl
  · simp [exCommit, exEntry]
  · simp [OldWellFormed, exOld, exCommit, exEntry, firstNaming]

/-- … and so is its negation: an old set in which the signers hold exactly 2/3. -/
example : ¬ (3 * oldSignedPower [⟨1, 1⟩, ⟨4, 1⟩, ⟨7, 1⟩] 3 7 exCommit > 2 * sumPowers [⟨1, 1⟩, ⟨4, 1⟩, ⟨7, 1⟩]) := by
  decide

end GnoVerif.C36
