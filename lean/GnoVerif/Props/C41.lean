import GnoVerif.Model.C41Block
namespace GnoVerif.C41
end GnoVerif.C41
