import GnoVerif.Proofs.C41Load
import GnoVerif.Proofs.C41Block
import GnoVerif.Proofs.C41Examples
/-!
# C41 — block and state stores return exactly what was saved

Statement: "For every saved block, loading it (whole, by part, by meta, its commit and seen commit)
returns the saved data; the store height only increases; and for every height, the validator sets
and consensus parameters loaded from the state store equal those in effect at that height,
including across checkpoint boundaries."

Models: `Model/C41Block.lean` (tm2/pkg/bft/store/store.go), `Model/C41State.lean`
(tm2/pkg/bft/state/store.go), `Model/C41Chain.lean` (what "in effect" means: the states
`MakeGenesisState`/`updateState` hand to `SaveState`).  All theorems hold for every history, every
`InitialHeight ≥ 1` (so every position relative to the `valSetCheckpointInterval` boundaries), every
validator-set type `VS` and every rotation `inc1` (`IncrementProposerPriority(1)`, C37's subject).
-/
namespace GnoVerif.C41

open GnoVerif.Gen.C41 (valSetCheckpointInterval)

variable {VS : Type}

/-! ## State store: per key family, load ∘ save -/

/-- `validatorsKey`: the record written by `saveValidatorsInfo` is the one `loadValidatorsInfo`
reads back — the full set exactly at a change height or a checkpoint height, otherwise only the
reference (unless the record encodes to nothing: no set and `LastHeightChanged = 0`). -/
theorem validators_info_roundtrip (db db' : DB VS) (h lhc : Int) (vs : Option VS)
    (hs : saveValidatorsInfo db h lhc vs = some db') (hne : lhc ≠ 0) :
    loadValidatorsInfo db' h =
      some ⟨if h = lhc ∨ Int.tmod h valSetCheckpointInterval = 0 then vs else none, lhc⟩ ∧ lhc ≤ h := by
  unfold saveValidatorsInfo at hs
  split at hs
  · simp at hs
  · rename_i hle
    simp only [Option.some.injEq] at hs
    subst hs
    exact ⟨loadInfoV_of_get (get_set_eq _ _ _) hne, by omega⟩

/-- `consensusParamsKey`: likewise for `saveConsensusParamsInfo` / `loadConsensusParamsInfo`. -/
theorem params_info_roundtrip (db : DB VS) (h ch : Int) (p : Params) (hne : ch ≠ 0) :
    loadConsensusParamsInfo (saveConsensusParamsInfo db h ch p) h =
      some ⟨if ch = h then p else Params.empty, ch⟩ :=
  loadInfoP_of_get (get_set_eq _ _ _) hne

/-- `stateKey`: `LoadState` after a `SaveState` that returned normally gives that state. -/
theorem state_roundtrip (db : DB VS) (st : St VS) (h : (saveState db st).2 = .ok) :
    loadState (saveState db st).1 = some st := by
  revert h
  unfold saveState loadState
  dsimp only
  split
  · intro h; simp at h
  · split
    · intro h; simp at h
    · split
      · intro h; simp at h
      · intro _; rfl

/-! ## State store: what is loaded is what was in effect -/

/-- Along a chain of states as consensus produces them, no `SaveState` panics. -/
theorem chain_saves_return_normally (inc1 : VS → Except String VS) {hist : List (St VS)}
    (h : Chain inc1 hist) : allSaved (DB.empty : DB VS) hist := by
  obtain ⟨s, rest, -, hinv⟩ := chain_inv inc1 h
  exact hinv.saved

/-- **NextValidators.** For every state `t` of the history, `LoadValidators(t.LastBlockHeight + 2)`
returns exactly `t.NextValidators` — the set in effect at that height, priorities and proposer
included — whether the record holds the set (change height, checkpoint height) or only a reference
that is replayed from the last stored set, on either side of any checkpoint boundary. -/
theorem load_next_validators_in_effect (inc1 : VS → Except String VS) {hist : List (St VS)}
    (h : Chain inc1 hist) :
    ∀ t ∈ hist, ∀ n, t.nvals = some n →
      loadValidators inc1 (saveAll DB.empty hist) (t.lbh + 2) = .ok n := by
  obtain ⟨s, rest, -, hinv⟩ := chain_inv inc1 h
  obtain ⟨Lf, Nf, hV⟩ := hinv.exV
  intro t ht n hn
  obtain ⟨q1, -, q2, q3⟩ := hV.2.2.2.2.1 t ht
  rw [load_vals_of_spec hV hinv.ih1 (t.lbh + 2) (by omega) (by omega)]
  rw [q1] at hn
  rw [Option.some.inj hn]

/-- **Validators.** `LoadValidators(t.LastBlockHeight + 1)` returns exactly `t.Validators`, the set
that validates block `t.LastBlockHeight + 1` (for the genesis state: the set at `InitialHeight`). -/
theorem load_validators_in_effect (inc1 : VS → Except String VS) {hist : List (St VS)}
    (h : Chain inc1 hist) :
    ∀ t ∈ hist, ∀ v, t.vals = some v →
      loadValidators inc1 (saveAll DB.empty hist) (t.lbh + 1) = .ok v := by
  obtain ⟨s, rest, -, hinv⟩ := chain_inv inc1 h
  obtain ⟨Lf, Nf, hV⟩ := hinv.exV
  intro t ht v hv
  obtain ⟨-, q1, q2, q3⟩ := hV.2.2.2.2.1 t ht
  rw [load_vals_of_spec hV hinv.ih1 (t.lbh + 1) (by omega) (by omega)]
  rw [q1] at hv
  rw [Option.some.inj hv]

/-- **ConsensusParams.** `LoadConsensusParams(t.LastBlockHeight + 1)` returns exactly
`t.ConsensusParams`, the parameters in effect at that height (directly, or through the
`LastHeightChanged` reference). -/
theorem load_params_in_effect (inc1 : VS → Except String VS) {hist : List (St VS)}
    (h : Chain inc1 hist) :
    ∀ t ∈ hist, loadConsensusParams (saveAll (DB.empty : DB VS) hist) (t.lbh + 1) = .ok t.params := by
  obtain ⟨s, rest, -, hinv⟩ := chain_inv inc1 h
  obtain ⟨Lp, Pf, hP⟩ := hinv.exP
  intro t ht
  obtain ⟨q1, q2, q3⟩ := hP.2.2.2 t ht
  rw [load_params_of_spec hP hinv.ih1 (t.lbh + 1) (by omega) (by omega), q1]

/-- `LoadState` returns the newest state of the history. -/
theorem load_state_returns_last (inc1 : VS → Except String VS) {s : St VS} {rest : List (St VS)}
    (h : Chain inc1 (s :: rest)) : loadState (saveAll (DB.empty : DB VS) (s :: rest)) = some s := by
  obtain ⟨s0, rest0, he, hinv⟩ := chain_inv inc1 h
  injection he with h1 h2
  subst h1 h2
  exact hinv.state

/-- The state-store clause of the statement, in full (proved by the four theorems above). -/
def state_store_statement (VS : Type) : Prop :=
  ∀ (inc1 : VS → Except String VS) (hist : List (St VS)), Chain inc1 hist →
    ∀ t ∈ hist,
      (∀ n, t.nvals = some n → loadValidators inc1 (saveAll DB.empty hist) (t.lbh + 2) = .ok n) ∧
      (∀ v, t.vals = some v → loadValidators inc1 (saveAll DB.empty hist) (t.lbh + 1) = .ok v) ∧
      loadConsensusParams (saveAll (DB.empty : DB VS) hist) (t.lbh + 1) = .ok t.params

theorem state_store_statement_holds (VS : Type) : state_store_statement VS :=
  fun inc1 _ h t ht =>
    ⟨load_next_validators_in_effect inc1 h t ht, load_validators_in_effect inc1 h t ht,
     load_params_in_effect inc1 h t ht⟩

/-- non-vacuity: a chain that starts at InitialHeight 99998, changes set and params in block 99999
and crosses the checkpoint 100000 -/
example : Chain Ex.incNat Ex.hist := Ex.hist_chain
/-- … height 100000 is a checkpoint: the record holds the full set although nothing changed there;
100002 holds only a reference to 100001 and is replayed by one rotation -/
example : (loadValidatorsInfo (saveAll DB.empty Ex.hist) 100000).map (fun i => (i.set, i.lhc)) = some (some 12, 99998) := by decide
example : (loadValidatorsInfo (saveAll DB.empty Ex.hist) 100002).map (fun i => (i.set, i.lhc)) = some (none, 100001) := by decide
example : (loadValidatorsInfo (saveAll DB.empty Ex.hist) 99999).map (fun i => (i.set, i.lhc)) = some (none, 99998) := by decide
example : loadConsensusParams (saveAll DB.empty Ex.hist) 100002 = .ok Ex.pB := by decide
example : loadConsensusParams (saveAll DB.empty Ex.hist) 99999 = .ok Ex.pA := by decide

/-- Why the replay must be `k` single rotations (regression for the defect fixed by repo commit
9f1dc1895d): on the set stored at height 5 of the witness history (genesis powers 10,19,2; block 3
lowers validator #1 to power 1), ONE `IncrementProposerPriority(2)` (C37's model) gives priorities
(13,-14,1) with proposer #2, whereas two single steps — what consensus had in effect at height 7 —
give (-2,-6,8) with proposer #0.  `loadValidators` replays with `incLoop`, i.e. single steps. -/
theorem single_call_replay_differs :
    Ex.prios (GnoVerif.C37.opInc 2 Ex.w5) = some ([13, -14, 1], some 2) ∧
    Ex.prios (Ex.twice Ex.w5) = some ([-2, -6, 8], some 0) := by
  decide

/-! ## Block store -/

/-- A `SaveBlock` that returns normally is followed by loads that return the saved data (meta,
every part, the whole block, its `LastCommit` under `height-1`, the seen commit), and the store
height is the block's. -/
theorem save_block_roundtrip (s s' : BS) (b : Block) (total : Nat) (missing : Option Nat) (seen : CommitD)
    (ht : 0 < total) (h : saveBlock s (some b) total missing seen = (s', .ok)) :
    Holds s' b total seen ∧ s'.height = b.height ∧ s'.json = some b.height := by
  obtain ⟨-, -, -, -, rfl⟩ := saveBlock_ok h
  exact ⟨savedState_holds s b total seen ht, rfl, rfl⟩

/-- **Every saved block stays loadable.** In any history of `SaveBlock` calls (successful or
panicking, with arbitrary arguments) and restarts, a block of height ≥ 1 whose `SaveBlock` returned
normally is returned unchanged by all five loaders after the whole history. -/
theorem saved_block_persists (pre post : List BOp) (b : Block) (total : Nat) (missing : Option Nat)
    (seen : CommitD) (h1 : 1 ≤ b.height) (ht : 0 < total)
    (hok : (saveBlock (runB BS.empty pre) (some b) total missing seen).2 = .ok) :
    Holds (runB BS.empty (pre ++ BOp.save (some b) total missing seen :: post)) b total seen := by
  have hpair : saveBlock (runB BS.empty pre) (some b) total missing seen =
      ((saveBlock (runB BS.empty pre) (some b) total missing seen).1, .ok) := by
    rw [← hok]
  obtain ⟨hh, e1, e2⟩ := save_block_roundtrip _ _ b total missing seen ht hpair
  rw [runB_append]
  show Holds (runB (applyB (runB BS.empty pre) (BOp.save (some b) total missing seen)) post) b total seen
  have hs : applyB (runB BS.empty pre) (BOp.save (some b) total missing seen) =
      (saveBlock (runB BS.empty pre) (some b) total missing seen).1 := rfl
  rw [hs]
  obtain ⟨-, ha⟩ := run_frame post _ (by rw [e1]; exact h1) (by rw [e2, e1])
  exact holds_of_agree ha (by rw [e1]; exact Int.le_refl _) hh

/-- **The store height only increases**: no operation of a history whose blocks have heights ≥ 0
lowers `Height()`. -/
theorem height_never_decreases (pre : List BOp) (op : BOp) (hd : heightsAtLeast 0 (pre ++ [op])) :
    (runB BS.empty pre).height ≤ (runB BS.empty (pre ++ [op])).height := by
  obtain ⟨d1, d2⟩ := (heightsAtLeast_append 0 pre [op]).mp hd
  obtain ⟨hi, -⟩ := run_hinv pre BS.empty hinv_empty d1
  rw [runB_append]
  exact (apply_hinv _ op hi d2).2

/-- A successful `SaveBlock` of a block of height ≥ 1 strictly raises the height, to the block's
height (one more than before, or any height while the store is still empty). -/
theorem height_after_save (pre : List BOp) (b : Block) (total : Nat) (missing : Option Nat) (seen : CommitD)
    (hd : heightsAtLeast 0 pre) (h1 : 1 ≤ b.height)
    (hok : (saveBlock (runB BS.empty pre) (some b) total missing seen).2 = .ok) :
    (saveBlock (runB BS.empty pre) (some b) total missing seen).1.height = b.height ∧
    (runB BS.empty pre).height < b.height ∧
    ((runB BS.empty pre).height = 0 ∨ b.height = (runB BS.empty pre).height + 1) := by
  obtain ⟨⟨i1, -⟩, -⟩ := run_hinv pre BS.empty hinv_empty hd
  rcases saveBlock_height (runB BS.empty pre) (some b) total missing seen with ⟨-, b', hb, e1, -, e3⟩ | ⟨hne, -, -⟩
  · injection hb with hb; subst hb
    exact ⟨e1, by omega, e3⟩
  · exact absurd hok hne

/-- A `SaveBlock` that panics (nil block, non-contiguous height, incomplete part set, nil commit)
leaves the height unchanged. -/
theorem failed_save_keeps_height (s : BS) (blk : Option Block) (total : Nat) (missing : Option Nat)
    (seen : CommitD) (h : (saveBlock s blk total missing seen).2 ≠ .ok) :
    (saveBlock s blk total missing seen).1.height = s.height := by
  rcases saveBlock_height s blk total missing seen with ⟨hok, -⟩ | ⟨-, e, -⟩
  · exact absurd hok h
  · exact e

/-- The height survives a restart: `NewBlockStore` on the same database reads back the same height. -/
theorem height_survives_restart (ops : List BOp) (hd : heightsAtLeast 0 ops) :
    (reopen (runB BS.empty ops)).height = (runB BS.empty ops).height := by
  obtain ⟨⟨-, i2⟩, -⟩ := run_hinv ops BS.empty hinv_empty hd
  exact i2

/-- non-vacuity: a history with a successful save, a nil-block panic and an incomplete part set,
followed by a restart, a non-contiguous save and a nil-LastCommit save -/
example : (saveBlock (runB BS.empty []) (some Ex.b1) 2 none (.tok 1)).2 = .ok := by decide
example : heightsAtLeast 0 (Ex.ops ++ Ex.opsAfter) := by
  simp only [Ex.ops, Ex.opsAfter, Ex.b1, Ex.b2, List.cons_append, List.nil_append, heightsAtLeast]; decide
example : (runB BS.empty (Ex.ops ++ Ex.opsAfter)).height = 1 := by decide
example : loadBlock (runB BS.empty (Ex.ops ++ Ex.opsAfter)) 1 = .ok Ex.b1 := by decide
/-- the guard `0 ≤ height` of `height_never_decreases` is needed: an empty store accepts a block of
negative height and its height goes down (such a block fails `Header.ValidateBasic`) -/
example : (runB BS.empty [.save (some ⟨-5, 0, .empty⟩) 1 none (.tok 1)]).height = -5 := by decide
/-- a commit that encodes to nothing (`&Commit{}`) is saved but reads back as nil -/
example : loadSeen (runB BS.empty [.save (some Ex.b1) 1 none .empty]) 1 = none := by decide

/-- The block-store clauses of the statement, in full. -/
def block_store_statement : Prop :=
  (∀ (pre post : List BOp) (b : Block) (total : Nat) (missing : Option Nat) (seen : CommitD),
      1 ≤ b.height → 0 < total → (saveBlock (runB BS.empty pre) (some b) total missing seen).2 = .ok →
      Holds (runB BS.empty (pre ++ BOp.save (some b) total missing seen :: post)) b total seen) ∧
  (∀ (pre : List BOp) (op : BOp), heightsAtLeast 0 (pre ++ [op]) →
      (runB BS.empty pre).height ≤ (runB BS.empty (pre ++ [op])).height)

theorem block_store_statement_holds : block_store_statement :=
  ⟨saved_block_persists, height_never_decreases⟩

end GnoVerif.C41
