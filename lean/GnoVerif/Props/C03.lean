import GnoVerif.Proofs.C03
/-!
# C03 — realm behaviour is independent of persistence boundaries

Two groups of theorems about Model/C03Heap.lean.

* the persistence round trip (`encode` = copyValueWithRefs, `decode` = filling
  through the per-transaction object cache): content and aliasing survive, ids
  are fresh and distinct, the cache returns one object per id;
* the operation semantics of the harness realm with the struct-copy quirk made
  explicit (`lazy`): the full independence statement is FALSE on the code as it
  is (`persistence_independence_counterexample`, the witness of
  known_findings/C03.json); it holds for every history without a struct value
  copy (`persistence_independence_partial`).
-/
namespace GnoVerif.C03

/-! ## persisting and reloading a value never changes it -/

/-- Encoding an object's fields (children → ObjectIDs) and decoding them through a
    cache that maps every child's id back to that child gives back the fields. -/
theorem encode_decode_roundtrip {α : Type} (oid : α → Nat) (cache : Nat → α) (fields : List (Slot α))
    (h : ∀ a, Slot.child a ∈ fields → cache (oid a) = a) :
    decode cache (encode oid fields) = fields := by
  induction fields with
  | nil => rfl
  | cons s rest ih =>
    have ih' := ih (fun a ha => h a (List.mem_cons_of_mem _ ha))
    simp only [decode, encode, List.map_cons, List.map_map] at ih' ⊢
    rw [ih']
    cases s with
    | prim v => rfl
    | child a =>
      simp only [Slot.map]
      rw [h a (List.mem_cons_self)]

example : decode (fun n => n - 100) (encode (· + 100) [Slot.prim 7, .child 3, .child 3]) = [.prim 7, .child 3, .child 3] := by
  decide

/-- Aliasing is preserved by the encoding: with injective ObjectIDs two slots refer
    to the same child exactly when their encoded forms are equal. -/
theorem encode_preserves_aliasing {α : Type} (oid : α → Nat) (hinj : ∀ a b, oid a = oid b → a = b)
    (s t : Slot α) : Slot.map oid s = Slot.map oid t ↔ s = t := by
  constructor
  · intro h
    cases s <;> cases t <;> simp_all [Slot.map]
    exact hinj _ _ h
  · intro h; rw [h]

/-- `assignNewObjectID` hands out ids above the realm's counter … -/
theorem assignIds_fresh (time n : Nat) : ∀ id ∈ assignIds time n, time < id := by
  intro id h
  simp only [assignIds, List.mem_map, List.mem_range] at h
  obtain ⟨i, _, rfl⟩ := h
  omega

/-- … and pairwise distinct. -/
theorem assignIds_distinct (time n : Nat) : (assignIds time n).Nodup := by
  unfold assignIds
  rw [List.Nodup, List.pairwise_map]
  exact List.Pairwise.imp (fun {a b} (h : a ≠ b) => by omega) List.nodup_range

/-- The object cache returns the SAME in-memory object when an id is loaded a
    second time (two references to one persisted object stay aliased). -/
theorem cache_load_twice_same_object (c : Cache) (oid : Nat) :
    ((c.load oid).1.load oid) = ((c.load oid).1, (c.load oid).2) := by
  cases hf : c.entries.find? (fun e => e.1 == oid) with
  | some e =>
    have h1 : c.load oid = (c, e.2) := by simp [Cache.load, hf]
    rw [h1]
    simp [Cache.load, hf]
  | none =>
    have h1 : c.load oid = ({ entries := c.entries ++ [(oid, c.next)], next := c.next + 1 }, c.next) := by
      simp [Cache.load, hf]
    rw [h1]
    have : (c.entries ++ [(oid, c.next)]).find? (fun e => e.1 == oid) = some (oid, c.next) := by
      rw [List.find?_append, hf]; simp
    simp [Cache.load, this]

/-- Distinct ids are loaded as distinct objects. -/
theorem cache_load_distinct_ids_distinct_objects (c : Cache) (hwf : c.wf) (o1 o2 : Nat) (hne : o1 ≠ o2) :
    ((c.load o1).1.load o2).2 ≠ (c.load o1).2 := by
  have hwf1 := Cache.load_wf c o1 hwf
  have hmem := cache_load_mem c o1
  generalize hc1 : (c.load o1).1 = c1 at hwf1 hmem
  generalize ha1 : (c.load o1).2 = a1 at hmem
  obtain ⟨hlt, hk, hv⟩ := hwf1
  unfold Cache.load
  split
  · rename_i e he
    have hm := find_some_mem he
    have he1 : e.1 = o2 := by simpa using hm.2
    simp only
    intro heq
    -- two entries with the same address must be the same entry
    have : e = (o1, a1) := eq_of_nodup_map_snd hv hm.1 hmem (by simpa using heq)
    rw [this] at he1
    exact hne he1
  · simp only
    exact Nat.ne_of_gt (hlt _ hmem)

example : Cache.wf {} := ⟨by simp, by simp, by simp⟩

/-! ## the struct value copy -/

/-- `c := *p` must duplicate the array-valued field (Go value semantics). -/
def struct_copy_statement : Prop := ∀ (f : Field) (fresh : Nat), Field.copy fresh f = .loaded fresh

/-- it does for a field that is loaded … -/
theorem struct_copy_partial (a fresh : Nat) : Field.copy fresh (.loaded a) = .loaded fresh := rfl

/-- … but a field that is still an unloaded RefValue is copied by reference. -/
theorem struct_copy_counterexample : ¬ struct_copy_statement := by
  intro h
  have := h (.lazyRef 5) 9
  simp [Field.copy] at this

/-! ## the call-sequence clause -/

/-- "the values returned by the calls … are the same whether the calls run in
    separate transactions or in a single in-memory execution": the semantics with
    the reloaded-struct copy behaviour agrees with the Go semantics on every history
    (from the empty realm). -/
def persistence_independence_statement : Prop :=
  ∀ hist : List (Fn × List Arg), (runHist true {} hist).2 = (runHist false {} hist).2

/-- Proved part: for histories that never copy a struct value (`CopyNode`) the two
    semantics coincide — results AND final heap, from any heap.  Missing for the
    full statement: a struct copy of a reloaded struct with an array-valued
    field, where the GnoVM aliases the array. -/
theorem persistence_independence_partial (hist : List (Fn × List Arg)) (h0 : Heap)
    (hno : ∀ c ∈ hist, c.1 ≠ .CopyNode) : runHist true h0 hist = runHist false h0 hist := by
  induction hist generalizing h0 with
  | nil => rfl
  | cons c rest ih =>
    obtain ⟨fn, args⟩ := c
    have hne : fn ≠ .CopyNode := hno (fn, args) (List.mem_cons_self)
    have ih' := fun h => ih h (fun c hc => hno c (List.mem_cons_of_mem _ hc))
    simp only [runHist]
    rw [step_lazy_irrelevant h0 args hne, ih']

example : ∀ c ∈ [(Fn.NewNode, [Arg.i 5]), (Fn.SetArr, [Arg.i 0, .i 1, .i 7]), (Fn.GetArr, [Arg.i 0])], c.1 ≠ Fn.CopyNode := by
  decide

/-- the witness: NewNode(5); SetArr(0,1,7); CopyNode(0); SetArr(1,1,8); GetArr(0) -/
def cexHist : List (Fn × List Arg) :=
  [(.NewNode, [.i 5]), (.SetArr, [.i 0, .i 1, .i 7]), (.CopyNode, [.i 0]), (.SetArr, [.i 1, .i 1, .i 8]), (.GetArr, [.i 0])]

/-- On the code as it is the statement is false: the last call returns "0,8,0" in
    the transaction-per-call world and "0,7,0" in memory. -/
theorem persistence_independence_counterexample : ¬ persistence_independence_statement := by
  intro h
  have := h cexHist
  revert this
  decide

end GnoVerif.C03
