import GnoVerif.Model.C07Authority
namespace GnoVerif.C07
end GnoVerif.C07
