import GnoVerif.Proofs.C07
/-!
# C07 — a realm's persisted state changes only under that realm's authority

Theorems about Model/C07Authority.lean (the decision functions of realm.go /
machine.go / ownership.go / alloc.go / uverse.go as coded, and the event-tree
machine `run` built on them), for ALL worlds, machine states, objects and event
trees.  Three clauses of the statement are FALSE on the code as it is; for each
the full statement is kept as a `def …_statement : Prop`, the proved part is
`…_partial` under the exact guard, and `…_counterexample` refutes the full
statement on the witness the harness replays (known_findings/C07.json).
-/
namespace GnoVerif.C07

/-! ## DidUpdate: what gets persisted -/

/-- `Realm.DidUpdate` goes on to `MarkDirty(po)` (so `po` is saved with its new
    content) only when `po` is real, the machine has a realm, and that realm is
    `po`'s owner. -/
theorem didUpdate_marks_only_own_realm (W : World) (s : St) (o : OID)
    (h : didUpdate W s (some o) = .ok true) :
    ∃ r, s.realm = some r ∧ o.pkg = some r ∧ o.isReal = true := by
  obtain ⟨h1, h2, h3⟩ := didUpdate_true_inv h
  cases hr : s.realm with
  | none => simp [hr] at h3
  | some r => exact ⟨r, rfl, by rw [h2, hr], h1⟩

example : didUpdate ⟨fun _ => .realm, fun _ => true⟩ ⟨some 1, 2, true⟩ (some ⟨some 1, 7⟩) = .ok true := rfl

/-- A write that reached DidUpdate on a REAL object of another, non-stdlib realm
    aborts the transaction (the "missing readonly check" backstop). -/
theorem didUpdate_foreign_real_aborts (W : World) (s : St) (o : OID) (r : Nat)
    (hr : s.realm = some r) (hreal : o.isReal = true) (hne : o.pkg ≠ some r)
    (hstd : W.isStdlibPkg o.pkg = false) :
    didUpdate W s (some o) = .error .invariant := by
  have : (o.pkg != some r) = true := by simp [bne_iff_ne, hne]
  simp [didUpdate, hr, hreal, this, hstd]

example : didUpdate ⟨fun _ => .realm, fun _ => true⟩ ⟨some 2, 2, true⟩ (some ⟨some 1, 7⟩) = .error .invariant := rfl

/-- With `m.Realm == nil` DidUpdate never marks anything dirty: nothing written
    in "single-user mode" is persisted by that write. -/
theorem didUpdate_nil_realm_never_marks (W : World) (s : St) (po : Option OID)
    (h : s.realm = none) : didUpdate W s po ≠ .ok true := by
  unfold didUpdate
  simp only [h]
  cases po with
  | none => simp
  | some o =>
    simp only
    split <;> simp

/-! ## IsReadonly: the pre-write gate -/

/-- If `Machine.IsReadonly(tv)` lets a write through while the machine has realm
    `r` (and the executing package is not stdlib), every STAMPED object id the
    check looked at — the value's own object, a pointer's base, a REAL heap item
    and what it holds — is stamped with `r`.  This includes allocated but not yet
    persisted objects (PkgID set, NewTime 0). -/
theorem isReadonly_false_implies_own (W : World) (s : St) (r : Nat) (tv : TV)
    (hr : s.realm = some r) (hstd : W.isStdlibPkg (some s.pkg) = false)
    (h : isReadonly W s tv = false) :
    ∀ o ∈ TV.gated tv, ∀ q, o.pkg = some q → q = r := by
  intro o ho q hq
  unfold isReadonly at h
  simp only [hr, hstd, Bool.false_eq_true, ↓reduceIte] at h
  have key : ∀ tv', isReadonlyBy r none tv' = false → o ∈ TV.gated tv' → q = r := by
    intro tv' h' ho'
    rcases isReadonlyBy_false_gated tv' h' o ho' with h1 | h1 | h1
    · simp [OID.isZero, hq] at h1
    · rw [hq] at h1; exact Option.some.inj h1
    · rw [hq] at h1; simp at h1
  cases tv with
  | refPkg p => simp [TV.gated] at ho
  | prim => exact key _ h ho
  | ptrFree => exact key _ h ho
  | ptrHIV hiv inner => exact key _ h ho
  | ptrBase b => exact key _ h ho
  | obj b => exact key _ h ho

example : isReadonly ⟨fun _ => .realm, fun _ => true⟩ ⟨some 1, 1, true⟩ (.ptrHIV ⟨some 1, 7⟩ (.obj ⟨some 1, 9⟩)) = false := rfl

/-- Conversely an object stamped by another realm IS readonly — real or not. -/
theorem isReadonly_foreign_object (W : World) (s : St) (r q : Nat) (o : OID)
    (hr : s.realm = some r) (hstd : W.isStdlibPkg (some s.pkg) = false)
    (hq : o.pkg = some q) (hne : q ≠ r) :
    isReadonly W s (.obj o) = true ∧ isReadonly W s (.ptrBase o) = true := by
  have hz : o.isZero = false := by simp [OID.isZero, hq]
  have h1 : (o.pkg != some r) = true := by simp [bne_iff_ne, hq, hne]
  have h2 : (o.pkg != (none : PkgID)) = true := by simp [bne_iff_ne, hq]
  simp [isReadonly, hr, hstd, isReadonlyBy, roGate, hz, h1, h2]

example : isReadonly ⟨fun _ => .realm, fun _ => true⟩ ⟨some 2, 2, true⟩ (.obj ⟨some 1, 0⟩) = true := rfl

/-! ## PushFrameCall: how the current realm changes -/

/-- `m.Realm` changes at a call only through the routes of the interrealm
    specification: an explicit cross-call of a crossing function (to its declaring
    package's realm), rule #1 (a non-crossing callable declared in a /r/ package: to
    that package's realm), rule #2 (a library method: to the realm that stamped the
    receiver) or rule #3 (a library-declared closure: to the realm that stamped it). -/
theorem realm_changes_only_via_spec_routes (W : World) (cur : Option Nat) (fn : Fn)
    (wc : Bool) (recv : Recv) (r : Option Nat)
    (h : pushFrameCall W cur fn wc recv = .ok r) (hne : r ≠ cur) :
    (wc = true ∧ fn.crossing = true ∧ r = W.realmOf fn.pkg) ∨
    (wc = false ∧ fn.crossing = false ∧ W.isRealmPath fn.pkg = true ∧ r = W.realmOf fn.pkg) ∨
    (wc = false ∧ fn.crossing = false ∧ W.isRealmPath fn.pkg = false ∧
        ∃ oid, recv = .obj oid ∧ oid.isZero = false ∧ r = W.realmOfPid oid.pkg) ∨
    (wc = false ∧ fn.crossing = false ∧ W.isRealmPath fn.pkg = false ∧
        ∃ pid, fn.closure = some pid ∧ pid.isSome = true ∧ r = W.realmOfPid pid) := by
  unfold pushFrameCall at h
  by_cases hwc : wc = true
  · simp only [hwc, ↓reduceIte] at h
    split at h
    · simp at h
    · rename_i hc
      simp only [Except.ok.injEq] at h
      left
      exact ⟨hwc, by simpa using hc, h.symm⟩
  · simp only [Bool.not_eq_true] at hwc
    simp only [hwc, Bool.false_eq_true, ↓reduceIte] at h
    by_cases hcr : fn.crossing = true
    · simp only [hcr, ↓reduceIte] at h
      split at h
      · simp at h
      · simp only [Except.ok.injEq] at h
        exact absurd h.symm hne
    · simp only [Bool.not_eq_true] at hcr
      simp only [hcr, Bool.false_eq_true, ↓reduceIte] at h
      by_cases hrp : W.isRealmPath fn.pkg = true
      · simp only [hrp, ↓reduceIte] at h
        split at h
        · simp only [Except.ok.injEq] at h
          right; left
          exact ⟨hwc, hcr, hrp, h.symm⟩
        · simp only [Except.ok.injEq] at h
          exact absurd h.symm hne
      · simp only [Bool.not_eq_true] at hrp
        simp only [hrp, Bool.false_eq_true, ↓reduceIte, Except.ok.injEq] at h
        rcases rule3_cases W (rule2 W cur recv) fn.closure with h3 | ⟨pid, hcl, hps, _, h3⟩
        · rcases rule2_cases W cur recv with h2 | ⟨oid, hrecv, hz, _, h2⟩
          · exact absurd (by rw [← h, h3, h2]) hne
          · right; right; left
            exact ⟨hwc, hcr, hrp, oid, hrecv, hz, by rw [← h, h3, h2]⟩
        · right; right; right
          exact ⟨hwc, hcr, hrp, pid, hcl, hps, by rw [← h, h3]⟩

example : pushFrameCall ⟨fun p => if p = 3 then .pure else .realm, fun _ => true⟩ (some 4)
    ⟨3, false, none⟩ false (.obj ⟨some 1, 7⟩) = .ok (some 1) := rfl

/-! ## the machine: who mutates what, for every program -/

/-- an entry context (one frame: the entry function of package `p`, running
    under `p`'s realm) is well-formed -/
theorem entry_ctx_wf (W : World) (c : Ctx) (f : Frame) (p : Nat)
    (hfr : c.frames = [f]) (hp : f.fn.pkg = p) (hr : f.realm = some p) (hs : c.st.realm = some p) :
    c.wf W := by
  refine ⟨?_, f, [], hfr, by rw [hr, hs]⟩
  rw [hfr]
  refine ⟨?_, trivial⟩
  intro R hR _
  rw [hr] at hR
  exact Or.inl (by rw [hp]; exact Option.some.inj hR)

/-- MAIN CLAUSE.  For every event tree (= every program of calls, closure
    creations, allocations, gated writes, …) run from a well-formed context:
    every write that dirtied a real object — i.e. every change that will be
    persisted — happened in a machine state whose current realm is that object's
    owner. -/
theorem real_object_mutated_only_under_its_realm (W : World) (ev : Ev) (c c' : Ctx)
    (h : run W ev c = .ok c') (hwf : c.wf W) (h0 : c.writes = []) :
    ∀ w ∈ c'.writes, w.po.isReal = true ∧ ∃ R, w.realm = some R ∧ w.po.pkg = some R := by
  intro w hw
  have hg := run_good W ev c c' h hwf (by rw [h0]; intro w hw; simp at hw) w hw
  obtain ⟨⟨h1, h2, h3⟩, _⟩ := hg
  refine ⟨h1, ?_⟩
  cases hr : w.realm with
  | none => simp [hr] at h3
  | some R => exact ⟨R, rfl, by rw [h2, hr]⟩

/-- The full authority clause: whenever a real object of realm `R` is dirtied, the
    code that is running is code the specification gives `R`'s storage authority
    (`sanctioned`: declared in `R`, a library method on an `R`-stamped receiver, a
    closure minted under `R`, or immutable library code called by such code). -/
def authority_statement (W : World) : Prop :=
  ∀ (ev : Ev) (c c' : Ctx), run W ev c = .ok c' → c.wf W → c.writes = [] →
    ∀ w ∈ c'.writes, ∀ R, w.po.pkg = some R → sanctioned W R w.frames

/-- Proved part: the clause holds for every write on whose call stack every callee
    is `covered` — declared in a /r/ package or an immutable library, or, if
    declared in an ephemeral (/e/, MsgRun) package, a crossing function, a stamped
    closure or a method on a stamped receiver.  Missing for the full statement:
    receiver-less top-level functions of /e/ packages, which no borrow rule of
    PushFrameCall switches away from the caller's realm. -/
theorem authority_partial (W : World) (ev : Ev) (c c' : Ctx)
    (h : run W ev c = .ok c') (hwf : c.wf W) (h0 : c.writes = []) :
    ∀ w ∈ c'.writes, ∀ R, w.po.pkg = some R →
      (∀ g ∈ w.frames, covered W g = true) → sanctioned W R w.frames := by
  intro w hw R hR hcov
  exact (run_good W ev c c' h hwf (by rw [h0]; intro w hw; simp at hw) w hw).2 R hR hcov

/-- the witness world: 1 = victim realm, 3 = a /p/ library, 4 = the MsgRun package -/
def cexWorld : World := ⟨fun p => if p = 3 then .pure else if p = 4 then .eph else .realm, fun _ => true⟩

/-- `func helper() { victim.GetPt().N = 42 }; func main() { victim.ApplyPlain(helper) }` -/
def cexProgram : Ev :=
  .call 1 false none false .undef                                   -- victim.ApplyPlain(f)
    (.call 4 false none false .undef                                --   f()  = main.helper, a top-level /e/ function
      (.call 1 false none false .undef .done                        --     victim.GetPt()
        (.ro (.ptrHIV (.fixed ⟨some 1, 7⟩) (.obj (.fixed ⟨some 1, 8⟩)))   --     IsReadonly(p)  (passes: m.Realm is the victim)
          (.upd (.fixed ⟨some 1, 8⟩) 1 .done)))                     --     p.N = 42; DidUpdate
      .done)
    .done

def cexCtx : Ctx :=
  { st := ⟨some 4, 4, true⟩, env := [], frames := [⟨⟨4, true, none⟩, .undef, some 4⟩],
    writes := [], metas := [], news := [], rv := false }

/-- On the code as it is the full clause is false: a MsgRun script's named
    function, passed as a callback to a victim function that merely calls it,
    dirties a victim object while NOT being sanctioned code. -/
theorem authority_counterexample : ¬ authority_statement cexWorld := by
  intro hst
  have hwf : cexCtx.wf cexWorld :=
    entry_ctx_wf cexWorld cexCtx ⟨⟨4, true, none⟩, .undef, some 4⟩ 4 rfl rfl rfl rfl
  have hrun : run cexWorld cexProgram cexCtx = .ok
      { cexCtx with writes := [⟨some 1, 4, ⟨some 1, 8⟩, 1,
          [⟨⟨4, false, none⟩, .undef, some 1⟩, ⟨⟨1, false, none⟩, .undef, some 1⟩, ⟨⟨4, true, none⟩, .undef, some 4⟩]⟩] } := rfl
  have := hst cexProgram cexCtx _ hrun hwf rfl _ (List.mem_singleton.mpr rfl) 1 rfl
  simp only [sanctioned] at this
  rcases this with h | ⟨oid, h, _⟩ | h | ⟨h, _⟩
  · exact absurd h (by decide)
  · exact absurd h (by simp)
  · exact absurd h (by simp)
  · rcases h with h | h <;> exact absurd h (by decide)

/-- the same body as a func literal IS stopped: the closure is stamped with the
    MsgRun realm and rule #3 switches back to it, so the gate fails -/
example : run cexWorld
    (.lit 0 (.call 1 false none false .undef
      (.call 4 false (some (.slot 0)) false .undef
        (.call 1 false none false .undef .done
          (.ro (.ptrHIV (.fixed ⟨some 1, 7⟩) (.obj (.fixed ⟨some 1, 8⟩))) (.upd (.fixed ⟨some 1, 8⟩) 1 .done)))
        .done) .done)) cexCtx = .error .readonly := rfl

/-- Storing a reference to another realm's real object runs DidUpdate's `co`
    branch (`IncRefCount` / `MarkDirty(co)`): it re-saves the foreign object's
    ref-count bookkeeping but is not a write to it — the model records it under
    `metas`, never under `writes`. -/
theorem foreign_reference_is_metadata_only (W : World) (c : Ctx) (co : OID) :
    (attachEffect W c co).writes = c.writes :=
  attachEffect_writes W c co

/-! ## construction of realm-declared types -/

/-- `checkConstructionTime` passes for a type whose declared owner is a realm
    package only inside that realm. -/
theorem construction_only_in_declaring_realm (W : World) (cur decl : PkgID)
    (hk : W.isRealmPkg decl = true) (h : checkConstruction W cur decl = .ok ()) : cur = decl := by
  unfold checkConstruction at h
  simp only [hk, Bool.not_true, Bool.false_eq_true, ↓reduceIte] at h
  split at h
  · simp at h
  · rename_i hne
    simp only [bne_iff_ne, ne_eq, Decidable.not_not] at hne
    exact hne.symm

example : checkConstruction ⟨fun _ => .realm, fun _ => true⟩ (some 1) (some 1) = .ok () := rfl

/-- "Values of R-declared types cannot be constructed outside R": every type
    expression that mentions a type declared in realm package `p` is refused by the
    construction-time check outside `p`. -/
def construct_statement (W : World) : Prop :=
  ∀ (t : TypeShape) (p : Nat) (cur : PkgID), t.mentions p = true → W.isRealmPkg (some p) = true →
    checkConstruction W cur (getDeclaredPkgID t) = .ok () → cur = some p

/-- Proved part: the named type itself and pointers to it (composite literals,
    `&T{}`, `new(T)`).  Missing: slices, arrays and maps of `T` (and `var t T`,
    which never reaches the check) — `getDeclaredPkgID` returns the zero PkgID for
    them, so zero values of `T` can be made anywhere. -/
theorem construct_partial (W : World) (t : TypeShape) (p : Nat) (cur : PkgID)
    (ht : getDeclaredPkgID t = some p) (hk : W.isRealmPkg (some p) = true)
    (h : checkConstruction W cur (getDeclaredPkgID t) = .ok ()) : cur = some p := by
  rw [ht] at h
  exact construction_only_in_declaring_realm W cur (some p) hk h

example : getDeclaredPkgID (.ptrTo (.declared 1)) = some 1 := rfl

/-- A DECLARED map / slice / array / struct type (`type Voucher map[string]int`)
    is gated whatever its base kind — because the check is applied to the declared
    type itself: composite literals, `make` and `new` of it pass only inside the
    declaring realm. -/
theorem declared_composite_refused_outside (W : World) (p : Nat) (base : TypeShape) (cur : PkgID)
    (hk : W.isRealmPkg (some p) = true)
    (h : checkConstruction W cur (getDeclaredPkgID (.named p base)) = .ok ()) : cur = some p :=
  construction_only_in_declaring_realm W cur (some p) hk h

example : checkConstruction cexWorld (some 4) (getDeclaredPkgID (.named 1 (.mapOf .anon))) = .error .alloc := rfl

/-- …and applying the check to `baseOf(t)` instead (an anonymous map / slice /
    array type) would let every realm construct it: the guard is in the NAME. -/
theorem check_on_base_type_gates_nothing (W : World) (p : Nat) (elem : TypeShape) (cur : PkgID) :
    checkConstruction W cur (getDeclaredPkgID (TypeShape.named p (.mapOf elem)).baseOf) = .ok () ∧
    checkConstruction W cur (getDeclaredPkgID (TypeShape.named p (.sliceOf elem)).baseOf) = .ok () ∧
    checkConstruction W cur (getDeclaredPkgID (TypeShape.named p (.arrayOf elem)).baseOf) = .ok () := by
  simp [TypeShape.baseOf, getDeclaredPkgID, checkConstruction, World.isRealmPkg]

/-- `doOpConvert` case 2: a value cannot be converted to a non-primitive type
    declared in another /r/ package. -/
theorem conversion_to_foreign_realm_type_refused (W : World) (s : St) (r decl : Nat)
    (hr : s.realm = some r) (hk : W.isRealmPath decl = true) (hne : r ≠ decl) :
    convToGuard W s decl false = .error .conv := by
  have : (some r != some decl) = true := by simp [bne_iff_ne, hne]
  simp [convToGuard, hr, hk, this]

example : convToGuard cexWorld ⟨some 4, 4, true⟩ 1 false = .error .conv := rfl

/-- `make([]victim.T, 2)` in another realm passes the check. -/
theorem construct_counterexample : ¬ construct_statement cexWorld := by
  intro hst
  have := hst (.sliceOf (.declared 1)) 1 (some 4) rfl rfl rfl
  exact absurd this (by decide)

/-! ## realm values -/

/-- "realm (caller) values can never be persisted" -/
def persist_statement : Prop :=
  ∀ origin : Bool, refusePersistRealm true origin = .error .persist

/-- Proved part: every realm value that is not origin-shaped is refused. -/
theorem persist_partial : refusePersistRealm true false = .error .persist := rfl

/-- Origin-shaped realm values (`prev == nil`, no subpath — e.g. `cur.Previous()`
    of a MsgCall entry function, or of a MsgRun `main`) pass the guard. -/
theorem persist_counterexample : ¬ persist_statement := by
  intro h
  have := h true
  simp [refusePersistRealm] at this

/-- and the machine then lets such a value reach the store -/
example : (run cexWorld (.persistRealm true .done) cexCtx).toOption.map (·.rv) = some true := rfl

end GnoVerif.C07
