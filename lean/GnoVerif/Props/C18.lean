import GnoVerif.Proofs.C18Arith
import GnoVerif.Proofs.C18Cmp2
import GnoVerif.Proofs.C18Parse
import GnoVerif.Proofs.C18Slices
/-!
# C18 — coin-set arithmetic matches the multiset model

Model: `Model/C18Coins.lean` (mirrors `tm2/pkg/std/coin.go`; the int64 overflow
test is regenerated from `tm2/pkg/overflow/overflow.go` into `Gen/C18Overflow.lean`).
Spec: `Spec/C18Coins.lean` — a coin list denotes the finitely supported function
`val cs : Denom → Int`; `Represents R f` says `R` is THE strictly sorted, zero-free
list of `f` (unique by `canonical_form_unique`).

Precondition of the arithmetic theorems (what the real merge needs): both
operands strictly sorted by denomination (`Sorted`: hence no duplicate denoms);
zero, negative and extreme amounts are allowed, denominations are arbitrary bytes.

Two clauses of the statement are FALSE on the unchanged tree and are recorded
as known findings (`known_findings/C18.json`); each has its full statement as a
`def … : Prop`, a `…_counterexample` theorem and a `…_partial` theorem under the
exact guard:
* `Sub`/`SubUnsafe` with MinInt64 in the subtrahend (`negative` wraps);
* `IsEqual` panics on valid sets of equal length and different denominations.

The "never modify their operands" clause cannot be expressed over immutable
lists; see `Model/C18Slices.lean` + `operands_unchanged` for the aliasing model,
and the correspondence oracle (deep copy of both backing arrays before the
call, comparison after) for the real code.
-/
namespace GnoVerif.C18
open GnoVerif

/-! ## canonical form -/

/-- A function has at most one strictly sorted, zero-free coin list. -/
theorem canonical_form_unique {R R' : Coins} {f : Denom → Int}
    (h : Represents R f) (h' : Represents R' f) : R = R' :=
  represents_unique h h'

/-- `Coins.validate() == nil` / `IsValid` is exactly the statement's notion of a valid set. -/
theorem isValid_iff (cs : Coins) : validate cs = true ↔ Valid cs := validate_iff cs

example : Valid [⟨dA, 5#64⟩, ⟨dB, maxAmt⟩] := by decide
example : Sorted [⟨dA, 5#64⟩, ⟨dB, 0#64⟩, ⟨dC, minAmt⟩] := by decide

/-! ## AddUnsafe / Add -/

/-- `AddUnsafe` on strictly sorted operands: it panics iff some per-denomination sum
leaves int64 (and only with the overflow panic); otherwise it returns exactly the
strictly sorted, zero-free list of the pointwise sum. -/
theorem addUnsafe_spec (A B : Coins) (hA : Sorted A) (hB : Sorted B) :
    ((∃ e, addUnsafe A B = .error e) ↔ Overflows (fun d => val A d + val B d)) ∧
    (∀ e, addUnsafe A B = .error e → e = .overflow) ∧
    (∀ R, addUnsafe A B = .ok R ↔
      ¬ Overflows (fun d => val A d + val B d) ∧ Represents R (fun d => val A d + val B d)) :=
  let h := addUnsafe_char hA hB
  ⟨h.err_iff, h.err, h.ok_iff⟩

/-- `Add`: overflow panic iff a sum overflows; "invalid result" panic iff no sum overflows
but the summed set is invalid (a negative amount, or a non-zero amount under an ill-formed
denom); otherwise the sorted zero-free sum (which is then a valid set). -/
theorem add_spec (A B : Coins) (hA : Sorted A) (hB : Sorted B) :
    (add A B = .error .overflow ↔ Overflows (fun d => val A d + val B d)) ∧
    (add A B = .error .invalid ↔
      ¬ Overflows (fun d => val A d + val B d) ∧ InvalidFn (fun d => val A d + val B d)) ∧
    (∀ e, add A B = .error e → e = .overflow ∨ e = .invalid) ∧
    (∀ R, add A B = .ok R ↔
      ¬ Overflows (fun d => val A d + val B d) ∧ ¬ InvalidFn (fun d => val A d + val B d) ∧
      Represents R (fun d => val A d + val B d)) := by
  have h := checked_char (addUnsafe_char hA hB)
  rw [← add_eq_checked] at h
  exact ⟨h.overflow_iff, h.invalid_iff, h.err, h.ok_iff⟩

/-- `Add` panics exactly when a result amount overflows or the result is invalid. -/
theorem add_panics_iff (A B : Coins) (hA : Sorted A) (hB : Sorted B) :
    (∃ e, add A B = .error e) ↔
      Overflows (fun d => val A d + val B d) ∨ InvalidFn (fun d => val A d + val B d) := by
  obtain ⟨h1, h2, h3, _⟩ := add_spec A B hA hB
  constructor
  · intro ⟨e, he⟩
    rcases h3 e he with e1 | e1 <;> subst e1
    · exact Or.inl (h1.mp he)
    · exact Or.inr (h2.mp he).2
  · intro h
    by_cases ho : Overflows (fun d => val A d + val B d)
    · exact ⟨_, h1.mpr ho⟩
    · rcases h with h | h
      · exact absurd h ho
      · exact ⟨_, h2.mpr ⟨ho, h⟩⟩

/-- the result of a successful `Add` is a valid coin set. -/
theorem add_ok_valid (A B R : Coins) (hA : Sorted A) (hB : Sorted B) (h : add A B = .ok R) : Valid R := by
  obtain ⟨_, hv, hr⟩ := ((add_spec A B hA hB).2.2.2 R).mp h
  exact (represents_valid_iff hr).mpr hv

/-! ## SubUnsafe / Sub -/

/-- What the code does, exactly, for ALL strictly sorted operands: `SubUnsafe A B` is
`AddUnsafe A (negative B)` and `negative` is Go's wrapping `-1 * x`, i.e. `negWrap`
(MinInt64 stays MinInt64). -/
theorem subUnsafe_exact (A B : Coins) (hA : Sorted A) (hB : Sorted B) :
    ((∃ e, subUnsafe A B = .error e) ↔ Overflows (fun d => val A d + negWrap (val B d))) ∧
    (∀ e, subUnsafe A B = .error e → e = .overflow) ∧
    (∀ R, subUnsafe A B = .ok R ↔
      ¬ Overflows (fun d => val A d + negWrap (val B d)) ∧ Represents R (fun d => val A d + negWrap (val B d))) :=
  let h := subUnsafe_char hA hB
  ⟨h.err_iff, h.err, h.ok_iff⟩

theorem sub_exact (A B : Coins) (hA : Sorted A) (hB : Sorted B) :
    (sub A B = .error .overflow ↔ Overflows (fun d => val A d + negWrap (val B d))) ∧
    (sub A B = .error .invalid ↔
      ¬ Overflows (fun d => val A d + negWrap (val B d)) ∧ InvalidFn (fun d => val A d + negWrap (val B d))) ∧
    (∀ e, sub A B = .error e → e = .overflow ∨ e = .invalid) ∧
    (∀ R, sub A B = .ok R ↔
      ¬ Overflows (fun d => val A d + negWrap (val B d)) ∧ ¬ InvalidFn (fun d => val A d + negWrap (val B d)) ∧
      Represents R (fun d => val A d + negWrap (val B d))) := by
  have h := checked_char (subUnsafe_char hA hB)
  rw [← sub_eq_checked] at h
  exact ⟨h.overflow_iff, h.invalid_iff, h.err, h.ok_iff⟩

/-- The property statement for `SubUnsafe` (per-denomination DIFFERENCE). False: see the counter-example. -/
def subUnsafe_statement : Prop :=
  ∀ A B : Coins, Sorted A → Sorted B →
    ((∃ e, subUnsafe A B = .error e) ↔ Overflows (fun d => val A d - val B d)) ∧
    (∀ R, subUnsafe A B = .ok R ↔
      ¬ Overflows (fun d => val A d - val B d) ∧ Represents R (fun d => val A d - val B d))

/-- The property statement for `Sub`. False: see the counter-example. -/
def sub_statement : Prop :=
  ∀ A B : Coins, Sorted A → Sorted B →
    ((∃ e, sub A B = .error e) ↔
      Overflows (fun d => val A d - val B d) ∨ InvalidFn (fun d => val A d - val B d)) ∧
    (∀ R, sub A B = .ok R ↔
      ¬ Overflows (fun d => val A d - val B d) ∧ ¬ InvalidFn (fun d => val A d - val B d) ∧
      Represents R (fun d => val A d - val B d))

/-- The statement holds whenever the subtrahend holds no MinInt64 amount (the exact guard). -/
theorem subUnsafe_spec_partial (A B : Coins) (hA : Sorted A) (hB : Sorted B)
    (hmin : ∀ b ∈ B, b.amount.toInt ≠ i64Min) :
    ((∃ e, subUnsafe A B = .error e) ↔ Overflows (fun d => val A d - val B d)) ∧
    (∀ e, subUnsafe A B = .error e → e = .overflow) ∧
    (∀ R, subUnsafe A B = .ok R ↔
      ¬ Overflows (fun d => val A d - val B d) ∧ Represents R (fun d => val A d - val B d)) := by
  have e : (fun d => val A d + negWrap (val B d)) = (fun d => val A d - val B d) := by
    funext d; rw [negWrap_val_of_noMin hB hmin, Int.sub_eq_add_neg]
  have h := subUnsafe_exact A B hA hB
  rw [e] at h
  exact h

theorem sub_spec_partial (A B : Coins) (hA : Sorted A) (hB : Sorted B)
    (hmin : ∀ b ∈ B, b.amount.toInt ≠ i64Min) :
    (sub A B = .error .overflow ↔ Overflows (fun d => val A d - val B d)) ∧
    (sub A B = .error .invalid ↔
      ¬ Overflows (fun d => val A d - val B d) ∧ InvalidFn (fun d => val A d - val B d)) ∧
    (∀ e, sub A B = .error e → e = .overflow ∨ e = .invalid) ∧
    (∀ R, sub A B = .ok R ↔
      ¬ Overflows (fun d => val A d - val B d) ∧ ¬ InvalidFn (fun d => val A d - val B d) ∧
      Represents R (fun d => val A d - val B d)) := by
  have e : (fun d => val A d + negWrap (val B d)) = (fun d => val A d - val B d) := by
    funext d; rw [negWrap_val_of_noMin hB hmin, Int.sub_eq_add_neg]
  have h := sub_exact A B hA hB
  rw [e] at h
  exact h

/-- `Sub` panics exactly when a result amount overflows or the result is invalid — under the guard. -/
theorem sub_panics_iff_partial (A B : Coins) (hA : Sorted A) (hB : Sorted B)
    (hmin : ∀ b ∈ B, b.amount.toInt ≠ i64Min) :
    (∃ e, sub A B = .error e) ↔
      Overflows (fun d => val A d - val B d) ∨ InvalidFn (fun d => val A d - val B d) := by
  obtain ⟨h1, h2, h3, _⟩ := sub_spec_partial A B hA hB hmin
  constructor
  · intro ⟨e, he⟩
    rcases h3 e he with e1 | e1 <;> subst e1
    · exact Or.inl (h1.mp he)
    · exact Or.inr (h2.mp he).2
  · intro h
    by_cases ho : Overflows (fun d => val A d - val B d)
    · exact ⟨_, h1.mpr ho⟩
    · rcases h with h | h
      · exact absurd h ho
      · exact ⟨_, h2.mpr ⟨ho, h⟩⟩

example : Sorted [⟨dA, 5#64⟩] ∧ Sorted [⟨dA, 7#64⟩, ⟨dB, maxAmt⟩] ∧
    ∀ b ∈ ([⟨dA, 7#64⟩, ⟨dB, maxAmt⟩] : Coins), b.amount.toInt ≠ i64Min := by decide

/-- KNOWN FINDING `minint64-negate`: `{} − {aaa:MinInt64}` is `2^63`, which overflows, yet
`SubUnsafe` returns (the wrapped) `{aaa:MinInt64}` instead of panicking. -/
theorem subUnsafe_minint64_counterexample : ¬ subUnsafe_statement := by
  intro hst
  have hB : Sorted [⟨dA, minAmt⟩] := by decide
  obtain ⟨h1, _⟩ := hst [] [⟨dA, minAmt⟩] sorted_nil hB
  have hov : Overflows (fun d => val [] d - val [⟨dA, minAmt⟩] d) := ⟨dA, by decide⟩
  obtain ⟨e, he⟩ := h1.mpr hov
  obtain ⟨d, hd⟩ := (subUnsafe_exact [] [⟨dA, minAmt⟩] sorted_nil hB).1.mp ⟨e, he⟩
  apply hd
  simp only [val_nil, val_cons, Int.zero_add, Int.add_zero]
  split <;> decide

/-- KNOWN FINDING `minint64-negate`: `{aaa:−1} − {aaa:MinInt64} = {aaa:MaxInt64}` is representable
and valid, yet `Sub` panics (overflow). -/
theorem sub_minint64_counterexample : ¬ sub_statement := by
  intro hst
  have hA : Sorted [⟨dA, BitVec.ofInt 64 (-1)⟩] := by decide
  have hB : Sorted [⟨dA, minAmt⟩] := by decide
  obtain ⟨h1, _⟩ := hst [⟨dA, BitVec.ofInt 64 (-1)⟩] [⟨dA, minAmt⟩] hA hB
  have hov : Overflows (fun d => val [⟨dA, BitVec.ofInt 64 (-1)⟩] d + negWrap (val [⟨dA, minAmt⟩] d)) :=
    ⟨dA, by decide⟩
  have hpanic := (sub_exact _ _ hA hB).1.mpr hov
  rcases h1.mp ⟨_, hpanic⟩ with ⟨d, hd⟩ | ⟨d, hd0, hd⟩
  · apply hd
    simp only [val_nil, val_cons, Int.add_zero]
    split <;> decide
  · apply hd
    simp only [val_nil, val_cons, Int.add_zero] at hd0 ⊢
    split at hd0
    · next e => subst e; decide
    · exact absurd rfl hd0

/-! ## comparison helpers = per-denomination comparison (on valid sets) -/

/-- `AmountOf` on a strictly sorted set: the denoted amount for a well-formed denom, the
`mustValidateDenom` panic otherwise. -/
theorem amountOf_spec (cs : Coins) (d : Denom) (hs : Sorted cs) :
    (DenomOK d → ∃ v, amountOf cs d = .ok v ∧ v.toInt = val cs d) ∧
    (¬ DenomOK d → amountOf cs d = .error .denom) :=
  ⟨fun hd => ⟨_, amountOf_ok hd, amountOfGo_spec cs d hs⟩, fun hd => amountOf_bad hd⟩

example : Sorted [⟨dA, 5#64⟩, ⟨dB, 0#64⟩, ⟨dC, minAmt⟩] ∧ DenomOK dB := by decide

/-- `IsAllGT`: `A` is non-empty and strictly exceeds `B` on every denomination of `B`. -/
theorem isAllGT_spec (A B : Coins) (hA : Valid A) (hB : Valid B) :
    ∃ r, isAllGT A B = .ok r ∧ (r = true ↔ A ≠ [] ∧ ∀ d, val B d ≠ 0 → val B d < val A d) :=
  isAllGT_valid hA hB

/-- `IsAllGTE`: `B ≤ A` pointwise. -/
theorem isAllGTE_spec (A B : Coins) (hA : Valid A) (hB : Valid B) :
    ∃ r, isAllGTE A B = .ok r ∧ (r = true ↔ ∀ d, val B d ≤ val A d) :=
  isAllGTE_valid hA hB

/-- `IsAllLT` = `IsAllGT` with the operands swapped. -/
theorem isAllLT_spec (A B : Coins) (hA : Valid A) (hB : Valid B) :
    ∃ r, isAllLT A B = .ok r ∧ (r = true ↔ B ≠ [] ∧ ∀ d, val A d ≠ 0 → val A d < val B d) :=
  isAllGT_valid hB hA

/-- `IsAllLTE`: `A ≤ B` pointwise. -/
theorem isAllLTE_spec (A B : Coins) (hA : Valid A) (hB : Valid B) :
    ∃ r, isAllLTE A B = .ok r ∧ (r = true ↔ ∀ d, val A d ≤ val B d) :=
  isAllGTE_valid hB hA

/-- `IsAnyGT`: some denomination present in both sets has a strictly greater amount in `A`. -/
theorem isAnyGT_spec (A B : Coins) (hA : Valid A) (hB : Valid B) :
    ∃ r, isAnyGT A B = .ok r ∧ (r = true ↔ ∃ d, val A d ≠ 0 ∧ val B d ≠ 0 ∧ val B d < val A d) := by
  simpa [isAnyGT] using isAny_valid true hA hB

/-- `IsAnyGTE`: some denomination present in both sets has a greater-or-equal amount in `A`. -/
theorem isAnyGTE_spec (A B : Coins) (hA : Valid A) (hB : Valid B) :
    ∃ r, isAnyGTE A B = .ok r ∧ (r = true ↔ ∃ d, val A d ≠ 0 ∧ val B d ≠ 0 ∧ val B d ≤ val A d) := by
  simpa [isAnyGTE] using isAny_valid false hA hB

/-- `DenomsSubsetOf`: the support of `A` is contained in the support of `B`. -/
theorem denomsSubsetOf_spec (A B : Coins) (hA : Valid A) (hB : Valid B) :
    ∃ r, denomsSubsetOf A B = .ok r ∧ (r = true ↔ ∀ d, val A d ≠ 0 → val B d ≠ 0) :=
  denomsSubsetOf_valid hA hB

example : Valid [⟨dA, 5#64⟩, ⟨dB, maxAmt⟩] ∧ Valid [⟨dB, 1#64⟩] := by decide

/-- The property statement for `IsEqual`. False: see the counter-example. -/
def isEqual_statement : Prop :=
  ∀ A B : Coins, Valid A → Valid B →
    ∃ r, isEqual A B = .ok r ∧ (r = true ↔ ∀ d, val A d = val B d)

/-- KNOWN FINDING `isequal-panic`: on the valid sets `{aaa:1}` and `{bbb:1}` `IsEqual` panics
("invalid coin denominations") instead of returning false. -/
theorem isEqual_counterexample : ¬ isEqual_statement := by
  intro hst
  obtain ⟨r, hr, _⟩ := hst [⟨dA, 1#64⟩] [⟨dB, 1#64⟩] (by decide) (by decide)
  have : isEqual [⟨dA, 1#64⟩] [⟨dB, 1#64⟩] = .error .denoms := by rfl
  rw [this] at hr
  cases hr

/-- Whenever `IsEqual` returns on valid sets, its answer is the per-denomination equality. -/
theorem isEqual_sound_partial (A B : Coins) (hA : Valid A) (hB : Valid B) (r : Bool)
    (h : isEqual A B = .ok r) : r = true ↔ ∀ d, val A d = val B d :=
  isEqual_valid_sound hA hB r h

/-- It returns (no panic) at least when the lengths differ or the denominations agree position by position
— the exact complement is "equal length and a first differing position that differs in its denom". -/
theorem isEqual_partial (A B : Coins) (hA : Valid A) (hB : Valid B)
    (hg : A.length ≠ B.length ∨ A.map Coin.denom = B.map Coin.denom) :
    ∃ r, isEqual A B = .ok r ∧ (r = true ↔ ∀ d, val A d = val B d) := by
  obtain ⟨r, hr⟩ := isEqual_valid_total hA hB hg
  exact ⟨r, hr, isEqual_valid_sound hA hB r hr⟩

example : Valid [⟨dA, 5#64⟩, ⟨dB, 2#64⟩] ∧ Valid [⟨dA, 5#64⟩, ⟨dB, 3#64⟩] ∧
    ([⟨dA, 5#64⟩, ⟨dB, 2#64⟩] : Coins).map Coin.denom = ([⟨dA, 5#64⟩, ⟨dB, 3#64⟩] : Coins).map Coin.denom := by
  decide

/-- `IsEqual` sorts its operands in place; on strictly sorted operands that leaves them unchanged. -/
theorem isEqual_operands_unchanged (A B : Coins) (hA : Sorted A) (hB : Sorted B) :
    (isEqualFull A B).2 = (A, B) :=
  isEqualFull_operands hA hB

/-- `IsZero` on a strictly sorted set: the denoted function is identically 0. -/
theorem isZero_spec (cs : Coins) (hs : Sorted cs) : isZero cs = true ↔ ∀ d, val cs d = 0 := by
  simp only [isZero, List.all_eq_true, isZero_iff]
  constructor
  · intro h d
    exact val_zero_of_all_zero (fun c hc => by rw [h c hc]; rfl) d
  · intro h c hc
    have := h c.denom
    rw [val_of_mem hs hc] at this
    apply BitVec.toInt_inj.mp
    rw [this]; rfl

/-- `IsAllPositive`: non-empty and every amount positive. -/
theorem isAllPositive_spec (cs : Coins) :
    isAllPositive cs = true ↔ cs ≠ [] ∧ ∀ c ∈ cs, 0 < c.amount.toInt := by
  cases cs with
  | nil => simp [isAllPositive]
  | cons c cs => simp [isAllPositive, isPositive_iff]

/-- `IsAnyNegative`: some amount negative. -/
theorem isAnyNegative_spec (cs : Coins) :
    isAnyNegative cs = true ↔ ∃ c ∈ cs, c.amount.toInt < 0 := by
  simp [isAnyNegative, Coin.isNegative]

/-! ## String / ParseCoins -/

/-- Parsing the string form of a valid coin set returns the same set.  (`str` = `Coins.String`:
decimal amounts glued to the denoms, joined by ","; `parseCoins` = `ParseCoins`: `TrimSpace`,
split on ",", per item `TrimSpace` + length cap + the `reCoin` match + `ParseInt` + `ValidateDenom`,
then sort and `validate`.) -/
theorem parse_toString_roundtrip (cs : Coins) (h : Valid cs) : parseCoins (str cs) = .ok cs :=
  parseCoins_str h

example : Valid [⟨dA, 5#64⟩, ⟨dB, maxAmt⟩] ∧
    str [⟨dA, 5#64⟩, ⟨dB, 7#64⟩] = [53, 97, 97, 97, 44, 55, 98, 98, 98] := by decide

/-! ## operands are never modified (slice model, `Model/C18Slices.lean`)

In the slice model — Go's `append`/`make`/`copy`/re-slicing over an explicit heap of backing
arrays — none of `AddUnsafe`, `SubUnsafe`, `Add`, `Sub` writes into ANY allocation that existed
before the call (whether it returns or panics): in particular both operands' backing arrays,
including their spare capacity, are unchanged.  The slice model is tied to the real code by the
correspondence run (the driver prints the operands as read back from the slice model's final
heap, and cross-checks its result against the list model on every op); for the real code the
clause itself is checked by the oracle's deep copy / compare. -/

theorem operands_unchanged (h : Mem.Heap) (A B : Mem.Slice) (id : Nat) (hid : id < h.length) :
    Mem.arr (Mem.addUnsafeH h A B).1 id = Mem.arr h id ∧
    Mem.arr (Mem.subUnsafeH h A B).1 id = Mem.arr h id ∧
    Mem.arr (Mem.addH h A B).1 id = Mem.arr h id ∧
    Mem.arr (Mem.subH h A B).1 id = Mem.arr h id := by
  refine ⟨?_, ?_, ?_, ?_⟩
  · exact (Mem.addUnsafeH_pres A B (Nat.le_refl _)).2 id hid
  · exact (Mem.subUnsafeH_pres A B (Nat.le_refl _)).2 id hid
  · rw [Mem.addH, Mem.checkH_heap]; exact (Mem.addUnsafeH_pres A B (Nat.le_refl _)).2 id hid
  · rw [Mem.subH, Mem.checkH_heap]; exact (Mem.subUnsafeH_pres A B (Nat.le_refl _)).2 id hid

/-- …hence both operands read back the same after `Add` (likewise for the other three). -/
theorem add_operands_read_unchanged (h : Mem.Heap) (A B : Mem.Slice)
    (hA : A.id < h.length) (hB : B.id < h.length) :
    Mem.read (Mem.addH h A B).1 A = Mem.read h A ∧ Mem.read (Mem.addH h A B).1 B = Mem.read h B :=
  ⟨Mem.read_of_arr_eq (operands_unchanged h A B A.id hA).2.2.1,
   Mem.read_of_arr_eq (operands_unchanged h A B B.id hB).2.2.1⟩

example : let a := Mem.mkOperand [] [⟨dA, 0#64⟩, ⟨dB, 5#64⟩] 2
    a.2.id < a.1.length ∧ Mem.read a.1 a.2 = [⟨dA, 0#64⟩, ⟨dB, 5#64⟩] := by decide

/-- REGRESSION of the defect fixed by /repo commit 97032b3b5d: the OLD `removeZeroCoins`
(`slices.Delete` in place), applied as `AddUnsafe` did to the tail `B[0:]` of the operand
`B = {aaa:0, bbb:5}`, leaves the operand as `[{bbb 5} {"" 0}]` — the slice model can express
the mutation, so `operands_unchanged` is not vacuous. -/
theorem old_removeZero_mutates :
    Mem.read (Mem.removeZeroOldH (Mem.mkOperand [] [⟨dA, 0#64⟩, ⟨dB, 5#64⟩] 0).1
        ((Mem.mkOperand [] [⟨dA, 0#64⟩, ⟨dB, 5#64⟩] 0).2.from 0)).1
      (Mem.mkOperand [] [⟨dA, 0#64⟩, ⟨dB, 5#64⟩] 0).2
    = [⟨dB, 5#64⟩, Mem.zeroCoin] := by decide

end GnoVerif.C18
