import GnoVerif.Model.C18Coins
namespace GnoVerif.C18
end GnoVerif.C18
