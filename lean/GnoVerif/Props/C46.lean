import GnoVerif.Proofs.C46WordsOK
import GnoVerif.Proofs.C46Keys
import GnoVerif.Proofs.C46Path
/-!
C46 — Key encryption, mnemonics and HD derivation are faithful.

Statement: "An armored or keybase-encrypted private key decrypts to the original key with the
right passphrase and fails with any other passphrase or any modification of the ciphertext;
converting entropy to a mnemonic and back returns the same entropy and mnemonics with bad
checksums are rejected; and hierarchical key derivation yields the same keys as the BIP-32/44
reference for every path."

What is a theorem here (about the executable models in `Model/C46*.lean`):

* BIP-39 (`tm2/pkg/crypto/bip39`), for the word list REGENERATED from wordlist.go and for EVERY
  hash function in place of SHA-256: which entropy lengths are accepted, the round trip, the exact
  acceptance condition of `MnemonicToByteArray` (hence bad checksums rejected), canonicity of
  everything it accepts, rejection of unknown words / wrong word counts.
  Note: the code has no `EntropyFromMnemonic`; `MnemonicToByteArray` returns the entropy WITH the
  checksum bits appended (a right-aligned `len+1`-byte number).  "Returns the same entropy" is
  stated after shifting those bits out (`stripChecksum`), and the exact layout is a theorem too.
* ASCII armor: `DecodeArmor (EncodeArmor t h d) = (t, h, d)` for every block in `ArmorOK`.
* armor.go over ABSTRACT primitives (cipher, KDF, key decoder): the encrypt/decrypt round trip
  (both the encrypted and the passphrase-less form), and what any successful decryption implies.
  "Fails with any other passphrase" is FALSE for the code (bcrypt reads only the 72-byte cyclic
  key stream of `passphrase ‖ 0`): `wrong_passphrase_statement` is refuted by
  `wrong_passphrase_counterexample`, and `wrong_passphrase_rejected_partial` is the statement
  under the exact guard "different key stream" — and even that only up to an explicit
  "or here is a KDF collision / a forgery" (such things exist, they are merely infeasible).

NOT theorems (correspondence / oracle only, see props/C46.json): bcrypt, XSalsa20-Poly1305, amino
key decoding, PBKDF2, HMAC-SHA512 / secp256k1 key derivation (BIP-32/44).
-/
namespace GnoVerif.C46
open GnoVerif.Gen.C46 (wordList)

/-! ## BIP-39 -/

/-- the regenerated word list has 2048 pairwise distinct entries -/
theorem wordlist_2048_distinct : wordList.length = 2048 ∧ wordList.Nodup :=
  ⟨wordList_length, wordList_nodup⟩

/-- every listed word is non-empty and contains no separator byte (so a sentence splits back into
    its words) -/
theorem wordlist_words_clean : ∀ w ∈ wordList, w ≠ [] ∧ ∀ b ∈ w, isSpace b = false :=
  wordList_word_ok

/-- `NewMnemonic` accepts exactly the entropy lengths 16, 20, 24, 28, 32 bytes -/
theorem newMnemonic_accepts_iff (sha : Bytes → Bytes) (e : Bytes) :
    (∃ m, newMnemonic sha wordList e = .ok m) ↔
      (e.length = 16 ∨ e.length = 20 ∨ e.length = 24 ∨ e.length = 28 ∨ e.length = 32) := by
  constructor
  · intro ⟨m, hm⟩
    apply Classical.byContradiction
    intro hn
    rw [newMnemonic_bad_length sha wordList e hn] at hm
    cases hm
  · intro h
    obtain ⟨n, cs, hs⟩ := shape_of_len e.length h
    exact ⟨_, newMnemonic_shape sha wordList wordList_length e n cs hs⟩

/-- entropy → mnemonic → bytes → entropy is the identity, for every accepted length and every hash -/
theorem entropy_mnemonic_roundtrip (sha : Bytes → Bytes) (e : Bytes)
    (h : e.length = 16 ∨ e.length = 20 ∨ e.length = 24 ∨ e.length = 28 ∨ e.length = 32) :
    ∃ m ba, newMnemonic sha wordList e = .ok m ∧ mnemonicToByteArray sha wordList m = .ok ba ∧
      stripChecksum ba = e := by
  obtain ⟨n, cs, hs⟩ := shape_of_len e.length h
  obtain ⟨m, h1, h2, h3⟩ := roundtrip_shape sha wordList wordList_ok e n cs hs
  exact ⟨m, _, h1, h2, h3⟩

/-- the layout of what `MnemonicToByteArray` returns for a generated mnemonic: the `len+1`-byte
    big-endian number `entropy · 2^(len/4) + checksum bits` (NOT the entropy itself) -/
theorem mnemonicToByteArray_layout (sha : Bytes → Bytes) (e : Bytes)
    (h : e.length = 16 ∨ e.length = 20 ∨ e.length = 24 ∨ e.length = 28 ∨ e.length = 32) :
    ∃ m, newMnemonic sha wordList e = .ok m ∧
      mnemonicToByteArray sha wordList m =
        .ok (toBE (e.length + 1) (fromBE e * 2 ^ (e.length / 4) + csBits ((sha e).headD 0) (e.length / 4))) := by
  obtain ⟨n, cs, hs⟩ := shape_of_len e.length h
  obtain ⟨m, h1, h2, _⟩ := roundtrip_shape sha wordList wordList_ok e n cs hs
  exact ⟨m, h1, by rw [h2, addChecksum_eq]⟩

/-- whatever `MnemonicToByteArray` accepts — for ANY byte string `m` — is exactly the mnemonic
    `NewMnemonic` generates for the entropy it encodes: single spaces, listed words, an accepted
    length, and the right checksum -/
theorem accepted_mnemonic_is_canonical (sha : Bytes → Bytes) (m ba : Bytes)
    (h : mnemonicToByteArray sha wordList m = .ok ba) :
    newMnemonic sha wordList (stripChecksum ba) = .ok m :=
  (accepted_canonical sha wordList wordList_length m ba h).1

/-- EXACT acceptance condition on sentences of listed words of an accepted length: accepted iff the
    low `cs` bits of the sentence's number are the first `cs` bits of the hash of its entropy part -/
theorem checksum_decides_acceptance (sha : Bytes → Bytes) (idxs : List Nat) (h : ∀ i ∈ idxs, i < 2048)
    (L cs : Nat) (hs : Shape L idxs.length cs) :
    mnemonicToByteArray sha wordList (joinSp (sentence wordList idxs)) =
      if fromDigits2048 idxs % 2 ^ cs =
          csBits ((sha (toBE L (fromDigits2048 idxs / 2 ^ cs))).headD 0) cs
      then .ok (toBE (L + 1) (fromDigits2048 idxs)) else .error .checksum :=
  decode_sentence sha wordList wordList_ok idxs h L cs hs

/-- mnemonics with bad checksums are rejected -/
theorem bad_checksum_rejected (sha : Bytes → Bytes) (idxs : List Nat) (h : ∀ i ∈ idxs, i < 2048)
    (L cs : Nat) (hs : Shape L idxs.length cs)
    (hbad : fromDigits2048 idxs % 2 ^ cs ≠ csBits ((sha (toBE L (fromDigits2048 idxs / 2 ^ cs))).headD 0) cs) :
    mnemonicToByteArray sha wordList (joinSp (sentence wordList idxs)) = .error .checksum := by
  rw [checksum_decides_acceptance sha idxs h L cs hs, if_neg hbad]

/-- a 12-word sentence of listed words whose checksum bits are wrong (hash stub with first byte 0xF0) -/
example : mnemonicToByteArray (fun _ => [0xF0]) wordList (joinSp (sentence wordList (List.replicate 12 0))) =
    .error .checksum :=
  bad_checksum_rejected _ _ (by decide) 16 4 shape16 (by decide)

/-- the five shapes exist (12/15/18/21/24 words ↔ 16/20/24/28/32 bytes ↔ 4/5/6/7/8 checksum bits):
    the hypothesis `Shape L n cs` of the two theorems above is satisfiable exactly there -/
example : Shape 16 12 4 ∧ Shape 20 15 5 ∧ Shape 24 18 6 ∧ Shape 28 21 7 ∧ Shape 32 24 8 :=
  ⟨shape16, shape20, shape24, shape28, shape32⟩

/-- a sentence containing a word that is not in the list is rejected -/
theorem unknown_word_rejected (sha : Bytes → Bytes) (m w : Bytes) (hw : w ∈ fields m) (hn : w ∉ wordList) :
    mnemonicToByteArray sha wordList m = .error .invalid :=
  toByteArray_invalid sha wordList m (invalid_of_unknown wordList m w hw hn)

example : ([122, 122, 122] : Bytes) ∈ fields [122, 122, 122] ∧ ([122, 122, 122] : Bytes) ∉ wordList :=
  ⟨by decide, zzz_not_listed⟩

/-- a sentence whose word count is not 12, 15, 18, 21 or 24 is rejected -/
theorem wrong_word_count_rejected (sha : Bytes → Bytes) (m : Bytes)
    (h : ¬ ((fields m).length = 12 ∨ (fields m).length = 15 ∨ (fields m).length = 18 ∨
            (fields m).length = 21 ∨ (fields m).length = 24)) :
    mnemonicToByteArray sha wordList m = .error .invalid :=
  toByteArray_invalid sha wordList m (invalid_of_count wordList m h)

/-- entropy of any other length is rejected by `NewMnemonic` -/
theorem bad_entropy_length_rejected (sha : Bytes → Bytes) (e : Bytes)
    (h : ¬ (e.length = 16 ∨ e.length = 20 ∨ e.length = 24 ∨ e.length = 28 ∨ e.length = 32)) :
    newMnemonic sha wordList e = .error .entropy :=
  newMnemonic_bad_length sha wordList e h

/-! ## ASCII armor -/

/-- parse ∘ format = id for every representable block: non-empty newline-free type of ≤ 83 bytes,
    headers with distinct keys whose `Key: Value` line is newline-free, < 100 bytes, not
    surrounded by white space, with the first ": " right after the key -/
theorem armor_parse_format (ty : Bytes) (hdrs : List (Bytes × Bytes)) (data : Bytes) (ok : ArmorOK ty hdrs) :
    decodeArmor (encodeArmor ty hdrs data) = .ok (ty, hdrs, data) :=
  decode_encode ty hdrs data ok

/-- the blocks armor.go itself writes are representable: unencrypted key, and `kdf`/`salt` headers in
    either map order for any 16-byte salt -/
example : ArmorOK blockTypePrivKey [] := armorOK_plain
example (salt : Bytes) (h : salt.length = 16) (o : Bool) :
    ArmorOK blockTypePrivKey (if o then [(sSalt, hexUpper salt), (sKdf, sBcrypt)] else [(sKdf, sBcrypt), (sSalt, hexUpper salt)]) :=
  armorOK_enc salt (by intro e; rw [e] at h; simp at h) (by omega) o

/-! ## armor.go over abstract primitives -/

/-- `UnarmorDecryptPrivKey(EncryptArmorPrivKey(key, pass), pass) = key` for every passphrase
    (including the empty one = unencrypted armor), every salt, nonce and header order, every
    cipher/KDF satisfying `Laws`, every key encoding the key decoder accepts -/
theorem encrypt_armor_roundtrip (C : Crypto) (L : C.Laws) (keyBytes pass salt nonce : Bytes) (saltFirst : Bool)
    (hkey : C.keyFromBytes keyBytes = some keyBytes)
    (hsalt : salt.length = 16) (hnonce : nonce.length = nonceLen) :
    ∃ text, encryptArmorPrivKey C keyBytes pass salt nonce saltFirst = .ok text ∧
      unarmorDecryptPrivKey C text pass = .ok keyBytes :=
  roundtrip C L keyBytes pass salt nonce saltFirst hkey hsalt hnonce

/-- the hypotheses of the round trip are jointly satisfiable -/
example : ∃ C : Crypto, C.Laws ∧ C.keyFromBytes [1] = some [1] := ⟨toyCrypto, toyCrypto_laws, rfl⟩

/-- xsalsa20symmetric: `DecryptSymmetric(EncryptSymmetric(m, k), k) = m` for EVERY plaintext,
    the empty one included (the "too short" test is `<` since /repo 3171d20601; with the earlier
    `<=` the 40-byte encryption of the empty plaintext was refused) -/
theorem symmetric_roundtrip (C : Crypto) (L : C.Laws) (m key nonce : Bytes)
    (hk : key.length = secretLen) (hn : nonce.length = nonceLen) :
    ∃ ct, encryptSymmetric C m key nonce = .ok ct ∧ decryptSymmetric C ct key = .ok m :=
  ⟨nonce ++ C.sealBox key nonce m, by simp [encryptSymmetric, hk], decryptSymmetric_seal C L key nonce m hk hn⟩

/-- anything shorter than nonce + tag is refused before the cipher is consulted -/
theorem symmetric_short_rejected (C : Crypto) (ct key : Bytes) (hk : key.length = secretLen)
    (h : ct.length < boxOverhead + nonceLen) : decryptSymmetric C ct key = .error .short := by
  simp [decryptSymmetric, hk, h]

/-- decryption looks at the passphrase only through bcrypt's 72-byte cyclic key stream -/
theorem decrypt_depends_only_on_key_stream (C : Crypto) (text p q : Bytes)
    (h : keyStream p = keyStream q) (he : p.isEmpty = q.isEmpty) :
    unarmorDecryptPrivKey C text p = unarmorDecryptPrivKey C text q :=
  decrypt_congr C text p q h he

/-- … and that stream is a function of the first 72 bytes of a long passphrase -/
theorem keyStream_only_first_72_bytes (p q : Bytes) (h : p.take 72 = q.take 72)
    (hp : 72 ≤ p.length) (hq : 72 ≤ q.length) : keyStream p = keyStream q :=
  keyStream_prefix p q h hp hq

/-- FULL STATEMENT of the clause "fails with any other passphrase", for the model (NOT provable:
    refuted below) -/
def wrong_passphrase_statement (C : Crypto) : Prop :=
  ∀ keyBytes pass pass' salt nonce saltFirst text,
    C.keyFromBytes keyBytes = some keyBytes → salt.length = 16 → nonce.length = nonceLen →
    pass' ≠ pass → encryptArmorPrivKey C keyBytes pass salt nonce saltFirst = .ok text →
    ∃ e, unarmorDecryptPrivKey C text pass' = .error e

/-- COUNTEREXAMPLE to "fails with any other passphrase" (known finding `pass-trunc72`): for every
    cipher/KDF satisfying the round-trip laws, a key encrypted under "a"*72+"XXXX" is decrypted by
    "a"*72+"YYYYYYY".  (`keyStream_cyclic` is the second witness: "a" vs "a\x00a".) -/
theorem wrong_passphrase_counterexample (C : Crypto) (L : C.Laws) (keyBytes : Bytes)
    (hkey : C.keyFromBytes keyBytes = some keyBytes) :
    ¬ wrong_passphrase_statement C := by
  intro hst
  let salt : Bytes := List.replicate 16 0
  let nonce : Bytes := List.replicate 24 0
  obtain ⟨text, henc, hdec⟩ := roundtrip C L keyBytes passX salt nonce false hkey rfl rfl
  obtain ⟨e, he⟩ := hst keyBytes passX passY salt nonce false text hkey rfl rfl
    (fun h => keyStream_trunc.2 h.symm) henc
  rw [← decrypt_congr C text passX passY keyStream_trunc.1 rfl, hdec] at he
  cases he

example : ¬ wrong_passphrase_statement toyCrypto :=
  wrong_passphrase_counterexample toyCrypto toyCrypto_laws [1] rfl

/-- the second recorded witness: "a" and "a\x00a" have the same key stream -/
theorem wrong_passphrase_counterexample_nul : keyStream [97] = keyStream [97, 0, 97] ∧ ([97] : Bytes) ≠ [97, 0, 97] :=
  keyStream_cyclic

/-- "fails with any other passphrase", under the exact guard (a different KEY STREAM) and up to the
    two cryptographic escape clauses: if decrypting an encrypted armor with `pass'` succeeds then
    `pass'` has the key stream of the encryption passphrase — or a KDF collision or a forgery of
    the box has been exhibited.  No hypothesis on the primitives beyond the single sealed box
    opening to its plaintext. -/
theorem wrong_passphrase_rejected_partial (C : Crypto) (L : C.Laws) (keyBytes pass salt nonce : Bytes) (saltFirst : Bool)
    (hp : pass.isEmpty = false) (hsalt : salt.length = 16)
    (text pass' k' : Bytes)
    (henc : encryptArmorPrivKey C keyBytes pass salt nonce saltFirst = .ok text)
    (hok : unarmorDecryptPrivKey C text pass' = .ok k') :
    keyStream pass' = keyStream pass ∨ C.KdfCollision ∨ C.Forgery (C.kdf salt pass) nonce keyBytes := by
  rw [encrypt_text C L keyBytes pass salt nonce saltFirst hp hsalt] at henc
  injection henc with henc
  subst henc
  have hdec := decode_encrypted salt hsalt saltFirst (nonce ++ C.sealBox (C.kdf salt pass) nonce keyBytes)
  have hpath : ¬ ((if saltFirst then [(sSalt, hexUpper salt), (sKdf, sBcrypt)] else [(sKdf, sBcrypt), (sSalt, hexUpper salt)]).length = 0 ∧ pass'.isEmpty = true) := by
    cases saltFirst <;> simp
  rcases success_cases C salt nonce keyBytes pass (L.open_seal _ _ _) _ pass' k' _ _ _ hdec hpath hok with h | h | h
  · exact Or.inl h.2.2.2.1
  · exact Or.inr (Or.inl h)
  · exact Or.inr (Or.inr h)

/-- `henc`/`hok` are satisfiable (the toy instance: encrypt under "a", decrypt under "a") -/
example : ∃ text, encryptArmorPrivKey toyCrypto [1] [97] (List.replicate 16 0) (List.replicate 24 0) false = .ok text ∧
    unarmorDecryptPrivKey toyCrypto text [97] = .ok [1] :=
  encrypt_armor_roundtrip toyCrypto toyCrypto_laws [1] [97] _ _ false rfl rfl rfl

/-- an unencrypted armor (empty passphrase) is refused under every non-empty passphrase -/
theorem unencrypted_armor_refuses_passphrase (C : Crypto) (keyBytes pass' : Bytes) (hp : pass'.isEmpty = false) :
    unarmorDecryptPrivKey C (armorPrivateKey keyBytes) pass' = .error .kdf := by
  unfold unarmorDecryptPrivKey armorPrivateKey
  rw [decode_encode _ _ _ armorOK_plain]
  simp [hp, hdrGet, sBcrypt]

/-- FULL STATEMENT of the clause "fails with any modification of the ciphertext", for the model:
    whenever the decoded salt or ciphertext of a text differs from the original, decryption under
    the original passphrase fails.  NOT provable for any real cipher/KDF (forgeries and KDF
    collisions exist, they are only infeasible to find): what is missing from
    `tampered_armor_rejected_partial` is exactly the absence of those two disjuncts. -/
def tampered_armor_rejected_statement (C : Crypto) (salt nonce plain pass : Bytes) : Prop :=
  ∀ text ty' enc' (hdr' : List (Bytes × Bytes)),
    decodeArmor text = .ok (ty', hdr', enc') → ¬ (hdr'.length = 0 ∧ pass.isEmpty = true) →
    ¬ (hexDecode (hdrGet hdr' sSalt) = some salt ∧ enc' = nonce ++ C.sealBox (C.kdf salt pass) nonce plain) →
    ∃ e, unarmorDecryptPrivKey C text pass = .error e

/-- "fails with any modification of the ciphertext", in the only form that can be a theorem: for
    ANY armor text (however it was obtained) and any passphrase, if decryption through the KDF path
    succeeds then the text carries the original salt and the original ciphertext bytes (and the
    passphrase the original key stream, the key is the original key) — or a KDF collision or a
    forgery has been exhibited.  The header-less shortcut with an empty passphrase bypasses all
    cryptography and is excluded (`hpath`). -/
theorem tampered_armor_rejected_partial (C : Crypto) (salt nonce plain pass : Bytes)
    (hopen1 : C.openBox (C.kdf salt pass) nonce (C.sealBox (C.kdf salt pass) nonce plain) = some plain)
    (text pass' k' ty' enc' : Bytes) (hdr' : List (Bytes × Bytes))
    (hdec : decodeArmor text = .ok (ty', hdr', enc'))
    (hpath : ¬ (hdr'.length = 0 ∧ pass'.isEmpty = true))
    (hok : unarmorDecryptPrivKey C text pass' = .ok k') :
    (hexDecode (hdrGet hdr' sSalt) = some salt ∧ enc' = nonce ++ C.sealBox (C.kdf salt pass) nonce plain ∧
      keyStream pass' = keyStream pass ∧ C.keyFromBytes plain = some k')
    ∨ C.KdfCollision ∨ C.Forgery (C.kdf salt pass) nonce plain := by
  rcases success_cases C salt nonce plain pass hopen1 text pass' k' ty' enc' hdr' hdec hpath hok with h | h | h
  · left
    obtain ⟨h1, h2, h3, h4, h5⟩ := h
    refine ⟨h1, ?_, h4, h5⟩
    calc enc' = enc'.take nonceLen ++ enc'.drop nonceLen := (List.take_append_drop _ _).symm
      _ = nonce ++ C.sealBox (C.kdf salt pass) nonce plain := by rw [h2, h3]
  · exact Or.inr (Or.inl h)
  · exact Or.inr (Or.inr h)

/-- `hopen1` is satisfiable together with a text that decrypts (the toy instance, encrypted armor) -/
example : toyCrypto.openBox (toyCrypto.kdf [] []) [] (toyCrypto.sealBox (toyCrypto.kdf [] []) [] [1]) = some [1] := rfl

/-! ## hd path syntax (the key derivation itself — HMAC-SHA512, secp256k1 — is not modelled) -/

/-- the path string the keybase builds (`BIP44Params.String()`) makes `DerivePrivateKeyForPath`
    derive along purpose' / coinType' / account' / change / addressIndex — for all uint32 fields -/
theorem bip44_path_indices (p : BIP44Params) (h1 : p.purpose < 2 ^ 32) (h2 : p.coinType < 2 ^ 32)
    (h3 : p.account < 2 ^ 32) (h4 : p.addressIndex < 2 ^ 32) :
    parsePath p.str = .ok [(p.purpose, true), (p.coinType, true), (p.account, true),
      ((if p.change then 1 else 0), false), (p.addressIndex, false)] :=
  parsePath_str p h1 h2 h3 h4

/-- `NewParamsFromPath(params.String()) = params` for every BIP-44 parameter set (purpose 44) -/
theorem bip44_string_roundtrip (p : BIP44Params) (hp : p.purpose = 44) (h2 : p.coinType < 2 ^ 32)
    (h3 : p.account < 2 ^ 32) (h4 : p.addressIndex < 2 ^ 32) : newParamsFromPath p.str = .ok p :=
  newParams_str p hp h2 h3 h4

/-- the fundraiser parameters 44'/118'/0'/0/0 satisfy the hypotheses -/
example : newParamsFromPath (BIP44Params.str ⟨44, 118, 0, false, 0⟩) = .ok ⟨44, 118, 0, false, 0⟩ :=
  bip44_string_roundtrip _ rfl (by decide) (by decide) (by decide)

/-! observations pinned as examples -/

/-- an empty path component makes `DerivePrivateKeyForPath` panic (slice bounds out of range) -/
example : parsePath [] = .error .panicEmpty := by rfl
/-- "0/" -/
example : parsePath [48, 47] = .error .panicEmpty := by rfl
/-- "4294967296" is index 0: `uint32(idx)` truncates silently -/
example : parsePath [52, 50, 57, 52, 57, 54, 55, 50, 57, 54] = .ok [(0, false)] := by rfl
/-- "2147483648" (no apostrophe) is derived NON-hardened with index 2^31 -/
example : parsePath [50, 49, 52, 55, 52, 56, 51, 54, 52, 56] = .ok [(2147483648, false)] := by rfl
/-- "44'/118'/0'/0/0" -/
example : parsePath [52, 52, 39, 47, 49, 49, 56, 39, 47, 48, 39, 47, 48, 47, 48] =
    .ok [(44, true), (118, true), (0, true), (0, false), (0, false)] := by rfl

end GnoVerif.C46
