import GnoVerif.Model.C46Keys
import GnoVerif.Gen.C46Words
/-! C46 property theorems (under construction). -/
namespace GnoVerif.C46

end GnoVerif.C46
