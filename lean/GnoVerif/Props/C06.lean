import GnoVerif.Proofs.C06Prog
/-!
C06 — the persisted object graph stays consistent after every transaction.

Model: `GnoVerif.Model.C06Realm` (the realm finalizer of gnovm/pkg/gnolang/realm.go,
function by function), `Model.C06Machine` (the heap-machine programs of the
harness), `Model.C06Inv` (the statement as a decidable predicate `Inv` on a
persisted state; `verdict` names the first failing clause).

What is proved here, for ALL heaps, realms, operands and fuel values:

* the reference-count clause of ONE REALM TRANSACTION IN THE ABSTRACT
  (`transaction_keeps_refcounts`): from any heap in which every count is exact and
  the mark lists are consistent (`InTx`), ANY sequence of slot writes of the
  executing realm — attach, replace, detach, share, re-attach, move, delete; each
  followed by its `DidUpdate` — and then `FinalizeRealmTransaction` leaves every
  count exact:  rc(a) = #slots of counted (real, not deleted) objects that point
  to a  (+ the package block's two outside references).  The pieces are theorems
  of their own: `DidUpdate` (counts and mark invariants), `incRefCreatedDescendants`
  and `decRefDeletedDescendants` for any fuel / start / pending state, the fuel
  bound (`fuelFor` suffices: with more fuel than objects without id the crawl
  gives its start object an id and creates no new "referenced but id-less"
  object), every phase of finalize;
* at the end of the transaction that invariant IS the statement's clause
  (`refcount_clause_at_end_of_transaction`);
* over HISTORIES (`every_history_keeps_refcounts`): at every transaction boundary
  of every history of valid transactions of one realm (allocations, writes,
  finalize, end of transaction; a transaction whose finalizer panics is dropped)
  every reference count is exact;
* the full statement FAILS on the unchanged code, in three ways, each a
  kernel-evaluated counterexample that the harness replays on the real VM:
  `owner_stale_counterexample` (an object moved between two persisted parents
  inside one transaction keeps its old owner), `owner_on_escaped_counterexample`
  (an escaped object re-attached under a new parent gets an owner),
  `dangling_counterexample` (a callee realm's finalize deletes an object the
  caller re-attaches afterwards: a reference to a missing object is persisted);
  hence `object_graph_consistent_statement` is refuted;
* the dangling finding is the ONLY way to a dangling reference
  (`no_dangling_unless_deleted_attached`): over every history of valid
  transactions that never attach an already deleted object, at every boundary
  every slot of a counted object points to a counted object.

* for the CONCRETE PROGRAMS of realm 0 no side condition is left
  (`realm0_programs_refcounts_and_no_dangling`): after every committed
  transaction of every history of heap-machine scripts on realm `ha`, every
  reference count is exact and no slot of a counted object dangles.

What is NOT proved: the same for programs that cross realms (hb calling ha):
`dangling_counterexample` shows that with nested finalizes of two realms a
program CAN reach a deleted object, so the statement is false there; the owner
clause (false as stated), reachability and the stored-hash clause are checked
by the correspondence run and the raw-store oracle only.
Helper lemmas: Proofs/C06Basic, C06Count, C06Update, C06Finalize, C06Closure,
C06Marks, C06Tx, C06Clause, C06Prim, C06Hist, C06Dangle, C06Shape, C06Prog.
-/
namespace GnoVerif.C06
open State

/-! ### the statement -/

/-- the persisted state after a history of transactions `(realm, script)` of the heap machine,
    each committed iff it did not panic -/
def history (txs : List (Nat × List Char)) : State :=
  txs.foldl (fun s t => (execTx s t.1 t.2).1) initState

/-- C06 as stated, over the heap-machine programs: after every committed transaction of every
    history the persisted graph satisfies every clause (`Inv`). -/
def object_graph_consistent_statement : Prop := ∀ txs, Inv (history txs)

/-- the same restricted to the reference-count clause -/
def refcounts_exact_statement : Prop :=
  ∀ txs a, live (history txs) a = true → refCountOK (history txs) a = true

/-! ### the finding: a move between persisted parents keeps the old owner -/

/-- tx1: R0 = &Node{}; R1 = &Node{}   tx2: R0.L = &Node{}   tx3: x := R0.L; R1.L = x; R0.L = nil -/
def moveWitness : List (Nat × List Char) :=
  [(0, ['N','0','_','P','0','0','N','1','_','P','1','1']),
   (0, ['N','2','_','G','0','0','l','0','2']),
   (0, ['G','0','0','G','1','1','L','2','0','l','1','2','Z','3','_','l','0','3'])]

/-- After the move the moved object (singly referenced, never escaped) records an owner that
    does not hold the reference: the first failing clause is `owner-stale`. -/
theorem owner_stale_counterexample : verdict (history moveWitness) = some .ownerStale := by decide

/-- … while the state before the move satisfies every clause. -/
theorem before_move_consistent : Inv (history (moveWitness.take 2)) := by decide

/-- Hence the statement, as written, does not hold of the code as it is. -/
theorem object_graph_consistent_counterexample : ¬ object_graph_consistent_statement := by
  intro h
  have := h moveWitness
  unfold Inv at this
  rw [owner_stale_counterexample] at this
  exact absurd this (by decide)

/-! ### two more findings: an owner on an escaped object, a dangling reference -/

/-- tx1: R0 = x; R1 = x   tx2: R1 = nil   tx3: n := &Node{}; n.L = x; R0 = nil; R0 = n -/
def reownWitness : List (Nat × List Char) :=
  [(0, ['N','0','_','P','0','0','P','1','0']),
   (0, ['Z','0','_','P','1','0']),
   (0, ['G','0','0','N','1','_','l','1','0','Z','2','_','P','0','2','P','0','1'])]

/-- An escaped object whose last reference is dropped and which is re-attached under a new parent
    in the same transaction ends up singly referenced, escaped, AND with an owner recorded
    (incRefCreatedDescendants' "a deleted real became undeleted" branch re-owns it). -/
theorem owner_on_escaped_counterexample : verdict (history reownWitness) = some .ownerOnEscaped := by decide

/-- realm 1 (hb): tx1: Q0 = ha.New()   tx2: x := Q0; ha.Link(x,x); Q0 = nil; ha.Link(x,nil); Q1 = x -/
def danglingWitness : List (Nat × List Char) :=
  [(1, ['N','0','_','P','0','0']),
   (1, ['G','0','0','l','0','0','Z','1','_','P','0','1','l','0','1','P','1','0'])]

/-- The finalize of the callee realm at the return of a crossing call deletes an object that the
    caller still holds in a local; re-attaching it persists a reference to a missing object. -/
theorem dangling_counterexample : verdict (history danglingWitness) = some .dangling := by decide

/-! ### the reference-count clause through the code that changes counts -/

/-- `po.slot[i] = v` followed by `DidUpdate(po, old, v)`: if every count was exact before, it is
    exact afterwards.  Hypotheses: the written object, if real, belongs to the executing realm
    (the VM's readonly check) and is not deleted; `v` is an address of the heap. -/
theorem didUpdate_keeps_refcounts (s : State) (cur po i : Nat) (v : Option Nat)
    (hw : WF s) (h : RCI s fun _ => 0) (hpo : po < s.heap.length) (hi : i < (s.get po).kids.length)
    (hv : ∀ c, v = some c → c < s.heap.length)
    (hown : s.isReal po = true → (s.get po).pkg = cur ∧ (s.get po).deleted = false) :
    WF (assign s cur po i v) ∧ RCI (assign s cur po i v) fun _ => 0 :=
  (assign_keeps s cur po i v hw h hpo hi hv hown).2

/-- `incRefCreatedDescendants` (any fuel, any start object, any pending `owe`): the crawl that
    gives ids to new objects and counts their slots keeps every count exact. -/
theorem incRef_keeps_refcounts (fuel r a : Nat) (s : State) (owe : Nat → Int) (hw : WF s) (h : RCI s owe) :
    WF (incRef fuel s r a) ∧ RCI (incRef fuel s r a) owe :=
  (incRef_keeps fuel r a s owe hw h).2

/-- `decRefDeletedDescendants`: the crawl that deletes an unreferenced real object and uncounts
    its slots keeps every count exact (start object real; slots of counted objects real). -/
theorem decRef_keeps_refcounts (fuel r a : Nat) (s : State) (owe : Nat → Int) (hw : WF s) (hc : Closed s)
    (h : RCI s owe) (hreal : s.isReal a = true) :
    WF (decRef fuel s r a) ∧ Closed (decRef fuel s r a) ∧ RCI (decRef fuel s r a) owe :=
  let ⟨_, w, c, r, _⟩ := decRef_keeps fuel r a s owe hw hc h hreal
  ⟨w, c, r⟩

/-- With more fuel than there are objects without id (`fuelFor` = heap size + 2 always is),
    `incRefCreatedDescendants` gives its start object an id and creates no NEW object that
    is referenced but has no id. -/
theorem incRef_fuel_suffices (fuel r : Nat) (s : State) (a : Nat) (hw : WF s) (ha : a < s.heap.length)
    (hf : unrealN s < fuel) :
    (incRef fuel s r a).isReal a = true ∧ NoNew s (incRef fuel s r a) :=
  let h := incRef_strong fuel r s a hw ha hf
  ⟨h.real, h.noNew⟩

/-- `DidUpdate` keeps the mark lists consistent: a referenced object without id is marked
    new-real, only real objects are marked new-deleted. -/
theorem didUpdate_keeps_marks (s : State) (r po : Nat) (xo co : Option Nat) (m : MarkInv s r)
    (hco : ∀ c, co = some c → c < s.heap.length) : MarkInv (didUpdate s r po xo co) r :=
  markInv_didUpdate s r po xo co m hco

/-- `FinalizeRealmTransaction` keeps every count exact, from any state that `DidUpdate` can
    leave behind (`PreFinal`: exact counts, consistent mark lists). -/
theorem finalize_keeps_refcounts (s : State) (r : Nat) (h : PreFinal s r) :
    WF (finalize s r) ∧ RCI (finalize s r) fun _ => 0 :=
  (finalize_keeps_of_preFinal s r h).2

/-- ONE REALM TRANSACTION: any sequence of writes of realm `r` (attach, replace, detach, share,
    re-attach, move, delete — each `po.slot[i] = v` followed by its `DidUpdate`), then
    `FinalizeRealmTransaction`, leaves every reference count exact. -/
theorem transaction_keeps_refcounts' (s : State) (r : Nat) (ws : List Write) (h : InTx s r)
    (hv : ∀ w ∈ ws, w.valid s r) :
    WF (finalize (applyWrites s r ws) r) ∧ RCI (finalize (applyWrites s r ws) r) fun _ => 0 :=
  transaction_keeps_refcounts s r ws h hv

/-- EVERY HISTORY: from a transaction boundary (`Quiescent`: exact counts, nothing without id is
    referenced, empty mark lists), every history of valid transactions of realm `r` — each a list
    of allocations and writes, then FinalizeRealmTransaction, then the end of the transaction, and
    dropped as a whole if the finalizer panics — ends in a state where every count is exact. -/
theorem every_history_keeps_refcounts (s : State) (r : Nat) (txs : List (List Op)) (h : Quiescent s r)
    (hv : validHistory s r txs) :
    RCI (runHistory s r txs) (fun _ => 0) ∧ Quiescent (runHistory s r txs) r :=
  let q := runHistory_quiescent r txs s h hv
  ⟨q.rci, q⟩

/-- At the end of a transaction the crawl invariant is the statement's clause: the recorded
    reference count of every object equals the number of persisted references to it
    (given that objects already removed from the store are not counted parents). -/
theorem refcount_clause_at_end_of_transaction (s : State) (h : RCI s fun _ => 0) (hd : DeadUncounted s)
    (a : Nat) (ha : a < s.heap.length) : refCountOK (endTx s) a = true :=
  refCountOK_endTx s h hd a ha

/-! ### the hypotheses are satisfiable, and the invariant is what the statement's clause says -/

theorem initState_wf : WF initState := by
  refine ⟨fun a _ => ?_, fun a ha c hc => ?_⟩
  · have hl : initState.heap.length = 10 := by decide
    by_cases h : a < 10
    · have : ∀ b, b < 10 → (initState.get b).deleted = false := by decide
      exact this a h
    · rw [get_default_of_ge initState a (by omega)]; rfl
  · have hl : initState.heap.length = 10 := by decide
    rw [hl] at ha ⊢
    have : ∀ b, b < 10 → ∀ c ∈ initState.children b, c < 10 := by decide
    exact this a ha c hc

theorem initState_rci : RCI initState fun _ => 0 := by
  intro a ha
  have hl : initState.heap.length = 10 := by decide
  rw [hl] at ha
  have : ∀ b, b < 10 → (initState.get b).rc + 0 = refs initState b + pinned (initState.get b) := by decide
  exact this a ha

theorem initState_marks : MarkInv initState 0 := by
  refine ⟨by decide, fun x hx => ?_, fun x hu _ => ?_, fun a ha => ?_, fun a ha => ?_⟩
  · have h10 : ∀ b, b < 10 → (initState.get b).newReal = false := by decide
    by_cases h : x < 10
    · rw [h10 x h] at hx; exact absurd hx (by decide)
    · rw [get_default_of_ge initState x (by have : initState.heap.length = 10 := by decide
                                            omega)] at hx
      exact absurd hx (by decide)
  · have h10 : ∀ b, b < 10 → initState.isReal b = true := by decide
    by_cases h : x < 10
    · rw [h10 x h] at hu; exact absurd hu (by decide)
    · have hd : initState.get x = default := get_default_of_ge initState x (by
        have : initState.heap.length = 10 := by decide
        omega)
      rename_i hrc
      rw [hd] at hrc
      exact absurd hrc (by decide)
  · have e : (initState.marksOf 0).newDeleted = [] := by decide
    rw [e] at ha; cases ha
  · have e : (initState.marksOf 0).newCreated = [] := by decide
    rw [e] at ha; cases ha

/-- NO DANGLING REFERENCE, unless a deleted object is attached: at every boundary of every history of
    valid transactions that never attach an already deleted object (nor an id-less object left over
    from an earlier transaction), every slot of a counted (real, not deleted) object points to a
    counted object.  `dangling_counterexample` is exactly a history that violates the side
    condition: the callee's finalize deletes the object, the caller then attaches it. -/
theorem no_dangling_unless_deleted_attached (s : State) (r : Nat) (txs : List (List Op)) (h : Quiescent2 s r)
    (hv : validHistory2 s r txs) : NoDangling (runHistory s r txs) ∧ Quiescent2 (runHistory s r txs) r :=
  let q := runHistory_quiescent2 r txs s h hv
  ⟨q.noDangling, q⟩

/-- the deployment state is a transaction boundary -/
theorem initState_quiescent : Quiescent initState 0 := by
  refine ⟨initState_wf, initState_rci, fun x hu => ?_, by decide, rfl, fun x => ?_⟩
  · have h10 : ∀ b, b < 10 → initState.isReal b = true := by decide
    by_cases h : x < 10
    · rw [h10 x h] at hu; exact absurd hu (by decide)
    · rw [get_default_of_ge initState x (by
        have : initState.heap.length = 10 := by decide
        omega)]
      decide
  · have h10 : ∀ b, b < 10 → (initState.get b).newReal = false := by decide
    by_cases h : x < 10
    · exact h10 x h
    · rw [get_default_of_ge initState x (by
        have : initState.heap.length = 10 := by decide
        omega)]
      rfl

/-- … also for the no-dangling theorem -/
theorem initState_quiescent2 : Quiescent2 initState 0 := by
  refine ⟨initState_quiescent, fun x hx => ?_⟩
  have h10 : ∀ b, b < 10 → (initState.get b).deleted = false := by decide
  by_cases h : x < 10
  · rw [h10 x h] at hx; exact absurd hx (by decide)
  · rw [get_default_of_ge initState x (by
      have : initState.heap.length = 10 := by decide
      omega)] at hx
    exact absurd hx (by decide)

/-- the deployment state is a boundary in the sense of the realm-0 programs -/
theorem initState_boundary : Boundary initState := by
  refine ⟨initState_quiescent2, by decide, ⟨by decide, by decide, by decide⟩, fun i hi => ?_, fun x hx h hh => ?_⟩
  · have : i = 0 ∨ i = 1 ∨ i = 2 ∨ i = 3 := by omega
    rcases this with h | h | h | h <;> subst h <;> decide
  · rcases hx with ⟨i, hi, rfl⟩ | ⟨h10, hl, _⟩
    · have : i = 0 ∨ i = 1 ∨ i = 2 ∨ i = 3 := by omega
      rcases this with h' | h' | h' | h' <;> subst h' <;> simp [initState, initRealm, State.get, rootAddr, nRoots] at hh
    · have : initState.heap.length = 10 := by decide
      omega

theorem history_realm0 (scripts : List (List Char)) :
    history (scripts.map fun c => (0, c)) = history0 initState scripts := by
  unfold history history0
  generalize initState = s
  induction scripts generalizing s with
  | nil => rfl
  | cons c cs ih => simp only [List.map_cons, List.foldl_cons]; exact ih _

/-- THE PROGRAMS OF REALM 0: after every committed transaction of EVERY history of heap-machine
    scripts run on realm `ha` (attach, detach, share, re-attach, move, delete, cycles; a script that
    panics is rolled back), every reference count is exact and no slot of a counted object dangles.
    No side condition on the programs: that they only perform valid writes is proved. -/
theorem realm0_programs_refcounts_and_no_dangling (scripts : List (List Char)) :
    RCI (history (scripts.map fun c => (0, c))) (fun _ => 0) ∧
    NoDangling (history (scripts.map fun c => (0, c))) := by
  rw [history_realm0]
  have b := history0_boundary scripts initState initState_boundary
  exact ⟨b.q.base.rci, b.q.noDangling⟩

/-- non-vacuity of `transaction_keeps_refcounts'`: the deployment state is a valid start, and
    `R0 = nil; R1 = nil` is a valid list of writes of realm 0 -/
example : InTx initState 0 ∧
    (∀ w ∈ [Write.mk (rootAddr 0 0) 0 none, Write.mk (rootAddr 0 1) 0 none], w.valid initState 0) := by
  refine ⟨⟨initState_wf, initState_rci, initState_marks⟩, ?_⟩
  intro w hw
  simp only [List.mem_cons, List.mem_nil_iff, or_false] at hw
  rcases hw with rfl | rfl
  · refine ⟨?_, ?_, ?_, ?_⟩
    · decide
    · decide
    · intro c h; cases h
    · intro _; decide
  · refine ⟨?_, ?_, ?_, ?_⟩
    · decide
    · decide
    · intro c h; cases h
    · intro _; decide

/-- non-vacuity of `didUpdate_keeps_refcounts`: the deployment state satisfies its hypotheses
    for the assignment `R0 = nil` of realm 0 -/
example : WF (assign initState 0 (rootAddr 0 0) 0 none) ∧ RCI (assign initState 0 (rootAddr 0 0) 0 none) fun _ => 0 :=
  didUpdate_keeps_refcounts initState 0 (rootAddr 0 0) 0 none initState_wf initState_rci (by decide) (by decide)
    (by intro c h; cases h) (by intro _; decide)

end GnoVerif.C06
