import GnoVerif.Model.C06Machine
namespace GnoVerif.C06
end GnoVerif.C06
