import GnoVerif.Proofs.C27Run
import GnoVerif.Proofs.C27Examples
/-!
# C27 — a crash during commit never leaves a torn state

Property theorems about the model `GnoVerif.Model.C27` (the write path of
InitChain and block commits: BaseApp → cache flush → bptree SaveVersion /
pruning / fast index → CollectingDB → rootmulti.Commit → ONE WriteSync batch,
and the recovery rule of `rootmulti.LoadLatestVersion`).

A crash is a cut of the physical write log at the granularity the storage
engine guarantees: a batch `Write`/`WriteSync` is one atomic unit
(`replay (log.take k)` is the database the reopened process finds).

* `crash_during_commit_recovers` is the property statement (`crash_statement`)
  for the code's design (`collected = true`), for ALL genesis states, block
  sequences, pruning parameters, initial heights, store sets and crash points.
* `split_commit_counterexample` / `nonatomic_batch_counterexample` show that
  both premises are load-bearing: without the collector (every write site
  flushing by itself) and without batch atomicity the statement is FALSE on a
  one-block chain.

The app hash of the model is the free hash (the operation history, `Hist`);
every concrete hash is a function of it, so `r.obs = a.obs` (which contains the
store infos with their histories) gives equal app hashes for every hash
function, and equal contents of every store.
-/
namespace GnoVerif.C27

/-- The property statement.  For every chain (genesis `g`, blocks `bs`) whose
uncrashed run ends in `a` with commit ids `ids`, and every block `j+1` of it:
if the process stops at any point while block `j+1` is being committed — any
number `k` of physical writes between those done before that commit
(`aj.log.length`) and those done after it (`aj1.log.length`) has reached the
disk — then reopening the database succeeds and yields exactly the previous
committed version or exactly the new one (same version, same app hash, same
contents of every store as the uncrashed run had there), and the chain
continued from it (InitChain again if nothing was committed) produces the same
subsequent commit ids (versions and app hashes) and ends with the same contents. -/
def crash_statement (cfg : Cfg) : Prop :=
  ∀ (g : List Step) (bs : List (List Tx)) (a : App) (ids : List (Nat × List StoreInfo)),
    runBlocks (boot cfg g) bs = .ok (a, ids) →
    ∀ (j : Nat) (aj aj1 : App) (idsj idsj1 : List (Nat × List StoreInfo)), j < bs.length →
      runBlocks (boot cfg g) (bs.take j) = .ok (aj, idsj) →
      runBlocks (boot cfg g) (bs.take (j + 1)) = .ok (aj1, idsj1) →
      ∀ k, aj.log.length ≤ k → k ≤ aj1.log.length →
        ∃ r r', recover cfg (replay (a.log.take k)) = .ok r ∧
          ((r.obs = aj.committedObs ∧
              runBlocks (resume r g) (bs.drop j) = .ok (r', ids.drop j)) ∨
           (r.obs = aj1.committedObs ∧
              runBlocks (resume r g) (bs.drop (j + 1)) = .ok (r', ids.drop (j + 1)))) ∧
          r'.obs = a.obs

/-- InitChain performs no physical write: its writes (the consensus params
written directly into the main store, the genesis state in the deliver cache)
stay staged until the first block commits. -/
theorem initchain_writes_nothing (cfg : Cfg) (g : List Step) :
    (boot cfg g).log = [] ∧ (boot cfg g).db = [] :=
  ⟨boot_log cfg g, boot_db cfg g⟩

/-- With the collector, the uncrashed chain never fails (in particular
`SaveVersion` never finds the version it is about to write). -/
theorem uncrashed_run_succeeds (cfg : Cfg) (hc : cfg.collected = true) (g : List Step)
    (bs : List (List Tx)) : ∃ a ids, runBlocks (boot cfg g) bs = .ok (a, ids) := by
  have hbr : Replayed (boot cfg g) := by unfold Replayed; rw [boot_db, boot_log]; rfl
  obtain ⟨a, ids, _, h, _⟩ := runBlocks_inv (boot cfg g) bs (boot_inv cfg g hc) hbr
  exact ⟨a, ids, h⟩

/-- Every block commit is exactly ONE physical write (one atomic batch), and
nothing else ever writes: after `n` blocks the write log has `n` units. -/
theorem one_write_per_commit (cfg : Cfg) (hc : cfg.collected = true) (g : List Step)
    (bs : List (List Tx)) (a : App) (ids : List (Nat × List StoreInfo))
    (hrun : runBlocks (boot cfg g) bs = .ok (a, ids)) : a.log.length = bs.length :=
  (crash_after_k cfg hc g bs a ids hrun).1

/-- The database always is the replay of the physical write log (the crash
copies `replay (log.take k)` are prefixes of what really happened). -/
theorem db_is_replay_of_log (cfg : Cfg) (hc : cfg.collected = true) (g : List Step)
    (bs : List (List Tx)) (a : App) (ids : List (Nat × List StoreInfo))
    (hrun : runBlocks (boot cfg g) bs = .ok (a, ids)) : a.db = replay a.log := by
  have hbr : Replayed (boot cfg g) := by unfold Replayed; rw [boot_db, boot_log]; rfl
  obtain ⟨a', ids', _, h, _, hr, _⟩ := runBlocks_inv (boot cfg g) bs (boot_inv cfg g hc) hbr
  rw [hrun] at h
  injection h with h; injection h with h1 _
  subst h1; exact hr

/-- Crash after `k` physical writes: the reopened database is exactly the state
the uncrashed run had after `k` blocks (version, app hash, contents of every
store), and the chain continues from it with the same commit ids to the same
final contents. -/
theorem crash_after_k_writes (cfg : Cfg) (hc : cfg.collected = true) (g : List Step)
    (bs : List (List Tx)) (a : App) (ids : List (Nat × List StoreInfo))
    (hrun : runBlocks (boot cfg g) bs = .ok (a, ids)) (k : Nat) (hk : k ≤ bs.length) :
    ∃ ak idsk r r',
      runBlocks (boot cfg g) (bs.take k) = .ok (ak, idsk) ∧
      recover cfg (replay (a.log.take k)) = .ok r ∧
      r.obs = ak.committedObs ∧
      runBlocks (resume r g) (bs.drop k) = .ok (r', ids.drop k) ∧ r'.obs = a.obs := by
  obtain ⟨ak, idsk, r, r', h1, _, h3, h4, h5, h6⟩ := (crash_after_k cfg hc g bs a ids hrun).2 k hk
  exact ⟨ak, idsk, r, r', h1, h3, h4, h5, h6⟩

/-- A reopened committed state is the state itself up to the volatile fields
that are not persisted (`initialVersion` of the stores and of the multistore). -/
theorem reopen_restores_committed_state (cfg : Cfg) (hc : cfg.collected = true) (g : List Step)
    (bs : List (List Tx)) (a : App) (ids : List (Nat × List StoreInfo)) (hne : bs ≠ [])
    (hrun : runBlocks (boot cfg g) bs = .ok (a, ids)) :
    recover cfg a.db = .ok a.recovered ∧ a.recovered.obs = a.obs := by
  have hbr : Replayed (boot cfg g) := by unfold Replayed; rw [boot_db, boot_log]; rfl
  obtain ⟨a', ids', _, h, hi, _, hcfg, _, _, _, hd⟩ := runBlocks_inv (boot cfg g) bs (boot_inv cfg g hc) hbr
  rw [hrun] at h
  injection h with h; injection h with h1 _
  subst h1
  have hd := hd hne
  have := recover_done a hi hd
  rw [hcfg, boot_cfg] at this
  exact ⟨this, (Sim.recovered a hd.deliver).obs⟩

/-- **The property.**  With the collector (all write sites drained into one
atomic batch per commit) a crash at any point of any commit recovers exactly
the previous or exactly the new version, and the chain continues identically. -/
theorem crash_during_commit_recovers (cfg : Cfg) (hc : cfg.collected = true) :
    crash_statement cfg := by
  intro g bs a ids hrun j aj aj1 idsj idsj1 hj hrj hrj1 k hk1 hk2
  obtain ⟨hlen, hall⟩ := crash_after_k cfg hc g bs a ids hrun
  -- the two states bracket exactly one write
  obtain ⟨aj', _, _, _, e1, l1, _⟩ := hall j (by omega)
  obtain ⟨aj1', _, _, _, e2, l2, _⟩ := hall (j + 1) (by omega)
  rw [hrj] at e1; rw [hrj1] at e2
  injection e1 with e1; injection e1 with e1 _
  injection e2 with e2; injection e2 with e2 _
  subst e1; subst e2
  have hlj : aj.log.length = j := by rw [l1, List.length_take]; omega
  have hlj1 : aj1.log.length = j + 1 := by rw [l2, List.length_take]; omega
  have hkk : k = j ∨ k = j + 1 := by omega
  rcases hkk with rfl | rfl
  · obtain ⟨ak, idsk, r, r', h1, _, h3, h4, h5, h6⟩ := hall k (by omega)
    rw [hrj] at h1
    injection h1 with h1; injection h1 with h1 _
    subst h1
    exact ⟨r, r', h3, Or.inl ⟨h4, h5⟩, h6⟩
  · obtain ⟨ak, idsk, r, r', h1, _, h3, h4, h5, h6⟩ := hall (j + 1) (by omega)
    rw [hrj1] at h1
    injection h1 with h1; injection h1 with h1 _
    subst h1
    exact ⟨r, r', h3, Or.inr ⟨h4, h5⟩, h6⟩

/-- non-vacuity: the hypothesis of the theorems above is satisfied by a concrete
chain (one block, one physical write, version 1). -/
example : runBlocks (boot cfgColl []) [[]] = .ok (exA exRunColl cfgColl, exIds exRunColl) ∧
    (exA exRunColl cfgColl).log.length = 1 ∧ (exA exRunColl cfgColl).lastVer = 1 :=
  ⟨exRunColl_ok, exColl_log_length, by rfl⟩

/-- **The single-batch premise is load-bearing.**  In the design without the
collector — every write site (base-store flush, each tree's SaveVersion, the
metadata) flushing to the database by itself — the one-block chain already
violates the statement: its commit is three physical writes, and a crash after
the first one reopens at version 0 with the new block's header already in the
base store, which is neither the previous nor the new committed state. -/
theorem split_commit_counterexample : ¬ crash_statement cfgSplit := by
  intro h
  have hlog : (boot cfgSplit []).log.length ≤ 1 := by rw [boot_log]; exact Nat.zero_le _
  obtain ⟨r, r', hrec, hor, _⟩ :=
    h [] [[]] (exA exRunSplit cfgSplit) (exIds exRunSplit) exRunSplit_ok 0 (boot cfgSplit [])
      (exA exRunSplit cfgSplit) [] (exIds exRunSplit) (by decide) rfl exRunSplit_ok 1 hlog
      (by rw [exSplit_log_length]; decide)
  have hr : r = exRec cfgSplit exSplitCut := by
    have := exSplit_recover
    unfold exSplitCut at this
    rw [this] at hrec
    injection hrec with hrec
    exact hrec.symm
  subst hr
  rcases hor with ⟨h1, _⟩ | ⟨h1, _⟩
  · exact exSplit_torn_prev h1
  · exact exSplit_torn_new h1

/-- **Batch atomicity is load-bearing.**  With the collector the one-block
chain commits one batch of four ops; if the storage engine applied only a
prefix of that batch (here: its first op), the database would reopen at
version 0 with the new header in the base store — neither the previous nor the
new committed state.  The model's crash granularity (whole batches) is exactly
the engine's `Write`/`WriteSync` contract. -/
theorem nonatomic_batch_counterexample :
    (exA exRunColl cfgColl).log = [exCollBatch] ∧ 1 ≤ exCollBatch.length ∧
    ∃ r, recover cfgColl (applyBatch [] (exCollBatch.take 1)) = .ok r ∧
      r.obs ≠ (boot cfgColl []).committedObs ∧ r.obs ≠ (exA exRunColl cfgColl).committedObs :=
  ⟨exColl_log, by rw [exColl_batch_length]; decide, exRec cfgColl exCollCut, exColl_recover,
    exColl_torn_prev, exColl_torn_new⟩

end GnoVerif.C27
