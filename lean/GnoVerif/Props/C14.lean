import GnoVerif.Proofs.C14Genesis
/-!
C14 — coin supply is conserved and balance / account records stay well-formed.

Statement: after every committed transaction, for every denomination the recorded
total supply equals the sum of all balances, only explicit mint/burn operations
change it, and every transfer leaves the sum unchanged; every balance is positive
and filed under the right address and tier, and every account object is stored
under its own address.  Quantifier: every history of ledger operations.

Model: `Model/C14.lean` (bank + account keepers over a three-keyspace store, for an
arbitrary account-tier allowlist `tier`).  `Inv` / `WF`: `Spec/C14.lean`.
`txStep` = one keeper operation inside a cache store that is written iff the call
succeeded (BaseApp.runTx); `run` = any history of such steps; `txBatch` = several
operations in one all-or-nothing transaction.  `rawStep` = the bare keeper call.

Vesting (named residual): a vesting account carries its currently locked coins as
data and `Op.vest` may set them to anything at any time, so every theorem below
holds for every lock schedule; the schedule arithmetic itself
(`GetVestedCoins`, block time) is not modelled.
-/
namespace GnoVerif.C14

/-! ## the invariant holds initially and is preserved by every committed step -/

/-- the empty store satisfies the invariant. -/
theorem inv_init (tier : Denom → Bool) : Inv tier init := by
  refine ⟨⟨?_, ?_, ?_, ?_, ?_, ?_, ?_, ?_, ?_, ?_⟩, ?_, ?_⟩ <;> simp [init, getSupply, find, total, splitTotal, acctTotal, maxInt64]

/-- `Inv s → Inv (txStep s op)` for every operation: send, unrestricted send (fees,
storage deposits), multi-send, mint, burn, vesting (re)filing, unlock, restricted-denoms
param, whitelist — whether the keeper call succeeds (written) or fails (discarded). -/
theorem inv_step (tier : Denom → Bool) (s : State) (op : Op) (h : Inv tier s) : Inv tier (txStep tier s op) := by
  rcases txStep_cases tier s op with he | ⟨s', hr, he⟩
  · rw [he]; exact h
  · rw [he]; exact rawStep_ok_inv h hr

/-- lifted over every history of committed steps. -/
theorem inv_run (tier : Denom → Bool) (s : State) (ops : List Op) (h : Inv tier s) : Inv tier (run tier s ops) := by
  induction ops generalizing s with
  | nil => exact h
  | cons op ops ih => exact ih _ (inv_step tier s op h)

/-- every state reachable from genesis-empty by any history satisfies the invariant. -/
theorem inv_reachable (tier : Denom → Bool) (ops : List Op) : Inv tier (run tier init ops) :=
  inv_run tier init ops (inv_init tier)

/-- a transaction made of several ledger operations (fee payment, then messages),
applied all-or-nothing, preserves the invariant. -/
theorem inv_batch (tier : Denom → Bool) (s : State) (ops : List Op) (h : Inv tier s) : Inv tier (txBatch tier s ops) := by
  unfold txBatch
  cases hr : rawBatch tier s ops with
  | mk s1 r1 =>
    cases r1 with
    | none => exact rawBatch_ok_inv h hr
    | some e => exact h

/-! ## what the invariant says, clause by clause -/

/-- recorded supply = Σ balances (split tier + account tier), for every denom, after
every history. -/
theorem supply_equals_sum (tier : Denom → Bool) (ops : List Op) (d : Denom) :
    getSupply (run tier init ops) d = splitTotal (run tier init ops) d + acctTotal (run tier init ops) d :=
  (inv_reachable tier ops).2.1 d

/-- 0 ≤ supply ≤ MaxInt64 for every denom. -/
theorem supply_in_range (tier : Denom → Bool) (s : State) (h : Inv tier s) (d : Denom) :
    0 ≤ getSupply s d ∧ getSupply s d ≤ maxInt64 :=
  ⟨getSupply_nonneg h.1 d, h.2.2 d⟩

/-- every stored balance, supply record and account-tier coin is strictly positive. -/
theorem balances_positive (tier : Denom → Bool) (s : State) (h : Inv tier s) :
    (∀ e ∈ s.split, 0 < e.2) ∧ (∀ e ∈ s.supply, 0 < e.2) ∧
    (∀ e ∈ s.accts, ∀ c ∈ e.2.coins, 0 < c.amount) :=
  ⟨h.1.split_pos, fun e he => (h.1.supply_pos e he).1,
   fun e he c hc => (coinsValid_mem _ (h.1.acct_coins e he).1 c hc).2⟩

/-- balances are filed under the right tier and a valid denom: a split-tier key
never names an account-tier denom, an account object never holds a denom outside the
account tier, each key occurs once, and every holder of a split balance has an
account object. -/
theorem records_filed (tier : Denom → Bool) (s : State) (h : Inv tier s) :
    (∀ e ∈ s.split, validDenom e.1.2 = true ∧ tier e.1.2 = false ∧ (getAcct s e.1.1).isSome = true) ∧
    (∀ e ∈ s.accts, ∀ c ∈ e.2.coins, tier c.denom = true ∧ validDenom c.denom = true) ∧
    (s.split.map Prod.fst).Nodup ∧ (s.supply.map Prod.fst).Nodup ∧
    (∀ e ∈ s.accts, (e.2.coins.map (·.denom)).Nodup) :=
  ⟨h.1.split_key,
   fun e he c hc => ⟨(h.1.acct_coins e he).2 c hc, (coinsValid_mem _ (h.1.acct_coins e he).1 c hc).1⟩,
   h.1.split_nodup, h.1.supply_nodup,
   fun e he => coinsValid_nodup _ (h.1.acct_coins e he).1⟩

/-- every account object is stored under its own address, once, with a unique
account number below the global counter. -/
theorem accounts_under_own_address (tier : Denom → Bool) (s : State) (h : Inv tier s) :
    (∀ e ∈ s.accts, e.2.addr = e.1) ∧ (s.accts.map Prod.fst).Nodup ∧
    (∀ e ∈ s.accts, e.2.num < s.nextNum) ∧
    (∀ e₁ ∈ s.accts, ∀ e₂ ∈ s.accts, e₁.2.num = e₂.2.num → e₁.1 = e₂.1) :=
  ⟨h.1.acct_key, h.1.acct_nodup, h.1.acct_num, h.1.acct_num_inj⟩

/-- every single balance (of either tier) lies between 0 and the recorded supply of
its denom — hence fits int64. -/
theorem balance_le_supply (tier : Denom → Bool) (s : State) (h : Inv tier s) (a : Addr) (d : Denom) :
    0 ≤ balance tier s a d ∧ balance tier s a d ≤ getSupply s d ∧ getSupply s d ≤ maxInt64 := by
  have h1 := splitTotal_nonneg h.1 d
  have h2 := acctTotal_nonneg h.1 d
  have h3 := h.2.1 d
  unfold total at h3
  refine ⟨?_, ?_, h.2.2 d⟩
  · unfold balance
    split
    · cases hg : getAcct s a with
      | none => simp
      | some x =>
        simp only
        exact sumOf_nonneg _ (fun c hc =>
          (coinsValid_mem _ (h.1.acct_coins _ (find_some_mem _ _ _ hg)).1 c hc).2) d
    · exact getSplit_nonneg h.1 a d
  · unfold balance
    split
    · cases hg : getAcct s a with
      | none => simp only; omega
      | some x =>
        simp only
        have := acct_le_acctTotal h.1 a x hg d
        omega
    · have := getSplit_le_splitTotal h.1 a d
      omega

/-! ## genesis -/

/-- the genesis path of the bank keeper — `SetCoins` for every balance entry, then
`RecomputeSupply` — ends, when it does not abort, in a state satisfying the invariant … -/
theorem genesis_establishes_inv (tier : Denom → Bool) (bals : List (Addr × Coins)) (s : State)
    (hg : genesis tier bals = (s, none)) : Inv tier s :=
  genesis_ok hg

/-- … which every later history of committed steps preserves. -/
theorem inv_after_genesis (tier : Denom → Bool) (bals : List (Addr × Coins)) (s : State)
    (hg : genesis tier bals = (s, none)) (ops : List Op) : Inv tier (run tier s ops) :=
  inv_run tier s ops (genesis_ok hg)

/-- `RecomputeSupply` alone re-establishes the invariant on any well-formed records
(e.g. after keeper-level `AddCoins` / `SetCoins` calls). -/
theorem recompute_establishes_inv (tier : Denom → Bool) (s s' : State) (h : WF tier s)
    (hr : recomputeSupply s = (s', none)) : Inv tier s' :=
  recomputeSupply_ok h hr

/-! ## only mint / burn change supply; transfers conserve -/

/-- only explicit mint/burn operations change the supply records: every other raw
keeper step — succeeded, failed, or failed half-way — leaves them identical, from
ANY state. -/
theorem only_mint_burn_change_supply_raw (tier : Denom → Bool) (s : State) (op : Op)
    (hop : op.isMintBurn = false) : (rawStep tier s op).1.supply = s.supply :=
  rawStep_supply tier s op hop

/-- the same for committed steps. -/
theorem only_mint_burn_change_supply (tier : Denom → Bool) (s : State) (op : Op)
    (hop : op.isMintBurn = false) : (txStep tier s op).supply = s.supply := by
  have := rawStep_supply tier s op hop
  unfold txStep
  cases hr : rawStep tier s op with
  | mk s1 r1 =>
    rw [hr] at this
    cases r1 with
    | none => exact this
    | some e => rfl

/-- a committed mint raises the supply of each denom by exactly the minted amount … -/
theorem mint_changes_supply_exactly (tier : Denom → Bool) (s : State) (a : Addr) (amt : Coins)
    (h : Inv tier s) (hok : txResult tier s (.mint a amt) = none) (d : Denom) :
    getSupply (txStep tier s (.mint a amt)) d = getSupply s d + sumOf amt d := by
  unfold txResult at hok
  unfold txStep
  cases hr : rawStep tier s (.mint a amt) with
  | mk s1 r1 =>
    rw [hr] at hok
    simp only at hok
    subst hok
    exact (mintCoins_ok h hr).2 d

/-- … and a committed burn lowers it by exactly the burned amount. -/
theorem burn_changes_supply_exactly (tier : Denom → Bool) (s : State) (a : Addr) (amt : Coins)
    (h : Inv tier s) (hok : txResult tier s (.burn a amt) = none) (d : Denom) :
    getSupply (txStep tier s (.burn a amt)) d = getSupply s d - sumOf amt d := by
  unfold txResult at hok
  unfold txStep
  cases hr : rawStep tier s (.burn a amt) with
  | mk s1 r1 =>
    rw [hr] at hok
    simp only at hok
    subst hok
    exact (burnCoins_ok h hr).2 d

/-- every transfer (send, unrestricted send, multi-send) — and indeed every
operation other than mint/burn — leaves Σ balances of every denom unchanged. -/
theorem transfers_conserve (tier : Denom → Bool) (s : State) (op : Op) (h : Inv tier s)
    (hop : op.isMintBurn = false) (d : Denom) : total (txStep tier s op) d = total s d := by
  rcases txStep_cases tier s op with he | ⟨s', hr, he⟩
  · rw [he]
  · rw [he]; exact (rawStep_ok_neutral h.1 hop hr).2.2 d

/-- a failed operation commits nothing. -/
theorem failed_step_is_noop (tier : Denom → Bool) (s : State) (op : Op) (e : Fail)
    (hf : txResult tier s op = some e) : txStep tier s op = s := by
  unfold txResult at hf
  unfold txStep
  cases hr : rawStep tier s op with
  | mk s1 r1 =>
    rw [hr] at hf
    simp only at hf
    subst hf
    rfl

/-! ## the raw keeper calls (no rollback) -/

/-- raw `SubtractCoins` / `subtractCoinsUnrestricted` is atomic from any state: every
check precedes every write. -/
theorem raw_subtract_atomic (tier : Denom → Bool) (s s' : State) (a : Addr) (amt : Coins) (vest : Bool) (e : Fail)
    (h : subtractCoins tier s a amt vest = (s', some e)) : s' = s :=
  subtractCoins_fail tier s s' a amt vest e h

/-- raw `AddCoins` is atomic from any state (the early account creation cannot be
followed by a failure). -/
theorem raw_add_atomic (tier : Denom → Bool) (s s' : State) (a : Addr) (amt : Coins) (e : Fail)
    (h : addCoins tier s a amt = (s', some e)) : s' = s :=
  addCoins_fail tier s s' a amt e h

/-- raw `MintCoins` is atomic from any state. -/
theorem raw_mint_atomic (tier : Denom → Bool) (s s' : State) (a : Addr) (amt : Coins) (e : Fail)
    (h : mintCoins tier s a amt = (s', some e)) : s' = s :=
  mintCoins_fail tier s s' a amt e h

/-- raw `BurnCoins` is atomic from any state. -/
theorem raw_burn_atomic (tier : Denom → Bool) (s s' : State) (a : Addr) (amt : Coins) (e : Fail)
    (h : burnCoins tier s a amt = (s', some e)) : s' = s :=
  burnCoins_fail tier s s' a amt e h

/-- under the invariant raw `SendCoins` and `SendCoinsUnrestricted` (subtract, then
add) are atomic too: the add that follows a successful subtract of the same coins
cannot overflow, because Σ balances = supply ≤ MaxInt64. -/
theorem raw_send_atomic_under_inv (tier : Denom → Bool) (s s' : State) (f t : Addr) (amt : Coins) (e : Fail)
    (h : Inv tier s) :
    (sendCoins tier s f t amt = (s', some e) → s' = s) ∧
    (sendCoinsUnrestricted tier s f t amt = (s', some e) → s' = s) := by
  constructor
  · intro hr
    unfold sendCoins at hr
    split at hr
    · simp at hr
    · split at hr
      · simp at hr; exact hr.1.symm
      · exact sendCore_fail_under_inv h hr
  · intro hr
    exact sendCore_fail_under_inv h hr

/-! ### concrete witnesses (account tier = {"ugnot"}, as on gno.land) -/

def tierG (d : Denom) : Bool := d == "ugnot"

def histG : List Op :=
  [.mint 0 [⟨"/gno.land/r/x:tok", 50⟩, ⟨"atom", 5⟩, ⟨"ugnot", 100⟩],
   .send 0 1 [⟨"atom", 2⟩, ⟨"ugnot", 30⟩],
   .sendU 1 2 [⟨"ugnot", 10⟩],
   .multi [(0, [⟨"ugnot", 1⟩]), (1, [⟨"ugnot", 1⟩])] [(3, [⟨"ugnot", 2⟩])],
   .vest 2 [⟨"ugnot", 4⟩],
   .send 2 0 [⟨"ugnot", 7⟩],           -- rejected: only 6 spendable
   .burn 0 [⟨"/gno.land/r/x:tok", 20⟩]]

unseal addUnsafe in
/-- raw `InputOutputCoins` is NOT atomic, even from a state satisfying the invariant:
the first input is debited, the second is short, the call errors, and without a
rollback the store is left with supply 10 ≠ held 5.  (Witness: corpus/C14/raw-multi-partial.ops.) -/
theorem raw_multisend_partial_counterexample :
    ∃ s op, Inv tierG s ∧ (rawStep tierG s op).2 = some (.err "insufficient") ∧
      getSupply (rawStep tierG s op).1 "atom" = 10 ∧ total (rawStep tierG s op).1 "atom" = 5 ∧
      txStep tierG s op = s :=
  ⟨run tierG init [.mint 0 [⟨"atom", 5⟩], .mint 1 [⟨"atom", 5⟩]],
   .multi [(0, [⟨"atom", 5⟩]), (1, [⟨"atom", 6⟩])] [(2, [⟨"atom", 11⟩])],
   inv_reachable _ _, by decide, by decide, by decide,
   failed_step_is_noop _ _ _ (.err "insufficient") (by decide)⟩

/-- without the invariant raw `sendCoins` is NOT atomic: when keeper-level credits have
pushed Σ balances past MaxInt64, the add overflows (panic) after the subtract was
written, and 5 coins vanish.  (Witness: corpus/C14/raw-send-overflow.ops.) -/
theorem raw_send_partial_from_broken_state :
    ∃ s, (sendCoins tierG s 1 0 [⟨"atom", 5⟩]).2 = some (.panic "overflow") ∧
      total s "atom" = 9223372036854775807 + 5 ∧
      total (sendCoins tierG s 1 0 [⟨"atom", 5⟩]).1 "atom" = 9223372036854775807 :=
  ⟨(addCoins tierG (addCoins tierG init 0 [⟨"atom", 9223372036854775807⟩]).1 1 [⟨"atom", 5⟩]).1,
   by decide, by decide, by decide⟩

/-- `SetCoins` does not maintain the supply records either (genesis calls
`RecomputeSupply` afterwards). -/
theorem setCoins_alone_breaks_supply :
    (setCoins tierG init 0 [⟨"atom", 5⟩]).2 = none ∧
    getSupply (setCoins tierG init 0 [⟨"atom", 5⟩]).1 "atom" = 0 ∧
    total (setCoins tierG init 0 [⟨"atom", 5⟩]).1 "atom" = 5 := by decide

/-- `AddCoins` on its own is not a transaction-level operation: it credits without
touching the supply record (by design — `MintCoins` pairs it with the counter), so a
bare call breaks `supply = Σ balances`. -/
theorem addCoins_alone_breaks_supply :
    (addCoins tierG init 0 [⟨"atom", 5⟩]).2 = none ∧
    getSupply (addCoins tierG init 0 [⟨"atom", 5⟩]).1 "atom" = 0 ∧
    total (addCoins tierG init 0 [⟨"atom", 5⟩]).1 "atom" = 5 := by decide

/-! ### non-vacuity -/

unseal addUnsafe in
/-- `histG` reaches a non-trivial state: three denoms across both tiers, four
accounts, a vesting account, a rejected send; the invariant's hypotheses are
satisfied there (by `inv_reachable`). -/
example : (run tierG init histG).supply = [("/gno.land/r/x:tok", 30), ("atom", 5), ("ugnot", 100)] ∧
    (run tierG init histG).split = [((0, "/gno.land/r/x:tok"), 30), ((0, "atom"), 3), ((1, "atom"), 2)] ∧
    (run tierG init histG).accts.map (fun e => (e.1, e.2.num, e.2.coins)) =
      [(0, 0, [⟨"ugnot", 69⟩]), (1, 1, [⟨"ugnot", 19⟩]), (2, 2, [⟨"ugnot", 10⟩]), (3, 3, [⟨"ugnot", 2⟩])] := by
  decide

example : Inv tierG (run tierG init histG) := inv_reachable _ _

unseal addUnsafe in
/-- the hypothesis of `genesis_establishes_inv` / `inv_after_genesis` is satisfiable. -/
example : (genesis tierG [(0, [⟨"atom", 5⟩, ⟨"ugnot", 7⟩]), (1, [⟨"atom", 1⟩])]).2 = none ∧
    (genesis tierG [(0, [⟨"atom", 5⟩, ⟨"ugnot", 7⟩]), (1, [⟨"atom", 1⟩])]).1.supply = [("atom", 6), ("ugnot", 7)] := by
  decide

unseal addUnsafe in
/-- the hypotheses of `mint_changes_supply_exactly` / `burn_changes_supply_exactly`
are satisfiable. -/
example : txResult tierG (run tierG init histG) (.mint 4 [⟨"atom", 1⟩, ⟨"ugnot", 1⟩]) = none ∧
    txResult tierG (run tierG init histG) (.burn 1 [⟨"atom", 1⟩, ⟨"ugnot", 1⟩]) = none := by decide

unseal addUnsafe in
/-- … and so is the hypothesis of `failed_step_is_noop`, with each failure class. -/
example : txResult tierG (run tierG init histG) (.send 2 0 [⟨"ugnot", 7⟩]) = some (.err "vesting-locked") ∧
    txResult tierG (run tierG init histG) (.mint 0 [⟨"atom", 9223372036854775803⟩]) = some (.err "supply-range") ∧
    txResult tierG (run tierG init histG) (.send 0 1 [⟨"atom", 4⟩]) = some (.err "insufficient") ∧
    txResult tierG (run tierG init histG) (.multi [(0, [⟨"ugnot", 1⟩])] [(1, [⟨"atom", 1⟩])]) = some (.panic "denom-mismatch") := by
  decide

end GnoVerif.C14
