/-
C22 — cache and prefix store layers behave like their overlay model.

Model: GnoVerif/Model/C22.lean (mirrors tm2/pkg/store/cache/{store,memiterator,
mergeiterator}.go, tm2/pkg/store/prefix/store.go over dbadapter/memdb; tied to
the real code by the correspondence run).  Spec: GnoVerif/Model/C22Spec.lean
(`view : Layer → OMap`, the overlay of dirty entries / prefix restriction, and
`Coherent`, the invariant).  Reference map: GnoVerif/Spec/OMap.lean.

All theorems quantify over every stack `l : Layer` (any nesting of cache and
prefix stores over a base), every key / bound (any bytes, so 0x00 / 0xFF and
keys equal to or extending a prefix are included) and, where stated, every
history `ops : List Op`.

What the code really does, and how it is stated here:

* A cacheStore serves `Get` from *clean* (read-through) entries without
  revalidating them.  So reads agree with the overlay model exactly as long as
  nobody changes a store **underneath** a cache store that has read-through
  entries (`Coherent`).  Every operation applied where no cache store above
  holds clean entries — in particular every operation on the top store — and
  `Write` at any depth keep `Coherent` (`step_preserves_coherent`); a `Set`
  underneath does not: `reads_match_view_statement` (no discipline) is false
  (`reads_match_view_counterexample`), `reads_match_view_partial` is the theorem
  under the exact guard.
* `WriteCheckpoint` = "forget everything done since `Checkpoint` (also the
  read-through entries), apply the dirty entries as of the checkpoint to the
  parent as it is now, leave the layer empty and without checkpoint"
  (`wcp_applies_checkpoint`); when only the layer itself was used in between,
  the parent ends up holding exactly the layer's view at checkpoint time
  (`checkpoint_restore`).
-/
import GnoVerif.Proofs.C22Hist

namespace GnoVerif.C22
open GnoVerif GnoVerif.Lex GnoVerif.OMap

/-! ## the example state used to show that hypotheses are satisfiable -/

/-- a base with two keys, a cache store with a set, a delete and a read-through
entry, a prefix store and another cache store on top. -/
def exOps : List Op :=
  [ .set 0 (some [0x61]) (some [1]), .set 0 (some [0x62, 0x00]) (some [2]), .newCache,
    .set 0 (some [0x62, 0xff]) (some [3]), .del 0 (some [0x61]), .get 0 (some [0x63]),
    .newPfx [0x62], .newCache, .set 0 (some []) (some [4]), .cp 0, .set 0 (some [0xff]) (some [5]) ]

def exL : Layer := (run (.base []) exOps).2

theorem exOps_safe : SafeRun (.base []) exOps := by
  simp [exOps, SafeRun, Safe, NoCleanAbove]

theorem base_empty_coherent : Coherent (.base []) := by
  simp [Coherent, Sorted]

theorem exL_coherent : Coherent exL :=
  (run_spec (.base []) base_empty_coherent exOps exOps_safe).2

/-! ## reads -/

/-- **Get returns what the overlay model returns**, for every stack and key;
and it changes neither the view nor coherence (it may record a clean entry). -/
theorem get_eq_view (l : Layer) (hc : Coherent l) (k : Bytes) :
    (l.get k).1 = OMap.get (view l) k ∧ view (l.get k).2 = view l ∧ Coherent (l.get k).2 :=
  get_spec l hc k

example : (exL.get [0xff]).1 = OMap.get (view exL) [0xff] := (get_eq_view exL exL_coherent _).1

/-- `Has` is `Get ≠ nil` on every store kind. -/
theorem has_eq_view (l : Layer) (hc : Coherent l) (k : Bytes) :
    (l.has k).1 = (OMap.get (view l) k).isSome ∧ (l.has k).2 = (l.get k).2 := by
  obtain ⟨h1, h2⟩ := has_eq_get l k
  exact ⟨by rw [h1, (get_spec l hc k).1], h2⟩

example : (exL.has []).1 = (OMap.get (view exL) []).isSome := (has_eq_view exL exL_coherent _).1

/-- the guard of `get_eq_view` is exact for a cache store: if every `Get`
agrees with the view, every clean entry agrees with the parent. -/
theorem get_eq_view_guard_exact (c : CacheState) (p : Layer) (hs : Sorted c.cache)
    (h : ∀ k, ((Layer.cache c p).get k).1 = OMap.get (view (.cache c p)) k) :
    ∀ k cv, OMap.get c.cache k = some cv → cv.dirty = false → cv.value = OMap.get (view p) k := by
  intro k cv hg hd
  have := h k
  simp only [Layer.get, hg, view] at this
  rw [get_applyDirty hs, hg] at this
  simpa [entryGet, hd] using this

/-- nil keys: cache and prefix stores panic, the memdb base reads nil as the empty key. -/
theorem nil_key_behaviour (c : CacheState) (p : Layer) (q : Bytes) (m : OMap) (v : Option Bytes) :
    (Layer.cache c p).apiGet none = (.panic "nilkey", .cache c p) ∧
    (Layer.pfx q p).apiGet none = (.panic "nilkey", .pfx q p) ∧
    (Layer.cache c p).apiSet none v = (.panic "nilkey", .cache c p) ∧
    (Layer.pfx q p).apiSet none v = (.panic "nilkey", .pfx q p) ∧
    (Layer.cache c p).apiDel none = (.panic "nilkey", .cache c p) ∧
    (Layer.pfx q p).apiDel none = (.panic "nilkey", .pfx q p) ∧
    (∀ k, (Layer.cache c p).apiSet (some k) none = (.panic "nilvalue", .cache c p)) ∧
    (∀ k, (Layer.pfx q p).apiSet (some k) none = (.panic "nilvalue", .pfx q p)) ∧
    (Layer.base m).apiGet none = (.val (OMap.get m []), .base m) := by
  refine ⟨rfl, rfl, ?_, ?_, rfl, rfl, fun _ => rfl, fun _ => rfl, rfl⟩ <;> cases v <;> rfl

/-! ## iteration -/

/-- **the iterator of every store yields exactly the model's keys in order with
their values**: `Iterator` / `ReverseIterator` with any bounds (nil or not,
inverted, empty) equals `range` of the overlay view; this includes the
cacheMergeIterator state machine (`skipUntilExistsOrInvalid`,
`skipCacheDeletes`), `dirtyItems`, `newMemIterator` and the prefix store's
`PrefixEndBytes` bound and `HasPrefix` cut-off.  Iterating changes neither the
view nor coherence. -/
theorem iterate_eq_view (l : Layer) (hc : Coherent l) (s e : Option Bytes) (asc : Bool) :
    (l.iter s e asc).1 = asItems (OMap.range (view l) s e asc) ∧
    view (l.iter s e asc).2 = view l ∧ Coherent (l.iter s e asc).2 :=
  iter_spec l hc s e asc

example : (exL.iter none (some [0xff]) false).1 = asItems (OMap.range (view exL) none (some [0xff]) false) :=
  (iterate_eq_view exL exL_coherent _ _ _).1

/-- the cacheMergeIterator loop equals the plain structural merge, with no
assumption on the two inputs. -/
theorem merge_iterator_eq_merge (asc : Bool) (ps cs : List Item) :
    drain asc ps cs = mergeSpec asc ps cs :=
  drain_eq_mergeSpec asc ps cs

/-! ## Set / Delete -/

theorem set_view (l : Layer) (hc : Coherent l) (k v : Bytes) :
    view (l.set k v) = OMap.set (view l) k v ∧ Coherent (l.set k v) :=
  set_spec l hc k v

theorem del_view (l : Layer) (hc : Coherent l) (k : Bytes) :
    view (l.del k) = OMap.del (view l) k ∧ Coherent (l.del k) :=
  del_spec l hc k

example : view (exL.set [0x00] [9]) = OMap.set (view exL) [0x00] [9] := (set_view exL exL_coherent _ _).1
example : view (exL.del [0xff]) = OMap.del (view exL) [0xff] := (del_view exL exL_coherent _).1

/-- `Set` / `Delete` addressed to a store anywhere in the stack act on *that*
store's view as `OMap.set` / `OMap.del` (the views of the stores above follow,
because `view` is the structural overlay). -/
theorem set_del_at_depth (l : Layer) (hc : Coherent l) (d : Nat) (x : Layer) (hx : l.sub d = some x)
    (k v : Bytes) :
    (∃ x', (step l (.set d (some k) (some v))).2.sub d = some x' ∧ view x' = OMap.set (view x) k v) ∧
    (∃ x', (step l (.del d (some k))).2.sub d = some x' ∧ view x' = OMap.del (view x) k) := by
  have hcx := sub_coherent hc hx
  constructor
  · refine ⟨(x.apiSet (some k) (some v)).2, by simp only [step, sub_at', hx, Option.map_some], ?_⟩
    cases x with
    | base m => exact (set_spec (.base m) hcx k v).1
    | cache c p => exact (set_spec (.cache c p) hcx k v).1
    | pfx q p => exact (set_spec (.pfx q p) hcx k v).1
  · refine ⟨(x.apiDel (some k)).2, by simp only [step, sub_at', hx, Option.map_some], ?_⟩
    cases x with
    | base m => exact (del_spec (.base m) hcx k).1
    | cache c p => exact (del_spec (.cache c p) hcx k).1
    | pfx q p => exact (del_spec (.pfx q p) hcx k).1

example : exL.sub 2 = some (((run (.base []) (exOps.take 6)).2)) := rfl

/-! ## Write -/

/-- **writing a layer applies exactly its net changes to the parent**: after
`Write` the parent's view is what the layer's view was, the layer is empty (no
entries, no checkpoint) and shows the same view, a key the layer holds no dirty
entry for is unchanged in the parent, a key it set / deleted is set / deleted. -/
theorem write_applies_net_changes (c : CacheState) (p : Layer) (hc : Coherent (.cache c p)) :
    ∃ p', (Layer.cache c p).apiWrite = (.ok, .cache .empty p') ∧
      view p' = view (.cache c p) ∧
      view (.cache .empty p') = view (.cache c p) ∧
      Coherent (.cache .empty p') ∧
      (∀ k, dirtyVal c k = none → OMap.get (view p') k = OMap.get (view p) k) ∧
      (∀ k v, dirtyVal c k = some (some v) → OMap.get (view p') k = some v) ∧
      (∀ k, dirtyVal c k = some none → OMap.get (view p') k = none) := by
  obtain ⟨a1, a2⟩ := applyEntries_spec p hc.1 c.cache
  refine ⟨p.applyEntries c.cache, rfl, a1, ?_, coherent_empty_cache a2, ?_, ?_, ?_⟩
  · simp only [view, CacheState.empty, applyDirty, List.foldl_nil, a1]
  · intro k hk
    rw [a1, get_applyDirty hc.2.1.cacheSorted]
    unfold dirtyVal at hk
    cases hg : OMap.get c.cache k with
    | none => rfl
    | some cv =>
      simp only [hg] at hk
      have : cv.dirty = false := by
        cases hd : cv.dirty with
        | false => rfl
        | true => simp [hd] at hk
      simp [entryGet, this]
  · intro k v hk
    rw [a1, get_applyDirty hc.2.1.cacheSorted]
    unfold dirtyVal at hk
    cases hg : OMap.get c.cache k with
    | none => simp [hg] at hk
    | some cv =>
      simp only [hg] at hk
      have hd : cv.dirty = true := by
        cases hd : cv.dirty with
        | true => rfl
        | false => simp [hd] at hk
      simp only [hd, if_true, Option.some.injEq] at hk
      rcases hc.2.1.dirtyShape k cv hg hd with ⟨_, h2⟩ | ⟨h1, _⟩
      · rw [h2] at hk; cases hk
      · simp [entryGet, hd, h1, hk]
  · intro k hk
    rw [a1, get_applyDirty hc.2.1.cacheSorted]
    unfold dirtyVal at hk
    cases hg : OMap.get c.cache k with
    | none => simp [hg] at hk
    | some cv =>
      simp only [hg] at hk
      have hd : cv.dirty = true := by
        cases hd : cv.dirty with
        | true => rfl
        | false => simp [hd] at hk
      simp only [hd, if_true, Option.some.injEq] at hk
      rcases hc.2.1.dirtyShape k cv hg hd with ⟨h1, _⟩ | ⟨_, h2⟩
      · simp [entryGet, hd, h1]
      · rw [hk] at h2; cases h2

example : ∃ c p, exL = .cache c p ∧ Coherent (.cache c p) :=
  ⟨_, _, rfl, exL_coherent⟩

/-- `Write` on a dbadapter or prefix store panics and changes nothing. -/
theorem write_non_cache_panics (m : OMap) (q : Bytes) (p : Layer) :
    (Layer.base m).apiWrite = (.panic "write", .base m) ∧
    (Layer.pfx q p).apiWrite = (.panic "write", .pfx q p) := ⟨rfl, rfl⟩

/-- `Write` of a store anywhere in the stack leaves the view of that store and
of every store above it unchanged, and keeps the stack coherent. -/
theorem write_preserves_views_above (l : Layer) (hc : Coherent l) (d : Nat) :
    view (step l (.write d)).2 = view l ∧ Coherent (step l (.write d)).2 := by
  have := at'_viewpres Layer.apiWrite (fun x hx => apiWrite_spec x hx) d l hc
  exact ⟨this.2, this.1⟩

example : view (step exL (.write 2)).2 = view exL := (write_preserves_views_above exL exL_coherent 2).1

/-- `Write` of the cache store `d` levels below the top: that store becomes empty
and its parent's view becomes what the store's view was. -/
theorem write_at_depth (l : Layer) (hc : Coherent l) (d : Nat) (c : CacheState) (p : Layer)
    (hx : l.sub d = some (.cache c p)) :
    ∃ p', (step l (.write d)).2.sub d = some (.cache .empty p') ∧ view p' = view (.cache c p) := by
  obtain ⟨p', w1, w2, _⟩ := write_applies_net_changes c p (sub_coherent hc hx)
  refine ⟨p', ?_, w2⟩
  simp only [step, sub_at', hx, Option.map_some, w1]

example : ∃ c p, exL.sub 2 = some (.cache c p) := ⟨_, _, rfl⟩

/-! ## checkpoints -/

/-- `Checkpoint` only records the current entry table. -/
theorem cp_records (c : CacheState) (p : Layer) :
    (Layer.cache c p).apiCp = (.ok, .cache { c with checkpoint := some c.cache } p) := rfl

/-- **what `WriteCheckpoint` does**: with a checkpoint `ck`, the parent receives
exactly the dirty entries of `ck` (on top of whatever it holds now), and the
layer is left empty, without checkpoint; every entry made after the checkpoint —
dirty or read-through — is dropped. -/
theorem wcp_applies_checkpoint (c : CacheState) (p : Layer) (hc : Coherent (.cache c p))
    (ck : OMapOf CValue) (hck : c.checkpoint = some ck) :
    ∃ p', (Layer.cache c p).apiWcp = (.ok, .cache .empty p') ∧
      view p' = applyDirty ck (view p) ∧ Coherent (.cache .empty p') := by
  obtain ⟨a1, a2⟩ := applyEntries_spec p hc.1 ck
  exact ⟨p.applyEntries ck, by simp only [Layer.apiWcp, hck], a1, coherent_empty_cache a2⟩

example : ∃ c p ck, exL = .cache c p ∧ c.checkpoint = some ck := ⟨_, _, _, rfl, rfl⟩

/-- without a checkpoint `WriteCheckpoint` panics and changes nothing; `Write`
(and `WriteCheckpoint`) clear the checkpoint. -/
theorem wcp_without_checkpoint_panics (c : CacheState) (p : Layer) (h : c.checkpoint = none) :
    (Layer.cache c p).apiWcp = (.panic "nocheckpoint", .cache c p) ∧
    (∀ c' p', ((Layer.cache c' p').apiWrite.2.apiWcp).1 = .panic "nocheckpoint") := by
  constructor
  · simp only [Layer.apiWcp, h]
  · intro c' p'; rfl

example : (CacheState.empty).checkpoint = none := rfl

/-- **restoring a checkpoint flushes exactly the state as of the checkpoint**:
take a checkpoint of the top store, then use that store in any way that is not
a flush (any gets, sets, deletes, iterations); `WriteCheckpoint` then succeeds,
the parent's view becomes the store's view at checkpoint time, and so does the
(now empty) store's own view. -/
theorem checkpoint_restore (c : CacheState) (p : Layer) (hc : Coherent (.cache c p))
    (ops : List Op) (hops : ∀ op ∈ ops, op.topPlain = true) :
    let l1 := (step (.cache c p) (.cp 0)).2
    let l2 := (run l1 ops).2
    ∃ p', step l2 (.wcp 0) = (.ok, .cache .empty p') ∧
      view p' = view (.cache c p) ∧ view (.cache .empty p') = view (.cache c p) ∧
      Coherent (.cache .empty p') := by
  intro l1 l2
  have hc1 : Coherent (Layer.cache { c with checkpoint := some c.cache } p) :=
    (apiCp_spec (.cache c p) hc).1
  obtain ⟨c2, p2, e2, k2, v2, h2⟩ := topPlain_run _ p hc1 ops hops
  have hl2 : l2 = .cache c2 p2 := e2
  obtain ⟨p', w1, w2, w3⟩ := wcp_applies_checkpoint c2 p2 h2 c.cache k2
  refine ⟨p', ?_, ?_, ?_, w3⟩
  · rw [hl2]; exact w1
  · rw [w2, v2]; rfl
  · simp only [view, CacheState.empty, applyDirty, List.foldl_nil]
    rw [w2, v2]; rfl

example : ∀ op ∈ [Op.set 0 (some [1]) (some [2]), .get 0 (some [3]), .iter 0 true none none],
    op.topPlain = true := by decide

/-! ## histories -/

/-- one step keeps the invariant: every operation applied where no cache store
above holds read-through entries (always true at the top), every read, and
`Write` / `Checkpoint` at any depth. -/
theorem step_preserves_coherent (l : Layer) (hc : Coherent l) (op : Op) (hs : Safe l op) :
    Coherent (step l op).2 :=
  step_coherent l hc op hs

example : Safe exL (.set 0 (some [1]) (some [2])) := by simp [Safe, NoCleanAbove]

/-- the statement without any discipline on where stores are mutated: every
read in every history answers from the overlay view. -/
def reads_match_view_statement : Prop :=
  ∀ ops : List Op, (run (.base []) ops).1 = specRun (.base []) ops

/-- **every read in every disciplined history returns what the overlay model
returns**: starting from any coherent stack, along any history whose
view-changing operations (`set`, `del`, `wcp`) are applied where no cache store
above holds read-through entries, all outputs — `get`, `has`, and every
iteration, at every layer — are the answers computed from `view`, and the
invariant holds at the end.  (What is missing w.r.t. the full statement is
exactly the case excluded by `Safe`; see the counterexample.) -/
theorem reads_match_view_partial (l : Layer) (hc : Coherent l) (ops : List Op)
    (hs : SafeRun l ops) :
    (run l ops).1 = specRun l ops ∧ Coherent (run l ops).2 :=
  run_spec l hc ops hs

example : (run (.base []) exOps).1 = specRun (.base []) exOps :=
  (reads_match_view_partial _ base_empty_coherent exOps exOps_safe).1

/-- in particular for every disciplined history from the empty base store. -/
theorem history_from_empty (ops : List Op) (hs : SafeRun (.base []) ops) :
    (run (.base []) ops).1 = specRun (.base []) ops ∧ Coherent (run (.base []) ops).2 :=
  run_spec _ base_empty_coherent ops hs

/-- the witness: read a missing key through a cache store, set it directly in the
base underneath, read again — the cache store still answers "missing". -/
def staleOps : List Op :=
  [ .newCache, .get 0 (some [0x61]), .set 1 (some [0x61]) (some [1]), .get 0 (some [0x61]) ]

theorem reads_match_view_counterexample : ¬ reads_match_view_statement := by
  intro h
  have := h staleOps
  revert this
  decide

end GnoVerif.C22
