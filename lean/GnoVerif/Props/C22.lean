import GnoVerif.Model.C22
namespace GnoVerif.C22
end GnoVerif.C22
