import GnoVerif.Proofs.C43Err
/-!
C43 — multiplexed peer connections deliver each channel's messages intact and in order.

Theorems about the model `GnoVerif.Model.C43` / `C43Wire` of tm2/pkg/p2p/conn/connection.go
(sender: Send/TrySend, isSendPending, nextPacketMsg, sendPacketMsg with ANY choice of channel;
wire: amino MarshalAnySized / UnmarshalSizedReader of the Packet interface; receiver: recvRoutine,
recvPacketMsg).  `(initRun P sd).run acts` is the sending side after ANY finite sequence of accepted
`Send`s, `TrySend`s, `sendPacketMsg` calls that pick ANY pending channel, pings and pongs;
`(mkRecv P rd).feedChunks chunks` is the receiver after the transport delivered `chunks`, one per
read (an empty chunk = a read returning `(0, nil)`).
Helper lemmas: Proofs/C43*.lean.
-/
namespace GnoVerif.C43

/-- both ends use payload size `P`; channel ids are distinct per side; the receiver has every channel
    of the sender. -/
def CfgOK (P : Nat) (sd : List SDesc) (rd : List RDesc) : Prop :=
  0 < P ∧ P ≤ 2 ^ 20 ∧ (sd.map (·.id)).Nodup ∧ (rd.map (·.id)).Nodup ∧ ∀ d ∈ sd, ∃ d' ∈ rd, d'.id = d.id

/-- "each message is delivered exactly once, unmodified and in send order per channel": no error;
    at every moment the deliveries of a channel are a prefix of what was accepted on it; once the
    sender has nothing left to send they are equal. -/
def DeliveryExact (P : Nat) (sd : List SDesc) (rd : List RDesc) (acts : List Act) (chunks : List Bytes) : Prop :=
  ((mkRecv P rd).feedChunks chunks).err = none ∧
  (∀ ch, ((mkRecv P rd).feedChunks chunks).deliveredOn ch <+: ((initRun P sd).run acts).acceptedOn ch) ∧
  (((initRun P sd).run acts).snd.exhausted →
    ∀ ch, ((mkRecv P rd).feedChunks chunks).deliveredOn ch = ((initRun P sd).run acts).acceptedOn ch)

/-- The property as stated: every message that fits the receiver (EMPTY ones included), every
    schedule, every way the transport cuts the byte stream into reads (zero-length reads included). -/
def delivery_exact_statement : Prop :=
  ∀ (P : Nat) (sd : List SDesc) (rd : List RDesc) (acts : List Act) (chunks : List Bytes),
    CfgOK P sd rd → (∀ a ∈ acts, ActFits rd a) →
    chunks.flatten = wireOf ((initRun P sd).run acts).out →
    DeliveryExact P sd rd acts chunks

/-- Proved part: NON-EMPTY messages, reads that return at least one byte.  For every configuration,
    every interleaving of sends and `sendPacketMsg` picks, every chunking: exactly-once, unmodified,
    in-order delivery per channel, and no error.
    Missing for the full statement: empty messages (lost, see `…_counterexample_empty_message`) and
    zero-length reads (see `…_counterexample_zero_read`). -/
theorem delivery_exact_partial (P : Nat) (sd : List SDesc) (rd : List RDesc) (acts : List Act)
    (chunks : List Bytes) (hcfg : CfgOK P sd rd) (hacts : ∀ a ∈ acts, ActOK rd a)
    (hne : ∀ c ∈ chunks, c ≠ [])
    (hwire : chunks.flatten = wireOf ((initRun P sd).run acts).out) :
    DeliveryExact P sd rd acts chunks := by
  obtain ⟨hP0, hP1, hsd, hrd, hsub⟩ := hcfg
  obtain ⟨out', ho, hi⟩ := Inv.run hP0 hP1 acts (initRun P sd) (mkRecv P rd) (Inv.init P sd rd hsd hrd hsub) hacts
  have hout : ((initRun P sd).run acts).out = out' := by rw [ho]; rfl
  have hr : (mkRecv P rd).feedChunks chunks = (mkRecv P rd).feed (wireOf out') := by
    rw [Recv.feedChunks_nonempty _ _ hne, hwire, hout]
  unfold DeliveryExact
  rw [hr]
  refine ⟨hi.rerr, ?_, ?_⟩
  · intro ch
    by_cases hex : ∃ c ∈ ((initRun P sd).run acts).snd.chans, c.id = ch
    · obtain ⟨c, hc, rfl⟩ := hex
      obtain ⟨rc, _, hrel⟩ := hi.chan c hc
      rw [acceptedOn_eq, deliveredOn_eq, hrel.split, List.append_assoc]
      exact List.prefix_append _ _
    · have hno : ∀ c ∈ ((initRun P sd).run acts).snd.chans, c.id ≠ ch := fun c hc e => hex ⟨c, hc, e⟩
      obtain ⟨h1, h2⟩ := hi.other ch hno
      rw [acceptedOn_eq, deliveredOn_eq, h1, h2]
      exact List.prefix_refl _
  · intro hexh ch
    by_cases hex : ∃ c ∈ ((initRun P sd).run acts).snd.chans, c.id = ch
    · obtain ⟨c, hc, rfl⟩ := hex
      obtain ⟨rc, _, hrel⟩ := hi.chan c hc
      obtain ⟨hq, hs⟩ := hexh c hc
      rw [acceptedOn_eq, deliveredOn_eq, hrel.split, hq, hs]
      simp
    · have hno : ∀ c ∈ ((initRun P sd).run acts).snd.chans, c.id ≠ ch := fun c hc e => hex ⟨c, hc, e⟩
      obtain ⟨h1, h2⟩ := hi.other ch hno
      rw [acceptedOn_eq, deliveredOn_eq, h1, h2]

end GnoVerif.C43
