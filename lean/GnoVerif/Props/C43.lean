import GnoVerif.Model.C43
namespace GnoVerif.C43
end GnoVerif.C43
