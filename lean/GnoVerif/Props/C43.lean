import GnoVerif.Proofs.C43Prefix
/-!
C43 — multiplexed peer connections deliver each channel's messages intact and in order.

Theorems about the model `GnoVerif.Model.C43` / `C43Wire` of tm2/pkg/p2p/conn/connection.go
(sender: Send/TrySend, isSendPending, nextPacketMsg, sendPacketMsg with ANY choice of channel;
wire: amino MarshalAnySized / UnmarshalSizedReader of the Packet interface; receiver: recvRoutine,
recvPacketMsg).  `(initRun P sd).run acts` is the sending side after ANY finite sequence of accepted
`Send`s, `TrySend`s, `sendPacketMsg` calls that pick ANY pending channel, pings and pongs;
`(mkRecv P rd).feedChunks chunks` is the receiver after the transport delivered `chunks`, one per
read (an empty chunk = a read returning `(0, nil)`).
Helper lemmas: Proofs/C43*.lean.
-/
namespace GnoVerif.C43

/-- both ends use payload size `P`; channel ids are distinct per side; the receiver has every channel
    of the sender. -/
def CfgOK (P : Nat) (sd : List SDesc) (rd : List RDesc) : Prop :=
  0 < P ∧ P ≤ 2 ^ 20 ∧ (sd.map (·.id)).Nodup ∧ (rd.map (·.id)).Nodup ∧ ∀ d ∈ sd, ∃ d' ∈ rd, d'.id = d.id

/-- "each message is delivered exactly once, unmodified and in send order per channel": no error;
    at every moment the deliveries of a channel are a prefix of what was accepted on it; once the
    sender has nothing left to send they are equal. -/
def DeliveryExact (P : Nat) (sd : List SDesc) (rd : List RDesc) (acts : List Act) (chunks : List Bytes) : Prop :=
  ((mkRecv P rd).feedChunks chunks).err = none ∧
  (∀ ch, ((mkRecv P rd).feedChunks chunks).deliveredOn ch <+: ((initRun P sd).run acts).acceptedOn ch) ∧
  (((initRun P sd).run acts).snd.exhausted →
    ∀ ch, ((mkRecv P rd).feedChunks chunks).deliveredOn ch = ((initRun P sd).run acts).acceptedOn ch)

/-- The property as stated: every message that fits the receiver (EMPTY ones included), every
    schedule, every way the transport cuts the byte stream into reads (zero-length reads included). -/
def delivery_exact_statement : Prop :=
  ∀ (P : Nat) (sd : List SDesc) (rd : List RDesc) (acts : List Act) (chunks : List Bytes),
    CfgOK P sd rd → (∀ a ∈ acts, ActFits rd a) →
    chunks.flatten = wireOf ((initRun P sd).run acts).out →
    DeliveryExact P sd rd acts chunks

/-- Proved part: NON-EMPTY messages, reads that return at least one byte.  For every configuration,
    every interleaving of sends and `sendPacketMsg` picks, every chunking: exactly-once, unmodified,
    in-order delivery per channel, and no error.
    Missing for the full statement: empty messages (lost, see `…_counterexample_empty_message`) and
    zero-length reads (see `…_counterexample_zero_read`). -/
theorem delivery_exact_partial (P : Nat) (sd : List SDesc) (rd : List RDesc) (acts : List Act)
    (chunks : List Bytes) (hcfg : CfgOK P sd rd) (hacts : ∀ a ∈ acts, ActOK rd a)
    (hne : ∀ c ∈ chunks, c ≠ [])
    (hwire : chunks.flatten = wireOf ((initRun P sd).run acts).out) :
    DeliveryExact P sd rd acts chunks := by
  obtain ⟨hP0, hP1, hsd, hrd, hsub⟩ := hcfg
  obtain ⟨out', ho, hi⟩ := Inv.run hP0 hP1 acts (initRun P sd) (mkRecv P rd) (Inv.init P sd rd hsd hrd hsub) hacts
  have hout : ((initRun P sd).run acts).out = out' := by rw [ho]; rfl
  have hr : (mkRecv P rd).feedChunks chunks = (mkRecv P rd).feed (wireOf out') := by
    rw [Recv.feedChunks_nonempty _ _ hne, hwire, hout]
  unfold DeliveryExact
  rw [hr]
  refine ⟨hi.rerr, ?_, ?_⟩
  · intro ch
    by_cases hex : ∃ c ∈ ((initRun P sd).run acts).snd.chans, c.id = ch
    · obtain ⟨c, hc, rfl⟩ := hex
      obtain ⟨rc, _, hrel⟩ := hi.chan c hc
      rw [acceptedOn_eq, deliveredOn_eq, hrel.split, List.append_assoc]
      exact List.prefix_append _ _
    · have hno : ∀ c ∈ ((initRun P sd).run acts).snd.chans, c.id ≠ ch := fun c hc e => hex ⟨c, hc, e⟩
      obtain ⟨h1, h2⟩ := hi.other ch hno
      rw [acceptedOn_eq, deliveredOn_eq, h1, h2]
      exact List.prefix_refl _
  · intro hexh ch
    by_cases hex : ∃ c ∈ ((initRun P sd).run acts).snd.chans, c.id = ch
    · obtain ⟨c, hc, rfl⟩ := hex
      obtain ⟨rc, _, hrel⟩ := hi.chan c hc
      obtain ⟨hq, hs⟩ := hexh c hc
      rw [acceptedOn_eq, deliveredOn_eq, hrel.split, hq, hs]
      simp
    · have hno : ∀ c ∈ ((initRun P sd).run acts).snd.chans, c.id ≠ ch := fun c hc e => hex ⟨c, hc, e⟩
      obtain ⟨h1, h2⟩ := hi.other ch hno
      rw [acceptedOn_eq, deliveredOn_eq, h1, h2]


/-- The same at EVERY moment: the receiver has read any prefix of the bytes written so far — it may
    lag behind, the prefix may end in the middle of a frame (connection lost there) — cut into
    non-empty reads in any way: no error, and each channel's deliveries are a prefix of the messages
    accepted on it (nothing duplicated, reordered, modified or invented).  Same guards as above. -/
theorem delivery_safe_any_prefix_partial (P : Nat) (sd : List SDesc) (rd : List RDesc) (acts : List Act)
    (chunks : List Bytes) (hcfg : CfgOK P sd rd) (hacts : ∀ a ∈ acts, ActOK rd a)
    (hne : ∀ c ∈ chunks, c ≠ [])
    (hpre : chunks.flatten <+: wireOf ((initRun P sd).run acts).out) :
    ((mkRecv P rd).feedChunks chunks).err = none ∧
    ∀ ch, ((mkRecv P rd).feedChunks chunks).deliveredOn ch <+: ((initRun P sd).run acts).acceptedOn ch := by
  obtain ⟨hP0, hP1, hsd, hrd, hsub⟩ := hcfg
  have hout : ((initRun P sd).run acts).out = (initRun P sd).emits acts := by
    rw [SRun.run_out]; rfl
  rw [hout] at hpre
  rw [Recv.feedChunks_nonempty _ _ hne]
  exact Inv.safe_prefix hP0 hP1 acts (initRun P sd) (mkRecv P rd) (Inv.init P sd rd hsd hrd hsub) hacts _ hpre

/-- non-vacuity: a stream cut in the middle of the second frame of a 3-packet message. -/
example :
    let sd : List SDesc := [⟨1, 1, 1⟩]
    let rd : List RDesc := [⟨1, 5⟩]
    let acts : List Act := [.send 1 [1, 2, 3, 4, 5], .step 0, .step 0, .step 0, .send 1 [6], .step 0]
    let wire := wireOf ((initRun 2 sd).run acts).out
    let chunks := [wire.take 7, (wire.drop 7).take 20]
    CfgOK 2 sd rd ∧ (∀ a ∈ acts, ActOK rd a) ∧ (∀ c ∈ chunks, c ≠ []) ∧ chunks.flatten <+: wire ∧
    chunks.flatten ≠ wire ∧ ((mkRecv 2 rd).feedChunks chunks).deliveredOn 1 = [] ∧
    ((mkRecv 2 rd).feedChunks [wire]).deliveredOn 1 = [[1, 2, 3, 4, 5], [6]] := by
  unfold CfgOK
  set_option maxRecDepth 100000 in decide

/-- the hypotheses of `delivery_exact_partial` are satisfiable by a non-trivial run: two channels,
    payload 2, a 5-byte message cut into 3 packets interleaved with a 1-byte message and a ping,
    the stream read 3 bytes at a time. -/
example :
    let sd : List SDesc := [⟨1, 1, 1⟩, ⟨2, 4, 2⟩]
    let rd : List RDesc := [⟨2, 10⟩, ⟨1, 5⟩]
    let acts : List Act := [.send 1 [1, 2, 3, 4, 5], .step 0, .trySend 2 [9], .ping, .step 1, .step 0, .step 0]
    let wire := wireOf ((initRun 2 sd).run acts).out
    let chunks := [wire.take 3, (wire.drop 3).take 3, wire.drop 6]
    CfgOK 2 sd rd ∧ (∀ a ∈ acts, ActOK rd a) ∧ (∀ c ∈ chunks, c ≠ []) ∧ chunks.flatten = wire ∧
    ((initRun 2 sd).run acts).snd.exhausted ∧
    ((mkRecv 2 rd).feedChunks chunks).deliveredOn 1 = [[1, 2, 3, 4, 5]] ∧
    ((mkRecv 2 rd).feedChunks chunks).deliveredOn 2 = [[9]] := by
  unfold CfgOK
  set_option maxRecDepth 100000 in decide

/-- witness for the empty-message loss (the corpus case `empty-message-lost.ops` in small):
    channel 1 has sent `[7]` (recentlySent > 0), then an EMPTY message is accepted on channel 1 and
    `[9]` on channel 2; `sendPacketMsg` dequeues the empty message while sweeping, picks channel 2
    (ratio 0), and the next sweep sees nothing pending on channel 1. -/
def cexSd : List SDesc := [⟨1, 1, 1⟩, ⟨2, 1, 1⟩]
def cexRd : List RDesc := [⟨1, 100⟩, ⟨2, 100⟩]
def cexEmptyActs : List Act := [.trySend 1 [7], .step 0, .trySend 1 [], .trySend 2 [9], .step 1]

/-- … and the picks `step 0`, `step 1` of that witness are exactly what the code's own
    ratio comparison chooses (`stepDet`), the sender is then exhausted, and the empty message
    accepted on channel 1 is missing at the receiver. -/
theorem empty_message_lost_witness :
    let t1 := (initRun 8 cexSd).run [.trySend 1 [7]]
    let t2 := (initRun 8 cexSd).run [.trySend 1 [7], .step 0, .trySend 1 [], .trySend 2 [9]]
    t1.snd.stepDet.2 = some (.msg 1 1 [7]) ∧ t1.snd.stepDet.1 = (t1.act (.step 0)).snd ∧
    t2.snd.stepDet.2 = some (.msg 2 1 [9]) ∧ t2.snd.stepDet.1 = (t2.act (.step 1)).snd ∧
    ((initRun 8 cexSd).run cexEmptyActs).snd.exhausted ∧
    ((initRun 8 cexSd).run cexEmptyActs).acceptedOn 1 = [[7], []] ∧
    ((mkRecv 8 cexRd).feedChunks [wireOf ((initRun 8 cexSd).run cexEmptyActs).out]).deliveredOn 1 = [[7]] := by
  set_option maxRecDepth 100000 in decide

/-- The full statement is FALSE for the code as it is: an accepted empty message is lost although
    every read is non-empty. -/
theorem delivery_exact_counterexample_empty_message : ¬ delivery_exact_statement := by
  intro h
  have h1 := h 8 cexSd cexRd cexEmptyActs [wireOf ((initRun 8 cexSd).run cexEmptyActs).out]
    (by unfold CfgOK; decide) (by decide) (by simp)
  have h2 := h1.2.2 (by set_option maxRecDepth 100000 in decide) 1
  revert h2
  set_option maxRecDepth 100000 in decide

/-- witness for the zero-length read: two one-packet messages, the transport returns `(0, nil)`
    between the two frames. -/
def cexZeroActs : List Act := [.send 1 [7], .step 0, .send 1 [8], .step 0]
def cexZeroChunks : List Bytes :=
  [encFrame (.msg 1 1 [7]), [], encFrame (.msg 1 1 [8])]

/-- The full statement is FALSE for the code as it is, second witness: all messages non-empty, but
    a zero-length read while the length prefix is read closes the connection; `[8]` is lost. -/
theorem delivery_exact_counterexample_zero_read : ¬ delivery_exact_statement := by
  intro h
  have h1 := h 8 cexSd cexRd cexZeroActs cexZeroChunks
    (by unfold CfgOK; decide) (by decide) (by set_option maxRecDepth 100000 in decide)
  have h2 := h1.1
  revert h2
  set_option maxRecDepth 100000 in decide

/-! ### chunking -/

/-- "regardless of how the underlying stream splits or batches bytes", as stated: the receiver only
    depends on the concatenation of the reads. -/
def chunk_independent_statement : Prop :=
  ∀ (r : Recv) (chunks : List Bytes), r.feedChunks chunks = r.feedChunks [chunks.flatten]

/-- Proved part: reads that return at least one byte.  Any two such chunkings of the same byte
    stream leave the receiver in the same state (deliveries, errors, partial frame).
    Missing: zero-length reads (`chunk_independent_counterexample`). -/
theorem chunk_independent_partial (r : Recv) (c1 c2 : List Bytes)
    (h1 : ∀ c ∈ c1, c ≠ []) (h2 : ∀ c ∈ c2, c ≠ []) (h : c1.flatten = c2.flatten) :
    r.feedChunks c1 = r.feedChunks c2 := by
  rw [Recv.feedChunks_nonempty r c1 h1, Recv.feedChunks_nonempty r c2 h2, h]

example : (∀ c ∈ [[(1 : UInt8), 2], [3]], c ≠ []) ∧ (∀ c ∈ [[(1 : UInt8)], [2, 3]], c ≠ []) ∧
    [[(1 : UInt8), 2], [3]].flatten = [[(1 : UInt8)], [2, 3]].flatten := by decide

/-- A read returning `(0, nil)` between two frames changes the outcome: the second message is lost
    and the connection closes with a decoding error. -/
theorem chunk_independent_counterexample : ¬ chunk_independent_statement := by
  intro h
  have h1 := h (mkRecv 8 cexRd) cexZeroChunks
  have h2 : ((mkRecv 8 cexRd).feedChunks cexZeroChunks).err = some .malformed := by
    set_option maxRecDepth 100000 in decide
  have h3 : ((mkRecv 8 cexRd).feedChunks [cexZeroChunks.flatten]).err = none := by
    set_option maxRecDepth 100000 in decide
  rw [h1, h3] at h2
  cases h2

/-! ### errors close the connection, nothing partial is delivered -/

/-- A packet for a channel the receiver does not have: error, no delivery. -/
theorem unknown_channel_closes (r : Recv) (ch eof : UInt8) (bs : Bytes)
    (h : r.chans.find? (·.id = ch) = none) :
    (r.onPacket (.msg ch eof bs)).err = some .unknownChannel ∧
    (r.onPacket (.msg ch eof bs)).delivered = r.delivered := by
  simp [Recv.onPacket, h, Recv.close]

example : (mkRecv 8 cexRd).chans.find? (·.id = 3) = none := by decide

/-- A packet that would make the message in progress exceed `RecvMessageCapacity`: error, no
    delivery (not even of the part received so far). -/
theorem over_capacity_closes (r : Recv) (c : RChan) (ch eof : UInt8) (bs : Bytes)
    (h : r.chans.find? (·.id = ch) = some c) (hcap : c.cap < c.recving.length + bs.length) :
    (r.onPacket (.msg ch eof bs)).err = some .overCapacity ∧
    (r.onPacket (.msg ch eof bs)).delivered = r.delivered := by
  simp [Recv.onPacket, h, hcap, Recv.close]

example : (mkRecv 8 [⟨1, 2⟩]).chans.find? (·.id = 1) = some ⟨1, 2, []⟩ ∧
    (⟨1, 2, []⟩ : RChan).cap < (⟨1, 2, []⟩ : RChan).recving.length + [1, 2, (3 : UInt8)].length := by decide

/-- A frame body that amino does not decode to a packet (error, or the nil interface): error, no
    delivery. -/
theorem undecodable_frame_closes (r : Recv) (body : Bytes)
    (h : decodePacket body = none ∨ decodePacket body = some none) :
    (r.onBody body).err = some .malformed ∧ (r.onBody body).delivered = r.delivered := by
  rcases h with h | h <;> simp [Recv.onBody, h, Recv.close]

example : decodePacket [0x0a, 0x01] = none ∧ decodePacket [] = some none := by decide

/-- A length prefix announcing more than `maxPacketMsgSize`: error, no delivery. -/
theorem oversize_frame_closes (r : Recv) (acc : Bytes) (h : r.maxFrame < (goUvarint acc).1) :
    (r.onLen acc).err = some .malformed ∧ (r.onLen acc).delivered = r.delivered := by
  simp [Recv.onLen, h, Recv.close]

example : (mkRecv 8 cexRd).maxFrame < (goUvarint [0xff, 0x01]).1 := by decide

/-- Once closed, nothing changes any more: no event delivers anything (in particular the bytes of a
    message in progress are never delivered). -/
theorem closed_is_final (r : Recv) (e : Err) (h : r.err = some e) (es : List Ev) : r.run es = r :=
  Recv.run_closed r e h es

/-- NO PARTIAL DELIVERY, for every byte stream (also adversarial ones) and every chunking incl.
    zero-length reads and end of stream: what the receiver has delivered is exactly the reference
    reassembly of the packets it accepted — a message is delivered only at a packet with `EOF = 1`
    and is the concatenation of the payloads of its channel since the previous one — and each
    channel's buffer holds exactly the bytes of its unfinished message. -/
theorem deliveries_are_reassembled (P : Nat) (rd : List RDesc) (es : List Ev) :
    ((mkRecv P rd).run es).delivered = (specAssemble ((mkRecv P rd).run es).log).2 ∧
    ∀ rc ∈ ((mkRecv P rd).run es).chans, rc.recving = (specAssemble ((mkRecv P rd).run es).log).1 rc.id :=
  let h := (RInv.init P rd).run es
  ⟨h.deliv, h.pend⟩

/-- "malformed packets close the connection", as stated: a p2p.Msg whose value is not a sequence of
    complete protobuf fields closes the connection. -/
def malformed_closes_statement : Prop :=
  ∀ (r : Recv) (value : Bytes), r.err = none → wfMsgValue value = false →
    (r.onBody (msgBody value)).err ≠ none

/-- FALSE for the code as it is: the value `08 01 10 01 1a` ends with a bare field-3 key (no length);
    amino's reflect decoder accepts it (`decodeReflectBinaryByteSlice` on an empty remainder) and
    the (empty) message is delivered.  Proved instead: `undecodable_frame_closes` (whatever amino
    rejects closes the connection without delivery). -/
theorem malformed_closes_counterexample : ¬ malformed_closes_statement := by
  intro h
  have h1 := h (mkRecv 8 cexRd) [0x08, 0x01, 0x10, 0x01, 0x1a] rfl (by decide)
  revert h1
  set_option maxRecDepth 100000 in decide

/-- … and that frame really delivers: channel 1 receives the empty message. -/
theorem dangling_key_delivers :
    ((mkRecv 8 cexRd).onBody (msgBody [0x08, 0x01, 0x10, 0x01, 0x1a])).delivered = [(1, [])] := by
  set_option maxRecDepth 100000 in decide

/-! ### the codec and the scheduler -/

/-- amino round trip of every packet: what `MarshalAnySized` writes, `UnmarshalSizedReader` reads back. -/
theorem packet_roundtrip (p : Packet) (h : ∀ ch eof bs, p = .msg ch eof bs → bs.length < 2 ^ 62) :
    decodePacket (encAny p) = some (some p) :=
  decodePacket_enc p h

example : ∀ ch eof bs, Packet.msg 200 1 [1, 2, 3] = .msg ch eof bs → bs.length < 2 ^ 62 := by
  intro ch eof bs e; injection e with _ _ e; subst e; decide

/-- every frame `sendPacketMsg` can write (payload ≤ P) passes the receiver's size check. -/
theorem frames_fit (P : Nat) (hP : 0 < P) (hP' : P ≤ 2 ^ 20) (ch eof : UInt8) (bs : Bytes)
    (hbs : bs.length ≤ P) : (encFrame (.msg ch eof bs)).length ≤ maxPacketMsgSize P :=
  encFrame_msg_le_max P hP hP' ch eof bs hbs

example : (0 < 1024) ∧ (1024 ≤ 2 ^ 20) ∧ ([1, 2, (3 : UInt8)].length ≤ 1024) := by decide

/-- the channel the code itself picks (least recentlySent/priority) is one of the arbitrary picks
    the delivery theorem quantifies over. -/
theorem scheduler_is_a_pick (s : Sender) (p : Packet) (h : s.stepDet.2 = some p) :
    ∃ i, s.stepAt i = some (s.stepDet.1, p) :=
  stepDet_is_stepAt s p h

example : ((initRun 8 cexSd).run [.trySend 1 [7]]).snd.stepDet.2 = some (.msg 1 1 [7]) := by decide

end GnoVerif.C43
