import GnoVerif.Model.C26
namespace GnoVerif.C26
end GnoVerif.C26
