/-
C26 — "The B+ tree fast index never serves a stale value"

  For every history of commits, restarts, crashes and concurrent read-only
  loads, a read served through the fast index returns exactly the value the
  authoritative tree holds for the version being read.

Model (Model/C26.lean): the persistent state is the set of retained versions
(each an ordered map key ↦ (version written, value)), the fast index
key ↦ (version, value) and its stamp; a batch `Write` is one atomic update.
Handles (`MutableTree`) and views (`ImmutableTree`) are volatile; several
handles share the DB, so an op list is an interleaving of loads, reads,
commits, prunes, failed writes and crashes at API-call granularity, and
`skew` puts a commit between a handle's `discoverVersions` scan and its
later reads (the gno#6011 TOCTOU).

What is proved (all histories, no bounds):
* the invariant `Inv` (`DBInv`: every fast entry `(w, v)` of `k` is what every
  retained version in `[w, stamp]` holds for `k`; no stamp ahead of the latest
  version; no entries without a stamp — plus what handles and views rely on)
  holds initially and is preserved by EVERY operation of a history in which
  fast-index-enabled handles commit / serve working-tree `Get`s only when they
  were opened through `Load()` (`step_preserves_inv`), in particular by the
  commit, by a crash before the batch (nothing applied) or between the two
  batches of a rebuild, by a failed write, by any restart, by the guarded
  rebuild and by pruning;
* a trusted fast hit at a snapshot version `s ≤ stamp` IS the tree's value at
  `s` (`fastGet_hit_eq_tree`), and the code only trusts hits at such `s`
  (`view_get_eq_walk`, `handle_get_eq_walk`), hence every read of every
  disciplined history returns the tree-walk value (`reads_never_stale_partial`);
* the unrestricted statement is FALSE on the unchanged tree
  (`reads_never_stale_counterexample`): after a period with the feature off, a
  fast-index-enabled tree opened with a bare `LoadVersion` (no `Load()`) serves
  the stale entry, and a commit from it makes even later in-contract reads stale
  (`bare_commit_poisons_in_contract_reads`) — the documented "outside the trust
  contract" case of fast_index.go;
* the PRE-FIX rule of the ADR (rebuild whenever stamp ≠ version) breaks the
  invariant inside the contract (`prefix_rule_serves_stale`), while the real
  rule answers the same history with a stamp-ahead error and consistent reads.
-/
import GnoVerif.Proofs.C26Hist

namespace GnoVerif.C26
open GnoVerif

/-! ## example histories (non-vacuity of the hypotheses below) -/

def kA : Bytes := [0x61]
def kB : Bytes := [0x62]

/-- commits, a query handle with a kept view, an update, a removal, a failed
write with rollback, a restart with the feature off, a crash inside the rebuild
of the next restart, an in-contract restart, pruning. -/
def exOps : List Op :=
  [ .open_ 0 true .load 0, .set 0 kA (some [1]), .set 0 kB (some [1]), .save 0,
    .open_ 1 true .ro 0, .imm 1 0 1, .set 0 kA (some [2]), .save 0, .vget 0 kA, .getv 1 kA 2,
    .remove 0 kB, .save 0, .get 0 kB, .getv 0 kB 2, .set 0 kB (some [9]), .failsave 0, .rollback 0,
    .open_ 0 false .load 0, .set 0 kA (some [3]), .save 0, .crashopen true 1,
    .open_ 2 true .ro 0, .getv 2 kA 3, .open_ 0 true .load 0, .get 0 kA, .getv 0 kA 4,
    .open_ 1 true .load 1, .prune 0 2, .get 0 kA, .vget 0 kA,
    .delstamp, .open_ 1 true .ro 0, .getv 1 kA 4, .open_ 0 true .load 0, .get 0 kA ]

/-- a writer commits v1, v2; a second handle runs `Load()` with its
`discoverVersions` scan taken before commit v2 (skew 1), so it sees latest = 1
under stamp = 2; the writer then commits v3 touching another key and reads. -/
def gno6011Ops : List Op :=
  [ .open_ 0 true .load 0, .set 0 kA (some [1]), .save 0, .set 0 kA (some [2]), .save 0,
    .open_ 1 true .load 1, .set 0 kB (some [3]), .save 0, .get 0 kA, .getv 0 kA 3 ]

theorem exOps_disciplined : Disciplined ensureDecision State.init exOps := by decide

/-! ## the invariant -/

/-- the empty DB with no handles satisfies the invariant. -/
theorem inv_init : Inv State.init := inv_init'

/-- EVERY operation keeps the invariant, provided fast-index-enabled handles
commit and serve working-tree `Get`s only when opened through `Load()`. -/
theorem step_preserves_inv (st : State) (op : Op) (hi : Inv st) (hok : opOK st op = true) :
    Inv (step st op).1 := step_inv st op hi hok

example : Inv (run State.init exOps).1 := (run_spec _ exOps inv_init exOps_disciplined).1

/-- the commit: `SaveVersion`'s single batch (version record, the session's staged
fast-index writes, the stamp) keeps the DB invariant and the committing
handle's invariants, never lowers the stamp nor changes a retained version, and
a fast-index-enabled commit leaves the stamp at the new latest version. -/
theorem commit_preserves_inv {db : DB} {h : Handle} (hi : DBInv db) (hh : HInv db h) (hw : WInv db h)
    (hc : h.fastOpt = true → h.ensured = true) :
    DBInv (save db h .normal).1 ∧ Frame db (save db h .normal).1 ∧
    HInv (save db h .normal).1 (save db h .normal).2.1 ∧
    WInv (save db h .normal).1 (save db h .normal).2.1 :=
  save_spec .normal hi hh hw hc

/-- a writer with a staged session (two Sets, fast-index ops in its batch) satisfies the hypotheses. -/
def exStaged : State := (run State.init (exOps.take 3)).1

theorem exStaged_inv : Inv exStaged := (run_spec _ _ inv_init (by decide)).1

example : ∃ h, exStaged.hs 0 = some h ∧ h.batch.length = 2 ∧ DBInv exStaged.db ∧ HInv exStaged.db h ∧
    WInv exStaged.db h ∧ (h.fastOpt = true → h.ensured = true) := by
  cases hh : exStaged.hs 0 with
  | none => exact absurd (show (exStaged.hs 0).isSome = true by decide) (by simp [hh])
  | some h =>
    have hb : ((exStaged.hs 0).map (fun h => (h.batch.length, h.fastOpt, h.ensured))) = some (2, true, true) := by decide
    rw [hh] at hb
    simp only [Option.map_some, Option.some.injEq, Prod.mk.injEq] at hb
    exact ⟨h, rfl, hb.1, exStaged_inv.db, exStaged_inv.hs 0 h hh, exStaged_inv.w h hh, fun _ => hb.2.2⟩

/-- "stamp = latest at rest": whenever a fast-index-enabled writer opened through
`Load()` exists, the stamp is the latest retained version (or nothing was ever committed). -/
theorem stamp_current_at_rest {st : State} (hi : Inv st) {h : Handle} (hh : st.hs 0 = some h)
    (hf : h.fastOpt = true) (he : h.ensured = true) : StampCurrent st.db :=
  (hi.w h hh).current hf he

/-- removed keys have no entry: with a current stamp, every fast entry is the
latest version's own entry (so a key absent from the latest tree has none). -/
theorem fast_entry_is_latest_tree_entry {db : DB} (hi : DBInv db) {S : Ver} (hS : db.stamp = some S)
    {m : Tree} (hm : (S, m) ∈ db.vers) {k : Bytes} {e : Rec} (he : OMap.get db.fast k = some e) :
    OMap.get m k = some e := by
  obtain ⟨w, val⟩ := e
  obtain ⟨hw, hall⟩ := hi.fast S hS k w val he
  exact hall S m hm hw (Nat.le_refl _)

/-- a crash before the batch is written applies NOTHING (and all volatile state is gone). -/
theorem crash_before_batch_applies_nothing (st : State) (to : Ver) :
    (step st .crashsave).1.db = st.db ∧ (step st (.crashprune to)).1.db = st.db ∧
    (∀ i, (step st .crashsave).1.hs i = none) ∧ (∀ i, (step st .crashsave).1.vs i = none) :=
  ⟨rfl, rfl, fun _ => rfl, fun _ => rfl⟩

/-- a crash at ANY cut point of the restart's `Load()` (before the clear chunk,
between the clear chunk and the fill+stamp batch, or after) leaves a DB that
satisfies the invariant. -/
theorem crash_inside_rebuild_preserves_inv (st : State) (fast : Bool) (n : Nat) (hi : Inv st) :
    Inv (step st (.crashopen fast n)).1 := step_inv st _ hi rfl

/-- every cut point of the rebuild's write sequence, at the DB level. -/
theorem rebuild_cut_points {db : DB} {h : Handle} (hi : DBInv db)
    (ht : db.tree h.version = some h.work) (he : ensureDecision db h = .rebuild) (n : Nat) :
    DBInv (applyWrites db ((rebuildWrites db h).take n)) :=
  (rebuild_take_inv hi ht (fun S hS => Nat.le_of_lt ((ensure_rebuild he).2 S hS)) n).1

/-- entries WITHOUT a stamp — the ADR's remediation (stamp deleted by hand) or an Import
abandoned at any cut point of `dropFastIndex` — keep the invariant ... -/
theorem missing_stamp_preserves_inv (st : State) (n : Nat) (hi : Inv st) :
    Inv (step st .delstamp).1 ∧ Inv (step st (.crashimport n)).1 :=
  ⟨step_inv st _ hi rfl, step_inv st _ hi rfl⟩

/-- ... because a MISSING stamp closes the fast path of every immutable snapshot
(`getImmutable`'s gate is `ok && stamp >= version`), whatever entries are on disk. -/
theorem missing_stamp_disables_view_fast_path {db : DB} (hs : db.stamp = none) (fo : Bool) (ver : Ver)
    {v : View} (hg : getImmutable db fo ver = some v) : v.fast = false := by
  unfold getImmutable at hg
  cases ht : db.tree ver with
  | none => rw [ht] at hg; simp at hg
  | some m =>
    rw [ht, hs] at hg
    simp only at hg
    split at hg <;> (simp only [Option.some.injEq] at hg; subst hg; simp)

/-- stale entries on disk and no stamp, reached through the real API. -/
example : (run State.init (exOps.take 20 ++ [.crashimport 1])).1.db.stamp = none ∧
    OMap.get (run State.init (exOps.take 20 ++ [.crashimport 1])).1.db.fast kA = some (2, [2]) ∧
    ((run State.init (exOps.take 20 ++ [.crashimport 1])).1.db.tree 4).map (fun m => OMap.get m kA) =
      some (some (4, [3])) := by decide

/-- any restart (any slot, option, load mode, discover skew) keeps the invariant. -/
theorem restart_preserves_inv (st : State) (slot : Nat) (fast : Bool) (mode : Mode) (skew : Nat)
    (hi : Inv st) : Inv (step st (.open_ slot fast mode skew)).1 := step_inv st _ hi rfl

/-- the guarded rebuild (stamp missing or BEHIND the loaded version): the DB
invariant holds afterwards, every retained version is unchanged, the stamp does
not decrease and ends at the loaded version. -/
theorem guarded_rebuild_preserves_inv {db : DB} {h : Handle} (hi : DBInv db)
    (ht : db.tree h.version = some h.work) (he : ensureDecision db h = .rebuild) :
    DBInv (rebuild db h) ∧ Frame db (rebuild db h) ∧ (rebuild db h).stamp = some h.version :=
  let r := rebuild_inv hi ht (fun S hS => Nat.le_of_lt ((ensure_rebuild he).2 S hS))
  ⟨r.1, r.2, rebuild_stamp db h⟩

/-- the stale-reader guard: a stamp AHEAD of the loaded version is never a rebuild. -/
theorem stamp_ahead_never_rebuilds {db : DB} {h : Handle} {S : Ver} (hf : h.fastOpt = true)
    (hS : db.stamp = some S) (hlt : h.version < S) : ensureDecision db h = .ahead := by
  unfold ensureDecision
  simp only [hf, hS, Bool.not_true, Bool.false_eq_true, if_false]
  have : ¬ S < h.version := Nat.not_lt_of_le (Nat.le_of_lt hlt)
  simp only [this, if_false, hlt, if_true]

/-- the DB after a period with the feature off (stamp 1 behind latest 2), and the
handle a fast-on `Load()` builds before `ensureFastIndex`: the guard decides "rebuild". -/
def exOffDB : DB := (run State.init (exOps.take 20)).1.db

example : ∃ h v, loadReadonly exOffDB true 0 = some (h, v) ∧ DBInv exOffDB ∧
    exOffDB.tree h.version = some h.work ∧ ensureDecision exOffDB h = .rebuild := by
  cases hr : loadReadonly exOffDB true 0 with
  | none => exact absurd (show (loadReadonly exOffDB true 0).isSome = true by decide) (by simp [hr])
  | some r =>
    obtain ⟨h, v⟩ := r
    have hd : ((loadReadonly exOffDB true 0).map
        (fun r => (decide (exOffDB.tree r.1.version = some r.1.work), ensureDecision exOffDB r.1))) =
        some (true, .rebuild) := by decide
    rw [hr] at hd
    simp only [Option.map_some, Option.some.injEq, Prod.mk.injEq, decide_eq_true_eq] at hd
    exact ⟨h, v, rfl, (run_spec _ (exOps.take 20) inv_init (by decide)).1.db, hd.1, hd.2⟩

/-- the racing load of the gno#6011 history meets a stamp ahead of its version. -/
example : ∃ h v, loadReadonly (run State.init (gno6011Ops.take 5)).1.db true 1 = some (h, v) ∧
    h.fastOpt = true ∧ (run State.init (gno6011Ops.take 5)).1.db.stamp = some 2 ∧ h.version < 2 := by
  cases hr : loadReadonly (run State.init (gno6011Ops.take 5)).1.db true 1 with
  | none =>
    exact absurd (show (loadReadonly (run State.init (gno6011Ops.take 5)).1.db true 1).isSome = true by decide)
      (by simp [hr])
  | some r =>
    obtain ⟨h, v⟩ := r
    have hd : ((loadReadonly (run State.init (gno6011Ops.take 5)).1.db true 1).map
        (fun r => (r.1.fastOpt, r.1.version))) = some (true, 1) := by decide
    rw [hr] at hd
    simp only [Option.map_some, Option.some.injEq, Prod.mk.injEq] at hd
    exact ⟨h, v, rfl, hd.1, by decide, by rw [hd.2]; decide⟩

/-! ## reads -/

/-- a fast hit at a snapshot version `s` not beyond the stamp is the value the
authoritative tree of version `s` holds. -/
theorem fastGet_hit_eq_tree {db : DB} (hi : DBInv db) {S s : Ver} {m : Tree} {k val : Bytes}
    (hS : db.stamp = some S) (hs : s ≤ S) (ht : db.tree s = some m)
    (hg : fastGet db k s = some val) : walk m k = some val :=
  fastGet_sound hi hS hs ht hg

/-- a real hit: after `exOps` the index holds kA ↦ (4, [3]) under stamp 4, and version 4 is retained. -/
example : ∃ S m val, (run State.init exOps).1.db.stamp = some S ∧ 4 ≤ S ∧
    (run State.init exOps).1.db.tree 4 = some m ∧ fastGet (run State.init exOps).1.db kA 4 = some val :=
  ⟨4, [(kA, (4, [3]))], [3], by decide, by decide, by decide, by decide⟩

/-- `ImmutableTree.Get` (every snapshot `getImmutable` ever built, kept across
any number of later commits) returns the tree walk's value. -/
theorem view_get_eq_walk {st : State} (hi : Inv st) {i : Nat} {v : View} (hv : st.vs i = some v)
    (k : Bytes) : v.get st.db k = walk v.root k :=
  view_get_eq_walk' hi.db (hi.vs i v hv) k

/-- `MutableTree.Get` on a handle opened in contract returns the tree walk's value
(clean or dirty session, any slot). -/
theorem handle_get_eq_walk {st : State} (hi : Inv st) {i : Nat} {h : Handle} (hh : st.hs i = some h)
    (hc : h.fastOpt = true → h.ensured = true) (k : Bytes) : h.get st.db k = walk h.work k :=
  handle_get_eq_walk' hi.db (hi.hs i h hh) hc k

/-- every read of one disciplined step is consistent. -/
theorem step_reads_consistent (st : State) (op : Op) (hi : Inv st) (hok : opOK st op = true) :
    (step st op).2.consistent = true := step_consistent st op hi hok

/-- THE theorem: in every history in which fast-index-enabled handles commit and
serve working-tree `Get`s only when opened through `Load()`, every read —
`MutableTree.Get`, `GetVersioned`, `ImmutableTree.Get` on kept snapshots, on any
handle, at any retained version, interleaved in any way with commits, prunes,
restarts, failed writes and crashes — returns the authoritative tree's value,
and the invariant holds at the end.  (What is missing w.r.t. the full statement
is exactly the case excluded by `Disciplined`; see the counterexample.) -/
theorem reads_never_stale_partial (ops : List Op) (hd : Disciplined ensureDecision State.init ops) :
    (run State.init ops).2.all Out.consistent = true ∧ Inv (run State.init ops).1 :=
  let r := run_spec State.init ops inv_init hd
  ⟨r.2, r.1⟩

example : (run State.init exOps).2.all Out.consistent = true :=
  (reads_never_stale_partial exOps exOps_disciplined).1

/-- from any state satisfying the invariant. -/
theorem reads_never_stale_from (st : State) (hi : Inv st) (ops : List Op)
    (hd : Disciplined ensureDecision st ops) :
    (run st ops).2.all Out.consistent = true ∧ Inv (run st ops).1 :=
  let r := run_spec st ops hi hd
  ⟨r.2, r.1⟩

/-! ## the unrestricted statement is false on the unchanged tree -/

/-- fast on: k=a committed as v1; fast OFF: k=b committed as v2; fast on, bare
`LoadVersion(2)` (no `Load()`, hence no `ensureFastIndex`): `Get(k)` is served
the stale entry. -/
def bareOps : List Op :=
  [ .open_ 0 true .load 0, .set 0 kA (some [0x61]), .save 0,
    .open_ 0 false .load 0, .set 0 kA (some [0x62]), .save 0,
    .open_ 0 true (.lv 2) 0, .get 0 kA ]

theorem reads_never_stale_counterexample : ¬ reads_never_stale_statement := by
  intro h
  have := h bareOps
  revert this
  decide

/-- the guard of the partial theorem is what the witness violates. -/
example : ¬ Disciplined ensureDecision State.init bareOps := by decide

/-- worse: a commit from the bare handle stamps the stale index current, after
which a restart fully inside the contract (`Load()`), its working-tree `Get`
and its gated `GetVersioned` are all stale. -/
def bareCommitOps : List Op :=
  [ .open_ 0 true .load 0, .set 0 kA (some [0x61]), .save 0,
    .open_ 0 false .load 0, .set 0 kA (some [0x62]), .save 0,
    .open_ 0 true (.lv 2) 0, .set 0 kB (some [0x7a]), .save 0,
    .open_ 0 true .load 0, .get 0 kA, .getv 0 kA 3 ]

theorem bare_commit_poisons_in_contract_reads :
    ((run State.init bareCommitOps).2.map Out.consistent).drop 10 = [false, false] := by decide

/-! ## the pre-fix rule (gno#6011) breaks the invariant inside the contract -/

/-- with the pre-fix rule (rebuild whenever stamp ≠ version) the racing load
rewrites the index from the old root, the next commit re-validates it, and the
writer's own in-contract reads are stale; the real rule (stamp ahead ⇒ error,
no rebuild) keeps every read of the same history consistent. -/
theorem prefix_rule_serves_stale :
    Disciplined ensureDecisionPreFix State.init gno6011Ops ∧
    (runWith ensureDecisionPreFix State.init gno6011Ops).2.all Out.consistent = false ∧
    Disciplined ensureDecision State.init gno6011Ops ∧
    (run State.init gno6011Ops).2.all Out.consistent = true := by decide

end GnoVerif.C26
