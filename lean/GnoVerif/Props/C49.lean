import GnoVerif.Proofs.C49Abs
/-!
C49 — the concurrent list (tm2/pkg/clist) is linearizable and never loses wake-ups.

Theorems about the atomic-step model `GnoVerif.Model.C49`.  `run init ops` is the list after ANY
finite schedule `ops` of atomic steps — `push`, `remove e`, `detachPrev e`, `detachNext e` by any
goroutine, and for any number of traversing goroutines `t`: `tfront t` / `tnext t` (start a
FrontWait / NextWait), `tnextNow t` (Next()), `tstep t` (ONE atomic step of the pending blocking
call: the read under the read lock, or the `Wait()` on the wait group captured by that read) — in
any interleaving.  `LegalRun init ops` restricts exactly one thing: every `remove e` targets an
element that is in the list (has not been removed before).  The code does not enforce that
(`remove_once_guard_needed_counterexample`).

Helper lemmas: Proofs/C49*.lean; the invariant: Model/C49Inv.lean.
-/
namespace GnoVerif.C49

/-- "Under any interleaving": `Reachable s` says exactly that `s` is the result of some legal
    schedule; every theorem below is stated for all reachable states (equivalently, for all
    legal schedules), and a reachable state stays reachable under every further legal step. -/
theorem reachable_iff (s : State) :
    Reachable s ↔ ∃ ops, LegalRun init ops ∧ s = run init ops := Iff.rfl

theorem reachable_closed : Reachable init ∧
    ∀ s op, Reachable s → Legal s op → Reachable (step s op) :=
  ⟨Reachable.init, fun _ op h hop => h.step op hop⟩

/-! ### wait channels / wait groups -/

/-- `nextWaitCh` is closed (and `nextWg` released) exactly when `next != nil || removed` — the
    condition `NextWait` loops on; likewise for the prev side. -/
theorem wait_chan_closed_iff (s : State) (hs : Reachable s) (i : Nat) (hi : i < s.size) :
    ((s.elems i).nextClosed = true ↔ ((s.elems i).next ≠ none ∨ (s.elems i).removed = true)) ∧
    ((s.elems i).prevClosed = true ↔ ((s.elems i).prev ≠ none ∨ (s.elems i).removed = true)) := by
  have hE := hs.inv.elem i hi
  constructor
  · rw [hE.nclosed]; unfold State.rem
    cases (s.elems i).next <;> simp
  · rw [hE.pclosed]; unfold State.rem
    cases (s.elems i).prev <;> simp

/-- the list's `waitCh` is closed (and `wg` released) exactly when the list is non-empty
    (`Front() != nil`, equivalently `Len() != 0`). -/
theorem list_wait_chan_closed_iff (s : State) (hs : Reachable s) :
    (s.closed = true ↔ s.head ≠ none) ∧ (s.head ≠ none ↔ s.len ≠ 0) := by
  have hI := hs.inv
  constructor
  · rw [hI.list.closed_eq]
    cases s.head <;> simp
  · rw [Ne, Ne, len_zero_iff hI]

/-- every wait group / channel that was ever replaced had been released before: a goroutine
    still holding an old one is never left sleeping on it. -/
theorem replaced_wait_groups_released (s : State) (hs : Reachable s) :
    (∀ b ∈ s.stale, b = true) ∧
    ∀ i, i < s.size →
      (∀ b ∈ (s.elems i).nextStale, b = true) ∧ (∀ b ∈ (s.elems i).prevStale, b = true) :=
  ⟨hs.inv.list.stale_ok, fun i hi => ⟨(hs.inv.elem i hi).nstale, (hs.inv.elem i hi).pstale⟩⟩

/-- no reachable state is dead: no `Done()` on a released wait group / double close ever left the
    list's mutexes locked, and no legal step does. -/
theorem never_deadlocked (s : State) (hs : Reachable s) :
    s.poisoned = false ∧ ∀ op, Legal s op → (stepR s op).2 ≠ .panicWg :=
  ⟨hs.inv.alive, fun op hop => stepR_no_panicWg hs.inv op hop⟩

/-! ### the list is exactly the remaining elements, in insertion order -/

/-- `Front()` is the first remaining element in insertion order (nil iff none remains), `Back()`
    the last one, `Len()` their number. -/
theorem front_back_len_exact (s : State) (hs : Reachable s) :
    (∀ h, s.head = some h ↔ (h < s.size ∧ s.rem h = false ∧ ∀ j, j < h → s.rem j = true)) ∧
    (s.head = none ↔ ∀ j, j < s.size → s.rem j = true) ∧
    (∀ t, s.tail = some t ↔ (t < s.size ∧ s.rem t = false ∧ GapRem s t s.size)) ∧
    s.len = (liveCount s : Int) :=
  ⟨head_some_iff hs.inv, head_none_iff hs.inv, tail_some_iff hs.inv, hs.inv.list.len_eq⟩

/-- for an element that is in the list, `Next()` is exactly the next remaining element in
    insertion order — in particular never a removed one — and nil iff every later element has
    been removed; `Prev()` symmetrically. -/
theorem next_prev_exact (s : State) (hs : Reachable s) (i : Nat) (hi : i < s.size)
    (hlive : s.rem i = false) :
    (∀ n, (s.elems i).next = some n ↔ (i < n ∧ n < s.size ∧ s.rem n = false ∧ GapRem s i n)) ∧
    ((s.elems i).next = none ↔ GapRem s i s.size) ∧
    (∀ p, (s.elems i).prev = some p ↔ (p < i ∧ s.rem p = false ∧ GapRem s p i)) ∧
    ((s.elems i).prev = none ↔ ∀ j, j < i → s.rem j = true) :=
  ⟨next_some_iff hs.inv hi hlive, next_none_iff hs.inv hi hlive, prev_some_iff hs.inv hi hlive,
    prev_none_iff hs.inv hi hlive⟩

/-- a removed element keeps pointing forward: its `Next()` is a later element and everything in
    between has been removed (so a traverser standing on a removed element still moves on in
    insertion order without skipping a remaining element). -/
theorem removed_cursor_moves_forward (s : State) (hs : Reachable s) (i n : Nat)
    (hi : i < s.size) (hn : (s.elems i).next = some n) : i < n ∧ n < s.size ∧ GapRem s i n := by
  obtain ⟨a, b, c, _⟩ := (hs.inv.elem i hi).next_some n hn
  exact ⟨a, b, c⟩

/-! ### linearizable: the atomic steps refine a sequential list

`remaining s` — the ids created and not removed, in insertion order — is the abstract state.
Every method body is one atomic step of the model, so every concurrent history of the model
IS a sequential history; what is proved here is that this sequential history is one of the
specification "list of remaining elements": pushes append, removals delete, nothing else
changes it, and every observation is the observation of the abstract list. -/

theorem linearizable_steps (s : State) (hs : Reachable s) :
    ((stepR s .push).2 = .pushed s.size ∧ remaining (step s .push) = remaining s ++ [s.size]) ∧
    (∀ e, e ∈ remaining s →
      (stepR s (.remove e)).2 = .ok ∧
      remaining (step s (.remove e)) = (remaining s).filter (fun j => j != e)) ∧
    (∀ op, op ≠ .push → (∀ e, op ≠ .remove e) → remaining (step s op) = remaining s) := by
  refine ⟨remaining_push hs.inv, fun e he => ?_, fun op h1 h2 => remaining_other s op h1 h2⟩
  unfold remaining at he
  rw [List.mem_filter, List.mem_range] at he
  exact remaining_remove hs.inv he.1 (by simpa using he.2)

theorem linearizable_observations (s : State) (hs : Reachable s) :
    s.head = (remaining s).head? ∧ s.tail = (remaining s).getLast? ∧
    s.len = ((remaining s).length : Int) ∧
    ∀ i, i ∈ remaining s →
      (s.elems i).next = ((remaining s).filter (fun j => decide (i < j))).head? := by
  refine ⟨head_eq_remaining hs.inv, tail_eq_remaining hs.inv, len_eq_remaining hs.inv, fun i hi => ?_⟩
  unfold remaining at hi
  rw [List.mem_filter, List.mem_range] at hi
  exact next_eq_remaining hs.inv hi.1 (by simpa using hi.2)

/-! ### traversals -/

/-- Every traversal (the elements handed to a goroutine by FrontWait and then NextWait/Next, in
    any interleaving with pushes, removals and other traversers) visits elements in strictly
    increasing insertion order (no repeats), and skips nothing that remains: every element
    older than a visited one was either visited or has been removed.  The cursor is the newest
    visited element. -/
theorem traversal_in_order_no_skip_no_repeat (s : State) (hs : Reachable s) (t : Nat) :
    (s.travs t).log.Pairwise (· < ·) ∧
    (∀ x ∈ (s.travs t).log, x < s.size) ∧
    (∀ x ∈ (s.travs t).log, ∀ j, j < x → j ∈ (s.travs t).log ∨ s.rem j = true) ∧
    (∀ e, ((s.travs t).st = .at e ∨ ∃ w, (s.travs t).st = .wantNext e w) →
      e ∈ (s.travs t).log ∧ ∀ x ∈ (s.travs t).log, x ≤ e) := by
  have hT := hs.inv.trav t
  refine ⟨hT.sorted, hT.bound, hT.cover, ?_⟩
  rintro e (h | ⟨w, h⟩)
  · exact hT.st_at e h
  · exact ⟨(hT.st_wn e w h).1, (hT.st_wn e w h).2.1⟩

/-- FULL clause "removed elements are never returned as next elements", as stated: whatever
    element the traverser stands on, the element NextWait hands out has not been removed.
    FALSE on the unchanged code, see `next_never_removed_counterexample`. -/
def next_never_removed_statement : Prop :=
  ∀ s, Reachable s → ∀ t e n,
    (s.travs t).st = .wantNext e none → ((tstep s t).travs t).st = .at n → s.rem n = false

/-- PARTIAL (guard: the cursor `e` is still in the list at the moment of the read): the element
    handed out by NextWait — in the very state in which it is handed out, i.e. after every
    removal step that happened before — has not been removed; the same for `Next()` and for the
    element handed out by FrontWait.  Missing for the full statement: a cursor that has itself
    been removed (it keeps the successor it had when it was removed). -/
theorem next_never_removed_partial (s : State) (hs : Reachable s) (t : Nat) :
    (∀ e n, (s.travs t).st = .wantNext e none → s.rem e = false →
      ((tstep s t).travs t).st = .at n → s.rem n = false) ∧
    (∀ e n, (s.travs t).st = .at e → s.rem e = false →
      (stepR s (.tnextNow t)).2 = .next (some n) → s.rem n = false) ∧
    (∀ h, (s.travs t).st = .wantFront none → ((tstep s t).travs t).st = .at h → s.rem h = false) :=
  ⟨fun _ _ a b c => handed_next_live hs.inv a b c, fun _ _ a b c => handed_now_live hs.inv a b c,
   fun _ a b => handed_front_live hs.inv a b⟩

/-- the witness (corpus/C49/01-stale-next.ops): push 0,1,2; a traverser walks to 1; Remove(1);
    Remove(2); its NextWait on 1 hands out 2, which was removed before the call. -/
def staleNextRun : List Op :=
  [.push, .push, .push, .tfront 0, .tstep 0, .tnext 0, .tstep 0, .remove 1, .remove 2, .tnext 0]

theorem next_never_removed_counterexample : ¬ next_never_removed_statement := by
  intro h
  have := h (run init staleNextRun) ⟨staleNextRun, by decide, rfl⟩ 0 1 2 (by decide) (by decide)
  revert this; decide

/-- NextWait returns nil only on a removed cursor without successor (`May return nil iff
    CElement was tail and got removed`). -/
theorem nil_only_from_removed (s : State) (t e : Nat) (hst : (s.travs t).st = .wantNext e none)
    (h : ((tstep s t).travs t).st = .fin) : (s.elems e).next = none ∧ s.rem e = true :=
  tstep_wantNext_fin hst h

/-! ### no lost wake-up -/

/-- A goroutine that read `next == nil && !removed`, captured the wait group and is about to
    call (or is blocked in) `Wait()` — with arbitrarily many steps of other goroutines in
    between — is released as soon as `next != nil || removed` holds: the wait group it holds
    (whether still the current one or a replaced one) has been released.  So it is blocked only
    while there is nothing to return.  Same for FrontWait and `Front() != nil`. -/
theorem no_lost_wakeup (s : State) (hs : Reachable s) (t : Nat) :
    (∀ e g, (s.travs t).st = .wantNext e (some g) →
      ((s.elems e).next ≠ none ∨ s.rem e = true) →
      released (s.elems e).nextStale (s.elems e).nextClosed g = true) ∧
    (∀ g, (s.travs t).st = .wantFront (some g) → s.head ≠ none →
      released s.stale s.closed g = true) :=
  ⟨fun _ _ a b => no_lost_wakeup_next hs.inv a b, fun _ a b => no_lost_wakeup_front hs.inv a b⟩

/-- … and once released it gets its element: two more steps of that goroutine (Wait() returns,
    read again) hand out `next` (nil for a removed tail), resp. the head, if no other step
    intervenes. -/
theorem wakeup_progress (s : State) (hs : Reachable s) (t : Nat) :
    (∀ e g, (s.travs t).st = .wantNext e (some g) →
      ((s.elems e).next ≠ none ∨ s.rem e = true) →
      ((tstep (tstep s t) t).travs t).st =
        (match (s.elems e).next with | some n => .at n | none => .fin)) ∧
    (∀ g h, (s.travs t).st = .wantFront (some g) → s.head = some h →
      ((tstep (tstep s t) t).travs t).st = .at h) :=
  ⟨fun _ _ a b => wakeup_progress_next hs.inv a b, fun _ _ a b => wakeup_progress_front hs.inv a b⟩

/-! ### the precondition of Remove is needed and not enforced -/

/-- corpus/C49/02-double-remove-relink.ops: the second `Remove(1)` passes all three guards
    (`Res.ok`), after which the live element 0 has the removed element 2 as its next,
    `Len() = 0` although 0 is still in the list and `WaitChan` is open although `Front() != nil`;
    corpus/C49/03-double-remove-poison.ops: after `DetachNext` of the remembered predecessor the
    second `Remove` panics inside `SetNext` with the mutexes held. -/
theorem remove_once_guard_needed_counterexample :
    let ops : List Op := [.push, .push, .push, .remove 1, .remove 2]
    let s := run init ops
    ¬ Legal s (.remove 1) ∧ (stepR s (.remove 1)).2 = .ok ∧
    (step s (.remove 1)).rem 0 = false ∧ ((step s (.remove 1)).elems 0).next = some 2 ∧
    (step s (.remove 1)).rem 2 = true ∧ (step s (.remove 1)).len = 0 ∧
    (step s (.remove 1)).head = some 0 ∧ (step s (.remove 1)).closed = false ∧
    (stepR (run init [.push, .push, .push, .remove 1, .remove 0, .detachNext 0]) (.remove 1)).2
      = .panicWg := by
  decide

/-! ### non-vacuity: legal runs exercising every hypothesis -/

section examples

/-- a legal schedule with a traverser that waits on the tail, is woken by a push, and a second
    one woken by the removal of its cursor. -/
def demo : List Op :=
  [.tfront 0, .tstep 0, .push, .tstep 0, .tstep 0,      -- FrontWait blocks, push releases it
   .tnext 0, .tstep 0, .tstep 0,                        -- NextWait on the tail 0: reads, blocks
   .tfront 1, .tstep 1, .tnext 1, .tstep 1,
   .push]                                                -- push 1 releases both

example : LegalRun init demo := by decide
example : ((run init demo).travs 0).st = .wantNext 0 (some 0) := by decide
example : ((run init demo).elems 0).next = some 1 := by decide
example : released ((run init demo).elems 0).nextStale ((run init demo).elems 0).nextClosed 0 = true := by
  decide
example : ((tstep (tstep (run init demo) 0) 0).travs 0) = { st := .at 1, log := [0, 1] } := by decide
/-- blocked while there is nothing to return: before the last push the wait group is armed. -/
example : let s := run init (demo.take 12)
    (s.travs 0).st = .wantNext 0 (some 0) ∧
    released (s.elems 0).nextStale (s.elems 0).nextClosed 0 = false := by decide
/-- a waiter holding a REPLACED wait group: push 1 released group 0 of element 0, Remove(1)
    re-armed a fresh group 1; the waiter (still holding 0) wakes, reads `next == nil` again and
    now waits on group 1. -/
example : let s := run init (demo ++ [.remove 1])
    (s.travs 0).st = .wantNext 0 (some 0) ∧ (s.elems 0).next = none ∧
    (s.elems 0).nextStale = [true] ∧ (s.elems 0).nextClosed = false ∧
    ((tstep (tstep (tstep s 0) 0) 0).travs 0).st = .wantNext 0 (some 1) := by decide
example : LegalRun init (demo ++ [.remove 1]) := by decide
/-- a traversal that skips exactly the removed element. -/
example : ((run init [.push, .push, .push, .remove 1, .tfront 0, .tstep 0, .tnext 0, .tstep 0]).travs 0)
    = { st := .at 2, log := [0, 2] } := by decide
example : LegalRun init staleNextRun := by decide
/-- hypotheses of `next_never_removed_partial`: a live cursor is handed its live successor by
    NextWait, by Next(), and FrontWait hands out the head. -/
example : let s := run init [.push, .push, .tfront 0, .tstep 0, .tnext 0]
    (s.travs 0).st = .wantNext 0 none ∧ s.rem 0 = false ∧ ((tstep s 0).travs 0).st = .at 1 := by decide
example : let s := run init [.push, .push, .tfront 0, .tstep 0]
    (s.travs 0).st = .at 0 ∧ s.rem 0 = false ∧ (stepR s (.tnextNow 0)).2 = .next (some 1) := by decide
example : let s := run init [.push, .tfront 0]
    (s.travs 0).st = .wantFront none ∧ ((tstep s 0).travs 0).st = .at 0 := by decide
/-- hypotheses of `nil_only_from_removed`: the cursor was the tail and got removed. -/
example : let s := run init [.push, .tfront 0, .tstep 0, .tnext 0, .remove 0]
    (s.travs 0).st = .wantNext 0 none ∧ ((tstep s 0).travs 0).st = .fin := by decide
/-- hypotheses of the FrontWait halves of `no_lost_wakeup` / `wakeup_progress`. -/
example : let s := run init [.tfront 0, .tstep 0, .push]
    (s.travs 0).st = .wantFront (some 0) ∧ s.head = some 0 ∧ released s.stale s.closed 0 = true ∧
    ((tstep (tstep s 0) 0).travs 0).st = .at 0 := by decide
/-- … and a FrontWait caller holding a REPLACED list wait group (list emptied and refilled). -/
example : let s := run init [.tfront 0, .tstep 0, .push, .remove 0, .push]
    (s.travs 0).st = .wantFront (some 0) ∧ s.stale = [true] ∧ s.head = some 1 ∧
    ((tstep (tstep s 0) 0).travs 0).st = .at 1 := by decide
/-- hypothesis of `removed_cursor_moves_forward` on a removed element. -/
example : let s := run init [.push, .push, .push, .remove 1, .remove 2]
    s.rem 1 = true ∧ (s.elems 1).next = some 2 ∧ s.rem 2 = true := by decide
example : remaining (run init [.push, .push, .push, .remove 1, .push]) = [0, 2, 3] := by decide
example : ((run init staleNextRun).travs 0).st = .wantNext 1 none ∧ (run init staleNextRun).rem 1 = true := by
  decide
end examples

end GnoVerif.C49
