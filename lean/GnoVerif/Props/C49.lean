import GnoVerif.Model.C49
namespace GnoVerif.C49
end GnoVerif.C49
