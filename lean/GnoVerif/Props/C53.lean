import GnoVerif.Proofs.C53
/-!
C53 — genesis application is deterministic and representation-independent.

What Lean carries here is small, and that is all it can carry: the two genesis paths of
gno.land (`applyInMemoryAppState`, `applyStreamingAppState`) are folds of the same
per-element steps over the same two sequences; the streaming path receives the elements
through a JSONL file read in buffer-sized pieces.  The theorems say

* the JSONL framing returns exactly the elements written (`jsonl_roundtrip`, also without
  the final newline), and a fold over any chunking of a sequence is the fold over the
  sequence (`fold_chunks`) — for ANY step function, hence for the real
  `applyBalance` / `deliverGenesisTx`, whatever the VM does inside them;
* on the bookkeeping model (Model/C53.lean) the outcome of the streaming path does not depend
  on the chunking (`stream_outcome_chunking_independent`), and equals the in-memory
  outcome under the guard `Agree` (`mode_independent_partial`);
* the guard is needed: four kernel-checked witnesses on which the two paths of the CODE
  AS IT IS differ (`…_counterexample`), the same witnesses the harness replays on the
  real application (corpus/C53, known_findings/C53.json).

"Same app hash and same transaction results on every run" is NOT a theorem: the model has
no store, no VM and no hash.  It is checked implementation against implementation by the
harness (five initialisations of the real application per generated genesis).
Model-level determinism is by construction (`outcomeMem`, `outcomeStream` are functions).
-/
namespace GnoVerif.C53

/-- Folding a step over the concatenation of chunks = folding it chunk by chunk.
    (`step`, the state and the elements are arbitrary.) -/
theorem fold_chunks {σ α : Type} (step : σ → α → σ) (s : σ) (chunks : List (List α)) :
    chunks.flatten.foldl step s = chunks.foldl (fun s c => c.foldl step s) s :=
  foldl_flatten step s chunks

/-- `streamArrayToJSONL` then `iterJSONL`: the reader yields exactly the elements written,
    provided no element contains a newline byte (json.Compact output never does). -/
theorem jsonl_roundtrip (ls : List Bytes) (h : ∀ l ∈ ls, nl ∉ l) :
    readLines (writeLines ls) = ls := by
  have := readLines_writeLines_append ls [] h
  simpa [readLines, readLinesAux] using this

/-- The reader tolerates a missing newline after the last element. -/
theorem jsonl_roundtrip_no_final_newline (ls : List Bytes) (last : Bytes)
    (h : ∀ l ∈ ls, nl ∉ l) (hl : nl ∉ last) (hne : last ≠ []) :
    readLines (writeLines ls ++ last) = ls ++ [last] := by
  unfold readLines
  rw [readLines_writeLines_append ls last h, readLinesAux_last last [] hl]
  cases last with
  | nil => exact absurd rfl hne
  | cons b bs => simp

/-- The data path of the streaming loader end to end: encode every element on its own line,
    read the lines back, decode each, apply the step — for ANY codec whose decoder inverts its
    encoder and whose encoding contains no newline, and ANY step: the result is the fold over
    the original sequence. -/
theorem streamed_elements_fold {σ α : Type} (enc : α → Bytes) (dec : Bytes → Option α)
    (hdec : ∀ x, dec (enc x) = some x) (hnl : ∀ x, nl ∉ enc x)
    (step : σ → α → σ) (s : σ) (xs : List α) :
    ((readLines (writeLines (xs.map enc))).filterMap dec).foldl step s = xs.foldl step s := by
  rw [jsonl_roundtrip (xs.map enc) (by
    intro l hl
    obtain ⟨x, _, rfl⟩ := List.mem_map.1 hl
    exact hnl x)]
  have : (xs.map enc).filterMap dec = xs := by
    induction xs with
    | nil => rfl
    | cons x xs ih => simp [hdec, ih]
  rw [this]

/-- The balance phase numbers the accounts in list order (also when an address repeats:
    the later entry shadows the earlier one, whose number stays unused). -/
theorem balances_numbered_in_order (bs : List Bal) :
    (applyBalances {} bs).accts =
      ((bs.zipIdx 0).map fun p => (p.1.addr, (⟨p.2, 0, p.1.coins⟩ : Acct))).reverse ∧
    (applyBalances {} bs).next = bs.length := by
  have := applyBalances_closed {} bs
  simpa using And.intro this.1 this.2.1

/-- A streamed genesis: the two bulk arrays arrive in some grouping. -/
def Streams (g : Genesis) (s : Streamed) : Prop :=
  s.balChunks.flatten = g.balances ∧ s.txChunks.flatten = g.txs

/-- The streaming outcome is the same for every grouping of the elements. -/
theorem stream_outcome_chunking_independent (g : Genesis) (s : Streamed) (h : Streams g s) :
    outcomeStream g s = outcomeStream g (Streamed.whole g) := by
  have hb : s.balChunks.foldl (fun st c => c.foldl applyBalance st) {} = g.balances.foldl applyBalance {} := by
    rw [← fold_chunks, h.1]
  have ht : ∀ st, s.txChunks.foldl (fun st c => c.foldl deliverTx st) st = g.txs.foldl deliverTx st := by
    intro st; rw [← fold_chunks, h.2]
  simp only [outcomeStream, Streamed.whole, hb, ht, List.foldl_cons, List.foldl_nil]

example : Streams { balances := [⟨0, []⟩, ⟨1, [(.atom, 1)]⟩, ⟨2, []⟩], txs := [{ kind := .add 0 }, { kind := .inc 0 }] }
    ⟨[[⟨0, []⟩], [], [⟨1, [(.atom, 1)]⟩, ⟨2, []⟩]], [[], [{ kind := .add 0 }], [{ kind := .inc 0 }]]⟩ := by
  constructor <;> rfl

/-- Model-level determinism of the streaming path across runs (different buffer refills). -/
theorem stream_outcome_deterministic (g : Genesis) (s₁ s₂ : Streamed)
    (h₁ : Streams g s₁) (h₂ : Streams g s₂) : outcomeStream g s₁ = outcomeStream g s₂ := by
  rw [stream_outcome_chunking_independent g s₁ h₁, stream_outcome_chunking_independent g s₂ h₂]

/-- the state both paths reach when nothing stops them -/
def finalState (g : Genesis) : St := deliverAll (applyBalances {} g.balances) g.txs

/-- The full statement at model level (it is FALSE for the code as it is, see below). -/
def mode_independent_statement : Prop :=
  ∀ (g : Genesis) (s : Streamed), Streams g s → outcomeMem g = outcomeStream g s

/-- The guard under which the two paths of the code as it is agree. -/
structure Agree (g : Genesis) : Prop where
  height_unset : g.topIH ≤ 1                            -- the streaming loader drops initial_height
  app_height : g.appIH = 0 ∨ g.appIH = g.topIH          -- only the in-memory path compares them
  signer_info : signerInfoOK g = true                    -- only the in-memory path validates SignerInfo
  no_assert : valoperFires g (finalState g) = false     -- only the in-memory path can run the assertion
  bank : g.omitBank = false                              -- only the streaming path insists on the keys
  auth : g.omitAuth = false

theorem mode_independent_partial (g : Genesis) (s : Streamed) (hs : Streams g s) (h : Agree g) :
    outcomeMem g = outcomeStream g s := by
  rw [stream_outcome_chunking_independent g s hs]
  obtain ⟨h1, h2, h3, h4, h5, h6⟩ := h
  have hv : firstVersion g.topIH = firstVersion 0 := by
    unfold firstVersion
    have : ¬ g.topIH > 1 := by omega
    simp [this]
  have ha : ¬ (g.appIH ≠ 0 ∧ g.appIH ≠ g.topIH) := by omega
  have h4' : valoperFires g (List.foldl deliverTx (List.foldl applyBalance {} g.balances) g.txs) = false := h4
  simp only [outcomeMem, outcomeStream, Streamed.whole, ha, h3, h5, h6, hv, if_false, Bool.false_eq_true,
    not_true_eq_false, List.foldl_cons, List.foldl_nil, deliverAll, applyBalances]
  by_cases hg : g.grm = .bogus <;> simp [hg, h4']

example : Agree { balances := [⟨0, [(.ugnot, 5)]⟩, ⟨1, [(.atom, 2)]⟩, ⟨1, []⟩],
                  txs := [{ kind := .add 0 }, { kind := .inc 0, hasMeta := true, height := 7, sinfo := [⟨2, 3, 1⟩] },
                          { kind := .v3ok }],
                  pastChains := 1, topIH := 1, appIH := 1 } := by
  constructor <;> decide

/-! ### The four recorded differences (witnesses = corpus/C53/*.ops) -/

/-- past_chain_ids + a validator + a validators/v3 realm whose assertion panics -/
def wValoper : Genesis :=
  { pastChains := 1, balances := [⟨0, [(.ugnot, 2 ^ 50)]⟩], txs := [{ kind := .add 0 }, { kind := .v3bad }] }

/-- balances F, a0, a1 (numbers 0,1,2); signer info gives number 2 to a2 -/
def wSigner : Genesis :=
  { balances := [⟨0, [(.ugnot, 2 ^ 50)]⟩, ⟨1, [(.atom, 5)]⟩, ⟨2, [(.ugnot, 7)]⟩],
    txs := [{ kind := .add 0 }, { kind := .inc 0, hasMeta := true, height := 7, sinfo := [⟨3, 2, 3⟩] }] }

def wAppHeight : Genesis :=
  { topIH := 100, appIH := 200, balances := [⟨0, [(.ugnot, 2 ^ 50)]⟩], txs := [{ kind := .add 0 }] }

def wHeight : Genesis :=
  { topIH := 100, appIH := 100, balances := [⟨0, [(.ugnot, 2 ^ 50)]⟩], txs := [{ kind := .add 0 }] }

theorem streams_whole (g : Genesis) : Streams g (Streamed.whole g) := by
  simp [Streams, Streamed.whole]

/-- In memory the node refuses to boot (panic), streamed it boots. -/
theorem valoper_assert_skipped_counterexample :
    outcomeMem wValoper = .panic .valoper ∧
    (∃ st, outcomeStream wValoper (Streamed.whole wValoper) = .ok 1 st) ∧
    ¬ mode_independent_statement := by
  refine ⟨by decide, ⟨finalState wValoper, by decide⟩, fun h => ?_⟩
  have := h wValoper _ (streams_whole _)
  revert this; decide

/-- In memory the genesis is refused, streamed two accounts end up with number 2. -/
theorem signer_info_check_skipped_counterexample :
    outcomeMem wSigner = .refuse .signerInfo ∧
    (∃ st, outcomeStream wSigner (Streamed.whole wSigner) = .ok 1 st ∧
      (st.lookup 2).map (·.num) = some 2 ∧ (st.lookup 3).map (·.num) = some 2) ∧
    ¬ mode_independent_statement := by
  refine ⟨by decide, ⟨finalState wSigner, by decide, by decide, by decide⟩, fun h => ?_⟩
  have := h wSigner _ (streams_whole _)
  revert this; decide

theorem initial_height_check_skipped_counterexample :
    outcomeMem wAppHeight = .refuse .initialHeight ∧
    (∃ st, outcomeStream wAppHeight (Streamed.whole wAppHeight) = .ok 1 st) ∧
    ¬ mode_independent_statement := by
  refine ⟨by decide, ⟨finalState wAppHeight, by decide⟩, fun h => ?_⟩
  have := h wAppHeight _ (streams_whole _)
  revert this; decide

/-- Same state, but the first commit lands at version 100 in memory and 1 when streamed. -/
theorem initial_height_ignored_counterexample :
    (∃ st, outcomeMem wHeight = .ok 100 st ∧ outcomeStream wHeight (Streamed.whole wHeight) = .ok 1 st) ∧
    ¬ mode_independent_statement := by
  refine ⟨⟨finalState wHeight, by decide, by decide⟩, fun h => ?_⟩
  have := h wHeight _ (streams_whole _)
  revert this; decide

end GnoVerif.C53
