import GnoVerif.Proofs.C53
namespace GnoVerif.C53
end GnoVerif.C53
