import GnoVerif.Model.C08
/-! C08 — property theorems (work in progress). -/
namespace GnoVerif.C08

/-- a denomination a realm can issue starts with a slash, so it is never a native one -/
theorem issuable_is_realm_denom (p d : Str) (h : issuable p d = true) : isRealmDenom d = true := by
  unfold issuable assertCoinDenom at h
  cases d with
  | nil => simp [hasPrefix, denomPrefix, Except.isOk, Except.toBool] at h
  | cons c rest =>
    by_cases hc : c = '/'
    · subst hc; rfl
    · simp [hasPrefix, denomPrefix, hc, Except.isOk, Except.toBool] at h

end GnoVerif.C08
