import GnoVerif.Proofs.C08Main
import GnoVerif.Proofs.C08Origin
import GnoVerif.Proofs.C08Denom
import GnoVerif.Spec.C08Demo
/-!
C08 — coins leave an address only with that address's authority.

The model (Model/C08.lean) runs one message (MsgCall / MsgRun with an arbitrary script of
the interpreter realms, or a bank MsgSend) on a world and returns the new world together
with the EVENT LOG of every balance movement and the registries of the realm values
(`toks`) and bankers (`bankers`) that existed during the message.

Two reading decisions of the property statement are made explicit here (both accepted by
the property owner, both documented behaviour of /repo):

* ISSUER BURN (`Authorised`, case `.burn`): the realm that issues a denomination may remove
  it from ANY holder (`banker.RemoveCoin(addr, …)`), the holder does not sign.  This is the
  statement's last sentence ("burned by their issuing realm") and is a fourth admissible
  cause of a debit, restricted to denominations `"/"+path+":"+base` of the banker's own path.
* DELEGATED AUTHORITY (`BankerProv`): a banker is bound to the address of the realm value
  it was created from, and that value must have been the LIVE cur (or a sub token of it) at
  that moment — but the theorem does not say WHICH package's code called NewBanker or
  SendCoins.  A realm that hands its live cur to another realm's non-crossing function, or
  hands/persists a banker value, has delegated its authority; coins leaving through such a
  banker count as leaving with the address's authority.

What is NOT a theorem (see props/C08.json): that Gno code cannot fabricate realm values
or banker values (the model makes them references into append-only registries — the
language guarantee), that the interpreter reaches the bank only through these functions,
and that the model is the code (tied by differential correspondence on every run).
-/
namespace GnoVerif.C08

/-! ## the first sentence: a balance decreases only with the address's authority -/

/-- Balances change exactly as the event log of the message says: nothing moves off the
    books.  (For every chain, world, message.) -/
theorem balances_follow_log (ch : Chain) (hch : ChainOk ch) (w : World) (m : Msg) (o : Outcome)
    (h : step ch w m = .ok o) (a : Addr) (d : Str) :
    o.world.led.bal a d = w.led.bal a d + logSum o.log a d := by
  cases m with
  | call s r c md p => exact (step_call_facts ch hch w s r c md p o h).bal a d
  | run s c md p => exact (step_run_facts ch hch w s c md p o h).bal a d
  | bankSend s dst amt => exact (step_send_facts ch w s dst amt o h).bal a d

/-- Every debit in the event log of a successful message is authorised: the signer's own
    send / bank send / storage deposit; a banker bound to exactly the debited address whose
    provenance is a persisted banker or a NewBanker on the then-live cur of that address
    (or a sub token minted by the host's own code); the issuing realm's burn of its own
    denomination; a refund from a realm's deposit address whose storage delta is negative. -/
theorem debits_are_authorised (ch : Chain) (hch : ChainOk ch) (w : World) (m : Msg) (o : Outcome)
    (h : step ch w m = .ok o) (e : Ev) (he : e ∈ o.log) (hneg : e.amt < 0) :
    Authorised (ch.envFor w m.send) ch.persisted m.signer o.diffs o.toks o.bankers e := by
  cases m with
  | call s r c md p => exact (step_call_facts ch hch w s r c md p o h).auth e he hneg
  | run s c md p => exact (step_run_facts ch hch w s c md p o h).auth e he hneg
  | bankSend s dst amt => exact (step_send_facts ch w s dst amt o h).auth e he hneg

/-- THE PROPERTY (first sentence), for all chains, worlds, messages and scripts: if the
    balance of address `a` in denomination `d` is lower after a successful message than
    before, the log contains a debit of exactly (a, d) that is authorised.  (A failed
    message returns no new world at all: `step … = .error _`.) -/
theorem coins_leave_only_with_authority (ch : Chain) (hch : ChainOk ch) (w : World) (m : Msg) (o : Outcome)
    (h : step ch w m = .ok o) (a : Addr) (d : Str) (hdec : o.world.led.bal a d < w.led.bal a d) :
    ∃ e ∈ o.log, e.addr = a ∧ e.denom = d ∧ e.amt < 0 ∧
      Authorised (ch.envFor w m.send) ch.persisted m.signer o.diffs o.toks o.bankers e := by
  have hb := balances_follow_log ch hch w m o h a d
  obtain ⟨e, he, h1, h2, h3⟩ := logSum_neg_has_debit o.log a d (by omega)
  exact ⟨e, he, h1, h2, h3, debits_are_authorised ch hch w m o h e he h3⟩

-- hypotheses satisfiable and the conclusion non-trivial: a realm spends its own coins …
example : ChainOk demoChain := by
  intro bid bi h
  match bid, h with
  | 0, h => simp [demoChain] at h; rw [← h]
  | n + 1, h => simp [demoChain] at h
example : balAfter (.call 1 demoRA [] 0 [.nb 2 .c, .sd (S!"ra") (S!"u2") (u 7)]) (.pkg demoRA) = some 993 := by decide
-- … also through the code of another realm it handed its live cur to (delegation) …
example : balAfter (.call 1 demoRA [] 0 [.x .n (.realm (S!"rb")) [.nb 2 .a, .sd (S!"ra") (S!"u2") (u 9)]]) (.pkg demoRA) = some 991 := by decide
-- … and the signer pays the storage deposit (20 bytes at 100 ugnot).
example : balAfter (.call 1 demoRA [] 0 [.ps (S!"k") 10]) (.user 1) = some 3000 := by decide

/-! ## the rules themselves (decision level, any state) -/

/-- NewBanker accepts only a realm value that IS the live cur (or a sub token of it) of the
    topmost crossing frame, with a banker type 1..3; the banker it returns is bound to that
    value's address and path.  So `cur.Previous()`, a cur kept from another frame, or a cur
    received as data across a crossing call cannot be turned into a banker. -/
theorem new_banker_needs_live_cur (st st' : St) (cx : Ctx) (bt : Nat) (rlm : Option Nat) (bid : Nat)
    (h : newBanker st cx bt rlm = .ok (bid, st')) :
    ∃ t ti, rlm = some t ∧ st.toks[t]? = some ti ∧ isCurrent st cx.stack t = true ∧
      1 ≤ bt % 256 ∧ bt % 256 ≤ 3 ∧ bid = st.bankers.length ∧
      st'.bankers = st.bankers ++ [⟨bt % 256, some ti.addr, ti.path, .minted t (cx.stack.head?.getD 0)⟩] := by
  unfold newBanker at h
  simp only at h
  split at h
  · cases h
  · split at h
    · cases h
    · split at h
      · cases h
      · rename_i t
        split at h
        · cases h
        · rename_i ti hti
          split at h
          · cases h
          · rename_i hcur
            split at h
            · cases h
            · have fin : ∀ (hh : Except.ok (st.addBanker ⟨bt % 256, some ti.addr, ti.path, .minted t (cx.stack.head?.getD 0)⟩) =
                  (Except.ok (bid, st') : Except Fail (Nat × St))), _ := fun hh => by
                simp only [St.addBanker, Except.ok.injEq, Prod.mk.injEq] at hh
                exact (⟨t, ti, rfl, by simpa [St.tok] using hti, by simpa using hcur, by omega, by omega, hh.1.symm, by rw [← hh.2]⟩ :
                  ∃ t' ti', some t = some t' ∧ st.toks[t']? = some ti' ∧ isCurrent st cx.stack t' = true ∧
                    1 ≤ bt % 256 ∧ bt % 256 ≤ 3 ∧ bid = st.bankers.length ∧
                    st'.bankers = st.bankers ++ [⟨bt % 256, some ti'.addr, ti'.path, .minted t' (cx.stack.head?.getD 0)⟩])
              split at h
              · split at h
                · cases h
                · split at h
                  · exact fin h
                  · cases h
              · exact fin h

example : failure (.call 1 demoRA [] 0 [.nb 2 .p, .sd (S!"u1") (S!"u2") (u 7)]) = some .notCurrent := by decide
example : failure (.call 1 demoRA [] 0 [.x .ca (.realm (S!"rb")) [.nb 2 .a, .sd (S!"ra") (S!"u2") (u 9)]]) = some .notCurrent := by decide
example : failure (.call 1 demoRA [] 0 [.x (.k [.nb 2 .c]) (.realm (S!"rb")) [.cb]]) = some .notCurrent := by decide

/-- SendCoins through a banker succeeds only if the banker is not the readonly one and its
    bound address is exactly the `from` address. -/
theorem banker_sends_only_from_own_address (env : Env) (st st' : St) (b : Option Nat) (src dst : Str) (amt : Coins)
    (h : bankerSend env st b src dst amt = .ok st') :
    ∃ bid bi a, b = some bid ∧ st.bankers[bid]? = some bi ∧ bi.bt ≠ 0 ∧ env.resolve src = some a ∧ bi.addr = some a := by
  unfold bankerSend at h
  split at h
  · cases h
  · rename_i bid
    split at h
    · cases h
    · rename_i bi hbi
      split at h
      · cases h
      · split at h
        · cases h
        · rename_i hbt hfrom
          obtain ⟨spent', _, h2⟩ := bind_ok h
          split at h2
          · rename_i s d hs hd
            simp only [Bool.or_eq_true, Option.isNone_iff_eq_none, bne_iff_ne, ne_eq, not_or, Decidable.not_not] at hfrom
            exact ⟨bid, bi, s, rfl, by simpa [St.tok, St.banker] using hbi, by simpa using hbt, hs, by rw [hfrom.2, hs]⟩
          · cases h2

example : failure (.call 1 demoRA [] 0 [.nb 2 .c, .sd (S!"u1") (S!"u2") (u 7)]) = some .foreignFrom := by decide

/-- IssueCoin / RemoveCoin succeed only through a RealmIssue banker and only for a
    denomination carrying that banker's own prefix `"/"+path+":"` and a valid base name. -/
theorem issue_only_own_denominations (env : Env) (st st' : St) (b : Option Nat) (burn : Bool) (addr denom : Str) (amt : Int)
    (h : bankerIssue env st b burn addr denom amt = .ok st') :
    ∃ bid bi, b = some bid ∧ st.bankers[bid]? = some bi ∧ bi.bt = 3 ∧ issuable bi.path denom = true := by
  unfold bankerIssue at h
  split at h
  · cases h
  · rename_i bid
    split at h
    · cases h
    · rename_i bi hbi
      split at h
      · cases h
      · rename_i hbt
        split at h
        · cases h
        · cases h
        · rename_i hden
          exact ⟨bid, bi, rfl, by simpa [St.banker] using hbi, by simpa using hbt,
            by simp [issuable, hden, Except.isOk, Except.toBool]⟩

example : failure (.call 1 demoRA [] 0 [.nb 3 .c, .is (S!"u2") (S!"/r/b:foo") 5]) = some .denomPrefix := by decide
example : failure (.call 1 demoRA [] 0 [.nb 2 .c, .is (S!"u2") (S!"/r/a:foo") 5]) = some .notIssuer := by decide

/-! ## the last sentence: realm denominations -/

/-- a denomination a realm can issue starts with a slash … -/
theorem issuable_is_realm_denom (p d : Str) (h : issuable p d = true) : isRealmDenom d = true := by
  obtain ⟨base, hd, _⟩ := issuable_shape p d h
  rw [hd]; rfl

/-- … so a native denomination (no leading slash: the gas denom, IBC vouchers, …) can be
    issued or removed by no realm. -/
theorem native_denom_not_issuable (p d : Str) (h : isRealmDenom d = false) : issuable p d = false := by
  cases hi : issuable p d with
  | false => rfl
  | true => rw [issuable_is_realm_denom p d hi] at h; cases h

/-- Denomination namespaces of distinct realms are disjoint: a denomination is issuable by
    at most one package path.  (No assumption on the paths: the base name has no colon, so
    the LAST colon of the denomination separates path and base.) -/
theorem issuable_injective (p q d : Str) (hp : issuable p d = true) (hq : issuable q d = true) : p = q := by
  obtain ⟨bp, h1, v1⟩ := issuable_shape p d hp
  obtain ⟨bq, h2, v2⟩ := issuable_shape q d hq
  rw [h1] at h2
  simp only [List.cons.injEq, true_and] at h2
  exact append_colon_inj p q bp bq (validBase_no_colon bp v1) (validBase_no_colon bq v2) h2

example : issuable (S!"gno.land/r/a") (S!"/gno.land/r/a:foo") = true := by decide
example : issuable (S!"gno.land/r/a") (S!"/gno.land/r/a:b:foo") = false := by decide
example : issuable (S!"gno.land/r/a:b") (S!"/gno.land/r/a:b:foo") = true := by decide
example : issuable (S!"gno.land/r/a") (S!"ugnot") = false := by decide

/-- A supply changes in a successful message only for a denomination issuable by the path of
    a RealmIssue banker of the registry, whose provenance is lawful (persisted, or created
    on the then-live cur of that path). -/
theorem supply_changes_only_by_issuer (ch : Chain) (hch : ChainOk ch) (w : World) (m : Msg) (o : Outcome)
    (h : step ch w m = .ok o) (d : Str) (hd : o.world.led.supply d ≠ w.led.supply d) :
    ∃ (bid : Nat) (bi : BankerInfo), o.bankers[bid]? = some bi ∧ bi.bt = 3 ∧ issuable bi.path d = true ∧
      BankerProv (ch.envFor w m.send) ch.persisted o.toks bid bi := by
  cases m with
  | call s r c md p => exact (step_call_facts ch hch w s r c md p o h).supply d hd
  | run s c md p => exact (step_run_facts ch hch w s c md p o h).supply d hd
  | bankSend s dst amt => exact (step_send_facts ch w s dst amt o h).supply d hd

/-- NewBanker refuses OriginSend and RealmIssue for a sub-realm value ("host#sub"), so a
    RealmIssue banker created in a message never carries a '#' path: the issuable
    denominations are those of real package paths. -/
theorem sub_realm_cannot_issue (st st' : St) (cx : Ctx) (bt : Nat) (rlm : Option Nat) (bid : Nat)
    (h : newBanker st cx bt rlm = .ok (bid, st')) (hbt : bt % 256 ≠ 2) :
    ∃ t ti, rlm = some t ∧ st.toks[t]? = some ti ∧ hasHash ti.path = false := by
  unfold newBanker at h
  simp only at h
  split at h
  · cases h
  · split at h
    · cases h
    · split at h
      · cases h
      · rename_i t
        split at h
        · cases h
        · rename_i ti hti
          split at h
          · cases h
          · split at h
            · cases h
            · rename_i hsub
              simp only [Bool.and_eq_true, bne_iff_ne, ne_eq, not_and, Bool.not_eq_true] at hsub
              exact ⟨t, ti, rfl, by simpa [St.tok] using hti, hsub hbt⟩

example : failure (.call 1 demoRA [] 0 [.nb 3 (.s (S!"x"))]) = some .subBt := by decide
example : balAfter (.call 1 demoRA [] 0 [.nb 2 .c, .sd (S!"ra") (S!"u2") (u 7)]) (.pkg demoRA) = some 993 := by decide

/-! ## the second sentence: origin send -/

/-- THE SECOND SENTENCE, for all chains, worlds, messages and scripts: per denomination, what
    SendCoins of OriginSend bankers (type 1, created in this message or persisted earlier, used
    by whichever realm holds them) debits in a successful message is at most what the message
    sent along.  `originDebits` sums the debits of the event log whose cause is a banker of type
    1 (Proofs/C08Origin.lean); the proof identifies that sum with the running total `spent`
    (`Coins.Add` is the pointwise sum, Proofs/C08Sum.lean) which `OriginSend.IsAllGTE` bounds. -/
theorem origin_send_budget (ch : Chain) (w : World) (m : Msg) (o : Outcome) (h : step ch w m = .ok o) (d : Str) :
    originDebits o.bankers o.log d ≤ amountOf m.send d :=
  step_origin_budget ch w m o h d

/-- The rule itself (decision level): a send through an OriginSend banker succeeds only if
    `spent' = Coins.Add(spent, amt)` is a valid set that the coins sent along cover
    (`OriginSend.IsAllGTE(spent')`), and `spent'` becomes the new running total; bankers of
    other types never touch the total. -/
theorem origin_check_rule (osend spent : Coins) (bt : Nat) (amt spent' : Coins)
    (h : originCheck osend spent bt amt = .ok spent') :
    (bt = 1 → coinsAdd spent amt = some spent' ∧ isAllGTE osend spent' = true) ∧ (bt ≠ 1 → spent' = spent) := by
  unfold originCheck at h
  split at h
  · rename_i hb
    split at h
    · cases h
    · rename_i s hs
      split at h
      · rename_i hg
        cases h
        exact ⟨fun _ => ⟨hs, hg⟩, fun hne => absurd hb hne⟩
      · cases h
  · rename_i hb
    cases h
    exact ⟨fun h1 => absurd h1 hb, fun _ => rfl⟩

/-- along any script the origin-send running total is either untouched or within the budget -/
theorem spent_stays_within_budget (env : Env) (f : Nat) (cx : Ctx) (b : Option Nat) (prog : List Ins) (st st' : St)
    (h : exec env f cx b prog st = .ok st') (h0 : st.spent = [] ∨ isAllGTE env.osend st.spent = true) :
    st'.spent = [] ∨ isAllGTE env.osend st'.spent = true := by
  refine steps_inv (fun s => s.spent = [] ∨ isAllGTE env.osend s.spent = true) ?_ (exec_steps env f cx b prog st st' h) h0
  intro x y hat hi
  cases hat with
  | tok _ _ => exact hi
  | banker _ _ => exact hi
  | move _ _ _ _ _ _ => exact hi
  | supply _ _ _ => exact hi
  | spent s hs _ =>
    rcases hs with h1 | h1
    · simp only [h1]; exact hi
    · exact Or.inr h1
  | params _ _ => exact hi

example : failure (.call 1 demoRA (u 50) 0 [.nb 1 .c, .sd (S!"ra") (S!"u2") (u 30), .sd (S!"ra") (S!"u2") (u 30)]) = some .originLimit := by decide
example : balAfter (.call 1 demoRA (u 50) 0 [.nb 1 .c, .sd (S!"ra") (S!"u2") (u 30)]) (.pkg demoRA) = some 1020 := by decide
example : failure (.run 1 (u 50) 0 [.x .c (.realm (S!"ra")) [.nb 1 .c]]) = some .notOrigin := by decide

end GnoVerif.C08
