import GnoVerif.Model.C45
namespace GnoVerif.C45

theorem placeholder : lower 65 = 97 := by decide

end GnoVerif.C45
