import GnoVerif.Proofs.C45Cex
import GnoVerif.Proofs.C45Loop
/-!
# C45 — bech32 addresses round-trip and reject malformed strings

Property statement: "Encoding any payload with any valid prefix and decoding it
returns the same prefix and payload; decoding rejects every string with a bad
checksum, mixed case, invalid characters or wrong length without panicking,
and every single-character substitution of a valid string is rejected."

Model: `GnoVerif/Model/C45.lean` (`encode` = `ConvertAndEncode`, `decode` =
`DecodeAndConvert`, `addressFromBech32` = `crypto.AddressFromBech32`), tied to
the real code by the differential run.  "Without panicking" is the totality of
`decode : Bytes → Except Err _`; `Rejected s` says the result is an error.

Strings are byte lists; `InRange c` is `33 ≤ c ≤ 126`; `lower` is ASCII
lower-casing; `charset` is the 32-character data alphabet.

What the code really does, and therefore what is proved:

* the encoder lower-cases the prefix, so the round trip returns `lowerAll hrp`
  (`decode_encode_lower`), i.e. the prefix itself exactly when it has no
  upper-case letter (`decode_encode`);
* the decoder accepts TWO checksum constants (bech32 `1` and bech32m
  `0x2bc830a3`).  The clause "rejects every string with a bad checksum" is
  therefore false as stated (`bad_checksum_rejected_counterexample`, witness
  `"a1lqfn3a"`) and proved under the guard "the final state is neither
  constant" (`bad_checksum_rejected_partial`);
* single substitutions: in the DATA part every substitution by a data character
  (either case) that is not a mere case change is rejected, for strings of any
  length and for both accepted constants (`single_substitution_rejected`); in
  the PREFIX the result, if accepted at all, has a different prefix and the same
  payload (`hrp_substitution_changes_hrp`) — and it CAN be accepted: there is no
  length limit, and for a 1022-character prefix `'a' → '@'` is accepted
  (`every_substitution_rejected_counterexample`); a pure case change yields the
  same result or a mixed-case error (`case_substitution_same_or_mixed`);
* for addresses (`AddressFromBech32`, prefix `"g"`, 20 bytes) EVERY single-byte
  substitution that is not a mere case change is rejected
  (`address_single_substitution_rejected`).
-/
namespace GnoVerif.C45

/-! ## 1. round trip -/

/-- Encoding any payload under any valid prefix (non-empty, printable, no upper-case
letter) succeeds and decodes to the same prefix and payload. -/
theorem decode_encode (hrp d : Bytes) (hv : ValidHrp hrp) :
    ∃ s, encode hrp d = .ok s ∧ decode s = .ok (hrp, d) :=
  decode_encode' hrp d hv

example : ValidHrp [103, 112, 117, 98] :=
  ⟨by decide, by intro c hc; simp only [List.mem_cons, List.not_mem_nil, or_false] at hc
                 rcases hc with rfl | rfl | rfl | rfl <;> exact ⟨by decide, by decide⟩⟩

/-- With upper-case letters in a printable prefix the round trip returns the lower-cased prefix
(the encoder lower-cases before encoding). -/
theorem decode_encode_lower (hrp d : Bytes) (hv : PrintableHrp hrp) :
    ∃ s, encode hrp d = .ok s ∧ decode s = .ok (lowerAll hrp, d) :=
  decode_encode_lower' hrp d hv

example : PrintableHrp [71] ∧ lowerAll [71] = [103] :=
  ⟨⟨by decide, by intro c hc; simp only [List.mem_singleton] at hc; subst hc; decide⟩, by decide⟩

/-- Every 20-byte address encodes under `"g"` to a string `AddressFromBech32` maps back to it. -/
theorem address_roundtrip (d : Bytes) (hd : d.length = 20) :
    ∃ s, encode addrPrefix d = .ok s ∧ addressFromBech32 s = .ok d :=
  address_roundtrip' d hd

example : (List.replicate 20 (7 : UInt8)).length = 20 := by decide

/-- What `AddressFromBech32` accepts is a string that decodes to prefix `"g"` and exactly 20 bytes. -/
theorem address_sound (s addr : Bytes) (h : addressFromBech32 s = .ok addr) :
    decode s = .ok (addrPrefix, addr) ∧ addr.length = 20 :=
  addr_ok s addr h

example : ∃ s addr, addressFromBech32 s = .ok addr :=
  let ⟨s, _, h⟩ := address_roundtrip' (List.replicate 20 7) (by decide)
  ⟨s, _, h⟩

/-! ## 1b. the bit-regrouping model is the Go loop -/

/-- `convertBits` (the bit-list specification every theorem here is about) and `convertBitsGo`
(the line-by-line transcription of btcutil's `ConvertBits` loop, which extracts
`min(remFromBits, remToBits)` bits per inner iteration on 8-bit registers) agree on byte inputs, for
every `fromBits`, `toBits` — including the invalid ones — and both `pad` values. -/
theorem convertBits_is_go_loop (fromBits toBits : Nat) (pad : Bool) (data : List Nat)
    (hd : ∀ x ∈ data, x < 256) :
    convertBitsGo fromBits toBits pad data = convertBits fromBits toBits pad data :=
  convertBitsGo_eq fromBits toBits pad data hd

example : ∀ x ∈ ([0, 1, 127, 128, 255] : List Nat), x < 256 := by decide

/-! ## 2. rejection (the decoder is total; `Rejected s` = it returns an error) -/

/-- wrong length: fewer than 8 bytes. -/
theorem rejects_short (s : Bytes) (h : s.length < 8) : decode s = .error .length :=
  reject_short s h

example : ([97, 49, 50, 117, 101, 108, 53] : Bytes).length < 8 := by decide

/-- invalid characters: any byte outside 33..126 anywhere in the string. -/
theorem rejects_out_of_range (s : Bytes) (h : ∃ c ∈ s, ¬ InRange c) : Rejected s :=
  reject_out_of_range s h

example : ∃ c ∈ ([97, 49, 0x80, 117, 101, 108, 53, 108] : Bytes), ¬ InRange c := ⟨0x80, by decide, by decide⟩

/-- mixed case: a lower-case and an upper-case letter anywhere in the string. -/
theorem rejects_mixed_case (s : Bytes) (hlo : ∃ c ∈ s, isLower c = true) (hup : ∃ c ∈ s, isUpper c = true) :
    Rejected s :=
  reject_mixed_case s hlo hup

/-- … and it is reported as `ErrMixedCase` when the string is long enough and printable. -/
theorem rejects_mixed_case_class (s : Bytes) (hl : 8 ≤ s.length) (hr : ∀ c ∈ s, InRange c)
    (hlo : ∃ c ∈ s, isLower c = true) (hup : ∃ c ∈ s, isUpper c = true) :
    decode s = .error .mixed :=
  reject_mixed_case_class s hl hr hlo hup

example : (∃ c ∈ ([65, 49, 50, 117, 101, 108, 53, 108] : Bytes), isLower c = true) ∧
    (∃ c ∈ ([65, 49, 50, 117, 101, 108, 53, 108] : Bytes), isUpper c = true) :=
  ⟨⟨117, by decide, by decide⟩, ⟨65, by decide, by decide⟩⟩

/-- no separator `'1'` at all. -/
theorem rejects_no_separator (s : Bytes) (h : (49 : UInt8) ∉ s) : Rejected s :=
  reject_no_separator s h

example : (49 : UInt8) ∉ ([97, 50, 50, 117, 101, 108, 53, 108] : Bytes) := by decide

/-- separator at a bad position: the last `'1'` is the first byte (empty prefix), or it is
followed by fewer than six bytes (too-short checksum). -/
theorem rejects_bad_separator (h b : Bytes) (hb : (49 : UInt8) ∉ b) (hbad : h = [] ∨ b.length < 6) :
    Rejected (h ++ 49 :: b) :=
  reject_bad_separator h b hb hbad

example : (49 : UInt8) ∉ ([117, 101, 108, 53, 108] : Bytes) ∧ ([117, 101, 108, 53, 108] : Bytes).length < 6 := by
  decide

/-- a character outside the data alphabet (after case folding) behind the last `'1'`. -/
theorem rejects_non_charset (h b : Bytes) (hb : (49 : UInt8) ∉ b) (hc : ∃ c ∈ b, lower c ∉ charset) :
    Rejected (h ++ 49 :: b) :=
  reject_non_charset h b hb hc

example : (49 : UInt8) ∉ ([50, 117, 101, 108, 53, 98] : Bytes) ∧
    ∃ c ∈ ([50, 117, 101, 108, 53, 98] : Bytes), lower c ∉ charset :=
  ⟨by decide, 98, by decide, by decide⟩

/-- FULL clause "rejects every string with a bad checksum": the data characters convert to
`vs` and the BIP-173 checksum test on (lower-cased prefix, `vs`) fails.  FALSE for the code as it
is — see the counterexample. -/
def bad_checksum_rejected_statement : Prop :=
  ∀ (h b : Bytes) (vs : List Nat), (49 : UInt8) ∉ b → toBytes (lowerAll b) = .ok vs →
    polymod (lowerAll h) vs ≠ const0 → Rejected (h ++ 49 :: b)

/-- proved under the exact guard: the final checksum state is not the bech32m constant either.
(Missing for the full statement: nothing provable — the code accepts that constant.) -/
theorem bad_checksum_rejected_partial (h b : Bytes) (vs : List Nat) (hb : (49 : UInt8) ∉ b)
    (hvs : toBytes (lowerAll b) = .ok vs)
    (h0 : polymod (lowerAll h) vs ≠ const0) (hM : polymod (lowerAll h) vs ≠ constM) :
    Rejected (h ++ 49 :: b) :=
  reject_bad_checksum h b vs hb hvs h0 hM

example : ∃ vs, toBytes (lowerAll [50, 117, 101, 108, 53, 113]) = .ok vs ∧
    polymod (lowerAll [97]) vs ≠ const0 ∧ polymod (lowerAll [97]) vs ≠ constM :=
  ⟨[10, 28, 25, 31, 20, 0], by decide +kernel, by decide +kernel, by decide +kernel⟩

/-- `"a1lqfn3a"` carries the bech32m checksum, not a BIP-173 one, and is accepted. -/
theorem bad_checksum_rejected_counterexample : ¬ bad_checksum_rejected_statement := by
  intro hst
  have hr := hst [97] [108, 113, 102, 110, 51, 97] [31, 0, 9, 19, 17, 29] (by decide) bech32m_toBytes
    (by rw [bech32m_polymod]; decide)
  obtain ⟨e, he⟩ := hr
  have := bech32m_decode
  unfold bech32mVector at this
  rw [show ([97] ++ 49 :: [108, 113, 102, 110, 51, 97] : Bytes) = [97, 49, 108, 113, 102, 110, 51, 97] from rfl] at he
  rw [this] at he
  cases he

/-! ## 3. single-character substitutions -/

/-- **Data part.**  `s` is accepted with prefix `h`; position `i` lies behind the separator
(`h.length < i`); `c` is a data character in either case (`lower c ∈ charset`) that differs from
`s[i]` by more than case.  Then the string with byte `i` replaced by `c` is rejected.  Holds for
strings of any length and whichever of the two constants `s` checksums to. -/
theorem single_substitution_rejected (s h d : Bytes) (hd : decode s = .ok (h, d)) (i : Nat)
    (hi : i < s.length) (hpos : h.length < i) (c : UInt8) (hc : lower c ∈ charset)
    (hne : lower c ≠ lower s[i]) :
    Rejected (s.set i c) :=
  substitution_data_set s h d hd i hi hpos c hc hne

example : decode bech32Vector = .ok ([97], []) ∧ ([97] : Bytes).length < 2 ∧ 2 < bech32Vector.length ∧
    lower 113 ∈ charset ∧ lower 113 ≠ lower bech32Vector[2] :=
  ⟨bech32_decode, by decide, by decide, by decide, by decide⟩

/-- **Prefix part.**  If a substitution inside the prefix (not a mere case change) is accepted at
all, the decoded prefix differs from the original one and the payload is unchanged — every caller
that compares the prefix (`GetFromBech32`) rejects it. -/
theorem hrp_substitution_changes_hrp (s h d h' d' : Bytes) (hd : decode s = .ok (h, d)) (i : Nat)
    (hi : i < s.length) (hpos : i < h.length) (c : UInt8) (hne : lower c ≠ lower s[i])
    (hd' : decode (s.set i c) = .ok (h', d')) :
    h' ≠ h ∧ d' = d := by
  rw [set_split s i hi c] at hd'
  have hs := split_at s i hi
  rw [hs] at hd
  exact substitution_hrp _ _ s[i] c h d h' d' hd (by rw [List.length_take]; omega) hne hd'

/-- **Case-only change.**  Replacing a letter by its other case gives the same result or a
mixed-case error (bech32 is case-insensitive; the same result occurs exactly when the string has
no other letter). -/
theorem case_substitution_same_or_mixed (s h d : Bytes) (hd : decode s = .ok (h, d)) (i : Nat)
    (hi : i < s.length) (c : UInt8) (hl : lower c = lower s[i]) :
    decode (s.set i c) = .ok (h, d) ∨ decode (s.set i c) = .error .mixed := by
  rw [set_split s i hi c]
  have hs := split_at s i hi
  rw [hs] at hd
  exact substitution_case _ _ s[i] c h d hd hl

example : decode bech32Vector = .ok ([97], []) ∧ lower 65 = lower bech32Vector[0] :=
  ⟨bech32_decode, by decide⟩

/-- **Addresses.**  For a string accepted by `AddressFromBech32`, replacing ANY byte (prefix,
separator, data, checksum) by ANY byte that differs by more than case is rejected. -/
theorem address_single_substitution_rejected (s addr : Bytes) (hd : addressFromBech32 s = .ok addr)
    (i : Nat) (hi : i < s.length) (c : UInt8) (hne : lower c ≠ lower s[i]) :
    ∃ e, addressFromBech32 (s.set i c) = .error e :=
  addr_substitution_set s addr hd i hi c hne

/-- FULL clause "every single-character substitution of a valid string is rejected" (a case
change of a letter is not counted as a substitution).  FALSE for the code as it is. -/
def every_substitution_rejected_statement : Prop :=
  ∀ (s h d : Bytes) (i : Nat) (hi : i < s.length) (c : UInt8),
    decode s = .ok (h, d) → lower c ≠ lower s[i] → Rejected (s.set i c)

/-- what holds at every position except the separator itself: rejected in the data part (for a
data character), prefix changed in the prefix part.  Missing for the full statement: rejection
of prefix substitutions — false without a length limit, see the counterexample — and
substitutions that create or destroy a `'1'` (they move the separator; covered for addresses
by `address_single_substitution_rejected`). -/
theorem every_substitution_rejected_partial (s h d : Bytes) (i : Nat) (hi : i < s.length) (c : UInt8)
    (hd : decode s = .ok (h, d)) (hne : lower c ≠ lower s[i]) :
    (h.length < i → lower c ∈ charset → Rejected (s.set i c)) ∧
    (i < h.length → ∀ h' d', decode (s.set i c) = .ok (h', d') → h' ≠ h ∧ d' = d) :=
  ⟨fun hpos hc => single_substitution_rejected s h d hd i hi hpos c hc hne,
   fun hpos h' d' hd' => hrp_substitution_changes_hrp s h d h' d' hd i hi hpos c hne hd'⟩

/-- a valid string with the 1022-character prefix `a x…x` stays valid when `'a'` becomes `'@'`:
the two checksum inputs of one prefix character are 1023 positions apart, and 1023 is the
period of the checksum recurrence. -/
theorem every_substitution_rejected_counterexample : ¬ every_substitution_rejected_statement := by
  intro hst
  obtain ⟨s, hlen, h1, h2⟩ := long_witness
  have hs0 : lower 64 ≠ lower s[0] := by
    obtain ⟨_, _, B, _, e1, _, _, _⟩ := decode_ok_shape s _ _ h1
    intro he
    have h0 : (lowerAll s)[0]'(by rw [lowerAll_length]; exact hlen) = lower s[0] := by
      simp [lowerAll]
    have h97 : (lowerAll s)[0]'(by rw [lowerAll_length]; exact hlen) = 97 := by
      simp only [e1, longHrp, List.cons_append, List.getElem_cons_zero]
    rw [h0] at h97
    rw [h97] at he
    exact absurd he (by decide)
  obtain ⟨e, he⟩ := hst s _ _ 0 hlen 64 h1 hs0
  rw [h2] at he
  cases he

end GnoVerif.C45
