/-
C24 — B+ tree hashes depend only on the operation history.

Statement (properties.jsonl): "The root hash after any history of operations is
the same whether or not the tree was closed and reopened between versions,
whatever node cache size is used, whether the fast index is enabled, and
whatever versions were pruned; exporting a version and importing it into an
empty database reproduces the same hash and contents."

Objects: Model.C24Hash (`hashLeafSlot`, `hashInner` with the sentinel rule, the
mini-merkle heap array with `Build` and `SetSlot`, `nodeHash`/`treeHash`
recomputed from the tree value, the exporter's post-order stream, the importer
with all its structural validation), on top of the C23 tree model.  The hash
function (SHA-256 in the code) is a parameter `H` of every theorem.

What is a theorem here:
* the model's root hash is a function of the tree VALUE (shape + keys + values)
  and nothing else — in particular an inner node's hash does not depend on its
  separator keys or cached sizes (`hash_ignores_separators`: these are NOT
  committed by the root hash), and the tree value after a history is computed
  by the C23 model from the history alone (no cache, no reopen, no fast index
  and no pruning schedule exists in that model);
* `SetSlot` on a cached mini-merkle array equals a full rebuild over the updated
  slots (`setSlot_eq_build`, `cached_update_eq_rebuild`): patching never makes a
  hash depend on how a node was arrived at;
* in the model, closing and reopening right after a successful save of a new
  version is the identity on the state (`reopen_after_save_identity`);
* export followed by import into a fresh importer reproduces the very same tree
  value, hence the same hash and contents — for every well-formed tree with
  non-empty keys (`export_import_roundtrip`), in particular for every retained
  version of every reachable state of the versioned store
  (`history_export_import`).
What is NOT a theorem: that the real code's CACHED hashes (per-node arrays,
`childHashes`, also serialized and re-read after a reopen), its node cache, its
fast index and its pruning leave the root hash equal to this function of the
history.  That part of the statement is checked only by the differential run:
harness/cmd/c24 applies every history to 54 configurations in lock-step
(reopen pattern × cache size × fast index × pruning schedule), requires
identical (version, hash) answers everywhere and export→import equality, and
the Lean model recomputes every printed root hash from the history alone.
Node (de)serialization is not modelled.
-/
import GnoVerif.Proofs.C24Reopen
import GnoVerif.Proofs.C24Merkle

namespace GnoVerif.C24
open GnoVerif GnoVerif.C23

/-! ## what the hash commits to -/

/-- an inner node's hash is a function of its children only: separator keys and
cached child sizes are not committed by the root hash. -/
theorem hash_ignores_separators (H : Bytes → Hash) (B h : Nat) (keys keys' : List Key)
    (kids : List (Node h)) (sizes sizes' : List Nat) :
    nodeHash H B (h + 1) (⟨keys, kids, sizes⟩ : Inner (Node h)) =
      nodeHash H B (h + 1) (⟨keys', kids, sizes'⟩ : Inner (Node h)) := rfl

/-- the hash of a leaf is a function of its entries, of an inner node of its
children's hashes (`RebuildMiniMerkle` over the occupied slots, sentinel elsewhere). -/
theorem nodeHash_unfold (H : Bytes → Hash) (B : Nat) :
    (∀ l : Leaf, nodeHash H B 0 l = mmRoot H B (l.es.map fun e => hashLeafSlot H e.1 e.2)) ∧
    (∀ (h : Nat) (n : Inner (Node h)), nodeHash H B (h + 1) n = mmRoot H B (n.kids.map (nodeHash H B h))) :=
  ⟨fun _ => rfl, fun _ _ => rfl⟩

/-! ## incremental = from scratch -/

/-- `MiniMerkle.SetSlot` on a built array equals `Build` over the updated slots. -/
theorem setSlot_eq_build (H : Bytes → Hash) (B : Nat) (hB : 1 ≤ B) (t : List Hash)
    (hl : t.length = 2 * B) (idx : Nat) (hidx : idx < B) (h : Hash) :
    mmSetSlot H B (mmBuild H B t) idx h = mmBuild H B (t.set (B + idx) h) :=
  setSlot_build H B hB t hl idx hidx h

/-- the array a node caches for the slot hashes `slots` (`RebuildMiniMerkle`). -/
def cachedArray (H : Bytes → Hash) (B : Nat) (slots : List Hash) : List Hash :=
  mmBuild H B (List.replicate B (sentinel H) ++ padSlots H B slots)

/-- patching one occupied slot of a node's cached array (`leaf.miniTree.SetSlot` on a
value update, `inner.miniTree.SetSlot` after a child changed) gives the array a
rebuild of the updated node would give — so the node hash `Root()` is the same. -/
theorem cached_update_eq_rebuild (H : Bytes → Hash) (B : Nat) (hB : 1 ≤ B) (slots : List Hash)
    (hs : slots.length ≤ B) (pos : Nat) (hpos : pos < slots.length) (h : Hash) :
    mmSetSlot H B (cachedArray H B slots) pos h = cachedArray H B (slots.set pos h) := by
  have hpad : (padSlots H B slots).length = B := by
    simp only [padSlots, List.length_append, List.length_replicate]; omega
  have hl : (List.replicate B (sentinel H) ++ padSlots H B slots).length = 2 * B := by
    simp only [List.length_append, List.length_replicate, hpad]; omega
  simp only [cachedArray]
  rw [setSlot_build H B hB _ hl pos (by omega) h]
  congr 1
  have h1 : (List.replicate B (sentinel H) ++ padSlots H B slots).set (B + pos) h =
      List.replicate B (sentinel H) ++ (padSlots H B slots).set pos h := by
    have := set_append_right' (List.replicate B (sentinel H)) (padSlots H B slots) pos h
    rwa [List.length_replicate] at this
  rw [h1]
  congr 1
  simp only [padSlots, List.length_set]
  rw [List.set_append_left _ _ hpos]

/-! ## reopening between versions -/

/-- in every reachable state, closing and reopening the tree right after a
successful `SaveVersion` of a new version gives back exactly the same state
(working tree, rollback target, size, version, retained versions) — so every
later hash is the same with or without the reopen.  (Model level: the reload
here is a lookup of an immutable value; that the REAL reload, which re-reads
serialized nodes and their cached child hashes, agrees is checked by the
differential run in the `reopen` configurations.) -/
theorem reopen_after_save_identity {B : Nat} (hB : 4 ≤ B) (hashOf : Tree → Bytes) (ops : List MT.Op) :
    let m := MT.run B hashOf ops
    m.poisoned = false → m.lookup (m.version + 1) = none →
    MT.run B hashOf (ops ++ [.save, .reopen]) = MT.run B hashOf (ops ++ [.save]) := by
  intro m hnp hl
  obtain ⟨hi, hc⟩ := MT.run_cont hB hashOf ops
  have h := (MT.reopen_after_save hashOf hi hc hnp hl).2
  simp only [MT.run, List.foldl_append, List.foldl_cons, List.foldl_nil, MT.apply]
  exact congrArg Prod.fst h

/-! ## export → import -/

/-- `Export` refuses the empty tree (`ErrNotInitializedTree`). -/
theorem export_empty : exportTree .empty = none := rfl

/-- exporting a well-formed tree with non-empty keys and importing the stream into
an empty importer yields the same tree value: same shape, same contents, same hash. -/
theorem export_import_roundtrip {B : Nat} {t : Tree} (ht : t.WF B)
    (hk : ∀ e ∈ t.abs, e.1.length ≠ 0) (stream : List ExportNode)
    (hs : exportTree t = some stream) (H : Bytes → Hash) :
    ∃ t', importStream B stream = some t' ∧ t' = t ∧ t'.abs = t.abs ∧
      treeHash H B t' = treeHash H B t :=
  ⟨t, import_export ht hk stream hs, rfl, rfl, rfl⟩

/-- in every state reachable by any history, every retained non-empty version (and
the working tree) survives export → import: the imported tree has the same
contents and the same root hash. -/
theorem history_export_import {B : Nat} (hB : 4 ≤ B) (hashOf : Tree → Bytes) (ops : List MT.Op)
    (H : Bytes → Hash) :
    let m := MT.run B hashOf ops
    ∀ t, (t = m.root ∨ ∃ v, m.lookup v = some t) → ∀ stream, exportTree t = some stream →
      ∃ t', importStream B stream = some t' ∧ t'.abs = t.abs ∧ treeHash H B t' = treeHash H B t := by
  intro m t ht stream hs
  obtain ⟨hi, hk⟩ := MT.run_inv_keys hB hashOf ops
  rcases ht with rfl | ⟨v, hv⟩
  · exact ⟨_, import_export hi.root hk.root stream hs, rfl, rfl⟩
  · have hmem := MT.lookup_mem hv
    exact ⟨_, import_export (hi.saved _ hmem) (hk.saved _ hmem) stream hs, rfl, rfl⟩

/-- non-vacuity of the hypotheses of `setSlot_eq_build` / `cached_update_eq_rebuild`
(`B = 4`) and of `reopen_after_save_identity` (the empty history). -/
example (H : Bytes → Hash) :
    mmSetSlot H 4 (mmBuild H 4 (List.replicate 8 [])) 1 [9] =
      mmBuild H 4 ((List.replicate 8 []).set (4 + 1) [9]) :=
  setSlot_eq_build H 4 (by decide) _ rfl 1 (by decide) [9]

example (H : Bytes → Hash) :
    mmSetSlot H 4 (cachedArray H 4 [[1], [2]]) 1 [9] = cachedArray H 4 [[1], [9]] :=
  cached_update_eq_rebuild H 4 (by decide) [[1], [2]] (by decide) 1 (by decide) [9]

example (hashOf : Tree → Bytes) :
    MT.run 4 hashOf ([] ++ [.save, .reopen]) = MT.run 4 hashOf ([] ++ [.save]) :=
  reopen_after_save_identity (by decide) hashOf [] rfl rfl

/-- non-vacuity: a concrete well-formed tree with non-empty keys and its round trip. -/
example : importStream 4 (exportNode 0 (⟨[([1], [2]), ([3], [])]⟩ : Leaf)) =
    some (.node 0 (⟨[([1], [2]), ([3], [])]⟩ : Leaf)) := by
  have hwf : (Tree.node 0 (⟨[([1], [2]), ([3], [])]⟩ : Leaf)).WF 4 := by
    refine ⟨⟨?_, ?_, trivial⟩, ⟨by decide, by decide⟩⟩
    · show List.Pairwise _ _
      simp only [List.pairwise_cons, List.mem_cons, List.mem_nil_iff, or_false, forall_eq,
        List.not_mem_nil, false_imp_iff, implies_true, List.Pairwise.nil, and_true]
      decide
    · intro e _; exact ⟨trivial, trivial⟩
  refine import_export hwf ?_ _ rfl
  intro e he
  have : e = ([1], [2]) ∨ e = ([3], []) := by simpa [Tree.abs, C23.abs] using he
  rcases this with rfl | rfl <;> simp

end GnoVerif.C24
