import GnoVerif.Proofs.C47
/-!
C47 — authenticated ciphers round-trip and detect tampering.

Models: `Model/C47.lean` (the two gno wrappers, as coded, parametric in the inner
primitive) and `Model/C47Cipher.lean` (executable HChaCha20 — the primitive that
lives in gno's tree —, ChaCha20-Poly1305 and XSalsa20-Poly1305 `secretbox`, all
compared byte for byte with the Go code on every run).

What is a theorem here, for EVERY key, nonce, plaintext and associated data:
* round trip of `xchacha20poly1305` (`xchacha_roundtrip`) and of
  `xsalsa20symmetric` (`symmetric_roundtrip`), for every inner cipher satisfying
  the round-trip law — and the executable inner models satisfy it
  (`chachaPoly_model_roundtrip`, `secretbox_model_roundtrip`), so the composed
  executable models round-trip unconditionally (`…_concrete`);
* the wrappers add no acceptance path of their own: `Open` / `DecryptSymmetric`
  succeed exactly when the length guards pass and the inner primitive opens
  (`xchacha_open_iff`, `symmetric_decrypt_iff`), hence whatever the inner cipher
  rejects, the wrapper rejects (`xchacha_rejects_what_inner_rejects`);
* which inputs panic / error (`xchacha_seal_ok_iff`).

What is NOT a theorem: "any change to the ciphertext, tag, nonce, key or associated
data makes opening fail".  Read literally it is refutable for every round-tripping
cipher (`tamper_statement_literal_false`: another validly sealed message is a
"change" that opens); read as unforgeability against an adversary without the key it
is a computational hardness assumption about Poly1305/ChaCha20/Salsa20, outside what
a proof about a functional model can show.  The single-bit mutation runs of the
harness (every bit of one message, random bits of many) are oracle / search support
only.
-/
namespace GnoVerif.C47

/-! ### xchacha20poly1305 -/

/-- `Seal` returns normally exactly for a 24-byte nonce and a plaintext of at most
`MaxPlaintextSize` bytes; otherwise it panics (nonce first). -/
theorem xchacha_seal_ok_iff (I : Inner) (key nonce pt ad : Bytes) :
    (∃ ct, xSeal I key nonce pt ad = .ok ct) ↔ nonce.length = nonceSize ∧ pt.length ≤ maxPlaintextSize := by
  unfold xSeal
  by_cases hn : nonce.length = nonceSize
  · by_cases hp : pt.length ≤ maxPlaintextSize
    · simp [hn, hp, Nat.not_lt.2 hp]
    · simp [hn, hp, Nat.lt_of_not_le hp]
  · simp [hn]

/-- `Open` succeeds with `pt` exactly when the nonce has 24 bytes, the ciphertext is
not longer than `MaxCiphertextSize`, and the inner AEAD opens it under the HChaCha20
sub-key and the 12-byte sub-nonce: the wrapper has no acceptance path of its own. -/
theorem xchacha_open_iff (I : Inner) (key nonce ct ad pt : Bytes) :
    xOpen I key nonce ct ad = .ok pt ↔
      nonce.length = nonceSize ∧ ct.length ≤ maxCiphertextSize ∧
      I.doOpen (hChaCha20 key (nonce.take 16)) ([0, 0, 0, 0] ++ (nonce.drop 16).take 8) ct ad = some pt := by
  unfold xOpen hNonce subNonce
  by_cases hn : nonce.length = nonceSize
  · by_cases hc : ct.length ≤ maxCiphertextSize
    · simp only [hn, ne_eq, not_true_eq_false, if_false, Nat.not_lt.2 hc, true_and, hc]
      cases h : I.doOpen (hChaCha20 key (List.take 16 nonce)) ([0, 0, 0, 0] ++ List.take 8 (List.drop 16 nonce)) ct ad <;> simp
    · simp [hn, hc, Nat.lt_of_not_le hc]
  · simp [hn]

/-- Whatever the inner AEAD rejects (under the derived sub-key and sub-nonce), `Open`
rejects: tamper detection of the wrapper is exactly that of the inner cipher. -/
theorem xchacha_rejects_what_inner_rejects (I : Inner) (key nonce ct ad : Bytes)
    (h : I.doOpen (hChaCha20 key (nonce.take 16)) ([0, 0, 0, 0] ++ (nonce.drop 16).take 8) ct ad = none) :
    ∀ pt, xOpen I key nonce ct ad ≠ .ok pt := by
  intro pt hp
  have := (xchacha_open_iff I key nonce ct ad pt).1 hp
  rw [h] at this
  exact absurd this.2.2 (by simp)

/-- **Round trip (xchacha20poly1305).**  For every inner AEAD that round-trips and
adds `TagSize` bytes, every key, every 24-byte nonce, every plaintext up to
`MaxPlaintextSize` and every associated data: `Seal` returns a ciphertext and `Open`
of it returns the plaintext. -/
theorem xchacha_roundtrip (I : Inner) (hI : I.RoundTrip) (hL : I.SealLen)
    (key nonce pt ad : Bytes) (hn : nonce.length = nonceSize) (hp : pt.length ≤ maxPlaintextSize) :
    ∃ ct, xSeal I key nonce pt ad = .ok ct ∧ xOpen I key nonce ct ad = .ok pt := by
  refine ⟨I.doSeal (hChaCha20 key (hNonce nonce)) (subNonce nonce) pt ad, ?_, ?_⟩
  · simp [xSeal, hn, Nat.not_lt.2 hp]
  · have hlen := hL (hChaCha20 key (hNonce nonce)) (subNonce nonce) pt ad
    rw [tagSize_gen] at hlen
    have hc : ¬ (I.doSeal (hChaCha20 key (hNonce nonce)) (subNonce nonce) pt ad).length > maxCiphertextSize := by
      rw [hlen, maxCiphertextSize_eq]
      rw [maxPlaintextSize_eq] at hp
      omega
    simp only [xOpen, hn, ne_eq, not_true_eq_false, if_false, hc, hI _ _ _ _]

/-- the hypotheses of `xchacha_roundtrip` are satisfiable: the identity "cipher" with a
16-byte zero tag … -/
example : ∃ I : Inner, I.RoundTrip ∧ I.SealLen :=
  ⟨⟨fun _ _ pt _ => pt ++ List.replicate 16 0, fun _ _ ct _ => some (ct.take (ct.length - 16))⟩,
   by intro k n pt ad; simp, by intro k n pt ad; simp [tagSize_gen]⟩

/-- … and, more to the point, the executable ChaCha20-Poly1305 model that the
correspondence run compares with golang.org/x/crypto. -/
theorem chachaPoly_model_roundtrip (key nonce pt ad : Bytes) :
    chachaPolyOpen key nonce (chachaPolySeal key nonce pt ad) ad = some pt :=
  chachaPoly_open_seal key nonce pt ad

/-- The composed executable model (HChaCha20 + ChaCha20-Poly1305) round-trips for
every key, 24-byte nonce, plaintext and associated data — no hypothesis left. -/
theorem xchacha_roundtrip_concrete (key nonce pt ad : Bytes)
    (hn : nonce.length = nonceSize) (hp : pt.length ≤ maxPlaintextSize) :
    ∃ ct, xSeal chachaPoly key nonce pt ad = .ok ct ∧ xOpen chachaPoly key nonce ct ad = .ok pt :=
  xchacha_roundtrip chachaPoly chachaPoly_roundTrip chachaPoly_sealLen key nonce pt ad hn hp

example : ∃ ct, xSeal chachaPoly (List.replicate 32 7) (List.replicate 24 9) [1, 2, 3] [4] = .ok ct ∧
    xOpen chachaPoly (List.replicate 32 7) (List.replicate 24 9) ct [4] = .ok [1, 2, 3] :=
  xchacha_roundtrip_concrete _ _ _ _ (by decide) (by decide)

/-- `New` accepts exactly the 32-byte keys. -/
theorem xchacha_new_ok_iff (key : Bytes) : xNew key = .ok key ↔ key.length = keySize := by
  unfold xNew
  by_cases h : key.length = keySize <;> simp [h]

/-- HChaCha20 always yields a 32-byte sub-key (a valid key for the inner cipher). -/
theorem hchacha_output_is_a_key (key nonce : Bytes) : (hChaCha20 key nonce).length = keySize := by
  rw [hChaCha20_length, keySize_eq]

/-! ### xsalsa20symmetric -/

/-- `DecryptSymmetric` succeeds with `pt` exactly when the secret has 32 bytes, the
ciphertext is at least `nonceLen + Overhead` = 40 bytes long, and `secretbox.Open` of
the part after the nonce succeeds under that nonce. -/
theorem symmetric_decrypt_iff (B : Box) (ct secret pt : Bytes) :
    decryptSymmetric B ct secret = .ok pt ↔
      secret.length = secretLen ∧ boxOverhead + nonceLen ≤ ct.length ∧
      B.doOpen (ct.drop nonceLen) (ct.take nonceLen) secret = some pt := by
  unfold decryptSymmetric
  by_cases hs : secret.length = secretLen
  · by_cases hc : boxOverhead + nonceLen ≤ ct.length
    · simp only [hs, ne_eq, not_true_eq_false, if_false, Nat.not_lt.2 hc, true_and, hc]
      cases h : B.doOpen (List.drop nonceLen ct) (List.take nonceLen ct) secret <;> simp
    · simp [hs, hc, Nat.lt_of_not_le hc]
  · simp [hs]

/-- **Round trip (xsalsa20symmetric).**  For every `secretbox` that round-trips and
adds `Overhead` bytes, every 32-byte secret, every 24-byte nonce drawn by
`CRandBytes` and EVERY plaintext — the empty one included —,
`DecryptSymmetric(EncryptSymmetric(pt))` returns `pt`. -/
theorem symmetric_roundtrip (B : Box) (hB : B.RoundTrip) (hL : B.SealLen) (nonce pt secret : Bytes)
    (hn : nonce.length = nonceLen) (hs : secret.length = secretLen) :
    ∃ ct, encryptSymmetric B nonce pt secret = .ok ct ∧ decryptSymmetric B ct secret = .ok pt := by
  refine ⟨nonce ++ B.doSeal pt nonce secret, ?_, ?_⟩
  · have : nonce.take nonceLen = nonce := take_self_len _ _ hn
    simp [encryptSymmetric, hs, this]
  · rw [symmetric_decrypt_iff]
    refine ⟨hs, ?_, ?_⟩
    · rw [List.length_append, hn, hL pt nonce secret]
      omega
    · rw [drop_append_len _ _ _ hn, take_append_len _ _ _ hn]
      exact hB pt nonce secret

example : ∃ B : Box, B.RoundTrip ∧ B.SealLen :=
  ⟨⟨fun msg _ _ => List.replicate 16 0 ++ msg, fun box _ _ => some (box.drop 16)⟩,
   by intro m n k; simp, by intro m n k; simp [boxOverhead]⟩

/-- the executable XSalsa20-Poly1305 `secretbox` model (compared with
golang.org/x/crypto/nacl/secretbox on every run) round-trips -/
theorem secretbox_model_roundtrip (msg nonce key : Bytes) :
    secretboxOpen (secretboxSeal msg nonce key) nonce key = some msg :=
  secretbox_open_seal msg nonce key

/-- The composed executable model round-trips for every 32-byte secret, 24-byte nonce
and plaintext — no hypothesis left. -/
theorem symmetric_roundtrip_concrete (nonce pt secret : Bytes)
    (hn : nonce.length = nonceLen) (hs : secret.length = secretLen) :
    ∃ ct, encryptSymmetric secretbox nonce pt secret = .ok ct ∧
      decryptSymmetric secretbox ct secret = .ok pt :=
  symmetric_roundtrip secretbox secretbox_roundTrip secretbox_sealLen nonce pt secret hn hs

/-- in particular for the empty plaintext -/
example : ∃ ct, encryptSymmetric secretbox (List.replicate 24 1) [] (List.replicate 32 2) = .ok ct ∧
    decryptSymmetric secretbox ct (List.replicate 32 2) = .ok [] :=
  symmetric_roundtrip_concrete _ _ _ (by decide) (by decide)

/-- **Regression (fixed defect).**  With the length test as it was before the `fix:`
commit (`len(ciphertext) <= Overhead+nonceLen`), the encryption of the EMPTY plaintext
— exactly 40 bytes — was rejected as "ciphertext is too short", for every secretbox,
secret and nonce: the round trip failed on that one plaintext. -/
theorem symmetric_old_rejected_empty (B : Box) (hL : B.SealLen) (nonce secret : Bytes)
    (hn : nonce.length = nonceLen) (hs : secret.length = secretLen) :
    ∃ ct, encryptSymmetric B nonce [] secret = .ok ct ∧ decryptSymmetricOld B ct secret = .err "short" := by
  refine ⟨nonce ++ B.doSeal [] nonce secret, ?_, ?_⟩
  · have : nonce.take nonceLen = nonce := take_self_len _ _ hn
    simp [encryptSymmetric, hs, this]
  · have hlen : (nonce ++ B.doSeal [] nonce secret).length ≤ boxOverhead + nonceLen := by
      rw [List.length_append, hn, hL [] nonce secret]; simp; omega
    simp only [decryptSymmetricOld, hs, ne_eq, not_true_eq_false, if_false, hlen, if_true]

/-- … and only on that one: for a non-empty plaintext the old test passed. -/
theorem symmetric_old_roundtrip_nonempty (B : Box) (hB : B.RoundTrip) (hL : B.SealLen)
    (nonce pt secret : Bytes) (hn : nonce.length = nonceLen) (hs : secret.length = secretLen)
    (hne : pt ≠ []) :
    ∃ ct, encryptSymmetric B nonce pt secret = .ok ct ∧ decryptSymmetricOld B ct secret = .ok pt := by
  refine ⟨nonce ++ B.doSeal pt nonce secret, ?_, ?_⟩
  · have : nonce.take nonceLen = nonce := take_self_len _ _ hn
    simp [encryptSymmetric, hs, this]
  · have hpos : 0 < pt.length := List.length_pos_iff.2 hne
    have hlen : ¬ (nonce ++ B.doSeal pt nonce secret).length ≤ boxOverhead + nonceLen := by
      rw [List.length_append, hn, hL pt nonce secret]; omega
    simp only [decryptSymmetricOld, hs, ne_eq, not_true_eq_false, if_false, hlen]
    rw [drop_append_len _ _ _ hn, take_append_len _ _ _ hn, hB pt nonce secret]

/-! ### the tamper clause -/

/-- The second clause of the property, read literally for the ciphertext: ANY
ciphertext other than the one `Seal` produced fails to open. -/
def tamper_statement (I : Inner) : Prop :=
  ∀ key nonce pt ad ct ct', xSeal I key nonce pt ad = .ok ct → ct' ≠ ct →
    ∀ pt', xOpen I key nonce ct' ad ≠ .ok pt'

/-- Read literally the clause is false for EVERY cipher that round-trips: the
ciphertext of a different plaintext under the same key and nonce is a "change" that
opens.  What the property means — nobody WITHOUT the key can produce such a change —
is a computational assumption (unforgeability of Poly1305 under ChaCha20/Salsa20
keys); it is not a theorem about a functional model and is not claimed.  The harness
mutates single bits (all of them for one message, random ones for many) as search
support only. -/
theorem tamper_statement_literal_false (I : Inner) (hI : I.RoundTrip) (hL : I.SealLen) :
    ¬ tamper_statement I := by
  intro h
  let key : Bytes := List.replicate 32 0
  let nonce : Bytes := List.replicate 24 0
  obtain ⟨c0, hs0, ho0⟩ := xchacha_roundtrip I hI hL key nonce [0] [] (by decide) (by decide)
  obtain ⟨c1, hs1, ho1⟩ := xchacha_roundtrip I hI hL key nonce [1] [] (by decide) (by decide)
  have hne : c1 ≠ c0 := by
    intro e
    rw [e, ho0] at ho1
    exact absurd ho1 (by decide)
  exact h key nonce [0] [] c0 c1 hs0 hne [1] ho1

end GnoVerif.C47
