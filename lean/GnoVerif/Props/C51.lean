import GnoVerif.Proofs.C51Step
import GnoVerif.Proofs.C51Err
/-!
# C51 — GRC20 tokens conserve supply and honour allowances

Statement: for every sequence of mints, burns, transfers, approvals and
transfer-from calls, the total supply equals the sum of balances, transfers
never create or destroy tokens, a transfer-from never moves more than the
approved allowance (which decreases accordingly), and failing operations change
nothing.

All theorems are about `Model/C51.lean` (a line-by-line port of
`examples/gno.land/p/demo/tokens/grc20/token.gno`, `PrivateLedger`), for ALL
ledgers satisfying the invariant / ALL histories from the fresh ledger — no
bound on the number of accounts, the history length or the amounts (any int64).
The vocabulary (`Inv`, `Effect`, `Moves`, `StepOk`, `statement`) is in
`Spec/C51.lean`.  `Op.wf` only says that the amount argument is an int64.
-/
namespace GnoVerif.C51

/-! ## total supply = Σ balances, along every history -/

/-- The fresh ledger of `NewToken` satisfies the invariant. -/
theorem inv_init : Inv init := init_inv

/-- Every call — successful, failing — keeps the invariant. -/
theorem inv_step {L : Ledger} (h : Inv L) (op : Op) (hw : op.wf) : Inv (step L op).1 :=
  (stepOk h op hw).1

/-- Every ledger reachable from the fresh one satisfies the invariant. -/
theorem reachable_inv (ops : List Op) (hw : ∀ o ∈ ops, o.wf) : Inv (run init ops) :=
  run_inv init_inv ops hw

/-- Clause 1: after every history the total supply equals the sum of all balances. -/
theorem supply_is_sum_of_balances (ops : List Op) (hw : ∀ o ∈ ops, o.wf) :
    (run init ops).totalSupply = sumBalances (run init ops) :=
  (reachable_inv ops hw).supplySum

/-- The supply never leaves `[0, MaxInt64]`, and every balance lies in `[0, supply]`
(so no int64 ever wraps). -/
theorem supply_bounded (ops : List Op) (hw : ∀ o ∈ ops, o.wf) :
    0 ≤ (run init ops).totalSupply ∧ (run init ops).totalSupply ≤ maxInt64 ∧
    ∀ a, 0 ≤ balanceOf (run init ops) a ∧ balanceOf (run init ops) a ≤ (run init ops).totalSupply :=
  let h := reachable_inv ops hw
  ⟨h.supply_nonneg, h.supplyMax, fun a => ⟨h.bal_nonneg a, h.bal_le_supply a⟩⟩

/-- Addresses for which `IsValid()` is false never hold a balance or take part in an allowance. -/
theorem invalid_address_holds_nothing (ops : List Op) (hw : ∀ o ∈ ops, o.wf) (a b : Addr)
    (ha : a.valid = false) :
    balanceOf (run init ops) a = 0 ∧ allowance (run init ops) a b = 0 ∧ allowance (run init ops) b a = 0 :=
  let h := reachable_inv ops hw
  ⟨h.bal_invalid ha, h.alw_invalid (Or.inl ha), h.alw_invalid (Or.inr ha)⟩

/-! ## failing operations change nothing -/

/-- The checked arithmetic (`overflow.Add64p/Sub64p`) never panics on a ledger
satisfying the invariant: every call returns `nil` or one of the package's errors. -/
theorem no_panic {L : Ledger} (h : Inv L) (op : Op) (hw : op.wf) : (step L op).2 ≠ .panic :=
  (stepOk h op hw).2.1

/-- Clause 4: a call that does not return `nil` leaves the ledger EXACTLY as it was
(supply, every balance entry, every allowance entry).  This is the clause the
pre-fix `TransferFrom` violated (`prefix_transferFrom_counterexample`). -/
theorem failing_changes_nothing {L : Ledger} (h : Inv L) (op : Op) (hw : op.wf)
    (hf : (step L op).2 ≠ .ok) : (step L op).1 = L :=
  (stepOk h op hw).2.2.1 hf

/-- The error half of clause 4 needs NO assumption at all: on EVERY ledger (reachable
or not, any amounts) a call that returns one of the package's errors has written
nothing — in the code as it is now, every error return precedes every write, also
across the `SpendAllowance`-then-`Transfer` sequence inside `TransferFrom`. -/
theorem error_changes_nothing_everywhere (L : Ledger) (op : Op) (e : Err)
    (h : (step L op).2 = .err e) : (step L op).1 = L :=
  step_err h

/-! ## successful operations do exactly what they say -/

/-- A call that returns `nil` has exactly its specified effect (`Effect`). -/
theorem success_effect {L : Ledger} (h : Inv L) (op : Op) (hw : op.wf)
    (hs : (step L op).2 = .ok) : Effect L op (step L op).1 :=
  (stepOk h op hw).2.2.2 hs

/-- Clause 2: a successful `Transfer` moves `n` from `f` to `t` and nothing else:
the supply and the sum of balances are unchanged (no token created or destroyed),
`f` loses exactly what `t` gains, every other balance and every allowance stays. -/
theorem transfer_conserves {L L' : Ledger} (h : Inv L) {f t : Addr} {n : Int} (hn : isI64 n)
    (hs : step L (.transfer f t n) = (L', .ok)) :
    Moves L L' f t n ∧ sameAllowances L L' := by
  have := success_effect h (.transfer f t n) hn (by rw [hs])
  rw [hs] at this; exact this

/-- Clause 3: a successful `TransferFrom(owner, spender, to, n)` moves exactly `n`
(`Moves`: conservation as for `Transfer`), `n` is at most the allowance the owner
had approved for the spender, that allowance decreases by exactly `n`, and no
other allowance changes. -/
theorem transferFrom_within_allowance {L L' : Ledger} (h : Inv L) {o s t : Addr} {n : Int}
    (hn : isI64 n) (hs : step L (.transferFrom o s t n) = (L', .ok)) :
    Moves L L' o t n ∧ n ≤ allowance L o s ∧ allowance L' o s = allowance L o s - n ∧
    allowancesSameExcept L L' o s := by
  have := success_effect h (.transferFrom o s t n) hn (by rw [hs])
  rw [hs] at this; exact this

/-- Mint and burn change the supply and one balance by exactly the amount (so the
sum stays equal to the supply), and touch nothing else. -/
theorem mint_burn_exact {L L' : Ledger} (h : Inv L) {a : Addr} {n : Int} (hn : isI64 n) :
    (step L (.mint a n) = (L', .ok) →
      L'.totalSupply = L.totalSupply + n ∧ balanceOf L' a = balanceOf L a + n ∧
      balancesSameExcept L L' a a ∧ sameAllowances L L') ∧
    (step L (.burn a n) = (L', .ok) →
      n ≤ balanceOf L a ∧ L'.totalSupply = L.totalSupply - n ∧ balanceOf L' a = balanceOf L a - n ∧
      balancesSameExcept L L' a a ∧ sameAllowances L L') := by
  constructor
  · intro hs
    have := success_effect h (.mint a n) hn (by rw [hs])
    rw [hs] at this; exact this.2
  · intro hs
    have := success_effect h (.burn a n) hn (by rw [hs])
    rw [hs] at this; exact this.2

/-- `Approve` sets exactly one allowance and touches no balance. -/
theorem approve_exact {L L' : Ledger} (h : Inv L) {o s : Addr} {n : Int} (hn : isI64 n)
    (hs : step L (.approve o s n) = (L', .ok)) :
    sameBalances L L' ∧ allowance L' o s = n ∧ allowancesSameExcept L L' o s := by
  have := success_effect h (.approve o s n) hn (by rw [hs])
  rw [hs] at this; exact this.2

/-! ## the whole statement, for every history -/

/-- **C51.** Along every history of calls from the fresh ledger, before and after
every single call: supply = Σ balances ≤ MaxInt64, no panic, a failing call
changes nothing, a successful call has exactly its specified effect (transfers
conserve, transfer-from stays within and lowers the allowance). -/
theorem history : statement := by
  intro pre op hpre hop
  have h := reachable_inv pre hpre
  exact ⟨h, stepOk h op hop⟩

/-! ## the defect fixed in /repo, and non-vacuity -/

open Witness

/-- Before the fix "TransferFrom validates owner != to before spending the
allowance", `TransferFrom(v0, v1, to = v0, 30)` on a reachable ledger returned
`ErrCannotTransferToSelf` with the allowance already lowered 50 → 20: a failing
operation that changed the ledger. -/
theorem prefix_transferFrom_counterexample :
    Inv L0 ∧ (transferFromPreFix L0 v0 v1 v0 30).2 = .err .cannotTransferToSelf ∧
    allowance L0 v0 v1 = 50 ∧ allowance (transferFromPreFix L0 v0 v1 v0 30).1 v0 v1 = 20 := by
  refine ⟨reachable_inv _ (by decide), ?_, ?_, ?_⟩ <;> decide

/-- The same call on the code as it is now: the same error, the ledger untouched. -/
theorem transferFrom_self_witness_unchanged :
    step L0 (.transferFrom v0 v1 v0 30) = (L0, .err .cannotTransferToSelf) := by decide

/-- Non-vacuity: a reachable ledger, a successful transfer-from within the allowance
(30 of 50 moved, allowance 20 left), and one above it that fails. -/
example : (step L0 (.transferFrom v0 v1 v2 30)).2 = .ok ∧
    allowance (step L0 (.transferFrom v0 v1 v2 30)).1 v0 v1 = 20 ∧
    balanceOf (step L0 (.transferFrom v0 v1 v2 30)).1 v2 = 30 ∧
    (step L0 (.transferFrom v0 v1 v2 51)).2 = .err .insufficientAllowance := by decide

/-- Non-vacuity of the supply cap: minting up to MaxInt64 succeeds, one more fails. -/
example : (step init (.mint v0 maxInt64)).2 = .ok ∧
    (step (step init (.mint v0 maxInt64)).1 (.mint v1 1)).2 = .err .mintOverflow := by decide

/-- Non-vacuity of the hypotheses `Inv L`, `op.wf`: `L0` is a non-trivial ledger satisfying
the invariant (one account, one allowance), and the amounts used here are int64. -/
example : Inv L0 ∧ L0.totalSupply = 100 ∧ balanceOf L0 v0 = 100 ∧ allowance L0 v0 v1 = 50 ∧
    (Op.transferFrom v0 v1 v2 30).wf ∧ (Op.mint v0 maxInt64).wf :=
  ⟨reachable_inv _ (by decide), by decide, by decide, by decide, by decide, by decide⟩

/-- Non-vacuity of `failing_changes_nothing` / `transfer_conserves`: on `L0` a burn above the
balance fails, and a transfer of the whole balance succeeds (the emptied account is removed). -/
example : (step L0 (.burn v0 101)).2 = .err .insufficientBalance ∧
    (step L0 (.transfer v0 v2 100)).2 = .ok ∧
    knownAccounts (step L0 (.transfer v0 v2 100)).1 = 1 ∧
    balanceOf (step L0 (.transfer v0 v2 100)).1 v2 = 100 := by decide
end GnoVerif.C51
