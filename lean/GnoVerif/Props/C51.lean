import GnoVerif.Model.C51
namespace GnoVerif.C51
end GnoVerif.C51
