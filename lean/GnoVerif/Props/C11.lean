import GnoVerif.Proofs.C11
import GnoVerif.Model.C04Known
import GnoVerif.Model.C04Line
/-!
# C11 — the VM never crashes and stays within its resource limits

"No internal fault, stack overflow, unbounded growth or hang on ANY submitted
source" is a universal statement about the whole interpreter; it is not a
theorem here.  It is probed on every run (`harness/cmd/c11`: C04's generated
programs, pathological sources — deep nesting, huge literals, recursive types,
unbounded recursion / allocation / loops under gas and allocation limits —
and mutated sources; any Go-level panic that is not a Gno panic, out-of-gas,
the allocation limit or a preprocess/type error, any death of the process and
any timeout is `VIOL:internal-fault`).

The provable core is the allocator's accounting (`Model/C11Alloc.lean`, tied
to `gnovm/pkg/gnolang/alloc.go` by a differential run of the real
`gno.Allocator`): the tracked bytes never exceed the cap, `Allocate` panics
exactly when the request does not fit (after a collection), and over any
history tracked bytes = everything charged − everything released; plus the
keeper's panic classification table.
-/
namespace GnoVerif.C11

/-! ## the allocator stays within its limit -/

/-- a successful `Allocate` leaves the tracked bytes within the cap (and never moves the cap) -/
theorem allocate_within_cap (a a' : Alloc) (size : Int) (h : allocate a size = .ok a') :
    a'.bytes ≤ a'.maxBytes ∧ a'.maxBytes = a.maxBytes :=
  ⟨(allocate_ok_le_max h).1, (allocate_ok_le_max h).2.1⟩

example : allocate { maxBytes := 100, bytes := 90, hasGC := true, survivors := 40 } 30 =
    .ok { maxBytes := 100, bytes := 70, hasGC := true, survivors := 40 } := by rfl

/-- over any history of allocations the tracked bytes never exceed the cap -/
theorem bytes_never_exceed_cap (ops : List Op) (st st' : Alloc × Ledger) (h : run st ops = some st')
    (ho : allocOnly ops) (hb : st.1.bytes ≤ st.1.maxBytes) :
    st'.1.bytes ≤ st'.1.maxBytes ∧ st'.1.maxBytes = st.1.maxBytes :=
  run_within_cap ops st st' h ho hb

/-- without a GC callback (the per-transaction preprocess allocator), a request past the cap is the hard panic -/
theorem allocate_panics_past_cap_noGC (a : Alloc) (size : Int) (hgc : a.hasGC = false)
    (hov : a.bytes + size ≤ maxInt64) (hlo : minInt64 ≤ a.bytes + size) (hgt : a.bytes + size > a.maxBytes) :
    allocate a size = .error .limitNoGC := allocate_noGC_past_cap hgc hov hlo hgt

example : allocate { maxBytes := 100, bytes := 90, hasGC := false, survivors := 0 } 30 = .error .limitNoGC := by
  rfl

/-- with a GC callback, a request that does not fit even after the collection panics -/
theorem allocate_panics_past_cap_afterGC (a : Alloc) (size : Int) (hgc : a.hasGC = true)
    (hov : a.bytes + size ≤ maxInt64) (hlo : minInt64 ≤ a.bytes + size) (hgt : a.bytes + size > a.maxBytes)
    (h0 : 0 ≤ a.survivors) (hle : a.survivors ≤ a.bytes) (hs : 0 ≤ size)
    (hstill : a.survivors + size > a.maxBytes) :
    allocate a size = .error .limit := allocate_GC_past_cap hgc hov hlo hgt h0 hle hs hstill

example : allocate { maxBytes := 100, bytes := 90, hasGC := true, survivors := 80 } 30 = .error .limit := by rfl

/-- a request that fits is accepted and charged exactly -/
theorem allocate_accepts_what_fits (a : Alloc) (size : Int)
    (hov : a.bytes + size ≤ maxInt64) (hlo : minInt64 ≤ a.bytes + size) (hfit : a.bytes + size ≤ a.maxBytes) :
    allocate a size = .ok { a with bytes := a.bytes + size } := allocate_fits hov hlo hfit

/-- exact effect of a successful `Allocate`: charged `size`, minus what a collection released;
never negative (guard: a collection never finds more than is tracked) -/
theorem allocate_exact (a a' : Alloc) (size : Int) (h : allocate a size = .ok a')
    (hs : 0 ≤ size) (h0 : 0 ≤ a.survivors) (hle : a.survivors ≤ a.bytes) :
    a'.bytes = a.bytes + size - freedBy a size ∧ 0 ≤ a'.bytes := allocate_ok_exact h hs h0 hle

/-- the guard is necessary: a "collection" reporting more than the int64 range lets `bytes += size`
wrap around and the check `bytes > maxBytes` pass with a negative total (the unguarded addition
after the GC retry in alloc.go) -/
theorem allocate_unguarded_wraps :
    allocate { maxBytes := 100, bytes := 50, hasGC := true, survivors := 60 } 9223372036854775757 =
      .ok { maxBytes := 100, bytes := -9223372036854775799, hasGC := true, survivors := 60 } := by rfl

/-- the ledger: over any history, tracked bytes = initial + Σ charged − Σ released -/
theorem bytes_eq_charged_minus_freed (ops : List Op) (st st' : Alloc × Ledger) (h : run st ops = some st')
    (hg : Guarded st ops) :
    st'.1.bytes = st.1.bytes + (st'.2.charged - st.2.charged) - (st'.2.freed - st.2.freed) := by
  have := run_balance ops st st' h hg
  omega

example : run ({ maxBytes := 100, bytes := 0, hasGC := true, survivors := 0 }, {})
      [.alloc 60, .setSurvivors 10, .alloc 70] =
    some ({ maxBytes := 100, bytes := 80, hasGC := true, survivors := 10 }, { charged := 130, freed := 50 }) := by
  decide

/-! ## the keeper's panic classification (`doRecoverInternal`) -/

/-- every panic value is turned into a result: nothing but out-of-gas is ever re-raised, and that
only on the transaction path (where BaseApp's runTx turns it into the out-of-gas result) -/
theorem doRecover_total (r : PanicVal) (b : Bool) : doRecover (some r) b ≠ .none := by
  cases r <;> cases b <;> decide

theorem doRecover_repanics_only_out_of_gas (r : Option PanicVal) (b : Bool) :
    doRecover r b = .repanicOutOfGas ↔ (r = some .outOfGas ∧ b = true) := by
  cases r with
  | none => simp [doRecover]
  | some v => cases v <;> cases b <;> simp [doRecover]

/-! ## recorded defect: an internal fault on a valid program (known_findings/C11.json) -/

set_option maxRecDepth 100000 in
/-- `switch { case true: x := 1; println(x); fallthrough; default: println("d") }` is a valid program
that ends normally (model = Go: it prints 1 and d), and the ending the GnoVM was observed to produce
is not an allowed one -/
theorem fallthrough_internal_fault_counterexample :
    C04.outcomeLine (C04.runProgram C04.Known.fallShrink 64) = "ok 1|d|" ∧
    fallShrinkObserved.allowed = false := by decide

/-- the ending observed on `func f() { defer f(); panic("x") }; func main() { f() }` under a gas
limit — live memory far beyond the allocation cap — is one the statement excludes -/
theorem defer_panic_recursion_memory_counterexample :
    deferPanicRecursionObserved.allowed = false ∧
    Ending.ofToken "crash:resource" = some deferPanicRecursionObserved := by decide

end GnoVerif.C11
