import GnoVerif.Model.C44
namespace GnoVerif.C44

theorem placeholder : kInt 0 = 0 := by decide

end GnoVerif.C44
