import GnoVerif.Proofs.C44
/-!
# C44 — signature verification, including multisig, is exact and never panics

Statement: *for a k-of-n multisig key, verification succeeds exactly when at least k positions are
marked and every marked position carries a valid signature by the corresponding key.  Verification
of arbitrary signature bytes returns false instead of panicking.*

Theorems are about `Model/C44.lean` (`verifyBytesE` = `PubKeyMultisigThreshold.VerifyBytes` on the
amino-DECODED structure, with checked indexing; `Except.error Panic.index` = Go index panic).
Single-key sign/verify (ed25519, secp256k1) is an abstract predicate per key: that half of the
statement is correspondence-only (harness `single`/`rawsig`/`rawkey` ops), not a theorem.

What the code does beyond the statement, made explicit below:
* the key must be a genuine k-of-n key: since /repo e5e21f6a46 `VerifyBytes` itself rejects
  `K = 0` and `K > n` (a decoded key bypasses the constructor), so `1 ≤ K ≤ n` is part of the
  acceptance condition and no guard on `K` is left in the theorems.  The only platform fact used
  is that a Go slice length is an `int` (`n < 2^63`), which makes `int(pk.K) = K` after that check.
* `len(Sigs) ≥ K` is implied by the other conditions (`verifyBytes_statement_partial` has no such
  hypothesis); `len(Sigs) ≤ n` is a genuine extra condition: unused trailing signatures are
  ignored while `len(Sigs) ≤ n` and make verification fail when `len(Sigs) > n`
  (`verifyBytes_extra_signatures_counterexample`).  Multisignatures built by
  `NewMultisig`/`AddSignature…` always have `len(Sigs) = #marked ≤ n` (`build_shape`), so for them
  the statement holds verbatim (`build_verify_iff`, `honest_signers_verify_iff`).
* a nil element of `PubKeys` (decodable) at a marked position is now rejected, not dereferenced:
  `verifyBytes_never_panics` holds for ALL inputs.
Regressions of the two defects fixed by e5e21f6a46 (K ≥ 2^63 / K = 0 accepted, nil key panic) are
pinned as `example`s below and in corpus/C44.
-/
namespace GnoVerif.C44

/-! ## A. CompactBitArray on arbitrary decoded shapes -/

/-- `GetIndex` never indexes past `Elems`, whatever `ExtraBitsStored`/`len(Elems)` say and for
    every (also negative) index: the checked model never takes the panic branch. -/
theorem getIndex_never_panics (ba : BA) (i : Int) : ba.getIndexE i = .ok (ba.getIndex i) :=
  getIndexE_eq ba i

/-- `SetIndex` never indexes past `Elems`. -/
theorem setIndex_never_panics (ba : BA) (i : Int) (v : Bool) : ∃ r, ba.setIndexE i v = .ok r :=
  setIndexE_ok ba i v

/-- `NumTrueBitsBefore` never panics and counts the positions `GetIndex` reads as true. -/
theorem numTrueBitsBefore_never_panics (ba : BA) (idx : Int) :
    ba.numTrueBitsBeforeE idx = .ok (ba.numTrueBitsBefore idx) :=
  numTrueBitsBeforeE_eq ba idx

/-- Outside `[0, Size())` every bit reads false. -/
theorem getIndex_false_outside (ba : BA) (i : Int) (h : i < 0 ∨ ba.size ≤ i) : ba.getIndex i = false :=
  getIndex_false_outside' ba i h

example : BA.size (some ⟨3, [0xff]⟩) ≤ 5 ∧ BA.getIndex (some ⟨3, [0xff]⟩) 5 = false := by decide

/-- On the shape `NewCompactBitArray(n)` produces, `Size() = n` and `GetIndex(p)` is the stored
    bit `Elems[p/8] & (1 << (7 - p%8))` for every `p < n` (nothing is cut off). -/
theorem wellFormed_reads_stored_bits (b : CBA) (n : Nat) (h : WellFormed (some b) n) :
    BA.size (some b) = (n : Int) ∧
    ∀ p, p < n → BA.getIndex (some b) (p : Int) = testBit (b.elems.getD (p / 8) 0) p :=
  ⟨h.size, fun _ hp => h.getIndex_eq hp⟩

example : WellFormed (some ⟨3, [0xa0]⟩) 3 := ⟨by decide, by decide, by decide⟩
/-- malformed shapes are inputs too: empty `Elems` with `ExtraBitsStored = 3` has `Size() = −5`,
    `ExtraBitsStored = 200` with one element has `Size() = 200`. -/
example : (CBA.mk 3 []).size = -5 ∧ (CBA.mk 200 [0x80]).size = 200 ∧ (CBA.mk 9 []).size = 1 := by decide

/-! ## B. VerifyBytes never panics -/

/-- For ALL inputs — undecodable bytes, every bit-array shape, any signature list, any threshold,
    nil constituent keys — `VerifyBytes` returns a boolean: no checked index of the model takes its
    panic branch and a nil key is never dereferenced.
    "Verification of arbitrary signature bytes returns false instead of panicking." -/
theorem verifyBytes_never_panics {σ : Type} (k : UInt64) (keys : List (Key σ)) (dec : Option (MSig σ)) :
    ∃ b, verifyBytesE k keys dec = .ok b :=
  verifyBytesE_ok k keys dec

/-- Undecodable signature bytes are rejected. -/
theorem verifyBytes_rejects_undecodable {σ : Type} (k : UInt64) (keys : List (Key σ)) :
    verifyBytesE k keys (none : Option (MSig σ)) = .ok false := rfl

/-- A key that is not a genuine k-of-n key (`K = 0` or `K > n`; decodable, the constructor is
    bypassed) verifies nothing. -/
theorem verifyBytes_rejects_bad_threshold {σ : Type} (k : UInt64) (keys : List (Key σ)) (dec : Option (MSig σ))
    (h : k.toNat = 0 ∨ keys.length < k.toNat) : verifyBytesE k keys dec = .ok false := by
  cases dec with
  | none => rfl
  | some m =>
    have h' : k.toNat = 0 ∨ k.toNat > keys.length := h
    simp [verifyBytesE, h']

example : ∃ (k : UInt64) (keys : List (Key Unit)), k.toNat = 0 ∨ keys.length < k.toNat :=
  ⟨0xFFFFFFFFFFFFFFFF, [some fun _ => true], by decide⟩

/-- A nil constituent key at a marked position makes verification fail (it used to panic). -/
theorem verifyBytes_rejects_nil_key {σ : Type} (k : UInt64) (keys : List (Key σ)) (m : MSig σ) (p : Nat)
    (hp : p < keys.length) (hnil : keys[p]? = some none) (hm : m.ba.getIndex (p : Int) = true) :
    verifyBytesE k keys (some m) = .ok false := by
  obtain ⟨b, hb⟩ := verifyBytesE_ok k keys (some m)
  cases b with
  | false => exact hb
  | true =>
    obtain ⟨m', hm', _, _, _, _, _, _, hall⟩ := (verifyBytesE_true_iff k keys (some m)).mp hb
    cases hm'
    have hmem : p ∈ marked m.ba keys.length := by
      simp [marked, List.mem_filter, List.mem_range, hp, hm]
    obtain ⟨j, hj, hjp⟩ := List.mem_iff_getElem.mp hmem
    obtain ⟨s, _, hacc⟩ := hall j hj
    rw [hjp] at hacc
    simp [keyAccepts, hnil] at hacc

/-- regressions of the defects fixed by /repo e5e21f6a46: nil key at a marked position;
    K = 2^64−1 and K = 2^63 with nothing signed; K = 0 with an empty multisignature (verified for
    EVERY message). -/
example : verifyBytesE (σ := Unit) 1 [none, some fun _ => true] (some ⟨some ⟨2, [0x80]⟩, [()]⟩) = .ok false := by decide
example : verifyBytesE (σ := Unit) 0xFFFFFFFFFFFFFFFF [some fun _ => true] (some ⟨newCompactBitArray 1, []⟩) = .ok false := by decide
example : verifyBytesE (σ := Unit) 0x8000000000000000 [some fun _ => true] (some ⟨newCompactBitArray 1, []⟩) = .ok false := by decide
example : verifyBytesE (σ := Unit) 0 [some fun _ => true, some fun _ => true] (some ⟨newCompactBitArray 2, []⟩) = .ok false := by decide
example : verifyBytesE (σ := Unit) 0 [] (some ⟨none, []⟩) = .ok false := by decide

/-! ## C. VerifyBytes accepts exactly … -/

/-- Exact characterisation for ALL inputs (any shape, any K, nil keys): accepted iff the bytes
    decode, `1 ≤ K ≤ n`, the bit array claims exactly `n` positions, `int(K) ≤ len(Sigs) ≤ n`, at
    least `int(K)` positions are marked, and the j-th signature verifies under the (non-nil) key of
    the j-th marked position. -/
theorem verifyBytes_exact {σ : Type} (k : UInt64) (keys : List (Key σ)) (dec : Option (MSig σ)) :
    verifyBytesE k keys dec = .ok true ↔ Accept k keys dec :=
  verifyBytesE_true_iff k keys dec

/-- Soundness for every input, whatever the shape and the threshold: acceptance implies a genuine
    k-of-n key, at least K marked positions, each carrying (in order) a valid signature of its key.
    (`n < 2^63`: a Go slice length is an `int`.) -/
theorem verifyBytes_sound {σ : Type} (k : UInt64) (keys : List (Key σ)) (m : MSig σ)
    (hn : keys.length < 2 ^ 63) (h : verifyBytesE k keys (some m) = .ok true) :
    1 ≤ k.toNat ∧ k.toNat ≤ (marked m.ba keys.length).length ∧ AllMarkedValid keys m keys.length := by
  obtain ⟨m', hm, h0, h1, _, _, _, h4, h5⟩ := (verifyBytesE_true_iff k keys (some m)).mp h
  cases hm
  rw [kInt_of_le hn h1] at h4
  exact ⟨h0, by omega, h5⟩

/-- The property as stated, for a genuine k-of-n key and well-formed multisignatures, nothing else
    assumed. -/
def verifyBytes_exact_statement : Prop :=
  ∀ (k : UInt64) (keys : List (Key Nat)) (m : MSig Nat),
    1 ≤ k.toNat → k.toNat ≤ keys.length → keys.length < 2 ^ 63 → WellFormed m.ba keys.length →
    (verifyBytesE k keys (some m) = .ok true ↔
      (k.toNat ≤ (marked m.ba keys.length).length ∧ AllMarkedValid keys m keys.length))

/-- The statement under the exact guard the code needs: `len(Sigs) ≤ n`; `1 ≤ K` moves into the
    right-hand side because the code now enforces `1 ≤ K ≤ n` itself (`K ≤ n` follows from
    `K ≤ #marked`).  Nothing about `len(Sigs) ≥ K` is assumed — it follows from the right-hand
    side.  Holds for every shape whose `Size()` is `n` (in particular every well-formed one). -/
theorem verifyBytes_statement_partial {σ : Type} (k : UInt64) (keys : List (Key σ)) (m : MSig σ)
    (hn : keys.length < 2 ^ 63) (hsize : m.ba.size = (keys.length : Int)) (hlen : m.sigs.length ≤ keys.length) :
    verifyBytesE k keys (some m) = .ok true ↔
      (1 ≤ k.toNat ∧ k.toNat ≤ (marked m.ba keys.length).length ∧ AllMarkedValid keys m keys.length) := by
  constructor
  · exact verifyBytes_sound k keys m hn
  · rintro ⟨h0, h1, h2⟩
    apply (verifyBytesE_true_iff k keys (some m)).mpr
    have := allMarkedValid_length h2
    have hmn := marked_length_le m.ba keys.length
    have hkn : k.toNat ≤ keys.length := by omega
    exact ⟨m, rfl, h0, hkn, hsize, by rw [kInt_of_le hn hkn]; omega, hlen,
      by rw [kInt_of_le hn hkn]; omega, h2⟩

example : ∃ (k : UInt64) (keys : List (Key Unit)) (m : MSig Unit),
    keys.length < 2 ^ 63 ∧ m.ba.size = (keys.length : Int) ∧ m.sigs.length ≤ keys.length ∧
    verifyBytesE k keys (some m) = .ok true :=
  ⟨2, [some fun _ => true, some fun _ => false, some fun _ => true], ⟨some ⟨3, [0xa0]⟩, [(), ()]⟩, by decide⟩

/-- When every supplied signature is used (`len(Sigs) = #marked`, the shape of every honestly
    built multisignature) no side condition on the list is left: the statement verbatim (for a
    key with `K ≥ 1`). -/
theorem verifyBytes_statement_all_sigs_used {σ : Type} (k : UInt64) (keys : List (Key σ)) (m : MSig σ)
    (hn : keys.length < 2 ^ 63) (hsize : m.ba.size = (keys.length : Int))
    (hused : m.sigs.length = (marked m.ba keys.length).length) :
    verifyBytesE k keys (some m) = .ok true ↔
      (1 ≤ k.toNat ∧ k.toNat ≤ (marked m.ba keys.length).length ∧ AllMarkedValid keys m keys.length) :=
  verifyBytes_statement_partial k keys m hn hsize (by have := marked_length_le m.ba keys.length; omega)

/-- More marked positions than signatures (the input of the panic fixed in 8113a62ecf) is
    rejected, for every shape and threshold. -/
theorem verifyBytes_marked_exceeds_sigs {σ : Type} (k : UInt64) (keys : List (Key σ)) (m : MSig σ)
    (h : m.sigs.length < (marked m.ba keys.length).length) :
    verifyBytesE k keys (some m) = .ok false := by
  obtain ⟨b, hb⟩ := verifyBytesE_ok k keys (some m)
  cases b with
  | false => exact hb
  | true =>
    obtain ⟨m', hm, _, _, _, _, _, _, h5⟩ := (verifyBytesE_true_iff k keys (some m)).mp hb
    cases hm
    have := allMarkedValid_length h5
    omega

example : ∃ (keys : List (Key Unit)) (m : MSig Unit), m.sigs.length < (marked m.ba keys.length).length :=
  ⟨[some fun _ => true, some fun _ => true, some fun _ => true], ⟨some ⟨3, [0xe0]⟩, [(), ()]⟩, by decide⟩

/-- the pinned witnesses of the two panics fixed earlier: K = 2, three marked bits, two valid
    signatures; and the smallest malformed shape (`ExtraBitsStored = 9`, no `Elems`, one key). -/
example : verifyBytesE (σ := Unit) 2 [some fun _ => true, some fun _ => true, some fun _ => true]
    (some ⟨some ⟨3, [0xe0]⟩, [(), ()]⟩) = .ok false := by decide
example : verifyBytesE (σ := Unit) 1 [some fun _ => true] (some ⟨some ⟨9, []⟩, [()]⟩) = .ok false := by decide
example : verifyBytesE (σ := Unit) 1 (List.replicate 9 (some fun _ => true)) (some ⟨some ⟨9, [0x80]⟩, [()]⟩)
    = .ok true := by decide

/-- Not a defect of honest use, but a reading of the statement the code does not implement:
    1-of-2, position 0 marked with a valid signature, two unused trailing signatures
    (`len(Sigs) = 3 > n = 2`) ⇒ rejected, although "at least k positions are marked and every
    marked position carries a valid signature"; with one trailing signature (`len(Sigs) = n`) the
    same input is accepted. -/
theorem verifyBytes_extra_signatures_counterexample :
    let keys : List (Key Nat) := [some fun s => s == 0, some fun _ => false]
    let ba : BA := some ⟨2, [0x80]⟩
    (1 ≤ (marked ba 2).length ∧ AllMarkedValid keys ⟨ba, [0, 7, 7]⟩ 2) ∧
    verifyBytesE 1 keys (some ⟨ba, [0, 7, 7]⟩) = .ok false ∧
    verifyBytesE 1 keys (some ⟨ba, [0, 7]⟩) = .ok true := by
  refine ⟨⟨by decide, ?_⟩, by decide, by decide⟩
  intro j hj
  have hm : marked (some ⟨2, [0x80]⟩) 2 = [0] := by decide
  simp only [hm, List.length_cons, List.length_nil] at hj
  have : j = 0 := by omega
  subst this
  exact ⟨0, rfl, by simp [hm, keyAccepts]⟩

/-- hence the unguarded statement is false exactly because of `len(Sigs) > n`
    (`verifyBytes_statement_partial` is the statement under that one guard). -/
theorem verifyBytes_exact_counterexample : ¬ verifyBytes_exact_statement := by
  intro h
  obtain ⟨⟨h1, h2⟩, hrej, _⟩ := verifyBytes_extra_signatures_counterexample
  have := (h 1 [some fun s => s == 0, some fun _ => false] ⟨some ⟨2, [0x80]⟩, [0, 7, 7]⟩
    (by decide) (by decide) (by decide) ⟨by decide, by decide, by decide⟩).mpr ⟨h1, h2⟩
  rw [hrej] at this
  cases this

/-! ## D. multisignatures built by NewMultisig / AddSignature -/

/-- `NewMultisig(n)` represents the empty assignment. -/
theorem newMultisig_represents {σ : Type} (n : Nat) :
    Represents n (newMultisig (σ := σ) (n : Int)) (fun _ => none) :=
  represents_new n

/-- `AddSignature(sig, i)`, `i < n`, never panics on a represented multisignature and assigns
    `sig` to position `i` (replacing an earlier one; the list stays in position order). -/
theorem addSignature_refines {σ : Type} {n : Nat} {m : MSig σ} {f : Nat → Option σ}
    (h : Represents n m f) (s : σ) {i : Nat} (hi : i < n) :
    ∃ m', addSignatureE m s (i : Int) = .ok m' ∧
      Represents n m' (fun p => if p = i then some s else f p) :=
  addSignatureE_spec h s hi

/-- `AddSignatureFromPubKey` with a key of the set adds at the first position holding that key;
    with a foreign key it reports an error and changes nothing. -/
theorem addSignatureFromPubKey_spec {σ κ : Type} [DecidableEq κ] (m : MSig σ) (s : σ) (pk : κ) (keys : List κ) :
    (pk ∉ keys → addSignatureFromPubKeyE m s pk keys = .ok none) ∧
    (∀ i : Nat, keys[i]? = some pk → (∀ j : Nat, j < i → keys[j]? ≠ some pk) →
      addSignatureFromPubKeyE m s pk keys = (addSignatureE m s (i : Int)).map some) := by
  have key : ∀ (l : List κ) (off : Nat),
      (pk ∉ l → keyIndexFrom pk l off = -1) ∧
      (∀ i : Nat, l[i]? = some pk → (∀ j : Nat, j < i → l[j]? ≠ some pk) → keyIndexFrom pk l off = ((off + i : Nat) : Int)) := by
    intro l
    induction l with
    | nil => intro off; exact ⟨fun _ => rfl, fun i h => by simp at h⟩
    | cons a l ih =>
      intro off
      constructor
      · intro hn
        simp only [List.mem_cons, not_or] at hn
        simp only [keyIndexFrom, hn.1, if_false]
        exact (ih (off + 1)).1 hn.2
      · intro i hi hfirst
        cases i with
        | zero =>
          simp only [List.getElem?_cons_zero, Option.some.injEq] at hi
          simp [keyIndexFrom, hi]
        | succ i =>
          have h0 := hfirst 0 (by omega)
          simp only [List.getElem?_cons_zero, ne_eq, Option.some.injEq] at h0
          have h0' : ¬ pk = a := fun e => h0 e.symm
          simp only [keyIndexFrom, h0', if_false]
          rw [(ih (off + 1)).2 i (by simpa using hi) (fun j hj => by simpa using hfirst (j + 1) (by omega))]
          congr 1; omega
  constructor
  · intro hn
    simp [addSignatureFromPubKeyE, keyIndex, (key keys 0).1 hn]
  · intro i hi hfirst
    have := (key keys 0).2 i hi hfirst
    simp only [Nat.zero_add] at this
    simp only [addSignatureFromPubKeyE, keyIndex, this]
    rw [if_neg (by omega)]

example : (keyIndex 7 [5, 7, 7] = 1) ∧ (keyIndex 9 [5, 7, 7] = -1) := by decide

/-- `AddSignature` on anything built from `NewMultisig(n)` never panics, for ARBITRARY `int`
    indices (negative or ≥ n: the signature is appended and nothing is marked). -/
theorem build_never_panics_any_index {σ : Type} (n : Nat) (adds : List (Int × σ)) :
    ∃ m, addAllIntE (newMultisig (n : Int)) adds = .ok m ∧ Built n m :=
  addAllIntE_ok adds ⟨(represents_new n).1, by
    have h := sigs_length_of_represents (represents_new (σ := σ) n)
    rw [← h]; exact Nat.le_refl _⟩

/-- e.g. positions 2, 0, then 2 again (replacement): `Sigs` stays in position order. -/
example : (addAllE (newMultisig ((3 : Nat) : Int)) [(2, 12), (0, 10), (2, 13)]).toOption.map (fun m => (m.sigs, m.ba))
    = some ([10, 13], some ⟨3, [0xa0]⟩) := by decide
/-- out-of-range indices append without marking. -/
example : (addAllIntE (newMultisig ((3 : Nat) : Int)) [(1, 11), (99, 7), (-1, 8)]).toOption.map (fun m => (m.sigs, m.ba))
    = some ([8, 11, 7], some ⟨3, [0x40]⟩) := by decide

/-- Any sequence of in-range `AddSignature` calls from `NewMultisig(n)` succeeds and yields a
    well-formed multisignature with `len(Sigs) = #marked ≤ n`: the code's extra length conditions
    are implied for honestly built multisignatures. -/
theorem build_shape {σ : Type} (n : Nat) (adds : List (Nat × σ)) (hin : ∀ a ∈ adds, a.1 < n) :
    ∃ m, addAllE (newMultisig (n : Int)) adds = .ok m ∧ WellFormed m.ba n ∧ m.ba.size = (n : Int) ∧
      m.sigs.length = (marked m.ba n).length ∧ m.sigs.length ≤ n := by
  obtain ⟨m, h1, h2⟩ := addAllE_spec adds (represents_new n) hin
  have := marked_length_le m.ba n
  have hl := sigs_length_of_represents h2
  exact ⟨m, h1, h2.1, h2.1.size, hl, by omega⟩

/-- … and it verifies iff `K ≥ 1`, at least K positions got a signature and, for every position, the
    LATEST signature added for it verifies under that position's key. -/
theorem build_verify_iff {σ : Type} (k : UInt64) (keys : List (Key σ)) (adds : List (Nat × σ))
    (hn : keys.length < 2 ^ 63) (hin : ∀ a ∈ adds, a.1 < keys.length) :
    ∃ m, addAllE (newMultisig (keys.length : Int)) adds = .ok m ∧
      (verifyBytesE k keys (some m) = .ok true ↔
        (1 ≤ k.toNat ∧ k.toNat ≤ ((List.range keys.length).filter fun p => (assignAll (fun _ => none) adds p).isSome).length ∧
          ∀ p, p < keys.length → ∀ s, assignAll (fun _ => none) adds p = some s → keyAccepts keys p s = true)) := by
  obtain ⟨m, h1, h2⟩ := addAllE_spec adds (represents_new keys.length) hin
  exact ⟨m, h1, verifyBytesE_of_represents k keys rfl h2 hn⟩

/-- The honest case: signers `S` (any order, repetitions allowed), each contributing a signature
    valid under its own key ⇒ the multisignature verifies iff `K ≥ 1` and at least K DISTINCT
    signers signed. -/
theorem honest_signers_verify_iff {σ : Type} (k : UInt64) (keys : List (Key σ)) (S : List Nat) (sigOf : Nat → σ)
    (hn : keys.length < 2 ^ 63) (hin : ∀ i ∈ S, i < keys.length)
    (hvalid : ∀ i ∈ S, keyAccepts keys i (sigOf i) = true) :
    ∃ m, addAllE (newMultisig (keys.length : Int)) (S.map fun i => (i, sigOf i)) = .ok m ∧
      (verifyBytesE k keys (some m) = .ok true ↔
        (1 ≤ k.toNat ∧ k.toNat ≤ ((List.range keys.length).filter fun p => decide (p ∈ S)).length)) := by
  obtain ⟨m, h1, h2⟩ := build_verify_iff k keys (S.map fun i => (i, sigOf i)) hn
    (by intro a ha; obtain ⟨i, hi, rfl⟩ := List.mem_map.mp ha; exact hin i hi)
  refine ⟨m, h1, ?_⟩
  rw [h2]
  have hf : ∀ p, assignAll (fun _ => none) (S.map fun i => (i, sigOf i)) p = if p ∈ S then some (sigOf p) else none :=
    fun p => assignAll_map sigOf S _ p
  have hfilter : ((List.range keys.length).filter fun p => (assignAll (fun _ => none) (S.map fun i => (i, sigOf i)) p).isSome)
      = (List.range keys.length).filter fun p => decide (p ∈ S) := by
    apply List.filter_congr
    intro p _
    rw [hf p]
    by_cases hp : p ∈ S <;> simp [hp]
  rw [hfilter]
  constructor
  · exact fun h => ⟨h.1, h.2.1⟩
  · intro h
    refine ⟨h.1, h.2, ?_⟩
    intro p _ s hs
    rw [hf p] at hs
    by_cases hp : p ∈ S
    · simp only [hp, if_true, Option.some.injEq] at hs
      subst hs; exact hvalid p hp
    · simp [hp] at hs

/-- With pairwise distinct signers the count is `|S|`: verifies ⇔ `|S| ≥ k` (and `k ≥ 1`). -/
theorem honest_subset_verify_iff {σ : Type} (k : UInt64) (keys : List (Key σ)) (S : List Nat) (sigOf : Nat → σ)
    (hn : keys.length < 2 ^ 63) (hnodup : S.Nodup) (hin : ∀ i ∈ S, i < keys.length)
    (hvalid : ∀ i ∈ S, keyAccepts keys i (sigOf i) = true) :
    ∃ m, addAllE (newMultisig (keys.length : Int)) (S.map fun i => (i, sigOf i)) = .ok m ∧
      (verifyBytesE k keys (some m) = .ok true ↔ (1 ≤ k.toNat ∧ k.toNat ≤ S.length)) := by
  obtain ⟨m, h1, h2⟩ := honest_signers_verify_iff k keys S sigOf hn hin hvalid
  exact ⟨m, h1, by rw [h2, distinct_count_nodup hnodup hin]⟩

example : ∃ (keys : List (Key Nat)) (S : List Nat) (sigOf : Nat → Nat),
    S.Nodup ∧ (∀ i ∈ S, i < keys.length) ∧ (∀ i ∈ S, keyAccepts keys i (sigOf i) = true) ∧ S.length = 2 :=
  ⟨[some fun s => s == 10, some fun s => s == 11, some fun s => s == 12], [2, 0], fun i => 10 + i,
    by decide, by decide, by decide, rfl⟩

/-! ## E. the ante handler's gas consumer (runs before VerifyBytes) -/

/-- On every input that `VerifyBytes` accepts, `consumeMultisignatureVerificationGas` does not
    panic (its unchecked `Sigs[sigIndex]` / `PubKeys[i]` stay in range). -/
theorem gas_no_panic_when_accepted {σ : Type} (k : UInt64) (keys : List (Key σ)) (m : MSig σ)
    (costs : List (Option Nat)) (hc : costs.length = keys.length)
    (h : verifyBytesE k keys (some m) = .ok true) : ∃ g, multisigGasE costs (some m) = .ok g := by
  obtain ⟨m', hm, _, _, h1, _, _, _, h5⟩ := (verifyBytesE_true_iff k keys (some m)).mp h
  cases hm
  apply multisigGasE_ok
  · omega
  · rw [h1, Int.toNat_natCast]; exact allMarkedValid_length h5

/-- The full clause for the gas consumer: no panic on any signature bytes. -/
def gas_never_panics_statement : Prop :=
  ∀ (costs : List (Option Nat)) (dec : Option (MSig Unit)), ∃ g, multisigGasE costs dec = .ok g

/-- FINDING (unchanged tree): it panics on undecodable bytes (`amino.MustUnmarshal`) and on three
    marked positions with two signatures (`sig.Sigs[2]`); both are reached before `VerifyBytes`
    gets to reject the input. -/
theorem gas_never_panics_counterexample :
    ¬ gas_never_panics_statement ∧
    multisigGasE (σ := Unit) [some 590, some 1000, some 590] none = .error .decode ∧
    multisigGasE (σ := Unit) [some 590, some 1000, some 590] (some ⟨some ⟨3, [0xe0]⟩, [(), ()]⟩) = .error .index := by
  refine ⟨?_, rfl, by decide⟩
  intro h
  obtain ⟨g, hg⟩ := h [] none
  cases hg

end GnoVerif.C44
