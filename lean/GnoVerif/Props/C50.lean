import GnoVerif.Spec.C50AvlInv
import GnoVerif.Proofs.C50Avl
import GnoVerif.Proofs.C50Read
import GnoVerif.Proofs.C50Iter
import GnoVerif.Proofs.C50Offset
import GnoVerif.Proofs.C50Shape
/-!
# C50 — the Gno avl package is a balanced ordered map

Statement: *for every sequence of sets and removes, the Gno avl tree answers
gets, membership, size, by-index lookups and ordered or reverse iteration over
any range exactly like an ordered map, and stays height-balanced.*

Model: `Model/C50Avl.lean` (port of node.gno / tree.gno).  Spec: `Spec/C50OMap.lean`
(strictly sorted association list).  Abstraction `Tree.toList`, invariant
`Tree.WF`: `Spec/C50AvlInv.lean`.

Every theorem below is about an arbitrary well-formed tree (`t.WF`), and
`history` shows that every tree reachable from the empty tree by any sequence
of `Set`/`Remove` is well-formed and represents exactly the ordered map obtained
by the same sequence of `insert`/`erase` — so every theorem applies after every
history (`history_observations` spells that out).  No Go panic is reachable in
`Set`/`Remove` (`set_refines`/`remove_refines` give `.ok`); `GetByIndex` panics
exactly on an out-of-range index (`getByIndex_out_of_range`).

Range conventions are the package's documented ones (`OMap.inRange`): `""` =
unbounded, start inclusive, end exclusive ascending / inclusive descending.
-/
namespace GnoVerif.C50
open OMap

variable {α σ : Type}

/-! ## the invariant holds initially and is non-vacuous -/

theorem wf_empty : (Tree.empty : Tree α).WF ∧ (Tree.empty : Tree α).toList = [] :=
  ⟨trivial, rfl⟩

example : exTree.WF ∧ exTree.toList = [([], 1), ([97], 2), ([97, 0], 3)] := by
  refine ⟨⟨?_, ?_⟩, rfl⟩
  · simp only [Node.inv_inner, Node.inv_leaf, Node.height_leaf, Node.height_inner, Node.size_leaf,
      Node.size_inner, Node.minKey_leaf, Node.minKey_inner]
    decide
  · simp only [Sorted, Node.toList_inner, Node.toList_leaf, List.cons_append, List.nil_append]
    decide

/-! ## Set and Remove preserve the invariant and refine insert / erase -/

/-- `Set` never panics on a well-formed tree, keeps it well-formed, implements
`insert`, and reports `updated` exactly when the key was present. -/
theorem set_refines (t : Tree α) (hw : t.WF) (k : Key) (v : α) :
    ∃ t' u, t.set k v = .ok (t', u) ∧ t'.WF ∧
      t'.toList = OMap.insert k v t.toList ∧ (u = true ↔ k ∈ keys t.toList) := by
  obtain ⟨node⟩ := t
  cases node with
  | none =>
    refine ⟨_, _, rfl, ?_, rfl, by simp [Tree.toList, keys]⟩
    exact ⟨trivial, by simp [Node.toList, Sorted]⟩
  | some n =>
    obtain ⟨hi, hs⟩ := hw
    obtain ⟨n', u, hset, hin', htl, hu, -, -⟩ := Node.set_spec k v hi hs
    refine ⟨⟨some n'⟩, u, by simp [Tree.set, hset], ⟨hin', ?_⟩, htl, hu⟩
    rw [htl]; exact sorted_insert hs

example : ∃ t' u, exTree.set [97] 7 = .ok (t', u) ∧ u = true ∧
    t'.toList = [([], 1), ([97], 7), ([97, 0], 3)] := ⟨_, _, rfl, rfl, rfl⟩

/-- `Remove` never panics on a well-formed tree, keeps it well-formed, implements
`erase`, returns the stored value, and reports `removed` exactly when the key was present. -/
theorem remove_refines (t : Tree α) (hw : t.WF) (k : Key) :
    ∃ t' val rem, t.remove k = .ok (t', val, rem) ∧ t'.WF ∧
      t'.toList = erase k t.toList ∧ val = lookup k t.toList ∧ (rem = true ↔ k ∈ keys t.toList) := by
  obtain ⟨node⟩ := t
  cases node with
  | none => exact ⟨_, _, _, rfl, trivial, rfl, rfl, by simp [Tree.toList, keys]⟩
  | some n =>
    obtain ⟨hi, hs⟩ := hw
    obtain ⟨nn, nkey, val, rem, hrm, hval, hrem, hno, hyes⟩ := Node.remove_spec k hi hs
    refine ⟨⟨nn⟩, val, rem, by simp [Tree.remove, hrm], ?_, ?_, hval, hrem⟩
    · cases rem with
      | false => rw [(hno rfl).1]; exact ⟨hi, hs⟩
      | true =>
        obtain ⟨herase, hm⟩ := hyes rfl
        cases nn with
        | none => trivial
        | some n' =>
          refine ⟨hm.1, ?_⟩
          have : n'.toList = erase k n.toList := herase
          rw [this]; exact sorted_erase hs
    · cases rem with
      | false =>
        have hk : k ∉ keys n.toList := fun h => by have := hrem.2 h; simp at this
        rw [(hno rfl).1]
        exact (erase_of_not_mem hk).symm
      | true =>
        obtain ⟨herase, -⟩ := hyes rfl
        cases nn <;> exact herase

example : ∃ t', exTree.remove [97] = .ok (t', some 2, true) ∧ t'.toList = [([], 1), ([97, 0], 3)] :=
  ⟨_, rfl, rfl⟩

/-! ## reads agree with the ordered map -/

theorem wf_sorted (t : Tree α) (hw : t.WF) : Sorted t.toList := by
  obtain ⟨node⟩ := t
  cases node with
  | none => simp [Tree.toList, Sorted]
  | some n => exact hw.2

theorem get_refines (t : Tree α) (hw : t.WF) (k : Key) : t.get k = lookup k t.toList := by
  obtain ⟨node⟩ := t
  cases node with
  | none => rfl
  | some n => simp [Tree.get, Tree.nodeGet, Tree.toList, Node.get_spec k hw.1 hw.2]

/-- `Node.Get` on the root: (rank of the key, value, exists) -/
theorem nodeGet_refines (t : Tree α) (hw : t.WF) (k : Key) :
    t.nodeGet k = (((rank k t.toList : Nat) : Int), lookup k t.toList, contains k t.toList) := by
  obtain ⟨node⟩ := t
  cases node with
  | none => rfl
  | some n => simp [Tree.nodeGet, Tree.toList, Node.get_spec k hw.1 hw.2]

theorem has_refines (t : Tree α) (hw : t.WF) (k : Key) : t.has k = contains k t.toList := by
  obtain ⟨node⟩ := t
  cases node with
  | none => rfl
  | some n => simp [Tree.has, Tree.toList, Node.has_spec k hw.1 hw.2]

theorem size_refines (t : Tree α) (hw : t.WF) : t.size = t.toList.length := by
  obtain ⟨node⟩ := t
  cases node with
  | none => rfl
  | some n => simp [Tree.size, Tree.toList, Node.size_eq_length hw.1]

/-- `GetByIndex(i)` returns the `i`-th entry of the sorted list for `0 ≤ i < size` -/
theorem getByIndex_refines (t : Tree α) (hw : t.WF) (i : Nat) (h : i < t.toList.length) :
    t.getByIndex (i : Int) = .ok (t.toList[i]) := by
  obtain ⟨node⟩ := t
  cases node with
  | none => simp [Tree.toList] at h
  | some n =>
    have h0 : ¬ ((i : Int) < 0) := by omega
    simp only [Tree.getByIndex, h0, if_false, Tree.toList]
    exact Node.getByIndex_spec hw.1 h

/-- … and panics (it has no answer) exactly outside that range -/
theorem getByIndex_out_of_range (t : Tree α) (hw : t.WF) (i : Int)
    (h : i < 0 ∨ (t.toList.length : Int) ≤ i) : ∃ e, t.getByIndex i = .error e := by
  obtain ⟨node⟩ := t
  by_cases hneg : i < 0
  · exact ⟨.neg, by simp [Tree.getByIndex, hneg]⟩
  · cases node with
    | none => exact ⟨.nilderef, by simp [Tree.getByIndex, hneg]⟩
    | some n =>
      refine ⟨.idx, ?_⟩
      simp only [Tree.getByIndex, hneg, if_false]
      apply Node.getByIndex_oob hw.1
      rw [Node.size_eq_length hw.1]
      simp only [Tree.toList] at h
      omega

example : exTree.getByIndex 1 = .ok ([97], 2) ∧ exTree.getByIndex 3 = .error .idx ∧
    exTree.getByIndex (-1) = .error .neg := ⟨rfl, rfl, rfl⟩

/-! ## iteration -/

/-- `Iterate(start, end, cb)` feeds `cb` the entries with `start ≤ k < end`
(`""` = unbounded) in ascending order, stops as soon as `cb` answers true, and
returns whether it did. -/
theorem iterate_refines (t : Tree α) (hw : t.WF) (start end_ : Key)
    (cb : σ → Key → Option α → σ × Bool) (s : σ) :
    t.iterate start end_ cb s =
      runCb (fun s k v => cb s k (some v)) s (range t.toList start end_ true) := by
  obtain ⟨node⟩ := t
  cases node with
  | none => simp [Tree.iterate, Tree.nodeTraverseInRange, Tree.toList, range, runCb]
  | some n =>
    simp only [Tree.iterate, Tree.nodeTraverseInRange, Tree.toList]
    exact Node.traverseInRange_spec start end_ true _ s hw.1 hw.2

/-- `ReverseIterate(start, end, cb)`: the entries with `start ≤ k ≤ end` in descending order. -/
theorem reverseIterate_refines (t : Tree α) (hw : t.WF) (start end_ : Key)
    (cb : σ → Key → Option α → σ × Bool) (s : σ) :
    t.reverseIterate start end_ cb s =
      runCb (fun s k v => cb s k (some v)) s (range t.toList start end_ false) := by
  obtain ⟨node⟩ := t
  cases node with
  | none => simp [Tree.reverseIterate, Tree.nodeTraverseInRange, Tree.toList, range, runCb]
  | some n =>
    simp only [Tree.reverseIterate, Tree.nodeTraverseInRange, Tree.toList]
    exact Node.traverseInRange_spec start end_ false _ s hw.1 hw.2

/-- what the range denotes: exactly the entries of the map whose key is in range,
ascending or descending -/
theorem range_spec (m : List (Key × α)) (start end_ : Key) :
    range m start end_ true =
      m.filter (fun p => (start = [] ∨ start ≤ p.1) ∧ (end_ = [] ∨ p.1 < end_)) ∧
    range m start end_ false =
      (m.filter (fun p => (start = [] ∨ start ≤ p.1) ∧ (end_ = [] ∨ p.1 ≤ end_))).reverse := by
  constructor <;> simp [range, inRange]

/-- `IterateByOffset(offset, count, cb)` feeds `cb` the entries at positions
`offset … offset+count-1` of the ascending order (negative offset = 0, `count ≤ 0`
= nothing), stopping when `cb` answers true.  Its boolean result is "stopped, or
the window ended before the last entry" (`limit reached`, node.gno). -/
theorem iterateByOffset_refines (t : Tree α) (hw : t.WF) (offset count : Int)
    (cb : σ → Key → Option α → σ × Bool) (s : σ) :
    t.iterateByOffset offset count cb s =
      ((runCb (fun s k v => cb s k (some v)) s (window t.toList offset count true)).1,
       (runCb (fun s k v => cb s k (some v)) s (window t.toList offset count true)).2 ||
         decide (0 < count ∧ max offset 0 + count < t.toList.length)) :=
  Tree.byOffset_aux t hw true offset count cb s

/-- `ReverseIterateByOffset`: the same window of the descending order. -/
theorem reverseIterateByOffset_refines (t : Tree α) (hw : t.WF) (offset count : Int)
    (cb : σ → Key → Option α → σ × Bool) (s : σ) :
    t.reverseIterateByOffset offset count cb s =
      ((runCb (fun s k v => cb s k (some v)) s (window t.toList offset count false)).1,
       (runCb (fun s k v => cb s k (some v)) s (window t.toList offset count false)).2 ||
         decide (0 < count ∧ max offset 0 + count < t.toList.length)) :=
  Tree.byOffset_aux t hw false offset count cb s

/-! ## shape: balanced search tree of logarithmic height -/

/-- a well-formed tree is height-balanced (heights recomputed from the shape, not
the cached field), routes like a search tree, and its cached heights are exact -/
theorem wf_balanced (t : Tree α) (hw : t.WF) :
    t.Balanced ∧
    (match t.node with
     | none => True
     | some n => n.SearchTree ∧ n.height = (n.realHeight : Int)) := by
  obtain ⟨node⟩ := t
  cases node with
  | none => exact ⟨trivial, trivial⟩
  | some n =>
    exact ⟨Node.balanced_of_inv hw.1, Node.searchTree_of_wf hw.1 hw.2, Node.height_eq_realHeight hw.1⟩

/-- The invariant is hereditary, and at EVERY node the cached `height` and `size`
fields are exact and Go's leaf test `height == 0` coincides with the model's
constructor test (the representation assumption of `Model/C50Avl.lean`). -/
theorem wf_every_node (t : Tree α) (hw : t.WF) :
    match t.node with
    | none => True
    | some n => n.Forall (fun m => m.WF ∧ m.height = (m.realHeight : Int) ∧
        m.size = (m.toList.length : Int) ∧ (m.height = 0 ↔ m.isLeaf = true)) := by
  obtain ⟨node⟩ := t
  cases node with
  | none => trivial
  | some n => exact Node.forall_of_wf hw.1 hw.2

/-- `2^(height/2) ≤ size`; hence with fewer than 2^63 entries (Go's `int` size
field cannot hold more) the height is at most 125 and the `int8` height field,
including the `+1` in `calcHeightAndSize`, never overflows. -/
theorem height_fits_int8 (t : Tree α) (hw : t.WF) :
    2 ^ (t.realHeight / 2) ≤ max t.toList.length 1 ∧
    (t.toList.length < 2 ^ 63 → t.realHeight ≤ 125) := by
  have key : 2 ^ (t.realHeight / 2) ≤ max t.toList.length 1 := by
    obtain ⟨node⟩ := t
    cases node with
    | none => simp [Tree.realHeight, Tree.toList]
    | some n =>
      have := Node.pow_le_length hw.1
      simp only [Tree.realHeight, Tree.toList]
      omega
  refine ⟨key, fun hlt => ?_⟩
  refine Classical.byContradiction fun hgt => ?_
  have h63 : 63 ≤ t.realHeight / 2 := by omega
  have : 2 ^ 63 ≤ 2 ^ (t.realHeight / 2) := Nat.pow_le_pow_right (by omega) h63
  omega

/-! ## every history -/

/-- Every sequence of `Set`/`Remove` from the empty tree runs without panic, ends
in a well-formed tree, and that tree represents exactly the ordered map obtained
by the same sequence of `insert`/`erase`. -/
theorem history (ops : List (Op α)) :
    ∃ t, Tree.run Tree.empty ops = .ok t ∧ t.WF ∧ t.toList = OMap.run [] ops := by
  suffices h : ∀ (ops : List (Op α)) (t0 : Tree α), t0.WF →
      ∃ t, Tree.run t0 ops = .ok t ∧ t.WF ∧ t.toList = OMap.run t0.toList ops from
    h ops Tree.empty trivial
  intro ops
  induction ops with
  | nil => intro t0 hw; exact ⟨t0, rfl, hw, rfl⟩
  | cons op ops ih =>
    intro t0 hw
    cases op with
    | set k v =>
      obtain ⟨t', u, hset, hw', htl, -⟩ := set_refines t0 hw k v
      obtain ⟨t, hrun, hwt, htt⟩ := ih t' hw'
      refine ⟨t, ?_, hwt, ?_⟩
      · simp [Tree.run, Tree.apply, hset, hrun]
      · rw [htt, htl]; rfl
    | remove k =>
      obtain ⟨t', val, rem, hrm, hw', htl, -⟩ := remove_refines t0 hw k
      obtain ⟨t, hrun, hwt, htt⟩ := ih t' hw'
      refine ⟨t, ?_, hwt, ?_⟩
      · simp [Tree.run, Tree.apply, hrm, hrun]
      · rw [htt, htl]; rfl

/-- The property statement, assembled: after every history the tree answers
gets, membership, size, by-index lookups, range / reverse / by-offset iteration
exactly like the ordered map `m` produced by that history, and is height-balanced. -/
theorem history_observations (ops : List (Op α)) :
    ∃ t, Tree.run Tree.empty ops = .ok t ∧
      let m := OMap.run [] ops
      Sorted m ∧ t.toList = m ∧
      (∀ k, t.get k = lookup k m) ∧
      (∀ k, t.has k = contains k m) ∧
      t.size = m.length ∧
      (∀ (i : Nat) (h : i < m.length), t.getByIndex i = .ok (m[i])) ∧
      (∀ (i : Int), (i < 0 ∨ (m.length : Int) ≤ i) → ∃ e, t.getByIndex i = .error e) ∧
      (∀ (σ : Type) (start end_ : Key) (cb : σ → Key → Option α → σ × Bool) (s : σ),
        t.iterate start end_ cb s = runCb (fun s k v => cb s k (some v)) s (range m start end_ true) ∧
        t.reverseIterate start end_ cb s = runCb (fun s k v => cb s k (some v)) s (range m start end_ false)) ∧
      (∀ (σ : Type) (offset count : Int) (cb : σ → Key → Option α → σ × Bool) (s : σ),
        (t.iterateByOffset offset count cb s).1 =
          (runCb (fun s k v => cb s k (some v)) s (window m offset count true)).1 ∧
        (t.reverseIterateByOffset offset count cb s).1 =
          (runCb (fun s k v => cb s k (some v)) s (window m offset count false)).1) ∧
      t.Balanced := by
  obtain ⟨t, hrun, hw, htl⟩ := history ops
  refine ⟨t, hrun, ?_⟩
  have hs := wf_sorted t hw
  simp only
  rw [← htl]
  refine ⟨hs, rfl, get_refines t hw, has_refines t hw, size_refines t hw,
    getByIndex_refines t hw, getByIndex_out_of_range t hw, ?_, ?_, (wf_balanced t hw).1⟩
  · intro σ start end_ cb s
    exact ⟨iterate_refines t hw start end_ cb s, reverseIterate_refines t hw start end_ cb s⟩
  · intro σ offset count cb s
    rw [iterateByOffset_refines t hw, reverseIterateByOffset_refines t hw]
    exact ⟨rfl, rfl⟩

example : ∃ t, Tree.run (Tree.empty : Tree Nat) [.set [98] 1, .set [97] 2, .set [] 3, .remove [98], .set [97] 4] = .ok t ∧
    t.toList = [([], 3), ([97], 4)] := ⟨_, rfl, rfl⟩

end GnoVerif.C50
