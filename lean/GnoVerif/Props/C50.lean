import GnoVerif.Model.C50Avl
namespace GnoVerif.C50

theorem wf_placeholder : (Tree.empty : Tree Nat).node = none := rfl

end GnoVerif.C50
