import GnoVerif.Model.C40
namespace GnoVerif.C40

theorem placeholder : (init ⟨1,1,1,1,true⟩).txs = [] := rfl

end GnoVerif.C40
