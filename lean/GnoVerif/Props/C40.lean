import GnoVerif.Proofs.C40Reap
/-!
C40 — the mempool never duplicates, loses order, or over-reaps.

Theorems about the atomic-step model `GnoVerif.Model.C40` of
tm2/pkg/bft/mempool/clist_mempool.go.  `run (init c) ops` is the mempool after
ANY finite sequence `ops` of CheckTx (with the app's answer as input), Update
(any committed list with valid/invalid results, any recheck answers),
ReapMaxBytesMaxGas, ReapMaxTxs and Flush steps, for ANY configuration `c`.
Helper lemmas: Proofs/C40.lean, Proofs/C40Reap.lean.
-/
namespace GnoVerif.C40

/-- The mempool never holds the same transaction twice. -/
theorem no_duplicates (c : Config) (ops : List Op) :
    ((run (init c) ops).txs.map (·.tx)).Nodup :=
  (run_inv (init_inv c) ops).nodup

/-- Transactions are kept in arrival order: the pool is a subsequence of the arrival log
    (every element ever appended, in the order appended), and element identities increase. -/
theorem arrival_order (c : Config) (ops : List Op) :
    (run (init c) ops).txs.Sublist (arrivals (init c) ops) ∧
    ((run (init c) ops).txs.map (·.id)).Pairwise (· < ·) := by
  refine ⟨?_, (run_inv (init_inv c) ops).ids.1⟩
  have := run_sublist (init c) ops
  simpa [init] using this

/-- Update removes every committed transaction (whatever its DeliverTx result, whether or not
    it was in the pool, whatever the recheck answers). -/
theorem update_removes_committed (c : Config) (ops : List Op) (h : Int)
    (committed : List (Tx × Bool)) (answers : List Bool) :
    ∀ p ∈ committed, p.1 ∉ (run (init c) (ops ++ [.update h committed answers])).txs.map (·.tx) := by
  intro p hp
  rw [run_append]
  exact update_gone (run_inv (init_inv c) ops) h committed answers p hp

/-- ReapMaxBytesMaxGas panics exactly when `maxDataBytes = 0`. -/
theorem reap_bytes_gas_panics_iff (s : State) (mb mg : Int) : reapBG s mb mg = none ↔ mb = 0 := by
  unfold reapBG
  by_cases h : mb = 0 <;> simp [h]

/-- ReapMaxBytesMaxGas returns the LONGEST prefix of the pool within both limits
    (a negative limit = unlimited): it is the first `k` txs, they fit, and no longer prefix fits.
    Hypothesis: the pooled GasWanted values are non-negative. -/
theorem reap_bytes_gas_longest_prefix (s : State) (mb mg : Int) (hmb : mb ≠ 0)
    (hg : ∀ t ∈ s.txs, 0 ≤ t.gas) :
    ∃ k, k ≤ s.txs.length ∧ reapBG s mb mg = some ((s.txs.take k).map (·.tx)) ∧
      Fits mb mg (s.txs.take k) ∧
      ∀ k', k < k' → k' ≤ s.txs.length → ¬ Fits mb mg (s.txs.take k') := by
  obtain ⟨k, hk, heq, hfit, hmax⟩ := reapBGLoop_spec mb mg s.txs 0 0 []
    ⟨fun h => by rw [sumBytes_nil]; omega, fun h => by show (0 : Int) + 0 ≤ mg; omega⟩
  refine ⟨k, hk, ?_, (fitsFrom_zero _ _ _).1 hfit, ?_⟩
  · unfold reapBG
    rw [if_neg hmb, heq]; simp
  · intro k' hlt hle
    have hk1 : ¬ Fits mb mg (s.txs.take (k+1)) := fun hf => hmax (by omega) ((fitsFrom_zero _ _ _).2 hf)
    exact not_fits_mono hg (by omega) hk1

/-- The same on every reachable state, given that the app only ever answered with
    non-negative GasWanted. -/
theorem reap_bytes_gas_longest_prefix_all_runs (c : Config) (ops : List Op)
    (hops : ∀ op ∈ ops, GasNonneg op) (mb mg : Int) (hmb : mb ≠ 0) :
    let s := run (init c) ops
    ∃ k, k ≤ s.txs.length ∧ reapBG s mb mg = some ((s.txs.take k).map (·.tx)) ∧
      Fits mb mg (s.txs.take k) ∧
      ∀ k', k < k' → k' ≤ s.txs.length → ¬ Fits mb mg (s.txs.take k') := by
  intro s
  apply reap_bytes_gas_longest_prefix s mb mg hmb
  intro t ht
  have hsub := (run_sublist (init c) ops).subset ht
  simp only [init, List.nil_append] at hsub
  exact arrivals_gas _ ops hops t hsub

/-- ReapMaxTxs(n) returns exactly the first `min n len` transactions (all of them for n < 0). -/
theorem reap_max_txs_exact (s : State) (n : Int) :
    reapN s n = (s.txs.take (if n < 0 then s.txs.length else n.toNat)).map (·.tx) :=
  reapN_spec s n

/-- ... so never more than requested, and exactly `min n len` many. -/
theorem reap_max_txs_length (s : State) (n : Int) (hn : 0 ≤ n) :
    ((reapN s n).length : Int) = min n s.txs.length ∧ ((reapN s n).length : Int) ≤ n := by
  rw [reap_max_txs_exact]
  have : ¬ n < 0 := by omega
  simp only [this, if_false, List.length_map, List.length_take]
  omega

/-- The mempool never exceeds its size limits: at most `Size` transactions and at most
    `MaxPendingTxsBytes` bytes (a non-positive limit admits nothing / only empty txs). -/
theorem size_limits (c : Config) (ops : List Op) :
    ((run (init c) ops).txs.length : Int) ≤ max c.size 0 ∧
    sumBytes (run (init c) ops).txs ≤ max c.maxPending 0 := by
  have h := run_inv (init_inv c) ops
  have hc : (run (init c) ops).cfg = c := by rw [run_cfg]; rfl
  have hl := h.limits
  unfold WithinLimits at hl
  rw [hc, h.bytes] at hl
  exact hl

/-- The byte counter the limit is enforced with (`TxsBytes()`) is exact. -/
theorem bytes_accounting_exact (c : Config) (ops : List Op) :
    (run (init c) ops).txsBytes = sumBytes (run (init c) ops).txs :=
  (run_inv (init_inv c) ops).bytes

/-! ### non-vacuity and regression witnesses -/

section examples
def a1 : Tx := [0xa1]
def b2 : Tx := [0xb2, 0xb2]
def c3 : Tx := [0xc3, 0xc3, 0xc3]

/-- the regression witness of the fixed duplicate bug: CacheSize = 1 forgets `a1` while it is
    pooled; the resubmission is accepted by the cache and the app but NOT added again. -/
example : ((run (init ⟨5, 100, 1, 6, true⟩)
    [.check a1 true 1, .check b2 true 1, .check a1 true 1]).txs.map (·.tx)) = [a1, b2] := by decide

example : (checkTx (run (init ⟨5, 100, 1, 6, true⟩) [.check a1 true 1, .check b2 true 1]) a1 true 1).2
    = .present := by decide

/-- a run whose ops satisfy `GasNonneg`, with a reap that stops in the middle (k = 2 of 3):
    bytes 1+2 ≤ 5 < 1+2+3. -/
def demoOps : List Op := [.check a1 true 5, .check b2 true 0, .check c3 true 7]
example : ∀ op ∈ demoOps, GasNonneg op := by
  intro op h
  simp only [demoOps, List.mem_cons, List.not_mem_nil, or_false] at h
  rcases h with rfl | rfl | rfl <;> simp [GasNonneg]
example : reapBG (run (init ⟨5, 100, 8, 6, true⟩) demoOps) 5 (-1) = some [a1, b2] := by decide
example : reapBG (run (init ⟨5, 100, 8, 6, true⟩) demoOps) (-1) 11 = some [a1, b2] := by decide
example : reapBG (run (init ⟨5, 100, 8, 6, true⟩) demoOps) (-1) 12 = some [a1, b2, c3] := by decide
example : reapN (run (init ⟨5, 100, 8, 6, true⟩) demoOps) 0 = [] := by decide
example : reapN (run (init ⟨5, 100, 8, 6, true⟩) demoOps) 2 = [a1, b2] := by decide
example : reapN (run (init ⟨5, 100, 8, 6, true⟩) demoOps) (-1) = [a1, b2, c3] := by decide

/-- the non-negativity hypothesis of `reap_bytes_gas_longest_prefix` is needed: with a negative
    GasWanted the loop stops at the first tx although the two-tx prefix fits. -/
example : let s : State := { init ⟨5, 100, 8, 6, true⟩ with
      txs := [⟨0, a1, 5, 0⟩, ⟨1, b2, -5, 0⟩] }
    reapBG s (-1) 3 = some [] ∧ Fits (-1) 3 (s.txs.take 2) := by
  refine ⟨by decide, ?_⟩
  simp [Fits, sumGas, sumBytes]

/-- an Update that commits the middle tx (valid) and one not in the pool (invalid), and whose
    recheck invalidates the last tx. -/
example : ((run (init ⟨5, 100, 8, 6, true⟩)
    (demoOps ++ [.update 1 [(b2, true), ([0x07], false)] [true, false]])).txs.map (·.tx)) = [a1] := by decide

/-- limits are reached: Size = 2. -/
example : (checkTx (run (init ⟨2, 100, 8, 6, true⟩) [.check a1 true 1, .check b2 true 1]) c3 true 1).2
    = .full := by decide
end examples

end GnoVerif.C40
