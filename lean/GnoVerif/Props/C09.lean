import GnoVerif.Proofs.C09
/-!
C09 — realm storage usage and deposits are accounted exactly.

Theorems about `GnoVerif.Model.C09Deposit`:

* the deposit ledger (`message` = one MsgAddPackage/MsgCall/MsgRun ending in
  `processStorageDeposit` over the per-realm byte deltas of the message, sorted
  by realm path, with one running deposit limit), for ALL ledgers, callers,
  limits, prices and delta lists;
* the size bookkeeping of the object store (`runOps` = any history of
  SetObject / DelObject calls routed to the owning realm's counter), for ALL
  histories.

What is NOT a theorem here (tied by correspondence and by the harness oracle
instead): that the deltas the finalizer reports are the byte changes of the
realm's `oid:` keys plus its params bytes (the model takes them as input), the
amino sizes themselves, and the bank keeper.
Helper lemmas: Proofs/C09.lean.
-/
namespace GnoVerif.C09

/-! ### refund arithmetic -/

/-- A refund never exceeds the deposit held (for any release within the recorded storage). -/
theorem refund_le_deposit (deposit storage released : Nat) (h : released ≤ storage) :
    refundAmount deposit storage released ≤ deposit :=
  refundAmount_le deposit storage released h

/-- Releasing all of a realm's storage refunds all of its deposit. -/
theorem refund_full (deposit storage : Nat) : refundAmount deposit storage storage = deposit :=
  refundAmount_self deposit storage

/-- A partial release refunds ⌊deposit · released / storage⌋: proportional to the deposit
    actually held, whatever the current price is; never more than the exact proportion. -/
theorem refund_partial_floor (deposit storage released : Nat) (h : storage ≠ released) :
    refundAmount deposit storage released = deposit * released / storage ∧
    refundAmount deposit storage released * storage ≤ deposit * released :=
  ⟨by simp [refundAmount, h], refundAmount_mul_le deposit storage released h⟩

example : refundAmount 1000 10 3 = 300 ∧ refundAmount 7 3 1 = 2 ∧ refundAmount 7 3 3 = 7 := by decide

/-! ### the realm counters telescope -/

/-- After ANY history of SetObject / DelObject calls (each returning `new − LastObjectSize`,
    resp. `LastObjectSize`, routed to the counter of the realm that owns the object id —
    also when another realm's finalize performs the write), every realm's counter equals
    the total size of the objects it owns in the store. -/
theorem storage_counter_telescopes (ops : List StoreOp) (r : Nat) :
    (runOps ops).2 r = ((runOps ops).1.bytesOf r : Int) := by
  have h : Acct (([] : Store), fun _ => (0 : Int)) := by
    refine ⟨by simp [Store.Uniq], ?_⟩
    intro r; simp [Store.bytesOf]
  exact (foldl_acct ops _ h).2 r

example : (runOps [.set (0, 1) 100, .set (1, 7) 30, .set (0, 1) 40, .set (0, 2) 5, .del (1, 7)]).2 0 = 45 := by decide

/-! ### one message -/

/-- A message that does not succeed (program failure, deposit limit too small, caller
    cannot pay, arithmetic overflow, impossible refund) leaves the ledger unchanged. -/
theorem failed_message_changes_nothing (l : Ledger) (c maxDep : Nat) (runs : Bool)
    (ds : List (String × Int)) (np : Option Nat)
    (h : (message l c maxDep runs ds np).1 ≠ .ok) : (message l c maxDep runs ds np).2 = l := by
  unfold message at h ⊢
  by_cases hr : runs = true
  · simp only [hr, not_true_eq_false, if_false] at h ⊢
    cases hp : processDeposit l c maxDep ds with
    | mk o l' =>
      rw [hp] at h
      cases o <;> simp_all
  · simp [hr]

/-- what a successful message leaves in the record of each realm it names -/
theorem message_accounting (l : Ledger) (c maxDep : Nat) (ds : List (String × Int)) (np : Option Nat)
    (l' : Ledger) (hd : DistinctNames ds) (h : message l c maxDep true ds np = (.ok, l')) :
    ∀ nd ∈ ds, l'.find nd.1 = stepRecord l.price (l.find nd.1) nd.2 := by
  unfold message at h
  simp only [not_true_eq_false, if_false] at h
  cases hp : processDeposit l c maxDep ds with
  | mk o l1 =>
    rw [hp] at h
    cases o <;> simp only [Prod.mk.injEq, reduceCtorEq, false_and] at h
    obtain ⟨hc, he⟩ := processDeposit_ok l c maxDep ds l1 hp
    intro nd hnd
    have := runLoop_clean_record c l.price ds hd _ hc nd hnd
    have e : l'.find nd.1 = l1.find nd.1 := by
      rw [← h.2]; cases np <;> rfl
    rw [e, he]; exact this

/-- a concrete ledger: realm "a" holds 100 bytes for 1000 coins, realm "b" 50 bytes for 700 -/
def exLedger : Ledger :=
  { realms := [{ name := "a", storage := 100, deposit := 1000, backing := 1000 },
               { name := "b", storage := 50, deposit := 700, backing := 700 }],
    bal := [5000, 0], price := 10, deflt := 600 }

/-- the hypotheses of the message theorems are jointly satisfiable: a message that grows "a"
    by 20 bytes, frees all of "b", and installs price 3 succeeds (and charges 20 × 10). -/
example : message exLedger 0 0 true [("a", 20), ("b", -50)] (some 3) =
    (.ok, { realms := [{ name := "a", storage := 120, deposit := 1200, backing := 1200 },
                       { name := "b", storage := 0, deposit := 0, backing := 0 }],
            bal := [5500, 0], price := 3, deflt := 600 }) ∧
    DistinctNames [("a", (20 : Int)), ("b", -50)] := by
  refine ⟨by decide, ?_⟩
  unfold DistinctNames; decide

/-- … and one whose limit (600 by default) is too small for 100 new bytes at price 10 fails. -/
example : (message exLedger 0 0 true [("a", 100)] none).1 = .deposit := by decide

/-- Newly used bytes are charged at the storage price in effect when the message started —
    also when the message itself installs another price (`np`). -/
theorem growth_charged_at_start_price (l : Ledger) (c maxDep : Nat) (ds : List (String × Int))
    (np : Option Nat) (l' : Ledger) (hd : DistinctNames ds)
    (h : message l c maxDep true ds np = (.ok, l')) (n : String) (d : Int) (hmem : (n, d) ∈ ds) (hpos : d > 0) :
    (l'.find n).storage = (l.find n).storage + d.toNat ∧
    (l'.find n).deposit = (l.find n).deposit + d.toNat * l.price ∧
    (l'.find n).backing = (l.find n).backing + d.toNat * l.price := by
  have := message_accounting l c maxDep ds np l' hd h (n, d) hmem
  simp only [stepRecord, hpos, if_true] at this
  rw [this]; exact ⟨rfl, rfl, rfl⟩

/-- the new price takes effect only after the message -/
theorem price_after_message (l : Ledger) (c maxDep : Nat) (ds : List (String × Int)) (p : Nat) (l' : Ledger)
    (h : message l c maxDep true ds (some p) = (.ok, l')) : l'.price = p := by
  unfold message at h
  simp only [not_true_eq_false, if_false] at h
  cases hp : processDeposit l c maxDep ds with
  | mk o l1 =>
    rw [hp] at h
    cases o <;> simp only [Prod.mk.injEq, reduceCtorEq, false_and] at h
    rw [← h.2]

/-- Shrinking refunds the proportional share; freeing all of a realm's storage refunds
    all of its deposit. -/
theorem release_refunds (l : Ledger) (c maxDep : Nat) (ds : List (String × Int))
    (np : Option Nat) (l' : Ledger) (hd : DistinctNames ds)
    (h : message l c maxDep true ds np = (.ok, l')) (n : String) (d : Int) (hmem : (n, d) ∈ ds) (hneg : d < 0) :
    (l'.find n).storage = (l.find n).storage - (-d).toNat ∧
    (l'.find n).deposit = (l.find n).deposit - refundAmount (l.find n).deposit (l.find n).storage (-d).toNat ∧
    ((-d).toNat = (l.find n).storage → (l'.find n).storage = 0 ∧ (l'.find n).deposit = 0) := by
  have := message_accounting l c maxDep ds np l' hd h (n, d) hmem
  have hp : ¬ d > 0 := by omega
  simp only [stepRecord, hp, hneg, if_true, if_false] at this
  rw [this]
  refine ⟨rfl, rfl, ?_⟩
  intro hall
  simp only [hall, refundAmount_self]
  exact ⟨by omega, by omega⟩

/-- A message succeeds only if the total cost of its growth, at the start price, fits
    its deposit limit (MaxDeposit, or the default deposit when that is 0) … -/
theorem deposit_limit_enforced (l : Ledger) (c maxDep : Nat) (ds : List (String × Int))
    (np : Option Nat) (l' : Ledger) (h : message l c maxDep true ds np = (.ok, l')) :
    ((ds.filter (·.2 > 0)).map (fun nd => nd.2.toNat * l.price)).sum ≤ (if maxDep = 0 then l.deflt else maxDep) := by
  unfold message at h
  simp only [not_true_eq_false, if_false] at h
  cases hp : processDeposit l c maxDep ds with
  | mk o l1 =>
    rw [hp] at h
    cases o <;> simp only [Prod.mk.injEq, reduceCtorEq, false_and] at h
    obtain ⟨hc, _⟩ := processDeposit_ok l c maxDep ds l1 hp
    have := runLoop_clean_limit c l.price ds _ hc
    simp only at this
    omega

/-- … so a message whose deposit limit is too small fails. -/
theorem too_small_limit_fails (l : Ledger) (c maxDep : Nat) (runs : Bool) (ds : List (String × Int))
    (np : Option Nat)
    (h : (if maxDep = 0 then l.deflt else maxDep) < ((ds.filter (·.2 > 0)).map (fun nd => nd.2.toNat * l.price)).sum) :
    (message l c maxDep runs ds np).1 ≠ .ok := by
  intro hok
  cases runs with
  | false => simp [message] at hok
  | true =>
    have : message l c maxDep true ds np = (.ok, (message l c maxDep true ds np).2) := by
      rw [← hok]
    have := deposit_limit_enforced l c maxDep ds np _ this
    omega

/-- Every realm's recorded deposit stays backed by at least that many coins at its
    storage-deposit address, after any message (successful or not). -/
theorem deposits_stay_backed (l : Ledger) (c maxDep : Nat) (runs : Bool) (ds : List (String × Int))
    (np : Option Nat) (hb : Backed l) : Backed (message l c maxDep runs ds np).2 := by
  by_cases hok : (message l c maxDep runs ds np).1 = .ok
  · cases runs with
    | false => simp [message] at hok
    | true =>
      unfold message at hok ⊢
      simp only [not_true_eq_false, if_false] at hok ⊢
      cases hp : processDeposit l c maxDep ds with
      | mk o l1 =>
        rw [hp] at hok
        cases o <;> first | (simp at hok; done) | skip
        obtain ⟨_, he⟩ := processDeposit_ok l c maxDep ds l1 hp
        have := runLoop_backed c l.price ds { led := l, amt := if maxDep = 0 then l.deflt else maxDep } hb
        rw [← he] at this
        cases np <;> exact this
  · rw [failed_message_changes_nothing l c maxDep runs ds np hok]; exact hb

/-- Realms the message does not name keep their record. -/
theorem unnamed_realms_untouched (l : Ledger) (c maxDep : Nat) (runs : Bool) (ds : List (String × Int))
    (np : Option Nat) (m : String) (hm : ∀ nd ∈ ds, nd.1 ≠ m) :
    (message l c maxDep runs ds np).2.find m = l.find m := by
  by_cases hok : (message l c maxDep runs ds np).1 = .ok
  · cases runs with
    | false => simp [message] at hok
    | true =>
      unfold message at hok ⊢
      simp only [not_true_eq_false, if_false] at hok ⊢
      cases hp : processDeposit l c maxDep ds with
      | mk o l1 =>
        rw [hp] at hok
        cases o <;> first | (simp at hok; done) | skip
        obtain ⟨_, he⟩ := processDeposit_ok l c maxDep ds l1 hp
        have := runLoop_frame c l.price m ds { led := l, amt := if maxDep = 0 then l.deflt else maxDep } hm
        rw [← he] at this
        cases np <;> exact this
  · rw [failed_message_changes_nothing l c maxDep runs ds np hok]

end GnoVerif.C09
