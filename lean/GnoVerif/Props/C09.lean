import GnoVerif.Model.C09Deposit
namespace GnoVerif.C09
end GnoVerif.C09
