import GnoVerif.Proofs.C54
/-!
C54 — gno fmt is idempotent and preserves program meaning.

The theorems are about `rewrite` (Model/C54.lean), the model of what gnofmt's
`cleanupPreviousImports` + `resolve` do to the LIST of import specs of a file, for every
environment (`used` qualifiers, `known` package-level names, resolver answers) and every
import list, over any type of names.  Printing, sorting and grouping are not modelled
(go/printer and x/tools/imports are trusted); that `format (format x) = format x` byte for
byte and that the non-import syntax tree is unchanged is checked on the real formatter by
the harness, not proved.

Guard of the `_partial` theorems (`Guard`): every import is plain or aliased (no `_`, no `.`)
and no spec occurs twice with the same name and path.  Outside the guard the statements are
FALSE for the code as it is; the `_counterexample` theorems are the witnesses the harness
replays on the real formatter (corpus/C54, known_findings/C54.json).
-/
namespace GnoVerif.C54

variable {ν : Type} [DecidableEq ν]

structure Guard (env : Env ν) (imps : List (Imp ν)) : Prop where
  ordinary : ∀ i ∈ imps, i.ordinary            -- neither `_ "p"` nor `. "p"`
  nodup : (imps.map Imp.key).Nodup              -- no (name, path) pair twice
  used_nodup : env.used.Nodup                   -- `unresolved` is a map: a set of names

/-- A stable import list is left exactly as it is. -/
theorem rewrite_fixpoint (env : Env ν) (L : List (Imp ν)) (h : Stable env L) :
    rewrite env L = L := by
  have hc := cleanup_stable_fold env L [] L h.ordinary (by simpa using h.names_nodup) h.names_used
  have hc' : cleanup env L = ⟨L, env.used.filter (fun n => n ∉ L.map Imp.name)⟩ := by
    have h0 : env.used.filter (fun n => n ∉ ([] : List (Imp ν)).map Imp.name) = env.used :=
      List.filter_eq_self.2 (by simp)
    rw [h0] at hc
    simpa [cleanup] using hc
  unfold rewrite
  rw [hc']
  apply addFold_id
  intro n hn p hr
  have hn' := List.mem_filter.1 hn
  have hu := List.mem_filter.1 hn'.1
  exact h.closed n hu.1 (by simpa using hn'.2) (by simpa using hu.2) p hr

/-- Under the guard the result of one pass is stable. -/
theorem rewrite_stable_partial (env : Env ν) (imps : List (Imp ν)) (g : Guard env imps) :
    Stable env (rewrite env imps) := by
  obtain ⟨hsub, hnd, hused, hun⟩ := keepAux_spec env.used imps
  have hrw : rewrite env imps =
      ((keepAux env.used imps).2.filter (fun n => ¬ n ∈ env.known)).foldl (addStep env)
        (keepAux env.used imps).1 := by
    unfold rewrite
    rw [cleanup_eq_keepAux env imps g.ordinary g.nodup]
  obtain ⟨added, hadd, hsubl, hprop⟩ := addFold_spec env
    ((keepAux env.used imps).2.filter (fun n => ¬ n ∈ env.known)) (keepAux env.used imps).1
  have hrest_nodup : ((keepAux env.used imps).2.filter (fun n => ¬ n ∈ env.known)).Nodup := by
    rw [hun]
    exact (g.used_nodup.filter _).filter _
  have hrest_mem : ∀ n ∈ (keepAux env.used imps).2.filter (fun n => ¬ n ∈ env.known),
      n ∈ env.used ∧ n ∉ (keepAux env.used imps).1.map Imp.name := by
    intro n hn
    have h1 := (List.mem_filter.1 hn).1
    rw [hun] at h1
    have h2 := List.mem_filter.1 h1
    exact ⟨h2.1, by simpa using h2.2⟩
  refine ⟨?_, ?_, ?_, ?_⟩
  · intro i hi
    rw [hrw, hadd] at hi
    rcases List.mem_append.1 hi with hi | hi
    · exact g.ordinary i (hsub.subset hi)
    · have := (hprop i hi).1
      constructor <;> simp [this]
  · rw [hrw, hadd, List.map_append, List.nodup_append]
    refine ⟨hnd, hrest_nodup.sublist hsubl, ?_⟩
    intro a ha b hb e
    subst e
    exact (hrest_mem a (hsubl.subset hb)).2 ha
  · intro i hi
    rw [hrw, hadd] at hi
    rcases List.mem_append.1 hi with hi | hi
    · exact hused i hi
    · exact (hrest_mem _ (hprop i hi).2.1).1
  · intro n hn hk hnm p hr
    have hnk : n ∉ (keepAux env.used imps).1.map Imp.name := by
      intro hm
      apply hnm
      rw [hrw, hadd, List.map_append]
      exact List.mem_append_left _ hm
    have hin : n ∈ (keepAux env.used imps).2.filter (fun n => ¬ n ∈ env.known) := by
      rw [hun]
      exact List.mem_filter.2 ⟨List.mem_filter.2 ⟨hn, by simpa using hnk⟩, by simpa using hk⟩
    rw [hrw]
    exact addFold_closed env _ _ n p hin hr

/-- The full idempotence statement: whatever order the printer writes the result in, a second
    pass changes nothing.  (FALSE for the code as it is, see the counterexamples.) -/
def idempotent_statement : Prop :=
  ∀ (μ : Type) [DecidableEq μ] (env : Env μ) (imps σ : List (Imp μ)),
    σ.Perm (rewrite env imps) → rewrite env σ = σ

/-- Idempotence under the guard: the second pass returns its input unchanged, in whatever
    order the first pass's specs were written (sorting and grouping only permute them). -/
theorem rewrite_idempotent_partial (env : Env ν) (imps σ : List (Imp ν)) (g : Guard env imps)
    (hσ : σ.Perm (rewrite env imps)) : rewrite env σ = σ :=
  rewrite_fixpoint env σ ((rewrite_stable_partial env imps g).perm hσ)

/-- The meaning statement: a used qualifier that an import provided is still provided, and
    no side-effect import disappears.  (FALSE for the code as it is.) -/
def imports_preserved_statement : Prop :=
  ∀ (μ : Type) [DecidableEq μ] (env : Env μ) (imps : List (Imp μ)) (i : Imp μ) (n : μ),
    i ∈ imps → i.provides n → n ∈ env.used → ∃ j ∈ rewrite env imps, j.provides n

/-- Under the guard every used qualifier that had an import still has one. -/
theorem used_names_stay_imported_partial (env : Env ν) (imps : List (Imp ν)) (g : Guard env imps)
    (i : Imp ν) (n : ν) (hi : i ∈ imps) (hp : i.provides n) (hn : n ∈ env.used) :
    ∃ j ∈ rewrite env imps, j.provides n := by
  have hin : i.name = n := (provides_name (g.ordinary i hi) n).1 hp
  obtain ⟨j, hj, hje⟩ := keepAux_provides env.used imps i hi (hin ▸ hn)
  have hjm : j ∈ rewrite env imps := by
    unfold rewrite
    rw [cleanup_eq_keepAux env imps g.ordinary g.nodup]
    exact addFold_mono env _ _ j hj
  refine ⟨j, hjm, ?_⟩
  have hjo : j.ordinary := g.ordinary j ((keepAux_spec env.used imps).1.subset hj)
  exact (provides_name hjo n).2 (hje.trans hin)

/-- Under the guard the FIRST import declaring a used name is the one that survives. -/
theorem first_used_import_survives_partial (env : Env ν) (pre suf : List (Imp ν)) (i : Imp ν)
    (g : Guard env (pre ++ i :: suf)) (hu : i.name ∈ env.used)
    (hfirst : ∀ j ∈ pre, j.name ≠ i.name) : i ∈ rewrite env (pre ++ i :: suf) := by
  unfold rewrite
  rw [cleanup_eq_keepAux env _ g.ordinary g.nodup]
  exact addFold_mono env _ _ i (keepAux_first env.used pre suf i hu hfirst)

/-- Without any guard: a blank (side-effect) import is never removed. -/
theorem blank_import_never_removed (env : Env ν) (imps : List (Imp ν)) (i : Imp ν)
    (hi : i ∈ imps) (hb : i.alias = .blank) : i ∈ rewrite env imps := by
  unfold rewrite
  exact addFold_mono env _ _ i (cleanupFold_keeps_blank imps ⟨imps, env.used⟩ i hb hi)

/-- Without any guard: whatever the resolve step adds is a plain import of the package the
    resolver offers for a used name that no package-level declaration explains. -/
theorem added_imports_are_needed (env : Env ν) (imps : List (Imp ν)) :
    ∃ added, rewrite env imps = (cleanup env imps).cur ++ added ∧
      ∀ s ∈ added, s.alias = .none ∧ s.pkg ∈ env.used ∧ s.pkg ∉ env.known ∧
        env.resolve s.pkg = some s.path := by
  obtain ⟨added, h1, _, h3⟩ := addFold_spec env
    ((cleanup env imps).unres.filter (fun n => ¬ n ∈ env.known)) (cleanup env imps).cur
  refine ⟨added, h1, fun s hs => ?_⟩
  obtain ⟨ha, hm, hr⟩ := h3 s hs
  have hname : s.name = s.pkg := by
    obtain ⟨a, p, k⟩ := s
    simp only at ha
    subst ha
    rfl
  rw [hname] at hm hr
  have hm' := List.mem_filter.1 hm
  exact ⟨ha, cleanupFold_unres_subset imps ⟨imps, env.used⟩ _ hm'.1, by simpa using hm'.2, hr⟩

/-! ### Non-vacuity: the guard holds on ordinary files, and the theorems say something there -/

/-- names: 1 = strings, 2 = strconv, 3 = ufmt; paths: 10 = "strings", 20 = "strconv", 30 = ".../ufmt" -/
def envEx : Env Nat :=
  { used := [1, 3], known := [], resolve := fun n => if n = 1 then some 10 else if n = 3 then some 30 else none }

/-- `import ( "strings"; "strconv" )`, strings and ufmt used: strconv goes, ufmt is added -/
def impsEx : List (Imp Nat) := [⟨.none, 10, 1⟩, ⟨.none, 20, 2⟩]

example : Guard envEx impsEx := by
  refine ⟨?_, by decide, by decide⟩
  intro i hi
  simp only [impsEx, List.mem_cons, List.not_mem_nil, or_false] at hi
  rcases hi with rfl | rfl <;> exact ⟨by decide, by decide⟩

example : rewrite envEx impsEx = [⟨.none, 10, 1⟩, ⟨.none, 30, 3⟩] := by decide

/-! ### Outside the guard: the recorded findings -/

def envStrings : Env Nat :=
  { used := [1], known := [], resolve := fun n => if n = 1 then some 10 else none }

/-- `import "strings"` twice: both specs are deleted, the next pass adds one back. -/
theorem duplicate_import_counterexample :
    rewrite envStrings [⟨.none, 10, 1⟩, ⟨.none, 10, 1⟩] = [] ∧
    rewrite envStrings [] = [⟨.none, 10, 1⟩] ∧
    ¬ idempotent_statement ∧ ¬ imports_preserved_statement := by
  refine ⟨by decide, by decide, fun h => ?_, fun h => ?_⟩
  · have := h Nat envStrings [⟨.none, 10, 1⟩, ⟨.none, 10, 1⟩] [] (by decide)
    revert this; decide
  · obtain ⟨j, hj, _⟩ := h Nat envStrings [⟨.none, 10, 1⟩, ⟨.none, 10, 1⟩] ⟨.none, 10, 1⟩ 1
      (by decide) (Or.inl ⟨rfl, rfl⟩) (by decide)
    have e : rewrite envStrings [⟨.none, 10, 1⟩, ⟨.none, 10, 1⟩] = [] := by decide
    rw [e] at hj
    cases hj

/-- `import ( _ "strings"; "strings" )` with strings.ToUpper used (valid Gno), either order:
    only the blank import is left. -/
theorem blank_import_shadows_plain_counterexample :
    rewrite envStrings [⟨.blank, 10, 1⟩, ⟨.none, 10, 1⟩] = [⟨.blank, 10, 1⟩] ∧
    rewrite envStrings [⟨.none, 10, 1⟩, ⟨.blank, 10, 1⟩] = [⟨.blank, 10, 1⟩] ∧
    ¬ imports_preserved_statement := by
  refine ⟨by decide, by decide, fun h => ?_⟩
  obtain ⟨j, hj, hp⟩ := h Nat envStrings [⟨.blank, 10, 1⟩, ⟨.none, 10, 1⟩] ⟨.none, 10, 1⟩ 1
    (by decide) (Or.inl ⟨rfl, rfl⟩) (by decide)
  have e : rewrite envStrings [⟨.blank, 10, 1⟩, ⟨.none, 10, 1⟩] = [⟨.blank, 10, 1⟩] := by decide
  rw [e] at hj
  have : j = ⟨.blank, 10, 1⟩ := by simpa using hj
  subst this
  rcases hp with ⟨h1, _⟩ | h1 <;> cases h1

/-- A side-effect import of ANOTHER package with the same name (path 11), after the plain one:
    one pass keeps both; written in sorted order (blank first) the next pass drops the plain one. -/
theorem blank_import_not_idempotent_counterexample :
    rewrite envStrings [⟨.none, 20, 1⟩, ⟨.blank, 11, 1⟩] = [⟨.none, 20, 1⟩, ⟨.blank, 11, 1⟩] ∧
    rewrite envStrings [⟨.blank, 11, 1⟩, ⟨.none, 20, 1⟩] = [⟨.blank, 11, 1⟩] ∧
    ¬ idempotent_statement := by
  refine ⟨by decide, by decide, fun h => ?_⟩
  have := h Nat envStrings [⟨.none, 20, 1⟩, ⟨.blank, 11, 1⟩] [⟨.blank, 11, 1⟩, ⟨.none, 20, 1⟩]
    (by
      have e : rewrite envStrings [⟨.none, 20, 1⟩, ⟨.blank, 11, 1⟩] = [⟨.none, 20, 1⟩, ⟨.blank, 11, 1⟩] := by decide
      rw [e]
      exact List.Perm.swap _ _ _)
  revert this; decide

/-- A dot import is always deleted. -/
theorem dot_import_always_deleted (env : Env ν) (p k : ν) :
    rewrite env [⟨.dot, p, k⟩] = (rewrite env []) := by
  simp [rewrite, cleanup, cleanupStep, wanted, Imp.lookupName, Imp.deletes]

end GnoVerif.C54
