import GnoVerif.Proofs.C54
namespace GnoVerif.C54
end GnoVerif.C54
