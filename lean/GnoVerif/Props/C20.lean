import GnoVerif.Model.C20
/-! Property C20 (placeholder while the pipeline is brought up). -/
namespace GnoVerif.C20

theorem key_example : decKeyRaw (encKey 3 .blen) = some (3, 2, 1) := by decide

end GnoVerif.C20
