import GnoVerif.Proofs.C20Wire
import GnoVerif.Proofs.C20Val
import GnoVerif.Proofs.C20Witness
import GnoVerif.Proofs.C20Top
import GnoVerif.Proofs.C20Bounds
/-!
Property C20 — amino encoding is consistent, round-trips and rejects bad input safely.

The theorems are about `Model/C20Wire.lean` (wire primitives) and `Model/C20.lean`
(the descriptor-driven model of the reflection codec), the same definitions the
compiled driver `gvdrive_C20` runs against the real code on every check.
-/
namespace GnoVerif.C20

/-! ## wire primitives -/

/-- uvarint: decoding the encoding of any uint64 gives it back and consumes exactly
the encoding, whatever follows. -/
theorem uvarint_roundtrip (n : Nat) (h : n < 2 ^ 64) (rest : Bytes) :
    decUvarint (encUvarint n ++ rest) = some (n, (encUvarint n).length) :=
  decUvarint_encUvarint n h rest

example : decUvarint (encUvarint 300 ++ [7]) = some (300, 2) := by decide +kernel

/-- zig-zag varint (`int8 … int64`, `int`) round trip for every int64. -/
theorem varint_roundtrip (z : Int) (h1 : -(2 ^ 63 : Int) ≤ z) (h2 : z < (2 ^ 63 : Int)) (rest : Bytes) :
    decVarint (encVarint z ++ rest) = some (z, (encVarint z).length) := by
  unfold decVarint encVarint
  rw [decUvarint_encUvarint _ (zigzag_lt h1 h2)]
  simp [unzigzag_zigzag]

example : decVarint (encVarint (-3) ++ []) = some (-3, 1) := by decide +kernel

/-- plain (non zig-zag) signed varint, `binary:"varint"`. -/
theorem plain_varint_roundtrip (z : Int) (h1 : -(2 ^ 63 : Int) ≤ z) (h2 : z < (2 ^ 63 : Int)) (rest : Bytes) :
    decPlainVarint (encPlainVarint z ++ rest) = some (z, (encPlainVarint z).length) := by
  unfold decPlainVarint encPlainVarint
  rw [decUvarint_encUvarint _ (toU64_lt z)]
  simp [ofU64_toU64 h1 h2]

example : decPlainVarint (encPlainVarint (-1)) = some (-1, 10) := by decide +kernel

/-- fixed32 / fixed64, little endian. -/
theorem fixed32_roundtrip (u : Nat) (h : u < 2 ^ 32) (rest : Bytes) :
    decFixed 4 (encFixed32 u ++ rest) = some (u, 4) :=
  decFixed_enc 4 u (by norm_num; omega) rest

theorem fixed64_roundtrip (u : Nat) (h : u < 2 ^ 64) (rest : Bytes) :
    decFixed 8 (encFixed64 u ++ rest) = some (u, 8) :=
  decFixed_enc 8 u (by norm_num; omega) rest

example : decFixed 4 (encFixed32 258 ++ [9]) = some (258, 4) := by decide +kernel

/-- length-prefixed bytes / strings. -/
theorem bytes_roundtrip (bs rest : Bytes) (h : bs.length < 2 ^ 64) :
    decBytes (encBytes bs ++ rest) = some (bs, (encBytes bs).length) :=
  decBytes_encBytes bs rest h

example : decBytes (encBytes [1, 2, 3] ++ [4]) = some ([1, 2, 3], 4) := by decide +kernel

/-- field keys: number (1 … 2^29-1) and typ3. -/
theorem key_roundtrip (num : Nat) (t : Typ3) (h0 : 0 < num) (h : num < 2 ^ 29) (rest : Bytes) :
    decKeyRaw (encKey num t ++ rest) = some (num, t.code, (encKey num t).length) :=
  decKeyRaw_encKey num t h0 h rest

example : decKeyRaw (encKey 3 .blen) = some (3, 2, 1) := by decide +kernel

/-- an accepted varint lies inside the buffer and is at most 10 bytes long. -/
theorem uvarint_within_buffer {bz : Bytes} {v n : Nat} (h : decUvarint bz = some (v, n)) :
    0 < n ∧ n ≤ bz.length ∧ n ≤ 10 :=
  decUvarint_bounds h

/-- overlong varints (ten continuation bytes: more than 64 bits) are rejected. -/
theorem overlong_varint_rejected (bz : Bytes) (hlen : 10 ≤ bz.length)
    (hall : ∀ b ∈ bz.take 10, 128 ≤ b.toNat) : decUvarint bz = none :=
  decUvarint_overlong bz hlen hall

example : decUvarint [0x80, 0x80, 0x80, 0x80, 0x80, 0x80, 0x80, 0x80, 0x80, 0x80, 0x01] = none := by
  decide +kernel
/-- … and so is a 10-byte varint whose last byte exceeds 1 (value ≥ 2^64). -/
example : decUvarint [0xff, 0xff, 0xff, 0xff, 0xff, 0xff, 0xff, 0xff, 0xff, 0x02] = none := by
  decide +kernel

/-- a buffer that ends inside a varint is rejected. -/
theorem truncated_varint_rejected (bz : Bytes) (hall : ∀ b ∈ bz, 128 ≤ b.toNat) : decUvarint bz = none :=
  decUvarint_truncated bz hall

/-- the reserved field number 0 is rejected. -/
theorem field_zero_rejected (t : Nat) (ht : t < 8) (rest : Bytes) : decKeyRaw (encUvarint t ++ rest) = none := by
  unfold decKeyRaw
  rw [decUvarint_encUvarint t (by omega)]
  have : t / 8 = 0 := by omega
  simp [this]

/-! ## the codec: round trip -/

/-- FULL STATEMENT (false on the unchanged tree, see `roundtrip_epoch_counterexample`):
every value the reflection encoder accepts decodes back to itself. -/
def roundtrip_statement : Prop :=
  ∀ (env : Env) (name : Bytes) (v : Val) (bz : Bytes),
    marshal env name v = .ok bz → unmarshal env name bz = some v

/-- **round trip on the wire-format core**: for every registered struct type and every
value built from
* primitives (uvarint / zig-zag / plain varint, fixed32/64, bool, string, byte slice, byte array),
* structs nested to any depth through non-pointer and pointer fields, with amino's
  zero-value omission and field-order checks,
* PACKED lists of non-ByteLength primitives (one length-prefixed block) and UNPACKED lists
  (one `key value` per element, ended by a larger field number) of strings, byte slices,
  byte arrays, structs, struct pointers and interfaces, including amino's `0x00`
  empty-element marker,
* interfaces: nil, or a registered struct type wrapped as google.protobuf.Any (type URL
  `"/" ++ name`, value omitted when empty, registry lookup, assignability, nesting depth ≤ 64),
`UnmarshalReflect(MarshalReflect(v)) = v`, with the decoder's own fuel.
NOT covered by this theorem (checked by correspondence only): lists nested in lists (the
implicit-struct wrapping), `nil_elements`, raw-byte element lists, non-struct concrete types
under an interface, time / duration, AminoMarshaler reprs, `write_empty`, registered
non-struct top-level types. -/
theorem roundtrip_partial (env : Env) (hE : envOK env) (name : Bytes) (v : Val) (d : Nat)
    (hwf : wf env d (.ref name) v = true) (hd : d ≤ env.length + 4) (hd64 : d ≤ maxAnyDepth) (bz : Bytes)
    (hm : marshal env name v = .ok bz) (hlen : bz.length < 2 ^ 64) :
    unmarshal env name bz = some v :=
  roundtrip_struct env hE name v d hwf hd hd64 bz hm hlen

/-- a struct with a packed list, an unpacked list of strings (one of them empty) and an
unpacked list of struct pointers (one of them an empty struct). -/
def nLists : Bytes := [76]
def envL : Env := envW ++ [
  ⟨nLists, [], .struct [fld 1 (.list false false (.svar 64)), fld 2 (.list false false .str),
      fld 3 (.list true false (.ref nPartSetHeader)), fld 4 (.uvar 64)] []⟩]
def vLists : Val := .struct [.list [.i 1, .i (-1), .i 300], .list [.x [97], .x [], .x [98, 99]],
  .list [.struct [.i 5, .x [1]], .struct [.i 0, .x []]], .u 7]

example : envOK envL ∧ wf envL 2 (.ref nLists) vLists = true ∧
    marshal envL nLists vLists = .ok [0x0a, 4, 2, 1, 0xd8, 4, 0x12, 1, 97, 0x12, 0, 0x12, 2, 98, 99,
      0x1a, 5, 8, 10, 0x12, 1, 1, 0x1a, 0, 0x20, 7] ∧
    unmarshal envL nLists [0x0a, 4, 2, 1, 0xd8, 4, 0x12, 1, 97, 0x12, 0, 0x12, 2, 98, 99,
      0x1a, 5, 8, 10, 0x12, 1, 1, 0x1a, 0, 0x20, 7] = some vLists :=
  ⟨envOK_of_b (by decide +kernel), by decide +kernel, by decide +kernel, by decide +kernel⟩

/-- interfaces: `std.MemPackage{Name: "p", Type: tm.BlockID{Hash: 01}, Info: tm.PartSetHeader{}}`
— an Any with a value and an Any whose value is empty (type URL only). -/
def vAny : Val := .struct [.x [112], .x [], .list [],
  .any nBlockID (.struct [.x [1], .struct [.i 0, .x []]]), .any nPartSetHeader (.struct [.i 0, .x []])]

example : wf envW 3 (.ref nMemPackage) vAny = true ∧
    (∃ bz, marshal envW nMemPackage vAny = .ok bz ∧ bz.length = 44 ∧ unmarshal envW nMemPackage bz = some vAny) := by
  refine ⟨by decide +kernel, ?_⟩
  refine ⟨[10, 1, 112, 34, 18, 10, 11, 47, 116, 109, 46, 66, 108, 111, 99, 107, 73, 68, 18, 3, 10, 1, 1, 42, 19, 10, 17,
    47, 116, 109, 46, 80, 97, 114, 116, 83, 101, 116, 72, 101, 97, 100, 101, 114], ?_, ?_, ?_⟩ <;>
  decide +kernel

/-- the hypotheses are satisfiable by a non-trivial value: a `tm.BlockID` with a
nested `PartSetHeader`, one omitted (zero) field and three present ones. -/
example : envOK envW ∧
    wf envW 2 (.ref nBlockID) (.struct [.x [1, 2], .struct [.i 0, .x [9]]]) = true ∧
    marshal envW nBlockID (.struct [.x [1, 2], .struct [.i 0, .x [9]]]) = .ok [0x0a, 2, 1, 2, 0x12, 3, 0x12, 1, 9] ∧
    unmarshal envW nBlockID [0x0a, 2, 1, 2, 0x12, 3, 0x12, 1, 9] = some (.struct [.x [1, 2], .struct [.i 0, .x [9]]]) :=
  ⟨envOK_of_b (by decide +kernel), by decide +kernel, by decide +kernel, by decide +kernel⟩

/-- the decoder also consumes exactly its input: the same statement with explicit
fuel, for any fuel at least `sumFields env + 2 + budget env bz.length`. -/
theorem roundtrip_partial_any_fuel (env : Env) (hE : envOK env) (name : Bytes) (v : Val) (d : Nat)
    (hwf : wf env d (.ref name) v = true) (hd : d ≤ env.length + 4) (hd64 : d ≤ maxAnyDepth) (bz : Bytes)
    (hm : marshal env name v = .ok bz) (hlen : bz.length < 2 ^ 64)
    (k : Nat) (hk : sumFields env + 2 + budget env bz.length ≤ k) :
    unmarshalF k env name bz = some v :=
  roundtrip_struct_fuel env hE name v d hwf hd hd64 bz hm hlen k hk

/-- a value that amino omits from the wire (default, or encoded as the single byte
0x00) is exactly the zero value the decoder re-creates — inside the fragment.  This is
the lemma that FAILS once `time.Time` is involved (`roundtrip_epoch_counterexample`). -/
theorem omitted_value_is_zero (env : Env) (v : Val) (d : Nat) (td : TD) (bs : Bytes)
    (hwf : wf env d td v = true) (he : enc env td v 0 false false = .ok bs)
    (hom : isDefault env td v = true ∨ bs = [0]) (hlen : bs.length < 2 ^ 64) (k : Nat) (hk : d ≤ k) :
    v = zeroVal env k td :=
  zero_val env v d td bs 0 hwf he hom hlen k hk

/-! ## the codec: arbitrary bytes -/

/-- **no "impossible slide"**: for EVERY descriptor, every byte string, every fuel and
every decoder state, whatever the reflect decoder accepts, the consumed-byte count it
reports is within the buffer it was given.  In the Go code each `slide(&bz, &n, _n)`
panics iff `_n > len(bz)`, and `_n` is this count — including the places where the
count is computed from the CANONICAL size of a length prefix (`decodeMaybeBare`) and
not from the bytes read; that shortcut can under-count (finding dec-padded-len) but,
by this theorem, never over-counts.  The model's decoder is a total function, so this
is the "neither panics" clause for the reflection decoder's byte accounting. -/
theorem decoder_stays_in_buffer (env : Env) (k : Nat) (td : TD) (bz : Bytes) (fnum : Nat) (bare bo : Bool)
    (depth : Nat) (v : Val) (n : Nat) (h : dec env k td bz fnum bare bo depth = some (v, n)) :
    n ≤ bz.length :=
  (boundsAt env k).1 td bz fnum bare bo depth v n h

/-- the same for the struct field loop, the list loops and the Any decoder. -/
theorem decoder_loops_stay_in_buffer (env : Env) (k : Nat) :
    (∀ id bz bare depth v n, decIface env k id bz bare depth = some (v, n) → n ≤ bz.length) ∧
    (∀ e bz bo depth acc n0 vs n, decPacked env k e bz bo depth acc n0 = some (vs, n) → n ≤ n0 + bz.length) ∧
    (∀ e ptr ne impl fnum bz depth acc n0 vs n,
      decUnpacked env k e ptr ne impl fnum bz depth acc n0 = some (vs, n) → n ≤ n0 + bz.length) ∧
    (∀ fs bz last depth acc n0 vs n, decFields env k fs bz last depth acc n0 = some (vs, n) → n ≤ n0 + bz.length) :=
  (boundsAt env k).2

/-- the canonical length prefix is the shortest: the count `decodeMaybeBare` adds never
exceeds the bytes the prefix really occupied. -/
theorem canonical_prefix_is_shortest {bz : Bytes} {v n : Nat} (h : decUvarint bz = some (v, n)) :
    uvarintSize v ≤ n :=
  uvarintSize_le h

/-- on the padded witness the decoder reports 5 + … fewer bytes than the field occupies
(the under-count), within the buffer as the theorem says. -/
example : dec envW 100 (.ref nBlockID) [0x85, 0x80, 0x80, 0x00, 0x0a, 0x03, 0x3a, 0x01, 0x07] 0 false false 0 =
    some (.struct [.x [0x3a, 0x01, 0x07], .struct [.i 0, .x []]], 6) := by decide +kernel

/-! ## the codec: rejection -/

/-- whatever is left after the last declared field is rejected (unknown field / trailing bytes). -/
theorem trailing_field_rejected (env : Env) (k : Nat) (b : UInt8) (bz : Bytes) (last depth : Nat)
    (acc : List Val) (n : Nat) : decFields env (k + 1) [] (b :: bz) last depth acc n = none :=
  decFields_trailing_rejected env k b bz last depth acc n

/-- a field whose number does not exceed the last one seen (duplicate / out of order) is rejected. -/
theorem out_of_order_field_rejected (env : Env) (k : Nat) (f : FieldD) (fs : List FieldD) (bz : Bytes)
    (last depth : Nat) (acc : List Val) (n : Nat) (t kn : Nat)
    (hnl : isUnpackedList env f.td = false) (hne : bz ≠ [])
    (hkey : decKeyRaw bz = some (f.num, t, kn)) (hlast : f.num ≤ last) :
    decFields env (k + 1) (f :: fs) bz last depth acc n = none :=
  decFields_out_of_order_rejected env k f fs bz last depth acc n t kn hnl hne hkey hlast

/-- `BlockID{Hash}` twice, and `PartsHeader` before `Hash`: both rejected; trailing garbage too. -/
example : unmarshal envW nBlockID [0x0a, 1, 7, 0x0a, 1, 8] = none ∧
    unmarshal envW nBlockID [0x12, 0, 0x0a, 1, 7] = none ∧
    unmarshal envW nBlockID [0x0a, 1, 7, 0x1a, 0] = none := by decide +kernel

/-! ## findings of the unchanged tree (each replayed on the real code from corpus/C20) -/

/-- FULL STATEMENT (false): whatever the reflect decoder accepts as a struct has its
non-default fields among the fields present on the wire. -/
def decoded_fields_on_wire_statement : Prop :=
  ∀ (bz : Bytes) (sig : Bytes), unmarshal envW nProposal bz = some (vProposalSig sig) → sig ≠ [] →
    ∃ nums, wireFieldNums bz = some nums ∧ 7 ∈ nums

/-- the padded length prefix of field 5 makes the decoder re-read the tail of the
BlockID payload as field 7: the message has the single top-level field 5, the
decoded value has `Signature = 07`.  The generated decoder yields `Signature = nil`
(corpus/C20/02-dec-padded-len.ops, oracle class dec-padded-len). -/
theorem padded_length_counterexample :
    unmarshal envW nProposal bzPadded = some (vProposalSig [7]) ∧
    wireFieldNums bzPadded = some [5] ∧
    unmarshal envW nProposal bzCanon = some (vProposalSig []) := by
  decide +kernel

theorem decoded_fields_on_wire_counterexample : ¬ decoded_fields_on_wire_statement := by
  intro h
  have h1 : unmarshal envW nProposal bzPadded = some (vProposalSig [7]) := by decide +kernel
  obtain ⟨nums, hn, h7⟩ := h bzPadded [7] h1 (by decide)
  have h2 : wireFieldNums bzPadded = some [5] := by decide +kernel
  rw [h2] at hn
  cases hn
  simp at h7

/-- FULL STATEMENT (false): the reflect decoder accepts only byte strings that are a
sequence of complete protobuf fields. -/
def accepts_only_complete_fields_statement : Prop :=
  ∀ (bz : Bytes) (v : Val), unmarshal envW nProposal bz = some v → (wireFieldNums bz).isSome

/-- a `[]byte` field key as the last byte, with no length byte, is accepted
(corpus/C20/03-dec-bytes-key-eof.ops, oracle class dec-bytes-key-eof). -/
theorem bytes_key_at_eof_counterexample :
    unmarshal envW nProposal [0x3a] = some (vProposalAt 0 0) ∧ wireFieldNums [0x3a] = none := by
  decide +kernel

theorem accepts_only_complete_fields_counterexample : ¬ accepts_only_complete_fields_statement := by
  intro h
  have h1 : unmarshal envW nProposal [0x3a] = some (vProposalAt 0 0) := by decide +kernel
  have := h [0x3a] _ h1
  have h2 : wireFieldNums [0x3a] = none := by decide +kernel
  rw [h2] at this
  cases this

/-- round trip fails for amino's empty time (1970) inside a struct whose encoding is
empty, held in an interface: it comes back as Go's zero time (year 1)
(corpus/C20/01-epoch-in-empty-struct.ops, oracle class rt-epoch-in-empty-struct). -/
theorem roundtrip_epoch_counterexample :
    marshal envW nMemPackage (vMemPackageAt 0 0) = .ok bzEpoch ∧
    unmarshal envW nMemPackage bzEpoch = some (vMemPackageAt minTimeSeconds 0) ∧
    vMemPackageAt minTimeSeconds 0 ≠ vMemPackageAt 0 0 := by
  refine ⟨by decide +kernel, by decide +kernel, by decide +kernel⟩

theorem roundtrip_counterexample : ¬ roundtrip_statement := by
  intro h
  have h1 := h envW nMemPackage (vMemPackageAt 0 0) bzEpoch (by decide +kernel)
  have h2 : unmarshal envW nMemPackage bzEpoch = some (vMemPackageAt minTimeSeconds 0) := by decide +kernel
  rw [h2] at h1
  have h3 : vMemPackageAt minTimeSeconds 0 ≠ vMemPackageAt 0 0 := by decide +kernel
  exact h3 (Option.some.inj h1)

end GnoVerif.C20
