import GnoVerif.Model.C01
import GnoVerif.Proofs.C01
import GnoVerif.Proofs.C01Sort
import GnoVerif.Proofs.C01Gas
/-!
# C01 — chain replay is deterministic across runs, restarts, caches and backends

Statement: executing the same genesis and the same blocks yields, block by block, the
same app hash, the same per-transaction results and the same gas used, regardless of
process-level nondeterminism (map order, GOMAXPROCS, scheduling), of restarts between
blocks (cold versus warm caches) and of the database backend.

What is a theorem here (about the models of Model/C01.lean) and what is not:

* RESTARTS (part 1).  For the model of one application instance with its RAM-only
  node cache — committed only when a transaction succeeds, rebuilt from the database
  at start-up — the outputs of EVERY history are the same for EVERY restart pattern
  (`replay_deterministic_partial`), because database and cache stay coherent
  (`reachable_coherent`) and a coherent instance is a refinement of the machine that
  has no cache at all (`replay_matches_cache_free_machine`).  The mechanism is needed:
  keeping the node cache of a failed transaction makes a warm and a restarted
  instance diverge (`keep_nodes_on_failure_would_diverge`).
* MAP ORDER (part 2).  The named code patterns are independent of the enumeration
  order of the Go map: sort-then-fold (`sort_fold_perm`: storage-deposit settlement
  `settle_enumeration_independent`, cache-store flush `flush_enumeration_independent`)
  and commutative accumulation (`comm_fold_perm`: `mergeDiffs_enumeration_independent`).
  The settlement loop without its sort IS order-dependent
  (`settleUnsorted_order_dependent`).  That no OTHER map range of the consensus path
  is order-sensitive is the extracted, hand-classified fact list, not a theorem.
* RESULTS HASH (part 3).  It is a function of Error, Data and Events only
  (`resultsHash_blind_to_gas_and_log`, `gas_not_covered_witness`) and, for an injective
  encoding and a collision-free list hash, determines them (`results_hash_covers`).
* GAS INSIDE A MAP RANGE (part 2b).  This check found that the GasUsed reported for a
  transaction running out of gas inside a loop that ranges over a map and charges gas per
  entry depends on the map order (`unsorted_gas_used_counterexample`, numbers measured on
  the real application) — the statement's "same gas used" clause is violated for such
  out-of-gas transactions, while the out-of-gas verdict, the block gas and hence the app
  hash are order-independent (`out_of_gas_order_independent`,
  `block_gas_order_independent`).  Both places (`FinalizeRealmTransaction`,
  `applyUnrestrictedAddrsChange`) have been fixed by sorting first, which makes the whole
  meter outcome enumeration-independent (`foreign_realm_gas_enumeration_independent`).
* NOT a theorem: GOMAXPROCS / scheduling, the database backends, app-hash equality
  of the real multistore, gas.  Those are only checked by the differential replay of
  the real application across configurations (harness/cmd/c01).
-/
namespace GnoVerif.C01

/-! ## Part 1 — restarts, warm and cold caches -/

/-- THE FULL STATEMENT, for an implementation `impl` that maps a configuration and a
history to the per-op observations: all configurations observe the same.  For the
real system a configuration is (restart pattern, map enumeration orders, GOMAXPROCS,
backend, pruning); the theorem below proves it for the model, whose configurations
are the restart patterns only. -/
def replay_deterministic_statement {Cfg : Type} (impl : Cfg → List Op → List Out) : Prop :=
  ∀ (c₁ c₂ : Cfg) (ops : List Op), impl c₁ ops = impl c₂ ops

/-- Every instance, whatever its restart pattern, answers every history exactly like
the machine without any cache. -/
theorem replay_matches_cache_free_machine (p : Pattern) (ops : List Op) :
    run p {} ops = specRun {} ops :=
  run_spec p ops {} coherent_init

/-- PARTIAL (missing: the configuration dimensions other than the restart pattern —
map order, GOMAXPROCS, backend — which the model does not have): for every history
(any mix of well-formed and malformed ops, failing transactions, deployments, calls,
run scripts) and any two restart patterns — never, at chosen block boundaries, after
every block — the per-transaction results and the per-block state dumps coincide. -/
theorem replay_deterministic_partial :
    replay_deterministic_statement (fun (p : Pattern) ops => run p {} ops) :=
  fun p q ops => (replay_matches_cache_free_machine p ops).trans (replay_matches_cache_free_machine q ops).symm

/-- The same from any coherent state (a chain that has already run). -/
theorem replay_from_coherent_state (p q : Pattern) (w : World) (h : Coherent w.st) (ops : List Op) :
    run p w ops = run q w ops :=
  (run_spec p ops w h).trans (run_spec q ops w h).symm

/-- Database and node cache agree in every reachable state. -/
theorem reachable_coherent (p : Pattern) (ops : List Op) : Coherent (exec p {} ops).st := by
  suffices h : ∀ (w : World), Coherent w.st → Coherent (exec p w ops).st from h {} coherent_init
  induction ops with
  | nil => intro w h; exact h
  | cons o os ih => intro w h; exact ih _ (step_spec p w o h).2

/-- The outcome the model cannot take from the code (`incoherent`) is never observed. -/
theorem incoherent_never_observed (p : Pattern) (ops : List Op) : Out.err .incoherent ∉ run p {} ops := by
  rw [replay_matches_cache_free_machine]
  exact specRun_no_incoherent ops {}

/-- A failed transaction keeps nothing: neither database writes nor node-cache entries. -/
theorem failed_tx_keeps_nothing (who : Nat) (lo : Bool) (msgs : List Msg) (t : TxSt) (e : Err)
    (h : (applyTx who lo msgs t).2 = some e) : (applyTx who lo msgs t).1 = t := by
  unfold applyTx at h ⊢
  cases lo with
  | true => rfl
  | false =>
    cases hw : (who == 3) with
    | true => simp only [Bool.false_eq_true, if_false, if_true]
    | false =>
      simp only [hw, Bool.false_eq_true, if_false] at h ⊢
      cases hm : applyMsgs who t msgs with
      | ok t' => rw [hm] at h; cases h
      | error e' => rfl

def never : Pattern := { follow := false, after := fun _ => false }
def always : Pattern := { follow := true, after := fun _ => true }

/-- The history on which the mechanism matters: a deployment rolled back by a later
message of its transaction, a block boundary, then a call. -/
def rolledBackDeploy : List Op :=
  [ .tx 0 false [.add .a, .call .a .fail 1 1 false],
    .commit,
    .tx 1 false [.call .a .set 1 1 false] ]

/-- If the node cache of a FAILED transaction were kept (the database overlay still
dropped), a warm instance and a restarted one would answer differently. -/
theorem keep_nodes_on_failure_would_diverge :
    runG applyTxKeepNodes never {} rolledBackDeploy ≠ runG applyTxKeepNodes always {} rolledBackDeploy := by
  decide

/-- …whereas the code as it is answers the same (and what it answers). -/
example : run never {} rolledBackDeploy = [.err .vmPanic, .dump 1 {}, .err .internal] := by decide
example : run always {} rolledBackDeploy = [.err .vmPanic, .dump 1 {}, .err .internal] := by decide

/-- Non-trivial reachable state: a hub call mutates three realms; warm and cold agree. -/
example :
    run always {} [.tx 0 false [.add .a, .add .b, .add .h], .commit, .restart,
                   .tx 1 false [.call .h .both 3 7 false, .run .ab 2 (-1)], .commit] =
      [.ok, .dump 1 { da := true, db := true, dh := true }, .ok, .ok,
       .dump 2 { da := true, db := true, dh := true, a := [(2, -1), (3, 7)], b := [(3, 7), (2, -1)], hn := 1 }] := by
  decide

/-! ## Part 2 — map enumeration order -/

/-- SORT-THEN-FOLD: the result does not depend on the order in which the map was
enumerated (`l₁ ~ l₂`), for ANY step function `f` — however order-sensitive — as long
as the keys are pairwise distinct (they are map keys) and the order is a total order on
keys.  Covers: `processStorageDeposit` (keeper.go:1814-1822), `cacheStore.writeLocked`
and `dirtyItems` (cache/store.go:258, 417), `GenesisStateRef.StreamJSON`,
`resolveEffectiveDeps`, `Balances.List`. -/
theorem sort_fold_perm {α β κ : Type} (key : α → κ) (le : κ → κ → Bool)
    (total : ∀ a b, (le a b || le b a) = true)
    (trans : ∀ a b c, le a b = true → le b c = true → le a c = true)
    (antisymm : ∀ a b, le a b = true → le b a = true → a = b)
    (f : β → α → β) (init : β) {l₁ l₂ : List α} (hp : l₁.Perm l₂) (hnd : (l₁.map key).Nodup) :
    (l₁.mergeSort fun x y => le (key x) (key y)).foldl f init =
      (l₂.mergeSort fun x y => le (key x) (key y)).foldl f init :=
  sort_fold_perm_key key le total trans antisymm f init hp hnd

/-- ORDER-INSENSITIVE ACCUMULATION: a fold whose steps commute does not depend on the
enumeration order.  Covers: `realmDiffs[path] += diff` (keeper.go:1805), distinct-key
writes into an overlay (`RecomputeSupply`, `txLog.Commit`, `CopyFromCachedStore`,
`MultiWrite` over independent sub-stores), filters from map to map. -/
theorem comm_fold_perm {α β : Type} (f : β → α → β)
    (comm : ∀ x y z, f (f z x) y = f (f z y) x) (init : β) {l₁ l₂ : List α} (hp : l₁.Perm l₂) :
    l₁.foldl f init = l₂.foldl f init :=
  hp.foldl_eq' (fun x _ y _ z => comm x y z) init

/-- Storage-deposit settlement gives the same locks, refunds, shortfalls and remaining
deposit whatever order `range realmDiffs` produced. -/
theorem settle_enumeration_independent (price depositAmt : Int) {e₁ e₂ : List (RealmAcct × Int)}
    (hp : e₁.Perm e₂) (hnd : (e₁.map fun x => x.1.path).Nodup) :
    settle price depositAmt e₁ = settle price depositAmt e₂ :=
  sort_fold_perm (fun x : RealmAcct × Int => x.1.path) pathLe pathLe_total pathLe_trans pathLe_antisymm
    (settleOne price) { depositAmt } hp hnd

def rX : RealmAcct := { path := [1], storage := 0, deposit := 0 }
def rY : RealmAcct := { path := [2], storage := 0, deposit := 0 }

/-- Without the sort the loop IS order-dependent: the deposit covers either realm but not
both, so the enumeration order decides which one is locked and which one fails. -/
theorem settleUnsorted_order_dependent :
    [(rX, (80 : Int)), (rY, 50)].Perm [(rY, 50), (rX, 80)] ∧
      settleUnsorted 1 100 [(rX, 80), (rY, 50)] ≠ settleUnsorted 1 100 [(rY, 50), (rX, 80)] :=
  ⟨List.Perm.swap _ _ _, by decide⟩

example : settle 1 100 [(rX, 80), (rY, 50)] = settle 1 100 [(rY, 50), (rX, 80)] :=
  settle_enumeration_independent 1 100 (List.Perm.swap _ _ _) (by decide)

example : settle 1 100 [(rY, 50), (rX, 80)] =
    { depositAmt := 20, events := [.locked [1] 80 80, .shortDeposit [2] 50] } := by
  rw [settle_enumeration_independent 1 100
    (List.Perm.swap _ _ _ : [(rY, (50 : Int)), (rX, 80)].Perm [(rX, 80), (rY, 50)]) (by decide)]
  unfold settle
  rw [List.mergeSort_of_pairwise (by decide)]
  decide

/-- The `+=` merge of the params byte deltas into the realm diffs is order-independent
(no distinctness needed). -/
theorem mergeDiffs_enumeration_independent (base : List Nat → Int) {e₁ e₂ : List (List Nat × Int)}
    (hp : e₁.Perm e₂) : mergeDiffs base e₁ = mergeDiffs base e₂ := by
  apply comm_fold_perm _ _ base hp
  intro x y z
  funext p
  by_cases h1 : (p == x.1) = true <;> by_cases h2 : (p == y.1) = true <;> simp [h1, h2] <;> omega

/-- The cache store's flush reaches the parent in the same order whatever order
`range store.cache` produced — for any parent and any write function. -/
theorem flush_enumeration_independent {σ : Type} (apply : σ → List Nat × Option (List Nat) → σ) (parent : σ)
    {d₁ d₂ : List (List Nat × Option (List Nat))} (hp : d₁.Perm d₂) (hnd : (d₁.map (·.1)).Nodup) :
    flush apply parent d₁ = flush apply parent d₂ :=
  sort_fold_perm (fun x : List Nat × Option (List Nat) => x.1) pathLe pathLe_total pathLe_trans pathLe_antisymm
    apply parent hp hnd

/-! ## Part 2b — gas charged inside a map range

Found by this check in two places, both fixed since by sorting before the loop:
`FinalizeRealmTransaction` (gnovm/pkg/gnolang/realm.go, 49a301f457) and
`applyUnrestrictedAddrsChange` (tm2/pkg/sdk/auth/params.go, 07a103d537). -/

/-- The loop as it is now (touched foreign realms collected, sorted by path, then
`SetPackageRealm` each): the whole outcome of the meter — the gas reported for the
transaction included, also when it runs out of gas inside the loop — does not depend on
the order in which the map was enumerated. -/
theorem foreign_realm_gas_enumeration_independent (m : Meter) {e₁ e₂ : List (List Nat × Nat)}
    (hp : e₁.Perm e₂) (hnd : (e₁.map (·.1)).Nodup) : chargeSorted m e₁ = chargeSorted m e₂ :=
  sort_fold_perm (fun x : List Nat × Nat => x.1) pathLe pathLe_total pathLe_trans pathLe_antisymm
    chargeStep (.ok m) hp hnd

/-- …and it is the plain charging loop on the sorted realms. -/
theorem chargeSorted_eq_chargeAll (m : Meter) (enum : List (List Nat × Nat)) :
    chargeSorted m enum = chargeAll m ((enum.mergeSort fun x y => pathLe x.1 y.1).map (·.2)) :=
  foldl_chargeStep _ m

/-- WHAT THE SORT PREVENTS.  The statement "the reported gas does not depend on the
enumeration order" for the loop WITHOUT the sort (the code before the fix).  Refuted by
`unsorted_gas_used_counterexample`. -/
def unsorted_gas_used_order_independent_statement : Prop :=
  ∀ (m : Meter) (c₁ c₂ : List Nat), m.consumed ≤ m.limit → c₁.Perm c₂ →
    gasUsed (chargeAll m c₁) = gasUsed (chargeAll m c₂)

/-- Without the sort, and within the gas limit, the order did not matter… -/
theorem unsorted_within_limit_order_independent (m : Meter) {c₁ c₂ : List Nat} (hp : c₁.Perm c₂)
    (h : m.consumed + c₁.sum ≤ m.limit) : chargeAll m c₁ = chargeAll m c₂ := by
  rw [chargeAll_in_budget c₁ m h, chargeAll_in_budget c₂ m (by rw [← hp.sum_nat]; exact h), hp.sum_nat]

/-- …nor did it matter for WHETHER the transaction runs out of gas… -/
theorem out_of_gas_order_independent (m : Meter) {c₁ c₂ : List Nat} (h0 : m.consumed ≤ m.limit)
    (hp : c₁.Perm c₂) : isOutOfGas (chargeAll m c₁) = isOutOfGas (chargeAll m c₂) := by
  rw [isOutOfGas_iff c₁ m h0, isOutOfGas_iff c₂ m h0, hp.sum_nat]

/-- …nor for what the BLOCK gas meter is charged (`GasConsumedToLimit`): the app hash was
never affected. -/
theorem block_gas_order_independent (m : Meter) {c₁ c₂ : List Nat} (h0 : m.consumed ≤ m.limit)
    (hp : c₁.Perm c₂) : gasToLimit (chargeAll m c₁) = gasToLimit (chargeAll m c₂) := by
  rw [gasToLimit_eq c₁ m h0, gasToLimit_eq c₂ m h0, hp.sum_nat]

/-- …but the GasUsed reported for a transaction that ran out of gas inside the loop did:
with the numbers measured on the real application before the fix (corpus/C01/02:
3380663 gas consumed before the loop, the two realm records cost 25224 and 25190, gas
limit 3400000) it was 3405887 in one order and 3405853 in the other. -/
theorem unsorted_gas_used_counterexample : ¬ unsorted_gas_used_order_independent_statement := by
  intro h
  have := h { limit := 3400000, consumed := 3380663 } [25224, 25190] [25190, 25224] (by decide)
    (List.Perm.swap _ _ _)
  revert this
  decide

example : gasUsed (chargeAll { limit := 3400000, consumed := 3380663 } [25224, 25190]) = 3405887 := by decide
example : gasUsed (chargeAll { limit := 3400000, consumed := 3380663 } [25190, 25224]) = 3405853 := by decide
/-- with the sort both enumerations report the same (ra sorts before rb) -/
example : chargeSorted { limit := 3400000, consumed := 3380663 } [([1], 25224), ([2], 25190)] =
    chargeSorted { limit := 3400000, consumed := 3380663 } [([2], 25190), ([1], 25224)] :=
  foreign_realm_gas_enumeration_independent _ (List.Perm.swap _ _ _) (by decide)
/-- THE SAME DEFECT, SECOND PLACE (also fixed since: the addresses are sorted first):
`applyUnrestrictedAddrsChange` (tm2/pkg/sdk/auth/params.go) ranged over the set of added
addresses and charged one account read and one account write per entry.  Numbers measured on the real application (corpus/C01/03):
1153595 consumed before the loop; u1: read 2516, write 249700; u2: read 1445, write
248818; gas limit 1300000 — GasUsed 1405811 when the map yields u1 first, 1403858 when it
yields u2 first. -/
example : gasUsed (chargeAll { limit := 1300000, consumed := 1153595 } [2516, 249700, 1445, 248818]) = 1405811 := by decide
example : gasUsed (chargeAll { limit := 1300000, consumed := 1153595 } [1445, 248818, 2516, 249700]) = 1403858 := by decide
example : [2516, 249700, 1445, 248818].Perm [1445, 248818, 2516, 249700] := by decide
/-- the guard of `unsorted_within_limit_order_independent` is satisfiable (the full-gas run) -/
example : (3380663 : Nat) + [25224, 25190].sum ≤ 300000000 := by decide

/-! ## Part 3 — the results hash -/

/-- Responses that agree on Error, Data and Events have the same results hash — Log,
GasWanted and GasUsed are not covered. -/
theorem resultsHash_blind_to_gas_and_log {β γ : Type} (enc : ABCIResult → β) (root : List β → γ)
    (rs₁ rs₂ : List DeliverTx) (h : rs₁.map resultOf = rs₂.map resultOf) :
    resultsHash enc root rs₁ = resultsHash enc root rs₂ := by
  unfold resultsHash; rw [h]

/-- A concrete pair: different gas used, same results hash for every encoding and hash. -/
theorem gas_not_covered_witness :
    ∃ r₁ r₂ : DeliverTx, r₁.gasUsed ≠ r₂.gasUsed ∧
      ∀ {β γ : Type} (enc : ABCIResult → β) (root : List β → γ), resultsHash enc root [r₁] = resultsHash enc root [r₂] :=
  ⟨{ error := none, data := [], events := [], log := [], gasWanted := 10, gasUsed := 5 },
   { error := none, data := [], events := [], log := [], gasWanted := 10, gasUsed := 6 },
   by decide, fun _ _ => rfl⟩

/-- The results hash covers Error, Data and Events: for an injective encoding and a
collision-free list hash, equal hashes mean the same Error, Data and Events for every
transaction of the block, in order. -/
theorem results_hash_covers {β γ : Type} (enc : ABCIResult → β) (root : List β → γ)
    (henc : Function.Injective enc) (hroot : Function.Injective root) (rs₁ rs₂ : List DeliverTx)
    (h : resultsHash enc root rs₁ = resultsHash enc root rs₂) : rs₁.map resultOf = rs₂.map resultOf :=
  (List.map_inj_right (fun _ _ e => henc e)).mp (hroot h)

/-- The hypotheses of `results_hash_covers` are satisfiable (identity encoding and hash). -/
example : ∃ (enc : ABCIResult → ABCIResult) (root : List ABCIResult → List ABCIResult),
    Function.Injective enc ∧ Function.Injective root :=
  ⟨id, id, fun _ _ h => h, fun _ _ h => h⟩

end GnoVerif.C01
